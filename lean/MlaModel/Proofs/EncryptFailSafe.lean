/-
  Helpers for the layer laws of the fail-safe decryptor (`EncryptionLayerFailSafeReader`):
  fuel-free forms of the functional specifications, a chunk-wise description of `sealS`,
  the reader invariant and the "still to be delivered" function of a reader state.
-/
import MlaModel.Proofs.EncryptWriter
namespace MlaModel

/-! ### `xorAt` and prefixes -/

theorem xorAt_invol (ks) (off) (x : Bytes) : xorAt ks off (xorAt ks off x) = x := by
  induction x generalizing off with
  | nil => rfl
  | cons b bs ih => simp [xorAt, ih, UInt8.xor_assoc]

theorem xorAt_prefix (ks) (off) {a b : Bytes} (h : a <+: b) : xorAt ks off a <+: xorAt ks off b := by
  obtain ⟨t, rfl⟩ := h
  rw [xorAt_append]; exact List.prefix_append _ _

theorem xorAt_eq_nil_iff (ks) (off) (x : Bytes) : xorAt ks off x = [] ↔ x = [] := by
  cases x <;> simp [xorAt]

theorem prefix_drop {α} {a b : List α} (n : Nat) (h : a <+: b) : a.drop n <+: b.drop n := by
  obtain ⟨t, rfl⟩ := h
  rw [List.drop_append]; exact List.prefix_append _ _

theorem prefix_take {α} {a b : List α} (n : Nat) (h : a <+: b) : a.take n <+: b.take n := by
  obtain ⟨t, rfl⟩ := h
  rw [List.take_append]; exact List.prefix_append _ _

/-- a prefix that is at least `n` long has the same first `n` elements -/
theorem prefix_take_eq {α} {a b : List α} (n : Nat) (h : a <+: b) (hn : n ≤ a.length) :
    a.take n = b.take n := by
  obtain ⟨t, rfl⟩ := h
  rw [List.take_append_of_le_length hn]

/-! ### Fuel-free forms of the specifications -/

theorem fsUnauth_fuel (P : Params) (C : EncPrims) :
    ∀ (f1 f2 i : Nat) (e : Bytes), e.length < f1 → e.length < f2 →
      fsUnauth P C f1 i e = fsUnauth P C f2 i e := by
  intro f1
  induction f1 with
  | zero => intro f2 i e h; omega
  | succ f1 ih =>
    intro f2 i e h1 h2
    cases f2 with
    | zero => omega
    | succ f2 =>
      simp only [fsUnauth]
      by_cases he : e = []
      · simp [he]
      · by_cases hs : (e.take P.chunk).length < P.chunk
        · simp only [he, hs, if_true, if_false]
        · have hc := P.hchunk
          have hl : ((e.drop P.chunk).drop P.tagLen).length < e.length := by
            simp only [List.length_take, List.length_drop] at hs ⊢; omega
          simp only [he, hs, if_false]
          rw [ih f2 (i+1) _ (by omega) (by omega)]

theorem fsAuthFrom_fuel (P : Params) (C : EncPrims) :
    ∀ (f1 f2 i : Nat) (e : Bytes), e.length < f1 → e.length < f2 →
      fsAuthFrom P C f1 i e = fsAuthFrom P C f2 i e := by
  intro f1
  induction f1 with
  | zero => intro f2 i e h; omega
  | succ f1 ih =>
    intro f2 i e h1 h2
    cases f2 with
    | zero => omega
    | succ f2 =>
      simp only [fsAuthFrom]
      by_cases he : e = []
      · simp [he]
      · simp only [he, if_false]
        cases hoc : openChunk P C i (e.take (P.chunk + P.tagLen)) with
        | error er => rfl
        | ok pt =>
          by_cases hs : pt.length < P.chunk
          · simp [hs]
          · have hc := P.hchunk
            have hpos : 0 < e.length := List.length_pos_iff.mpr he
            have hl : (e.drop (P.chunk + P.tagLen)).length < e.length := by
              simp only [List.length_drop]; omega
            simp only [hs, if_false]
            rw [ih f2 (i+1) _ (by omega) (by omega)]

theorem fsUnauth_succ (P : Params) (C : EncPrims) (F i : Nat) (e : Bytes) :
    fsUnauth P C (F+1) i e = if e = [] then [] else
      xorAt (C.ks i) 0 (e.take P.chunk) ++
        (if (e.take P.chunk).length < P.chunk then []
         else fsUnauth P C F (i+1) ((e.drop P.chunk).drop P.tagLen)) := rfl

theorem fsAuthFrom_succ (P : Params) (C : EncPrims) (F i : Nat) (e : Bytes) :
    fsAuthFrom P C (F+1) i e = if e = [] then [] else
      match openChunk P C i (e.take (P.chunk + P.tagLen)) with
      | .error _ => []
      | .ok pt => pt ++ (if pt.length < P.chunk then []
                         else fsAuthFrom P C F (i+1) (e.drop (P.chunk + P.tagLen))) := rfl

/-- unauthenticated specification from chunk `i` on, no fuel -/
def fsU (P : Params) (C : EncPrims) (i : Nat) (e : Bytes) : Bytes :=
  fsUnauth P C (e.length + 1) i e

/-- authenticated specification from chunk `i` on, no fuel -/
def fsA (P : Params) (C : EncPrims) (i : Nat) (e : Bytes) : Bytes :=
  fsAuthFrom P C (e.length + 1) i e

theorem fsUnauth_eq_fsU (P : Params) (C : EncPrims) (F i : Nat) (e : Bytes) (h : e.length < F) :
    fsUnauth P C F i e = fsU P C i e :=
  fsUnauth_fuel P C _ _ i e h (Nat.lt_succ_self _)

theorem fsAuthFrom_eq_fsA (P : Params) (C : EncPrims) (F i : Nat) (e : Bytes) (h : e.length < F) :
    fsAuthFrom P C F i e = fsA P C i e :=
  fsAuthFrom_fuel P C _ _ i e h (Nat.lt_succ_self _)

@[simp] theorem fsU_nil (P : Params) (C : EncPrims) (i : Nat) : fsU P C i [] = [] := by
  simp [fsU, fsUnauth]

@[simp] theorem fsA_nil (P : Params) (C : EncPrims) (i : Nat) : fsA P C i [] = [] := by
  simp [fsA, fsAuthFrom]

theorem fsU_short (P : Params) (C : EncPrims) (i : Nat) (e : Bytes) (h : e.length < P.chunk) :
    fsU P C i e = xorAt (C.ks i) 0 e := by
  by_cases he : e = []
  · subst he; simp [xorAt]
  · have ht : e.take P.chunk = e := List.take_of_length_le (by omega)
    simp [fsU, fsUnauth, he, ht, h]

theorem fsU_long (P : Params) (C : EncPrims) (i : Nat) (e : Bytes) (h : P.chunk ≤ e.length) :
    fsU P C i e = xorAt (C.ks i) 0 (e.take P.chunk) ++ fsU P C (i+1) ((e.drop P.chunk).drop P.tagLen) := by
  have hc := P.hchunk
  have he : e ≠ [] := by intro h0; subst h0; simp at h; omega
  have hs : ¬ (e.take P.chunk).length < P.chunk := by simp [List.length_take]; omega
  have hl : ((e.drop P.chunk).drop P.tagLen).length < e.length := by
    simp only [List.length_drop]; omega
  rw [fsU, fsUnauth_succ]
  simp only [he, hs, if_false]
  rw [fsUnauth_eq_fsU P C e.length (i+1) _ hl]

/-- the one-step unfolding of `fsU`, both cases at once -/
theorem fsU_unfold (P : Params) (C : EncPrims) (i : Nat) (e : Bytes) :
    fsU P C i e = xorAt (C.ks i) 0 (e.take P.chunk) ++
      (if e.length < P.chunk then [] else fsU P C (i+1) ((e.drop P.chunk).drop P.tagLen)) := by
  by_cases h : e.length < P.chunk
  · rw [fsU_short P C i e h, List.take_of_length_le (by omega)]; simp [h]
  · rw [fsU_long P C i e (by omega)]; simp [h]

theorem fsA_unfold (P : Params) (C : EncPrims) (i : Nat) (e : Bytes) (he : e ≠ []) :
    fsA P C i e = match openChunk P C i (e.take (P.chunk + P.tagLen)) with
      | .error _ => []
      | .ok pt => pt ++ (if pt.length < P.chunk then [] else fsA P C (i+1) (e.drop (P.chunk + P.tagLen))) := by
  have hc := P.hchunk
  have hpos : 0 < e.length := List.length_pos_iff.mpr he
  have hl : (e.drop (P.chunk + P.tagLen)).length < e.length := by
    simp only [List.length_drop]; omega
  rw [fsA, fsAuthFrom_succ]
  simp only [he, if_false]
  rw [fsAuthFrom_eq_fsA P C e.length (i+1) _ hl]

theorem fsAuth_eq (P : Params) (C : EncPrims) (e : Bytes) :
    fsAuth P C e = if e = [] then [] else
      xorAt (C.ks 0) 0 (e.take P.chunk) ++
        (if e.length < P.chunk then [] else fsA P C 1 ((e.drop P.chunk).drop P.tagLen)) := by
  have hc := P.hchunk
  by_cases he : e = []
  · subst he; simp [fsAuth]
  · have hpos : 0 < e.length := List.length_pos_iff.mpr he
    have hd : e.take P.chunk ≠ [] := by
      intro h0; have := congrArg List.length h0
      simp only [List.length_take, List.length_nil] at this; omega
    by_cases hs : e.length < P.chunk
    · have : (e.take P.chunk).length < P.chunk := by simp [List.length_take]; omega
      simp only [fsAuth, hd, he, hs, this, if_true, if_false]
    · have hs' : ¬ (e.take P.chunk).length < P.chunk := by simp [List.length_take]; omega
      have hl : ((e.drop P.chunk).drop P.tagLen).length < e.length + 1 := by
        simp only [List.length_drop]; omega
      simp only [fsAuth, hd, he, hs, hs', if_false]
      rw [fsAuthFrom_eq_fsA P C _ 1 _ hl]

/-! ### `openChunk` -/

theorem openChunk_ok {P : Params} {C : EncPrims} {i : Nat} {dt pt : Bytes}
    (h : openChunk P C i dt = .ok pt) :
    P.tagLen ≤ dt.length ∧ pt = xorAt (C.ks i) 0 (dt.take (dt.length - P.tagLen)) ∧
      C.tag i (dt.take (dt.length - P.tagLen)) = dt.drop (dt.length - P.tagLen) := by
  unfold openChunk at h
  split at h
  · cases h
  · dsimp only at h
    split at h
    · rename_i h1 h2
      injection h with h
      exact ⟨by omega, h.symm, h2⟩
    · cases h

theorem openChunk_short (P : Params) (C : EncPrims) (i : Nat) (dt : Bytes)
    (h : dt.length < P.tagLen) : openChunk P C i dt = .error .wrongTag := by
  simp [openChunk, h]

theorem openChunk_sealed (P : Params) (C : EncPrims) (i : Nat) (c : Bytes)
    (hT : (C.tag i c).length = P.tagLen) :
    openChunk P C i (c ++ C.tag i c) = .ok (xorAt (C.ks i) 0 c) := by
  have h1 : ¬ (c ++ C.tag i c).length < P.tagLen := by simp [hT]
  have h2 : (c ++ C.tag i c).length - P.tagLen = c.length := by simp [hT]
  have h3 : (c ++ C.tag i c).take c.length = c := by simp
  have h4 : (c ++ C.tag i c).drop c.length = C.tag i c := by simp
  unfold openChunk
  rw [if_neg h1]
  simp only [h2, h3, h4, if_true]

/-! ### Unauthenticated mode: decrypting a prefix gives a prefix (L4, all byte strings) -/

theorem fsU_mono_aux (P : Params) (C : EncPrims) :
    ∀ (n i : Nat) (r₁ r₂ : Bytes), r₁.length < n → r₁ <+: r₂ → fsU P C i r₁ <+: fsU P C i r₂ := by
  intro n
  induction n with
  | zero => intro i r₁ r₂ h; omega
  | succ n ih =>
    intro i r₁ r₂ hn hp
    have hc := P.hchunk
    have hle := hp.length_le
    by_cases hs : r₁.length < P.chunk
    · rw [fsU_short P C i r₁ hs, fsU_unfold P C i r₂]
      have : r₁ <+: r₂.take P.chunk := List.prefix_take_iff.mpr ⟨hp, by omega⟩
      exact (xorAt_prefix _ _ this).trans (List.prefix_append _ _)
    · rw [fsU_long P C i r₁ (by omega), fsU_long P C i r₂ (by omega),
        prefix_take_eq P.chunk hp (by omega)]
      apply (List.prefix_append_right_inj _).mpr
      apply ih
      · simp only [List.length_drop]; omega
      · exact prefix_drop _ (prefix_drop _ hp)

theorem fsU_mono (P : Params) (C : EncPrims) (i : Nat) {r₁ r₂ : Bytes} (h : r₁ <+: r₂) :
    fsU P C i r₁ <+: fsU P C i r₂ :=
  fsU_mono_aux P C _ i r₁ r₂ (Nat.lt_succ_self _) h

/-- a stream that ends inside (or at the end of) the tag of a full chunk decrypts to the same bytes
    as the stream that ends at the start of that tag -/
theorem fsU_cut_in_tag (P : Params) (C : EncPrims) :
    ∀ (j i : Nat) (x c t : Bytes), x.length = j * (P.chunk + P.tagLen) → c.length = P.chunk →
      t.length ≤ P.tagLen → fsU P C i (x ++ c ++ t) = fsU P C i (x ++ c) := by
  intro j
  induction j with
  | zero =>
    intro i x c t hx hcl htl
    have : x = [] := List.eq_nil_of_length_eq_zero (by simpa using hx)
    subst this
    simp only [List.nil_append]
    rw [fsU_long P C i (c ++ t) (by simp; omega), fsU_long P C i c (by omega),
      List.take_left' hcl, List.drop_left' hcl, List.take_of_length_le (by omega),
      List.drop_eq_nil_of_le htl, List.drop_eq_nil_of_le (Nat.le_of_eq hcl)]
    simp
  | succ j ih =>
    intro i x c t hx hcl htl
    have hc := P.hchunk
    have hmul : (j + 1) * (P.chunk + P.tagLen) = j * (P.chunk + P.tagLen) + (P.chunk + P.tagLen) := by
      rw [Nat.add_mul]; omega
    have hxl : P.chunk + P.tagLen ≤ x.length := by omega
    rw [fsU_long P C i (x ++ c ++ t) (by simp; omega), fsU_long P C i (x ++ c) (by simp; omega),
      List.append_assoc, List.take_append_of_le_length (by omega),
      List.take_append_of_le_length (by omega), List.drop_drop, List.drop_drop,
      List.drop_append_of_le_length hxl, List.drop_append_of_le_length hxl, ← List.append_assoc,
      ih (i+1) (x.drop (P.chunk + P.tagLen)) c t (by simp only [List.length_drop]; omega) hcl htl]

theorem fsU_length_le (P : Params) (C : EncPrims) :
    ∀ (n i : Nat) (e : Bytes), e.length < n → (fsU P C i e).length ≤ e.length := by
  intro n
  induction n with
  | zero => intro i e h; omega
  | succ n ih =>
    intro i e hn
    have hc := P.hchunk
    by_cases hs : e.length < P.chunk
    · rw [fsU_short P C i e hs]; simp
    · rw [fsU_long P C i e (by omega)]
      have := ih (i+1) ((e.drop P.chunk).drop P.tagLen) (by simp only [List.length_drop]; omega)
      simp only [List.length_append, xorAt_length, List.length_take, List.length_drop] at this ⊢
      omega

/-! ### C04.unauth_ge: the authenticated result is a prefix of the unauthenticated one -/

theorem fsA_prefix_fsU_aux (P : Params) (C : EncPrims) :
    ∀ (n i : Nat) (e : Bytes), e.length < n → fsA P C i e <+: fsU P C i e := by
  intro n
  induction n with
  | zero => intro i e h; omega
  | succ n ih =>
    intro i e hn
    have hc := P.hchunk
    by_cases he : e = []
    · subst he; simp
    · rw [fsA_unfold P C i e he]
      cases hoc : openChunk P C i (e.take (P.chunk + P.tagLen)) with
      | error er => exact List.nil_prefix
      | ok pt =>
        obtain ⟨h1, h2, _⟩ := openChunk_ok hoc
        have hpl : pt.length = (e.take (P.chunk + P.tagLen)).length - P.tagLen := by
          rw [h2]; simp only [xorAt_length, List.length_take]; omega
        simp only [List.length_take] at hpl h1
        by_cases hlt : e.length < P.chunk + P.tagLen
        · have hdt : e.take (P.chunk + P.tagLen) = e := List.take_of_length_le (by omega)
          have hps : pt.length < P.chunk := by omega
          simp only [hps, if_true, List.append_nil]
          rw [h2, hdt, fsU_unfold P C i e]
          exact (xorAt_prefix _ _ (List.take_prefix_take_left (by omega))).trans
            (List.prefix_append _ _)
        · have hps : ¬ pt.length < P.chunk := by omega
          have hct : (e.take (P.chunk + P.tagLen)).take
              ((e.take (P.chunk + P.tagLen)).length - P.tagLen) = e.take P.chunk := by
            rw [List.take_take, List.length_take]
            congr 1; omega
          simp only [hps, if_false]
          rw [h2, hct, fsU_long P C i e (by omega), List.drop_drop]
          apply (List.prefix_append_right_inj _).mpr
          apply ih
          simp only [List.length_drop]; omega

theorem fsA_prefix_fsU (P : Params) (C : EncPrims) (i : Nat) (e : Bytes) :
    fsA P C i e <+: fsU P C i e :=
  fsA_prefix_fsU_aux P C _ i e (Nat.lt_succ_self _)

theorem fsAuth_prefix_fsU (P : Params) (C : EncPrims) (e : Bytes) :
    fsAuth P C e <+: fsU P C 0 e := by
  rw [fsAuth_eq, fsU_unfold]
  by_cases he : e = []
  · simp [he]
  · simp only [he, if_false]
    apply (List.prefix_append_right_inj _).mpr
    by_cases hs : e.length < P.chunk
    · simp [hs]
    · simp only [hs, if_false]; exact fsA_prefix_fsU P C 1 _

/-! ### Chunk-wise description of the sealed stream -/

/-- `sealS` with the chunk indices starting at `i` -/
def sealI (P : Params) (C : EncPrims) (i : Nat) (p : Bytes) : Bytes :=
  encFull P C ((p.length - 1) / P.chunk) i p ++
    xorAt (C.ks (i + (p.length - 1) / P.chunk)) 0 (p.drop ((p.length - 1) / P.chunk * P.chunk)) ++
    C.tag (i + (p.length - 1) / P.chunk)
      (xorAt (C.ks (i + (p.length - 1) / P.chunk)) 0 (p.drop ((p.length - 1) / P.chunk * P.chunk)))

theorem sealS_eq_sealI (P : Params) (C : EncPrims) (p : Bytes) : sealS P C p = sealI P C 0 p := by
  simp [sealS, sealI]

theorem sealI_short (P : Params) (C : EncPrims) (i : Nat) (p : Bytes) (h : p.length ≤ P.chunk) :
    sealI P C i p = xorAt (C.ks i) 0 p ++ C.tag i (xorAt (C.ks i) 0 p) := by
  have hc := P.hchunk
  have h0 : (p.length - 1) / P.chunk = 0 := Nat.div_eq_of_lt (by omega)
  simp [sealI, h0, encFull]

theorem sealI_long (P : Params) (C : EncPrims) (i : Nat) (p : Bytes) (h : P.chunk < p.length) :
    sealI P C i p = xorAt (C.ks i) 0 (p.take P.chunk) ++ C.tag i (xorAt (C.ks i) 0 (p.take P.chunk)) ++
      sealI P C (i+1) (p.drop P.chunk) := by
  have hc := P.hchunk
  have hdiv : (p.length - 1) / P.chunk = ((p.drop P.chunk).length - 1) / P.chunk + 1 := by
    rw [← Nat.add_div_right _ hc]; congr 1; simp only [List.length_drop]; omega
  generalize hn : ((p.drop P.chunk).length - 1) / P.chunk = n at hdiv
  have hmul : (n + 1) * P.chunk = P.chunk + n * P.chunk := by rw [Nat.add_mul]; omega
  have hidx : i + (n + 1) = i + 1 + n := by omega
  simp only [sealI, hdiv, hn, encFull, hmul, hidx, List.drop_drop, List.append_assoc]

/-! ### L3: what the specifications give on a complete sealed stream -/

section
variable (P : Params) (C : EncPrims) (hTag : ∀ i c, (C.tag i c).length = P.tagLen)
include hTag

theorem fsU_sealI_aux :
    ∀ (n i : Nat) (p : Bytes), p.length < n → p <+: fsU P C i (sealI P C i p) := by
  intro n
  induction n with
  | zero => intro i p h; omega
  | succ n ih =>
    intro i p hn
    have hc := P.hchunk
    by_cases hs : p.length ≤ P.chunk
    · rw [sealI_short P C i p hs, fsU_unfold]
      have hcl : (xorAt (C.ks i) 0 p).length ≤ P.chunk := by simpa using hs
      rw [List.take_append, List.take_of_length_le hcl, xorAt_append, xorAt_invol, List.append_assoc]
      exact List.prefix_append _ _
    · have hcl : (xorAt (C.ks i) 0 (p.take P.chunk)).length = P.chunk := by
        simp [List.length_take]; omega
      rw [sealI_long P C i p (by omega), List.append_assoc, fsU_long _ _ _ _ (by simp; omega),
        List.take_left' hcl, List.drop_left' hcl, List.drop_left' (hTag _ _), xorAt_invol]
      conv => lhs; rw [← List.take_append_drop P.chunk p]
      apply (List.prefix_append_right_inj _).mpr
      apply ih
      simp only [List.length_drop]; omega

theorem fsA_sealI_aux :
    ∀ (n i : Nat) (q : Bytes), q.length < n → fsA P C i (sealI P C i q) = q := by
  intro n
  induction n with
  | zero => intro i q h; omega
  | succ n ih =>
    intro i q hn
    have hc := P.hchunk
    have ht := P.htag
    by_cases hs : q.length ≤ P.chunk
    · have hne : xorAt (C.ks i) 0 q ++ C.tag i (xorAt (C.ks i) 0 q) ≠ [] := by
        intro h0; have := congrArg List.length h0; simp [hTag] at this; omega
      have hlen : (xorAt (C.ks i) 0 q ++ C.tag i (xorAt (C.ks i) 0 q)).length ≤ P.chunk + P.tagLen := by
        simp [hTag]; omega
      rw [sealI_short P C i q hs, fsA_unfold P C i _ hne, List.take_of_length_le hlen,
        openChunk_sealed P C i _ (hTag _ _)]
      simp only [xorAt_invol, List.drop_eq_nil_of_le hlen, fsA_nil]
      split <;> simp
    · have hcl : (xorAt (C.ks i) 0 (q.take P.chunk) ++ C.tag i (xorAt (C.ks i) 0 (q.take P.chunk))).length
          = P.chunk + P.tagLen := by
        simp [List.length_take, hTag]; omega
      have hne : xorAt (C.ks i) 0 (q.take P.chunk) ++ C.tag i (xorAt (C.ks i) 0 (q.take P.chunk)) ++
          sealI P C (i+1) (q.drop P.chunk) ≠ [] := by
        intro h0; have := congrArg List.length h0
        rw [List.length_append, hcl] at this; simp at this; omega
      have hpl : ¬ (q.take P.chunk).length < P.chunk := by simp [List.length_take]; omega
      rw [sealI_long P C i q (by omega), fsA_unfold P C i _ hne, List.take_left' hcl,
        List.drop_left' hcl, openChunk_sealed P C i _ (hTag _ _)]
      simp only [xorAt_invol, hpl, if_false]
      rw [ih (i+1) _ (by simp only [List.length_drop]; omega), List.take_append_drop]

end

/-! ### Truncated sealed streams, authenticated chunks (`i ≥ 1`): never a byte beyond the plaintext -/

section
variable (P : Params) (C : EncPrims) (hTag : ∀ i c, (C.tag i c).length = P.tagLen)
include hTag

theorem fsA_trunc_aux :
    ∀ (n i : Nat) (q e : Bytes), q.length < n → e <+: sealI P C i q → fsA P C i e <+: q := by
  intro n
  induction n with
  | zero => intro i q e h; omega
  | succ n ih =>
    intro i q e hn hp
    have hc := P.hchunk
    have ht := P.htag
    by_cases he : e = []
    · subst he; simp
    rw [fsA_unfold P C i e he]
    cases hoc : openChunk P C i (e.take (P.chunk + P.tagLen)) with
    | error er => exact List.nil_prefix
    | ok pt =>
      obtain ⟨h1, h2, _⟩ := openChunk_ok hoc
      simp only []
      by_cases hs : q.length ≤ P.chunk
      · rw [sealI_short P C i q hs] at hp
        have hel : e.length ≤ q.length + P.tagLen := by
          have := hp.length_le; simpa [hTag] using this
        have hdt : e.take (P.chunk + P.tagLen) = e := List.take_of_length_le (by omega)
        rw [hdt] at h2
        have hct : e.take (e.length - P.tagLen) <+: xorAt (C.ks i) 0 q := by
          have := prefix_take (e.length - P.tagLen) hp
          rw [List.take_append_of_le_length (by simp; omega)] at this
          exact this.trans (List.take_prefix _ _)
        have hpt : pt <+: q := by
          rw [h2]; have := xorAt_prefix (C.ks i) 0 hct; rwa [xorAt_invol] at this
        have htail : e.drop (P.chunk + P.tagLen) = [] := List.drop_eq_nil_of_le (by omega)
        rw [htail]; simp only [fsA_nil]
        split <;> simpa using hpt
      · rw [sealI_long P C i q (by omega), List.append_assoc] at hp
        have hcl : (xorAt (C.ks i) 0 (q.take P.chunk)).length = P.chunk := by
          simp [List.length_take]; omega
        by_cases hlt : e.length < P.chunk + P.tagLen
        · have hdt : e.take (P.chunk + P.tagLen) = e := List.take_of_length_le (by omega)
          rw [hdt] at h2 h1
          have hct : e.take (e.length - P.tagLen) <+: xorAt (C.ks i) 0 (q.take P.chunk) := by
            have := prefix_take (e.length - P.tagLen) hp
            rw [List.take_append_of_le_length (by omega)] at this
            exact this.trans (List.take_prefix _ _)
          have hpt : pt <+: q.take P.chunk := by
            rw [h2]; have := xorAt_prefix (C.ks i) 0 hct; rwa [xorAt_invol] at this
          have hpl : pt.length < P.chunk := by rw [h2]; simp; omega
          simp only [hpl, if_true, List.append_nil]
          exact hpt.trans (List.take_prefix _ _)
        · have hcl2 : (xorAt (C.ks i) 0 (q.take P.chunk) ++
              C.tag i (xorAt (C.ks i) 0 (q.take P.chunk))).length = P.chunk + P.tagLen := by
            simp [hcl, hTag]
          rw [← List.append_assoc] at hp
          have hdt : e.take (P.chunk + P.tagLen) = xorAt (C.ks i) 0 (q.take P.chunk) ++
              C.tag i (xorAt (C.ks i) 0 (q.take P.chunk)) := by
            rw [prefix_take_eq (P.chunk + P.tagLen) hp (by omega), List.take_left' hcl2]
          rw [hdt, openChunk_sealed P C i _ (hTag _ _), xorAt_invol] at hoc
          injection hoc with hoc
          subst hoc
          have hpl : ¬ (q.take P.chunk).length < P.chunk := by simp [List.length_take]; omega
          have htl : e.drop (P.chunk + P.tagLen) <+: sealI P C (i+1) (q.drop P.chunk) := by
            have := prefix_drop (P.chunk + P.tagLen) hp
            rwa [List.drop_left' hcl2] at this
          simp only [hpl, if_false]
          conv => rhs; rw [← List.take_append_drop P.chunk q]
          apply (List.prefix_append_right_inj _).mpr
          exact ih (i+1) _ _ (by simp only [List.length_drop]; omega) htl

end

/-! ### The fail-safe reader: invariant, pending bytes, one `read` -/

theorem take_append_drop_length {α} (X : List α) (k : Nat) :
    X.take k ++ X.drop (X.take k).length = X := by
  by_cases h : k ≤ X.length
  · rw [List.length_take, Nat.min_eq_left h, List.take_append_drop]
  · rw [List.take_of_length_le (by omega)]; simp

/-- reader invariant: the position is inside the cached chunk, which is at most `chunk` long;
    nothing is required of a reader that has failed (its cache has been dropped, its position kept) -/
def EncF.Inv (P : Params) (f : EncF) : Prop :=
  (f.mode = .authenticated ∧ f.failed = true) ∨ (f.cpos ≤ f.cache.length ∧ f.cache.length ≤ P.chunk)

/-- the bytes a reader in state `f` has still to deliver -/
def EncF.pending (P : Params) (C : EncPrims) (f : EncF) : Bytes :=
  match f.mode with
  | .unauthenticated =>
    f.cache.drop f.cpos ++ (if f.cache.length < P.chunk then [] else fsU P C (f.chunkNo + 1) f.rest)
  | .authenticated =>
    if f.failed then [] else
    f.cache.drop f.cpos ++ (if f.cache.length < P.chunk then [] else fsA P C (f.chunkNo + 1) f.rest)

/-- reads with an arbitrary schedule of buffer sizes, until the first empty read or error -/
def EncF.deliverL (P : Params) (C : EncPrims) : List Nat → EncF → Bytes
  | [], _ => []
  | n :: ns, f =>
    match EncF.read P C f n with
    | (_, .error _) => []
    | (f', .ok out) => if out = [] then [] else out ++ EncF.deliverL P C ns f'

/-- a reader that has reached the end: every further read returns nothing and changes nothing -/
def EncF.Done (P : Params) (f : EncF) : Prop :=
  (f.mode = .authenticated ∧ f.failed = true) ∨ (f.cpos < P.chunk ∧ f.cache.length ≤ f.cpos)

theorem openChunk_err {P : Params} {C : EncPrims} {i : Nat} {dt : Bytes} {e : Err}
    (h : openChunk P C i dt = .error e) : e = .wrongTag := by
  unfold openChunk at h
  split at h
  · injection h with h; exact h.symm
  · dsimp only at h
    split at h
    · cases h
    · injection h with h; exact h.symm

theorem EncF.loadUnauth_mk (P : Params) (C : EncPrims) (rest cache : Bytes) (cpos chunkNo : Nat)
    (failed : Bool) (mode : FsMode) :
    EncF.loadUnauth P C ⟨rest, cache, cpos, chunkNo, failed, mode⟩ =
      if rest = [] then (⟨rest, [], 0, chunkNo, failed, mode⟩, false)
      else (⟨(rest.drop P.chunk).drop P.tagLen, xorAt (C.ks chunkNo) 0 (rest.take P.chunk), 0,
              chunkNo, failed, mode⟩, true) := by
  have hc : P.chunk ≠ 0 := Nat.pos_iff_ne_zero.mp P.hchunk
  simp only [EncF.loadUnauth, List.take_eq_nil_iff, hc, false_or]

theorem EncF.loadAuth_mk (P : Params) (C : EncPrims) (rest cache : Bytes) (cpos chunkNo : Nat)
    (failed : Bool) (mode : FsMode) :
    EncF.loadAuth P C ⟨rest, cache, cpos, chunkNo, failed, mode⟩ =
      if rest = [] then (⟨[], [], 0, chunkNo, failed, mode⟩, .ok false)
      else match openChunk P C chunkNo (rest.take (P.chunk + P.tagLen)) with
        | .error e => (⟨rest.drop (P.chunk + P.tagLen), [], cpos, chunkNo, failed, mode⟩, .error e)
        | .ok pt => (⟨rest.drop (P.chunk + P.tagLen), pt, 0, chunkNo, failed, mode⟩, .ok true) := by
  have hc : P.chunk + P.tagLen ≠ 0 := by have := P.hchunk; omega
  by_cases hr : rest = []
  · subst hr; simp [EncF.loadAuth]
  · simp only [EncF.loadAuth, List.take_eq_nil_iff, hc, false_or, hr, if_false]
    cases openChunk P C chunkNo (rest.take (P.chunk + P.tagLen)) <;> rfl

theorem EncF.fromCache_spec (P : Params) (C : EncPrims) (f : EncF) (n : Nat)
    (h1 : f.cpos ≤ f.cache.length) (h2 : f.cache.length ≤ P.chunk) (hlt : f.cpos < P.chunk)
    (hn : 0 < n) (hnf : f.mode = .authenticated → f.failed = false) :
    EncF.Inv P (EncF.fromCache P f n).1 ∧ (EncF.fromCache P f n).1.mode = f.mode ∧
    EncF.pending P C f = (EncF.fromCache P f n).2 ++ EncF.pending P C (EncF.fromCache P f n).1 ∧
    ((EncF.fromCache P f n).2 = [] → EncF.pending P C f = []) ∧
    (EncF.fromCache P f n).2 = (f.cache.drop f.cpos).take n := by
  obtain ⟨rest, cache, cpos, chunkNo, failed, mode⟩ := f
  simp only at h1 h2 hlt hnf
  have hk : (cache.drop cpos).take (min (P.chunk - cpos) n) = (cache.drop cpos).take n := by
    apply List.take_eq_take_iff.mpr; simp only [List.length_drop]; omega
  have hsplit := take_append_drop_length (cache.drop cpos) n
  rw [List.drop_drop] at hsplit
  have hol : ((cache.drop cpos).take n).length ≤ cache.length - cpos := by
    simp only [List.length_take, List.length_drop]; omega
  have hnil : (cache.drop cpos).take n = [] → cache.length < P.chunk ∧ cache.drop cpos = [] := by
    intro h0
    have := List.take_eq_nil_iff.mp h0
    have hd : cache.drop cpos = [] := by
      cases this with
      | inl h => omega
      | inr h => exact h
    have := congrArg List.length hd
    simp only [List.length_drop, List.length_nil] at this
    exact ⟨by omega, hd⟩
  refine ⟨?_, rfl, ?_, ?_, ?_⟩
  · right
    simp only [EncF.fromCache, hk]
    exact ⟨by omega, h2⟩
  · cases mode with
    | unauthenticated =>
      simp only [EncF.pending, EncF.fromCache, hk]
      rw [← List.append_assoc, hsplit]
    | authenticated =>
      have := hnf rfl
      subst this
      simp only [EncF.pending, EncF.fromCache, hk, Bool.false_eq_true, if_false]
      rw [← List.append_assoc, hsplit]
  · simp only [EncF.fromCache, hk]
    intro h0
    obtain ⟨hs, hd⟩ := hnil h0
    cases mode with
    | unauthenticated => simp [EncF.pending, hs, hd]
    | authenticated => have := hnf rfl; subst this; simp [EncF.pending, hs, hd]
  · simp only [EncF.fromCache, hk]

/-- **One read**: it succeeds, keeps the invariant and the mode, and returns a prefix of the pending
    bytes — a non-empty one unless nothing is pending. -/
theorem EncF.read_spec (P : Params) (C : EncPrims) (f : EncF) (n : Nat)
    (hI : EncF.Inv P f) (hn : 0 < n) :
    ∃ f' out, EncF.read P C f n = (f', .ok out) ∧ EncF.Inv P f' ∧ f'.mode = f.mode ∧
      EncF.pending P C f = out ++ EncF.pending P C f' ∧ (out = [] → EncF.pending P C f = []) := by
  have hc := P.hchunk
  obtain ⟨rest, cache, cpos, chunkNo, failed, mode⟩ := f
  cases mode with
  | unauthenticated =>
    have hI' : cpos ≤ cache.length ∧ cache.length ≤ P.chunk := by
      cases hI with
      | inl h => exact absurd h.1 (by simp)
      | inr h => exact h
    by_cases hcp : P.chunk - cpos = 0
    · have hcl : cache.length = P.chunk := by omega
      have hpf : EncF.pending P C ⟨rest, cache, cpos, chunkNo, failed, .unauthenticated⟩ =
          fsU P C (chunkNo + 1) rest := by
        have : cache.drop cpos = [] := List.drop_eq_nil_of_le (by omega)
        simp [EncF.pending, hcl, this]
      simp only [EncF.read, hcp, if_true, EncF.loadUnauth_mk]
      by_cases hr : rest = []
      · subst hr
        refine ⟨_, [], rfl, ?_, rfl, ?_, ?_⟩
        · right; simp
        · rw [hpf]; simp [EncF.pending, hc]
        · intro _; rw [hpf]; simp
      · simp only [hr, if_false]
        have hg := EncF.fromCache_spec P C
          ⟨(rest.drop P.chunk).drop P.tagLen, xorAt (C.ks (chunkNo + 1)) 0 (rest.take P.chunk), 0,
            chunkNo + 1, failed, .unauthenticated⟩ n (Nat.zero_le _)
          (by simp only [xorAt_length, List.length_take]; omega) hc hn (by simp)
        obtain ⟨g1, g2, g3, g4, _⟩ := hg
        have hpg : EncF.pending P C
            ⟨(rest.drop P.chunk).drop P.tagLen, xorAt (C.ks (chunkNo + 1)) 0 (rest.take P.chunk), 0,
              chunkNo + 1, failed, .unauthenticated⟩ = fsU P C (chunkNo + 1) rest := by
          rw [fsU_unfold P C (chunkNo + 1) rest]
          simp only [EncF.pending, List.drop_zero, xorAt_length, List.length_take]
          congr 1
          by_cases hs : rest.length < P.chunk
          · have : min P.chunk rest.length < P.chunk := by omega
            simp [hs, this]
          · have : ¬ min P.chunk rest.length < P.chunk := by omega
            simp [hs, this]
        refine ⟨_, _, rfl, g1, g2, ?_, ?_⟩
        · rw [hpf, ← hpg]; exact g3
        · rw [hpf, ← hpg]; exact g4
    · simp only [EncF.read, hcp, if_false]
      have hg := EncF.fromCache_spec P C ⟨rest, cache, cpos, chunkNo, failed, .unauthenticated⟩ n
        hI'.1 hI'.2 (by simp only; omega) hn (by simp)
      obtain ⟨g1, g2, g3, g4, _⟩ := hg
      exact ⟨_, _, rfl, g1, g2, g3, g4⟩
  | authenticated =>
    cases failed with
    | true =>
      refine ⟨_, [], by simp [EncF.read], Or.inl ⟨rfl, rfl⟩, rfl, ?_, ?_⟩ <;> simp [EncF.pending]
    | false =>
      have hI' : cpos ≤ cache.length ∧ cache.length ≤ P.chunk := by
        cases hI with
        | inl h => exact absurd h.2 (by simp)
        | inr h => exact h
      by_cases hcp : P.chunk - cpos = 0
      · have hcl : cache.length = P.chunk := by omega
        have hpf : EncF.pending P C ⟨rest, cache, cpos, chunkNo, false, .authenticated⟩ =
            fsA P C (chunkNo + 1) rest := by
          have : cache.drop cpos = [] := List.drop_eq_nil_of_le (by omega)
          simp [EncF.pending, hcl, this]
        simp only [EncF.read, hcp, if_true, EncF.loadAuth_mk, Bool.false_eq_true, if_false]
        by_cases hr : rest = []
        · subst hr
          refine ⟨_, [], rfl, ?_, rfl, ?_, ?_⟩
          · right; simp
          · rw [hpf]; simp [EncF.pending, hc]
          · intro _; rw [hpf]; simp
        · simp only [hr, if_false]
          rw [hpf, fsA_unfold P C (chunkNo + 1) rest hr]
          cases hoc : openChunk P C (chunkNo + 1) (rest.take (P.chunk + P.tagLen)) with
          | error e =>
            have := openChunk_err hoc
            subst this
            refine ⟨_, [], rfl, Or.inl ⟨rfl, rfl⟩, rfl, ?_, ?_⟩ <;> simp [EncF.pending]
          | ok pt =>
            obtain ⟨o1, o2, _⟩ := openChunk_ok hoc
            have hpl : pt.length ≤ P.chunk := by
              rw [o2]; simp only [xorAt_length, List.length_take]; omega
            have hg := EncF.fromCache_spec P C
              ⟨rest.drop (P.chunk + P.tagLen), pt, 0, chunkNo + 1, false, .authenticated⟩ n
              (Nat.zero_le _) hpl hc hn (by simp)
            obtain ⟨g1, g2, g3, g4, _⟩ := hg
            have hpg : EncF.pending P C
                ⟨rest.drop (P.chunk + P.tagLen), pt, 0, chunkNo + 1, false, .authenticated⟩ =
                pt ++ (if pt.length < P.chunk then [] else
                  fsA P C (chunkNo + 1 + 1) (rest.drop (P.chunk + P.tagLen))) := by
              simp [EncF.pending]
            refine ⟨_, _, rfl, g1, g2, ?_, ?_⟩
            · simp only []; rw [← hpg]; exact g3
            · simp only []; rw [← hpg]; exact g4
      · simp only [EncF.read, hcp, if_false, Bool.false_eq_true]
        have hg := EncF.fromCache_spec P C ⟨rest, cache, cpos, chunkNo, false, .authenticated⟩ n
          hI'.1 hI'.2 (by simp only; omega) hn (by simp)
        obtain ⟨g1, g2, g3, g4, _⟩ := hg
        exact ⟨_, _, rfl, g1, g2, g3, g4⟩

/-! ### Any schedule of reads -/

theorem EncF.deliverL_spec (P : Params) (C : EncPrims) :
    ∀ (ns : List Nat) (f : EncF), EncF.Inv P f → (∀ n ∈ ns, 0 < n) →
      EncF.deliverL P C ns f <+: EncF.pending P C f ∧
      ((EncF.pending P C f).length ≤ ns.length → EncF.deliverL P C ns f = EncF.pending P C f) := by
  intro ns
  induction ns with
  | nil =>
    intro f _ _
    refine ⟨List.nil_prefix, fun h => ?_⟩
    have : EncF.pending P C f = [] := List.eq_nil_of_length_eq_zero (by simpa using h)
    simp [EncF.deliverL, this]
  | cons n ns ih =>
    intro f hI hpos
    obtain ⟨f', out, hr, hI', _, hp, he⟩ := EncF.read_spec P C f n hI (hpos n (by simp))
    simp only [EncF.deliverL, hr]
    by_cases ho : out = []
    · simp only [ho, if_true]
      exact ⟨List.nil_prefix, fun _ => (he ho).symm⟩
    · simp only [ho, if_false]
      obtain ⟨ih1, ih2⟩ := ih f' hI' (fun m hm => hpos m (by simp [hm]))
      rw [hp]
      refine ⟨(List.prefix_append_right_inj _).mpr ih1, fun hl => ?_⟩
      have hol : 0 < out.length := List.length_pos_iff.mpr ho
      simp only [List.length_append, List.length_cons] at hl
      rw [ih2 (by omega)]

theorem EncF.deliver_eq_deliverL (P : Params) (C : EncPrims) (n : Nat) :
    ∀ (fuel : Nat) (f : EncF),
      EncF.deliver P C n fuel f = EncF.deliverL P C (List.replicate fuel n) f := by
  intro fuel
  induction fuel with
  | zero => intro f; rfl
  | succ fuel ih =>
    intro f
    simp only [EncF.deliver, List.replicate_succ, EncF.deliverL]
    cases hr : EncF.read P C f n with
    | mk f' r =>
      cases r with
      | error e => rfl
      | ok out => simp only [ih]

/-! ### The state built by `new` -/

theorem EncF.new_inv (P : Params) (C : EncPrims) (mode : FsMode) (e : Bytes) :
    EncF.Inv P (EncF.new P C mode e) := by
  have hc := P.hchunk
  right
  simp only [EncF.new, EncF.loadUnauth_mk]
  by_cases he : e = []
  · simp [he]
  · simp only [he, if_false, xorAt_length, List.length_take]; omega

theorem EncF.pending_new_unauth (P : Params) (C : EncPrims) (e : Bytes) :
    EncF.pending P C (EncF.new P C .unauthenticated e) = fsU P C 0 e := by
  have hc := P.hchunk
  simp only [EncF.new, EncF.loadUnauth_mk]
  by_cases he : e = []
  · simp [he, EncF.pending, hc]
  · rw [fsU_unfold P C 0 e]
    simp only [he, if_false, EncF.pending, List.drop_zero, xorAt_length, List.length_take]
    congr 1
    by_cases hs : e.length < P.chunk
    · have : min P.chunk e.length < P.chunk := by omega
      simp [hs, this]
    · have : ¬ min P.chunk e.length < P.chunk := by omega
      simp [hs, this]

theorem EncF.pending_new_auth (P : Params) (C : EncPrims) (e : Bytes) :
    EncF.pending P C (EncF.new P C .authenticated e) = fsAuth P C e := by
  have hc := P.hchunk
  simp only [EncF.new, EncF.loadUnauth_mk]
  by_cases he : e = []
  · simp [he, EncF.pending, hc, fsAuth_eq]
  · rw [fsAuth_eq P C e]
    simp only [he, if_false, EncF.pending, List.drop_zero, xorAt_length, List.length_take,
      Bool.false_eq_true]
    congr 1
    by_cases hs : e.length < P.chunk
    · have : min P.chunk e.length < P.chunk := by omega
      simp [hs, this]
    · have : ¬ min P.chunk e.length < P.chunk := by omega
      simp [hs, this]

/-! ### Sticky end -/

theorem EncF.read_done (P : Params) (C : EncPrims) (f : EncF) (m : Nat) (h : EncF.Done P f) :
    EncF.read P C f m = (f, .ok []) := by
  obtain ⟨rest, cache, cpos, chunkNo, failed, mode⟩ := f
  simp only [EncF.Done] at h
  have hcase : ∀ (h2 : cpos < P.chunk ∧ cache.length ≤ cpos),
      EncF.fromCache P ⟨rest, cache, cpos, chunkNo, failed, mode⟩ m =
        (⟨rest, cache, cpos, chunkNo, failed, mode⟩, []) := by
    intro h2
    have : cache.drop cpos = [] := List.drop_eq_nil_of_le h2.2
    simp [EncF.fromCache, this]
  cases mode with
  | unauthenticated =>
    cases h with
    | inl h => exact absurd h.1 (by simp)
    | inr h =>
      have hcp : ¬ P.chunk - cpos = 0 := by omega
      simp only [EncF.read, hcp, if_false, hcase h]
  | authenticated =>
    cases failed with
    | true => simp [EncF.read]
    | false =>
      cases h with
      | inl h => exact absurd h.2 (by simp)
      | inr h =>
        have hcp : ¬ P.chunk - cpos = 0 := by omega
        simp only [EncF.read, hcp, if_false, hcase h, Bool.false_eq_true]

theorem EncF.fromCache_done (P : Params) (g : EncF) (n : Nat) (hn : 0 < n) (hlt : g.cpos < P.chunk)
    (h0 : (EncF.fromCache P g n).2 = []) : EncF.Done P (EncF.fromCache P g n).1 := by
  obtain ⟨rest, cache, cpos, chunkNo, failed, mode⟩ := g
  simp only at hlt
  simp only [EncF.fromCache] at h0 ⊢
  have hX : cache.drop cpos = [] := by
    cases List.take_eq_nil_iff.mp h0 with
    | inl h => omega
    | inr h => exact h
  have hl := congrArg List.length hX
  simp only [List.length_drop, List.length_nil] at hl
  right
  simp only [hX, List.take_nil, List.length_nil, Nat.add_zero]
  exact ⟨hlt, by omega⟩

theorem EncF.done_of_empty_read (P : Params) (C : EncPrims) (f f' : EncF) (n : Nat) (hn : 0 < n)
    (h : EncF.read P C f n = (f', .ok [])) : EncF.Done P f' := by
  have hc := P.hchunk
  obtain ⟨rest, cache, cpos, chunkNo, failed, mode⟩ := f
  -- the two shapes a successful read can have
  have hfc : ∀ g : EncF, g.cpos < P.chunk →
      ((EncF.fromCache P g n).1, (Except.ok (EncF.fromCache P g n).2 : Except Err Bytes)) = (f', .ok []) →
      EncF.Done P f' := by
    intro g hg he
    simp only [Prod.mk.injEq, Except.ok.injEq] at he
    rw [← he.1]
    exact EncF.fromCache_done P g n hn hg he.2
  cases mode with
  | unauthenticated =>
    by_cases hcp : P.chunk - cpos = 0
    · simp only [EncF.read, hcp, if_true, EncF.loadUnauth_mk] at h
      by_cases hr : rest = []
      · simp only [hr, if_true, Prod.mk.injEq] at h
        rw [← h.1]; right; exact ⟨hc, Nat.le_refl _⟩
      · simp only [hr, if_false] at h
        exact hfc _ hc h
    · simp only [EncF.read, hcp, if_false] at h
      exact hfc _ (by simp only; omega) h
  | authenticated =>
    cases failed with
    | true =>
      simp only [EncF.read, if_true, Prod.mk.injEq] at h
      rw [← h.1]; exact Or.inl ⟨rfl, rfl⟩
    | false =>
      by_cases hcp : P.chunk - cpos = 0
      · simp only [EncF.read, hcp, if_true, EncF.loadAuth_mk, Bool.false_eq_true, if_false] at h
        by_cases hr : rest = []
        · simp only [hr, if_true, Prod.mk.injEq] at h
          rw [← h.1]; right; exact ⟨hc, Nat.le_refl _⟩
        · simp only [hr, if_false] at h
          cases hoc : openChunk P C (chunkNo + 1) (rest.take (P.chunk + P.tagLen)) with
          | error e =>
            have := openChunk_err hoc
            subst this
            simp only [hoc, Prod.mk.injEq] at h
            rw [← h.1]; exact Or.inl ⟨rfl, rfl⟩
          | ok pt =>
            simp only [hoc] at h
            exact hfc _ hc h
      · simp only [EncF.read, hcp, if_false, Bool.false_eq_true] at h
        exact hfc _ (by simp only; omega) h

/-! ### L5: what has been emitted by an unfinished writer -/

section
variable (P : Params) (C : EncPrims) (hTag : ∀ i c, (C.tag i c).length = P.tagLen)
include hTag

theorem fsU_encFull_aux :
    ∀ (n i : Nat) (q : Bytes), n * P.chunk ≤ q.length → q.length ≤ n * P.chunk + P.chunk →
      fsU P C i (encFull P C n i q ++ xorAt (C.ks (i + n)) 0 (q.drop (n * P.chunk))) = q := by
  intro n
  induction n with
  | zero =>
    intro i q _ h2
    have hc := P.hchunk
    have hq : q.length ≤ P.chunk := by omega
    have hxl : (xorAt (C.ks i) 0 q).length ≤ P.chunk := by simpa using hq
    simp only [encFull, Nat.zero_mul, List.drop_zero, List.nil_append, Nat.add_zero]
    rw [fsU_unfold, List.take_of_length_le hxl, xorAt_invol, List.drop_eq_nil_of_le hxl]
    split <;> simp
  | succ n ih =>
    intro i q h1 h2
    have hc := P.hchunk
    have hmul : (n + 1) * P.chunk = P.chunk + n * P.chunk := by rw [Nat.add_mul]; omega
    have hcl : (xorAt (C.ks i) 0 (q.take P.chunk)).length = P.chunk := by
      simp [List.length_take]; omega
    have hidx : i + (n + 1) = i + 1 + n := by omega
    simp only [encFull, List.append_assoc]
    rw [fsU_long _ _ _ _ (by simp; omega), List.take_left' hcl, List.drop_left' hcl,
      List.drop_left' (hTag _ _), xorAt_invol, hidx, hmul, ← List.drop_drop,
      ih (i+1) (q.drop P.chunk) (by simp only [List.length_drop]; omega)
        (by simp only [List.length_drop]; omega), List.take_append_drop]

theorem fsA_encFull_aux :
    ∀ (n i : Nat) (q tail : Bytes), n * P.chunk ≤ q.length →
      q.take (n * P.chunk) <+: fsA P C i (encFull P C n i q ++ tail) := by
  intro n
  induction n with
  | zero => intro i q tail _; simp
  | succ n ih =>
    intro i q tail h1
    have hc := P.hchunk
    have hmul : (n + 1) * P.chunk = P.chunk + n * P.chunk := by rw [Nat.add_mul]; omega
    have hcl : (xorAt (C.ks i) 0 (q.take P.chunk) ++ C.tag i (xorAt (C.ks i) 0 (q.take P.chunk))).length
        = P.chunk + P.tagLen := by
      simp [List.length_take, hTag]; omega
    have hne : xorAt (C.ks i) 0 (q.take P.chunk) ++ C.tag i (xorAt (C.ks i) 0 (q.take P.chunk)) ++
        (encFull P C n (i+1) (q.drop P.chunk) ++ tail) ≠ [] := by
      intro h0; have := congrArg List.length h0
      rw [List.length_append, hcl] at this; simp at this; omega
    have hpl : ¬ (q.take P.chunk).length < P.chunk := by simp [List.length_take]; omega
    simp only [encFull, List.append_assoc]
    rw [← List.append_assoc, ← List.append_assoc, List.append_assoc _ _ tail,
      fsA_unfold P C i _ hne, List.take_left' hcl,
      List.drop_left' hcl, openChunk_sealed P C i _ (hTag _ _)]
    simp only [xorAt_invol, hpl, if_false]
    rw [hmul, List.take_add]
    apply (List.prefix_append_right_inj _).mpr
    exact ih (i+1) (q.drop P.chunk) tail (by simp only [List.length_drop]; omega)

theorem fsAuth_encFull (n : Nat) (q tail : Bytes) (h : n * P.chunk ≤ q.length) :
    q.take (n * P.chunk) <+: fsAuth P C (encFull P C n 0 q ++ tail) := by
  have hc := P.hchunk
  cases n with
  | zero => simp
  | succ n =>
    have hmul : (n + 1) * P.chunk = P.chunk + n * P.chunk := by rw [Nat.add_mul]; omega
    have hcl : (xorAt (C.ks 0) 0 (q.take P.chunk)).length = P.chunk := by
      simp [List.length_take]; omega
    have hne : xorAt (C.ks 0) 0 (q.take P.chunk) ++ (C.tag 0 (xorAt (C.ks 0) 0 (q.take P.chunk)) ++
        (encFull P C n (0+1) (q.drop P.chunk) ++ tail)) ≠ [] := by
      intro h0; have := congrArg List.length h0
      rw [List.length_append, hcl] at this; simp at this; omega
    have hlen : ¬ (xorAt (C.ks 0) 0 (q.take P.chunk) ++ (C.tag 0 (xorAt (C.ks 0) 0 (q.take P.chunk)) ++
        (encFull P C n (0+1) (q.drop P.chunk) ++ tail))).length < P.chunk := by
      rw [List.length_append, hcl]; omega
    simp only [encFull, List.append_assoc]
    rw [fsAuth_eq]
    simp only [hne, hlen, if_false]
    rw [List.take_left' hcl, List.drop_left' hcl, List.drop_left' (hTag _ _), xorAt_invol, hmul,
      List.take_add]
    apply (List.prefix_append_right_inj _).mpr
    exact fsA_encFull_aux P C hTag n 1 (q.drop P.chunk) tail (by simp only [List.length_drop]; omega)

end

theorem encWritePieces_snoc (P : Params) (C : EncPrims) (pieces : List Bytes) (more : Bytes) :
    encWritePieces P C (pieces ++ [more]) = encStepPiece P C (encWritePieces P C pieces) more := by
  simp [encWritePieces, List.foldl_append]

/-- what an unfinished writer has emitted is a prefix of every sealed stream that extends the
    plaintext written so far -/
theorem encWritePieces_prefix_seal (P : Params) (C : EncPrims) (pieces : List Bytes) (more : Bytes) :
    (encWritePieces P C pieces).2 <+: sealS P C (pieces.flatten ++ more) := by
  have h := encWritePieces_seal P C (pieces ++ [more])
  rw [encWritePieces_snoc] at h
  have hf : (pieces ++ [more]).flatten = pieces.flatten ++ more := by simp
  rw [hf] at h
  rw [← h]
  simp only [encStepPiece, List.append_assoc]
  exact List.prefix_append _ _

/-! ### Authenticated mode on truncated sealed streams -/

/-- chunk `i` of a sealed stream: ciphertext of `x`, then its tag -/
def sealedChunk (C : EncPrims) (i : Nat) (x : Bytes) : Bytes :=
  xorAt (C.ks i) 0 x ++ C.tag i (xorAt (C.ks i) 0 x)

theorem sealI_cons (P : Params) (C : EncPrims) (i : Nat) (q : Bytes) :
    sealI P C i q = sealedChunk C i (q.take P.chunk) ++
      (if q.length ≤ P.chunk then [] else sealI P C (i+1) (q.drop P.chunk)) := by
  by_cases h : q.length ≤ P.chunk
  · rw [sealI_short P C i q h, List.take_of_length_le h]; simp [h, sealedChunk]
  · rw [sealI_long P C i q (by omega)]; simp [h, sealedChunk]

/-- "No accidental forgery on truncation", relative form: no proper prefix of a genuine sealed chunk
    of `q` (chunk indices from `i`) passes the tag check of that chunk. -/
def NoForgeI (P : Params) (C : EncPrims) (i : Nat) (q : Bytes) : Prop :=
  ∀ k, k ≤ (q.length - 1) / P.chunk → ∀ m,
    m < (sealedChunk C (i + k) ((q.drop (k * P.chunk)).take P.chunk)).length →
    openChunk P C (i + k) ((sealedChunk C (i + k) ((q.drop (k * P.chunk)).take P.chunk)).take m) =
      .error .wrongTag

theorem NoForgeI_drop (P : Params) (C : EncPrims) (i : Nat) (q : Bytes) (h : P.chunk < q.length)
    (hN : NoForgeI P C i q) : NoForgeI P C (i+1) (q.drop P.chunk) := by
  have hc := P.hchunk
  have hdiv : (q.length - 1) / P.chunk = ((q.drop P.chunk).length - 1) / P.chunk + 1 := by
    rw [← Nat.add_div_right _ hc]; congr 1; simp only [List.length_drop]; omega
  intro k hk m hm
  have hmul : (k + 1) * P.chunk = P.chunk + k * P.chunk := by rw [Nat.add_mul]; omega
  have hidx : i + (k + 1) = i + 1 + k := by omega
  have := hN (k+1) (by omega) m
  rw [hidx, hmul, ← List.drop_drop] at this
  exact this hm

section
variable (P : Params) (C : EncPrims) (hTag : ∀ i c, (C.tag i c).length = P.tagLen)
include hTag

theorem fsA_mono_aux :
    ∀ (n i : Nat) (q e₁ e₂ : Bytes), q.length < n → NoForgeI P C i q →
      e₁ <+: e₂ → e₂ <+: sealI P C i q → fsA P C i e₁ <+: fsA P C i e₂ := by
  intro n
  induction n with
  | zero => intro i q e₁ e₂ h; omega
  | succ n ih =>
    intro i q e₁ e₂ hn hN h12 h2
    have hc := P.hchunk
    have ht := P.htag
    by_cases he1 : e₁ = []
    · subst he1; simp
    have hl1 : 0 < e₁.length := List.length_pos_iff.mpr he1
    have hle12 := h12.length_le
    have he2 : e₂ ≠ [] := by intro h0; subst h0; simp only [List.length_nil] at hle12; omega
    have h1 : e₁ <+: sealI P C i q := h12.trans h2
    rw [sealI_cons] at h1 h2
    have hGl : (sealedChunk C i (q.take P.chunk)).length = min P.chunk q.length + P.tagLen := by
      simp [sealedChunk, hTag, List.length_take]
    by_cases hlt : e₁.length < (sealedChunk C i (q.take P.chunk)).length
    · -- `e₁` ends inside the first sealed chunk: its tag check fails
      have hdt : e₁.take (P.chunk + P.tagLen) = e₁ := List.take_of_length_le (by omega)
      have heq : e₁ = (sealedChunk C i (q.take P.chunk)).take e₁.length := by
        have := List.prefix_iff_eq_take.mp h1
        rw [List.take_append_of_le_length (by omega)] at this
        exact this
      have hf := hN 0 (Nat.zero_le _) e₁.length (by simpa using hlt)
      simp only [Nat.zero_mul, List.drop_zero, Nat.add_zero] at hf
      rw [← heq] at hf
      rw [fsA_unfold P C i e₁ he1, hdt, hf]
      exact List.nil_prefix
    · by_cases hs : q.length ≤ P.chunk
      · -- last chunk: `e₁ = e₂`
        simp only [hs, if_true, List.append_nil] at h1 h2
        have := h2.length_le
        rw [h12.eq_of_length (by omega)]
        exact List.prefix_refl _
      · simp only [hs, if_false] at h1 h2
        have hGl' : (sealedChunk C i (q.take P.chunk)).length = P.chunk + P.tagLen := by
          rw [hGl]; omega
        have hd1 : e₁.take (P.chunk + P.tagLen) = sealedChunk C i (q.take P.chunk) := by
          rw [prefix_take_eq (P.chunk + P.tagLen) h1 (by omega), List.take_left' hGl']
        have hd2 : e₂.take (P.chunk + P.tagLen) = sealedChunk C i (q.take P.chunk) := by
          rw [prefix_take_eq (P.chunk + P.tagLen) h2 (by omega), List.take_left' hGl']
        have hpl : ¬ (q.take P.chunk).length < P.chunk := by simp [List.length_take]; omega
        have ht2 : e₂.drop (P.chunk + P.tagLen) <+: sealI P C (i+1) (q.drop P.chunk) := by
          have := prefix_drop (P.chunk + P.tagLen) h2
          rwa [List.drop_left' hGl'] at this
        rw [fsA_unfold P C i e₁ he1, fsA_unfold P C i e₂ he2, hd1, hd2]
        simp only [sealedChunk, openChunk_sealed P C i _ (hTag _ _), xorAt_invol, hpl, if_false]
        apply (List.prefix_append_right_inj _).mpr
        exact ih (i+1) (q.drop P.chunk) _ _ (by simp only [List.length_drop]; omega)
          (NoForgeI_drop P C i q (by omega) hN) (prefix_drop _ h12) ht2

theorem fsAuth_mono_of_noForge (p r₁ r₂ : Bytes)
    (hN : P.chunk < p.length → NoForgeI P C 1 (p.drop P.chunk))
    (h12 : r₁ <+: r₂) (h2 : r₂ <+: sealS P C p) : fsAuth P C r₁ <+: fsAuth P C r₂ := by
  have hc := P.hchunk
  rw [fsAuth_eq, fsAuth_eq]
  by_cases he1 : r₁ = []
  · simp [he1]
  have hl1 : 0 < r₁.length := List.length_pos_iff.mpr he1
  have hle12 := h12.length_le
  have he2 : r₂ ≠ [] := by intro h0; subst h0; simp only [List.length_nil] at hle12; omega
  simp only [he1, he2, if_false]
  by_cases hs1 : r₁.length < P.chunk
  · simp only [hs1, if_true, List.append_nil]
    exact (xorAt_prefix _ _ (prefix_take _ h12)).trans (List.prefix_append _ _)
  · have hs2 : ¬ r₂.length < P.chunk := by omega
    simp only [hs1, hs2, if_false]
    rw [prefix_take_eq P.chunk h12 (by omega)]
    apply (List.prefix_append_right_inj _).mpr
    have h12' : (r₁.drop P.chunk).drop P.tagLen <+: (r₂.drop P.chunk).drop P.tagLen :=
      prefix_drop _ (prefix_drop _ h12)
    rw [sealS_eq_sealI, sealI_cons] at h2
    have h2' := prefix_drop P.tagLen (prefix_drop P.chunk h2)
    by_cases hp : p.length ≤ P.chunk
    · -- a single chunk: nothing follows chunk 0
      simp only [hp, if_true, List.append_nil] at h2'
      have hz : ((sealedChunk C 0 (p.take P.chunk)).drop P.chunk).drop P.tagLen = [] := by
        apply List.drop_eq_nil_of_le
        simp [sealedChunk, hTag, List.length_take]; omega
      rw [hz] at h2'
      have e2 : (r₂.drop P.chunk).drop P.tagLen = [] := List.prefix_nil.mp h2'
      rw [e2] at h12'
      rw [List.prefix_nil.mp h12', e2]
      exact List.prefix_refl _
    · simp only [hp, if_false] at h2'
      have hcl : (xorAt (C.ks 0) 0 (p.take P.chunk)).length = P.chunk := by
        simp [List.length_take]; omega
      rw [sealedChunk, List.append_assoc, List.drop_left' hcl, List.drop_left' (hTag _ _)] at h2'
      exact fsA_mono_aux P C hTag _ 1 (p.drop P.chunk) _ _ (Nat.lt_succ_self _)
        (hN (by omega)) h12' h2'

/-- a truncated sealed stream of a plaintext of at least one chunk: authenticated mode never
    delivers a byte that is not in the plaintext -/
theorem fsAuth_trunc (p r : Bytes) (hp : P.chunk ≤ p.length) (h : r <+: sealS P C p) :
    fsAuth P C r <+: p := by
  have hc := P.hchunk
  rw [fsAuth_eq]
  by_cases he : r = []
  · simp [he]
  simp only [he, if_false]
  rw [sealS_eq_sealI, sealI_cons] at h
  have hcl : (xorAt (C.ks 0) 0 (p.take P.chunk)).length = P.chunk := by
    simp [List.length_take]; omega
  have hS : ((sealedChunk C 0 (p.take P.chunk) ++
      (if p.length ≤ P.chunk then [] else sealI P C (0+1) (p.drop P.chunk))).take P.chunk) =
      xorAt (C.ks 0) 0 (p.take P.chunk) := by
    rw [sealedChunk, List.append_assoc, List.take_left' hcl]
  have hx : xorAt (C.ks 0) 0 (r.take P.chunk) <+: p.take P.chunk := by
    have := xorAt_prefix (C.ks 0) 0 (prefix_take P.chunk h)
    rwa [hS, xorAt_invol] at this
  by_cases hs : r.length < P.chunk
  · simp only [hs, if_true, List.append_nil]
    exact hx.trans (List.take_prefix _ _)
  · simp only [hs, if_false]
    have hx' : xorAt (C.ks 0) 0 (r.take P.chunk) = p.take P.chunk := by
      apply hx.eq_of_length; simp [List.length_take]; omega
    rw [hx']
    conv => rhs; rw [← List.take_append_drop P.chunk p]
    apply (List.prefix_append_right_inj _).mpr
    have h' := prefix_drop P.tagLen (prefix_drop P.chunk h)
    rw [sealedChunk, List.append_assoc, List.drop_left' hcl, List.drop_left' (hTag _ _)] at h'
    by_cases hp1 : p.length ≤ P.chunk
    · simp only [hp1, if_true] at h'
      rw [List.prefix_nil.mp h']; simp
    · simp only [hp1, if_false] at h'
      exact fsA_trunc_aux P C hTag _ 1 (p.drop P.chunk) _ (Nat.lt_succ_self _) h'

/-- exact result of authenticated fail-safe reading of a complete sealed stream: the plaintext,
    followed — only when it is shorter than one chunk — by the decrypted beginning of the tag -/
theorem fsAuth_seal_exact (p : Bytes) :
    fsAuth P C (sealS P C p) = p ++
      xorAt (C.ks 0) p.length ((C.tag 0 (xorAt (C.ks 0) 0 p)).take (P.chunk - p.length)) := by
  have hc := P.hchunk
  have ht := P.htag
  rw [fsAuth_eq, sealS_eq_sealI]
  have hne : sealI P C 0 p ≠ [] := by
    rw [sealI_cons]; intro h0; have := congrArg List.length h0
    simp [sealedChunk, hTag] at this; omega
  simp only [hne, if_false]
  by_cases hs : p.length ≤ P.chunk
  · rw [sealI_short P C 0 p hs]
    have hxl : (xorAt (C.ks 0) 0 p).length ≤ P.chunk := by simpa using hs
    rw [List.take_append, List.take_of_length_le hxl, xorAt_append, xorAt_invol, List.append_assoc]
    simp only [xorAt_length, Nat.zero_add, List.length_append, hTag]
    congr 1
    have hdd : ((xorAt (C.ks 0) 0 p ++ C.tag 0 (xorAt (C.ks 0) 0 p)).drop P.chunk).drop P.tagLen = [] := by
      apply List.drop_eq_nil_of_le; simp [hTag]; omega
    rw [hdd]
    split <;> simp
  · have hcl : (xorAt (C.ks 0) 0 (p.take P.chunk)).length = P.chunk := by
      simp [List.length_take]; omega
    have hz : P.chunk - p.length = 0 := by omega
    rw [sealI_long P C 0 p (by omega), List.append_assoc, List.take_left' hcl, List.drop_left' hcl,
      List.drop_left' (hTag _ _), xorAt_invol, hz]
    have hlen : ¬ (xorAt (C.ks 0) 0 (p.take P.chunk) ++ (C.tag 0 (xorAt (C.ks 0) 0 (p.take P.chunk)) ++
        sealI P C (0+1) (p.drop P.chunk))).length < P.chunk := by
      rw [List.length_append, hcl]; omega
    simp only [hlen, if_false, List.take_zero, xorAt, List.append_nil]
    rw [fsA_sealI_aux P C hTag _ 1 (p.drop P.chunk) (Nat.lt_succ_self _), List.take_append_drop]

end

end MlaModel

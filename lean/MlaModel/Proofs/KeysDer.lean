/-
  DER: the lenient reader on the shapes the crate writes (and the OpenSSL Ed25519 shapes).
-/
import MlaModel.Keys
namespace MlaModel.Keys

theorem takeN_append (a t : Bytes) : takeN a.length (a ++ t) = some (a, t) := by
  induction a with
  | nil => rfl
  | cons x a ih => simp [takeN, ih]

theorem takeN_all (b : Bytes) (n : Nat) (h : b.length = n) : takeN n b = some (b, []) := by
  subst h
  have := takeN_append b []
  simpa using this

theorem takeN_short : ∀ (n : Nat) (b : Bytes), b.length < n → takeN n b = none := by
  intro n
  induction n with
  | zero => intro b h; omega
  | succ n ih =>
    intro b h
    cases b with
    | nil => rfl
    | cons x r =>
      have : r.length < n := by simp only [List.length_cons] at h; omega
      simp [takeN, ih r this]

/-- header `tag len` in short form, universal class -/
theorem readHdr_short (t l : UInt8) (rest : Bytes) (ht : t.toNat % 32 ≠ 31) (hl : l.toNat < 128) :
    readHdr (t :: l :: rest)
      = some (⟨t.toNat / 64, t.toNat / 32 % 2 = 1, t.toNat % 32, l.toNat⟩, rest) := by
  simp [readHdr, ht, hl]

/-- one TLV with a one-byte identifier and a short-form length -/
theorem readTlv_short (t l : UInt8) (c rest : Bytes) (tag : Nat) (ht : t.toNat % 32 ≠ 31)
    (htag : t.toNat % 32 = tag) (hl : l.toNat < 128) (hc : c.length = l.toNat) :
    readTlv tag (t :: l :: (c ++ rest))
      = some (⟨t.toNat / 64, t.toNat / 32 % 2 = 1, tag, l.toNat⟩, c, rest) := by
  unfold readTlv
  rw [readHdr_short t l _ ht hl]
  have := takeN_append c rest
  rw [hc] at this
  simp [htag, this]

variable (P : KPrims)

/-- the private structure of `prefix ‖ key` with a 3-byte OID -/
theorem readPrivStruct_shape (o0 o1 o2 : UInt8) (k : Bytes) (hk : k.length = 32) :
    readPrivStruct ([0x30, 0x2e, 0x02, 0x01, 0x00, 0x30, 0x05, 0x06, 0x03, o0, o1, o2, 0x04, 0x22, 0x04, 0x20] ++ k)
      = some ([o0, o1, o2], 0x04 :: 0x20 :: k) := by
  have s1 := readTlv_short 0x30 0x2e (0x02 :: 0x01 :: 0x00 :: 0x30 :: 0x05 :: 0x06 :: 0x03 :: o0 :: o1 :: o2 ::
    0x04 :: 0x22 :: 0x04 :: 0x20 :: k) [] 16 (by decide) (by decide) (by decide) (by simp [hk])
  have s2 := readTlv_short 0x02 0x01 [0x00] (0x30 :: 0x05 :: 0x06 :: 0x03 :: o0 :: o1 :: o2 ::
    0x04 :: 0x22 :: 0x04 :: 0x20 :: k) 2 (by decide) (by decide) (by decide) (by decide)
  have s3 := readTlv_short 0x30 0x05 [0x06, 0x03, o0, o1, o2] (0x04 :: 0x22 :: 0x04 :: 0x20 :: k) 16
    (by decide) (by decide) (by decide) (by rfl)
  have s4 := readTlv_short 0x06 0x03 [o0, o1, o2] [] 6 (by decide) (by decide) (by decide) (by rfl)
  have s5 := readTlv_short 0x04 0x22 (0x04 :: 0x20 :: k) [] 4 (by decide) (by decide) (by decide)
    (by simp [hk])
  simp only [List.append_nil, List.cons_append, List.nil_append] at s1 s2 s3 s4 s5
  simp only [readPrivStruct, readAlgId, List.cons_append, List.nil_append, s1, s2, s3, s4, s5, integerOk]
  rfl

theorem readPubStruct_shape (o0 o1 o2 : UInt8) (k : Bytes) (hk : k.length = 32) :
    readPubStruct ([0x30, 0x2a, 0x30, 0x05, 0x06, 0x03, o0, o1, o2, 0x03, 0x21, 0x00] ++ k)
      = some ([o0, o1, o2], k) := by
  have s1 := readTlv_short 0x30 0x2a (0x30 :: 0x05 :: 0x06 :: 0x03 :: o0 :: o1 :: o2 :: 0x03 :: 0x21 :: 0x00 :: k)
    [] 16 (by decide) (by decide) (by decide) (by simp [hk])
  have s3 := readTlv_short 0x30 0x05 [0x06, 0x03, o0, o1, o2] (0x03 :: 0x21 :: 0x00 :: k) 16
    (by decide) (by decide) (by decide) (by rfl)
  have s4 := readTlv_short 0x06 0x03 [o0, o1, o2] [] 6 (by decide) (by decide) (by decide) (by rfl)
  have s5 := readTlv_short 0x03 0x21 (0x00 :: k) [] 3 (by decide) (by decide) (by decide) (by simp [hk])
  have h3 : bitStringData false (0x00 :: k) = some k := by
    unfold bitStringData
    cases hl : k.getLast? <;> simp [hl, Nat.mod_one]
  have hcons : decide ((0x03 : UInt8).toNat / 32 % 2 = 1) = false := by decide
  simp only [List.append_nil, List.cons_append, List.nil_append] at s1 s3 s4 s5
  simp only [readPubStruct, readAlgId, List.cons_append, List.nil_append, s1, s3, s4, s5, hcons, h3]

/-- **DER round trip, private**: what `generate_keypair` writes parses back to the 32 bytes drawn -/
theorem parsePrivDer_export (k : Bytes) (hk : k.length = 32) :
    parsePrivDer P (exportPrivDer k) = .ok k := by
  have := readPrivStruct_shape 0x2b 0x65 0x6e k hk
  unfold parsePrivDer exportPrivDer privPrefix
  rw [this]
  simp [hk, oidEd, oidX]

/-- **DER round trip, public** -/
theorem parsePubDer_export (p : Bytes) (hp : p.length = 32) :
    parsePubDer P (exportPubDer p) = .ok p := by
  have := readPubStruct_shape 0x2b 0x65 0x6e p hp
  unfold parsePubDer exportPubDer pubPrefix
  rw [this]
  simp [hp, oidEd, oidX]

/-- OpenSSL Ed25519 private key: the secret is `SHA-512(seed)[0..32]` (clamped when used) -/
theorem parsePrivDer_ed (seed : Bytes) (hs : seed.length = 32) :
    parsePrivDer P (exportPrivDerEd seed) = .ok ((P.sha512 seed).take 32) := by
  have := readPrivStruct_shape 0x2b 0x65 0x70 seed hs
  unfold parsePrivDer exportPrivDerEd privPrefixEd
  rw [this]
  simp [hs, oidEd]

/-- OpenSSL Ed25519 public key: Edwards `y` to Montgomery `u`, or `InvalidData` off the curve -/
theorem parsePubDer_ed (pt : Bytes) (hp : pt.length = 32) :
    parsePubDer P (exportPubDerEd pt)
      = match P.edToMont pt with
        | some u => .ok u
        | none => .error .invalidData := by
  have := readPubStruct_shape 0x2b 0x65 0x70 pt hp
  unfold parsePubDer exportPubDerEd pubPrefixEd
  rw [this]
  cases h : P.edToMont pt <;> simp [hp, oidEd, h]

/-- any other 3-byte OID in the same shapes is `UnknownOid` -/
theorem parsePrivDer_unknownOid (o0 o1 o2 : UInt8) (k : Bytes) (hk : k.length = 32)
    (h1 : [o0, o1, o2] ≠ oidEd) (h2 : [o0, o1, o2] ≠ oidX) :
    parsePrivDer P ([0x30, 0x2e, 0x02, 0x01, 0x00, 0x30, 0x05, 0x06, 0x03, o0, o1, o2, 0x04, 0x22, 0x04, 0x20] ++ k)
      = .error .unknownOid := by
  have := readPrivStruct_shape o0 o1 o2 k hk
  unfold parsePrivDer
  rw [this]
  simp [hk, h1, h2]

theorem parsePubDer_unknownOid (o0 o1 o2 : UInt8) (k : Bytes) (hk : k.length = 32)
    (h1 : [o0, o1, o2] ≠ oidEd) (h2 : [o0, o1, o2] ≠ oidX) :
    parsePubDer P ([0x30, 0x2a, 0x30, 0x05, 0x06, 0x03, o0, o1, o2, 0x03, 0x21, 0x00] ++ k)
      = .error .unknownOid := by
  have := readPubStruct_shape o0 o1 o2 k hk
  unfold parsePubDer
  rw [this]
  simp [hk, h1, h2]

/-- the strict readers accept exactly what is written, and the lenient reader agrees with them -/
theorem strictPrivDer_iff (b k : Bytes) : strictPrivDer b = some k ↔ (b = exportPrivDer k ∧ k.length = 32) := by
  unfold strictPrivDer exportPrivDer
  constructor
  · intro h
    split at h
    · rename_i hc
      simp only [Option.some.injEq] at h
      subst h
      refine ⟨?_, ?_⟩
      · rw [← hc.1]; exact (List.take_append_drop 16 b).symm
      · simp [hc.2]
    · exact absurd h (by simp)
  · rintro ⟨rfl, hk⟩
    simp [privPrefix, hk]

theorem strictPubDer_iff (b k : Bytes) : strictPubDer b = some k ↔ (b = exportPubDer k ∧ k.length = 32) := by
  unfold strictPubDer exportPubDer
  constructor
  · intro h
    split at h
    · rename_i hc
      simp only [Option.some.injEq] at h
      subst h
      refine ⟨?_, ?_⟩
      · rw [← hc.1]; exact (List.take_append_drop 12 b).symm
      · simp [hc.2]
    · exact absurd h (by simp)
  · rintro ⟨rfl, hk⟩
    simp [pubPrefix, hk]

end MlaModel.Keys

/-
  PEM: the framing scanner (`readUntil`), white-space handling, and the armor round trip
  `pemFrame`/`pemOfCaptures` ∘ (any admissible layout of the base64 text) = identity.
-/
import MlaModel.Proofs.KeysB64
namespace MlaModel.Keys

/-! ### `readUntilGo` -/

theorem readUntilGo_short (m s : Bytes) (found i : Nat) (h : s.length < m.length - found) :
    readUntilGo m s found i = none := by
  cases s with
  | nil => rfl
  | cons c r => simp only [readUntilGo, shorterThan_eq, decide_eq_true_eq, if_pos h]

/-- text that does not contain the marker's first byte is skipped -/
theorem readUntilGo_skip (h : UInt8) (m' : Bytes) (t s : Bytes) (i : Nat) (ht : ∀ c ∈ t, c ≠ h) :
    readUntilGo (h :: m') (t ++ s) 0 i = readUntilGo (h :: m') s 0 (i + t.length) := by
  induction t generalizing i with
  | nil => simp
  | cons c t ih =>
    have hc : c ≠ h := ht c (by simp)
    have ht' : ∀ c ∈ t, c ≠ h := fun x hx => ht x (by simp [hx])
    simp only [List.cons_append, readUntilGo, shorterThan_eq, decide_eq_true_eq]
    by_cases hl : (c :: (t ++ s)).length < (h :: m').length - 0
    · rw [if_pos hl]
      symm
      apply readUntilGo_short
      simp only [List.length_cons, List.length_append] at hl ⊢
      omega
    · rw [if_neg hl]
      have h0 : ((h :: m')[0]? = some c) = False := by
        simp only [List.getElem?_cons_zero, Option.some.injEq, eq_iff_iff, iff_false]
        exact fun e => hc e.symm
      simp only [h0, if_false]
      have : ¬ (0 = (h :: m').length) := by simp
      rw [if_neg this, ih (i + 1) ht']
      simp only [List.length_cons]
      congr 1
      omega

/-- once positioned on the marker, it is matched -/
theorem readUntilGo_match (m r : Bytes) (n : Nat) :
    ∀ k j, m.length - k = n → k < m.length →
      readUntilGo m (m.drop k ++ r) k (j + k) = some (r, j) := by
  induction n with
  | zero => intro k j h1 h2; omega
  | succ n ih =>
    intro k j h1 h2
    have hd : m.drop k = m[k] :: m.drop (k + 1) := List.drop_eq_getElem_cons h2
    rw [hd]
    simp only [List.cons_append, readUntilGo, shorterThan_eq, decide_eq_true_eq]
    have hl : ¬ ((m[k] :: (m.drop (k + 1) ++ r)).length < m.length - k) := by
      simp only [List.length_cons, List.length_append, List.length_drop]
      omega
    rw [if_neg hl]
    have hk : m[k]? = some m[k] := List.getElem?_eq_getElem h2
    simp only [hk, if_true]
    by_cases he : k + 1 = m.length
    · rw [if_pos he]
      have : m.drop (k + 1) = [] := by
        apply List.drop_eq_nil_of_le; omega
      simp only [this, List.nil_append, Option.some.injEq, Prod.mk.injEq, true_and]
      omega
    · rw [if_neg he]
      have := ih (k + 1) j (by omega) (by omega)
      rw [show j + k + 1 = j + (k + 1) by omega]
      exact this

/-- **completeness of the scanner on dash-free text**: `t ‖ marker ‖ r` is split at the marker when
    `t` does not contain the marker's first byte -/
theorem readUntil_found (h : UInt8) (m' t r : Bytes) (ht : ∀ c ∈ t, c ≠ h) :
    readUntil (h :: m') (t ++ ((h :: m') ++ r)) = some (r, t) := by
  unfold readUntil
  rw [readUntilGo_skip h m' t _ 0 ht]
  have := readUntilGo_match (h :: m') r (h :: m').length 0 t.length (by simp) (by simp)
  simp only [List.drop_zero, Nat.add_zero, Nat.zero_add] at this ⊢
  rw [this]
  simp

/-- **soundness of the scanner**: what it finds is an occurrence of the marker -/
theorem readUntilGo_sound (m : Bytes) (hm : m ≠ []) :
    ∀ (s : Bytes) (found i : Nat) (r : Bytes) (n : Nat),
      readUntilGo m s found i = some (r, n) → ∃ pre, m.take found ++ s = pre ++ (m ++ r) := by
  intro s
  induction s with
  | nil => intro found i r n h; simp [readUntilGo] at h
  | cons c rest ih =>
    intro found i r n h
    simp only [readUntilGo, shorterThan_eq, decide_eq_true_eq] at h
    split at h
    · exact absurd h (by simp)
    · by_cases hc : m[found]? = some c
      · simp only [hc, if_true] at h
        have htake : m.take (found + 1) = m.take found ++ [c] := by
          rw [List.take_add_one, hc]; rfl
        split at h
        · rename_i he
          simp only [Option.some.injEq, Prod.mk.injEq] at h
          refine ⟨[], ?_⟩
          have hfull : m.take (found + 1) = m := by rw [he]; exact List.take_length
          have hm2 : m.take found ++ [c] = m := htake.symm.trans hfull
          calc m.take found ++ c :: rest = (m.take found ++ [c]) ++ rest := by simp
            _ = [] ++ (m ++ r) := by rw [hm2, h.1]; rfl
        · obtain ⟨pre, hp⟩ := ih (found + 1) (i + 1) r n h
          refine ⟨pre, ?_⟩
          rw [← hp, htake]; simp
      · simp only [hc, if_false] at h
        split at h
        · rename_i he
          exact absurd (List.length_eq_zero_iff.mp he.symm) hm
        · obtain ⟨pre, hp⟩ := ih 0 (i + 1) r n h
          refine ⟨m.take found ++ [c] ++ pre, ?_⟩
          simp only [List.take_zero, List.nil_append] at hp
          rw [hp]; simp

theorem readUntil_sound (m s r t : Bytes) (hm : m ≠ []) (h : readUntil m s = some (r, t)) :
    m <:+: s := by
  unfold readUntil at h
  split at h
  · rename_i rem n hg
    obtain ⟨pre, hp⟩ := readUntilGo_sound m hm s 0 0 rem n hg
    simp only [List.take_zero, List.nil_append] at hp
    exact ⟨pre, rem, by rw [hp]; simp⟩
  · exact absurd h (by simp)

theorem readUntil_none_of_not_infix (m s : Bytes) (hm : m ≠ []) (h : ¬ m <:+: s) :
    readUntil m s = none := by
  cases hr : readUntil m s with
  | none => rfl
  | some p => exact absurd (readUntil_sound m s p.1 p.2 hm hr) h

/-! ### adjacent pairs -/

/-- no byte `x` is immediately followed by a byte `y` -/
def noPair (x y : UInt8) : Bytes → Bool
  | a :: b :: r => !(a == x && b == y) && noPair x y (b :: r)
  | _ => true

theorem noPair_append_pair (x y : UInt8) (u v : Bytes) : noPair x y (u ++ x :: y :: v) = false := by
  induction u with
  | nil => simp [noPair]
  | cons a u ih =>
    cases u with
    | nil => simp only [List.cons_append, List.nil_append, noPair] at ih ⊢; simp
    | cons b u => simp only [List.cons_append, noPair] at ih ⊢; simp [ih]

/-- a marker that contains the adjacent pair `(x, y)` does not occur in a text without that pair -/
theorem not_infix_of_noPair (x y : UInt8) (a b s : Bytes) (h : noPair x y s = true) :
    ¬ (a ++ x :: y :: b) <:+: s := by
  rintro ⟨pre, post, hs⟩
  have : noPair x y ((pre ++ a) ++ x :: y :: (b ++ post)) = false := noPair_append_pair x y _ _
  rw [← hs] at h
  simp only [List.append_assoc, List.cons_append] at h this
  rw [this] at h
  exact absurd h (by simp)

/-- a body without the pairs (LF, LF) and (LF, CR) has no header separator -/
theorem splitHeaders_none (body : Bytes) (h1 : noPair 10 10 body = true) (h2 : noPair 10 13 body = true) :
    splitHeaders body = ([], body) := by
  unfold splitHeaders
  have e1 : readUntil lfLf body = none :=
    readUntil_none_of_not_infix _ _ (by decide) (not_infix_of_noPair 10 10 [] [] body h1)
  have e2 : readUntil crLfCrLf body = none :=
    readUntil_none_of_not_infix _ _ (by decide) (not_infix_of_noPair 10 13 [13] [10] body h2)
  rw [e1, e2]

/-! ### white space -/

theorem skipWs_append_ws (ws s : Bytes) (h : ∀ c ∈ ws, isWs c = true) : skipWs (ws ++ s) = skipWs s := by
  induction ws with
  | nil => rfl
  | cons c ws ih =>
    have hc : isWs c = true := h c (by simp)
    simp only [List.cons_append, skipWs, hc, if_true]
    exact ih (fun x hx => h x (by simp [hx]))

theorem skipWs_of_head (s : Bytes) (h : ∀ c, s.head? = some c → isWs c = false) : skipWs s = s := by
  cases s with
  | nil => rfl
  | cons c r =>
    have : isWs c = false := h c rfl
    simp [skipWs, this]

/-! ### character classes -/

theorem isB64Out_lt (c : UInt8) (h : isB64Out c = true) : c.toNat < 128 := by
  simp only [isB64Out, inRange, Bool.or_eq_true, Bool.and_eq_true, decide_eq_true_eq] at h
  rcases h with ((((h | h) | h) | h) | h) | h
  · omega
  · omega
  · omega
  · subst h; decide
  · subst h; decide
  · subst h; decide

theorem isB64Out_ne (c k : UInt8) (h : isB64Out c = true) (hk : isB64Out k = false) : c ≠ k := by
  intro e; subst e; rw [h] at hk; exact absurd hk (by simp)

theorem isB64Out_not_space (c : UInt8) (h : isB64Out c = true) : (c = 32 || inRange c 9 13) = false := by
  simp only [isB64Out, inRange, Bool.or_eq_true, Bool.and_eq_true, decide_eq_true_eq] at h
  have h32 : c ≠ 32 := isB64Out_ne c 32 (by simpa [isB64Out, inRange] using h) (by decide)
  have : ¬ (9 ≤ c.toNat ∧ c.toNat ≤ 13) := by
    rcases h with ((((h | h) | h) | h) | h) | h
    · omega
    · omega
    · omega
    · subst h; decide
    · subst h; decide
    · subst h; decide
  simp only [inRange, h32, decide_false, Bool.false_or, Bool.and_eq_false_iff, decide_eq_false_iff_not]
  omega

theorem isB64Out_not_ws (c : UInt8) (h : isB64Out c = true) : isWs c = false := by
  have h1 := isB64Out_ne c 32 h (by decide)
  have h2 := isB64Out_ne c 9 h (by decide)
  have h3 := isB64Out_ne c 10 h (by decide)
  have h4 := isB64Out_ne c 13 h (by decide)
  simp [isWs, h1, h2, h3, h4]

theorem utf8Valid_ascii (s : Bytes) (h : ∀ c ∈ s, c.toNat < 128) : utf8Valid s = true := by
  induction s with
  | nil => rfl
  | cons c s ih =>
    have hc : c.toNat < 128 := h c (by simp)
    rw [utf8Valid.eq_def]
    simp only [hc, if_true]
    exact ih (fun x hx => h x (by simp [hx]))

/-! ### `cleanData` -/

theorem cleanData_ws (c : UInt8) (r : Bytes) (h : c = 10 ∨ c = 13 ∨ c = 32 ∨ c = 9) :
    cleanData (c :: r) = cleanData r := by
  rcases h with h | h | h | h <;> subst h <;> rw [cleanData.eq_def] <;> simp [inRange]

theorem cleanData_text (t r : Bytes) (ht : ∀ c ∈ t, isB64Out c = true) :
    cleanData (t ++ r) = (cleanData r).map (t ++ ·) := by
  induction t with
  | nil => cases h : cleanData r <;> simp [h]
  | cons c t ih =>
    have hc := ht c (by simp)
    have ih' := ih (fun x hx => ht x (by simp [hx]))
    rw [List.cons_append, cleanData.eq_def]
    simp only [isB64Out_lt c hc, if_true, isB64Out_not_space c hc, Bool.false_eq_true, if_false, ih']
    cases cleanData r <;> simp

end MlaModel.Keys

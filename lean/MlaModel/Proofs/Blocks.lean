/-
  Proofs about the block codec: `decode (encode b ++ rest) = (b, rest)` for well-formed blocks,
  lengths of encodings.
-/
import MlaModel.Blocks
namespace MlaModel

theorem U64_eq : U64 = 256 ^ 8 := by decide

theorem readLe8 (v : Nat) (r : Bytes) (h : v < U64) : readLe 8 (le64 v ++ r) = .ok (v, r) := by
  unfold le64
  exact readLe_leN 8 v r (by rw [← U64_eq]; exact h)

@[simp] theorem le64_length (v : Nat) : (le64 v).length = 8 := by simp [le64]
@[simp] theorem le32_length (v : Nat) : (le32 v).length = 4 := by simp [le32]

theorem Block.encode_length : ∀ b : Block, b.encode.length =
    match b with
    | .start _ name => 17 + name.length
    | .content _ d => 17 + d.length
    | .eof _ h => 9 + h.length
    | .eoad => 1
  | .start _ _ => by simp [Block.encode]; omega
  | .content _ _ => by simp [Block.encode]; omega
  | .eof _ _ => by simp [Block.encode]; omega
  | .eoad => by simp [Block.encode]

theorem Block.encode_pos (b : Block) : 0 < b.encode.length := by
  cases b <;> simp [Block.encode]

/-- header view of a block -/
def Block.hdr : Block → Hdr
  | .start id n => .start id n
  | .content id d => .content id d.length
  | .eof id h => .eof id h
  | .eoad => .eoad

/-- payload that follows the header in the stream (content blocks only) -/
def Block.payload : Block → Bytes
  | .content _ d => d
  | _ => []

/-- `ArchiveFileBlock::from` on an encoded well-formed block returns its header and leaves the
    source at the payload. -/
theorem Hdr.decode_encode (P : Params) (utf8 : Bytes → Bool) (b : Block) (rest : Bytes)
    (h : b.WF P utf8) :
    Hdr.decode P utf8 (b.encode ++ rest) = .ok (b.hdr, b.payload ++ rest) := by
  cases b with
  | start id name =>
    obtain ⟨hid, hmax, hlen, hutf⟩ := h
    have hnm : ¬ P.nameMax < name.length := by omega
    simp only [Block.encode, List.cons_append, List.append_assoc, Hdr.decode, tStart, if_true]
    rw [readLe8 id _ hid]
    simp only
    rw [readLe8 name.length _ hlen]
    simp only [hnm, if_false]
    rw [takeExact_append]
    simp [hutf, Block.hdr, Block.payload]
  | content id data =>
    obtain ⟨hid, hlen⟩ := h
    simp only [Block.encode, List.cons_append, List.append_assoc, Hdr.decode]
    have h1 : ¬ (tContent = tStart) := by decide
    simp only [h1, if_false, if_true]
    rw [readLe8 id _ hid]
    simp only
    rw [readLe8 data.length _ hlen]
    simp [Block.hdr, Block.payload]
  | eof id hash =>
    obtain ⟨hid, hh⟩ := h
    simp only [Block.encode, List.cons_append, List.append_assoc, Hdr.decode]
    have h1 : ¬ (tEof = tStart) := by decide
    have h2 : ¬ (tEof = tContent) := by decide
    simp only [h1, h2, if_false, if_true]
    rw [readLe8 id _ hid]
    simp only
    have := takeExact_append hash rest
    rw [hh] at this
    rw [this]
    simp [Block.hdr, Block.payload]
  | eoad =>
    simp only [Block.encode, List.cons_append, List.nil_append, Hdr.decode]
    have h1 : ¬ (tEoad = tStart) := by decide
    have h2 : ¬ (tEoad = tContent) := by decide
    have h3 : ¬ (tEoad = tEof) := by decide
    simp [h1, h2, h3, Block.hdr, Block.payload]

/-- full block round trip -/
theorem Block.decode_encode (P : Params) (utf8 : Bytes → Bool) (b : Block) (rest : Bytes)
    (h : b.WF P utf8) : Block.decode P utf8 (b.encode ++ rest) = .ok (b, rest) := by
  unfold Block.decode
  rw [Hdr.decode_encode P utf8 b rest h]
  cases b with
  | start id name => simp [Block.hdr, Block.payload]
  | content id data =>
    simp only [Block.hdr, Block.payload]
    rw [takeExact_append]
  | eof id hash => simp [Block.hdr, Block.payload]
  | eoad => simp [Block.hdr, Block.payload]

/-- decoding the concatenation of well-formed blocks gives the blocks back -/
theorem decodeAll_encodeAll (P : Params) (utf8 : Bytes → Bool) (bs : List Block)
    (h : ∀ b ∈ bs, b.WF P utf8) (fuel : Nat) (hf : bs.length < fuel) :
    decodeAll P utf8 fuel (encodeAll bs) = (bs, none) := by
  induction bs generalizing fuel with
  | nil =>
    obtain ⟨f, rfl⟩ : ∃ f, fuel = f + 1 := ⟨fuel - 1, by simp at hf; omega⟩
    simp [decodeAll, encodeAll]
  | cons b bs ih =>
    obtain ⟨f, rfl⟩ : ∃ f, fuel = f + 1 := ⟨fuel - 1, by simp at hf; omega⟩
    have hb := h b (by simp)
    have hne : encodeAll (b :: bs) ≠ [] := by
      have := Block.encode_pos b
      intro hh
      have h0 : (encodeAll (b :: bs)).length = 0 := by rw [hh]; rfl
      simp only [encodeAll, List.map_cons, List.flatten_cons, List.length_append] at h0
      omega
    have henc : encodeAll (b :: bs) = b.encode ++ encodeAll bs := by simp [encodeAll]
    simp only [decodeAll, hne, if_false]
    rw [henc, Block.decode_encode P utf8 b _ hb]
    simp only
    rw [ih (fun c hc => h c (by simp [hc])) f (by simp at hf; omega)]

end MlaModel

/-
  The fail-safe reader stack as a function of the archive body (the bytes after the header), per
  layer combination and mode, and what it delivers from ANY truncation of a genuine body:

    * `failsafeDeliver` : body ↦ (delivered block stream, did the stack stop with an error)
    * `sealedBody`      : inner block stream ↦ the body the writer stack emits
    * `deliver_comparable` : the delivered bytes are a prefix of the genuine block stream, or the
                            genuine block stream followed by junk
    * `deliver_complete`   : from the whole body, the whole block stream comes out first
    * `deliver_mono`       : for two truncations, the shorter one delivers a prefix of what the longer
                            one delivers — or both already deliver the whole block stream (past the
                            compressed blocks the codec laws say nothing about how the decoder reads
                            the sizes table, and nothing needs to be said: repair stops at the
                            end-of-archive marker)

  Built on the layer laws: `EncFS.*` (Theorems/EncryptFailSafe.lean), `CompFS.*`
  (Theorems/CompressFailSafe.lean).
-/
import MlaModel.Theorems.EncryptFailSafe
import MlaModel.Theorems.CompressFailSafe
namespace MlaModel

/-- which layers are between the block stream and the archive body -/
inductive LayerCfg where
  | none
  | enc
  | comp
  | compEnc
deriving Repr, DecidableEq

def LayerCfg.encrypted : LayerCfg → Bool
  | .enc => true | .compEnc => true | _ => false

def LayerCfg.compressed : LayerCfg → Bool
  | .comp => true | .compEnc => true | _ => false

/-- the fail-safe decryptor, by mode -/
def fsDec (P : Params) (C : EncPrims) (mode : FsMode) (e : Bytes) : Bytes :=
  match mode with
  | .unauthenticated => fsUnauth P C (e.length + 1) 0 e
  | .authenticated => fsAuth P C e

/-- the fail-safe decompressor with its canonical fuel -/
def fsDecompress (P : Params) (K : Codec) (x : Bytes) : Bytes × Bool := fsDecomp P K (x.length + 1) x

/-- **the fail-safe stack**: archive body ↦ (delivered bytes, stopped with an error) -/
def failsafeDeliver (P : Params) (C : EncPrims) (K : Codec) (cfg : LayerCfg) (mode : FsMode)
    (body : Bytes) : Bytes × Bool :=
  match cfg with
  | .none => (body, false)
  | .enc => (fsDec P C mode body, false)
  | .comp => fsDecompress P K body
  | .compEnc => fsDecompress P K (fsDec P C mode body)

/-- the compression layer's output for inner stream `S` cut into the compressed blocks `cs`:
    the blocks, then the sizes table -/
def compBody (P : Params) (S : Bytes) (cs : List Bytes) : Bytes :=
  cs.flatten ++ encSizes ⟨cs.map List.length, S.length - (cs.length - 1) * P.block⟩

/-- what the encryption layer protects -/
def encPlain (P : Params) (cfg : LayerCfg) (S : Bytes) (cs : List Bytes) : Bytes :=
  match cfg with
  | .compEnc => compBody P S cs
  | _ => S

/-- **the archive body** the writer stack emits (after the header) for the block stream `S` -/
def sealedBody (P : Params) (C : EncPrims) (cfg : LayerCfg) (S : Bytes) (cs : List Bytes) : Bytes :=
  match cfg with
  | .none => S
  | .enc => sealS P C S
  | .comp => compBody P S cs
  | .compEnc => sealS P C (compBody P S cs)

/-- one is a prefix of the other -/
def Comparable (a b : Bytes) : Prop := a <+: b ∨ b <+: a

theorem Comparable.of_prefix_append {x a t : Bytes} (h : x <+: a ++ t) : Comparable x a :=
  List.prefix_or_prefix_of_prefix h (List.prefix_append a t)

theorem Comparable.of_append_prefix {x a t : Bytes} (h : a ++ t <+: x) : Comparable x a :=
  Or.inr ((List.prefix_append a t).trans h)

/-! ### the encryption stage -/

section enc
variable (P : Params) (C : EncPrims) (hTag : ∀ i c, (C.tag i c).length = P.tagLen)
include hTag

theorem fsDec_comparable (mode : FsMode) (p r : Bytes) (h : r <+: sealS P C p) :
    Comparable (fsDec P C mode r) p := by
  cases mode with
  | unauthenticated => exact EncFS.unauth_prefix_safe P C hTag p r h
  | authenticated => exact EncFS.auth_prefix_safe P C hTag p r h

theorem fsDec_complete (mode : FsMode) (p : Bytes) : p <+: fsDec P C mode (sealS P C p) := by
  cases mode with
  | unauthenticated => exact EncFS.unauth_complete P C hTag p
  | authenticated => exact EncFS.auth_complete P C hTag p

theorem fsDec_mono (mode : FsMode) (p r₁ r₂ : Bytes)
    (hN : mode = .authenticated → EncFS.NoForge P C p) (h12 : r₁ <+: r₂) (h2 : r₂ <+: sealS P C p) :
    fsDec P C mode r₁ <+: fsDec P C mode r₂ := by
  cases mode with
  | unauthenticated => exact EncFS.unauth_mono P C r₁ r₂ h12
  | authenticated => exact EncFS.auth_mono P C hTag p r₁ r₂ (hN rfl) h12 h2

end enc

/-! ### the compression stage -/

section comp
variable (P : Params) (K : Codec) (hK : K.Laws) (S : Bytes) (cs : List Bytes)
  (hcs : CompFS.IsEncoded P K S cs)
include hK hcs

theorem fsDecompress_short (x : Bytes) (h : x <+: cs.flatten) : (fsDecompress P K x).1 <+: S := by
  have hx := List.prefix_iff_eq_take.1 h
  rw [hx]
  exact CompFS.L2_prefix_safe P K hK S cs hcs _ _

theorem fsDecompress_long (x : Bytes) (h : cs.flatten <+: x) : S <+: (fsDecompress P K x).1 := by
  obtain ⟨t, rfl⟩ := h
  exact CompFS.L3_complete' P K hK S cs hcs t

theorem fsDecompress_comparable (x : Bytes) (h : Comparable x cs.flatten) :
    Comparable (fsDecompress P K x).1 S := by
  rcases h with h | h
  · exact Or.inl (fsDecompress_short P K hK S cs hcs x h)
  · exact Or.inr (fsDecompress_long P K hK S cs hcs x h)

/-- monotonicity of the compression stage along a chain of inputs comparable with the blocks -/
theorem fsDecompress_mono (x₁ x₂ : Bytes) (h12 : x₁ <+: x₂) (h1 : Comparable x₁ cs.flatten)
    (h2 : Comparable x₂ cs.flatten) :
    (fsDecompress P K x₁).1 <+: (fsDecompress P K x₂).1 ∨
      (S <+: (fsDecompress P K x₁).1 ∧ S <+: (fsDecompress P K x₂).1) := by
  rcases h2 with h2 | h2
  · -- both inside the blocks
    left
    have h1' : x₁ <+: cs.flatten := h12.trans h2
    have e1 := List.prefix_iff_eq_take.1 h1'
    have e2 := List.prefix_iff_eq_take.1 h2
    have hl := h12.length_le
    unfold fsDecompress
    rw [e1, e2]
    exact CompFS.L4_mono P K hK S cs hcs _ _ _ _ (by simp only [List.length_take]; omega) hl
  · rcases h1 with h1 | h1
    · left
      exact (fsDecompress_short P K hK S cs hcs x₁ h1).trans (fsDecompress_long P K hK S cs hcs x₂ h2)
    · right
      exact ⟨fsDecompress_long P K hK S cs hcs x₁ h1, fsDecompress_long P K hK S cs hcs x₂ h2⟩

end comp

/-! ### the stack -/

section stack
variable (P : Params) (C : EncPrims) (K : Codec) (hK : K.Laws)
  (hTag : ∀ i c, (C.tag i c).length = P.tagLen)
  (cfg : LayerCfg) (mode : FsMode) (S : Bytes) (cs : List Bytes)
  (hcs : cfg.compressed = true → CompFS.IsEncoded P K S cs)
include hK hTag hcs

/-- what the fail-safe stack delivers from any truncation of the body is comparable with the genuine
    block stream: a prefix of it, or all of it followed by junk -/
theorem deliver_comparable (n : Nat) :
    Comparable (failsafeDeliver P C K cfg mode ((sealedBody P C cfg S cs).take n)).1 S := by
  cases cfg with
  | none => exact Or.inl (List.take_prefix _ _)
  | enc => exact fsDec_comparable P C hTag mode S _ (List.take_prefix _ _)
  | comp =>
    apply fsDecompress_comparable P K hK S cs (hcs rfl)
    exact Comparable.of_prefix_append (List.take_prefix n (compBody P S cs))
  | compEnc =>
    apply fsDecompress_comparable P K hK S cs (hcs rfl)
    rcases fsDec_comparable P C hTag mode (compBody P S cs) _
      (List.take_prefix n (sealS P C (compBody P S cs))) with h | h
    · exact Comparable.of_prefix_append h
    · exact Comparable.of_append_prefix h

/-- from the whole body the whole block stream comes out (possibly followed by junk) -/
theorem deliver_complete :
    S <+: (failsafeDeliver P C K cfg mode (sealedBody P C cfg S cs)).1 := by
  cases cfg with
  | none => exact List.prefix_refl _
  | enc => exact fsDec_complete P C hTag mode S
  | comp => exact fsDecompress_long P K hK S cs (hcs rfl) _ (List.prefix_append _ _)
  | compEnc =>
    apply fsDecompress_long P K hK S cs (hcs rfl)
    exact (List.prefix_append _ _).trans (fsDec_complete P C hTag mode (compBody P S cs))

/-- two truncations: the shorter one delivers a prefix of what the longer one delivers, or both
    deliver the whole block stream.  Authenticated decryption needs the `NoForge` hypothesis on what
    the encryption layer protects (no accidental tag match on a truncated chunk). -/
theorem deliver_mono (n₁ n₂ : Nat) (hn : n₁ ≤ n₂)
    (hN : mode = .authenticated → cfg.encrypted = true → EncFS.NoForge P C (encPlain P cfg S cs)) :
    let d₁ := (failsafeDeliver P C K cfg mode ((sealedBody P C cfg S cs).take n₁)).1
    let d₂ := (failsafeDeliver P C K cfg mode ((sealedBody P C cfg S cs).take n₂)).1
    d₁ <+: d₂ ∨ (S <+: d₁ ∧ S <+: d₂) := by
  intro d₁ d₂
  have htake : ∀ (b : Bytes), b.take n₁ <+: b.take n₂ := fun b => by
    have : b.take n₁ = (b.take n₂).take n₁ := by
      rw [List.take_take, Nat.min_eq_left hn]
    rw [this]; exact List.take_prefix _ _
  cases cfg with
  | none => exact Or.inl (htake _)
  | enc =>
    left
    exact fsDec_mono P C hTag mode S _ _ (fun hm => hN hm rfl) (htake _) (List.take_prefix _ _)
  | comp =>
    apply fsDecompress_mono P K hK S cs (hcs rfl) _ _ (htake _)
    · exact Comparable.of_prefix_append (List.take_prefix n₁ (compBody P S cs))
    · exact Comparable.of_prefix_append (List.take_prefix n₂ (compBody P S cs))
  | compEnc =>
    have hm := fsDec_mono P C hTag mode (compBody P S cs) _ _ (fun hm => hN hm rfl)
      (htake (sealS P C (compBody P S cs))) (List.take_prefix _ _)
    have hc : ∀ n, Comparable (fsDec P C mode ((sealS P C (compBody P S cs)).take n)) cs.flatten := by
      intro n
      rcases fsDec_comparable P C hTag mode (compBody P S cs) _
        (List.take_prefix n (sealS P C (compBody P S cs))) with h | h
      · exact Comparable.of_prefix_append h
      · exact Comparable.of_append_prefix h
    exact fsDecompress_mono P K hK S cs (hcs rfl) _ _ hm (hc n₁) (hc n₂)

end stack

end MlaModel

/-
  Helper lemmas for the fail-safe laws (L2–L5) of the compression layer: consequences of
  `Codec.Laws` for finished encoder streams, one-stream steps of `fsDecomp`, fuel lemmas, and the
  general statements over a list of (plaintext block, finished stream) pairs.
-/
import MlaModel.Compress
namespace MlaModel.CompFS
open MlaModel

/-- `c` is the complete output (`write`/`flush` actions, then `into_inner`) of an encoder run whose
    written bytes are `b` -/
def IsStreamOf (K : Codec) (b c : Bytes) : Prop :=
  ∃ lvl acts, EAct.written acts = b ∧
    c = (K.runActs (K.einit lvl) acts).2 ++ K.efinish (K.runActs (K.einit lvl) acts).1

/-- every block is the complete output of an encoder run over its plaintext -/
structure IsEncoded (P : Params) (K : Codec) (p : Bytes) (cs : List Bytes) : Prop where
  count : cs.length = (p.length + P.block - 1) / P.block
  blocks : ∀ k (h : k < cs.length), ∃ lvl acts, EAct.written acts = blockOf P p k ∧
      cs[k] = (K.runActs (K.einit lvl) acts).2 ++ K.efinish (K.runActs (K.einit lvl) acts).1

theorem IsEncoded.streamOf {P : Params} {K : Codec} {p : Bytes} {cs : List Bytes}
    (h : IsEncoded P K p cs) (k : Nat) (hk : k < cs.length) : IsStreamOf K (blockOf P p k) cs[k] :=
  h.blocks k hk

/-! ### the laws, in terms of `IsStreamOf` -/

section laws
variable {K : Codec} {b c : Bytes}

theorem IsStreamOf.finish (hK : K.Laws) (h : IsStreamOf K b c) (rest : Bytes) :
    K.decStream (c ++ rest) = (b, some rest, false) := by
  obtain ⟨lvl, acts, rfl, rfl⟩ := h
  exact hK.stream_finish lvl acts rest

theorem IsStreamOf.pre (hK : K.Laws) (h : IsStreamOf K b c) (k : Nat) (hk : k < c.length) :
    (K.decStream (c.take k)).1 <+: b ∧ (K.decStream (c.take k)).2.1 = none ∧
      (K.decStream (c.take k)).2.2 = false := by
  obtain ⟨lvl, acts, rfl, rfl⟩ := h
  exact hK.stream_prefix lvl acts k hk

theorem IsStreamOf.mono (hK : K.Laws) (h : IsStreamOf K b c) (k₁ k₂ : Nat) (hk : k₁ ≤ k₂) :
    (K.decStream (c.take k₁)).1 <+: (K.decStream (c.take k₂)).1 := by
  obtain ⟨lvl, acts, rfl, rfl⟩ := h
  exact hK.stream_mono lvl acts k₁ k₂ hk

theorem isStreamOf_run (K : Codec) (lvl : Nat) (acts : List EAct) :
    IsStreamOf K (EAct.written acts)
      ((K.runActs (K.einit lvl) acts).2 ++ K.efinish (K.runActs (K.einit lvl) acts).1) :=
  ⟨lvl, acts, rfl, rfl⟩

/-- if some finished stream were empty, every finished stream would be empty and carry the same
    plaintext -/
theorem IsStreamOf.nil_unique (hK : K.Laws) (h : IsStreamOf K b []) {b' c' : Bytes}
    (h' : IsStreamOf K b' c') : b' = b := by
  have h0 : K.decStream [] = (b, some [], false) := by simpa using h.finish hK []
  by_cases hc : c' = []
  · subst hc
    have h1 : K.decStream [] = (b', some [], false) := by simpa using h'.finish hK []
    rw [h0] at h1
    exact (Prod.mk.inj h1).1.symm
  · have := (h'.pre hK 0 (List.length_pos_iff.mpr hc)).2.1
    simp [h0] at this

/-- a finished stream is never empty (consequence of K5 + K2) -/
theorem IsStreamOf.ne_nil (hK : K.Laws) (h : IsStreamOf K b c) : c ≠ [] := by
  rintro rfl
  have h1 := h.nil_unique hK (isStreamOf_run K 0 [])
  have h2 := h.nil_unique hK (isStreamOf_run K 0 [.write [0]])
  rw [← h1] at h2
  simp [EAct.written] at h2

theorem IsStreamOf.length_pos (hK : K.Laws) (h : IsStreamOf K b c) : 0 < c.length :=
  List.length_pos_iff.mpr (h.ne_nil hK)

/-- nothing is decoded from no input -/
theorem decStream_nil (hK : K.Laws) :
    (K.decStream []).1 = [] ∧ (K.decStream []).2.1 = none ∧ (K.decStream []).2.2 = false := by
  have h := isStreamOf_run K 0 []
  have := h.pre hK 0 (h.length_pos hK)
  simpa [EAct.written] using this

end laws

/-! ### one step of `fsDecomp` -/

section step
variable {P : Params} {K : Codec} {b c : Bytes}

/-- a complete stream at the front: its plaintext is delivered, decoding goes on behind it -/
theorem fsDecomp_stream (hK : K.Laws) (h : IsStreamOf K b c) (hb : b.length ≤ P.block)
    (f : Nat) (rest : Bytes) :
    fsDecomp P K (f + 1) (c ++ rest) =
      (b ++ (fsDecomp P K f rest).1, (fsDecomp P K f rest).2) := by
  have hne := h.length_pos hK
  have hs : c ++ rest ≠ [] := by
    intro h0; have := congrArg List.length h0; rw [List.length_append, List.length_nil] at this; omega
  rw [fsDecomp, if_neg hs, h.finish hK rest]
  have h1 : ¬ P.block < b.length := by omega
  have h2 : ¬ (c ++ rest).length ≤ rest.length := by rw [List.length_append]; omega
  simp only [h1, h2, if_false]

/-- a proper prefix of a stream: what the decoder makes of it, no recursion -/
theorem fsDecomp_pre (hK : K.Laws) (h : IsStreamOf K b c) (hb : b.length ≤ P.block)
    (f k : Nat) (hk : k < c.length) :
    (fsDecomp P K (f + 1) (c.take k)).1 = (K.decStream (c.take k)).1 := by
  by_cases hs : c.take k = []
  · rw [hs, fsDecomp, if_pos rfl, (decStream_nil hK).1]
  · obtain ⟨hp, hn, hf⟩ := h.pre hK k hk
    rw [fsDecomp, if_neg hs]
    generalize K.decStream (c.take k) = d at hp hn hf
    obtain ⟨o, x, y⟩ := d
    simp only at hp hn hf
    subst hn hf
    have h1 : ¬ P.block < o.length := by have := hp.length_le; omega
    simp only [h1, if_false]

end step

/-! ### fuel -/

section fuel
variable (P : Params) (K : Codec)

/-- more fuel never yields less output -/
theorem fsDecomp_fuel_mono (f₁ f₂ : Nat) (hf : f₁ ≤ f₂) (s : Bytes) :
    (fsDecomp P K f₁ s).1 <+: (fsDecomp P K f₂ s).1 := by
  induction f₁ generalizing f₂ s with
  | zero => simp [fsDecomp]
  | succ f₁ ih =>
    obtain ⟨f₂, rfl⟩ : ∃ g, f₂ = g + 1 := ⟨f₂ - 1, by omega⟩
    rw [fsDecomp, fsDecomp]
    split
    · exact List.prefix_refl _
    · split
      · exact List.prefix_refl _
      · split <;> exact List.prefix_refl _
      · split
        · exact List.prefix_refl _
        · split
          · exact List.prefix_refl _
          · exact (List.prefix_append_right_inj _).mpr (ih f₂ (by omega) _)

/-- with `|s| + 1` fuel the result no longer depends on the fuel (every round consumes a byte) -/
theorem fsDecomp_fuel_stable (f₁ f₂ : Nat) (s : Bytes) (h₁ : s.length < f₁) (h₂ : s.length < f₂) :
    fsDecomp P K f₁ s = fsDecomp P K f₂ s := by
  induction f₁ generalizing f₂ s with
  | zero => omega
  | succ f₁ ih =>
    obtain ⟨f₂, rfl⟩ : ∃ g, f₂ = g + 1 := ⟨f₂ - 1, by omega⟩
    rw [fsDecomp, fsDecomp]
    split
    · rfl
    · split
      · rfl
      · rfl
      · split
        · rfl
        · split
          · rfl
          · rename_i hlen
            rw [ih f₂ _ (by omega) (by omega)]

theorem fsDecomp_nil_fst (f : Nat) : (fsDecomp P K f []).1 = [] := by
  cases f <;> simp [fsDecomp]

theorem fsDecomp_nil (f : Nat) : fsDecomp P K (f + 1) [] = ([], false) := by
  simp [fsDecomp]

end fuel

/-! ### a sequence of finished streams -/

/-- `cs` are finished encoder streams of the plaintext pieces `bs`, none longer than a block -/
def Streams (P : Params) (K : Codec) : List Bytes → List Bytes → Prop
  | [], [] => True
  | b :: bs, c :: cs => IsStreamOf K b c ∧ b.length ≤ P.block ∧ Streams P K bs cs
  | _, _ => False

theorem streams_of_index (P : Params) (K : Codec) (bs cs : List Bytes) (hl : bs.length = cs.length)
    (hs : ∀ k (h1 : k < bs.length) (h2 : k < cs.length), IsStreamOf K bs[k] cs[k])
    (hb : ∀ k (h1 : k < bs.length), bs[k].length ≤ P.block) : Streams P K bs cs := by
  induction bs generalizing cs with
  | nil => cases cs <;> simp_all [Streams]
  | cons b bs ih =>
    cases cs with
    | nil => simp at hl
    | cons c cs =>
      refine ⟨hs 0 (by simp) (by simp), hb 0 (by simp), ih cs (by simpa using hl) ?_ ?_⟩
      · intro k h1 h2
        have := hs (k + 1) (by simp; omega) (by simp; omega)
        simpa using this
      · intro k h1
        have := hb (k + 1) (by simp; omega)
        simpa using this

section seq
variable {P : Params} {K : Codec}

theorem Streams.length_le_flatten (hK : K.Laws) {bs cs : List Bytes} (h : Streams P K bs cs) :
    cs.length ≤ cs.flatten.length := by
  induction bs generalizing cs with
  | nil => cases cs <;> simp_all [Streams]
  | cons b bs ih =>
    cases cs with
    | nil => simp [Streams] at h
    | cons c cs =>
      obtain ⟨h1, _, h3⟩ := h
      have := h1.length_pos hK
      have := ih h3
      simp only [List.length_cons, List.flatten_cons, List.length_append]
      omega

/-- complete streams, then anything: the blocks come out, decoding continues on the tail with the
    fuel that is left -/
theorem fsDecomp_streams (hK : K.Laws) {bs cs : List Bytes} (h : Streams P K bs cs) (f : Nat)
    (hf : cs.length ≤ f) (tail : Bytes) :
    fsDecomp P K f (cs.flatten ++ tail) =
      (bs.flatten ++ (fsDecomp P K (f - cs.length) tail).1,
        (fsDecomp P K (f - cs.length) tail).2) := by
  induction bs generalizing cs f with
  | nil => cases cs <;> simp_all [Streams]
  | cons b bs ih =>
    cases cs with
    | nil => simp [Streams] at h
    | cons c cs =>
      obtain ⟨h1, h2, h3⟩ := h
      obtain ⟨f, rfl⟩ : ∃ g, f = g + 1 := ⟨f - 1, by simp at hf; omega⟩
      simp only [List.flatten_cons, List.append_assoc, List.length_cons]
      rw [fsDecomp_stream hK h1 h2, ih h3 f (by simpa using hf)]
      simp only [Nat.add_sub_add_right]

/-- **monotonicity** over a sequence of streams, for any fuel -/
theorem fsDecomp_streams_mono (hK : K.Laws) {bs cs : List Bytes} (h : Streams P K bs cs) (f : Nat)
    (n₁ n₂ : Nat) (hn : n₁ ≤ n₂) :
    (fsDecomp P K f (cs.flatten.take n₁)).1 <+: (fsDecomp P K f (cs.flatten.take n₂)).1 := by
  induction bs generalizing cs f n₁ n₂ with
  | nil => cases cs <;> simp_all [Streams]
  | cons b bs ih =>
    cases cs with
    | nil => simp [Streams] at h
    | cons c cs =>
      obtain ⟨h1, h2, h3⟩ := h
      cases f with
      | zero => simp [fsDecomp]
      | succ f =>
        simp only [List.flatten_cons]
        have hge : ∀ n, c.length ≤ n →
            (c ++ cs.flatten).take n = c ++ cs.flatten.take (n - c.length) := by
          intro n hn; rw [List.take_append, List.take_of_length_le hn]
        have hlt : ∀ n, n < c.length → (c ++ cs.flatten).take n = c.take n := by
          intro n hn; rw [List.take_append_of_le_length (by omega)]
        by_cases c2 : n₂ < c.length
        · rw [hlt n₁ (by omega), hlt n₂ c2, fsDecomp_pre hK h1 h2 _ _ (by omega),
            fsDecomp_pre hK h1 h2 _ _ c2]
          exact h1.mono hK _ _ hn
        · rw [hge n₂ (by omega), fsDecomp_stream hK h1 h2]
          by_cases c1 : n₁ < c.length
          · rw [hlt n₁ c1, fsDecomp_pre hK h1 h2 _ _ c1]
            exact (h1.pre hK _ c1).1.trans (List.prefix_append _ _)
          · rw [hge n₁ (by omega), fsDecomp_stream hK h1 h2]
            exact (List.prefix_append_right_inj _).mpr (ih h3 f _ _ (by omega))

/-- exact result on the complete sequence -/
theorem fsDecomp_streams_exact (hK : K.Laws) {bs cs : List Bytes} (h : Streams P K bs cs) (f : Nat)
    (hf : cs.length < f) : fsDecomp P K f cs.flatten = (bs.flatten, false) := by
  have := fsDecomp_streams hK h f (by omega) []
  obtain ⟨g, hg⟩ : ∃ g, f - cs.length = g + 1 := ⟨f - cs.length - 1, by omega⟩
  rw [hg, fsDecomp_nil] at this
  simpa using this

/-- **prefix-safety** over a sequence of streams, for any fuel -/
theorem fsDecomp_streams_prefix (hK : K.Laws) {bs cs : List Bytes} (h : Streams P K bs cs)
    (f n : Nat) : (fsDecomp P K f (cs.flatten.take n)).1 <+: bs.flatten := by
  have h1 := fsDecomp_streams_mono hK h f n (max n cs.flatten.length) (by omega)
  rw [List.take_of_length_le (Nat.le_max_right _ _)] at h1
  have h2 := fsDecomp_fuel_mono P K f (max f (cs.length + 1)) (Nat.le_max_left _ _) cs.flatten
  rw [fsDecomp_streams_exact hK h (max f (cs.length + 1)) (by omega)] at h2
  exact h1.trans h2

end seq

/-! ### what a flush makes available -/

theorem written_append_flush (acts : List EAct) :
    EAct.written (acts ++ [.flush]) = EAct.written acts := by
  induction acts with
  | nil => rfl
  | cons a acts ih => cases a <;> simp [EAct.written, ih]

/-- the bytes emitted up to a flush decode (fail-safe) to everything written before it -/
theorem fsDecomp_flush {P : Params} {K : Codec} (hK : K.Laws) (lvl : Nat) (acts : List EAct)
    (hle : (EAct.written acts).length ≤ P.block) (f : Nat) :
    (fsDecomp P K (f + 1) (K.runActs (K.einit lvl) (acts ++ [.flush])).2).1 = EAct.written acts := by
  have hS := isStreamOf_run K lvl (acts ++ [.flush])
  have hfl := hK.stream_flush lvl acts
  rw [written_append_flush] at hS
  simp only at hfl
  generalize (K.runActs (K.einit lvl) (acts ++ [.flush])).2 = cur at hS hfl
  generalize K.efinish (K.runActs (K.einit lvl) (acts ++ [.flush])).1 = fin at hS
  by_cases hfin : fin = []
  · subst hfin
    rw [List.append_nil] at hS
    have := fsDecomp_stream (P := P) hK hS hle f []
    rw [List.append_nil] at this
    rw [this, fsDecomp_nil_fst, List.append_nil]
  · have hk : cur.length < (cur ++ fin).length := by
      have := List.length_pos_iff.mpr hfin
      rw [List.length_append]; omega
    have := fsDecomp_pre (P := P) hK hS hle f cur.length hk
    rw [List.take_left'  rfl] at this
    rw [this, hfl]

/-! ### the blocks of a plaintext -/

theorem blockOf_length_le (P : Params) (p : Bytes) (k : Nat) : (blockOf P p k).length ≤ P.block := by
  simp [blockOf]; omega

theorem blocks_flatten (P : Params) (p : Bytes) (n : Nat) :
    ((List.range n).map (blockOf P p)).flatten = p.take (n * P.block) := by
  induction n with
  | zero => simp
  | succ n ih =>
    rw [List.range_succ, List.map_append, List.flatten_append, ih, Nat.add_mul, Nat.one_mul,
      List.take_add]
    simp [blockOf]

theorem blocks_flatten_all (P : Params) (p : Bytes) :
    ((List.range ((p.length + P.block - 1) / P.block)).map (blockOf P p)).flatten = p := by
  rw [blocks_flatten]
  apply List.take_of_length_le
  have hB := P.hblock
  have h1 := Nat.div_add_mod (p.length + P.block - 1) P.block
  have h2 := Nat.mod_lt (p.length + P.block - 1) hB
  rw [Nat.mul_comm]
  generalize (p.length + P.block - 1) / P.block = q at *
  generalize (p.length + P.block - 1) % P.block = r at *
  generalize P.block * q = m at *
  omega

theorem streams_of_blocks {P : Params} {K : Codec} {p : Bytes} {cs : List Bytes}
    (h : ∀ k (h : k < cs.length), ∃ lvl acts, EAct.written acts = blockOf P p k ∧
      cs[k] = (K.runActs (K.einit lvl) acts).2 ++ K.efinish (K.runActs (K.einit lvl) acts).1) :
    Streams P K ((List.range cs.length).map (blockOf P p)) cs := by
  apply streams_of_index
  · simp
  · intro k h1 h2
    have : IsStreamOf K (blockOf P p k) cs[k] := h k h2
    simpa using this
  · intro k h1
    simpa using blockOf_length_le P p _

theorem IsEncoded.streams {P : Params} {K : Codec} {p : Bytes} {cs : List Bytes}
    (h : IsEncoded P K p cs) : Streams P K ((List.range cs.length).map (blockOf P p)) cs :=
  streams_of_blocks h.blocks

theorem IsEncoded.blocks_flatten {P : Params} {K : Codec} {p : Bytes} {cs : List Bytes}
    (h : IsEncoded P K p cs) : ((List.range cs.length).map (blockOf P p)).flatten = p := by
  rw [h.count]; exact blocks_flatten_all P p

/-! ### a minimal codec satisfying `Codec.Laws` (non-vacuity of the hypotheses)

Every byte `x` is emitted as `[1, x]`, the stream ends with `[0]`, `flush` has nothing to emit. -/

def toyEnc : Bytes → Bytes
  | [] => []
  | x :: r => 1 :: x :: toyEnc r

def toyDec : Bytes → Bytes × Option Bytes × Bool
  | [] => ([], none, false)
  | t :: r =>
    if t = 0 then ([], some r, false)
    else if t = 1 then
      match r with
      | [] => ([], none, false)
      | x :: r' => ((x :: (toyDec r').1), (toyDec r').2.1, (toyDec r').2.2)
    else ([], none, true)

def Codec.toy : Codec where
  ES := Unit
  einit := fun _ => ()
  ewrite := fun _ b => ((), toyEnc b)
  eflush := fun _ => ((), [])
  efinish := fun _ => [0]
  dec := fun s => match toyDec s with
    | (o, some [], false) => some o
    | _ => none
  decStream := toyDec

theorem toyEnc_append (a b : Bytes) : toyEnc (a ++ b) = toyEnc a ++ toyEnc b := by
  induction a with
  | nil => rfl
  | cons x a ih => simp [toyEnc, ih]

theorem toy_run (es : Codec.toy.ES) (acts : List EAct) :
    (Codec.toy.runActs es acts).2 = toyEnc (EAct.written acts) := by
  induction acts generalizing es with
  | nil => rfl
  | cons a acts ih =>
    cases a with
    | write b => simp only [Codec.runActs, EAct.written, toyEnc_append, ih]; rfl
    | flush => simp only [Codec.runActs, EAct.written, ih]; rfl

theorem toyDec_finish (w rest : Bytes) : toyDec (toyEnc w ++ 0 :: rest) = (w, some rest, false) := by
  induction w with
  | nil => cases rest <;> simp [toyEnc, toyDec]
  | cons x w ih => simp [toyEnc, toyDec, ih]

theorem toyDec_enc (w : Bytes) : toyDec (toyEnc w) = (w, none, false) := by
  induction w with
  | nil => simp [toyEnc, toyDec]
  | cons x w ih => simp [toyEnc, toyDec, ih]

theorem toyDec_pre (w : Bytes) (k : Nat) (hk : k < (toyEnc w ++ [0]).length) :
    (toyDec ((toyEnc w ++ [0]).take k)).1 <+: w ∧ (toyDec ((toyEnc w ++ [0]).take k)).2.1 = none ∧
      (toyDec ((toyEnc w ++ [0]).take k)).2.2 = false := by
  induction w generalizing k with
  | nil =>
    have : k = 0 := by simp [toyEnc] at hk; omega
    subst this; simp [toyDec]
  | cons x w ih =>
    match k with
    | 0 => simp [toyDec]
    | 1 => simp [toyEnc, toyDec]
    | k + 2 =>
      have := ih k (by simp [toyEnc] at hk ⊢; omega)
      simpa [toyEnc, toyDec] using this

theorem toyDec_mono (w : Bytes) (k₁ k₂ : Nat) (hk : k₁ ≤ k₂) :
    (toyDec ((toyEnc w ++ [0]).take k₁)).1 <+: (toyDec ((toyEnc w ++ [0]).take k₂)).1 := by
  induction w generalizing k₁ k₂ with
  | nil =>
    have h : ∀ k, (toyDec ((toyEnc [] ++ [0]).take k)).1 = [] := by
      intro k; cases k <;> simp [toyEnc, toyDec]
    rw [h, h]; exact List.prefix_refl _
  | cons x w ih =>
    match k₁, k₂, hk with
    | 0, _, _ => simp [toyDec]
    | 1, _, _ => simp [toyEnc, toyDec]
    | k₁ + 2, k₂ + 2, hk =>
      have := ih k₁ k₂ (by omega)
      simpa [toyEnc, toyDec, List.cons_prefix_cons] using this

theorem Codec.toy_laws : Codec.toy.Laws where
  dec_finish := by
    intro lvl acts
    simp only [toy_run]
    show (match toyDec (toyEnc (EAct.written acts) ++ [0]) with
      | (o, some [], false) => some o
      | _ => none) = _
    rw [toyDec_finish]
  stream_finish := by
    intro lvl acts rest
    simp only [toy_run]
    show toyDec (toyEnc (EAct.written acts) ++ [0] ++ rest) = _
    rw [List.append_assoc]; exact toyDec_finish _ _
  stream_prefix := by
    intro lvl acts k
    simp only [toy_run]
    exact toyDec_pre _ k
  stream_mono := by
    intro lvl acts k₁ k₂
    simp only [toy_run]
    exact toyDec_mono _ k₁ k₂
  stream_flush := by
    intro lvl acts
    simp only [toy_run, written_append_flush]
    exact congrArg Prod.fst (toyDec_enc _)

end MlaModel.CompFS

/-
  PEM armor round trip: `pemFrame` / `pemOfCaptures` on any admissible layout, on what `pem::encode`
  writes (any width, CRLF or LF), and on concatenations of blocks.
-/
import MlaModel.Proofs.KeysPem
namespace MlaModel.Keys

/-- the admissible layouts of a base64 text `t` between the two armor lines: no dash, does not start
    with white space, cleans to `t`, no blank line (which would start a header section) -/
structure BodyOk (body t : Bytes) : Prop where
  noDash : ∀ c ∈ body, c ≠ 45
  head : ∀ c, body.head? = some c → isWs c = false
  clean : cleanData body = some t
  noLL : noPair 10 10 body = true
  noLC : noPair 10 13 body = true

theorem head_append_marker (body m' x : Bytes) (h : ∀ c, body.head? = some c → isWs c = false) :
    ∀ c, (body ++ ((45 : UInt8) :: m' ++ x)).head? = some c → isWs c = false := by
  intro c hc
  cases body with
  | nil =>
    simp only [List.nil_append, List.cons_append, List.head?_cons, Option.some.injEq] at hc
    subst hc; decide
  | cons b bs =>
    simp only [List.cons_append, List.head?_cons, Option.some.injEq] at hc
    exact h c (by simp [hc])

/-- **framing**: text before, BEGIN line, white space, body, END line, white space, whatever follows -/
theorem pemFrame_armor (pre tag ws1 body ws2 rest t : Bytes)
    (hpre : ∀ c ∈ pre, c ≠ 45) (htag : ∀ c ∈ tag, c ≠ 45)
    (hws1 : ∀ c ∈ ws1, isWs c = true) (hws2 : ∀ c ∈ ws2, isWs c = true)
    (hb : BodyOk body t) (hrest : ∀ c, rest.head? = some c → isWs c = false) :
    pemFrame (pre ++ (beginMarker ++ (tag ++ (dashes ++ (ws1 ++ (body ++ (endMarker ++ (tag ++
      (dashes ++ (ws2 ++ rest))))))))))
      = some (rest, ⟨tag, [], body, tag⟩) := by
  unfold pemFrame
  have e1 : readUntil beginMarker (pre ++ (beginMarker ++ (tag ++ (dashes ++ (ws1 ++ (body ++
      (endMarker ++ (tag ++ (dashes ++ (ws2 ++ rest))))))))))
      = some (tag ++ (dashes ++ (ws1 ++ (body ++ (endMarker ++ (tag ++ (dashes ++ (ws2 ++ rest))))))), pre) :=
    readUntil_found 45 [45, 45, 45, 45, 66, 69, 71, 73, 78, 32] pre _ hpre
  have e2 : readUntil dashes (tag ++ (dashes ++ (ws1 ++ (body ++ (endMarker ++ (tag ++ (dashes ++
      (ws2 ++ rest)))))))) = some (ws1 ++ (body ++ (endMarker ++ (tag ++ (dashes ++ (ws2 ++ rest))))), tag) :=
    readUntil_found 45 [45, 45, 45, 45] tag _ htag
  have e3 : skipWs (ws1 ++ (body ++ (endMarker ++ (tag ++ (dashes ++ (ws2 ++ rest))))))
      = body ++ (endMarker ++ (tag ++ (dashes ++ (ws2 ++ rest)))) := by
    rw [skipWs_append_ws _ _ hws1]
    apply skipWs_of_head
    exact head_append_marker body [45, 45, 45, 45, 69, 78, 68, 32] _ hb.head
  have e4 : readUntil endMarker (body ++ (endMarker ++ (tag ++ (dashes ++ (ws2 ++ rest)))))
      = some (tag ++ (dashes ++ (ws2 ++ rest)), body) :=
    readUntil_found 45 [45, 45, 45, 45, 69, 78, 68, 32] body _ hb.noDash
  have e5 : readUntil dashes (tag ++ (dashes ++ (ws2 ++ rest))) = some (ws2 ++ rest, tag) :=
    readUntil_found 45 [45, 45, 45, 45] tag _ htag
  have e6 : skipWs (ws2 ++ rest) = rest := by
    rw [skipWs_append_ws _ _ hws2]; exact skipWs_of_head _ hrest
  have e7 := splitHeaders_none body hb.noLL hb.noLC
  simp only [e1, e2, e3, e4, e5, e6, e7]

/-- **decoding of the captures** -/
theorem pemOfCaptures_armor (tag body d : Bytes) (htag : tag ≠ []) (hascii : ∀ c ∈ tag, c.toNat < 128)
    (hb : BodyOk body (b64Encode d)) :
    pemOfCaptures ⟨tag, [], body, tag⟩ = some ⟨tag, d⟩ := by
  unfold pemOfCaptures
  have hu := utf8Valid_ascii tag hascii
  have hne : tag.isEmpty = false := by cases tag <;> simp_all
  have hh : headersOk [] = true := by decide
  simp [hu, hne, hb.clean, b64Decode_encode, hh]

/-! ### the layout `pem::encode` produces -/

theorem wrapLines_nil (w : Nat) (le : Bytes) (fuel : Nat) : wrapLines w le fuel [] = [] := by
  cases fuel <;> simp [wrapLines]

theorem wrapLines_cons (w : Nat) (le : Bytes) (fuel : Nat) (c : UInt8) (t : Bytes) :
    wrapLines w le (fuel + 1) (c :: t)
      = (c :: t).take w ++ (le ++ wrapLines w le fuel ((c :: t).drop w)) := by
  simp [wrapLines]

/-- line endings `pem` can be configured with -/
def IsLe (le : Bytes) : Prop := le = crlf ∨ le = lf

theorem wrapLines_mem (w : Nat) (le : Bytes) : ∀ fuel t, ∀ c ∈ wrapLines w le fuel t, c ∈ t ∨ c ∈ le := by
  intro fuel
  induction fuel with
  | zero => intro t c hc; simp [wrapLines] at hc
  | succ f ih =>
    intro t c hc
    cases t with
    | nil => simp [wrapLines_nil] at hc
    | cons a t =>
      rw [wrapLines_cons] at hc
      simp only [List.mem_append] at hc
      rcases hc with h | h | h
      · exact Or.inl (List.mem_of_mem_take h)
      · exact Or.inr h
      · rcases ih _ c h with h' | h'
        · exact Or.inl (List.mem_of_mem_drop h')
        · exact Or.inr h'

theorem wrapLines_head (w : Nat) (hw : 0 < w) (le : Bytes) (fuel : Nat) (t : Bytes) :
    ∀ c, (wrapLines w le fuel t).head? = some c → c ∈ t := by
  intro c hc
  cases fuel with
  | zero => simp [wrapLines] at hc
  | succ f =>
    cases t with
    | nil => simp [wrapLines_nil] at hc
    | cons a t =>
      rw [wrapLines_cons] at hc
      obtain ⟨w', rfl⟩ : ∃ w', w = w' + 1 := ⟨w - 1, by omega⟩
      simp only [List.take_succ_cons, List.cons_append, List.head?_cons, Option.some.injEq] at hc
      simp [hc]

theorem wrapLines_clean (w : Nat) (hw : 0 < w) (le : Bytes) (hle : IsLe le) :
    ∀ fuel t, t.length ≤ fuel → (∀ c ∈ t, isB64Out c = true) →
      cleanData (wrapLines w le fuel t) = some t := by
  intro fuel
  induction fuel with
  | zero =>
    intro t ht _
    have : t = [] := List.length_eq_zero_iff.mp (by omega)
    subst this; rfl
  | succ f ih =>
    intro t ht hc
    cases t with
    | nil => rw [wrapLines_nil]; rfl
    | cons a t =>
      rw [wrapLines_cons]
      have h1 : ∀ c ∈ (a :: t).take w, isB64Out c = true := fun c h => hc c (List.mem_of_mem_take h)
      have h2 : ∀ c ∈ (a :: t).drop w, isB64Out c = true := fun c h => hc c (List.mem_of_mem_drop h)
      have h3 : ((a :: t).drop w).length ≤ f := by
        simp only [List.length_drop, List.length_cons] at ht ⊢; omega
      rw [cleanData_text _ _ h1]
      have hle' : cleanData (le ++ wrapLines w le f ((a :: t).drop w))
          = cleanData (wrapLines w le f ((a :: t).drop w)) := by
        rcases hle with h | h <;> subst h
        · simp only [crlf, List.cons_append, List.nil_append]
          rw [cleanData_ws 13 _ (by simp), cleanData_ws 10 _ (by simp)]
        · simp only [lf, List.cons_append, List.nil_append]
          rw [cleanData_ws 10 _ (by simp)]
      rw [hle', ih _ h3 h2]
      simp

theorem noPair_le (y : UInt8) (le rest : Bytes) (hle : IsLe le) (hr : noPair 10 y rest = true)
    (hh : ∀ c, rest.head? = some c → c ≠ y) : noPair 10 y (le ++ rest) = true := by
  have h10 : noPair 10 y (10 :: rest) = true := by
    cases rest with
    | nil => rfl
    | cons b r =>
      have : b ≠ y := hh b rfl
      simp [noPair, this, hr]
  rcases hle with h | h <;> subst h
  · simp only [crlf, List.cons_append, List.nil_append, noPair, h10]; simp
  · simpa [lf] using h10

theorem noPair_line (y : UInt8) (line le rest : Bytes) (hle : IsLe le) (hl : ∀ c ∈ line, c ≠ 10)
    (hr : noPair 10 y rest = true) (hh : ∀ c, rest.head? = some c → c ≠ y) :
    noPair 10 y (line ++ (le ++ rest)) = true := by
  induction line with
  | nil => exact noPair_le y le rest hle hr hh
  | cons a l ih =>
    have ha : a ≠ 10 := hl a (by simp)
    have ih' := ih (fun c hc => hl c (by simp [hc]))
    rw [List.cons_append]
    cases hx : l ++ (le ++ rest) with
    | nil => simp [noPair]
    | cons b r =>
      rw [hx] at ih'
      simp [noPair, ha, ih']

theorem wrapLines_noPair (y : UInt8) (hy : y = 10 ∨ y = 13) (w : Nat) (hw : 0 < w) (le : Bytes)
    (hle : IsLe le) : ∀ fuel t, (∀ c ∈ t, isB64Out c = true) →
      noPair 10 y (wrapLines w le fuel t) = true := by
  intro fuel
  induction fuel with
  | zero => intro t _; rfl
  | succ f ih =>
    intro t hc
    cases t with
    | nil => rw [wrapLines_nil]; rfl
    | cons a t =>
      rw [wrapLines_cons]
      have h2 : ∀ c ∈ (a :: t).drop w, isB64Out c = true := fun c h => hc c (List.mem_of_mem_drop h)
      apply noPair_line y _ le _ hle
      · intro c h
        exact isB64Out_ne c 10 (hc c (List.mem_of_mem_take h)) (by decide)
      · exact ih _ h2
      · intro c h
        have hm := wrapLines_head w hw le f _ c h
        have hb := h2 c hm
        rcases hy with e | e <;> subst e
        · exact isB64Out_ne c 10 hb (by decide)
        · exact isB64Out_ne c 13 hb (by decide)

/-- the body written by `pem::encode_config` is an admissible layout of the base64 text -/
theorem wrapLines_bodyOk (w : Nat) (hw : 0 < w) (le : Bytes) (hle : IsLe le) (t : Bytes)
    (ht : ∀ c ∈ t, isB64Out c = true) : BodyOk (wrapLines w le t.length t) t where
  noDash := by
    intro c hc
    rcases wrapLines_mem w le _ _ c hc with h | h
    · exact isB64Out_ne c 45 (ht c h) (by decide)
    · rcases hle with e | e <;> subst e <;> simp [crlf, lf] at h
      · rcases h with h | h <;> subst h <;> decide
      · subst h; decide
  head := fun c hc => isB64Out_not_ws c (ht c (wrapLines_head w hw le _ _ c hc))
  clean := wrapLines_clean w hw le hle _ t (Nat.le_refl _) ht
  noLL := wrapLines_noPair 10 (Or.inl rfl) w hw le hle _ t ht
  noLC := wrapLines_noPair 13 (Or.inr rfl) w hw le hle _ t ht

theorem isLe_ws (le : Bytes) (hle : IsLe le) : ∀ c ∈ le, isWs c = true := by
  intro c hc
  rcases hle with e | e <;> subst e <;> simp [crlf, lf] at hc
  · rcases hc with h | h <;> subst h <;> decide
  · subst hc; decide

/-- tags `pem` blocks are written with here: non-empty ASCII without a dash -/
structure TagOk (tag : Bytes) : Prop where
  ne : tag ≠ []
  ascii : ∀ c ∈ tag, c.toNat < 128
  noDash : ∀ c ∈ tag, c ≠ 45

theorem publicTag_ok : TagOk publicTag := ⟨by decide, by decide, by decide⟩
theorem privateTag_ok : TagOk privateTag := ⟨by decide, by decide, by decide⟩

/-- one encoded block followed by `rest` frames to its captures and leaves `rest` -/
theorem pemFrame_encode (w : Nat) (hw : 0 < w) (le : Bytes) (hle : IsLe le) (tag d rest : Bytes)
    (htag : TagOk tag) (hrest : ∀ c, rest.head? = some c → isWs c = false) :
    pemFrame (pemEncodeWith w le tag d ++ rest)
      = some (rest, ⟨tag, [], wrapLines w le (b64Encode d).length (b64Encode d), tag⟩) := by
  have hb := wrapLines_bodyOk w hw le hle (b64Encode d) (b64Encode_chars d)
  have := pemFrame_armor [] tag le _ le rest _ (by simp) htag.noDash (isLe_ws le hle) (isLe_ws le hle)
    hb hrest
  simpa [pemEncodeWith] using this

/-- **PEM round trip** of `pem::encode_config` (any width > 0, CRLF or LF) for every byte string -/
theorem pemParse_encode (w : Nat) (hw : 0 < w) (le : Bytes) (hle : IsLe le) (tag d : Bytes)
    (htag : TagOk tag) : pemParse (pemEncodeWith w le tag d) = some ⟨tag, d⟩ := by
  unfold pemParse
  have hf := pemFrame_encode w hw le hle tag d [] htag (by simp)
  rw [List.append_nil] at hf
  rw [hf]
  exact pemOfCaptures_armor tag _ d htag.ne htag.ascii
    (wrapLines_bodyOk w hw le hle (b64Encode d) (b64Encode_chars d))

/-! ### several blocks -/

/-- blocks written one after the other, each followed by any white space -/
def encodeAll (w : Nat) (le : Bytes) : List (Pem × Bytes) → Bytes
  | [] => []
  | (p, sep) :: r => pemEncodeWith w le p.tag p.contents ++ (sep ++ encodeAll w le r)

theorem pemFrame_encode_sep (w : Nat) (hw : 0 < w) (le : Bytes) (hle : IsLe le) (tag d sep rest : Bytes)
    (htag : TagOk tag) (hsep : ∀ c ∈ sep, isWs c = true)
    (hrest : ∀ c, rest.head? = some c → isWs c = false) :
    pemFrame (pemEncodeWith w le tag d ++ (sep ++ rest))
      = some (rest, ⟨tag, [], wrapLines w le (b64Encode d).length (b64Encode d), tag⟩) := by
  have hb := wrapLines_bodyOk w hw le hle (b64Encode d) (b64Encode_chars d)
  have hws : ∀ c ∈ le ++ sep, isWs c = true := by
    intro c hc
    rcases List.mem_append.mp hc with h | h
    · exact isLe_ws le hle c h
    · exact hsep c h
  have := pemFrame_armor [] tag le _ (le ++ sep) rest _ (by simp) htag.noDash (isLe_ws le hle) hws hb hrest
  simpa [pemEncodeWith] using this

theorem encodeAll_head (w : Nat) (le : Bytes) (bs : List (Pem × Bytes)) :
    ∀ c, (encodeAll w le bs).head? = some c → isWs c = false := by
  intro c hc
  cases bs with
  | nil => simp [encodeAll] at hc
  | cons b r =>
    obtain ⟨p, sep⟩ := b
    simp only [encodeAll, pemEncodeWith, beginMarker, List.cons_append, List.head?_cons,
      Option.some.injEq] at hc
    subst hc; decide

theorem pemParseManyFuel_encodeAll (w : Nat) (hw : 0 < w) (le : Bytes) (hle : IsLe le) :
    ∀ (bs : List (Pem × Bytes)) (fuel : Nat), bs.length < fuel →
      (∀ b ∈ bs, TagOk b.1.tag ∧ ∀ c ∈ b.2, isWs c = true) →
      pemParseManyFuel fuel (encodeAll w le bs) = some (bs.map (·.1)) := by
  intro bs
  induction bs with
  | nil =>
    intro fuel hf _
    cases fuel with
    | zero => omega
    | succ f => simp [pemParseManyFuel, encodeAll]
  | cons b r ih =>
    intro fuel hf hall
    obtain ⟨p, sep⟩ := b
    cases fuel with
    | zero => omega
    | succ f =>
      have hb := hall (p, sep) (by simp)
      have hne : (encodeAll w le ((p, sep) :: r)).isEmpty = false := by
        simp [encodeAll, pemEncodeWith, beginMarker]
      have hf' := pemFrame_encode_sep w hw le hle p.tag p.contents sep (encodeAll w le r) hb.1 hb.2
        (encodeAll_head w le r)
      have hc := pemOfCaptures_armor p.tag _ p.contents hb.1.ne hb.1.ascii
        (wrapLines_bodyOk w hw le hle (b64Encode p.contents) (b64Encode_chars p.contents))
      have ih' := ih f (by simp only [List.length_cons] at hf; omega)
        (fun b hb' => hall b (by simp [hb']))
      simp only [pemParseManyFuel, hne, Bool.false_eq_true, if_false]
      simp only [encodeAll] at hf' ⊢
      rw [hf']
      simp only [hc, ih', List.map_cons]

theorem encodeAll_length (w : Nat) (le : Bytes) (bs : List (Pem × Bytes)) :
    bs.length ≤ (encodeAll w le bs).length := by
  induction bs with
  | nil => simp
  | cons b r ih =>
    obtain ⟨p, sep⟩ := b
    simp only [encodeAll, pemEncodeWith, beginMarker, List.length_append, List.length_cons]
    omega

/-- **several concatenated blocks parse to the same blocks, in order** -/
theorem pemParseMany_encodeAll (w : Nat) (hw : 0 < w) (le : Bytes) (hle : IsLe le)
    (bs : List (Pem × Bytes)) (hall : ∀ b ∈ bs, TagOk b.1.tag ∧ ∀ c ∈ b.2, isWs c = true) :
    pemParseMany (encodeAll w le bs) = some (bs.map (·.1)) := by
  unfold pemParseMany
  exact pemParseManyFuel_encodeAll w hw le hle bs _ (by have := encodeAll_length w le bs; omega) hall

end MlaModel.Keys

/-
  Proofs about `MlaModel.IoSched`:
    * `Throttled.isCursor`  : a source that returns fewer bytes than asked, on any schedule that
      returns at least one byte for a non-empty request, behaves like a cursor over its data;
    * `EncFSrc.*_sim`         : the fail-safe encryption reader over ANY cursor-like stream computes
      what `EncF` computes over the remaining bytes (loaders, `read`, `deliver`, `new`);
    * `writeAllW_sink`, `runOnW_sink` : `write_all` on a sink whose schedule always ends up accepting
      at least one byte collects exactly the buffer; `PosW` counts exactly the bytes collected.
-/
import MlaModel.IoSched
import MlaModel.Proofs.Stream
namespace MlaModel

/-! ### the throttled source is a cursor -/

theorem Throttled.isCursor (sched : Nat → Nat → Nat) (hs : ∀ i n, 0 < n → 0 < sched i n)
    (data : Bytes) :
    IsCursor (σ := Throttled sched) (fun c => c.data = data ∧ c.pos ≤ data.length) (·.pos) data := by
  refine ⟨fun s h => h.2, ?_, ?_⟩
  · intro s w target ⟨hd, hp⟩ ht hw
    cases w with
    | start n => subst hw; exact ⟨_, rfl, ⟨hd, ht⟩, rfl⟩
    | current d =>
      have h0 : 0 ≤ (s.pos : Int) + d := by omega
      have : ((s.pos : Int) + d).toNat = target := by omega
      refine ⟨{ s with pos := target }, ?_, ⟨hd, ht⟩, rfl⟩
      simp [Stream.seek, h0, this]
    | fromEnd d =>
      subst hd
      have h0 : 0 ≤ (s.data.length : Int) + d := by omega
      have : ((s.data.length : Int) + d).toNat = target := by omega
      refine ⟨{ s with pos := target }, ?_, ⟨rfl, ht⟩, rfl⟩
      simp [Stream.seek, h0, this]
  · intro s n ⟨hd, hp⟩
    subst hd
    refine ⟨_, _, rfl, ⟨rfl, ?_⟩, ?_, ?_, ?_, rfl⟩
    · simp; omega
    · simp
    · simp; omega
    · intro hn hlt
      have := hs s.calls n hn
      simp; omega

/-! ### the fail-safe encryption reader over a cursor-like stream -/

theorem drop_take_length {α} (l : List α) (k : Nat) : l.drop (l.take k).length = l.drop k := by
  by_cases h : k ≤ l.length
  · simp [Nat.min_eq_left h]
  · have h1 : (l.take k).length = l.length := by simp; omega
    rw [h1, List.drop_length, List.drop_eq_nil_of_le (by omega)]

section
variable {ι : Type} [Stream ι] {Inv : ι → Prop} {abs : ι → Nat} {data : Bytes}

/-- the `EncF` state a stream state stands for: the remaining bytes are those after the abstract
    position of the source -/
def EncFSrc.absF (abs : ι → Nat) (data : Bytes) (f : EncFSrc ι) : EncF :=
  ⟨data.drop (abs f.inner), f.cache, f.cpos, f.chunkNo, f.failed, f.mode⟩

/-- `take(k).read_to_end` leaves the remaining bytes `rest.drop k` -/
theorem readUpTo_rest (hI : IsCursor Inv abs data) (s : ι) (k : Nat) (hs : Inv s) :
    ∃ s', readUpTo (k + 1) s k = .ok (s', (data.drop (abs s)).take k) ∧ Inv s' ∧
      data.drop (abs s') = (data.drop (abs s)).drop k := by
  obtain ⟨s', hr, hs', ha⟩ := readUpTo_ok hI (k + 1) s k hs (Nat.lt_succ_self _)
  refine ⟨s', hr, hs', ?_⟩
  rw [ha, ← List.drop_drop, drop_take_length]

theorem EncFSrc.loadUnauthS_sim (hI : IsCursor Inv abs data) (P : Params) (C : EncPrims) (f : EncFSrc ι)
    (hf : Inv f.inner) :
    ∃ f', EncFSrc.loadUnauthS P C f = (f', .ok (EncF.loadUnauth P C (f.absF abs data)).2) ∧
      Inv f'.inner ∧ f'.absF abs data = (EncF.loadUnauth P C (f.absF abs data)).1 := by
  obtain ⟨s1, hr1, hs1, hd1⟩ := readUpTo_rest hI f.inner P.chunk hf
  by_cases hd : (data.drop (abs f.inner)).take P.chunk = []
  · refine ⟨{ f with inner := s1, cache := [], cpos := 0 }, ?_, hs1, ?_⟩
    · simp [EncFSrc.loadUnauthS, hr1, hd, EncF.loadUnauth, EncFSrc.absF]
    · have : (data.drop (abs f.inner)).drop P.chunk = data.drop (abs f.inner) := by
        rcases List.take_eq_nil_iff.1 hd with h | h
        · exact absurd h (Nat.pos_iff_ne_zero.1 P.hchunk)
        · rw [h]; simp
      simp [EncF.loadUnauth, EncFSrc.absF, hd, hd1, this]
  · obtain ⟨s2, hr2, hs2, hd2⟩ := readUpTo_rest hI s1 P.tagLen hs1
    refine ⟨⟨s2, xorAt (C.ks f.chunkNo) 0 ((data.drop (abs f.inner)).take P.chunk), 0, f.chunkNo,
      f.failed, f.mode⟩, ?_, hs2, ?_⟩
    · simp [EncFSrc.loadUnauthS, hr1, hd, hr2, EncF.loadUnauth, EncFSrc.absF]
    · simp [EncF.loadUnauth, EncFSrc.absF, hd, hd2, hd1]

theorem EncFSrc.loadAuthS_sim (hI : IsCursor Inv abs data) (P : Params) (C : EncPrims) (f : EncFSrc ι)
    (hf : Inv f.inner) :
    ∃ f', EncFSrc.loadAuthS P C f = (f', (EncF.loadAuth P C (f.absF abs data)).2) ∧
      Inv f'.inner ∧ f'.absF abs data = (EncF.loadAuth P C (f.absF abs data)).1 := by
  obtain ⟨s1, hr1, hs1, hd1⟩ := readUpTo_rest hI f.inner (P.chunk + P.tagLen) hf
  by_cases hd : (data.drop (abs f.inner)).take (P.chunk + P.tagLen) = []
  · refine ⟨{ f with inner := s1, cache := [], cpos := 0 }, ?_, hs1, ?_⟩
    · simp [EncFSrc.loadAuthS, hr1, hd, EncF.loadAuth, EncFSrc.absF]
    · simp [EncF.loadAuth, EncFSrc.absF, hd, hd1]
  · cases ho : openChunk P C f.chunkNo ((data.drop (abs f.inner)).take (P.chunk + P.tagLen)) with
    | error e =>
      refine ⟨{ f with inner := s1, cache := [] }, ?_, hs1, ?_⟩
      · simp [EncFSrc.loadAuthS, hr1, hd, EncF.loadAuth, EncFSrc.absF, ho]
      · simp [EncF.loadAuth, EncFSrc.absF, hd, hd1, ho]
    | ok pt =>
      refine ⟨{ f with inner := s1, cache := pt, cpos := 0 }, ?_, hs1, ?_⟩
      · simp [EncFSrc.loadAuthS, hr1, hd, EncF.loadAuth, EncFSrc.absF, ho]
      · simp [EncF.loadAuth, EncFSrc.absF, hd, hd1, ho]

omit [Stream ι] in
theorem EncFSrc.fromCache_sim (P : Params) (f : EncFSrc ι) (n : Nat) :
    (EncFSrc.fromCache P f n).2 = (EncF.fromCache P (f.absF abs data) n).2 ∧
    (EncFSrc.fromCache P f n).1.inner = f.inner ∧
    (EncFSrc.fromCache P f n).1.absF abs data = (EncF.fromCache P (f.absF abs data) n).1 := by
  simp [EncFSrc.fromCache, EncF.fromCache, EncFSrc.absF]

/-- one `read` of the stream-based fail-safe reader = one `read` of `EncF` on the remaining bytes -/
theorem EncFSrc.read_sim (hI : IsCursor Inv abs data) (P : Params) (C : EncPrims) (f : EncFSrc ι)
    (n : Nat) (hf : Inv f.inner) :
    (EncFSrc.read P C f n).2 = (EncF.read P C (f.absF abs data) n).2 ∧
    Inv (EncFSrc.read P C f n).1.inner ∧
    (EncFSrc.read P C f n).1.absF abs data = (EncF.read P C (f.absF abs data) n).1 := by
  obtain ⟨inner, cache, cpos, chunkNo, failed, mode⟩ := f
  simp only at hf
  have habs : EncFSrc.absF abs data ⟨inner, cache, cpos, chunkNo, failed, mode⟩ =
      ⟨data.drop (abs inner), cache, cpos, chunkNo, failed, mode⟩ := rfl
  have hnext : EncFSrc.absF abs data ⟨inner, cache, cpos, chunkNo + 1, failed, mode⟩ =
      ⟨data.drop (abs inner), cache, cpos, chunkNo + 1, failed, mode⟩ := rfl
  rw [habs]
  cases mode with
  | unauthenticated =>
    simp only [EncFSrc.read, EncF.read]
    by_cases hc : P.chunk - cpos = 0
    · simp only [hc, if_true]
      obtain ⟨f', hl, hi, ha⟩ := EncFSrc.loadUnauthS_sim hI P C
        ⟨inner, cache, cpos, chunkNo + 1, failed, .unauthenticated⟩ hf
      rw [hnext] at hl ha
      rw [hl]
      generalize EncF.loadUnauth P C _ = res at hl ha
      obtain ⟨g, b⟩ := res
      simp only at ha
      cases b with
      | false => exact ⟨rfl, hi, ha⟩
      | true =>
        obtain ⟨h1, h2, h3⟩ := EncFSrc.fromCache_sim (abs := abs) (data := data) P f' n
        rw [ha] at h1 h3
        exact ⟨by simp only [h1], by simp only [h2]; exact hi, h3⟩
    · simp only [hc, if_false]
      obtain ⟨h1, h2, h3⟩ := EncFSrc.fromCache_sim (abs := abs) (data := data) P
        ⟨inner, cache, cpos, chunkNo, failed, .unauthenticated⟩ n
      rw [habs] at h1 h3
      exact ⟨by simp only [h1], by simp only [h2]; exact hf, h3⟩
  | authenticated =>
    cases failed with
    | true => exact ⟨rfl, hf, rfl⟩
    | false =>
      simp only [EncFSrc.read, EncF.read, Bool.false_eq_true, if_false]
      by_cases hc : P.chunk - cpos = 0
      · simp only [hc, if_true]
        obtain ⟨f', hl, hi, ha⟩ := EncFSrc.loadAuthS_sim hI P C
          ⟨inner, cache, cpos, chunkNo + 1, false, .authenticated⟩ hf
        rw [hnext] at hl ha
        rw [hl]
        generalize EncF.loadAuth P C _ = res at hl ha
        obtain ⟨g, r⟩ := res
        simp only at ha
        cases r with
        | error e =>
          cases e
          all_goals first
            | exact ⟨rfl, hi, ha⟩
            | exact ⟨rfl, hi, by simp only [← ha]; rfl⟩
        | ok b =>
          cases b with
          | false => exact ⟨rfl, hi, ha⟩
          | true =>
            obtain ⟨h1, h2, h3⟩ := EncFSrc.fromCache_sim (abs := abs) (data := data) P f' n
            rw [ha] at h1 h3
            exact ⟨by simp only [h1], by simp only [h2]; exact hi, h3⟩
      · simp only [hc, if_false]
        obtain ⟨h1, h2, h3⟩ := EncFSrc.fromCache_sim (abs := abs) (data := data) P
          ⟨inner, cache, cpos, chunkNo, false, .authenticated⟩ n
        rw [habs] at h1 h3
        exact ⟨by simp only [h1], by simp only [h2]; exact hf, h3⟩

/-- what the stream-based fail-safe reader delivers = what `EncF` delivers on the remaining bytes -/
theorem EncFSrc.deliver_sim (hI : IsCursor Inv abs data) (P : Params) (C : EncPrims) (n fuel : Nat) :
    ∀ (f : EncFSrc ι), Inv f.inner →
      EncFSrc.deliver P C n fuel f = EncF.deliver P C n fuel (f.absF abs data) := by
  induction fuel with
  | zero => intro f _; rfl
  | succ fuel ih =>
    intro f hf
    obtain ⟨h1, h2, h3⟩ := EncFSrc.read_sim hI P C f n hf
    simp only [EncFSrc.deliver, EncF.deliver]
    generalize EncFSrc.read P C f n = rs at h1 h2 h3
    generalize EncF.read P C (f.absF abs data) n = rf at h1 h3
    obtain ⟨f1, r1⟩ := rs
    obtain ⟨g, r2⟩ := rf
    simp only at h1 h2 h3
    subst h1
    cases r1 with
    | error e => rfl
    | ok out =>
      simp only
      by_cases ho : out = []
      · simp [ho]
      · simp only [ho, if_false]
        rw [ih f1 h2, h3]

/-- `new` over a stream source = `EncF.new` on the bytes after the position of the source -/
theorem EncFSrc.new_sim (hI : IsCursor Inv abs data) (P : Params) (C : EncPrims) (mode : FsMode)
    (src : ι) (hs : Inv src) :
    ∃ f' b, EncFSrc.new P C mode src = (f', .ok b) ∧ Inv f'.inner ∧
      f'.absF abs data = EncF.new P C mode (data.drop (abs src)) := by
  obtain ⟨f', hl, hi, ha⟩ := EncFSrc.loadUnauthS_sim hI P C ⟨src, [], 0, 0, false, mode⟩ hs
  exact ⟨f', _, hl, hi, ha⟩

end

/-! ### `write_all` on a scheduled sink -/

section
variable {ω : Type} [WriteDst ω]

theorem writeAllW_nil (fuel : Nat) (w : ω) : writeAllW fuel w [] = (w, .ok ()) := by
  cases fuel <;> simp [writeAllW]

theorem writeAllW_succ_none {fuel : Nat} {w w' : ω} {buf : Bytes} (hb : buf ≠ [])
    (h : WriteDst.write w buf = (w', none)) :
    writeAllW (fuel + 1) w buf = writeAllW fuel w' buf := by
  simp only [writeAllW, hb, if_false, h]

theorem writeAllW_succ_zero {fuel : Nat} {w w' : ω} {buf : Bytes} (hb : buf ≠ [])
    (h : WriteDst.write w buf = (w', some 0)) :
    writeAllW (fuel + 1) w buf = (w', .error .io) := by
  simp only [writeAllW, hb, if_false, h]

theorem writeAllW_succ_some {fuel : Nat} {w w' : ω} {buf : Bytes} {k : Nat} (hb : buf ≠ [])
    (h : WriteDst.write w buf = (w', some k)) (hk : 0 < k) :
    writeAllW (fuel + 1) w buf = writeAllW fuel w' (buf.drop k) := by
  cases k with
  | zero => omega
  | succ k => simp only [writeAllW, hb, if_false, h]

end

section
variable {accept : Nat → Nat → Option Nat}

/-- the schedule never answers `Ok(0)` to a non-empty buffer, and after any call number a non-empty
    write is eventually not interrupted -/
structure Sink.Fair (accept : Nat → Nat → Option Nat) : Prop where
  pos : ∀ i n j, 0 < n → accept i n = some j → 0 < j
  live : ∀ i n, 0 < n → ∃ d, accept (i + d) n ≠ none

/-- the first call that is not interrupted takes a non-empty prefix of the buffer; `m` interrupted
    calls come before it, and `m` is minimal -/
theorem Sink.progress (hpos : ∀ i n j, 0 < n → accept i n = some j → 0 < j)
    (buf : Bytes) (hb : buf ≠ []) (d : Nat) :
    ∀ (s : Sink accept), accept (s.calls + d) buf.length ≠ none →
      ∃ m k, m ≤ d ∧ 0 < k ∧ k ≤ buf.length ∧
        (∀ d', accept (s.calls + d') buf.length ≠ none → m ≤ d') ∧
        ∀ f, writeAllW (f + m + 1) s buf =
          writeAllW f (⟨s.got ++ buf.take k, s.calls + m + 1⟩ : Sink accept) (buf.drop k) := by
  have hlen : 0 < buf.length := List.length_pos_iff.2 hb
  have hsome : ∀ (s : Sink accept) j, accept s.calls buf.length = some j →
      ∃ k, 0 < k ∧ k ≤ buf.length ∧
        ∀ f, writeAllW (f + 1) s buf =
          writeAllW f (⟨s.got ++ buf.take k, s.calls + 1⟩ : Sink accept) (buf.drop k) := by
    intro s j ha
    have hj := hpos _ _ _ hlen ha
    have hw : WriteDst.write s buf =
        ((⟨s.got ++ buf.take (min j buf.length), s.calls + 1⟩ : Sink accept),
          some (min j buf.length)) := by
      simp only [WriteDst.write, Sink.write, ha]
    exact ⟨min j buf.length, by omega, Nat.min_le_right _ _,
      fun f => writeAllW_succ_some hb hw (by omega)⟩
  induction d with
  | zero =>
    intro s hd
    cases ha : accept s.calls buf.length with
    | none => exact absurd ha (by simpa using hd)
    | some j =>
      obtain ⟨k, hk0, hk, hw⟩ := hsome s j ha
      exact ⟨0, k, Nat.zero_le _, hk0, hk, fun _ _ => Nat.zero_le _, hw⟩
  | succ d ih =>
    intro s hd
    cases ha : accept s.calls buf.length with
    | some j =>
      obtain ⟨k, hk0, hk, hw⟩ := hsome s j ha
      exact ⟨0, k, Nat.zero_le _, hk0, hk, fun _ _ => Nat.zero_le _, hw⟩
    | none =>
      have hw1 : WriteDst.write s buf = ((⟨s.got, s.calls + 1⟩ : Sink accept), none) := by
        simp only [WriteDst.write, Sink.write, ha]
      obtain ⟨m, k, hm, hk0, hk, hmin, hw⟩ := ih (⟨s.got, s.calls + 1⟩ : Sink accept)
        (by simpa [Nat.add_assoc, Nat.add_comm 1 d] using hd)
      refine ⟨m + 1, k, by omega, hk0, hk, ?_, ?_⟩
      · intro d' hd'
        cases d' with
        | zero => exact absurd ha (by simpa using hd')
        | succ d' =>
          have := hmin d' (by simpa [Nat.add_assoc, Nat.add_comm 1 d'] using hd')
          omega
      · intro f
        have e : s.calls + (m + 1) + 1 = s.calls + 1 + m + 1 := by omega
        rw [e]
        show writeAllW ((f + m + 1) + 1) s buf = _
        rw [writeAllW_succ_none hb hw1]
        exact hw f

/-- **`write_all` on a fair sink**: with enough fuel it succeeds and the sink has collected exactly
    `old ++ buf`; if moreover at most `B` interruptions ever come in a row, fuel
    `|buf| * (B + 1)` is enough. -/
theorem writeAllW_sink (hfair : Sink.Fair accept) (buf : Bytes) :
    ∀ (s : Sink accept), ∃ (F : Nat) (s' : Sink accept), s'.got = s.got ++ buf ∧
      (∀ f, F ≤ f → writeAllW f s buf = (s', .ok ())) ∧
      (∀ B, (∀ i n, 0 < n → ∃ d, d ≤ B ∧ accept (i + d) n ≠ none) → F ≤ buf.length * (B + 1)) := by
  generalize hn : buf.length = n
  induction n using Nat.strongRecOn generalizing buf with
  | _ n ih =>
    intro s
    by_cases hb : buf = []
    · subst hb
      refine ⟨0, s, by simp, ?_, fun _ _ => Nat.zero_le _⟩
      intro f _
      exact writeAllW_nil f s
    · have hlen : 0 < buf.length := List.length_pos_iff.2 hb
      obtain ⟨d, hd⟩ := hfair.live s.calls buf.length hlen
      obtain ⟨m, k, _, hk0, hk, hmin, hw⟩ := Sink.progress hfair.pos buf hb d s hd
      obtain ⟨F1, s', hgot, hall, hbound⟩ := ih (buf.drop k).length (by simp; omega) (buf.drop k) rfl
        (⟨s.got ++ buf.take k, s.calls + m + 1⟩ : Sink accept)
      refine ⟨F1 + m + 1, s', ?_, ?_, ?_⟩
      · rw [hgot]; simp
      · intro f hf
        obtain ⟨f', rfl⟩ : ∃ f', f = f' + m + 1 := ⟨f - (m + 1), by omega⟩
        rw [hw f']
        exact hall f' (by omega)
      · intro B hB
        have h1 := hbound B hB
        obtain ⟨d', hd'B, hd'⟩ := hB s.calls buf.length hlen
        have hmB : m ≤ B := Nat.le_trans (hmin d' hd') hd'B
        simp only [List.length_drop] at h1
        have h2 : (buf.length - k + 1) * (B + 1) ≤ buf.length * (B + 1) :=
          Nat.mul_le_mul_right _ (by omega)
        rw [Nat.succ_mul] at h2
        subst hn
        omega

/-- a sequence of `write_all` calls on a fair sink collects the concatenation of the pieces -/
theorem runOnW_sink (hfair : Sink.Fair accept) (pieces : List Bytes) :
    ∀ (s : Sink accept), ∃ (F : Nat) (s' : Sink accept), s'.got = s.got ++ pieces.flatten ∧
      (∀ f, F ≤ f → runOnW f pieces s = (s', .ok ())) ∧
      (∀ B L, (∀ i n, 0 < n → ∃ d, d ≤ B ∧ accept (i + d) n ≠ none) →
        (∀ p ∈ pieces, p.length ≤ L) → F ≤ L * (B + 1)) := by
  induction pieces with
  | nil => intro s; exact ⟨0, s, by simp, fun _ _ => rfl, fun _ _ _ _ => Nat.zero_le _⟩
  | cons p ps ih =>
    intro s
    obtain ⟨F1, s1, hg1, h1, hb1⟩ := writeAllW_sink hfair p s
    obtain ⟨F2, s2, hg2, h2, hb2⟩ := ih s1
    refine ⟨max F1 F2, s2, by rw [hg2, hg1]; simp, ?_, ?_⟩
    · intro f hf
      simp only [runOnW, h1 f (by omega)]
      exact h2 f (by omega)
    · intro B L hB hL
      have e1 := hb1 B hB
      have e2 := hb2 B L hB (fun q hq => hL q (by simp [hq]))
      have e3 : p.length * (B + 1) ≤ L * (B + 1) := Nat.mul_le_mul_right _ (hL p (by simp))
      omega

/-! ### the position layer -/

theorem Sink.write_len (s : Sink accept) (buf : Bytes) :
    (WriteDst.write s buf).1.got.length =
      s.got.length + (match (WriteDst.write s buf).2 with | some k => k | none => 0) := by
  simp only [WriteDst.write, Sink.write]
  cases accept s.calls buf.length with
  | none => simp
  | some j => simp

/-- `PositionLayerWriter::write` keeps `pos` equal (up to the starting offset `c`) to the number of
    bytes the destination collected — for EVERY schedule, interruptions and short writes included -/
theorem PosW.write_counts (p : PosW (Sink accept)) (buf : Bytes) (c : Nat)
    (h : p.pos + c = p.inner.got.length) :
    (WriteDst.write p buf).1.pos + c = (WriteDst.write p buf).1.inner.got.length := by
  have hl := Sink.write_len p.inner buf
  show (PosW.write p buf).1.pos + c = (PosW.write p buf).1.inner.got.length
  unfold PosW.write
  generalize WriteDst.write p.inner buf = res at hl
  obtain ⟨i, r⟩ := res
  cases r with
  | none => simp only at hl ⊢; omega
  | some k => simp only at hl ⊢; omega

theorem PosW.writeAll_counts (fuel : Nat) : ∀ (p : PosW (Sink accept)) (buf : Bytes) (c : Nat),
    p.pos + c = p.inner.got.length →
    (writeAllW fuel p buf).1.pos + c = (writeAllW fuel p buf).1.inner.got.length := by
  induction fuel with
  | zero => intro p buf c h; simp only [writeAllW]; split <;> exact h
  | succ fuel ih =>
    intro p buf c h
    by_cases hb : buf = []
    · subst hb; rw [writeAllW_nil]; exact h
    · have hw := PosW.write_counts p buf c h
      cases hr : WriteDst.write p buf with
      | mk p' r =>
        rw [hr] at hw
        cases r with
        | none => rw [writeAllW_succ_none hb hr]; exact ih p' buf c hw
        | some k =>
          cases k with
          | zero => rw [writeAllW_succ_zero hb hr]; exact hw
          | succ k => rw [writeAllW_succ_some hb hr (Nat.succ_pos _)]; exact ih p' _ c hw

theorem PosW.runOn_counts (fuel : Nat) (pieces : List Bytes) : ∀ (p : PosW (Sink accept)) (c : Nat),
    p.pos + c = p.inner.got.length →
    (runOnW fuel pieces p).1.pos + c = (runOnW fuel pieces p).1.inner.got.length := by
  induction pieces with
  | nil => intro p c h; exact h
  | cons q qs ih =>
    intro p c h
    have hw := PosW.writeAll_counts fuel p q c h
    simp only [runOnW]
    generalize writeAllW fuel p q = res at hw
    obtain ⟨p', r⟩ := res
    cases r with
    | error e => exact hw
    | ok u => exact ih p' c hw

end

/-- the position layer is a pass-through: `write_all` through it does to the destination exactly
    what `write_all` directly on the destination does -/
theorem PosW.writeAll_inner {ω : Type} [WriteDst ω] (fuel : Nat) : ∀ (p : PosW ω) (buf : Bytes),
    (writeAllW fuel p buf).1.inner = (writeAllW fuel p.inner buf).1 ∧
    (writeAllW fuel p buf).2 = (writeAllW fuel p.inner buf).2 := by
  induction fuel with
  | zero => intro p buf; simp only [writeAllW]; split <;> exact ⟨rfl, rfl⟩
  | succ fuel ih =>
    intro p buf
    by_cases hb : buf = []
    · subst hb; rw [writeAllW_nil, writeAllW_nil]; exact ⟨rfl, rfl⟩
    · cases hr : WriteDst.write p.inner buf with
      | mk i r =>
        cases r with
        | none =>
          have hp : WriteDst.write p buf = (({ p with inner := i } : PosW ω), none) := by
            show PosW.write p buf = _
            simp only [PosW.write, hr]
          rw [writeAllW_succ_none hb hp, writeAllW_succ_none hb hr]
          exact ih _ buf
        | some k =>
          have hp : WriteDst.write p buf = ((⟨i, p.pos + k⟩ : PosW ω), some k) := by
            show PosW.write p buf = _
            simp only [PosW.write, hr]
          cases k with
          | zero =>
            rw [writeAllW_succ_zero hb hp, writeAllW_succ_zero hb hr]; exact ⟨rfl, rfl⟩
          | succ k =>
            rw [writeAllW_succ_some hb hp (Nat.succ_pos _), writeAllW_succ_some hb hr (Nat.succ_pos _)]
            exact ih _ _

theorem PosW.runOn_inner {ω : Type} [WriteDst ω] (fuel : Nat) (pieces : List Bytes) :
    ∀ (p : PosW ω), (runOnW fuel pieces p).1.inner = (runOnW fuel pieces p.inner).1 ∧
      (runOnW fuel pieces p).2 = (runOnW fuel pieces p.inner).2 := by
  induction pieces with
  | nil => intro p; exact ⟨rfl, rfl⟩
  | cons q qs ih =>
    intro p
    obtain ⟨h1, h2⟩ := PosW.writeAll_inner fuel p q
    simp only [runOnW]
    generalize writeAllW fuel p q = r1 at h1 h2
    generalize writeAllW fuel p.inner q = r2 at h1 h2
    obtain ⟨p', x⟩ := r1
    obtain ⟨w', y⟩ := r2
    simp only at h1 h2
    subst h2
    cases x with
    | error e => exact ⟨h1, rfl⟩
    | ok u => rw [← h1]; exact ih p'

end MlaModel

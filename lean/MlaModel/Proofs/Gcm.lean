/-
  Lemmas for C06.gcm_split: GHASH over whole blocks, the invariant of `Gcm.encrypt`.
-/
import MlaModel.Gcm
import MlaModel.Proofs.EncryptWriter
namespace MlaModel

theorem xorAt_invol (ks : Nat → UInt8) (off : Nat) (x : Bytes) :
    xorAt ks off (xorAt ks off x) = x := by
  induction x generalizing off with
  | nil => rfl
  | cons b bs ih => simp [xorAt, ih, UInt8.xor_assoc]

/-! ### `ghFold` -/

theorem ghFold_add (G : GcmPrims) (a b : Nat) (y x : Bytes) :
    ghFold G (a + b) y x = ghFold G b (ghFold G a y x) (x.drop (16 * a)) := by
  induction a generalizing y x with
  | zero => simp [ghFold]
  | succ a ih =>
    have e : a + 1 + b = (a + b) + 1 := by omega
    rw [e, ghFold, ih, ghFold, List.drop_drop]
    congr 2
    omega

/-- only the first `16·k` bytes matter -/
theorem ghFold_append (G : GcmPrims) (k : Nat) (y a b : Bytes) (h : 16 * k ≤ a.length) :
    ghFold G k y (a ++ b) = ghFold G k y a := by
  induction k generalizing y a with
  | zero => rfl
  | succ k ih =>
    have h16 : 16 ≤ a.length := by omega
    rw [ghFold, ghFold, List.take_append_of_le_length h16, List.drop_append_of_le_length h16]
    exact ih _ _ (by simp; omega)

/-- GHASH state after the whole blocks of `ct` -/
def hashed (G : GcmPrims) (ct : Bytes) : Bytes := ghFold G (ct.length / 16) G.ghInit ct
/-- the bytes of `ct` after its last whole block -/
def tail16 (ct : Bytes) : Bytes := ct.drop (ct.length / 16 * 16)

theorem tail16_length (ct : Bytes) : (tail16 ct).length = ct.length % 16 := by
  simp only [tail16, List.length_drop]; omega

theorem tail16_eq_nil (ct : Bytes) : tail16 ct = [] ↔ ct.length % 16 = 0 := by
  rw [← List.length_eq_zero_iff, tail16_length]

/-- `update_padded` of the tail from the state after the whole blocks is GHASH of everything -/
theorem ghPadded_hashed (G : GcmPrims) (ct : Bytes) :
    ghPadded G (hashed G ct) (tail16 ct) = ghPadded G G.ghInit ct := by
  have hl := tail16_length ct
  have h0 : (tail16 ct).length / 16 = 0 := by omega
  simp only [ghPadded, h0, ghFold, Nat.zero_mul, List.drop_zero]
  rfl

/-- the bookkeeping of `encrypt` on the ciphertext: `(hashed, tail16)` of `ct ++ c` from those of
    `ct`, in the shape the code computes them -/
theorem absorb_small (G : GcmPrims) (ct c : Bytes) (h : ct.length % 16 + c.length < 16) :
    hashed G (ct ++ c) = hashed G ct ∧ tail16 (ct ++ c) = tail16 ct ++ c := by
  have hq : (ct ++ c).length / 16 = ct.length / 16 := by simp only [List.length_append]; omega
  refine ⟨?_, ?_⟩
  · simp only [hashed, hq]
    exact ghFold_append G _ _ _ _ (by omega)
  · simp only [tail16, hq]
    exact List.drop_append_of_le_length (by omega)

theorem absorb_big (G : GcmPrims) (ct c1 c2 : Bytes)
    (hk : c1.length = if ct.length % 16 = 0 then 0 else 16 - ct.length % 16) :
    hashed G (ct ++ (c1 ++ c2)) =
      ghFold G (c2.length / 16)
        (if ct.length % 16 = 0 then hashed G ct else G.ghStep (hashed G ct) (tail16 ct ++ c1)) c2 ∧
    tail16 (ct ++ (c1 ++ c2)) = c2.drop (c2.length / 16 * 16) := by
  have htl := tail16_length ct
  by_cases hr : ct.length % 16 = 0
  · -- aligned: nothing to complete
    rw [if_pos hr] at hk
    have hc1 : c1 = [] := List.length_eq_zero_iff.mp hk
    subst hc1
    simp only [List.nil_append, if_pos hr]
    have hq : (ct ++ c2).length / 16 = ct.length / 16 + c2.length / 16 := by
      simp only [List.length_append]; omega
    have hct : 16 * (ct.length / 16) = ct.length := by omega
    refine ⟨?_, ?_⟩
    · simp only [hashed, hq]
      rw [ghFold_add, ghFold_append G _ _ _ _ (by omega), hct, List.drop_left]
    · simp only [tail16, hq]
      have : (ct.length / 16 + c2.length / 16) * 16 = ct.length + c2.length / 16 * 16 := by omega
      rw [this, ← List.drop_drop, List.drop_left]
  · rw [if_neg hr] at hk
    simp only [if_neg hr]
    have hq : (ct ++ (c1 ++ c2)).length / 16 = ct.length / 16 + (1 + c2.length / 16) := by
      simp only [List.length_append]; omega
    have hblk : (tail16 ct ++ c1).length = 16 := by simp only [List.length_append, htl]; omega
    have hdrop : (ct ++ (c1 ++ c2)).drop (16 * (ct.length / 16)) = (tail16 ct ++ c1) ++ c2 := by
      rw [List.drop_append_of_le_length (by omega), tail16, Nat.mul_comm, List.append_assoc]
    refine ⟨?_, ?_⟩
    · simp only [hashed, hq]
      rw [ghFold_add, ghFold_append G _ _ _ _ (by omega), hdrop, Nat.add_comm 1, ghFold,
        List.take_left' hblk, List.drop_left' hblk]
    · simp only [tail16, hq]
      have : (ct.length / 16 + (1 + c2.length / 16)) * 16 =
          16 * (ct.length / 16) + (16 + c2.length / 16 * 16) := by omega
      rw [this, ← List.drop_drop, hdrop, ← List.drop_drop, List.drop_left' hblk]

/-! ### the invariant of `AesGcm256` while encrypting -/

/-- after encrypting the message bytes `m` (in any number of calls): the cipher is at offset `|m|`,
    the counter of bytes is `|m|`, the GHASH state is that of the whole 16-byte blocks of the
    ciphertext so far, `current_block` is the rest of the ciphertext -/
structure Gcm.Inv (G : GcmPrims) (aadLen : Nat) (s : GcmSt) (m : Bytes) : Prop where
  pos : s.pos = m.length
  n : s.n = m.length
  aad : s.aadBits = aadLen * 8
  gh : s.gh = hashed G (xorAt G.ks 0 m)
  cur : s.cur = tail16 (xorAt G.ks 0 m)

theorem Gcm.Inv.cur_lt {G : GcmPrims} {aadLen : Nat} {s : GcmSt} {m : Bytes}
    (h : Gcm.Inv G aadLen s m) : s.cur.length < 16 := by
  rw [h.cur, tail16_length]; omega

theorem Gcm.inv_init (G : GcmPrims) (aadLen : Nat) : Gcm.Inv G aadLen (Gcm.init G aadLen) [] :=
  ⟨rfl, rfl, rfl, by simp [Gcm.init, hashed, xorAt, ghFold], by simp [Gcm.init, tail16, xorAt]⟩

theorem Gcm.encrypt_inv (G : GcmPrims) (aadLen : Nat) (s : GcmSt) (m buf : Bytes)
    (h : Gcm.Inv G aadLen s m) :
    Gcm.Inv G aadLen (Gcm.encrypt G s buf).1 (m ++ buf) ∧
    (Gcm.encrypt G s buf).2 = xorAt G.ks m.length buf := by
  obtain ⟨hpos, hn, haad, hgh, hcur⟩ := h
  have hct : xorAt G.ks 0 (m ++ buf) = xorAt G.ks 0 m ++ xorAt G.ks m.length buf := by
    rw [xorAt_append, Nat.zero_add]
  generalize hctd : xorAt G.ks 0 m = ct at *
  have hctl : ct.length = m.length := by rw [← hctd, xorAt_length]
  have hcl : s.cur.length = m.length % 16 := by rw [hcur, tail16_length, hctl]
  have hnil : s.cur = [] ↔ m.length % 16 = 0 := by rw [hcur, tail16_eq_nil, hctl]
  unfold Gcm.encrypt
  split
  · rename_i hc
    obtain ⟨hne, hlt⟩ := hc
    obtain ⟨h1, h2⟩ := absorb_small G ct (xorAt G.ks m.length buf)
      (by rw [xorAt_length, hctl]; omega)
    refine ⟨⟨?_, ?_, haad, ?_, ?_⟩, ?_⟩
    · simp [hpos]
    · simp [hn]
    · simp only [hct, h1]; exact hgh
    · simp only [hct, h2, hpos, hcur]
    · simp only [hpos]
  · rename_i hc
    -- size of the piece completing the current block
    have hk : (if s.cur = [] then 0 else 16 - s.cur.length) =
        if ct.length % 16 = 0 then 0 else 16 - ct.length % 16 := by
      rw [hctl, hcl]
      by_cases h0 : m.length % 16 = 0
      · rw [if_pos (hnil.2 h0), if_pos h0]
      · rw [if_neg (fun h => h0 (hnil.1 h)), if_neg h0]
    generalize hkd : (if s.cur = [] then 0 else 16 - s.cur.length) = k at *
    have hkle : k ≤ buf.length := by
      by_cases h0 : m.length % 16 = 0
      · rw [hctl, if_pos h0] at hk; omega
      · rw [hctl, if_neg h0] at hk
        have : ¬ (s.cur ≠ [] ∧ s.cur.length + buf.length < 16) := hc
        have hne : s.cur ≠ [] := fun h => h0 (hnil.1 h)
        have : ¬ (s.cur.length + buf.length < 16) := fun h => hc ⟨hne, h⟩
        omega
    have hsplit : xorAt G.ks m.length buf =
        xorAt G.ks s.pos (buf.take k) ++ xorAt G.ks (s.pos + k) (buf.drop k) := by
      conv => lhs; rw [← List.take_append_drop k buf]
      rw [xorAt_append, hpos, List.length_take, Nat.min_eq_left hkle]
    have hc1l : (xorAt G.ks s.pos (buf.take k)).length =
        if ct.length % 16 = 0 then 0 else 16 - ct.length % 16 := by
      rw [xorAt_length, List.length_take, Nat.min_eq_left hkle, hk]
    obtain ⟨h1, h2⟩ := absorb_big G ct (xorAt G.ks s.pos (buf.take k))
      (xorAt G.ks (s.pos + k) (buf.drop k)) hc1l
    have hgh1 : (if s.cur = [] then s.gh else G.ghStep s.gh (s.cur ++ xorAt G.ks s.pos (buf.take k))) =
        (if ct.length % 16 = 0 then hashed G ct
          else G.ghStep (hashed G ct) (tail16 ct ++ xorAt G.ks s.pos (buf.take k))) := by
      by_cases h0 : m.length % 16 = 0
      · rw [if_pos (hnil.2 h0), if_pos (by rw [hctl]; exact h0), hgh]
      · rw [if_neg (fun h => h0 (hnil.1 h)), if_neg (by rw [hctl]; exact h0), hgh, hcur]
    refine ⟨⟨?_, ?_, haad, ?_, ?_⟩, ?_⟩
    · simp [hpos]
    · simp [hn]
    · simp only [hct, hsplit, h1, hgh1, xorAt_length]
    · simp only [hct, hsplit, h2, xorAt_length]
    · simp only [hsplit]

theorem Gcm.foldl_inv (G : GcmPrims) (aadLen : Nat) (pieces : List Bytes) :
    ∀ (s : GcmSt) (m out : Bytes), Gcm.Inv G aadLen s m → out = xorAt G.ks 0 m →
      let r := pieces.foldl (fun (acc : GcmSt × Bytes) p =>
        ((Gcm.encrypt G acc.1 p).1, acc.2 ++ (Gcm.encrypt G acc.1 p).2)) (s, out)
      Gcm.Inv G aadLen r.1 (m ++ pieces.flatten) ∧ r.2 = xorAt G.ks 0 (m ++ pieces.flatten) := by
  induction pieces with
  | nil => intro s m out h ho; simpa using ⟨h, ho⟩
  | cons p ps ih =>
    intro s m out h ho
    obtain ⟨hi, hc⟩ := Gcm.encrypt_inv G aadLen s m p h
    have := ih (Gcm.encrypt G s p).1 (m ++ p) (out ++ (Gcm.encrypt G s p).2) hi
      (by rw [ho, hc, xorAt_append, Nat.zero_add])
    simpa [List.foldl, List.append_assoc] using this

/-- `into_tag` in a state satisfying the invariant is the one-shot tag of the ciphertext -/
theorem Gcm.intoTag_inv (G : GcmPrims) (aadLen : Nat) (s : GcmSt) (m : Bytes)
    (h : Gcm.Inv G aadLen s m) : Gcm.intoTag G s = Gcm.tagOf G aadLen (xorAt G.ks 0 m) := by
  simp only [Gcm.intoTag, Gcm.tagOf, h.gh, h.cur, h.aad, h.n, ghPadded_hashed, xorAt_length]

end MlaModel

/-
  Proofs: the native RFC 7932 decoder on CUT stored streams (prefixes), towards K1/K2 of `Codec.Laws`
  for `Codec.brotli`.
-/
import MlaModel.Proofs.BrotliStored
namespace MlaModel
namespace BrStoredPf
open Brotli StoredPf
set_option linter.unusedSimpArgs false

theorem readBits_bind_fail {β : Type} (n : Nat) (f : Nat → M β) (inp : ByteArray) (pos : Nat)
    (out : ByteArray) (d1 d2 d3 d4 : Nat) (sd : Bool) (h : ¬ pos + n ≤ 8 * inp.size) :
    (readBits n >>= f) ⟨inp, pos, out, d1, d2, d3, d4, sd⟩
      = .error .needMore ⟨inp, pos, out, d1, d2, d3, d4, sd⟩ :=
  bind_err _ _ _ _ _ (readBits_needMore n ⟨inp, pos, out, d1, d2, d3, d4, sd⟩ h)

/-- header of a code-0 uncompressed meta-block: what is left is `copyRaw` -/
theorem hdr0 (cfg : Config) (wbits : Nat) (inp : ByteArray) (pos : Nat) (out : ByteArray)
    (d1 d2 d3 d4 : Nat) (sd : Bool)
    (h0 : readVal inp pos 1 = 0)
    (h1 : readVal inp (pos + 1) 2 = 0)
    (h3 : readVal inp (pos + 19) 1 = 1)
    (hz : readVal inp (pos + 20) ((8 - (pos + 20) % 8) % 8) = 0)
    (hsz : (pos + 27) / 8 ≤ inp.size) :
    decodeMetaBlock cfg wbits ⟨inp, pos, out, d1, d2, d3, d4, sd⟩ =
      (copyRaw (readVal inp (pos + 3) 16 + 1) >>= fun _ => pure false)
        ⟨inp, 8 * ((pos + 27) / 8), out, d1, d2, d3, d4, true⟩ := by
  have hm : readVal inp (pos + 3) 16 = readVal inp (pos + 3) 4 + readVal inp (pos + 7) 4 <<< 4
      + readVal inp (pos + 11) 4 <<< 8 + readVal inp (pos + 15) 4 <<< 12 := by
    rw [show (16:Nat) = 12 + 4 from rfl, readVal_split _ _ 12 4 (by omega),
      show (12:Nat) = 8 + 4 from rfl, readVal_split _ _ 8 4 (by omega),
      show (8:Nat) = 4 + 4 from rfl, readVal_split _ _ 4 4 (by omega)]
  generalize readVal inp (pos + 3) 16 = m at *
  unfold decodeMetaBlock
  rw [readBits_bind _ _ _ _ _ _ _ _ _ _ (by omega), h0]
  simp (config := {maxSteps := 4000000}) (disch := first | omega | assumption) only [readBits_bind, h1, h3,
    alignToByte_bind, modify_bind, Nat.shiftLeft_zero, Nat.zero_add, Nat.reduceBEq,
    Bool.false_eq_true, ↓reduceIte,
    Std.Legacy.Range.forIn_eq_forIn_range', Std.Legacy.Range.size, Nat.reduceAdd, Nat.reduceSub, Nat.reduceDiv, r4,
    List.forIn_cons, List.forIn_nil, bind_assoc, pure_bind, Nat.reduceGT, Bool.and_false, Bool.false_and,
    decide_false, Bool.and_true, Bool.true_and, Nat.add_assoc, Nat.reduceMul]
  have hM : readVal inp (pos + 3) 4 + (readVal inp (pos + 7) 4 <<< 4 + (readVal inp (pos + 11) 4 <<< 8 +
      (readVal inp (pos + 15) 4 <<< 12 + 1))) = m + 1 := by omega
  rw [hM]
  have e1 : pos + (20 + (8 - (pos + 20) % 8) % 8) = 8 * ((pos + 27) / 8) := by omega
  rw [e1]

theorem hdr1 (cfg : Config) (wbits : Nat) (inp : ByteArray) (pos : Nat) (out : ByteArray)
    (d1 d2 d3 d4 : Nat) (sd : Bool)
    (h0 : readVal inp pos 1 = 0)
    (h1 : readVal inp (pos + 1) 2 = 1)
    (hx : readVal inp (pos + 19) 4 ≠ 0)
    (h3 : readVal inp (pos + 23) 1 = 1)
    (hz : readVal inp (pos + 24) ((8 - (pos + 24) % 8) % 8) = 0)
    (hsz : (pos + 31) / 8 ≤ inp.size) :
    decodeMetaBlock cfg wbits ⟨inp, pos, out, d1, d2, d3, d4, sd⟩ =
      (copyRaw (readVal inp (pos + 3) 20 + 1) >>= fun _ => pure false)
        ⟨inp, 8 * ((pos + 31) / 8), out, d1, d2, d3, d4, true⟩ := by
  have hm : readVal inp (pos + 3) 20 = readVal inp (pos + 3) 4 + readVal inp (pos + 7) 4 <<< 4 + readVal inp (pos + 11) 4 <<< 8 + readVal inp (pos + 15) 4 <<< 12 + readVal inp (pos + 19) 4 <<< 16 := by
    rw [show (20:Nat) = 16 + 4 from rfl, readVal_split _ _ 16 4 (by omega),
      show (16:Nat) = 12 + 4 from rfl, readVal_split _ _ 12 4 (by omega),
      show (12:Nat) = 8 + 4 from rfl, readVal_split _ _ 8 4 (by omega),
      show (8:Nat) = 4 + 4 from rfl, readVal_split _ _ 4 4 (by omega)]
  have hx' : (readVal inp (pos + 19) 4 == 0) = false := by simp [hx]
  generalize readVal inp (pos + 3) 20 = m at *
  unfold decodeMetaBlock
  rw [readBits_bind _ _ _ _ _ _ _ _ _ _ (by omega), h0]
  simp (config := {maxSteps := 4000000}) (disch := first | omega | assumption) only [readBits_bind, h1, h3, hx',
    alignToByte_bind, modify_bind, Nat.shiftLeft_zero, Nat.zero_add, Nat.reduceBEq,
    Bool.false_eq_true, ↓reduceIte,
    Std.Legacy.Range.forIn_eq_forIn_range', Std.Legacy.Range.size, Nat.reduceAdd, Nat.reduceSub, Nat.reduceDiv, r4, r5, r6,
    List.forIn_cons, List.forIn_nil, bind_assoc, pure_bind, Nat.reduceGT, Bool.and_false, Bool.false_and,
    decide_false, decide_true, Bool.and_true, Bool.true_and, Nat.add_assoc, Nat.reduceMul]
  have hM : readVal inp (pos + 3) 4 + (readVal inp (pos + 7) 4 <<< 4 + (readVal inp (pos + 11) 4 <<< 8 + (readVal inp (pos + 15) 4 <<< 12 + (readVal inp (pos + 19) 4 <<< 16 + 1)))) = m + 1 := by omega
  rw [hM]
  have e1 : pos + (24 + (8 - (pos + 24) % 8) % 8) = 8 * ((pos + 31) / 8) := by omega
  rw [e1]

theorem hdr2 (cfg : Config) (wbits : Nat) (inp : ByteArray) (pos : Nat) (out : ByteArray)
    (d1 d2 d3 d4 : Nat) (sd : Bool)
    (h0 : readVal inp pos 1 = 0)
    (h1 : readVal inp (pos + 1) 2 = 2)
    (hx : readVal inp (pos + 23) 4 ≠ 0)
    (h3 : readVal inp (pos + 27) 1 = 1)
    (hz : readVal inp (pos + 28) ((8 - (pos + 28) % 8) % 8) = 0)
    (hsz : (pos + 35) / 8 ≤ inp.size) :
    decodeMetaBlock cfg wbits ⟨inp, pos, out, d1, d2, d3, d4, sd⟩ =
      (copyRaw (readVal inp (pos + 3) 24 + 1) >>= fun _ => pure false)
        ⟨inp, 8 * ((pos + 35) / 8), out, d1, d2, d3, d4, true⟩ := by
  have hm : readVal inp (pos + 3) 24 = readVal inp (pos + 3) 4 + readVal inp (pos + 7) 4 <<< 4 + readVal inp (pos + 11) 4 <<< 8 + readVal inp (pos + 15) 4 <<< 12 + readVal inp (pos + 19) 4 <<< 16 + readVal inp (pos + 23) 4 <<< 20 := by
    rw [show (24:Nat) = 20 + 4 from rfl, readVal_split _ _ 20 4 (by omega),
      show (20:Nat) = 16 + 4 from rfl, readVal_split _ _ 16 4 (by omega),
      show (16:Nat) = 12 + 4 from rfl, readVal_split _ _ 12 4 (by omega),
      show (12:Nat) = 8 + 4 from rfl, readVal_split _ _ 8 4 (by omega),
      show (8:Nat) = 4 + 4 from rfl, readVal_split _ _ 4 4 (by omega)]
  have hx' : (readVal inp (pos + 23) 4 == 0) = false := by simp [hx]
  generalize readVal inp (pos + 3) 24 = m at *
  unfold decodeMetaBlock
  rw [readBits_bind _ _ _ _ _ _ _ _ _ _ (by omega), h0]
  simp (config := {maxSteps := 4000000}) (disch := first | omega | assumption) only [readBits_bind, h1, h3, hx',
    alignToByte_bind, modify_bind, Nat.shiftLeft_zero, Nat.zero_add, Nat.reduceBEq,
    Bool.false_eq_true, ↓reduceIte,
    Std.Legacy.Range.forIn_eq_forIn_range', Std.Legacy.Range.size, Nat.reduceAdd, Nat.reduceSub, Nat.reduceDiv, r4, r5, r6,
    List.forIn_cons, List.forIn_nil, bind_assoc, pure_bind, Nat.reduceGT, Bool.and_false, Bool.false_and,
    decide_false, decide_true, Bool.and_true, Bool.true_and, Nat.add_assoc, Nat.reduceMul]
  have hM : readVal inp (pos + 3) 4 + (readVal inp (pos + 7) 4 <<< 4 + (readVal inp (pos + 11) 4 <<< 8 + (readVal inp (pos + 15) 4 <<< 12 + (readVal inp (pos + 19) 4 <<< 16 + (readVal inp (pos + 23) 4 <<< 20 + 1))))) = m + 1 := by omega
  rw [hM]
  have e1 : pos + (28 + (8 - (pos + 28) % 8) % 8) = 8 * ((pos + 35) / 8) := by omega
  rw [e1]

/-- input cut inside the header of a code-0 meta-block: "need more input", output untouched -/
theorem cut0 (cfg : Config) (wbits : Nat) (inp : ByteArray) (pos : Nat) (out : ByteArray)
    (d1 d2 d3 d4 : Nat) (sd : Bool) (a j pl : Nat) (hpos : pos = 8 * a + pl) (hpl : pl ≤ 1)
    (hsize : inp.size = a + j) (hj : j < (pl + 20 + 7) / 8)
    (h0 : pos + 1 ≤ 8 * inp.size → readVal inp pos 1 = 0)
    (h1 : pos + 3 ≤ 8 * inp.size → readVal inp (pos + 1) 2 = 0)
    : ∃ p', decodeMetaBlock cfg wbits ⟨inp, pos, out, d1, d2, d3, d4, sd⟩ =
      .error .needMore ⟨inp, p', out, d1, d2, d3, d4, sd⟩ := by
  unfold decodeMetaBlock
  by_cases c1 : pos + 1 ≤ 8 * inp.size
  · rw [readBits_bind _ _ _ _ _ _ _ _ _ _ c1, h0 c1]
    have hj' : j = 1 ∨ j = 2 ∨ j = 3 := by omega
    have hpl' : pl = 0 ∨ pl = 1 := by omega
    rcases hpl' with rfl | rfl <;> rcases hj' with rfl | rfl | rfl <;>
    first
    | omega
    | (simp (config := {maxSteps := 4000000}) (disch := omega) only [readBits_bind, readBits_bind_fail, h1,
    alignToByte_bind, modify_bind, Nat.shiftLeft_zero, Nat.zero_add, Nat.reduceBEq,
    Bool.false_eq_true, ↓reduceIte,
    Std.Legacy.Range.forIn_eq_forIn_range', Std.Legacy.Range.size, Nat.reduceAdd, Nat.reduceSub, Nat.reduceDiv, r4, r5, r6,
    List.forIn_cons, List.forIn_nil, bind_assoc, pure_bind, Nat.reduceGT, Bool.and_false, Bool.false_and,
    decide_false, decide_true, Bool.and_true, Bool.true_and, Nat.add_assoc, Nat.reduceMul]
       exact ⟨_, rfl⟩)
  · rw [readBits_bind_fail _ _ _ _ _ _ _ _ _ _ c1]
    exact ⟨_, rfl⟩

/-- input cut inside the header of a code-1 meta-block: "need more input", output untouched -/
theorem cut1 (cfg : Config) (wbits : Nat) (inp : ByteArray) (pos : Nat) (out : ByteArray)
    (d1 d2 d3 d4 : Nat) (sd : Bool) (a j pl : Nat) (hpos : pos = 8 * a + pl) (hpl : pl ≤ 1)
    (hsize : inp.size = a + j) (hj : j < (pl + 24 + 7) / 8)
    (h0 : pos + 1 ≤ 8 * inp.size → readVal inp pos 1 = 0)
    (h1 : pos + 3 ≤ 8 * inp.size → readVal inp (pos + 1) 2 = 1)
    (hx : pos + 23 ≤ 8 * inp.size → readVal inp (pos + 19) 4 ≠ 0)
    : ∃ p', decodeMetaBlock cfg wbits ⟨inp, pos, out, d1, d2, d3, d4, sd⟩ =
      .error .needMore ⟨inp, p', out, d1, d2, d3, d4, sd⟩ := by
  have hx' : pos + 23 ≤ 8 * inp.size → (readVal inp (pos + 19) 4 == 0) = false := fun c => by simp [hx c]
  unfold decodeMetaBlock
  by_cases c1 : pos + 1 ≤ 8 * inp.size
  · rw [readBits_bind _ _ _ _ _ _ _ _ _ _ c1, h0 c1]
    have hj' : j = 1 ∨ j = 2 ∨ j = 3 := by omega
    have hpl' : pl = 0 ∨ pl = 1 := by omega
    rcases hpl' with rfl | rfl <;> rcases hj' with rfl | rfl | rfl <;>
    first
    | omega
    | (simp (config := {maxSteps := 4000000}) (disch := omega) only [readBits_bind, readBits_bind_fail, h1, hx',
    alignToByte_bind, modify_bind, Nat.shiftLeft_zero, Nat.zero_add, Nat.reduceBEq,
    Bool.false_eq_true, ↓reduceIte,
    Std.Legacy.Range.forIn_eq_forIn_range', Std.Legacy.Range.size, Nat.reduceAdd, Nat.reduceSub, Nat.reduceDiv, r4, r5, r6,
    List.forIn_cons, List.forIn_nil, bind_assoc, pure_bind, Nat.reduceGT, Bool.and_false, Bool.false_and,
    decide_false, decide_true, Bool.and_true, Bool.true_and, Nat.add_assoc, Nat.reduceMul]
       exact ⟨_, rfl⟩)
  · rw [readBits_bind_fail _ _ _ _ _ _ _ _ _ _ c1]
    exact ⟨_, rfl⟩

/-- input cut inside the header of a code-2 meta-block: "need more input", output untouched -/
theorem cut2 (cfg : Config) (wbits : Nat) (inp : ByteArray) (pos : Nat) (out : ByteArray)
    (d1 d2 d3 d4 : Nat) (sd : Bool) (a j pl : Nat) (hpos : pos = 8 * a + pl) (hpl : pl ≤ 1)
    (hsize : inp.size = a + j) (hj : j < (pl + 28 + 7) / 8)
    (h0 : pos + 1 ≤ 8 * inp.size → readVal inp pos 1 = 0)
    (h1 : pos + 3 ≤ 8 * inp.size → readVal inp (pos + 1) 2 = 2)
    (hx : pos + 27 ≤ 8 * inp.size → readVal inp (pos + 23) 4 ≠ 0)
    : ∃ p', decodeMetaBlock cfg wbits ⟨inp, pos, out, d1, d2, d3, d4, sd⟩ =
      .error .needMore ⟨inp, p', out, d1, d2, d3, d4, sd⟩ := by
  have hx' : pos + 27 ≤ 8 * inp.size → (readVal inp (pos + 23) 4 == 0) = false := fun c => by simp [hx c]
  unfold decodeMetaBlock
  by_cases c1 : pos + 1 ≤ 8 * inp.size
  · rw [readBits_bind _ _ _ _ _ _ _ _ _ _ c1, h0 c1]
    have hj' : j = 1 ∨ j = 2 ∨ j = 3 := by omega
    have hpl' : pl = 0 ∨ pl = 1 := by omega
    rcases hpl' with rfl | rfl <;> rcases hj' with rfl | rfl | rfl <;>
    first
    | omega
    | (simp (config := {maxSteps := 4000000}) (disch := omega) only [readBits_bind, readBits_bind_fail, h1, hx',
    alignToByte_bind, modify_bind, Nat.shiftLeft_zero, Nat.zero_add, Nat.reduceBEq,
    Bool.false_eq_true, ↓reduceIte,
    Std.Legacy.Range.forIn_eq_forIn_range', Std.Legacy.Range.size, Nat.reduceAdd, Nat.reduceSub, Nat.reduceDiv, r4, r5, r6,
    List.forIn_cons, List.forIn_nil, bind_assoc, pure_bind, Nat.reduceGT, Bool.and_false, Bool.false_and,
    decide_false, decide_true, Bool.and_true, Bool.true_and, Nat.add_assoc, Nat.reduceMul]
       exact ⟨_, rfl⟩)
  · rw [readBits_bind_fail _ _ _ _ _ _ _ _ _ _ c1]
    exact ⟨_, rfl⟩

/-- header at bit level; what is left is `copyRaw` -/
theorem hdr_bits (cfg : Config) (wbits : Nat) (inp : ByteArray) (pos : Nat) (out : ByteArray)
    (d1 d2 d3 d4 : Nat) (sd : Bool) (code m : Nat) (hc : code < 3)
    (g0 : getBit inp.data.toList pos = some false)
    (g1 : getBits inp.data.toList (pos + 1) 2 = some code)
    (g2 : getBits inp.data.toList (pos + 3) (4 * (4 + code)) = some m)
    (hx : 0 < code → 2 ^ (4 * (3 + code)) ≤ m)
    (g3 : getBit inp.data.toList (pos + 3 + 4 * (4 + code)) = some true)
    (gz : ∀ k, pos + 4 + 4 * (4 + code) ≤ k → k < 8 * ((pos + 4 + 4 * (4 + code) + 7) / 8) →
      getBit inp.data.toList k = some false)
    (hsz : (pos + 4 + 4 * (4 + code) + 7) / 8 ≤ inp.size) :
    decodeMetaBlock cfg wbits ⟨inp, pos, out, d1, d2, d3, d4, sd⟩ =
      (copyRaw (m + 1) >>= fun _ => pure false)
        ⟨inp, 8 * ((pos + 4 + 4 * (4 + code) + 7) / 8), out, d1, d2, d3, d4, true⟩ := by
  have r0 := readVal_of_getBits inp pos 1 0 (by omega) (by omega) (getBits_one _ _ _ g0)
  have r1 := readVal_of_getBits inp (pos + 1) 2 code (by omega) (by omega) g1
  have r2 := readVal_of_getBits inp (pos + 3) (4 * (4 + code)) m (by omega) (by omega) g2
  have r3 := readVal_of_getBits inp (pos + 3 + 4 * (4 + code)) 1 1 (by omega) (by omega)
    (getBits_one _ _ _ g3)
  have rz := readVal_zero_of_getBit inp (pos + 4 + 4 * (4 + code))
    ((8 - (pos + 4 + 4 * (4 + code)) % 8) % 8) (by omega) (by omega)
    (fun k hk => gz _ (by omega) (by omega))
  obtain rfl | rfl | rfl : code = 0 ∨ code = 1 ∨ code = 2 := by omega
  · simp only [Nat.reduceAdd, Nat.reduceMul, Nat.add_assoc] at r1 r2 r3 rz hsz ⊢
    subst r2
    exact hdr0 cfg wbits inp pos out d1 d2 d3 d4 sd r0 r1 r3 rz hsz
  · have hn := top_nibble_ne inp (pos + 3) 16 m (by omega) r2 (hx (by omega))
    simp only [Nat.reduceAdd, Nat.reduceMul, Nat.add_assoc] at r1 r2 r3 rz hsz hn ⊢
    subst r2
    exact hdr1 cfg wbits inp pos out d1 d2 d3 d4 sd r0 r1 hn r3 rz hsz
  · have hn := top_nibble_ne inp (pos + 3) 20 m (by omega) r2 (hx (by omega))
    simp only [Nat.reduceAdd, Nat.reduceMul, Nat.add_assoc] at r1 r2 r3 rz hsz hn ⊢
    subst r2
    exact hdr2 cfg wbits inp pos out d1 d2 d3 d4 sd r0 r1 hn r3 rz hsz

/-- complete header `hbytes P code m` followed by ANY bytes `c'`: what is left is `copyRaw` -/
theorem hdr_stored (cfg : Config) (wbits : Nat) (pre c' : Bytes) (P : List Bool) (code m : Nat)
    (out : ByteArray) (d1 d2 d3 d4 : Nat) (sd : Bool) (hc : code < 3)
    (hm : m < 2 ^ (4 * (4 + code))) (hx : 0 < code → 2 ^ (4 * (3 + code)) ≤ m) :
    decodeMetaBlock cfg wbits
        ⟨⟨(pre ++ (hbytes P code m ++ c')).toArray⟩, 8 * pre.length + P.length, out, d1, d2, d3, d4, sd⟩
      = (copyRaw (m + 1) >>= fun _ => pure false)
        ⟨⟨(pre ++ (hbytes P code m ++ c')).toArray⟩,
          8 * (pre.length + (hbytes P code m).length), out, d1, d2, d3, d4, true⟩ := by
  generalize hinp : (⟨(pre ++ (hbytes P code m ++ c')).toArray⟩ : ByteArray) = inp
  have hL : inp.data.toList = pre ++ (hbytes P code m ++ c') := by rw [← hinp]
  have hsize : inp.size = pre.length + ((hbytes P code m).length + c'.length) := by
    rw [← hinp]; simp [ByteArray.size]
  have hbl := hbytes_length P code m
  have hst : (8 * pre.length + P.length + 4 + 4 * (4 + code) + 7) / 8
      = pre.length + (hbytes P code m).length := by omega
  have key := hdr_bits cfg wbits inp (8 * pre.length + P.length) out d1 d2 d3 d4 sd code m hc
    (by rw [hL, getBit_shift]; exact hb0 ..)
    (by rw [hL, Nat.add_assoc, getBits_shift]; exact hb1 _ _ _ _ hc)
    (by rw [hL, Nat.add_assoc, getBits_shift]; exact hb2 _ _ _ _ hm)
    hx
    (by rw [hL, Nat.add_assoc, Nat.add_assoc, getBit_shift, ← Nat.add_assoc]; exact hb3 ..)
    (by
      intro k hk1 hk2
      obtain ⟨j, rfl⟩ : ∃ j, k = 8 * pre.length + j := ⟨k - 8 * pre.length, by omega⟩
      rw [hL, getBit_shift]
      apply getBit_hbytes_pad
      · rw [hbits_length]; omega
      · omega)
    (by omega)
  rw [hst] at key
  exact key

theorem copyRaw_bind_fail {β : Type} (n : Nat) (f : Unit → M β) (inp : ByteArray) (pos : Nat) (out : ByteArray)
    (d1 d2 d3 d4 : Nat) (sd : Bool) (h : ¬ pos / 8 + n ≤ inp.size) (h2 : pos / 8 ≤ inp.size) :
    (copyRaw n >>= f) ⟨inp, pos, out, d1, d2, d3, d4, sd⟩
      = .error .needMore ⟨inp, pos + 8 * (inp.size - pos / 8),
          inp.copySlice (pos / 8) out out.size (inp.size - pos / 8), d1, d2, d3, d4, sd⟩ := by
  apply bind_err
  have hk : min n (inp.size - pos / 8) = inp.size - pos / 8 := by omega
  unfold copyRaw
  simp only [hk]
  rw [if_pos (by omega)]

/-- input cut inside the header `hbytes (pfx f) code m` -/
theorem mb_cut_stored (cfg : Config) (wbits : Nat) (pre : Bytes) (f : Bool) (code m k : Nat)
    (out : ByteArray) (d1 d2 d3 d4 : Nat) (sd : Bool) (hc : code < 3)
    (hm : m < 2 ^ (4 * (4 + code))) (hx : 0 < code → 2 ^ (4 * (3 + code)) ≤ m)
    (hk : k < (hbytes (pfx f) code m).length) :
    ∃ p', decodeMetaBlock cfg wbits
        ⟨⟨(pre ++ (hbytes (pfx f) code m).take k).toArray⟩, 8 * pre.length + (pfx f).length, out, d1, d2, d3, d4, sd⟩
      = .error .needMore ⟨⟨(pre ++ (hbytes (pfx f) code m).take k).toArray⟩, p', out, d1, d2, d3, d4, sd⟩ := by
  generalize hinp : (⟨(pre ++ (hbytes (pfx f) code m).take k).toArray⟩ : ByteArray) = inp
  have hL : inp.data.toList = pre ++ (hbytes (pfx f) code m).take k := by rw [← hinp]
  have hsize : inp.size = pre.length + k := by
    rw [← hinp]; simp [ByteArray.size]; omega
  have hbl := hbytes_length (pfx f) code m
  have hpl : (pfx f).length ≤ 1 := by cases f <;> simp [pfx]
  have g0 : 8 * pre.length + (pfx f).length + 1 ≤ 8 * inp.size →
      readVal inp (8 * pre.length + (pfx f).length) 1 = 0 := fun c =>
    readVal_of_getBits _ _ _ _ (by omega) c (getBits_one _ _ false (by
      rw [hL, getBit_shift, getBit_take, if_pos (by omega)]
      simpa using hb0 (pfx f) code m []))
  have g1 : 8 * pre.length + (pfx f).length + 3 ≤ 8 * inp.size →
      readVal inp (8 * pre.length + (pfx f).length + 1) 2 = code := fun c =>
    readVal_of_getBits _ _ _ _ (by omega) (by omega) (by
      rw [hL, Nat.add_assoc, getBits_shift, getBits_take _ _ _ _ (by omega)]
      simpa using hb1 (pfx f) code m [] hc)
  have g2 : 8 * pre.length + (pfx f).length + 3 + 4 * (4 + code) ≤ 8 * inp.size →
      readVal inp (8 * pre.length + (pfx f).length + 3) (4 * (4 + code)) = m := fun c =>
    readVal_of_getBits _ _ _ _ (by omega) (by omega) (by
      rw [hL, Nat.add_assoc, getBits_shift, getBits_take _ _ _ _ (by omega)]
      simpa using hb2 (pfx f) code m [] hm)
  obtain rfl | rfl | rfl : code = 0 ∨ code = 1 ∨ code = 2 := by omega
  · exact cut0 cfg wbits inp _ out d1 d2 d3 d4 sd pre.length k (pfx f).length rfl hpl hsize
      (by omega) g0 g1
  · refine cut1 cfg wbits inp _ out d1 d2 d3 d4 sd pre.length k (pfx f).length rfl hpl hsize
      (by omega) g0 g1 (fun c => ?_)
    have := top_nibble_ne inp (8 * pre.length + (pfx f).length + 3) 16 m (by omega) (g2 (by omega))
      (hx (by omega))
    simpa [Nat.add_assoc] using this
  · refine cut2 cfg wbits inp _ out d1 d2 d3 d4 sd pre.length k (pfx f).length rfl hpl hsize
      (by omega) g0 g1 (fun c => ?_)
    have := top_nibble_ne inp (8 * pre.length + (pfx f).length + 3) 20 m (by omega) (g2 (by omega))
      (hx (by omega))
    simpa [Nat.add_assoc] using this

/-- complete header, data cut: the bytes that are present are delivered, then "need more input" -/
theorem mb_data_cut (cfg : Config) (wbits : Nat) (pre c' : Bytes) (P : List Bool) (code m : Nat)
    (out : ByteArray) (d1 d2 d3 d4 : Nat) (sd : Bool) (hc : code < 3)
    (hm : m < 2 ^ (4 * (4 + code))) (hx : 0 < code → 2 ^ (4 * (3 + code)) ≤ m)
    (hlen : c'.length < m + 1) :
    ∃ s' : St, s'.out.data.toList = out.data.toList ++ c' ∧
      decodeMetaBlock cfg wbits
        ⟨⟨(pre ++ (hbytes P code m ++ c')).toArray⟩, 8 * pre.length + P.length, out, d1, d2, d3, d4, sd⟩
      = .error .needMore s' := by
  rw [hdr_stored cfg wbits pre c' P code m out d1 d2 d3 d4 sd hc hm hx]
  generalize hinp : (⟨(pre ++ (hbytes P code m ++ c')).toArray⟩ : ByteArray) = inp
  have hL : inp.data.toList = pre ++ (hbytes P code m ++ c') := by rw [← hinp]
  have hsize : inp.size = pre.length + ((hbytes P code m).length + c'.length) := by
    rw [← hinp]; simp [ByteArray.size]
  have e8 : 8 * (pre.length + (hbytes P code m).length) / 8 = pre.length + (hbytes P code m).length := by
    omega
  rw [copyRaw_bind_fail _ _ _ _ _ _ _ _ _ _ (by rw [e8]; omega) (by rw [e8]; omega)]
  refine ⟨_, ?_, rfl⟩
  show (inp.copySlice _ out out.size _).data.toList = _
  rw [copySlice_toList, hL, e8, hsize]
  have e9 : pre.length + ((hbytes P code m).length + c'.length) - (pre.length + (hbytes P code m).length)
      = c'.length := by omega
  rw [e9, ← List.append_assoc, List.drop_left' (by simp)]
  simp

/-- the loop on a stored stream cut after `k` bytes -/
theorem loop_take (cfg : Config) (wbits : Nat) (cs : List Bytes) (hv : Valid cs) :
    ∀ (f : Bool) (pre : Bytes) (out : ByteArray) (d1 d2 d3 d4 : Nat) (sd : Bool) (l : List Nat) (k : Nat),
      k < l.length → k < (sStream f cs).length →
      ∃ (s' : St), s'.out.data.toList = out.data.toList ++ sOut f cs k ∧
        forIn l ((none : Option Unit), ()) (body cfg wbits)
          ⟨⟨(pre ++ (sStream f cs).take k).toArray⟩, 8 * pre.length + (pfx f).length, out, d1, d2, d3, d4, sd⟩
        = .error .needMore s' := by
  induction cs with
  | nil =>
    intro f pre out d1 d2 d3 d4 sd l k hlen hk
    obtain ⟨i, l', rfl⟩ : ∃ i l', l = i :: l' := by
      cases l with
      | nil => simp at hlen
      | cons i l' => exact ⟨i, l', rfl⟩
    have hk0 : k = 0 := by
      have : (sStream f []).length = 1 := rfl
      omega
    subst hk0
    refine ⟨⟨⟨(pre ++ (sStream f []).take 0).toArray⟩, 8 * pre.length + (pfx f).length, out, d1, d2, d3, d4, sd⟩,
      ?_, ?_⟩
    · simp [sOut]
    · rw [List.forIn_cons]
      apply bind_err
      apply body_err
      apply mb_needMore
      show ¬ 8 * pre.length + (pfx f).length + 1 ≤ 8 * (pre ++ (sStream f []).take 0).toArray.size
      simp; omega
  | cons c cs ih =>
    intro f pre out d1 d2 d3 d4 sd l k hlen hk
    obtain ⟨i, l', rfl⟩ : ∃ i l', l = i :: l' := by
      cases l with
      | nil => simp at hlen
      | cons i l' => exact ⟨i, l', rfl⟩
    have hc := hv c (by simp)
    have hv' : Valid cs := fun x hx => hv x (by simp [hx])
    have hx : 0 < codeOf c.length → 2 ^ (4 * (3 + codeOf c.length)) ≤ c.length - 1 := by
      unfold codeOf; repeat' split
      all_goals ((try simp) <;> omega)
    have hlp := hl_pos f c
    have hhl : hl f c = (hbytes (pfx f) (codeOf c.length) (c.length - 1)).length := rfl
    have eS : sStream f (c :: cs) = hbytes (pfx f) (codeOf c.length) (c.length - 1) ++ (c ++ sStream false cs) := by
      rw [sStream, storedPiece_eq, List.append_assoc]
    rw [eS] at hk ⊢
    generalize hhb : hbytes (pfx f) (codeOf c.length) (c.length - 1) = hb at *
    rw [List.forIn_cons]
    by_cases h1 : k < hl f c
    · -- header cut
      have et : (hb ++ (c ++ sStream false cs)).take k = hb.take k := by
        rw [List.take_append_of_le_length (by omega)]
      obtain ⟨p', hd⟩ := mb_cut_stored cfg wbits pre f (codeOf c.length) (c.length - 1) k out d1 d2 d3 d4 sd
        (codeOf_lt _) (codeOf_fit _ hc.1 hc.2) hx (by rw [hhb]; omega)
      rw [hhb] at hd
      refine ⟨⟨⟨(pre ++ hb.take k).toArray⟩, p', out, d1, d2, d3, d4, sd⟩, ?_, ?_⟩
      · simp [sOut, h1]
      · rw [et]
        exact bind_err _ _ _ _ _ (body_err cfg wbits i _ _ _ _ hd)
    · by_cases h2 : k < hl f c + c.length
      · -- data cut
        have et : (hb ++ (c ++ sStream false cs)).take k = hb ++ c.take (k - hl f c) := by
          rw [List.take_append, List.take_of_length_le (by omega),
            List.take_append_of_le_length (by omega), hhl]
        obtain ⟨s', ho, hd⟩ := mb_data_cut cfg wbits pre (c.take (k - hl f c)) (pfx f) (codeOf c.length)
          (c.length - 1) out d1 d2 d3 d4 sd (codeOf_lt _) (codeOf_fit _ hc.1 hc.2) hx
          (by rw [List.length_take]; omega)
        rw [hhb] at hd
        refine ⟨s', ?_, ?_⟩
        · rw [ho]; simp [sOut, h1, h2]
        · rw [et]
          exact bind_err _ _ _ _ _ (body_err cfg wbits i _ _ _ _ hd)
      · -- the whole block, then the rest
        have et : (hb ++ (c ++ sStream false cs)).take k
            = hb ++ (c ++ (sStream false cs).take (k - (hl f c + c.length))) := by
          rw [List.take_append, List.take_of_length_le (by omega), List.take_append,
            List.take_of_length_le (by omega)]
          congr 3
          omega
        obtain ⟨out1, ho1, hd⟩ := mb_stored cfg wbits pre c ((sStream false cs).take (k - (hl f c + c.length)))
          (pfx f) (codeOf c.length) (c.length - 1) out d1 d2 d3 d4 sd (codeOf_lt _)
          (codeOf_fit _ hc.1 hc.2) hx (by omega)
        rw [hhb] at hd
        obtain ⟨s2, ho2, hloop⟩ := ih hv' false (pre ++ hb ++ c) out1 d1 d2 d3 d4 true l'
          (k - (hl f c + c.length)) (by simp at hlen; omega)
          (by simp only [List.length_append] at hk; omega)
        have eL' : pre ++ hb ++ c ++ (sStream false cs).take (k - (hl f c + c.length))
            = pre ++ (hb ++ (c ++ (sStream false cs).take (k - (hl f c + c.length)))) := by simp
        have ep : 8 * (pre ++ hb ++ c).length + (pfx false).length
            = 8 * (pre.length + hb.length + c.length) := by simp [pfx]; omega
        rw [eL', ep] at hloop
        refine ⟨s2, ?_, ?_⟩
        · rw [ho2, ho1]; simp [sOut, h1, h2]
        · rw [et, bind_ok _ _ _ _ _ (body_block cfg wbits i _ _ _ hd)]
          exact hloop

/-- the native decoder on every proper prefix of a stored stream: what `storedDecStream` says -/
theorem brotliDecStream_take (strict : Bool) (cs : List Bytes) (hv : Valid cs) (k : Nat)
    (hk : k < (sStream true cs).length) :
    brotliDecStream strict ((sStream true cs).take k) = (sOut true cs k, none, false) := by
  by_cases hk0 : k = 0
  · subst hk0
    have := brotliDecStream_sBody strict [] (by intro c hc; simp at hc)
    rw [List.take_zero, sOut_zero]
    exact this
  · have hsize : (⟨((sStream true cs).take k).toArray⟩ : ByteArray).size = k := by
      simp [ByteArray.size]; omega
    have h0 : readVal ⟨((sStream true cs).take k).toArray⟩ 0 1 = 0 := by
      apply readVal_of_getBits _ _ _ _ (by omega) (by rw [hsize]; omega)
      apply getBits_one _ _ false
      show getBit ((sStream true cs).take k) 0 = some false
      rw [getBit_take, if_pos (by omega)]
      simpa using getBit_sStream_zero cs []
    obtain ⟨s', ho, hloop⟩ := loop_take { strict := strict } 16 cs hv true [] ByteArray.empty 4 11 15 16 false
      (List.range' 0 (8 * k + 1) 1) k (by rw [List.length_range']; omega) hk
    simp only [List.nil_append, List.length_nil, Nat.mul_zero, Nat.zero_add,
      show (pfx true).length = 1 from rfl] at hloop
    have h : decodeStream { strict := strict } { inp := ⟨((sStream true cs).take k).toArray⟩ }
        = .error .needMore s' := by
      rw [decodeStream_eq, bind_ok _ _ _ _ _ (rwb16 strict _ _ _ _ _ _ _ h0 (by rw [hsize]; omega)), get_bind]
      simp only [Std.Legacy.Range.forIn_eq_forIn_range', Std.Legacy.Range.size, hsize, Nat.sub_zero,
        Nat.add_sub_cancel, Nat.div_one]
      rw [bind_err _ _ _ _ _ hloop]
    unfold brotliDecStream decodeWith
    simp only [EStateM.run, h, toList_eq, ho]
    simp

end BrStoredPf
end MlaModel

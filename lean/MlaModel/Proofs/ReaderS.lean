/-
  Proofs about `MlaModel.ReaderS`, the archive reader as a state machine over an arbitrary stream
  `σ` that behaves like a cursor over `data` (`IsCursor Inv abs data`):

    * `readExactS_sim`, `decodeS_sim` : `read_exact` / `ArchiveFileBlock::from` over the stream are
      the pure `takeExact` / `Hdr.decode` on `data.drop (abs s)`, errors included, and leave the
      stream right after what was consumed;
    * `readS_step` : one `BlocksToFileReader::read` over the stream keeps the `Good` invariant of the
      pure reader (`Proofs/ReaderCorrect`) at the abstract position of the stream, and returns a
      prefix of what is left — possibly SHORTER than what the pure reader returns (short reads of
      the layers), but non-empty when the buffer is non-empty and something is left;
    * `newS_good`, `hashS_good` : `BlocksToFileReader::new` and `get_hash` start with an ABSOLUTE
      seek, so they succeed from any state of the stream (this is why nothing depends on history).
  Used by `Theorems/C10` (`step_matches`, `run_matches`, `history`).
-/
import MlaModel.ReaderS
import MlaModel.Proofs.Stream
import MlaModel.Proofs.ReaderCorrect
namespace MlaModel

/-! ### `read_exact` and the block header over a cursor-like stream -/

section
variable {σ : Type} [Stream σ] {Inv : σ → Prop} {abs : σ → Nat} {data : Bytes}

/-- the stream `s` is in a good state and what it will deliver next is `d` -/
def Sim (Inv : σ → Prop) (abs : σ → Nat) (data : Bytes) (s : σ) (d : Bytes) : Prop :=
  Inv s ∧ data.drop (abs s) = d

theorem Sim.pos_eq (hI : IsCursor Inv abs data) {s : σ} {d : Bytes} (h : Sim Inv abs data s d) :
    abs s + d.length = data.length := by
  have hle := hI.abs_le s h.1
  have := congrArg List.length h.2
  simp at this; omega

/-- `read_exact(n)` over the stream = `takeExact n` on what the stream will deliver -/
theorem readExactS_sim (hI : IsCursor Inv abs data) (s : σ) (d : Bytes) (n : Nat)
    (h : Sim Inv abs data s d) :
    match takeExact n d with
    | .ok (b, r) => ∃ s', readExactS s n = .ok (s', b) ∧ Sim Inv abs data s' r
    | .error e => readExactS s n = .error e := by
  obtain ⟨hs, hd⟩ := h
  obtain ⟨s', hr, hs', ha'⟩ := readUpTo_ok hI (n + 1) s n hs (by omega)
  rw [hd] at hr ha'
  unfold takeExact
  by_cases hn : n ≤ d.length
  · simp only [hn, if_true]
    refine ⟨s', ?_, hs', ?_⟩
    · simp [readExactS, hr]; omega
    · rw [ha', ← List.drop_drop, hd]
      simp [Nat.min_eq_left hn]
  · simp only [hn, if_false]
    simp [readExactS, hr]; omega

theorem takeExact_one_cons (t : UInt8) (r : Bytes) : takeExact 1 (t :: r) = .ok ([t], r) := by
  simp [takeExact]

/-- `ArchiveFileBlock::from` over the stream = `Hdr.decode` on what the stream will deliver, errors
    included; on success the stream is left right after the header. -/
theorem decodeS_sim (hI : IsCursor Inv abs data) (P : Params) (utf8 : Bytes → Bool) (s : σ) (d : Bytes)
    (h : Sim Inv abs data s d) :
    match Hdr.decode P utf8 d with
    | .ok (hd, r) => ∃ s', Hdr.decodeS P utf8 s = .ok (s', hd) ∧ Sim Inv abs data s' r
    | .error e => Hdr.decodeS P utf8 s = .error e := by
  have h1 := readExactS_sim hI s d 1 h
  cases d with
  | nil =>
    have : takeExact 1 ([] : Bytes) = .error .eof := by simp [takeExact]
    rw [this] at h1
    simp only at h1
    simp [Hdr.decode, Hdr.decodeS, h1]
  | cons t r =>
    rw [takeExact_one_cons] at h1
    obtain ⟨s1, e1, hs1⟩ := h1
    unfold Hdr.decode Hdr.decodeS
    simp only [e1, List.headD_cons]
    by_cases ht1 : t = tStart
    · simp only [ht1, if_true]
      have h2 := readExactS_sim hI s1 r 8 hs1
      unfold readLe
      cases hte : takeExact 8 r with
      | error e => rw [hte] at h2; simp only at h2; simp [h2]
      | ok p =>
        obtain ⟨idb, r2⟩ := p
        rw [hte] at h2
        obtain ⟨s2, e2, hs2⟩ := h2
        simp only [e2]
        have h3 := readExactS_sim hI s2 r2 8 hs2
        cases hte3 : takeExact 8 r2 with
        | error e => rw [hte3] at h3; simp only at h3; simp [h3]
        | ok p =>
          obtain ⟨lb, r3⟩ := p
          rw [hte3] at h3
          obtain ⟨s3, e3, hs3⟩ := h3
          simp only [e3]
          by_cases hnm : P.nameMax < unle lb
          · simp [hnm]
          · simp only [hnm, if_false]
            have h4 := readExactS_sim hI s3 r3 (unle lb) hs3
            cases hte4 : takeExact (unle lb) r3 with
            | error e => rw [hte4] at h4; simp only at h4; simp [h4]
            | ok p =>
              obtain ⟨name, r4⟩ := p
              rw [hte4] at h4
              obtain ⟨s4, e4, hs4⟩ := h4
              simp only [e4]
              by_cases hu : utf8 name = true
              · simp only [hu, if_true]; exact ⟨s4, rfl, hs4⟩
              · simp [hu]
    · simp only [ht1, if_false]
      by_cases ht2 : t = tContent
      · simp only [ht2, if_true]
        have h2 := readExactS_sim hI s1 r 8 hs1
        unfold readLe
        cases hte : takeExact 8 r with
        | error e => rw [hte] at h2; simp only at h2; simp [h2]
        | ok p =>
          obtain ⟨idb, r2⟩ := p
          rw [hte] at h2
          obtain ⟨s2, e2, hs2⟩ := h2
          simp only [e2]
          have h3 := readExactS_sim hI s2 r2 8 hs2
          cases hte3 : takeExact 8 r2 with
          | error e => rw [hte3] at h3; simp only at h3; simp [h3]
          | ok p =>
            obtain ⟨lb, r3⟩ := p
            rw [hte3] at h3
            obtain ⟨s3, e3, hs3⟩ := h3
            simp only [e3]
            exact ⟨s3, rfl, hs3⟩
      · simp only [ht2, if_false]
        by_cases ht3 : t = tEof
        · simp only [ht3, if_true]
          have h2 := readExactS_sim hI s1 r 8 hs1
          unfold readLe
          cases hte : takeExact 8 r with
          | error e => rw [hte] at h2; simp only at h2; simp [h2]
          | ok p =>
            obtain ⟨idb, r2⟩ := p
            rw [hte] at h2
            obtain ⟨s2, e2, hs2⟩ := h2
            simp only [e2]
            have h3 := readExactS_sim hI s2 r2 hashLen hs2
            cases hte3 : takeExact hashLen r2 with
            | error e => rw [hte3] at h3; simp only at h3; simp [h3]
            | ok p =>
              obtain ⟨hb, r3⟩ := p
              rw [hte3] at h3
              obtain ⟨s3, e3, hs3⟩ := h3
              simp only [e3]
              exact ⟨s3, rfl, hs3⟩
        · simp only [ht3, if_false]
          by_cases ht4 : t = tEoad
          · simp only [ht4, if_true]; exact ⟨s1, rfl, hs1⟩
          · simp [ht4]

/-- the header of an encoded well-formed block, through the stream -/
theorem decodeS_block (hI : IsCursor Inv abs data) (P : Params) (utf8 : Bytes → Bool) (s : σ)
    (x : Block) (r : Bytes) (hwf : x.WF P utf8) (h : Sim Inv abs data s (x.encode ++ r)) :
    ∃ s', Hdr.decodeS P utf8 s = .ok (s', x.hdr) ∧ Sim Inv abs data s' (x.payload ++ r) := by
  have hdec := decodeS_sim hI P utf8 s _ h
  rw [Hdr.decode_encode P utf8 x r hwf] at hdec
  exact hdec

end

/-! ### one `BlocksToFileReader::read` over the stream -/

section
variable {σ : Type} [Stream σ] {Inv : σ → Prop} {abs : σ → Nat} {data : Bytes}
variable {P : Params} {utf8 : Bytes → Bool} {tail : Bytes} {i : Nat}

/-- consuming ANY `k ≤ |d|` bytes of a payload `d` that starts at `p` (the stream may return fewer
    bytes than asked) -/
theorem good_afterTakeK (p curOff : Nat) (offsets : List Nat) (d : Bytes) (rest : List Block)
    (h1 : data.drop p = d ++ (encodeAll rest ++ tail)) (h2 : p ≤ data.length)
    (h3 : OKs P utf8 rest) (h4 : openTail i rest)
    (h5 : offsets.drop (curOff + 1) = runStartsB i rest (p + d.length) true)
    (k : Nat) (hk : k ≤ d.length) :
    Good P utf8 data tail i
      ⟨p + k, if d.length - k = 0 then .ready else .inFile (d.length - k), i, curOff, offsets⟩
      ((d ++ contentOf i rest).drop k) ∧
    d.take k = (d ++ contentOf i rest).take k := by
  have hs := length_of_drop_eq h1 h2
  refine ⟨?_, by rw [List.take_append_of_le_length hk]⟩
  by_cases hkd : k = d.length
  · subst hkd
    simp only [Nat.sub_self, if_true, List.drop_left]
    exact Good.ready _ _ _ rest (drop_add_of_drop_eq h1) (by simp at hs; omega) h3 h4 h5
  · have hrem : ¬ (d.length - k = 0) := by omega
    simp only [hrem, if_false]
    rw [List.drop_append_of_le_length hk]
    refine Good.inFile _ _ _ (d.drop k) _ rest ?_ (by simp at hs; omega) (by simp) (by omega) h3 h4 ?_
    · rw [← List.drop_drop, h1, List.drop_append_of_le_length hk]
    · rw [h5]; congr 1; omega

/-- reading (part of) a payload `d` of the file through the stream -/
theorem read_payloadS (hI : IsCursor Inv abs data) (n : Nat) (s1 : σ) (curOff : Nat)
    (offsets : List Nat) (d : Bytes) (rest : List Block)
    (hs : Sim Inv abs data s1 (d ++ (encodeAll rest ++ tail))) (hd : d ≠ [])
    (h3 : OKs P utf8 rest) (h4 : openTail i rest)
    (h5 : offsets.drop (curOff + 1) = runStartsB i rest (abs s1 + d.length) true) :
    ∃ s' out, Stream.read s1 (min d.length n) = .ok (s', out) ∧ Inv s' ∧
      Good P utf8 data tail i
        ⟨abs s', if d.length - out.length = 0 then .ready else .inFile (d.length - out.length),
          i, curOff, offsets⟩ ((d ++ contentOf i rest).drop out.length) ∧
      out = (d ++ contentOf i rest).take out.length ∧ out.length ≤ n ∧ (0 < n → out ≠ []) := by
  obtain ⟨s', out, hr, hs', hout, hle, hpos, ha'⟩ := hI.read_ok s1 (min d.length n) hs.1
  have hdl : 0 < d.length := List.length_pos_iff.2 hd
  have hple := hI.abs_le s1 hs.1
  have hlen := Sim.pos_eq hI hs
  simp only [List.length_append] at hlen
  have hk : out.length ≤ d.length := by omega
  rw [hs.2, List.take_append_of_le_length hk] at hout
  obtain ⟨g1, g2⟩ := good_afterTakeK (P := P) (utf8 := utf8) (data := data) (tail := tail) (i := i)
    (abs s1) curOff offsets d rest hs.2 hple h3 h4 h5 out.length hk
  refine ⟨s', out, hr, hs', ?_, ?_, by omega, ?_⟩
  · rw [ha']; exact g1
  · rw [← g2]; exact hout
  · intro hn h0
    have := hpos (by omega) (by omega)
    rw [h0] at this; simp at this

/-- skipping a block of another file: decode its header, seek to the next recorded offset -/
theorem readAuxS_ready_notMine (n fuel : Nat) (src s1 s2 : σ) (curOff : Nat) (offsets : List Nat)
    (x : Block) (o p : Nat)
    (hdec : Hdr.decodeS P utf8 src = .ok (s1, x.hdr)) (hne : x.owner ≠ some i) (hno : x ≠ .eoad)
    (hget : offsets[curOff + 1]? = some o) (hseek : Stream.seek s1 (.start o) = .ok (s2, p)) :
    BtfS.readAux P utf8 n (fuel + 1) ⟨src, .ready, i, curOff, offsets⟩ =
      BtfS.readAux P utf8 n fuel ⟨s2, .ready, i, curOff + 1, offsets⟩ := by
  cases x with
  | eoad => exact absurd rfl hno
  | start k nm =>
    have hk : k ≠ i := by simpa [Block.owner] using hne
    simp [BtfS.readAux, hdec, Block.hdr, hk, hget, hseek]
  | content k d =>
    have hk : k ≠ i := by simpa [Block.owner] using hne
    simp [BtfS.readAux, hdec, Block.hdr, hk, hget, hseek]
  | eof k hh =>
    have hk : k ≠ i := by simpa [Block.owner] using hne
    simp [BtfS.readAux, hdec, Block.hdr, hk, hget, hseek]

/-- the block at the stream position belongs to the file -/
theorem readAuxS_mine (hI : IsCursor Inv abs data) (n fuel : Nat) (src : σ) (curOff : Nat)
    (offsets : List Nat) (blk : Block) (r2 : List Block)
    (hs : Sim Inv abs data src (encodeAll (blk :: r2) ++ tail))
    (h3 : OKs P utf8 (blk :: r2)) (h4 : openTail i (blk :: r2)) (hm : blk.owner = some i)
    (h5 : offsets.drop (curOff + 1) = runStartsB i (blk :: r2) (abs src) true) :
    ∃ s' st' out, BtfS.readAux P utf8 n (fuel + 1) ⟨src, .ready, i, curOff, offsets⟩ =
        .ok (⟨s', st', i, curOff, offsets⟩, out) ∧ Inv s' ∧
      Good P utf8 data tail i ⟨abs s', st', i, curOff, offsets⟩
        ((contentOf i (blk :: r2)).drop out.length) ∧
      out = (contentOf i (blk :: r2)).take out.length ∧ out.length ≤ n ∧
      (0 < n → contentOf i (blk :: r2) ≠ [] → out ≠ []) := by
  have hwf := (h3 blk (by simp)).1
  have hne := (h3 blk (by simp)).2
  have hs' : Sim Inv abs data src (blk.encode ++ (encodeAll r2 ++ tail)) := by simpa using hs
  obtain ⟨s1, hd1, hs1⟩ := decodeS_block hI P utf8 src blk _ hwf hs'
  have hmine : blk.mine i = true := (Block.mine_iff i blk).2 hm
  have h5' : offsets.drop (curOff + 1) = runStartsB i r2 (abs src + blk.encode.length) true := by
    simpa [runStartsB, hmine] using h5
  have hl0 := Sim.pos_eq hI hs'
  have hl1 := Sim.pos_eq hI hs1
  cases blk with
  | eoad => simp [Block.owner] at hm
  | start k nm =>
    have hk : k = i := by simpa [Block.owner] using hm
    exact absurd hk h4.1
  | eof k hh =>
    have hk : k = i := by simpa [Block.owner] using hm
    subst hk
    have hnm : noMore k r2 := by simpa [openTail] using h4
    have hc : contentOf k (Block.eof k hh :: r2) = [] := by
      simp [Block.dataFor, contentOf_noMore k r2 hnm]
    refine ⟨s1, .finish, [], ?_, hs1.1, ?_, by simp, by simp, ?_⟩
    · simp [BtfS.readAux, hd1, Block.hdr]
    · rw [hc]; exact Good.finish _ _ _
    · intro _ h; exact absurd hc h
  | content k d =>
    have hk : k = i := by simpa [Block.owner] using hm
    subst hk
    have hd : d ≠ [] := hne
    have hc : contentOf k (Block.content k d :: r2) = d ++ contentOf k r2 := by
      simp [Block.dataFor]
    simp only [Block.hdr, Block.payload] at hd1 hs1 hl1
    have hel := Block.encode_length (Block.content k d)
    simp only at hel
    simp only [List.length_append] at hl0 hl1
    obtain ⟨s', out, hr, hinv', g1, g2, g3, g4⟩ :=
      read_payloadS (P := P) (utf8 := utf8) (tail := tail) (i := k) hI n s1 curOff offsets d r2 hs1 hd
        h3.tail h4 (by rw [h5']; congr 1; omega)
    refine ⟨s', if d.length - out.length = 0 then .ready else .inFile (d.length - out.length), out,
      ?_, hinv', ?_, ?_, g3, fun hn _ => g4 hn⟩
    · simp [BtfS.readAux, hd1, hr]
    · rw [hc]; exact g1
    · rw [hc]; exact g2

/-- **one `read(into)` call over the stream** keeps the invariant of the pure reader at the abstract
    position of the stream, delivers a prefix of what is left, no more than the buffer, and
    something unless the buffer is empty or nothing is left. -/
theorem readS_step (hI : IsCursor Inv abs data) (n : Nat) (src : σ) (st : BtfSt) (co : Nat)
    (offs : List Nat) (E : Bytes) (hinv : Inv src)
    (hg : Good P utf8 data tail i ⟨abs src, st, i, co, offs⟩ E) :
    ∃ s' st' co' out, BtfS.read P utf8 ⟨src, st, i, co, offs⟩ n = .ok (⟨s', st', i, co', offs⟩, out) ∧
      Inv s' ∧ Good P utf8 data tail i ⟨abs s', st', i, co', offs⟩ (E.drop out.length) ∧
      out = E.take out.length ∧ out.length ≤ n ∧ (0 < n → E ≠ [] → out ≠ []) := by
  generalize hp : abs src = pos at hg
  cases hg with
  | finish _ curOff offsets =>
    refine ⟨src, .finish, co, [], ?_, hinv, ?_, by simp, by simp, by simp⟩
    · simp [BtfS.read, BtfS.readAux]
    · exact Good.finish _ _ _
  | inFile _ curOff offsets d rem rest h1 h2 hd hrem h3 h4 h5 =>
    subst hd
    subst hp
    have hd : d ≠ [] := List.length_pos_iff.1 hrem
    obtain ⟨s', out, hr, hinv', g1, g2, g3, g4⟩ :=
      read_payloadS (P := P) (utf8 := utf8) (tail := tail) (i := i) hI n src co offs d rest
        ⟨hinv, h1⟩ hd h3 h4 h5
    refine ⟨s', if d.length - out.length = 0 then .ready else .inFile (d.length - out.length), co, out,
      ?_, hinv', g1, g2, g3, fun hn _ => g4 hn⟩
    simp [BtfS.read, BtfS.readAux, hr]
  | ready _ curOff offsets rest h1 h2 h3 h4 h5 =>
    subst hp
    cases rest with
    | nil => simp [openTail] at h4
    | cons x rest' =>
      by_cases hx : x.owner = some i
      · obtain ⟨s', st', out, hr, g⟩ :=
          readAuxS_mine (P := P) (utf8 := utf8) (tail := tail) (i := i) hI n (offs.length + 1) src co
            offs x rest' ⟨hinv, h1⟩ h3 h4 hx h5
        exact ⟨s', st', co, out, hr, g⟩
      · -- jump to the next recorded offset
        have hxm : x.mine i = false := (Block.mine_false_iff i x).2 hx
        have hno : x ≠ .eoad := by
          intro h; subst h; simp [openTail] at h4
        have h1' : data.drop (abs src) = x.encode ++ (encodeAll rest' ++ tail) := by simpa using h1
        have h4' := openTail_of_not_mine h4 hx
        obtain ⟨r1, blk, r2, hr, hnm, hb, hrs, hot, hc⟩ :=
          runStartsB_jump i rest' (abs src + x.encode.length) h4'
        have h5' : offs.drop (co + 1) =
            (abs src + x.encode.length + (encodeAll r1).length) ::
              runStartsB i (blk :: r2) (abs src + x.encode.length + (encodeAll r1).length) true := by
          rw [h5]; simpa [runStartsB, hxm] using hrs
        generalize ho : abs src + x.encode.length + (encodeAll r1).length = o at h5'
        have hget : offs[co + 1]? = some o := by
          have := List.head?_drop (l := offs) (i := co + 1)
          rw [h5'] at this; simpa using this.symm
        have hdrop2 : offs.drop (co + 1 + 1) = runStartsB i (blk :: r2) o true := by
          have : offs.drop (co + 1 + 1) = (offs.drop (co + 1)).drop 1 := by
            rw [List.drop_drop]
          rw [this, h5']; rfl
        have hso : data.drop o = encodeAll (blk :: r2) ++ tail := by
          have e1 : data.drop (abs src) =
              (x.encode ++ encodeAll r1) ++ (encodeAll (blk :: r2) ++ tail) := by
            rw [h1', hr]; simp
          have := drop_add_of_drop_eq e1
          rw [← ho, Nat.add_assoc, ← List.length_append]; exact this
        have hol : o ≤ data.length := by
          have := length_of_drop_eq h1' h2
          rw [hr] at this
          simp only [encodeAll_append, List.length_append] at this
          omega
        have h3' : OKs P utf8 (blk :: r2) := by
          have : OKs P utf8 (r1 ++ blk :: r2) := hr ▸ h3.tail
          exact this.of_append_right
        -- the stream: decode the foreign header, then seek to `o`
        obtain ⟨s1, hd1, hs1⟩ := decodeS_block hI P utf8 src x (encodeAll rest' ++ tail)
          (h3 x (by simp)).1 ⟨hinv, h1'⟩
        obtain ⟨s2, hsk, hinv2, ha2⟩ := hI.seek_ok s1 (.start o) o hs1.1 hol rfl
        obtain ⟨s', st', out, hread, g⟩ :=
          readAuxS_mine (P := P) (utf8 := utf8) (tail := tail) (i := i) hI n offs.length s2 (co + 1)
            offs blk r2 ⟨hinv2, by rw [ha2]; exact hso⟩ h3' hot hb (by rw [ha2]; exact hdrop2)
        have hE : contentOf i (x :: rest') = contentOf i (blk :: r2) := by
          rw [contentOf_cons, Block.dataFor_of_not_mine i x hx, List.nil_append, hc]
        refine ⟨s', st', co + 1, out, ?_, ?_⟩
        · rw [BtfS.read]
          show BtfS.readAux P utf8 n (offs.length + 1 + 1) _ = _
          rw [readAuxS_ready_notMine (P := P) (utf8 := utf8) (i := i) n (offs.length + 1) src s1 s2 co
            offs x o o hd1 hx hno hget hsk]
          exact hread
        · rw [hE]; exact g

/-! ### `get_file` (opening) and `get_hash` over the stream: both start with an ABSOLUTE seek, so
    the state the stream was in does not matter -/

/-- `BlocksToFileReader::new` over the stream, for a file whose blocks are "start, …, eof" -/
theorem newS_good (hI : IsCursor Inv abs data) (nb pre rest : List Block) (name : Bytes)
    (offsets : List Nat)
    (hdata : data = encodeAll nb ++ tail) (hoks : OKs P utf8 nb)
    (hbs : nb = pre ++ .start i name :: rest) (hnm : noMore i pre) (h4 : openTail i rest)
    (hoff : offsets = runStartsB i nb 0 false) (src : σ) (hinv : Inv src) :
    ∃ s', BtfS.new P utf8 src offsets = .ok ⟨s', .ready, i, 0, offsets⟩ ∧ Inv s' ∧
      Good P utf8 data tail i ⟨abs s', .ready, i, 0, offsets⟩ (contentOf i nb) := by
  have hmine : (Block.start i name).mine i = true := by simp [Block.mine, Block.owner]
  have hoff' : offsets = (encodeAll pre).length ::
      runStartsB i rest ((encodeAll pre).length + (Block.start i name).encode.length) true := by
    rw [hoff, hbs, runStartsB_skip i pre _ 0 hnm]
    simp [runStartsB, hmine]
  have hdrop : data.drop (encodeAll pre).length =
      (Block.start i name).encode ++ (encodeAll rest ++ tail) := by
    rw [hdata, hbs]; simp
  have hple : (encodeAll pre).length ≤ data.length := by rw [hdata, hbs]; simp
  have hwf : (Block.start i name).WF P utf8 := (hoks _ (by rw [hbs]; simp)).1
  have h3 : OKs P utf8 rest := fun b hb => hoks b (by rw [hbs]; simp [hb])
  obtain ⟨s1, hsk, hinv1, ha1⟩ := hI.seek_ok src (.start (encodeAll pre).length) (encodeAll pre).length hinv hple rfl
  obtain ⟨s2, hd2, hs2⟩ := decodeS_block hI P utf8 s1 (Block.start i name) (encodeAll rest ++ tail)
    hwf ⟨hinv1, by rw [ha1]; exact hdrop⟩
  simp only [Block.hdr, Block.payload, List.nil_append] at hd2 hs2
  have hl1 := length_of_drop_eq hdrop hple
  have hl2 := Sim.pos_eq hI hs2
  simp only [List.length_append] at hl1 hl2
  have hpos2 : abs s2 = (encodeAll pre).length + (Block.start i name).encode.length := by omega
  have hc : contentOf i nb = contentOf i rest := by
    rw [hbs]; simp [contentOf_noMore i pre hnm, Block.dataFor]
  have hnew : ∀ offs tl, offs = (encodeAll pre).length :: tl →
      BtfS.new P utf8 src offs = .ok ⟨s2, .ready, i, 0, offs⟩ := by
    intro offs tl h; subst h; simp only [BtfS.new, hsk, hd2]
  refine ⟨s2, hnew _ _ hoff', hs2.1, ?_⟩
  rw [hc]
  refine Good.ready _ _ _ rest hs2.2 (hI.abs_le _ hs2.1) h3 h4 ?_
  rw [hpos2]
  generalize runStartsB i rest ((encodeAll pre).length + (Block.start i name).encode.length) true = tl
    at hoff' ⊢
  rw [hoff']; simp

/-- `get_hash` over the stream: seek to the recorded eof offset, decode the eof block -/
theorem hashS_good (hI : IsCursor Inv abs data) (nb p2 r2 : List Block) (hh : Bytes) (eofOff : Nat)
    (hdata : data = encodeAll nb ++ tail) (hoks : OKs P utf8 nb)
    (hbs : nb = p2 ++ .eof i hh :: r2) (heof : eofOff = (encodeAll p2).length)
    (src : σ) (hinv : Inv src) :
    ∃ s1 s2, Stream.seek src (.start eofOff) = .ok (s1, eofOff) ∧
      Hdr.decodeS P utf8 s1 = .ok (s2, .eof i hh) ∧ Inv s2 := by
  have hdrop : data.drop eofOff = (Block.eof i hh).encode ++ (encodeAll r2 ++ tail) := by
    rw [hdata, hbs, heof]; simp
  have hple : eofOff ≤ data.length := by rw [hdata, hbs, heof]; simp
  have hwf : (Block.eof i hh).WF P utf8 := (hoks _ (by rw [hbs]; simp)).1
  obtain ⟨s1, hsk, hinv1, ha1⟩ := hI.seek_ok src (.start eofOff) eofOff hinv hple rfl
  obtain ⟨s2, hd2, hs2⟩ := decodeS_block hI P utf8 s1 (Block.eof i hh) (encodeAll r2 ++ tail)
    hwf ⟨hinv1, by rw [ha1]; exact hdrop⟩
  exact ⟨s1, s2, hsk, hd2, hs2.1⟩

end

end MlaModel

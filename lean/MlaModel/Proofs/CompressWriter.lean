/-
  L0+L1 for the compression writer: writer invariant (`CW.Inv`), preserved by `write`, `writeAll`,
  `flush`, hence by every run of layer actions (`compRun_inv`).  Used by
  `MlaModel/Theorems/C01Compress.lean` (C01: well-formed compressed stream after `finalize`;
  C14: what has been emitted after a flush is decodable).
-/
import MlaModel.Compress
namespace MlaModel

/-! ### encoder runs -/

@[simp] theorem EAct.written_nil : EAct.written [] = [] := rfl

theorem EAct.written_append (a b : List EAct) :
    EAct.written (a ++ b) = EAct.written a ++ EAct.written b := by
  induction a with
  | nil => rfl
  | cons x xs ih => cases x <;> simp [EAct.written, ih]

@[simp] theorem EAct.written_write (b : Bytes) : EAct.written [.write b] = b := by
  simp [EAct.written]

@[simp] theorem EAct.written_flush : EAct.written [.flush] = [] := rfl

theorem Codec.runActs_append (K : Codec) (es : K.ES) (a b : List EAct) :
    K.runActs es (a ++ b) =
      ((K.runActs (K.runActs es a).1 b).1, (K.runActs es a).2 ++ (K.runActs (K.runActs es a).1 b).2) := by
  induction a generalizing es with
  | nil => simp [Codec.runActs]
  | cons x xs ih => cases x <;> simp [Codec.runActs, ih, List.append_assoc]

theorem Codec.runActs_write (K : Codec) (es : K.ES) (b : Bytes) :
    K.runActs es [.write b] = K.ewrite es b := by
  simp [Codec.runActs]

theorem Codec.runActs_flush (K : Codec) (es : K.ES) :
    K.runActs es [.flush] = K.eflush es := by
  simp [Codec.runActs]

/-- the streaming decoder delivers nothing from no input (consequence of `stream_finish` /
    `stream_prefix` on the empty encoder run) -/
theorem Codec.Laws.decStream_nil {K : Codec} (hK : K.Laws) : (K.decStream []).1 = [] := by
  by_cases h0 : K.efinish (K.einit 0) = []
  · have := hK.stream_finish 0 [] []
    simpa [Codec.runActs, h0] using congrArg Prod.fst this
  · have := hK.stream_prefix 0 [] 0
    simp only [Codec.runActs, List.nil_append, List.take_zero, EAct.written_nil] at this
    have hp := (this (List.length_pos_iff.mpr h0)).1
    exact List.prefix_nil.mp hp

/-- law K4 alone (`Codec.Laws.dec_finish`): all that the writer's well-formedness needs -/
def Codec.DecFinish (K : Codec) : Prop :=
  ∀ lvl acts, K.dec ((K.runActs (K.einit lvl) acts).2 ++ K.efinish (K.runActs (K.einit lvl) acts).1) =
    some (EAct.written acts)

theorem Codec.Laws.decFinish {K : Codec} (hK : K.Laws) : K.DecFinish := hK.dec_finish

/-! ### blocks of the plaintext -/

theorem blockOf_append_of_le (P : Params) (p x : Bytes) (k : Nat) (h : (k + 1) * P.block ≤ p.length) :
    blockOf P (p ++ x) k = blockOf P p k := by
  have h1 : k * P.block ≤ p.length := by rw [Nat.add_mul] at h; omega
  unfold blockOf
  rw [List.drop_append_of_le_length h1, List.take_append_of_le_length]
  rw [Nat.add_mul] at h; simp; omega

theorem blockOf_last (P : Params) (p x : Bytes) (k : Nat) (h : p.length = (k + 1) * P.block) :
    blockOf P (p ++ x) k = p.drop (k * P.block) := by
  have h1 : k * P.block ≤ p.length := by rw [Nat.add_mul] at h; omega
  have h2 : (p.drop (k * P.block)).length = P.block := by
    rw [Nat.add_mul] at h; simp; omega
  unfold blockOf
  rw [List.drop_append_of_le_length h1, List.take_append_of_le_length (by omega),
    List.take_of_length_le (by omega)]

/-! ### the writer invariant -/

/-- invariant of an open block: `done` are the closed blocks, `eacts` the encoder actions of the
    open block so far -/
structure CW.Open (P : Params) (K : Codec) (level : Nat) (sizes : List Nat) (p out : Bytes)
    (written : Nat) (es : K.ES) (cnt : Nat) (done : List Bytes) (eacts : List EAct) : Prop where
  sizes : sizes = done.map List.length
  blocks : ∀ k (h : k < done.length), K.dec done[k] = some (blockOf P p k)
  es : es = (K.runActs (K.einit level) eacts).1
  cnt : cnt = (K.runActs (K.einit level) eacts).2.length
  rest : EAct.written eacts = p.drop (done.length * P.block)
  len : p.length = done.length * P.block + written
  pos : 0 < written
  le : written ≤ P.block
  out : out = done.flatten ++ (K.runActs (K.einit level) eacts).2

/-- writer invariant: `p` = plaintext accepted so far, `out` = bytes emitted so far -/
def CW.Inv (P : Params) (K : Codec) (level : Nat) (w : CW K) (p out : Bytes) : Prop :=
  w.level = level ∧
  match w.st with
  | .ready => w.sizes = [] ∧ p = [] ∧ out = []
  | .inData written es cnt => ∃ done eacts, CW.Open P K level w.sizes p out written es cnt done eacts

theorem CW.inv_init (P : Params) (K : Codec) (level : Nat) : CW.Inv P K level (CW.init K level) [] [] := by
  simp [CW.Inv, CW.init]

theorem CW.write_inv (P : Params) (K : Codec) (hK : K.DecFinish) (level : Nat) (w : CW K)
    (p out buf : Bytes) (h : CW.Inv P K level w p out) (hb : buf ≠ []) :
    CW.Inv P K level (w.write P K buf).1 (p ++ buf.take (w.write P K buf).2.1)
      (out ++ (w.write P K buf).2.2) ∧
    0 < (w.write P K buf).2.1 ∧ (w.write P K buf).2.1 ≤ buf.length := by
  have hB := P.hblock
  have hbl : 0 < buf.length := List.length_pos_iff.mpr hb
  obtain ⟨st, sizes, lvl⟩ := w
  obtain ⟨hlvl, hst⟩ := h
  simp only at hlvl
  subst hlvl
  cases st with
  | ready =>
    obtain ⟨hs, hp, ho⟩ := hst
    simp only at hs
    subst hs hp ho
    simp only [CW.write]
    generalize hsz : min P.block buf.length = size
    have hs1 : 0 < size := by omega
    have hs2 : size ≤ buf.length := by omega
    have hs3 : size ≤ P.block := by omega
    have htl : (buf.take size).length = size := by simp; omega
    refine ⟨⟨rfl, [], [.write (buf.take size)], ?_⟩, hs1, hs2⟩
    constructor <;> simp [Codec.runActs_write, htl, hs1, hs3]
  | inData written es cnt =>
    obtain ⟨done, eacts, hsz, hblk, hes, hcnt, hrest, hlen, hpos, hle, hout⟩ := hst
    simp only at hsz
    by_cases hfull : written = P.block
    · simp only [CW.write, hfull, if_true]
      generalize hsize : min P.block buf.length = size
      have hs1 : 0 < size := by omega
      have hs2 : size ≤ buf.length := by omega
      have hs3 : size ≤ P.block := by omega
      have htl : (buf.take size).length = size := by simp; omega
      have hpl : p.length = (done.length + 1) * P.block := by rw [hlen, hfull, Nat.add_mul]; omega
      refine ⟨⟨rfl, done ++ [(K.runActs (K.einit lvl) eacts).2 ++ K.efinish es],
        [.write (buf.take size)], ?_⟩, hs1, hs2⟩
      constructor
      · simp [hsz, hcnt]
      · intro k hk
        simp only [List.length_append, List.length_singleton] at hk
        by_cases hk' : k < done.length
        · rw [List.getElem_append_left hk', hblk k hk', blockOf_append_of_le]
          have : (k + 1) * P.block ≤ (done.length) * P.block := Nat.mul_le_mul_right _ hk'
          omega
        · have hke : k = done.length := by omega
          subst hke
          rw [List.getElem_append_right (Nat.le_refl _)]
          simp only [Nat.sub_self, List.getElem_cons_zero]
          rw [blockOf_last P p _ _ hpl, ← hrest, hes]
          exact hK lvl eacts
      · simp [Codec.runActs_write]
      · simp [Codec.runActs_write]
      · simp only [EAct.written_write, List.length_append, List.length_singleton]
        rw [List.drop_append_of_le_length (by omega), List.drop_eq_nil_of_le (by omega)]; simp
      · simp [htl, hpl]
      · exact hs1
      · exact hs3
      · simp [Codec.runActs_write, hout, List.append_assoc]
    · simp only [CW.write, hfull, if_false]
      generalize hsize : min (P.block - written) buf.length = size
      have hs1 : 0 < size := by omega
      have hs2 : size ≤ buf.length := by omega
      have hs3 : written + size ≤ P.block := by omega
      have htl : (buf.take size).length = size := by simp; omega
      have hk0 : done.length * P.block ≤ p.length := by omega
      refine ⟨⟨rfl, done, eacts ++ [.write (buf.take size)], ?_⟩, hs1, hs2⟩
      constructor
      · exact hsz
      · intro k hk
        rw [hblk k hk, blockOf_append_of_le]
        have : (k + 1) * P.block ≤ (done.length) * P.block := Nat.mul_le_mul_right _ hk
        omega
      · simp [Codec.runActs_append, Codec.runActs_write, ← hes]
      · simp [Codec.runActs_append, Codec.runActs_write, ← hes, hcnt]
      · rw [EAct.written_append, hrest, List.drop_append_of_le_length hk0]; simp
      · simp [htl, hlen]; omega
      · omega
      · exact hs3
      · simp [Codec.runActs_append, Codec.runActs_write, ← hes, hout, List.append_assoc]

theorem CW.writeAll_inv (P : Params) (K : Codec) (hK : K.DecFinish) (level : Nat) :
    ∀ (fuel : Nat) (w : CW K) (p out buf : Bytes), CW.Inv P K level w p out → buf.length < fuel →
      CW.Inv P K level (CW.writeAll P K fuel w buf).1 (p ++ buf) (out ++ (CW.writeAll P K fuel w buf).2) := by
  intro fuel
  induction fuel with
  | zero => intro w p out buf _ h; omega
  | succ fuel ih =>
    intro w p out buf hinv hf
    by_cases hb : buf = []
    · subst hb; simpa [CW.writeAll] using hinv
    · obtain ⟨hi, hpos, hle⟩ := CW.write_inv P K hK level w p out buf hinv hb
      have hrec := ih (w.write P K buf).1 (p ++ buf.take (w.write P K buf).2.1)
        (out ++ (w.write P K buf).2.2) (buf.drop (w.write P K buf).2.1) hi (by simp; omega)
      simp only [CW.writeAll, hb, if_false]
      simpa [List.append_assoc, List.take_append_drop] using hrec

/-- a flush keeps the invariant; in an open block the encoder actions gain a trailing `flush` -/
theorem CW.flush_inv (P : Params) (K : Codec) (level : Nat) (w : CW K) (p out : Bytes)
    (h : CW.Inv P K level w p out) :
    CW.Inv P K level (w.flush K).1 p (out ++ (w.flush K).2) := by
  obtain ⟨st, sizes, lvl⟩ := w
  obtain ⟨hlvl, hst⟩ := h
  simp only at hlvl
  subst hlvl
  cases st with
  | ready => simpa [CW.Inv, CW.flush] using hst
  | inData written es cnt =>
    obtain ⟨done, eacts, hsz, hblk, hes, hcnt, hrest, hlen, hpos, hle, hout⟩ := hst
    refine ⟨rfl, done, eacts ++ [.flush], ?_⟩
    simp only [CW.flush]
    constructor
    · exact hsz
    · exact hblk
    · simp [Codec.runActs_append, Codec.runActs_flush, ← hes]
    · simp [Codec.runActs_append, Codec.runActs_flush, ← hes, hcnt]
    · rw [EAct.written_append, hrest]; simp
    · exact hlen
    · exact hpos
    · exact hle
    · simp [Codec.runActs_append, Codec.runActs_flush, ← hes, hout, List.append_assoc]

theorem LAct.written_append (a b : List LAct) :
    LAct.written (a ++ b) = LAct.written a ++ LAct.written b := by
  induction a with
  | nil => rfl
  | cons x xs ih => cases x <;> simp [LAct.written, ih]

theorem compStep_inv (P : Params) (K : Codec) (hK : K.DecFinish) (level : Nat) (acc : CW K × Bytes)
    (p : Bytes) (a : LAct) (h : CW.Inv P K level acc.1 p acc.2) :
    CW.Inv P K level (compStep P K acc a).1 (p ++ LAct.written [a]) (compStep P K acc a).2 := by
  cases a with
  | write b =>
    simpa [compStep, LAct.written] using
      CW.writeAll_inv P K hK level (b.length + 1) acc.1 p acc.2 b h (by omega)
  | flush =>
    simpa [compStep, LAct.written] using CW.flush_inv P K level acc.1 p acc.2 h

theorem compFoldl_inv (P : Params) (K : Codec) (hK : K.DecFinish) (level : Nat) (acts : List LAct) :
    ∀ (acc : CW K × Bytes) (p : Bytes), CW.Inv P K level acc.1 p acc.2 →
      CW.Inv P K level (acts.foldl (compStep P K) acc).1 (p ++ LAct.written acts)
        (acts.foldl (compStep P K) acc).2 := by
  induction acts with
  | nil => intro acc p h; simpa [LAct.written] using h
  | cons a r ih =>
    intro acc p h
    have h1 := compStep_inv P K hK level acc p a h
    have := ih _ _ h1
    rw [List.append_assoc, ← LAct.written_append] at this
    simpa using this

/-- the invariant after any sequence of `write_all` calls and flushes -/
theorem compRun_inv (P : Params) (K : Codec) (hK : K.DecFinish) (level : Nat) (acts : List LAct) :
    CW.Inv P K level (compRun P K level acts).1 (LAct.written acts) (compRun P K level acts).2 := by
  have := compFoldl_inv P K hK level acts (CW.init K level, []) [] (CW.inv_init P K level)
  simpa [compRun] using this

/-- the invariant at `finalize` gives a well-formed compressed stream -/
theorem CW.finalize_wellformed (P : Params) (K : Codec) (hK : K.DecFinish) (level : Nat) (w : CW K)
    (p out : Bytes) (h : CW.Inv P K level w p out) :
    ∃ cs, IsCompressed P K p cs (out ++ w.finalize K) := by
  have hB := P.hblock
  obtain ⟨st, sizes, lvl⟩ := w
  obtain ⟨hlvl, hst⟩ := h
  simp only at hlvl
  subst hlvl
  cases st with
  | ready =>
    obtain ⟨hs, hp, ho⟩ := hst
    simp only at hs
    subst hs hp ho
    refine ⟨[], ?_, ?_, ?_⟩
    · simp [CW.finalize]
    · simp only [List.length_nil, Nat.zero_add]
      rw [Nat.div_eq_of_lt (by omega)]
    · intro k hk; simp at hk
  | inData written es cnt =>
    obtain ⟨done, eacts, hsz, hblk, hes, hcnt, hrest, hlen, hpos, hle, hout⟩ := hst
    simp only at hsz
    refine ⟨done ++ [(K.runActs (K.einit lvl) eacts).2 ++ K.efinish es], ?_, ?_, ?_⟩
    · have hl : p.length - done.length * P.block = written := by omega
      simp [CW.finalize, hout, hsz, hcnt, hl, List.append_assoc]
    · simp only [List.length_append, List.length_singleton]
      have : p.length + P.block - 1 = P.block * (done.length) + (written + P.block - 1) := by
        rw [hlen, Nat.mul_comm]; omega
      rw [this, Nat.mul_add_div hB]
      obtain ⟨d, hd⟩ : ∃ d, written = d + 1 := ⟨written - 1, by omega⟩
      have : written + P.block - 1 = d + P.block := by omega
      rw [this, Nat.add_div_right _ hB, Nat.div_eq_of_lt (by omega)]
    · intro k hk
      simp only [List.length_append, List.length_singleton] at hk
      by_cases hk' : k < done.length
      · rw [List.getElem_append_left hk', hblk k hk']
      · have hke : k = done.length := by omega
        subst hke
        rw [List.getElem_append_right (Nat.le_refl _)]
        simp only [Nat.sub_self, List.getElem_cons_zero]
        have : blockOf P p done.length = EAct.written eacts := by
          unfold blockOf
          rw [hrest, List.take_of_length_le]; simp; omega
        rw [this, hes]
        exact hK lvl eacts

/-- the invariant right after a flush: what has been emitted is decodable -/
theorem CW.flush_decodable (P : Params) (K : Codec) (hK : K.Laws) (level : Nat) (w : CW K)
    (p out : Bytes) (h : CW.Inv P K level w p out) :
    ∃ done cur, out ++ (w.flush K).2 = List.flatten done ++ cur ∧
      (∀ k (h : k < done.length), K.dec done[k] = some (blockOf P p k)) ∧
      (K.decStream cur).1 = p.drop (done.length * P.block) ∧ done.length * P.block ≤ p.length ∧
      p.length - done.length * P.block ≤ P.block := by
  obtain ⟨st, sizes, lvl⟩ := w
  obtain ⟨hlvl, hst⟩ := h
  simp only at hlvl
  subst hlvl
  cases st with
  | ready =>
    obtain ⟨hs, hp, ho⟩ := hst
    subst hp ho
    refine ⟨[], [], ?_, ?_, ?_, ?_, ?_⟩
    · simp [CW.flush]
    · intro k hk; simp at hk
    · simpa using hK.decStream_nil
    · simp
    · simp
  | inData written es cnt =>
    obtain ⟨done, eacts, hsz, hblk, hes, hcnt, hrest, hlen, hpos, hle, hout⟩ := hst
    refine ⟨done, (K.runActs (K.einit lvl) (eacts ++ [.flush])).2, ?_, hblk, ?_, by omega, by omega⟩
    · simp [CW.flush, Codec.runActs_append, Codec.runActs_flush, ← hes, hout, List.append_assoc]
    · rw [← hrest]; exact hK.stream_flush lvl eacts

end MlaModel

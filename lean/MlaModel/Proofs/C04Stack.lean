/-
  Helpers for C04 at the level of the archive body: an `Unforged` corruption of a sealed stream
  that keeps the data bytes of chunk 0 gives, through the authenticated fail-safe decryptor, EXACTLY
  what the genuine sealed stream cut at a chunk-slot boundary gives — the boundary before the first
  slot `≥ 1` that fails.  Hence the whole fail-safe stack (`failsafeDeliver`, compression below
  encryption included) cannot tell the corruption from that truncation.
-/
import MlaModel.Proofs.C04
import MlaModel.Proofs.RepairStack
namespace MlaModel

section
variable (P : Params) (C : EncPrims) (hTag : ∀ i c, (C.tag i c).length = P.tagLen)
include hTag

/-- a slot boundary past the last chunk: the cut keeps the whole sealed stream -/
theorem sealS_take_all (p : Bytes) (j : Nat) (hj : nLast P p < j) :
    (sealS P C p).take (j * (P.chunk + P.tagLen)) = sealS P C p := by
  obtain ⟨h1, h2, _⟩ := nLast_spec P p
  have hge : (nLast P p + 1) * (P.chunk + P.tagLen) ≤ j * (P.chunk + P.tagLen) :=
    Nat.mul_le_mul_right _ (by omega)
  apply List.take_of_length_le
  rw [sealS_length P C hTag]
  simp only [Nat.mul_add, Nat.add_mul] at hge ⊢
  omega

/-- the genuine stream of a plaintext that fills chunk 0, cut at ANY slot boundary `j ≥ 1` (inside
    or past the stream): the first `j` plaintext chunks -/
theorem fsAuth_cut_long (p : Bytes) (j : Nat) (hj : 1 ≤ j) (hp : P.chunk ≤ p.length) :
    fsAuth P C ((sealS P C p).take (j * (P.chunk + P.tagLen))) = p.take (j * P.chunk) := by
  by_cases hk : j ≤ nLast P p
  · have h := fsAuth_stop P C hTag p j hj hk [] (by simpa using openChunk_nil P C j)
    rwa [List.append_nil] at h
  · obtain ⟨_, h2, _⟩ := nLast_spec P p
    have hge : (nLast P p + 1) * P.chunk ≤ j * P.chunk := Nat.mul_le_mul_right _ (by omega)
    rw [Nat.add_mul, Nat.one_mul] at hge
    rw [sealS_take_all P C hTag p j (by omega), fsAuth_seal_exact P C hTag p,
      show P.chunk - p.length = 0 by omega, List.take_zero,
      List.take_of_length_le (l := p) (by omega)]
    simp [xorAt]

/-- **corruption = cut** at the encryption layer: `e` any `Unforged` byte string in place of
    `sealS P C p` whose first `chunk` bytes are genuine; `j` the first slot `≥ 1` of `e` that fails.
    Authenticated fail-safe decryption of `e` gives exactly what it gives on the genuine stream cut
    before slot `j`.  (When `p` is shorter than one chunk, that cut is the whole genuine stream.) -/
theorem fsAuth_corrupt_eq_cut (p e : Bytes) (hU : Unforged P C p e)
    (h0 : e.take P.chunk = (sealS P C p).take P.chunk) :
    fsAuth P C e =
      fsAuth P C ((sealS P C p).take (firstFail P C e (e.length + 1) 1 * (P.chunk + P.tagLen))) := by
  have hj := firstFail_ge P C e (e.length + 1) 1
  by_cases hp : P.chunk ≤ p.length
  · rw [fsAuth_unforged_long P C hTag p e hU h0 hp, fsAuth_cut_long P C hTag p _ hj hp]
  · have hc := P.hchunk
    have hn : nLast P p = 0 := by
      unfold nLast; exact Nat.div_eq_of_lt (by omega)
    rw [sealS_take_all P C hTag p _ (by omega)]
    exact fsAuth_unforged_short P C hTag p e hU h0 (by omega)

end

/-! ### which corruptions are `Unforged`: damage confined to slots that fail -/

/-- changing one byte changes one slot -/
theorem win_set_ne (P : Params) (l : Bytes) (i k : Nat) (v : UInt8)
    (h : i / (P.chunk + P.tagLen) ≠ k) : win P (l.set i v) k = win P l k := by
  have hT : 0 < P.chunk + P.tagLen := by have := P.hchunk; omega
  simp only [win]
  by_cases hlt : i / (P.chunk + P.tagLen) < k
  · rw [List.drop_set_of_lt ((Nat.div_lt_iff_lt_mul hT).1 hlt)]
  · have hk : k + 1 ≤ i / (P.chunk + P.tagLen) := by omega
    have hle := (Nat.le_div_iff_mul_le hT).1 hk
    rw [Nat.add_mul, Nat.one_mul] at hle
    rw [List.drop_set, if_neg (by omega), List.take_set_of_le (by omega)]

/-- a byte string whose slots are those of the genuine stream except for slots that do not verify
    is `Unforged` (the damaged slots may be anything that fails; the stream may also be cut, since
    an empty slot fails) -/
theorem unforged_of_slots (P : Params) (C : EncPrims)
    (hTag : ∀ i c, (C.tag i c).length = P.tagLen) (p e : Bytes)
    (h : ∀ k, win P e k = win P (sealS P C p) k ∨
      ∃ er, openChunk P C k (win P e k) = .error er) : Unforged P C p e := by
  intro k pt hop
  rcases h k with hk | ⟨er, hk⟩
  · rw [hk] at hop ⊢
    exact unforged_sealS P C hTag p k pt hop
  · rw [hk] at hop; cases hop

/-- one byte of the genuine stream replaced, the slot it lies in no longer verifying -/
theorem unforged_set (P : Params) (C : EncPrims)
    (hTag : ∀ i c, (C.tag i c).length = P.tagLen) (p : Bytes) (i : Nat) (v : UInt8) (er : Err)
    (hfail : openChunk P C (i / (P.chunk + P.tagLen))
      (win P ((sealS P C p).set i v) (i / (P.chunk + P.tagLen))) = .error er) :
    Unforged P C p ((sealS P C p).set i v) := by
  apply unforged_of_slots P C hTag
  intro k
  by_cases hk : i / (P.chunk + P.tagLen) = k
  · subst hk; exact Or.inr ⟨er, hfail⟩
  · exact Or.inl (win_set_ne P _ i k v hk)

/-! ### the stack -/

/-- in authenticated mode, two bodies on which the decryptor agrees are delivered alike by the
    whole fail-safe stack (encrypted configurations) -/
theorem failsafeDeliver_congr_auth (P : Params) (C : EncPrims) (K : Codec) (cfg : LayerCfg)
    (hcfg : cfg.encrypted = true) (e e' : Bytes) (h : fsAuth P C e = fsAuth P C e') :
    failsafeDeliver P C K cfg .authenticated e = failsafeDeliver P C K cfg .authenticated e' := by
  cases cfg with
  | none => simp [LayerCfg.encrypted] at hcfg
  | comp => simp [LayerCfg.encrypted] at hcfg
  | enc => simp only [failsafeDeliver, fsDec, h]
  | compEnc => simp only [failsafeDeliver, fsDec, h]

/-- the body of an encrypted configuration is the sealed stream of what encryption protects -/
theorem sealedBody_encrypted (P : Params) (C : EncPrims) (cfg : LayerCfg)
    (hcfg : cfg.encrypted = true) (S : Bytes) (cs : List Bytes) :
    sealedBody P C cfg S cs = sealS P C (encPlain P cfg S cs) := by
  cases cfg with
  | none => simp [LayerCfg.encrypted] at hcfg
  | comp => simp [LayerCfg.encrypted] at hcfg
  | enc => rfl
  | compEnc => rfl

end MlaModel

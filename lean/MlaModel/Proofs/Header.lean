/-
  Lemmas for C06: big-endian integers, header round trip, ECIES unwrap of a wrapped key.
-/
import MlaModel.Header
import MlaModel.Proofs.Gcm
namespace MlaModel

/-! ### big-endian integers -/

def unbe (b : Bytes) : Nat := b.foldl (fun acc x => acc * 256 + x.toNat) 0

theorem unbe_snoc (a : Bytes) (x : UInt8) : unbe (a ++ [x]) = unbe a * 256 + x.toNat := by
  simp [unbe, List.foldl_append]

@[simp] theorem beN_length (n v : Nat) : (beN n v).length = n := by
  induction n generalizing v with
  | zero => rfl
  | succ n ih => simp [beN, ih]

theorem unbe_beN (n v : Nat) : unbe (beN n v) = v % 256 ^ n := by
  induction n generalizing v with
  | zero => simp [beN, unbe, Nat.mod_one]
  | succ n ih =>
    have h : (v % 256).toUInt8.toNat = v % 256 := by simp [Nat.toUInt8, UInt8.toNat_ofNat']
    rw [beN, unbe_snoc, ih, h, Nat.pow_succ, Nat.mul_comm (256 ^ n) 256, Nat.mod_mul]
    omega

theorem be32_inj (i j : Nat) (hi : i < 2 ^ 32) (hj : j < 2 ^ 32) (h : be32 i = be32 j) : i = j := by
  have := congrArg unbe h
  simp only [be32, unbe_beN] at this
  have e : (256 : Nat) ^ 4 = 2 ^ 32 := by decide
  rw [e, Nat.mod_eq_of_lt hi, Nat.mod_eq_of_lt hj] at this
  exact this

/-- the chunk nonces are pairwise distinct as long as the counter fits its 32 bits -/
theorem nonce12_inj (n8 : Bytes) (i j : Nat) (hi : i < 2 ^ 32) (hj : j < 2 ^ 32)
    (h : nonce12 n8 i = nonce12 n8 j) : i = j :=
  be32_inj i j hi hj (List.append_cancel_left h)

theorem nonce12_length (n8 : Bytes) (i : Nat) : (nonce12 n8 i).length = n8.length + 4 := by
  simp [nonce12, be32]

/-! ### header round trip -/

theorem decKeys_encKeys (ks : List (Bytes × Bytes)) (rest : Bytes)
    (h : ∀ kt ∈ ks, kt.1.length = 32 ∧ kt.2.length = 16) :
    decKeys ks.length (encKeys ks ++ rest) = ks := by
  induction ks with
  | nil => rfl
  | cons kt ks ih =>
    obtain ⟨h1, h2⟩ := h kt (by simp)
    have hl : (kt.1 ++ kt.2).length = 48 := by simp [h1, h2]
    have e : encKeys (kt :: ks) ++ rest = kt.1 ++ (kt.2 ++ (encKeys ks ++ rest)) := by
      simp [encKeys, List.append_assoc]
    have e2 : encKeys (kt :: ks) ++ rest = (kt.1 ++ kt.2) ++ (encKeys ks ++ rest) := by
      simp [encKeys, List.append_assoc]
    simp only [List.length_cons, decKeys]
    rw [List.cons.injEq]
    refine ⟨?_, ?_⟩
    · rw [e, List.take_left' h1, List.drop_left' h1, List.take_left' h2]
    · rw [e2, List.drop_left' hl]
      exact ih (fun kt' hk => h kt' (by simp [hk]))

theorem encKeys_length (ks : List (Bytes × Bytes))
    (h : ∀ kt ∈ ks, kt.1.length = 32 ∧ kt.2.length = 16) : (encKeys ks).length = 48 * ks.length := by
  induction ks with
  | nil => rfl
  | cons kt ks ih =>
    obtain ⟨h1, h2⟩ := h kt (by simp)
    have := ih (fun kt' hk => h kt' (by simp [hk]))
    simp only [encKeys, List.map_cons, List.flatten_cons, List.length_append, List.length_cons] at this ⊢
    omega

theorem Header.decode_prefix (r : Bytes) :
    Header.decode (magic ++ le32 formatVersion ++ r) = Header.decodeConfig r := by
  have hm : takeExact 3 (magic ++ le32 formatVersion ++ r) = .ok (magic, le32 formatVersion ++ r) := by
    have := takeExact_append magic (le32 formatVersion ++ r)
    simpa [magic, List.append_assoc] using this
  have hv := readLe_leN 4 formatVersion r (by decide)
  unfold Header.decode
  rw [hm]
  simp only [ne_eq, not_true_eq_false, if_false]
  rw [show le32 formatVersion = leN 4 formatVersion from rfl, hv]
  simp

theorem Header.decode_encode (h : Header) (hwf : h.WF) (rest : Bytes) :
    Header.decode (h.encode ++ rest) = .ok (h, rest) := by
  obtain ⟨layers, enc⟩ := h
  obtain ⟨hl, he⟩ := hwf
  simp only at hl he
  have hly : (Nat.toUInt8 layers).toNat = layers := by
    simp [Nat.toUInt8, UInt8.toNat_ofNat']; omega
  cases enc with
  | none =>
    have : Header.encode ⟨layers, none⟩ ++ rest =
        magic ++ le32 formatVersion ++ (layers.toUInt8 :: 0 :: rest) := by
      simp [Header.encode, List.append_assoc]
    rw [this, Header.decode_prefix]
    simp [Header.decodeConfig, hly]
  | some e =>
    simp only at he
    obtain ⟨hp, hk, hn, hlim⟩ := he
    have hkl := encKeys_length e.keys hk
    have hcnt : e.keys.length < 256 ^ 8 := by
      have : bincodeLimit = 536870912 := by decide
      have : (256 : Nat) ^ 8 = 18446744073709551616 := by decide
      omega
    have : Header.encode ⟨layers, some e⟩ ++ rest =
        magic ++ le32 formatVersion ++ (layers.toUInt8 :: 1 ::
          (e.pub ++ (le64 e.keys.length ++ (encKeys e.keys ++ (e.nonce ++ rest))))) := by
      simp [Header.encode, EncHdr.encode, List.append_assoc]
    rw [this, Header.decode_prefix]
    generalize hbd : e.pub ++ (le64 e.keys.length ++ (encKeys e.keys ++ (e.nonce ++ rest))) = bd
    have h1 : (1 : UInt8) ≠ 0 := by decide
    simp only [Header.decodeConfig, h1, if_false, if_true]
    have hlen : ¬ bd.length < 40 := by
      rw [← hbd]; simp [hp, le64]; omega
    have hn8 : unle ((bd.drop 32).take 8) = e.keys.length := by
      rw [← hbd, List.drop_left' hp, le64, List.take_left' (leN_length 8 _), unle_leN_of_lt 8 _ hcnt]
    have hd40 : bd.drop 40 = encKeys e.keys ++ (e.nonce ++ rest) := by
      have : (e.pub ++ le64 e.keys.length).length = 40 := by simp [hp, le64]
      rw [← hbd, ← List.append_assoc, List.drop_left' this]
    have hp32 : bd.take 32 = e.pub := by rw [← hbd, List.take_left' hp]
    rw [if_neg hlen, hn8, if_neg (by omega), hd40, hp32]
    have hblen : ¬ (encKeys e.keys ++ (e.nonce ++ rest)).length < 48 * e.keys.length + 8 := by
      simp [hkl, hn]
    rw [if_neg hblen, decKeys_encKeys e.keys _ hk, List.drop_left' hkl, List.take_left' hn]
    have : (encKeys e.keys ++ e.nonce).length = 48 * e.keys.length + 8 := by simp [hkl, hn]
    rw [← List.append_assoc, List.drop_left' this, hly]

/-! ### ECIES -/

/-- `decrypt` of what `encrypt` + `into_tag` produced under the same primitives gives back the
    message and the same tag -/
theorem Gcm.decrypt_encrypt (G : GcmPrims) (aadLen : Nat) (m : Bytes) :
    let r := Gcm.encrypt G (Gcm.init G aadLen) m
    (Gcm.decrypt G (Gcm.init G aadLen) r.2).2 = (m, Gcm.intoTag G r.1) := by
  obtain ⟨hi, hc⟩ := Gcm.encrypt_inv G aadLen (Gcm.init G aadLen) [] m (Gcm.inv_init G aadLen)
  simp only [List.nil_append, List.length_nil] at hi hc
  simp only
  rw [Gcm.intoTag_inv G aadLen _ m hi, hc]
  simp [Gcm.decrypt, Gcm.init, Gcm.tagOf, xorAt_invol]

end MlaModel

namespace MlaModel

/-- the loop of `retrieve_key` finds the key at position `i` if entry `i` verifies and decrypts to
    it, and every earlier entry that verifies decrypts to it too -/
theorem Ecies.tryKeys_found (G : GcmPrims) (key : Bytes) :
    ∀ (l : List (Bytes × Bytes)) (i : Nat) (hi : i < l.length),
      ((Gcm.decrypt G (Gcm.init G 0) l[i].1).2.2 = l[i].2 ∧
       (Gcm.decrypt G (Gcm.init G 0) l[i].1).2.1 = key) →
      (∀ j (hj : j < l.length), j < i →
        (Gcm.decrypt G (Gcm.init G 0) l[j].1).2.2 = l[j].2 →
        (Gcm.decrypt G (Gcm.init G 0) l[j].1).2.1 = key) →
      Ecies.tryKeys G l = some key := by
  intro l
  induction l with
  | nil => intro i hi; simp at hi
  | cons kt l ih =>
    intro i hi hgood hbefore
    obtain ⟨ct, tag⟩ := kt
    cases i with
    | zero =>
      simp only [List.getElem_cons_zero] at hgood
      simp [Ecies.tryKeys, hgood.1, hgood.2]
    | succ i =>
      simp only [Ecies.tryKeys]
      split
      · rename_i hv
        have := hbefore 0 (by simp) (by omega) (by simpa using hv)
        simpa using this
      · apply ih i (by simpa using hi)
        · simpa using hgood
        · intro j hj hji hv
          have := hbefore (j + 1) (by simpa using hj) (by omega) (by simpa using hv)
          simpa using this

end MlaModel

/-
  No panic in the layer readers (raw, encryption, compression), from ANY state, over any inner
  stream that never panics; hence for any stack of layers and for any sequence of operations —
  in particular after an operation has answered an error.
-/
import MlaModel.Proofs.NoPanic
namespace MlaModel

theorem NoPanic.retype {α β : Type} {e : Err} (h : NoPanic (.error e : Except Err α)) :
    NoPanic (.error e : Except Err β) := NoPanic.err (h e rfl)

theorem NoPanic.of_pair {α β γ : Type} {x : γ × Except Err α} {r : γ} {e : Err}
    (h : NoPanic x.2) (hx : x = (r, .error e)) : NoPanic (.error e : Except Err β) := by
  subst hx; exact h.retype

/-! ### raw layer -/

instance {ι : Type} [Stream ι] [StreamNoPanic ι] : StreamNoPanic (RawR ι) where
  seek r w := by
    cases w <;> simp only [Stream.seek] <;> np
  read r n := by simp only [Stream.read]; np

/-! ### encryption layer reader -/

section
variable {ι : Type} [Stream ι] [StreamNoPanic ι] (P : Params) (C : EncPrims)

theorem openChunk_noPanic (i : Nat) (dt : Bytes) : NoPanic (openChunk P C i dt) := by
  unfold openChunk; np

theorem EncR.load_noPanic (r : EncR ι) : NoPanic (EncR.load P C r).2 := by
  unfold EncR.load
  repeat (first | np_leaf | exact (openChunk_noPanic P C _ _).of_err (by assumption) | split | dsimp only)

/-- **`EncryptionLayerReader::read` never panics**, from any state (any cache, position, chunk
    number, `failed` flag) -/
theorem EncR.readFull_noPanic (r : EncR ι) (n : Nat) : NoPanic (EncR.readFull P C r n).2 := by
  unfold EncR.readFull
  split
  · np
  · split
    · split
      · rename_i r' e he
        exact (EncR.load_noPanic P C { r with chunkNo := r.chunkNo + 1 }).of_pair he
      · exact NoPanic.ok _
      · exact NoPanic.ok _
    · exact NoPanic.ok _

theorem EncR.seekStart_noPanic (r : EncR ι) (pos : Nat) : NoPanic (EncR.seekStart P C r pos).2 := by
  unfold EncR.seekStart
  dsimp only
  split
  · rename_i e he
    exact (StreamNoPanic.seek _ _).of_err he
  · rename_i i _ _
    split
    · exact NoPanic.err rfl
    · split
      · rename_i r' e he
        exact (EncR.load_noPanic P C _).of_pair he
      · exact NoPanic.ok _

theorem EncR.seekFull_noPanic (r : EncR ι) (w : SeekFrom) : NoPanic (EncR.seekFull P C r w).2 := by
  cases w with
  | start pos => exact EncR.seekStart_noPanic P C r pos
  | current d =>
    simp only [EncR.seekFull]
    repeat (first | np_leaf | exact EncR.seekStart_noPanic P C _ _ | split | dsimp only)
  | fromEnd d =>
    simp only [EncR.seekFull]
    repeat (first | np_leaf | exact EncR.seekStart_noPanic P C _ _ | split | dsimp only)

theorem EncR.init_noPanic (inner : ι) : NoPanic (EncR.init P C inner).2 :=
  EncR.seekStart_noPanic P C _ 0

/-- the encryption reader as a stream never panics: layers stack -/
instance : StreamNoPanic (EncRd P C ι) where
  seek s w := by
    have := EncR.seekFull_noPanic P C s.r w
    simp only [Stream.seek]
    split
    · exact NoPanic.ok _
    · rename_i r' e he
      exact this.of_pair he
  read s n := by
    have := EncR.readFull_noPanic P C s.r n
    simp only [Stream.read]
    split
    · exact NoPanic.ok _
    · rename_i r' e he
      exact this.of_pair he

end

/-! ### compression layer reader -/

section
variable {ι : Type} [Stream ι] [StreamNoPanic ι] (P : Params) (K : Codec)

theorem CompR.init_noPanic (inner : ι) : NoPanic (CompR.init inner) := by
  unfold CompR.init; np

theorem CompR.enter_noPanic (r : CompR ι) (z : Sizes) (upos : Nat) :
    NoPanic (CompR.enter P K r z upos) := by
  unfold CompR.enter; np

omit [StreamNoPanic ι] in
/-- a block entered below `maxPos` is not empty: for a non-last block its size is `block > 0`; the
    last block with `last = 0` starts at `maxPos` -/
theorem CompR.enter_usize_pos {r : CompR ι} {z : Sizes} {upos : Nat} {i : ι} {usize : Nat}
    {plain : Bytes} (h : CompR.enter P K r z upos = .ok (i, usize, plain)) : 0 < usize := by
  unfold CompR.enter at h
  split at h
  · cases h
  · rename_i hmod
    split at h
    · cases h
    · rename_i hlt
      have hlt' : upos < z.maxPos P := by simpa using hlt
      have husz : 0 < z.usizeAt P (upos / P.block) := by
        unfold Sizes.usizeAt
        split
        · exact P.hblock
        · rename_i hk
          unfold Sizes.maxPos at hlt'
          have hb := P.hblock
          -- `last = 0` would put `upos` in a non-last block
          apply Nat.pos_of_ne_zero
          intro h0
          rw [h0, Nat.add_zero] at hlt'
          have : upos / P.block < z.csizes.length - 1 :=
            (Nat.div_lt_iff_lt_mul hb).2 hlt'
          generalize upos / P.block = q at *
          omega
      dsimp only at h
      repeat' (first | (simp at h; done) | split at h)
      all_goals
        simp only [Except.ok.injEq, Prod.mk.injEq] at h
        rw [← h.2.1]; exact husz

/-- what the state needs of the fuel -/
def CRSt.need : CRSt → Nat
  | .empty => 1
  | .ready => 2
  | .inData read usize _ => if read = usize then 3 else 1

theorem CompR.readFull_noPanic_aux (rd : Nat → Nat) :
    ∀ (fuel : Nat) (r : CompR ι) (n : Nat), r.st.need ≤ fuel →
      NoPanic (CompR.readFull P K rd fuel r n).2 := by
  intro fuel
  induction fuel with
  | zero =>
    intro r n h
    cases hst : r.st <;> simp [hst, CRSt.need] at h
    split at h <;> omega
  | succ fuel ih =>
    intro r n h
    unfold CompR.readFull
    split
    · exact NoPanic.err rfl
    · rename_i z hz
      split
      · exact NoPanic.ok _
      · split
        · exact NoPanic.err rfl
        · -- ready
          rename_i hst
          rw [hst] at h
          simp only [CRSt.need] at h
          split
          · rename_i e he
            exact (CompR.enter_noPanic P K r z r.upos).of_err he
          · rename_i i usize plain he
            have hpos := CompR.enter_usize_pos P K he
            apply ih
            have : ¬ (0 = usize) := by omega
            simp only [CRSt.need, this, if_false]
            omega
        · -- inData
          rename_i read usize plain hst
          rw [hst] at h
          split
          · exact NoPanic.err rfl
          · split
            · rename_i heq
              simp only [CRSt.need, heq, if_true] at h
              apply ih
              simp only [CRSt.need]; omega
            · exact NoPanic.ok _

/-- **`CompressionLayerReader::read` never panics**, from ANY state (any sizes table, any position,
    any block state): the fuel 3 is adequate. -/
theorem CompR.readFull_noPanic (rd : Nat → Nat) (r : CompR ι) (n : Nat) :
    NoPanic (CompR.readFull P K rd 3 r n).2 := by
  apply CompR.readFull_noPanic_aux
  cases r.st <;> simp only [CRSt.need]
  · omega
  · split <;> omega
  · omega

theorem CompR.seekStart_noPanic (r : CompR ι) (pos : Nat) : NoPanic (CompR.seekStart P K r pos).2 := by
  unfold CompR.seekStart
  repeat (first
    | np_leaf
    | exact (CompR.enter_noPanic P K _ _ _).of_err (by assumption)
    | split
    | dsimp only)

theorem CompR.seekFull_noPanic (r : CompR ι) (w : SeekFrom) : NoPanic (CompR.seekFull P K r w).2 := by
  cases w with
  | start pos => exact CompR.seekStart_noPanic P K r pos
  | current d =>
    simp only [CompR.seekFull]
    repeat (first | np_leaf | exact CompR.seekStart_noPanic P K _ _ | split | dsimp only)
  | fromEnd d =>
    simp only [CompR.seekFull]
    repeat (first | np_leaf | exact CompR.seekStart_noPanic P K _ _ | split | dsimp only)

instance (rd : Nat → Nat) : StreamNoPanic (CompRd P K rd ι) where
  seek s w := by
    have := CompR.seekFull_noPanic P K s.r w
    simp only [Stream.seek]
    split
    · exact NoPanic.ok _
    · rename_i r' e he
      exact this.of_pair he
  read s n := by
    have := CompR.readFull_noPanic P K rd s.r n
    simp only [Stream.read]
    split
    · exact NoPanic.ok _
    · rename_i r' e he
      exact this.of_pair he

end

end MlaModel

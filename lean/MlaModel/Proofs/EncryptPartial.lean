/-
  The encryption reader over ALTERED bytes of the right length is a sound partial stream.

  Setting: the reader of `MlaModel/Encrypt.lean` (`EncRd P C ι`) over an inner stream `ι` that is
  itself a sound partial reader (`IsSoundPartial InvI absI e`: an in-memory cursor, the raw layer
  over it, …) of a byte string `e` with
    * `Unforged P C p e`                       (integrity, Proofs/EncryptTamper.lean),
    * `e.length = (sealS P C p).length`        (the alteration keeps the length — what is excluded is
                                                truncation/extension, known finding D14).
  Then (`EncRd.isSoundPartial`) the reader is `IsSoundPartial` over the plaintext `p`: every `read`
  that answers `.ok` returns the genuine bytes at the position, at least one unless the position is
  at the end of `p`; every `seek` that answers `.ok q` is at `q`, the position a cursor over `p`
  answers (for `End(d)`: `|p| + d` — with equal lengths the end position is the genuine one).
  `EncRd.isDead`: the states with `failed = true` (what a failed read leaves, `read_error_dead`, and
  what a failed in-range seek leaves, `seek_error_dead`) answer every read with an error, and an
  absolute seek that succeeds from them lands on a good state.
  `EncR.init_partial`: `new` + `initialize` either fails or yields a good state at position 0.
-/
import MlaModel.Proofs.PartialStream
import MlaModel.Proofs.EncryptTamper
namespace MlaModel

/-- `take(limit).read_to_end` over a sound partial stream, when it succeeds: exactly the next `limit`
    bytes, or all that remain -/
theorem readUpTo_partial {σ : Type} [Stream σ] {Inv : σ → Prop} {abs : σ → Nat} {data : Bytes}
    (hP : IsSoundPartial Inv abs data) :
    ∀ (fuel : Nat) (s s' : σ) (limit : Nat) (b : Bytes), Inv s → limit < fuel →
      readUpTo fuel s limit = .ok (s', b) →
      Inv s' ∧ b = (data.drop (abs s)).take limit ∧ abs s' = abs s + b.length := by
  intro fuel
  induction fuel with
  | zero => intro s s' limit b _ h; omega
  | succ fuel ih =>
    intro s s' limit b hs hf h
    unfold readUpTo at h
    by_cases hl : limit = 0
    · subst hl
      simp only [if_true, Except.ok.injEq, Prod.mk.injEq] at h
      obtain ⟨rfl, rfl⟩ := h
      exact ⟨hs, by simp, by simp⟩
    · simp only [hl, if_false] at h
      cases hr : Stream.read s limit with
      | error e => rw [hr] at h; cases h
      | ok p1 =>
        obtain ⟨s1, out⟩ := p1
        rw [hr] at h
        simp only at h
        obtain ⟨hs1, hout, hle, hpos, ha1⟩ := hP.read_sound _ _ _ _ hs hr
        by_cases ho : out = []
        · subst ho
          simp only [if_true, Except.ok.injEq, Prod.mk.injEq] at h
          obtain ⟨rfl, rfl⟩ := h
          have hend : ¬ (abs s < data.length) := by
            intro hlt
            have := hpos (by omega) hlt
            simp at this
          refine ⟨hs1, ?_, by simpa using ha1⟩
          rw [List.drop_eq_nil_of_le (by omega)]; simp
        · simp only [ho, if_false] at h
          have hop : 0 < out.length := List.length_pos_iff.mpr ho
          cases hr2 : readUpTo fuel s1 (limit - out.length) with
          | error e => rw [hr2] at h; cases h
          | ok p2 =>
            obtain ⟨s2, rest⟩ := p2
            rw [hr2] at h
            simp only [Except.ok.injEq, Prod.mk.injEq] at h
            obtain ⟨rfl, rfl⟩ := h
            obtain ⟨hs2, hrest, ha2⟩ := ih _ _ _ _ hs1 (by omega) hr2
            refine ⟨hs2, ?_, by rw [ha2, ha1, List.length_append]; omega⟩
            rw [hrest, ha1]
            have h1 : data.drop (abs s + out.length) = (data.drop (abs s)).drop out.length := by
              rw [List.drop_drop]
            rw [h1]
            generalize data.drop (abs s) = d at *
            have : limit = out.length + (limit - out.length) := by omega
            conv => rhs; rw [this, List.take_add]
            rw [← hout]

/-- The invariant of the encryption reader over altered bytes of the right length, between calls
    that answered `.ok`: the cache IS the genuine plaintext of chunk `chunkNo` (empty past the end
    of `p`); when it is a full chunk the inner stream sits right after its slot. -/
structure EncRd.SInv {ι : Type} (P : Params) (C : EncPrims) (p : Bytes) (InvI : ι → Prop)
    (absI : ι → Nat) (s : EncRd P C ι) : Prop where
  inner : InvI s.r.inner
  cpos : s.r.cpos ≤ P.chunk
  cache : s.r.cache = ptChunk P p s.r.chunkNo
  ipos : s.r.cache.length = P.chunk →
    absI s.r.inner = (s.r.chunkNo + 1) * (P.chunk + P.tagLen)
  full : s.r.cpos = P.chunk → s.r.cache.length = P.chunk
  nofail : s.r.failed = false

/-- what a failed call leaves behind: the `failed` flag is set (the inner stream is fine) -/
def EncRd.DeadSt {ι : Type} (P : Params) (C : EncPrims) (InvI : ι → Prop) (s : EncRd P C ι) :
    Prop :=
  InvI s.r.inner ∧ s.r.failed = true

theorem EncR.fromCache_length {ι : Type} (P : Params) (r : EncR ι) (n : Nat) :
    (EncR.fromCache P r n).2.length = min (min (P.chunk - r.cpos) n) (r.cache.length - r.cpos) := by
  simp [EncR.fromCache]

section
variable {ι : Type} [Stream ι] (P : Params) (C : EncPrims)
  (htag : ∀ i c, (C.tag i c).length = P.tagLen)
  {InvI : ι → Prop} {absI : ι → Nat} (p e : Bytes)
  (hF : IsSoundPartial InvI absI e) (hU : Unforged P C p e)
  (hlen : e.length = (sealS P C p).length)
include htag hF hU hlen

omit [Stream ι] htag hF hU hlen in
/-- the plaintext ends at or before chunk `k` when `k` is past the last chunk -/
theorem ptChunk_nil_of_nLast_lt' (k : Nat) (hk : nLast P p < k) : ptChunk P p k = [] := by
  obtain ⟨h1, h2, h3⟩ := nLast_spec P p
  have : (nLast P p + 1) * P.chunk ≤ k * P.chunk := Nat.mul_le_mul_right _ hk
  rw [Nat.add_mul] at this
  rw [ptChunk, List.drop_eq_nil_of_le (by omega)]; simp

/-- `load` with the inner stream at slot `chunkNo`: nothing left (only past the last chunk), or an
    error with the cache cleared, or the GENUINE chunk `chunkNo` cached. -/
theorem EncR.load_partial (r : EncR ι) (hin : InvI r.inner)
    (hpos : absI r.inner = r.chunkNo * (P.chunk + P.tagLen)) :
    ∃ i, InvI i ∧
      ((nLast P p < r.chunkNo ∧
         EncR.load P C r = ({ r with inner := i, cache := [], cpos := 0 }, .ok false)) ∨
       (∃ er, EncR.load P C r = ({ r with inner := i, cache := [] }, .error er)) ∨
       (EncR.load P C r =
          ({ r with inner := i, cache := ptChunk P p r.chunkNo, cpos := 0 }, .ok true) ∧
        ((ptChunk P p r.chunkNo).length = P.chunk →
          absI i = (r.chunkNo + 1) * (P.chunk + P.tagLen)))) := by
  have hc := P.hchunk
  have ht := P.htag
  cases hr : readUpTo (P.chunk + P.tagLen + 1) r.inner (P.chunk + P.tagLen) with
  | error er =>
    refine ⟨r.inner, hin, .inr (.inl ⟨er, ?_⟩)⟩
    unfold EncR.load
    rw [hr]
  | ok p1 =>
    obtain ⟨i, dt⟩ := p1
    obtain ⟨hi, hdt, ha⟩ := readUpTo_partial hF _ _ _ _ _ hin (by omega) hr
    rw [hpos] at hdt ha
    have hw : dt = win P e r.chunkNo := hdt
    refine ⟨i, hi, ?_⟩
    by_cases hz : dt.length = 0
    · left
      refine ⟨?_, ?_⟩
      · -- nothing at slot `chunkNo` of `e`, and `e` is as long as the genuine stream
        have hel : e.length ≤ r.chunkNo * (P.chunk + P.tagLen) := by
          have := congrArg List.length hdt
          simp only [List.length_take, List.length_drop] at this
          omega
        obtain ⟨h1, h2, h3⟩ := nLast_spec P p
        have hsl := sealS_length P C htag p
        by_cases hk : r.chunkNo ≤ nLast P p
        · exfalso
          have a1 := Nat.mul_le_mul_right (P.chunk + P.tagLen) hk
          simp only [Nat.mul_add, Nat.add_mul] at a1 hel hsl
          omega
        · omega
      · unfold EncR.load
        rw [hr]
        simp only [hz, if_true]
    · right
      cases hop : openChunk P C r.chunkNo dt with
      | error er =>
        left
        refine ⟨er, ?_⟩
        unfold EncR.load
        rw [hr]
        simp only [hz, if_false, hop]
      | ok pt =>
        right
        have hop0 := hop
        rw [hw] at hop
        obtain ⟨hkn, hsc⟩ := hU r.chunkNo pt hop
        have hpt : pt = ptChunk P p r.chunkNo := by
          rw [hsc, openChunk_scChunk P C htag] at hop
          exact (Except.ok.inj hop).symm
        subst hpt
        refine ⟨?_, ?_⟩
        · unfold EncR.load
          rw [hr]
          simp only [hz, if_false, hop0]
        · intro hfull
          rw [ha, hw, hsc, scChunk_length P C htag, ← ptChunk_length, hfull, Nat.add_mul]
          omega

/-- `readFull` from a good state -/
theorem EncR.readFull_partial (r : EncR ι) (n : Nat) (h : EncRd.SInv P C p InvI absI ⟨r⟩) :
    (∀ r' out, EncR.readFull P C r n = (r', .ok out) →
      EncRd.SInv P C p InvI absI ⟨r'⟩ ∧
      out = (p.drop (r.chunkNo * P.chunk + r.cpos)).take out.length ∧ out.length ≤ n ∧
      (0 < n → r.chunkNo * P.chunk + r.cpos < p.length → 0 < out.length) ∧
      r'.chunkNo * P.chunk + r'.cpos = r.chunkNo * P.chunk + r.cpos + out.length) ∧
    (∀ r' er, EncR.readFull P C r n = (r', .error er) →
      EncRd.DeadSt P C InvI ⟨r'⟩) := by
  have hc := P.hchunk
  obtain ⟨hin, hcp, hcache, hipos, hfull, hnf⟩ := h
  simp only at hin hcp hcache hipos hfull hnf
  have hnf' : ¬ (r.failed = true) := by rw [hnf]; simp
  have hcl : r.cache.length = min P.chunk (p.length - r.chunkNo * P.chunk) := by
    rw [hcache, ptChunk_length]
  by_cases hz : P.chunk - r.cpos = 0
  · have hcpe : r.cpos = P.chunk := by omega
    have hfl := hfull hcpe
    obtain ⟨i, hi, hl⟩ := EncR.load_partial P C htag p e hF hU hlen { r with chunkNo := r.chunkNo + 1 }
      hin (hipos hfl)
    rcases hl with ⟨hlast, hl⟩ | ⟨er, hl⟩ | ⟨hl, hip⟩
    · have hrf : EncR.readFull P C r n =
          ({ r with chunkNo := r.chunkNo + 1, inner := i, cache := [], cpos := 0 }, .ok []) := by
        unfold EncR.readFull
        rw [if_neg hnf', if_pos hz, hl]
      have hnil := ptChunk_nil_of_nLast_lt' P p (r.chunkNo + 1) hlast
      have hpl : p.length ≤ (r.chunkNo + 1) * P.chunk := by
        have := congrArg List.length hnil
        rw [ptChunk_length] at this
        simp only [List.length_nil] at this
        omega
      rw [hrf]
      refine ⟨?_, fun r' er he => by simp at he⟩
      intro r' out he
      simp only [Prod.mk.injEq, Except.ok.injEq] at he
      obtain ⟨rfl, rfl⟩ := he
      refine ⟨⟨hi, Nat.zero_le _, hnil.symm, ?_, ?_, hnf⟩, by simp, by simp, ?_, ?_⟩
      · intro h0; simp at h0; omega
      · intro h0; simp at h0; omega
      · intro _ hlt; rw [Nat.add_mul] at hpl; omega
      · simp only [List.length_nil, Nat.add_mul]; omega
    · have hrf : EncR.readFull P C r n =
          ({ r with chunkNo := r.chunkNo + 1, inner := i, cache := [], failed := true },
            .error er) := by
        unfold EncR.readFull
        rw [if_neg hnf', if_pos hz, hl]
      rw [hrf]
      refine ⟨fun r' out he => by simp at he, ?_⟩
      intro r' er' he
      simp only [Prod.mk.injEq] at he
      rw [← he.1]
      exact ⟨hi, rfl⟩
    · simp only at hip
      obtain ⟨r2, hr2⟩ : ∃ r2 : EncR ι,
          EncR.mk i (ptChunk P p (r.chunkNo + 1)) 0 (r.chunkNo + 1) r.failed = r2 := ⟨_, rfl⟩
      have hrf : EncR.readFull P C r n =
          ((EncR.fromCache P r2 n).1, .ok (EncR.fromCache P r2 n).2) := by
        unfold EncR.readFull
        rw [if_neg hnf', if_pos hz, hl, ← hr2]
      have e1 : r2.inner = i := by rw [← hr2]
      have e2 : r2.cache = ptChunk P p (r.chunkNo + 1) := by rw [← hr2]
      have e3 : r2.cpos = 0 := by rw [← hr2]
      have e4 : r2.chunkNo = r.chunkNo + 1 := by rw [← hr2]
      have e5 : r2.failed = false := by rw [← hr2]; exact hnf
      obtain ⟨s1, s2, s3, s4, s5⟩ := EncR.fromCache_sound P p r2 n (by rw [e2, e4]; exact .inr rfl)
      have hol := EncR.fromCache_length P r2 n
      have hcl2 : r2.cache.length = min P.chunk (p.length - (r.chunkNo + 1) * P.chunk) := by
        rw [e2, ptChunk_length]
      rw [hrf]
      refine ⟨?_, fun r' er he => by simp at he⟩
      intro r' out he
      simp only [Prod.mk.injEq, Except.ok.injEq] at he
      obtain ⟨rfl, rfl⟩ := he
      refine ⟨⟨?_, ?_, ?_, ?_, ?_, ?_⟩, ?_, s2, ?_, ?_⟩
      · simp only [EncR.fromCache_inner, e1]; exact hi
      · simp only [EncR.fromCache_cpos, e3]; omega
      · simp only [EncR.fromCache_cache, EncR.fromCache_chunkNo, e2, e4]
      · simp only [EncR.fromCache_cache, EncR.fromCache_chunkNo, EncR.fromCache_inner, e1, e2, e4]
        exact hip
      · simp only [EncR.fromCache_cache, EncR.fromCache_cpos, e3]
        intro h0; omega
      · simp only [EncR.fromCache_failed, e5]
      · rw [e4, e3] at s1
        have : (r.chunkNo + 1) * P.chunk + 0 = r.chunkNo * P.chunk + r.cpos := by
          rw [Nat.add_mul]; omega
        rw [← this]; exact s1
      · intro hn hlt
        rw [hol, e3, hcl2]
        rw [Nat.add_mul] at *
        omega
      · simp only [EncR.fromCache_chunkNo, EncR.fromCache_cpos, e3, e4, Nat.add_mul]; omega
  · have hrf : EncR.readFull P C r n =
        ((EncR.fromCache P r n).1, .ok (EncR.fromCache P r n).2) := by
      unfold EncR.readFull
      rw [if_neg hnf', if_neg hz]
    obtain ⟨s1, s2, s3, s4, s5⟩ := EncR.fromCache_sound P p r n (.inr (by rw [hcache]; rfl))
    have hol := EncR.fromCache_length P r n
    rw [hrf]
    refine ⟨?_, fun r' er he => by simp at he⟩
    intro r' out he
    simp only [Prod.mk.injEq, Except.ok.injEq] at he
    obtain ⟨rfl, rfl⟩ := he
    refine ⟨⟨?_, ?_, ?_, ?_, ?_, ?_⟩, s1, s2, ?_, ?_⟩
    · simpa using hin
    · simp only [EncR.fromCache_cpos]; omega
    · simpa using hcache
    · simpa using hipos
    · simp only [EncR.fromCache_cache, EncR.fromCache_cpos]
      intro h0; omega
    · simpa using hnf
    · intro hn hlt
      rw [hol, hcl]
      omega
    · simp only [EncR.fromCache_chunkNo, EncR.fromCache_cpos]; omega

/-- `seekStart` from ANY state whose inner stream is fine (good, failed, fresh): an answer `.ok q`
    means a good state at position `q = pos`; an error, for a position whose chunk index fits a u32
    and an inner stream that accepts the seek, leaves a failed state. -/
theorem EncR.seekStart_partial (r : EncR ι) (pos : Nat) (hin : InvI r.inner) :
    (∀ r' q, EncR.seekStart P C r pos = (r', .ok q) →
      EncRd.SInv P C p InvI absI ⟨r'⟩ ∧ q = pos ∧ r'.chunkNo * P.chunk + r'.cpos = pos) ∧
    (∀ r' er, EncR.seekStart P C r pos = (r', .error er) → pos / P.chunk < U32 →
      (∃ x, Stream.seek r.inner (.start (pos / P.chunk * (P.chunk + P.tagLen))) = .ok x) →
      EncRd.DeadSt P C InvI ⟨r'⟩) := by
  have hc := P.hchunk
  have ht := P.htag
  have hT : 0 < P.chunk + P.tagLen := by omega
  have hrm : pos % P.chunk < P.chunk := Nat.mod_lt _ hc
  have hdm : pos / P.chunk * P.chunk + pos % P.chunk = pos := by
    rw [Nat.mul_comm]; exact Nat.div_add_mod pos P.chunk
  generalize hq : pos / P.chunk = q at *
  generalize hm : pos % P.chunk = rm at *
  have e1 : (q * (P.chunk + P.tagLen) + rm) / (P.chunk + P.tagLen) = q := by
    rw [Nat.mul_comm, Nat.mul_add_div hT, Nat.div_eq_of_lt (by omega)]; rfl
  have e2 : (q * (P.chunk + P.tagLen) + rm) % (P.chunk + P.tagLen) = rm := by
    rw [Nat.mul_comm, Nat.mul_add_mod, Nat.mod_eq_of_lt (by omega)]
  cases hs : Stream.seek r.inner (.start (q * (P.chunk + P.tagLen))) with
  | error er0 =>
    have hrf : EncR.seekStart P C r pos = (r, .error er0) := by
      unfold EncR.seekStart
      simp only [hq, hm, e1, hs]
    rw [hrf]
    refine ⟨fun r' q' he => by simp at he, ?_⟩
    intro r' er he _ ⟨x, hx⟩
    cases hx
  | ok p1 =>
    obtain ⟨i, q0⟩ := p1
    obtain ⟨hi, ha, hq0⟩ := hF.seek_sound _ _ _ _ hin hs
    simp only at hq0
    rw [hq0] at ha
    by_cases hu : U32 ≤ q
    · have hrf : EncR.seekStart P C r pos = ({ r with inner := i }, .error .io) := by
        unfold EncR.seekStart
        simp only [hq, hm, e1, hs, if_pos hu]
      rw [hrf]
      refine ⟨fun r' q' he => by simp at he, ?_⟩
      intro r' er he hlt _
      omega
    · obtain ⟨i', hi', hl⟩ := EncR.load_partial P C htag p e hF hU hlen
        { r with inner := i, chunkNo := q } hi ha
      rcases hl with ⟨hlast, hl⟩ | ⟨er, hl⟩ | ⟨hl, hip⟩
      · have hrf : EncR.seekStart P C r pos = (⟨i', [], rm, q, false⟩, .ok pos) := by
          unfold EncR.seekStart
          simp only [hq, hm, e1, e2, hs, if_neg hu, hl]
        have hnil := ptChunk_nil_of_nLast_lt' P p q hlast
        rw [hrf]
        refine ⟨?_, fun r' er he => by simp at he⟩
        intro r' q' he
        simp only [Prod.mk.injEq, Except.ok.injEq] at he
        obtain ⟨rfl, rfl⟩ := he
        refine ⟨⟨hi', Nat.le_of_lt hrm, hnil.symm, ?_, ?_, rfl⟩, rfl, hdm⟩
        · intro h0; simp at h0; omega
        · intro h0; simp only at h0; omega
      · have hrf : EncR.seekStart P C r pos = (⟨i', [], r.cpos, q, true⟩, .error er) := by
          unfold EncR.seekStart
          simp only [hq, hm, e1, hs, if_neg hu, hl]
        rw [hrf]
        refine ⟨fun r' q' he => by simp at he, ?_⟩
        intro r' er' he _ _
        simp only [Prod.mk.injEq] at he
        rw [← he.1]
        exact ⟨hi', rfl⟩
      · have hrf : EncR.seekStart P C r pos = (⟨i', ptChunk P p q, rm, q, false⟩, .ok pos) := by
          unfold EncR.seekStart
          simp only [hq, hm, e1, e2, hs, if_neg hu, hl]
        rw [hrf]
        refine ⟨?_, fun r' er he => by simp at he⟩
        intro r' q' he
        simp only [Prod.mk.injEq, Except.ok.injEq] at he
        obtain ⟨rfl, rfl⟩ := he
        refine ⟨⟨hi', Nat.le_of_lt hrm, rfl, hip, ?_, rfl⟩, rfl, hdm⟩
        intro h0; simp only at h0; omega

/-- `seekFull` with an absolute target, from ANY state whose inner stream is fine -/
theorem EncR.seekFull_abs_partial (r : EncR ι) (hin : InvI r.inner) :
    (∀ n r' q, EncR.seekFull P C r (.start n) = (r', .ok q) →
      EncRd.SInv P C p InvI absI ⟨r'⟩ ∧ r'.chunkNo * P.chunk + r'.cpos = q ∧ q = n) ∧
    (∀ d r' q, EncR.seekFull P C r (.fromEnd d) = (r', .ok q) →
      EncRd.SInv P C p InvI absI ⟨r'⟩ ∧ r'.chunkNo * P.chunk + r'.cpos = q ∧
      q = ((p.length : Int) + d).toNat) := by
  refine ⟨?_, ?_⟩
  · intro n r' q he
    obtain ⟨a, b, c⟩ := (EncR.seekStart_partial P C htag p e hF hU hlen r n hin).1 r' q he
    exact ⟨a, by rw [b]; exact c, b⟩
  · intro d r' q he
    by_cases hd : 0 < d
    · simp [EncR.seekFull, hd] at he
    · cases hs : Stream.seek r.inner (.fromEnd 0) with
      | error er =>
        simp [EncR.seekFull, hd, hs] at he
      | ok p1 =>
        obtain ⟨i, endInner⟩ := p1
        obtain ⟨hi, _, hq0⟩ := hF.seek_sound _ _ _ _ hin hs
        simp only at hq0
        have hend : endInner = (sealS P C p).length := by rw [← hlen, hq0]; omega
        subst hend
        obtain ⟨hrem, hendp⟩ := sealS_end P C htag p
        by_cases hneg : ((p.length : Nat) : Int) + d < 0
        · have hrf : EncR.seekFull P C r (.fromEnd d) = ({ r with inner := i }, .error .io) := by
            simp only [EncR.seekFull, if_neg hd, hs, if_neg hrem, hendp, if_pos hneg]
          rw [hrf] at he
          simp at he
        · have hrf : EncR.seekFull P C r (.fromEnd d) =
              EncR.seekStart P C { r with inner := i } (((p.length : Nat) : Int) + d).toNat := by
            simp only [EncR.seekFull, if_neg hd, hs, if_neg hrem, hendp, if_neg hneg]
          rw [hrf] at he
          obtain ⟨a, b, c⟩ := (EncR.seekStart_partial P C htag p e hF hU hlen { r with inner := i }
            _ hi).1 r' q he
          exact ⟨a, by rw [b]; exact c, b⟩

/-- **the encryption reader over altered bytes of the right length is a sound partial reader of the
    plaintext** -/
theorem EncRd.isSoundPartial :
    IsSoundPartial (σ := EncRd P C ι) (EncRd.SInv P C p InvI absI)
      (fun s => s.r.chunkNo * P.chunk + s.r.cpos) p := by
  refine ⟨?_, ?_⟩
  · intro s n s' out hs h
    have hr : EncR.readFull P C s.r n = (s'.r, .ok out) := by
      simp only [Stream.read] at h
      split at h
      · rename_i r' b heq
        simp only [Except.ok.injEq, Prod.mk.injEq] at h
        obtain ⟨rfl, rfl⟩ := h
        exact heq
      · cases h
    exact (EncR.readFull_partial P C htag p e hF hU hlen s.r n hs).1 _ _ hr
  · intro s w s' q hs h
    have hr : EncR.seekFull P C s.r w = (s'.r, .ok q) := by
      simp only [Stream.seek] at h
      split at h
      · rename_i r' b heq
        simp only [Except.ok.injEq, Prod.mk.injEq] at h
        obtain ⟨rfl, rfl⟩ := h
        exact heq
      · cases h
    obtain ⟨habs1, habs2⟩ := EncR.seekFull_abs_partial P C htag p e hF hU hlen s.r hs.inner
    cases w with
    | start n => exact habs1 n _ _ hr
    | fromEnd d => exact habs2 d _ _ hr
    | current d =>
      by_cases hd : d = 0
      · subst hd
        have : EncR.seekFull P C s.r (.current 0) = (s.r, .ok (s.r.chunkNo * P.chunk + s.r.cpos)) := by
          simp [EncR.seekFull]
        rw [this] at hr
        simp only [Prod.mk.injEq, Except.ok.injEq] at hr
        obtain ⟨h1, h2⟩ := hr
        have : s' = s := by cases s; cases s'; simp_all
        subst this
        exact ⟨hs, h2, by simp only; omega⟩
      · by_cases hneg : ((s.r.chunkNo * P.chunk + s.r.cpos : Nat) : Int) + d < 0
        · have : EncR.seekFull P C s.r (.current d) = (s.r, .error .io) := by
            simp only [EncR.seekFull, if_neg hd, if_pos hneg]
          rw [this] at hr
          simp at hr
        · have : EncR.seekFull P C s.r (.current d) =
              EncR.seekStart P C s.r (((s.r.chunkNo * P.chunk + s.r.cpos : Nat) : Int) + d).toNat := by
            simp only [EncR.seekFull, if_neg hd, if_neg hneg]
          rw [this] at hr
          obtain ⟨a, b, c⟩ := (EncR.seekStart_partial P C htag p e hF hU hlen s.r _ hs.inner).1 _ _ hr
          exact ⟨a, by rw [b]; exact c, b⟩

/-- the failed states are dead: every read answers the tag error, an absolute seek that succeeds
    lands on a good state at the requested position -/
theorem EncRd.isDead :
    IsDead (σ := EncRd P C ι) (EncRd.SInv P C p InvI absI)
      (fun s => s.r.chunkNo * P.chunk + s.r.cpos) p (EncRd.DeadSt P C InvI) := by
  refine ⟨?_, ?_⟩
  · intro s n hd
    refine ⟨.wrongTag, ?_⟩
    simp [Stream.read, EncR.readFull, hd.2]
  · intro s w s' q hd h
    have hr : EncR.seekFull P C s.r w = (s'.r, .ok q) := by
      simp only [Stream.seek] at h
      split at h
      · rename_i r' b heq
        simp only [Except.ok.injEq, Prod.mk.injEq] at h
        obtain ⟨rfl, rfl⟩ := h
        exact heq
      · cases h
    obtain ⟨habs1, habs2⟩ := EncR.seekFull_abs_partial P C htag p e hF hU hlen s.r hd.1
    cases w with
    | start n => exact habs1 n _ _ hr
    | fromEnd d => exact habs2 d _ _ hr
    | current d => trivial

/-- `new` + `initialize`: it may fail (chunk 0 altered); when it answers `.ok` the state is good,
    at position 0 -/
theorem EncR.init_partial (inner : ι) (hin : InvI inner) (r : EncR ι) (q : Nat)
    (h : EncR.init P C inner = (r, .ok q)) :
    EncRd.SInv P C p InvI absI ⟨r⟩ ∧ r.chunkNo * P.chunk + r.cpos = 0 := by
  obtain ⟨a, _, c⟩ := (EncR.seekStart_partial P C htag p e hF hU hlen ⟨inner, [], 0, 0, false⟩ 0 hin).1
    r q h
  exact ⟨a, c⟩

/-- a `read` that answers an error leaves a dead state -/
theorem EncR.read_error_dead (s : EncRd P C ι) (hs : EncRd.SInv P C p InvI absI s) (n : Nat)
    (r' : EncR ι) (er : Err) (h : EncR.readFull P C s.r n = (r', .error er)) :
    EncRd.DeadSt P C InvI ⟨r'⟩ :=
  (EncR.readFull_partial P C htag p e hF hU hlen s.r n hs).2 r' er h

/-- an absolute seek that answers an error leaves a dead state, provided the chunk index of the
    target fits a u32 and the inner stream accepts the seek to the chunk slot -/
theorem EncR.seek_error_dead (r : EncR ι) (hin : InvI r.inner) (pos : Nat) (r' : EncR ι) (er : Err)
    (h : EncR.seekFull P C r (.start pos) = (r', .error er)) (hu : pos / P.chunk < U32)
    (hseek : ∃ x, Stream.seek r.inner (.start (pos / P.chunk * (P.chunk + P.tagLen))) = .ok x) :
    EncRd.DeadSt P C InvI ⟨r'⟩ :=
  (EncR.seekStart_partial P C htag p e hF hU hlen r pos hin).2 r' er h hu hseek

end

end MlaModel

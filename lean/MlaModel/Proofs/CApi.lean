/-
  Helper lemmas for C20: `write_all` over the callback sink.
-/
import MlaModel.CApi
namespace MlaModel.CApi
open MlaModel

/-- With a write callback that always accepts a non-empty part, `write_all` hands over the whole
    buffer, whatever the parts, and the position advances by its length. -/
theorem writeAll_good (pol : SinkPol) (hg : ∀ call pos n, ∃ k, pol.write call pos n = .take (k+1)) :
    ∀ (fuel : Nat) (st : SinkSt) (buf : Bytes), buf.length ≤ fuel →
      ∃ st', writeAll pol fuel st buf = (st', buf, .ok) ∧ st'.pos = st.pos + buf.length
        ∧ st'.flog = st.flog := by
  intro fuel
  induction fuel with
  | zero =>
    intro st buf h
    cases buf with
    | nil => exact ⟨st, rfl, rfl, rfl⟩
    | cons b bs => simp at h
  | succ fuel ih =>
    intro st buf h
    cases buf with
    | nil => exact ⟨st, by simp [writeAll], rfl, rfl⟩
    | cons b bs =>
      obtain ⟨k, hk⟩ := hg st.log.length st.pos (b :: bs).length
      have hlen : ((b :: bs).drop (min (k+1) (b :: bs).length)).length ≤ fuel := by
        simp only [List.length_drop, List.length_cons] at h ⊢
        omega
      obtain ⟨st', h1, h2, h3⟩ :=
        ih (st.note (.take (k+1)) (min (k+1) (b :: bs).length)) _ hlen
      refine ⟨st', ?_, ?_, ?_⟩
      · simp only [writeAll, hk, h1, List.take_append_drop]
      · rw [h2]
        simp only [SinkSt.note, List.length_drop, List.length_cons]
        omega
      · rw [h3]; rfl

/-- If `write_all` succeeds, every answer the callback gave during it was benign (a non-empty part
    accepted, or EINTR) and is an answer of the policy; nothing is removed from the log; the bytes accepted are the buffer. -/
theorem writeAll_ok (pol : SinkPol) :
    ∀ (fuel : Nat) (st : SinkSt) (buf : Bytes) (st' : SinkSt) (acc : Bytes),
      writeAll pol fuel st buf = (st', acc, .ok) →
      acc = buf ∧ st'.flog = st.flog ∧ ∃ evs, st'.log = evs ++ st.log ∧
        ∀ ev ∈ evs, ev.Benign ∧ ∃ call pos n, pol.write call pos n = ev := by
  intro fuel
  induction fuel with
  | zero =>
    intro st buf st' acc h
    cases buf with
    | nil => simp [writeAll] at h; obtain ⟨rfl, rfl⟩ := h; exact ⟨rfl, rfl, [], rfl, by simp⟩
    | cons b bs => simp [writeAll] at h
  | succ fuel ih =>
    intro st buf st' acc h
    cases buf with
    | nil => simp [writeAll] at h; obtain ⟨rfl, rfl⟩ := h; exact ⟨rfl, rfl, [], rfl, by simp⟩
    | cons b bs =>
      simp only [writeAll] at h
      split at h
      · simp at h
      · rename_i k hk
        generalize hr : writeAll pol fuel (st.note (.take (k+1)) (min (k+1) (b :: bs).length))
          ((b :: bs).drop (min (k+1) (b :: bs).length)) = r at h
        obtain ⟨s2, a2, io2⟩ := r
        simp only [Prod.mk.injEq] at h
        obtain ⟨h1, h2, h3⟩ := h
        subst h1 h3
        obtain ⟨ha, hf, evs, hl, hb⟩ := ih _ _ _ _ hr
        refine ⟨?_, ?_, evs ++ [.take (k+1)], ?_, ?_⟩
        · rw [← h2, ha, List.take_append_drop]
        · rw [hf]; rfl
        · rw [hl]; simp [SinkSt.note]
        · intro ev hev
          rcases List.mem_append.mp hev with h | h
          · exact hb ev h
          · simp at h; subst h; exact ⟨trivial, _, _, _, hk⟩
      · rename_i code hc
        split at h
        · rename_i heq
          obtain ⟨ha, hf, evs, hl, hb⟩ := ih _ _ _ _ h
          refine ⟨ha, ?_, evs ++ [.fail code], ?_, ?_⟩
          · rw [hf]; rfl
          · rw [hl]; simp [SinkSt.note]
          · intro ev hev
            rcases List.mem_append.mp hev with h | h
            · exact hb ev h
            · simp at h; subst h; exact ⟨heq, _, _, _, hc⟩
        · simp at h

/-- Whatever the outcome, `write_all` only adds to the logs. -/
theorem writeAll_log (pol : SinkPol) :
    ∀ (fuel : Nat) (st : SinkSt) (buf : Bytes),
      (writeAll pol fuel st buf).1.flog = st.flog ∧
      ∃ evs, (writeAll pol fuel st buf).1.log = evs ++ st.log := by
  intro fuel
  induction fuel with
  | zero =>
    intro st buf
    cases buf <;> exact ⟨rfl, [], rfl⟩
  | succ fuel ih =>
    intro st buf
    cases buf with
    | nil => exact ⟨by simp [writeAll], [], by simp [writeAll]⟩
    | cons b bs =>
      simp only [writeAll]
      split
      · exact ⟨rfl, [.take 0], rfl⟩
      · rename_i k hk
        obtain ⟨hf, evs, hl⟩ := ih (st.note (.take (k+1)) (min (k+1) (b :: bs).length))
          ((b :: bs).drop (min (k+1) (b :: bs).length))
        exact ⟨by rw [hf]; rfl, evs ++ [.take (k+1)], by rw [hl]; simp [SinkSt.note]⟩
      · rename_i code hc
        split
        · obtain ⟨hf, evs, hl⟩ := ih (st.note (.fail code) 0) (b :: bs)
          exact ⟨by rw [hf]; rfl, evs ++ [.fail code], by rw [hl]; simp [SinkSt.note]⟩
        · exact ⟨rfl, [.fail code], rfl⟩

/-- The fuel is only ever exhausted by EINTR answers: a callback that never answers EINTR never
    makes `write_all` hang (for any fuel ≥ the buffer length). -/
theorem writeAll_no_hang (pol : SinkPol) (hne : ∀ call pos n, pol.write call pos n ≠ .fail EINTR) :
    ∀ (fuel : Nat) (st : SinkSt) (buf : Bytes), buf.length ≤ fuel →
      (writeAll pol fuel st buf).2.2 ≠ .hang := by
  intro fuel
  induction fuel with
  | zero =>
    intro st buf h
    cases buf with
    | nil => simp [writeAll]
    | cons b bs => simp at h
  | succ fuel ih =>
    intro st buf h
    cases buf with
    | nil => simp [writeAll]
    | cons b bs =>
      simp only [writeAll]
      split
      · simp
      · rename_i k hk
        apply ih
        simp only [List.length_drop, List.length_cons] at h ⊢
        omega
      · rename_i code hc
        split
        · rename_i heq
          exact absurd (heq ▸ hc) (hne _ _ _)
        · simp

end MlaModel.CApi

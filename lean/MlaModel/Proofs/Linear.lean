/-
  `linear_extract` (`Linear.loop`) over a typed block stream:
    * on `encodeAll bs ++ eoad ++ anything` it returns the fold of `linStep` over `bs`;
    * on any prefix of `encodeAll bs` (no end-of-archive marker reached) it fails with
      `UnexpectedEof`, wherever the cut falls (inside a header, inside a payload, between blocks).
-/
import MlaModel.Proofs.WriterInv
namespace MlaModel

theorem takeExact_short (n : Nat) (s : Bytes) (h : s.length < n) : takeExact n s = .error .eof := by
  have : ¬ n ≤ s.length := by omega
  simp [takeExact, this]

theorem readLe_short (n : Nat) (s : Bytes) (h : s.length < n) : readLe n s = .error .eof := by
  simp [readLe, takeExact_short n s h]

/-- reading a u64 from a possibly cut `le64 v ++ Y` -/
theorem readLe8_take (v : Nat) (hv : v < U64) (Y : Bytes) (j : Nat) :
    readLe 8 ((le64 v ++ Y).take j) =
      if j < 8 then .error .eof else .ok (v, Y.take (j - 8)) := by
  split
  · apply readLe_short
    simp; omega
  · have : (le64 v ++ Y).take j = le64 v ++ Y.take (j - 8) := by
      rw [List.take_append, List.take_of_length_le (by simp; omega)]; simp
    rw [this, readLe8 v _ hv]

section
variable (P : Params) (utf8 : Bytes → Bool) (chosen : List Bytes)

/-- `ArchiveFileBlock::from` on a proper prefix of an encoded block: `UnexpectedEof`, except that
    the header of a content block cut inside its payload is read, with the shorter payload left -/
theorem decode_prefix (b : Block) (hwf : b.WF P utf8) (k : Nat) (hk : k < b.encode.length) :
    Hdr.decode P utf8 (b.encode.take k) = .error .eof ∨
    ∃ id d, b = .content id d ∧ 17 ≤ k ∧
      Hdr.decode P utf8 (b.encode.take k) = .ok (.content id d.length, d.take (k - 17)) := by
  cases k with
  | zero => left; simp [Hdr.decode]
  | succ j =>
    have hel := Block.encode_length b
    cases b with
    | eoad => simp [Block.encode] at hk
    | start id name =>
      left
      obtain ⟨hid, hmax, hlen, _⟩ := hwf
      simp only at hel
      have hnm : ¬ P.nameMax < name.length := by omega
      simp only [Block.encode, List.append_assoc, List.take_succ_cons, Hdr.decode, if_true]
      rw [readLe8_take id hid]
      by_cases hj : j < 8
      · simp only [hj, if_true]
      · simp only [hj, if_false]
        rw [readLe8_take _ hlen]
        by_cases hj2 : j - 8 < 8
        · simp only [hj2, if_true]
        · simp only [hj2, if_false, hnm]
          rw [takeExact_short]
          simp; omega
    | content id d =>
      obtain ⟨hid, hlen⟩ := hwf
      simp only at hel
      have h1 : ¬ (tContent = tStart) := by decide
      simp only [Block.encode, List.append_assoc, List.take_succ_cons, Hdr.decode, h1, if_false,
        if_true]
      rw [readLe8_take id hid]
      by_cases hj : j < 8
      · left; simp only [hj, if_true]
      · simp only [hj, if_false]
        rw [readLe8_take _ hlen]
        by_cases hj2 : j - 8 < 8
        · left; simp only [hj2, if_true]
        · right
          refine ⟨id, d, rfl, by omega, ?_⟩
          have : j + 1 - 17 = j - 8 - 8 := by omega
          simp only [hj2, if_false]
          rw [this]
    | eof id g =>
      left
      obtain ⟨hid, hg⟩ := hwf
      simp only at hel
      have h1 : ¬ (tEof = tStart) := by decide
      have h2 : ¬ (tEof = tContent) := by decide
      simp only [Block.encode, List.take_succ_cons, Hdr.decode, h1, h2, if_false, if_true]
      rw [readLe8_take id hid]
      by_cases hj : j < 8
      · simp only [hj, if_true]
      · simp only [hj, if_false]
        rw [takeExact_short]
        simp; omega

theorem loop_nil (fuel : Nat) (m : List (Nat × Bytes)) (out : List (Bytes × Bytes)) :
    Linear.loop P utf8 chosen (fuel + 1) [] m out = .error .eof := by
  simp [Linear.loop, Hdr.decode]

/-- the whole block stream up to the end-of-archive marker -/
theorem loop_blocks (bs : List Block) (hwf : ∀ b ∈ bs, b.WF P utf8) (hne : ∀ b ∈ bs, b ≠ .eoad) :
    ∀ (fuel : Nat) (rest : Bytes) (m : List (Nat × Bytes)) (out : List (Bytes × Bytes)),
      bs.length < fuel →
      Linear.loop P utf8 chosen fuel (encodeAll bs ++ tEoad :: rest) m out =
        .ok (bs.foldl (linStep chosen) (m, out)).2 := by
  induction bs with
  | nil =>
    intro fuel rest m out hf
    obtain ⟨f, rfl⟩ : ∃ f, fuel = f + 1 := ⟨fuel - 1, by simp at hf; omega⟩
    have hdec := Hdr.decode_encode P utf8 .eoad rest trivial
    simp only [Block.encode, List.cons_append, List.nil_append, Block.hdr, Block.payload] at hdec
    simp [Linear.loop, hdec]
  | cons b bs ih =>
    intro fuel rest m out hf
    obtain ⟨f, rfl⟩ : ∃ f, fuel = f + 1 := ⟨fuel - 1, by simp at hf; omega⟩
    have hf' : bs.length < f := by simp at hf; omega
    have ih' := ih (fun c hc => hwf c (by simp [hc])) (fun c hc => hne c (by simp [hc])) f rest
    have hdec := Hdr.decode_encode P utf8 b (encodeAll bs ++ tEoad :: rest) (hwf b (by simp))
    have hs : encodeAll (b :: bs) ++ tEoad :: rest = b.encode ++ (encodeAll bs ++ tEoad :: rest) := by
      simp
    rw [hs]
    cases b with
    | eoad => exact absurd rfl (hne _ (by simp))
    | start id name =>
      simp only [Linear.loop, hdec, Block.hdr, Block.payload, List.nil_append, List.foldl_cons,
        linStep]
      exact ih' _ _ hf'
    | eof id g =>
      simp only [Linear.loop, hdec, Block.hdr, Block.payload, List.nil_append, List.foldl_cons,
        linStep]
      exact ih' _ _ hf'
    | content id d =>
      simp only [Linear.loop, hdec, Block.hdr, Block.payload, List.foldl_cons, linStep,
        List.take_left', List.drop_left']
      exact ih' _ _ hf'

/-- a stream cut anywhere before the end-of-archive marker is never extracted successfully -/
theorem trunc_loop (bs : List Block) (hwf : ∀ b ∈ bs, b.WF P utf8) (hne : ∀ b ∈ bs, b ≠ .eoad) :
    ∀ (k fuel : Nat) (m : List (Nat × Bytes)) (out : List (Bytes × Bytes)),
      k ≤ (encodeAll bs).length → k < fuel →
      Linear.loop P utf8 chosen fuel ((encodeAll bs).take k) m out = .error .eof := by
  induction bs with
  | nil =>
    intro k fuel m out _ hf
    obtain ⟨f, rfl⟩ : ∃ f, fuel = f + 1 := ⟨fuel - 1, by omega⟩
    simpa using loop_nil P utf8 chosen f m out
  | cons b bs ih =>
    intro k fuel m out hk hf
    obtain ⟨f, rfl⟩ : ∃ f, fuel = f + 1 := ⟨fuel - 1, by omega⟩
    have ih' := ih (fun c hc => hwf c (by simp [hc])) (fun c hc => hne c (by simp [hc]))
    have hbw := hwf b (by simp)
    have hpos := Block.encode_pos b
    simp only [encodeAll_cons, List.length_append] at hk
    by_cases hlen : b.encode.length ≤ k
    · have ht : (encodeAll (b :: bs)).take k =
          b.encode ++ (encodeAll bs).take (k - b.encode.length) := by
        rw [encodeAll_cons, List.take_append, List.take_of_length_le hlen]
      have hdec := Hdr.decode_encode P utf8 b ((encodeAll bs).take (k - b.encode.length)) hbw
      have hk' : k - b.encode.length ≤ (encodeAll bs).length := by omega
      have hf' : k - b.encode.length < f := by omega
      rw [ht]
      cases b with
      | eoad => exact absurd rfl (hne _ (by simp))
      | start id name =>
        simp only [Linear.loop, hdec, Block.hdr, Block.payload, List.nil_append]
        exact ih' _ _ _ _ hk' hf'
      | eof id g =>
        simp only [Linear.loop, hdec, Block.hdr, Block.payload, List.nil_append]
        exact ih' _ _ _ _ hk' hf'
      | content id d =>
        simp only [Linear.loop, hdec, Block.hdr, Block.payload, List.drop_left']
        exact ih' _ _ _ _ hk' hf'
    · have hlt : k < b.encode.length := by omega
      have ht : (encodeAll (b :: bs)).take k = b.encode.take k := by
        rw [encodeAll_cons, List.take_append_of_le_length (by omega)]
      rw [ht]
      rcases decode_prefix P utf8 b hbw k hlt with h | ⟨id, d, rfl, h17, h⟩
      · simp only [Linear.loop, h]
      · simp only [Linear.loop, h]
        have hd : (d.take (k - 17)).drop d.length = [] := by
          apply List.drop_eq_nil_of_le
          simp; omega
        rw [hd]
        obtain ⟨f', rfl⟩ : ∃ f', f = f' + 1 := ⟨f - 1, by omega⟩
        exact loop_nil P utf8 chosen f' _ _

end

/-- `lookup` in a list built from the writer's `names` -/
theorem lookup_names (names : List (Bytes × Nat)) (g : Nat → Bytes) (n : Bytes) :
    List.lookup n (names.map fun p => (p.1, g p.2)) = (nameLookup n names).map g := by
  induction names with
  | nil => rfl
  | cons x xs ih =>
    obtain ⟨a, b⟩ := x
    simp only [List.map_cons, List.lookup, nameLookup]
    by_cases h : a = n
    · subst h; simp
    · have : (n == a) = false := by simp; exact fun e => h e.symm
      simp [this, h, ih]

end MlaModel

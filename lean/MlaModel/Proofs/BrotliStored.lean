/-
  Proofs: the native RFC 7932 decoder (`MlaModel/Brotli/Decode.lean`) on what the stored-only
  encoder (`MlaModel/CodecStored.lean`) writes.

  Stage 1: the bit reader `Brotli.readBits` in terms of `getBit` / `getBits` of CodecStored.
-/
import MlaModel.CodecBrotli
import MlaModel.Proofs.CodecStored
namespace MlaModel
namespace BrStoredPf
open Brotli StoredPf

/-! ### 1. the bit reader -/

/-- byte `i` of the input as a number, 0 past the end -/
def byteN (inp : ByteArray) (i : Nat) : Nat := if h : i < inp.size then inp[i].toNat else 0

theorem byteAt_toNat (inp : ByteArray) (i : Nat) : (byteAt inp i).toNat = byteN inp i := by
  unfold byteAt byteN
  split <;> simp

theorem byteN_lt (inp : ByteArray) (i : Nat) : byteN inp i < 256 := by
  unfold byteN
  split
  · exact UInt8.toNat_lt _
  · omega

theorem byteN_testBit_ge (inp : ByteArray) (i k : Nat) (hk : 8 ≤ k) :
    (byteN inp i).testBit k = false := by
  apply Nat.testBit_lt_two_pow
  have h1 := byteN_lt inp i
  have h2 : 2 ^ 8 ≤ 2 ^ k := Nat.pow_le_pow_right (by omega) hk
  omega

/-- the 40 bit window read by `peekBits` -/
def wordN (inp : ByteArray) (i : Nat) : Nat :=
  byteN inp i ||| (byteN inp (i+1) <<< 8) ||| (byteN inp (i+2) <<< 16) |||
    (byteN inp (i+3) <<< 24) ||| (byteN inp (i+4) <<< 32)

theorem shl_small (a k : Nat) (ha : a < 256) (hk : k ≤ 32) : a <<< k % 2 ^ 64 = a <<< k := by
  apply Nat.mod_eq_of_lt
  rw [Nat.shiftLeft_eq]
  have h1 : 2 ^ k ≤ 2 ^ 32 := Nat.pow_le_pow_right (by omega) hk
  calc a * 2 ^ k ≤ 255 * 2 ^ 32 := Nat.mul_le_mul (by omega) h1
    _ < 2 ^ 64 := by omega

theorem peekBits_toNat (inp : ByteArray) (p : Nat) :
    (peekBits inp p).toNat = wordN inp (p / 8) >>> (p % 8) := by
  have h8 : p % 8 % 2 ^ 64 % 64 = p % 8 := by omega
  simp only [peekBits, wordN, UInt64.toNat_shiftRight, UInt64.toNat_or, UInt64.toNat_shiftLeft,
    byteAt_toNat]
  simp [shl_small _ _ (byteN_lt _ _), h8]

theorem wordN_testBit (inp : ByteArray) (i j : Nat) (hj : j < 40) :
    (wordN inp i).testBit j = (byteN inp (i + j / 8)).testBit (j % 8) := by
  simp only [wordN, Nat.testBit_or, Nat.testBit_shiftLeft]
  have hcase : j < 8 ∨ (8 ≤ j ∧ j < 16) ∨ (16 ≤ j ∧ j < 24) ∨ (24 ≤ j ∧ j < 32) ∨ (32 ≤ j) := by
    omega
  rcases hcase with h | h | h | h | h
  · have e1 : j / 8 = 0 := by omega
    have e2 : j % 8 = j := by omega
    have d1 : ¬ 8 ≤ j := by omega
    have d2 : ¬ 16 ≤ j := by omega
    have d3 : ¬ 24 ≤ j := by omega
    have d4 : ¬ 32 ≤ j := by omega
    simp [e1, e2, d1, d2, d3, d4]
  · have e1 : j / 8 = 1 := by omega
    have e2 : j % 8 = j - 8 := by omega
    have d1 : 8 ≤ j := by omega
    have d2 : ¬ 16 ≤ j := by omega
    have d3 : ¬ 24 ≤ j := by omega
    have d4 : ¬ 32 ≤ j := by omega
    simp [e1, e2, d1, d2, d3, d4, byteN_testBit_ge inp i j d1]
  · have e1 : j / 8 = 2 := by omega
    have e2 : j % 8 = j - 16 := by omega
    have d1 : 8 ≤ j := by omega
    have d2 : 16 ≤ j := by omega
    have d3 : ¬ 24 ≤ j := by omega
    have d4 : ¬ 32 ≤ j := by omega
    simp [e1, e2, d1, d2, d3, d4, byteN_testBit_ge inp i j d1,
      byteN_testBit_ge inp (i+1) (j-8) (by omega)]
  · have e1 : j / 8 = 3 := by omega
    have e2 : j % 8 = j - 24 := by omega
    have d1 : 8 ≤ j := by omega
    have d2 : 16 ≤ j := by omega
    have d3 : 24 ≤ j := by omega
    have d4 : ¬ 32 ≤ j := by omega
    simp [e1, e2, d1, d2, d3, d4, byteN_testBit_ge inp i j d1,
      byteN_testBit_ge inp (i+1) (j-8) (by omega), byteN_testBit_ge inp (i+2) (j-16) (by omega)]
  · have e1 : j / 8 = 4 := by omega
    have e2 : j % 8 = j - 32 := by omega
    have d1 : 8 ≤ j := by omega
    have d2 : 16 ≤ j := by omega
    have d3 : 24 ≤ j := by omega
    have d4 : 32 ≤ j := by omega
    simp [e1, e2, d1, d2, d3, d4, byteN_testBit_ge inp i j d1,
      byteN_testBit_ge inp (i+1) (j-8) (by omega), byteN_testBit_ge inp (i+2) (j-16) (by omega),
      byteN_testBit_ge inp (i+3) (j-24) (by omega)]

/-- bit `k` of the window at position `p` is bit `p + k` of the input -/
theorem peekBits_testBit (inp : ByteArray) (p k : Nat) (hk : k < 33) :
    (peekBits inp p).toNat.testBit k = (byteN inp ((p + k) / 8)).testBit ((p + k) % 8) := by
  rw [peekBits_toNat, Nat.testBit_shiftRight, wordN_testBit _ _ _ (by omega)]
  have e1 : p / 8 + (p % 8 + k) / 8 = (p + k) / 8 := by omega
  have e2 : (p % 8 + k) % 8 = (p + k) % 8 := by omega
  rw [e1, e2]

theorem mask_toNat (n : Nat) (hn : n ≤ 32) :
    ((((1 : UInt64) <<< n.toUInt64) - 1)).toNat = 2 ^ n - 1 := by
  have e : n % 2 ^ 64 % 64 = n := by omega
  have h1 : ((1 : UInt64) <<< n.toUInt64).toNat = 2 ^ n := by
    have hlt : 2 ^ n < 2 ^ 64 := Nat.pow_lt_pow_right (by omega) (by omega)
    simp [UInt64.toNat_shiftLeft, e, Nat.shiftLeft_eq, Nat.mod_eq_of_lt hlt]
  rw [UInt64.toNat_sub_of_le]
  · rw [h1]; rfl
  · rw [UInt64.le_iff_toNat_le, h1]
    exact Nat.one_le_two_pow

/-- the value delivered by `readBits n` -/
def readVal (inp : ByteArray) (p n : Nat) : Nat :=
  (peekBits inp p &&& (((1 : UInt64) <<< n.toUInt64) - 1)).toNat

theorem readVal_eq (inp : ByteArray) (p n : Nat) (hn : n ≤ 32) :
    readVal inp p n = (peekBits inp p).toNat % 2 ^ n := by
  rw [readVal, UInt64.toNat_and, mask_toNat n hn, Nat.and_two_pow_sub_one_eq_mod]

theorem readVal_lt (inp : ByteArray) (p n : Nat) (hn : n ≤ 32) : readVal inp p n < 2 ^ n := by
  rw [readVal_eq _ _ _ hn]
  exact Nat.mod_lt _ (Nat.two_pow_pos n)

theorem readVal_testBit (inp : ByteArray) (p n k : Nat) (hn : n ≤ 32) (hk : k < n) :
    (readVal inp p n).testBit k = (byteN inp ((p + k) / 8)).testBit ((p + k) % 8) := by
  rw [readVal_eq _ _ _ hn, Nat.testBit_mod_two_pow, peekBits_testBit _ _ _ (by omega)]
  simp [hk]

theorem getBit_data (inp : ByteArray) (q : Nat) (hq : q / 8 < inp.size) :
    getBit inp.data.toList q = some ((byteN inp (q / 8)).testBit (q % 8)) := by
  have hq' : q / 8 < inp.data.size := hq
  simp only [getBit, Array.getElem?_toList, byteN, hq, dite_true]
  rw [Array.getElem?_eq_getElem hq']
  simp only [Nat.testBit_eq_decide_div_mod_eq]
  rfl

theorem readBits_ok (n : Nat) (s : St) (h : s.pos + n ≤ 8 * s.inp.size) :
    readBits n s = .ok (readVal s.inp s.pos n) { s with pos := s.pos + n } := by
  simp [readBits, h, readVal]

theorem readBits_needMore (n : Nat) (s : St) (h : ¬ s.pos + n ≤ 8 * s.inp.size) :
    readBits n s = .error .needMore s := by
  simp [readBits, h]

/-- Stage 1: `readBits n` reads what `getBits` reads. -/
theorem getBits_readVal (inp : ByteArray) (p n : Nat) (hn : n ≤ 32) (h : p + n ≤ 8 * inp.size) :
    getBits inp.data.toList p n = some (readVal inp p n) := by
  have hv := getBits_value inp.data.toList p n (readVal inp p n) (by
    intro k hk
    rw [getBit_data _ _ (by omega), ← readVal_testBit inp p n k hn hk,
      Nat.testBit_eq_decide_div_mod_eq])
  rw [hv, Nat.mod_eq_of_lt (readVal_lt _ _ _ hn)]

/-! ### 2. monad steps on an explicit state -/

theorem readVal_split (inp : ByteArray) (p a b : Nat) (h : a + b ≤ 32) :
    readVal inp p (a + b) = readVal inp p a + readVal inp (p + a) b <<< a := by
  apply Nat.eq_of_testBit_eq
  intro j
  have hlt := readVal_lt inp p a (by omega)
  rw [Nat.shiftLeft_eq, Nat.mul_comm, Nat.add_comm (readVal inp p a), Nat.testBit_two_pow_mul_add _ hlt]
  by_cases hj : j < a + b
  · rw [readVal_testBit _ _ _ _ h hj]
    split
    · rename_i h1
      rw [readVal_testBit _ _ _ _ (by omega) h1]
    · rename_i h1
      rw [readVal_testBit _ _ _ _ (by omega) (by omega)]
      have : p + a + (j - a) = p + j := by omega
      rw [this]
  · have e1 : (readVal inp p (a + b)).testBit j = false := by
      apply Nat.testBit_lt_two_pow
      have h1 := readVal_lt inp p (a + b) h
      have h2 : 2 ^ (a + b) ≤ 2 ^ j := Nat.pow_le_pow_right (by omega) (by omega)
      omega
    rw [e1, if_neg (by omega)]
    symm
    apply Nat.testBit_lt_two_pow
    have h1 := readVal_lt inp (p + a) b (by omega)
    have h2 : 2 ^ b ≤ 2 ^ (j - a) := Nat.pow_le_pow_right (by omega) (by omega)
    omega

theorem readBits_bind {β : Type} (n : Nat) (f : Nat → M β) (inp : ByteArray) (pos : Nat) (out : ByteArray)
    (d1 d2 d3 d4 : Nat) (sd : Bool) (h : pos + n ≤ 8 * inp.size) :
    (readBits n >>= f) ⟨inp, pos, out, d1, d2, d3, d4, sd⟩
      = f (readVal inp pos n) ⟨inp, pos + n, out, d1, d2, d3, d4, sd⟩ := by
  show EStateM.bind (readBits n) f _ = _
  unfold EStateM.bind
  rw [readBits_ok n _ h]

theorem modify_bind {β : Type} (g : St → St) (f : Unit → M β) (s : St) :
    (modify g >>= f) s = f () (g s) := rfl

theorem pure_apply {β : Type} (b : β) (s : St) : (pure b : M β) s = .ok b s := rfl

theorem alignToByte_bind {β : Type} (f : Unit → M β) (inp : ByteArray) (pos : Nat) (out : ByteArray)
    (d1 d2 d3 d4 : Nat) (sd : Bool) (h : pos + (8 - pos % 8) % 8 ≤ 8 * inp.size)
    (hz : readVal inp pos ((8 - pos % 8) % 8) = 0) :
    (alignToByte true >>= f) ⟨inp, pos, out, d1, d2, d3, d4, sd⟩
      = f () ⟨inp, pos + (8 - pos % 8) % 8, out, d1, d2, d3, d4, sd⟩ := by
  show EStateM.bind (alignToByte true) f _ = _
  unfold EStateM.bind alignToByte
  simp only [bind, EStateM.bind, get, getThe, MonadStateOf.get, EStateM.get]
  rw [readBits_ok _ ⟨inp, pos, out, d1, d2, d3, d4, sd⟩ h]
  simp only [hz]
  rfl

theorem copyRaw_bind {β : Type} (n : Nat) (f : Unit → M β) (inp : ByteArray) (pos : Nat) (out : ByteArray)
    (d1 d2 d3 d4 : Nat) (sd : Bool) (h : pos / 8 + n ≤ inp.size) :
    (copyRaw n >>= f) ⟨inp, pos, out, d1, d2, d3, d4, sd⟩
      = f () ⟨inp, pos + 8 * n, inp.copySlice (pos / 8) out out.size n, d1, d2, d3, d4, sd⟩ := by
  show EStateM.bind (copyRaw n) f _ = _
  have hk : min n (inp.size - pos / 8) = n := by omega
  unfold EStateM.bind copyRaw
  simp only [hk, Nat.lt_irrefl, if_false]

/-! ### 3. one uncompressed meta-block, by MNIBBLES code -/
set_option linter.unusedSimpArgs false

theorem r4 : List.range' 0 4 1 = [0,1,2,3] := rfl
theorem r5 : List.range' 0 5 1 = [0,1,2,3,4] := rfl
theorem r6 : List.range' 0 6 1 = [0,1,2,3,4,5] := rfl

theorem mb0 (cfg : Config) (wbits : Nat) (inp : ByteArray) (pos : Nat) (out : ByteArray)
    (d1 d2 d3 d4 : Nat) (sd : Bool)
    (h0 : readVal inp pos 1 = 0)
    (h1 : readVal inp (pos + 1) 2 = 0)
    (h3 : readVal inp (pos + 19) 1 = 1)
    (hz : readVal inp (pos + 20) ((8 - (pos + 20) % 8) % 8) = 0)
    (hsz : (pos + 27) / 8 + (readVal inp (pos + 3) 16 + 1) ≤ inp.size) :
    decodeMetaBlock cfg wbits ⟨inp, pos, out, d1, d2, d3, d4, sd⟩ =
      .ok false ⟨inp, 8 * ((pos + 27) / 8 + (readVal inp (pos + 3) 16 + 1)),
        inp.copySlice ((pos + 27) / 8) out out.size (readVal inp (pos + 3) 16 + 1), d1, d2, d3, d4, true⟩ := by
  have hm : readVal inp (pos + 3) 16 = readVal inp (pos + 3) 4 + readVal inp (pos + 7) 4 <<< 4
      + readVal inp (pos + 11) 4 <<< 8 + readVal inp (pos + 15) 4 <<< 12 := by
    rw [show (16:Nat) = 12 + 4 from rfl, readVal_split _ _ 12 4 (by omega),
      show (12:Nat) = 8 + 4 from rfl, readVal_split _ _ 8 4 (by omega),
      show (8:Nat) = 4 + 4 from rfl, readVal_split _ _ 4 4 (by omega)]
  generalize readVal inp (pos + 3) 16 = m at *
  unfold decodeMetaBlock
  rw [readBits_bind _ _ _ _ _ _ _ _ _ _ (by omega), h0]
  simp (config := {maxSteps := 4000000}) (disch := first | omega | assumption) only [readBits_bind, h1, h3,
    alignToByte_bind, modify_bind, copyRaw_bind, pure_apply, Nat.shiftLeft_zero, Nat.zero_add, Nat.reduceBEq,
    Bool.false_eq_true, ↓reduceIte,
    Std.Legacy.Range.forIn_eq_forIn_range', Std.Legacy.Range.size, Nat.reduceAdd, Nat.reduceSub, Nat.reduceDiv, r4,
    List.forIn_cons, List.forIn_nil, bind_assoc, pure_bind, Nat.reduceGT, Bool.and_false, Bool.false_and,
    decide_false, Bool.and_true, Bool.true_and, Nat.add_assoc, Nat.reduceMul]
  have hM : readVal inp (pos + 3) 4 + (readVal inp (pos + 7) 4 <<< 4 + (readVal inp (pos + 11) 4 <<< 8 +
      (readVal inp (pos + 15) 4 <<< 12 + 1))) = m + 1 := by omega
  rw [hM]
  have e1 : (pos + (20 + (8 - (pos + 20) % 8) % 8)) / 8 = (pos + 27) / 8 := by omega
  have e2 : pos + (20 + ((8 - (pos + 20) % 8) % 8 + 8 * (m + 1))) = 8 * ((pos + 27) / 8 + (m + 1)) := by omega
  rw [e1, e2]

theorem mb1 (cfg : Config) (wbits : Nat) (inp : ByteArray) (pos : Nat) (out : ByteArray)
    (d1 d2 d3 d4 : Nat) (sd : Bool)
    (h0 : readVal inp pos 1 = 0)
    (h1 : readVal inp (pos + 1) 2 = 1)
    (hx : readVal inp (pos + 19) 4 ≠ 0)
    (h3 : readVal inp (pos + 23) 1 = 1)
    (hz : readVal inp (pos + 24) ((8 - (pos + 24) % 8) % 8) = 0)
    (hsz : (pos + 31) / 8 + (readVal inp (pos + 3) 20 + 1) ≤ inp.size) :
    decodeMetaBlock cfg wbits ⟨inp, pos, out, d1, d2, d3, d4, sd⟩ =
      .ok false ⟨inp, 8 * ((pos + 31) / 8 + (readVal inp (pos + 3) 20 + 1)),
        inp.copySlice ((pos + 31) / 8) out out.size (readVal inp (pos + 3) 20 + 1), d1, d2, d3, d4, true⟩ := by
  have hm : readVal inp (pos + 3) 20 = readVal inp (pos + 3) 4 + readVal inp (pos + 7) 4 <<< 4
      + readVal inp (pos + 11) 4 <<< 8 + readVal inp (pos + 15) 4 <<< 12 + readVal inp (pos + 19) 4 <<< 16 := by
    rw [show (20:Nat) = 16 + 4 from rfl, readVal_split _ _ 16 4 (by omega),
      show (16:Nat) = 12 + 4 from rfl, readVal_split _ _ 12 4 (by omega),
      show (12:Nat) = 8 + 4 from rfl, readVal_split _ _ 8 4 (by omega),
      show (8:Nat) = 4 + 4 from rfl, readVal_split _ _ 4 4 (by omega)]
  have hx' : (readVal inp (pos + 19) 4 == 0) = false := by simp [hx]
  generalize readVal inp (pos + 3) 20 = m at *
  unfold decodeMetaBlock
  rw [readBits_bind _ _ _ _ _ _ _ _ _ _ (by omega), h0]
  simp (config := {maxSteps := 4000000}) (disch := first | omega | assumption) only [readBits_bind, h1, h3, hx',
    alignToByte_bind, modify_bind, copyRaw_bind, pure_apply, Nat.shiftLeft_zero, Nat.zero_add, Nat.reduceBEq,
    Bool.false_eq_true, ↓reduceIte,
    Std.Legacy.Range.forIn_eq_forIn_range', Std.Legacy.Range.size, Nat.reduceAdd, Nat.reduceSub, Nat.reduceDiv, r5,
    List.forIn_cons, List.forIn_nil, bind_assoc, pure_bind, Nat.reduceGT, Bool.and_false, Bool.false_and,
    decide_false, decide_true, Bool.and_true, Bool.true_and, Nat.add_assoc, Nat.reduceMul]
  have hM : readVal inp (pos + 3) 4 + (readVal inp (pos + 7) 4 <<< 4 + (readVal inp (pos + 11) 4 <<< 8 +
      (readVal inp (pos + 15) 4 <<< 12 + (readVal inp (pos + 19) 4 <<< 16 + 1)))) = m + 1 := by omega
  rw [hM]
  have e1 : (pos + (24 + (8 - (pos + 24) % 8) % 8)) / 8 = (pos + 31) / 8 := by omega
  have e2 : pos + (24 + ((8 - (pos + 24) % 8) % 8 + 8 * (m + 1))) = 8 * ((pos + 31) / 8 + (m + 1)) := by omega
  rw [e1, e2]

theorem mb2 (cfg : Config) (wbits : Nat) (inp : ByteArray) (pos : Nat) (out : ByteArray)
    (d1 d2 d3 d4 : Nat) (sd : Bool)
    (h0 : readVal inp pos 1 = 0)
    (h1 : readVal inp (pos + 1) 2 = 2)
    (hx : readVal inp (pos + 23) 4 ≠ 0)
    (h3 : readVal inp (pos + 27) 1 = 1)
    (hz : readVal inp (pos + 28) ((8 - (pos + 28) % 8) % 8) = 0)
    (hsz : (pos + 35) / 8 + (readVal inp (pos + 3) 24 + 1) ≤ inp.size) :
    decodeMetaBlock cfg wbits ⟨inp, pos, out, d1, d2, d3, d4, sd⟩ =
      .ok false ⟨inp, 8 * ((pos + 35) / 8 + (readVal inp (pos + 3) 24 + 1)),
        inp.copySlice ((pos + 35) / 8) out out.size (readVal inp (pos + 3) 24 + 1), d1, d2, d3, d4, true⟩ := by
  have hm : readVal inp (pos + 3) 24 = readVal inp (pos + 3) 4 + readVal inp (pos + 7) 4 <<< 4
      + readVal inp (pos + 11) 4 <<< 8 + readVal inp (pos + 15) 4 <<< 12 + readVal inp (pos + 19) 4 <<< 16
      + readVal inp (pos + 23) 4 <<< 20 := by
    rw [show (24:Nat) = 20 + 4 from rfl, readVal_split _ _ 20 4 (by omega),
      show (20:Nat) = 16 + 4 from rfl, readVal_split _ _ 16 4 (by omega),
      show (16:Nat) = 12 + 4 from rfl, readVal_split _ _ 12 4 (by omega),
      show (12:Nat) = 8 + 4 from rfl, readVal_split _ _ 8 4 (by omega),
      show (8:Nat) = 4 + 4 from rfl, readVal_split _ _ 4 4 (by omega)]
  have hx' : (readVal inp (pos + 23) 4 == 0) = false := by simp [hx]
  generalize readVal inp (pos + 3) 24 = m at *
  unfold decodeMetaBlock
  rw [readBits_bind _ _ _ _ _ _ _ _ _ _ (by omega), h0]
  simp (config := {maxSteps := 4000000}) (disch := first | omega | assumption) only [readBits_bind, h1, h3, hx',
    alignToByte_bind, modify_bind, copyRaw_bind, pure_apply, Nat.shiftLeft_zero, Nat.zero_add, Nat.reduceBEq,
    Bool.false_eq_true, ↓reduceIte,
    Std.Legacy.Range.forIn_eq_forIn_range', Std.Legacy.Range.size, Nat.reduceAdd, Nat.reduceSub, Nat.reduceDiv, r6,
    List.forIn_cons, List.forIn_nil, bind_assoc, pure_bind, Nat.reduceGT, Bool.and_false, Bool.false_and,
    decide_false, decide_true, Bool.and_true, Bool.true_and, Nat.add_assoc, Nat.reduceMul]
  have hM : readVal inp (pos + 3) 4 + (readVal inp (pos + 7) 4 <<< 4 + (readVal inp (pos + 11) 4 <<< 8 +
      (readVal inp (pos + 15) 4 <<< 12 + (readVal inp (pos + 19) 4 <<< 16 +
      (readVal inp (pos + 23) 4 <<< 20 + 1))))) = m + 1 := by omega
  rw [hM]
  have e1 : (pos + (28 + (8 - (pos + 28) % 8) % 8)) / 8 = (pos + 35) / 8 := by omega
  have e2 : pos + (28 + ((8 - (pos + 28) % 8) % 8 + 8 * (m + 1))) = 8 * ((pos + 35) / 8 + (m + 1)) := by omega
  rw [e1, e2]

/-! ### 4. from `getBit` / `getBits` facts to the reader -/

theorem copySlice_toList (src dest : ByteArray) (off n : Nat) :
    (src.copySlice off dest dest.size n).data.toList
      = dest.data.toList ++ (src.data.toList.drop off).take n := by
  have h1 : dest.data.extract 0 dest.size = dest.data := by
    show dest.data.extract 0 dest.data.size = dest.data
    simp
  have h2 : dest.data.extract (dest.size + min n (src.data.size - off)) dest.data.size = #[] := by
    apply Array.extract_empty_of_size_le_start
    show dest.data.size ≤ dest.data.size + _
    exact Nat.le_add_right _ _
  simp only [ByteArray.copySlice, h1, h2, Array.append_empty, Array.toList_append, Array.toList_extract]
  simp [List.extract_eq_take_drop]

theorem getBits_one (L : Bytes) (p : Nat) (b : Bool) (h : getBit L p = some b) :
    getBits L p 1 = some b.toNat := by
  rw [getBits_succ, getBits_zero, Nat.add_zero, h]
  cases b <;> rfl

theorem readVal_of_getBits (inp : ByteArray) (p n v : Nat) (hn : n ≤ 32) (h : p + n ≤ 8 * inp.size)
    (hg : getBits inp.data.toList p n = some v) : readVal inp p n = v := by
  rw [getBits_readVal inp p n hn h] at hg
  exact Option.some.inj hg

theorem readVal_zero_of_getBit (inp : ByteArray) (p n : Nat) (hn : n ≤ 32) (h : p + n ≤ 8 * inp.size)
    (hg : ∀ k, k < n → getBit inp.data.toList (p + k) = some false) : readVal inp p n = 0 := by
  apply readVal_of_getBits inp p n 0 hn h
  have := getBits_value inp.data.toList p n 0 (by intro k hk; rw [hg k hk]; simp)
  simpa using this


theorem top_nibble_ne (inp : ByteArray) (p a m : Nat) (ha : a + 4 ≤ 32)
    (hm : readVal inp p (a + 4) = m) (hx : 2 ^ a ≤ m) : readVal inp (p + a) 4 ≠ 0 := by
  intro h0
  rw [readVal_split _ _ _ _ ha, h0, Nat.zero_shiftLeft, Nat.add_zero] at hm
  have := readVal_lt inp p a (by omega)
  omega

/-- Stage 2, bit level: an uncompressed meta-block header described by `getBit`/`getBits` facts -/
theorem mb_bits (cfg : Config) (wbits : Nat) (inp : ByteArray) (pos : Nat) (out : ByteArray)
    (d1 d2 d3 d4 : Nat) (sd : Bool) (code m : Nat) (hc : code < 3)
    (g0 : getBit inp.data.toList pos = some false)
    (g1 : getBits inp.data.toList (pos + 1) 2 = some code)
    (g2 : getBits inp.data.toList (pos + 3) (4 * (4 + code)) = some m)
    (hx : 0 < code → 2 ^ (4 * (3 + code)) ≤ m)
    (g3 : getBit inp.data.toList (pos + 3 + 4 * (4 + code)) = some true)
    (gz : ∀ k, pos + 4 + 4 * (4 + code) ≤ k → k < 8 * ((pos + 4 + 4 * (4 + code) + 7) / 8) →
      getBit inp.data.toList k = some false)
    (hsz : (pos + 4 + 4 * (4 + code) + 7) / 8 + (m + 1) ≤ inp.size) :
    decodeMetaBlock cfg wbits ⟨inp, pos, out, d1, d2, d3, d4, sd⟩ =
      .ok false ⟨inp, 8 * ((pos + 4 + 4 * (4 + code) + 7) / 8 + (m + 1)),
        inp.copySlice ((pos + 4 + 4 * (4 + code) + 7) / 8) out out.size (m + 1), d1, d2, d3, d4, true⟩ := by
  have r0 := readVal_of_getBits inp pos 1 0 (by omega) (by omega) (getBits_one _ _ _ g0)
  have r1 := readVal_of_getBits inp (pos + 1) 2 code (by omega) (by omega) g1
  have r2 := readVal_of_getBits inp (pos + 3) (4 * (4 + code)) m (by omega) (by omega) g2
  have r3 := readVal_of_getBits inp (pos + 3 + 4 * (4 + code)) 1 1 (by omega) (by omega)
    (getBits_one _ _ _ g3)
  have rz := readVal_zero_of_getBit inp (pos + 4 + 4 * (4 + code))
    ((8 - (pos + 4 + 4 * (4 + code)) % 8) % 8) (by omega) (by omega)
    (fun k hk => gz _ (by omega) (by omega))
  obtain rfl | rfl | rfl : code = 0 ∨ code = 1 ∨ code = 2 := by omega
  · simp only [Nat.reduceAdd, Nat.reduceMul, Nat.add_assoc] at r1 r2 r3 rz hsz ⊢
    subst r2
    exact mb0 cfg wbits inp pos out d1 d2 d3 d4 sd r0 r1 r3 rz hsz
  · have hn := top_nibble_ne inp (pos + 3) 16 m (by omega) r2 (hx (by omega))
    simp only [Nat.reduceAdd, Nat.reduceMul, Nat.add_assoc] at r1 r2 r3 rz hsz hn ⊢
    subst r2
    exact mb1 cfg wbits inp pos out d1 d2 d3 d4 sd r0 r1 hn r3 rz hsz
  · have hn := top_nibble_ne inp (pos + 3) 20 m (by omega) r2 (hx (by omega))
    simp only [Nat.reduceAdd, Nat.reduceMul, Nat.add_assoc] at r1 r2 r3 rz hsz hn ⊢
    subst r2
    exact mb2 cfg wbits inp pos out d1 d2 d3 d4 sd r0 r1 hn r3 rz hsz

/-! ### 5. one stored meta-block -/

theorem getBit_hbytes_pad (P : List Bool) (code m : Nat) (rest : Bytes) (k : Nat)
    (h1 : (hbits P code m).length ≤ k) (h2 : k < 8 * (hbytes P code m).length) :
    getBit (hbytes P code m ++ rest) k = some false := by
  rw [hbytes, packBits_length] at h2
  rw [hbytes, packBits, getBit_packBitsAux _ _ _ _ (by omega) h2]
  rw [List.getElem?_eq_none h1]
  rfl

/-- Stage 2: the native decoder on one stored meta-block (header `hbytes P code m`, data `c`),
    placed after whole bytes `pre` and a bit prefix `P`. -/
theorem mb_stored (cfg : Config) (wbits : Nat) (pre c t : Bytes) (P : List Bool) (code m : Nat)
    (out : ByteArray) (d1 d2 d3 d4 : Nat) (sd : Bool) (hc : code < 3)
    (hm : m < 2 ^ (4 * (4 + code))) (hx : 0 < code → 2 ^ (4 * (3 + code)) ≤ m)
    (hlen : c.length = m + 1) :
    ∃ out' : ByteArray, out'.data.toList = out.data.toList ++ c ∧
      decodeMetaBlock cfg wbits
        ⟨⟨(pre ++ (hbytes P code m ++ (c ++ t))).toArray⟩, 8 * pre.length + P.length, out, d1, d2, d3, d4, sd⟩
      = .ok false ⟨⟨(pre ++ (hbytes P code m ++ (c ++ t))).toArray⟩,
          8 * (pre.length + (hbytes P code m).length + c.length), out', d1, d2, d3, d4, true⟩ := by
  generalize hinp : (⟨(pre ++ (hbytes P code m ++ (c ++ t))).toArray⟩ : ByteArray) = inp
  have hL : inp.data.toList = pre ++ (hbytes P code m ++ (c ++ t)) := by rw [← hinp]
  have hsize : inp.size = pre.length + ((hbytes P code m).length + (c.length + t.length)) := by
    rw [← hinp]; simp [ByteArray.size]
  have hbl := hbytes_length P code m
  have hst : (8 * pre.length + P.length + 4 + 4 * (4 + code) + 7) / 8
      = pre.length + (hbytes P code m).length := by omega
  have key := mb_bits cfg wbits inp (8 * pre.length + P.length) out d1 d2 d3 d4 sd code m hc
    (by rw [hL, getBit_shift]; exact hb0 ..)
    (by rw [hL, Nat.add_assoc, getBits_shift]; exact hb1 _ _ _ _ hc)
    (by rw [hL, Nat.add_assoc, getBits_shift]; exact hb2 _ _ _ _ hm)
    hx
    (by rw [hL, Nat.add_assoc, Nat.add_assoc, getBit_shift, ← Nat.add_assoc]; exact hb3 ..)
    (by
      intro k hk1 hk2
      obtain ⟨j, rfl⟩ : ∃ j, k = 8 * pre.length + j := ⟨k - 8 * pre.length, by omega⟩
      rw [hL, getBit_shift]
      apply getBit_hbytes_pad
      · rw [hbits_length]; omega
      · omega)
    (by omega)
  rw [hst] at key
  refine ⟨_, ?_, by rw [key, hlen]⟩
  rw [copySlice_toList, hL, ← hlen]
  simp

/-! ### 6. the stream loop -/

theorem bind_ok {α β : Type} (x : M α) (f : α → M β) (s s' : St) (a : α)
    (h : x s = .ok a s') : (x >>= f) s = f a s' := by
  show EStateM.bind x f s = _
  unfold EStateM.bind
  rw [h]

theorem get_bind {β : Type} (f : St → M β) (s : St) : (get >>= f) s = f s s := rfl

theorem alignToByte_bind' {β : Type} (b : Bool) (f : Unit → M β) (inp : ByteArray) (pos : Nat)
    (out : ByteArray) (d1 d2 d3 d4 : Nat) (sd : Bool) (h : pos + (8 - pos % 8) % 8 ≤ 8 * inp.size)
    (hz : readVal inp pos ((8 - pos % 8) % 8) = 0) :
    (alignToByte b >>= f) ⟨inp, pos, out, d1, d2, d3, d4, sd⟩
      = f () ⟨inp, pos + (8 - pos % 8) % 8, out, d1, d2, d3, d4, sd⟩ := by
  show EStateM.bind (alignToByte b) f _ = _
  unfold EStateM.bind alignToByte
  simp only [bind, EStateM.bind, get, getThe, MonadStateOf.get, EStateM.get]
  rw [readBits_ok _ ⟨inp, pos, out, d1, d2, d3, d4, sd⟩ h]
  simp only [hz]
  cases b <;> rfl

/-- the last, empty meta-block -/
theorem mb_last (cfg : Config) (wbits : Nat) (inp : ByteArray) (pos : Nat) (out : ByteArray)
    (d1 d2 d3 d4 : Nat) (sd : Bool)
    (h0 : readVal inp pos 1 = 1) (h1 : readVal inp (pos + 1) 1 = 1) (hsz : pos + 2 ≤ 8 * inp.size) :
    decodeMetaBlock cfg wbits ⟨inp, pos, out, d1, d2, d3, d4, sd⟩ =
      .ok true ⟨inp, pos + 2, out, d1, d2, d3, d4, sd⟩ := by
  unfold decodeMetaBlock
  rw [readBits_bind _ _ _ _ _ _ _ _ _ _ (by omega), h0]
  simp (config := {maxSteps := 4000000}) (disch := first | omega | assumption) only [readBits_bind, h1,
    pure_apply, Nat.reduceBEq, ↓reduceIte, Nat.add_assoc, Nat.reduceAdd]

/-- the body of the meta-block loop of `decodeStream` -/
def body (cfg : Config) (wbits : Nat) : Nat → Option Unit × Unit → M (ForInStep (Option Unit × Unit)) :=
  fun _ _ => decodeMetaBlock cfg wbits >>= fun r =>
    if r = true then
      (get >>= fun st => alignToByte (cfg.strict || !st.sawData) >>= fun _ =>
        pure (ForInStep.done (some (), ())))
    else pure (ForInStep.yield (none, ()))

theorem decodeStream_eq (cfg : Config) :
    decodeStream cfg = (readWindowBits cfg.strict >>= fun wbits => get >>= fun st =>
      forIn [:8 * st.inp.size + 1] ((none : Option Unit), ()) (body cfg wbits) >>= fun r =>
        match r.fst with
        | some r => pure r
        | none => fail "fuel") := by
  unfold decodeStream body
  congr 1; funext wbits; congr 1; funext st
  show (_ >>= _) = (_ >>= _)
  congr 1; funext r
  rcases r with ⟨_ | _, _⟩ <;> rfl

theorem rv_bit (inp : ByteArray) (pre : Bytes) (x : UInt8) (hL : inp.data.toList = pre ++ [x])
    (k : Nat) (hk : k < 8) (b : Bool) (hb : getBit [x] k = some b) :
    readVal inp (8 * pre.length + k) 1 = b.toNat := by
  have hs : inp.size = pre.length + 1 := by
    have := congrArg List.length hL
    rw [Array.length_toList, List.length_append] at this
    exact this
  apply readVal_of_getBits _ _ _ _ (by omega) (by omega)
  apply getBits_one
  rw [hL, getBit_shift, hb]

theorem rv_pad (inp : ByteArray) (pre : Bytes) (x : UInt8) (hL : inp.data.toList = pre ++ [x])
    (k : Nat) (hk : k ≤ 8) (hb : ∀ j, k ≤ j → j < 8 → getBit [x] j = some false) :
    readVal inp (8 * pre.length + k) (8 - k) = 0 := by
  have hs : inp.size = pre.length + 1 := by
    have := congrArg List.length hL
    rw [Array.length_toList, List.length_append] at this
    exact this
  apply readVal_zero_of_getBit _ _ _ (by omega) (by omega)
  intro j hj
  rw [hL, Nat.add_assoc, getBit_shift, hb _ (by omega) (by omega)]


theorem body_last (cfg : Config) (wbits i : Nat) (r : Option Unit × Unit) (inp : ByteArray) (pos : Nat)
    (out : ByteArray) (d1 d2 d3 d4 : Nat) (sd : Bool)
    (h0 : readVal inp pos 1 = 1) (h1 : readVal inp (pos + 1) 1 = 1)
    (hsz : pos + 2 + (8 - (pos + 2) % 8) % 8 ≤ 8 * inp.size)
    (hz : readVal inp (pos + 2) ((8 - (pos + 2) % 8) % 8) = 0) :
    body cfg wbits i r ⟨inp, pos, out, d1, d2, d3, d4, sd⟩ =
      .ok (.done (some (), ())) ⟨inp, pos + 2 + (8 - (pos + 2) % 8) % 8, out, d1, d2, d3, d4, sd⟩ := by
  unfold body
  rw [bind_ok _ _ _ _ _ (mb_last cfg wbits inp pos out d1 d2 d3 d4 sd h0 h1 (by omega))]
  simp only [↓reduceIte, get_bind]
  rw [alignToByte_bind' _ _ _ _ _ _ _ _ _ _ hsz hz]
  rfl

theorem body_block (cfg : Config) (wbits i : Nat) (r : Option Unit × Unit) (s s' : St)
    (h : decodeMetaBlock cfg wbits s = .ok false s') :
    body cfg wbits i r s = .ok (.yield (none, ())) s' := by
  unfold body
  rw [bind_ok _ _ _ _ _ h]
  rfl

theorem getBit_one (x : UInt8) (k : Nat) (hk : k < 8) :
    getBit [x] k = some (decide ((x.toNat / 2 ^ k) % 2 = 1)) := by
  have e1 : k / 8 = 0 := by omega
  have e2 : k % 8 = k := by omega
  simp [getBit, e1, e2]

theorem loop_stream (cfg : Config) (wbits : Nat) (cs : List Bytes) (hv : Valid cs) :
    ∀ (f : Bool) (pre : Bytes) (out : ByteArray) (d1 d2 d3 d4 : Nat) (sd : Bool) (l : List Nat),
      cs.length < l.length →
      ∃ (out' : ByteArray) (sd' : Bool), out'.data.toList = out.data.toList ++ cs.flatten ∧
        forIn l ((none : Option Unit), ()) (body cfg wbits)
          ⟨⟨(pre ++ sStream f cs).toArray⟩, 8 * pre.length + (pfx f).length, out, d1, d2, d3, d4, sd⟩
        = .ok (some (), ()) ⟨⟨(pre ++ sStream f cs).toArray⟩, 8 * (pre ++ sStream f cs).length, out',
            d1, d2, d3, d4, sd'⟩ := by
  induction cs with
  | nil =>
    intro f pre out d1 d2 d3 d4 sd l hl
    obtain ⟨i, l', rfl⟩ : ∃ i l', l = i :: l' := by
      cases l with
      | nil => simp at hl
      | cons i l' => exact ⟨i, l', rfl⟩
    refine ⟨out, sd, by simp, ?_⟩
    rw [List.forIn_cons]
    have hS : sStream f [] = [if f then 6 else 3] := rfl
    rw [hS]
    generalize hinp : (⟨(pre ++ [if f then (6 : UInt8) else 3]).toArray⟩ : ByteArray) = inp
    have hL : inp.data.toList = pre ++ [if f then (6 : UInt8) else 3] := by rw [← hinp]
    have hs : inp.size = pre.length + 1 := by
      have := congrArg List.length hL
      rw [Array.length_toList, List.length_append] at this
      exact this
    cases f
    · -- byte 3: ISLAST, ISLASTEMPTY at bits 0, 1
      have h0 := rv_bit inp pre 3 hL 0 (by omega) true (by rw [getBit_one _ _ (by omega)]; decide)
      have h1 := rv_bit inp pre 3 hL 1 (by omega) true (by rw [getBit_one _ _ (by omega)]; decide)
      have hz := rv_pad inp pre 3 hL 2 (by omega) (by
        intro j h1 h2
        rw [getBit_one _ _ h2]
        have : j = 2 ∨ j = 3 ∨ j = 4 ∨ j = 5 ∨ j = 6 ∨ j = 7 := by omega
        rcases this with rfl | rfl | rfl | rfl | rfl | rfl <;> decide)
      have e : (8 - (8 * pre.length + 0 + 2) % 8) % 8 = 8 - 2 := by omega
      have e' : 8 * pre.length + 0 + 2 = 8 * pre.length + 2 := by omega
      have e'' : 8 * pre.length + 0 + 1 = 8 * pre.length + 1 := by omega
      rw [bind_ok _ _ _ _ _ (body_last cfg wbits i _ inp (8 * pre.length + (pfx false).length) out d1 d2 d3 d4 sd
        h0 (by rw [show (pfx false).length = 0 from rfl, e'']; exact h1)
        (by rw [show (pfx false).length = 0 from rfl]; omega)
        (by rw [show (pfx false).length = 0 from rfl, e, e']; exact hz))]
      show EStateM.Result.ok _ _ = _
      have e3 : 8 * pre.length + (pfx false).length + 2 + (8 - (8 * pre.length + (pfx false).length + 2) % 8) % 8
          = 8 * (pre ++ [(3 : UInt8)]).length := by
        rw [show (pfx false).length = 0 from rfl]; simp; omega
      rw [e3]
      rfl
    · -- byte 6: WBITS at bit 0, ISLAST, ISLASTEMPTY at bits 1, 2
      have h0 := rv_bit inp pre 6 hL 1 (by omega) true (by rw [getBit_one _ _ (by omega)]; decide)
      have h1 := rv_bit inp pre 6 hL 2 (by omega) true (by rw [getBit_one _ _ (by omega)]; decide)
      have hz := rv_pad inp pre 6 hL 3 (by omega) (by
        intro j h1 h2
        rw [getBit_one _ _ h2]
        have : j = 3 ∨ j = 4 ∨ j = 5 ∨ j = 6 ∨ j = 7 := by omega
        rcases this with rfl | rfl | rfl | rfl | rfl <;> decide)
      have e : (8 - (8 * pre.length + 1 + 2) % 8) % 8 = 8 - 3 := by omega
      have e' : 8 * pre.length + 1 + 2 = 8 * pre.length + 3 := by omega
      have e'' : 8 * pre.length + 1 + 1 = 8 * pre.length + 2 := by omega
      rw [bind_ok _ _ _ _ _ (body_last cfg wbits i _ inp (8 * pre.length + (pfx true).length) out d1 d2 d3 d4 sd
        h0 (by rw [show (pfx true).length = 1 from rfl, e'']; exact h1)
        (by rw [show (pfx true).length = 1 from rfl]; omega)
        (by rw [show (pfx true).length = 1 from rfl, e, e']; exact hz))]
      show EStateM.Result.ok _ _ = _
      have e3 : 8 * pre.length + (pfx true).length + 2 + (8 - (8 * pre.length + (pfx true).length + 2) % 8) % 8
          = 8 * (pre ++ [(6 : UInt8)]).length := by
        rw [show (pfx true).length = 1 from rfl]; simp; omega
      rw [e3]
      rfl
  | cons c cs ih =>
    intro f pre out d1 d2 d3 d4 sd l hl
    obtain ⟨i, l', rfl⟩ : ∃ i l', l = i :: l' := by
      cases l with
      | nil => simp at hl
      | cons i l' => exact ⟨i, l', rfl⟩
    have hc := hv c (by simp)
    have hv' : Valid cs := fun x hx => hv x (by simp [hx])
    have hx : 0 < codeOf c.length → 2 ^ (4 * (3 + codeOf c.length)) ≤ c.length - 1 := by
      unfold codeOf; repeat' split
      all_goals ((try simp) <;> omega)
    obtain ⟨out1, ho1, hd⟩ := mb_stored cfg wbits pre c (sStream false cs) (pfx f) (codeOf c.length)
      (c.length - 1) out d1 d2 d3 d4 sd (codeOf_lt _) (codeOf_fit _ hc.1 hc.2) hx (by omega)
    generalize hhb : hbytes (pfx f) (codeOf c.length) (c.length - 1) = hb at hd
    have eL : pre ++ sStream f (c :: cs) = pre ++ (hb ++ (c ++ sStream false cs)) := by
      rw [sStream, storedPiece_eq, hhb, List.append_assoc]
    obtain ⟨out2, sd2, ho2, hloop⟩ := ih hv' false (pre ++ hb ++ c) out1 d1 d2 d3 d4 true l'
      (by simp at hl ⊢; omega)
    have eL' : pre ++ hb ++ c ++ sStream false cs = pre ++ (hb ++ (c ++ sStream false cs)) := by
      simp
    have ep : 8 * (pre ++ hb ++ c).length + (pfx false).length = 8 * (pre.length + hb.length + c.length) := by
      simp [pfx]; omega
    rw [eL', ep] at hloop
    refine ⟨out2, sd2, by rw [ho2, ho1]; simp, ?_⟩
    rw [eL, List.forIn_cons, bind_ok _ _ _ _ _ (body_block cfg wbits i _ _ _ hd)]
    exact hloop

/-! ### 7. the whole stream -/

theorem toList_loop (bs : ByteArray) : ∀ (n i : Nat) (r : List UInt8), bs.size - i = n →
    ByteArray.toList.loop bs i r = r.reverse ++ bs.data.toList.drop i := by
  intro n
  induction n with
  | zero =>
    intro i r h
    unfold ByteArray.toList.loop
    have hs : bs.data.size ≤ i := by show bs.size ≤ i; omega
    rw [if_neg (by omega), List.drop_eq_nil_of_le (by simpa using hs)]
    simp
  | succ n ih =>
    intro i r h
    unfold ByteArray.toList.loop
    have hi : i < bs.data.size := by show i < bs.size; omega
    rw [if_pos (by omega), ih (i + 1) _ (by omega)]
    have hd : bs.data.toList.drop i = bs.data[i] :: bs.data.toList.drop (i + 1) := by
      rw [List.drop_eq_getElem_cons (by simpa using hi)]
      simp
    have hg : bs.get! i = bs.data[i] := by
      show bs.data[i]! = bs.data[i]
      exact getElem!_pos bs.data i hi
    rw [hd, hg]
    simp

theorem toList_eq (bs : ByteArray) : bs.toList = bs.data.toList := by
  rw [ByteArray.toList, toList_loop bs bs.size 0 [] (by omega)]
  simp

theorem rwb16 (strict : Bool) (inp : ByteArray) (out : ByteArray) (d1 d2 d3 d4 : Nat) (sd : Bool)
    (h : readVal inp 0 1 = 0) (hsz : 1 ≤ 8 * inp.size) :
    readWindowBits strict ⟨inp, 0, out, d1, d2, d3, d4, sd⟩ = .ok 16 ⟨inp, 1, out, d1, d2, d3, d4, sd⟩ := by
  unfold readWindowBits
  rw [readBits_bind _ _ _ _ _ _ _ _ _ _ (by omega), h]
  simp only [Nat.reduceBEq, ↓reduceIte, pure_apply, Nat.zero_add]

/-- Stage 3: the native decoder on a whole stored stream -/
theorem decodeStream_sStream (cfg : Config) (cs : List Bytes) (hv : Valid cs) :
    ∃ (out : ByteArray) (sd : Bool), out.data.toList = cs.flatten ∧
      decodeStream cfg { inp := ⟨(sStream true cs).toArray⟩ } =
        .ok () ⟨⟨(sStream true cs).toArray⟩, 8 * (sStream true cs).length, out, 4, 11, 15, 16, sd⟩ := by
  have hpos := sStream_length_pos true cs
  have hgt := sStream_length_gt true cs
  have hsize : (⟨(sStream true cs).toArray⟩ : ByteArray).size = (sStream true cs).length := by
    simp [ByteArray.size]
  have h0 : readVal ⟨(sStream true cs).toArray⟩ 0 1 = 0 := by
    apply readVal_of_getBits _ _ _ _ (by omega) (by rw [hsize]; omega)
    apply getBits_one _ _ false
    have := getBit_sStream_zero cs []
    simpa using this
  obtain ⟨out, sd, ho, hloop⟩ := loop_stream cfg 16 cs hv true [] ByteArray.empty 4 11 15 16 false
    (List.range' 0 (8 * (sStream true cs).length + 1) 1) (by simp; omega)
  simp only [List.nil_append, List.length_nil, Nat.mul_zero, Nat.zero_add,
    show (pfx true).length = 1 from rfl] at hloop
  refine ⟨out, sd, by simpa using ho, ?_⟩
  rw [decodeStream_eq, bind_ok _ _ _ _ _ (rwb16 cfg.strict _ _ _ _ _ _ _ h0 (by rw [hsize]; omega)), get_bind]
  simp only [Std.Legacy.Range.forIn_eq_forIn_range', Std.Legacy.Range.size, hsize, Nat.sub_zero,
    Nat.add_sub_cancel, Nat.div_one]
  rw [bind_ok _ _ _ _ _ hloop]
  rfl

theorem brotliDec_sStream (strict : Bool) (cs : List Bytes) (hv : Valid cs) :
    brotliDec strict (sStream true cs) = some cs.flatten := by
  obtain ⟨out, sd, ho, h⟩ := decodeStream_sStream { strict := strict } cs hv
  unfold brotliDec decodeWith
  simp only [EStateM.run, h, toList_eq, ho]
  simp

/-! ### 8. the whole stream followed by other bytes -/

theorem getBit_head (x : UInt8) (t : Bytes) (k : Nat) (hk : k < 8) :
    getBit (x :: t) k = getBit [x] k := by
  rw [getBit_cons, getBit_cons, if_pos hk, if_pos hk]

theorem rv_bit_t (inp : ByteArray) (pre t : Bytes) (x : UInt8) (hL : inp.data.toList = pre ++ x :: t)
    (k : Nat) (hk : k < 8) (b : Bool) (hb : getBit [x] k = some b) :
    readVal inp (8 * pre.length + k) 1 = b.toNat := by
  have hs : inp.size = pre.length + (t.length + 1) := by
    have := congrArg List.length hL
    rw [Array.length_toList, List.length_append, List.length_cons] at this
    exact this
  apply readVal_of_getBits _ _ _ _ (by omega) (by omega)
  apply getBits_one
  rw [hL, getBit_shift, getBit_head _ _ _ hk, hb]

theorem rv_pad_t (inp : ByteArray) (pre t : Bytes) (x : UInt8) (hL : inp.data.toList = pre ++ x :: t)
    (k : Nat) (hk : k ≤ 8) (hb : ∀ j, k ≤ j → j < 8 → getBit [x] j = some false) :
    readVal inp (8 * pre.length + k) (8 - k) = 0 := by
  have hs : inp.size = pre.length + (t.length + 1) := by
    have := congrArg List.length hL
    rw [Array.length_toList, List.length_append, List.length_cons] at this
    exact this
  apply readVal_zero_of_getBit _ _ _ (by omega) (by omega)
  intro j hj
  rw [hL, Nat.add_assoc, getBit_shift, getBit_head _ _ _ (by omega), hb _ (by omega) (by omega)]

theorem loop_stream_t (cfg : Config) (wbits : Nat) (t : Bytes) (cs : List Bytes) (hv : Valid cs) :
    ∀ (f : Bool) (pre : Bytes) (out : ByteArray) (d1 d2 d3 d4 : Nat) (sd : Bool) (l : List Nat),
      cs.length < l.length →
      ∃ (out' : ByteArray) (sd' : Bool), out'.data.toList = out.data.toList ++ cs.flatten ∧
        forIn l ((none : Option Unit), ()) (body cfg wbits)
          ⟨⟨(pre ++ (sStream f cs ++ t)).toArray⟩, 8 * pre.length + (pfx f).length, out, d1, d2, d3, d4, sd⟩
        = .ok (some (), ()) ⟨⟨(pre ++ (sStream f cs ++ t)).toArray⟩, 8 * (pre ++ sStream f cs).length, out',
            d1, d2, d3, d4, sd'⟩ := by
  induction cs with
  | nil =>
    intro f pre out d1 d2 d3 d4 sd l hl
    obtain ⟨i, l', rfl⟩ : ∃ i l', l = i :: l' := by
      cases l with
      | nil => simp at hl
      | cons i l' => exact ⟨i, l', rfl⟩
    refine ⟨out, sd, by simp, ?_⟩
    rw [List.forIn_cons]
    have hS : sStream f [] = [if f then 6 else 3] := rfl
    rw [hS]
    generalize hinp : (⟨(pre ++ ([if f then (6 : UInt8) else 3] ++ t)).toArray⟩ : ByteArray) = inp
    have hL : inp.data.toList = pre ++ (if f then (6 : UInt8) else 3) :: t := by rw [← hinp]; rfl
    have hs : inp.size = pre.length + (t.length + 1) := by
      have := congrArg List.length hL
      rw [Array.length_toList, List.length_append, List.length_cons] at this
      exact this
    cases f
    · have h0 := rv_bit_t inp pre t 3 hL 0 (by omega) true (by rw [getBit_one _ _ (by omega)]; decide)
      have h1 := rv_bit_t inp pre t 3 hL 1 (by omega) true (by rw [getBit_one _ _ (by omega)]; decide)
      have hz := rv_pad_t inp pre t 3 hL 2 (by omega) (by
        intro j h1 h2
        rw [getBit_one _ _ h2]
        have : j = 2 ∨ j = 3 ∨ j = 4 ∨ j = 5 ∨ j = 6 ∨ j = 7 := by omega
        rcases this with rfl | rfl | rfl | rfl | rfl | rfl <;> decide)
      have e : (8 - (8 * pre.length + 0 + 2) % 8) % 8 = 8 - 2 := by omega
      have e' : 8 * pre.length + 0 + 2 = 8 * pre.length + 2 := by omega
      have e'' : 8 * pre.length + 0 + 1 = 8 * pre.length + 1 := by omega
      rw [bind_ok _ _ _ _ _ (body_last cfg wbits i _ inp (8 * pre.length + (pfx false).length) out d1 d2 d3 d4 sd
        h0 (by rw [show (pfx false).length = 0 from rfl, e'']; exact h1)
        (by rw [show (pfx false).length = 0 from rfl]; omega)
        (by rw [show (pfx false).length = 0 from rfl, e, e']; exact hz))]
      show EStateM.Result.ok _ _ = _
      have e3 : 8 * pre.length + (pfx false).length + 2 + (8 - (8 * pre.length + (pfx false).length + 2) % 8) % 8
          = 8 * (pre ++ [(3 : UInt8)]).length := by
        rw [show (pfx false).length = 0 from rfl]; simp; omega
      rw [e3]
      rfl
    · have h0 := rv_bit_t inp pre t 6 hL 1 (by omega) true (by rw [getBit_one _ _ (by omega)]; decide)
      have h1 := rv_bit_t inp pre t 6 hL 2 (by omega) true (by rw [getBit_one _ _ (by omega)]; decide)
      have hz := rv_pad_t inp pre t 6 hL 3 (by omega) (by
        intro j h1 h2
        rw [getBit_one _ _ h2]
        have : j = 3 ∨ j = 4 ∨ j = 5 ∨ j = 6 ∨ j = 7 := by omega
        rcases this with rfl | rfl | rfl | rfl | rfl <;> decide)
      have e : (8 - (8 * pre.length + 1 + 2) % 8) % 8 = 8 - 3 := by omega
      have e' : 8 * pre.length + 1 + 2 = 8 * pre.length + 3 := by omega
      have e'' : 8 * pre.length + 1 + 1 = 8 * pre.length + 2 := by omega
      rw [bind_ok _ _ _ _ _ (body_last cfg wbits i _ inp (8 * pre.length + (pfx true).length) out d1 d2 d3 d4 sd
        h0 (by rw [show (pfx true).length = 1 from rfl, e'']; exact h1)
        (by rw [show (pfx true).length = 1 from rfl]; omega)
        (by rw [show (pfx true).length = 1 from rfl, e, e']; exact hz))]
      show EStateM.Result.ok _ _ = _
      have e3 : 8 * pre.length + (pfx true).length + 2 + (8 - (8 * pre.length + (pfx true).length + 2) % 8) % 8
          = 8 * (pre ++ [(6 : UInt8)]).length := by
        rw [show (pfx true).length = 1 from rfl]; simp; omega
      rw [e3]
      rfl
  | cons c cs ih =>
    intro f pre out d1 d2 d3 d4 sd l hl
    obtain ⟨i, l', rfl⟩ : ∃ i l', l = i :: l' := by
      cases l with
      | nil => simp at hl
      | cons i l' => exact ⟨i, l', rfl⟩
    have hc := hv c (by simp)
    have hv' : Valid cs := fun x hx => hv x (by simp [hx])
    have hx : 0 < codeOf c.length → 2 ^ (4 * (3 + codeOf c.length)) ≤ c.length - 1 := by
      unfold codeOf; repeat' split
      all_goals ((try simp) <;> omega)
    obtain ⟨out1, ho1, hd⟩ := mb_stored cfg wbits pre c (sStream false cs ++ t) (pfx f) (codeOf c.length)
      (c.length - 1) out d1 d2 d3 d4 sd (codeOf_lt _) (codeOf_fit _ hc.1 hc.2) hx (by omega)
    generalize hhb : hbytes (pfx f) (codeOf c.length) (c.length - 1) = hb at hd
    have eL : pre ++ (sStream f (c :: cs) ++ t) = pre ++ (hb ++ (c ++ (sStream false cs ++ t))) := by
      rw [sStream, storedPiece_eq, hhb]; simp
    have eN : (pre ++ sStream f (c :: cs)).length = (pre ++ hb ++ c ++ sStream false cs).length := by
      rw [sStream, storedPiece_eq, hhb]; simp
    obtain ⟨out2, sd2, ho2, hloop⟩ := ih hv' false (pre ++ hb ++ c) out1 d1 d2 d3 d4 true l'
      (by simp at hl ⊢; omega)
    have eL' : pre ++ hb ++ c ++ (sStream false cs ++ t) = pre ++ (hb ++ (c ++ (sStream false cs ++ t))) := by
      simp
    have ep : 8 * (pre ++ hb ++ c).length + (pfx false).length = 8 * (pre.length + hb.length + c.length) := by
      simp [pfx]; omega
    rw [eL', ep] at hloop
    refine ⟨out2, sd2, by rw [ho2, ho1]; simp, ?_⟩
    rw [eL, eN, List.forIn_cons, bind_ok _ _ _ _ _ (body_block cfg wbits i _ _ _ hd)]
    exact hloop

/-- Stage 3 with trailing bytes: the decoder stops at the end of the stored stream -/
theorem decodeStream_sStream_t (cfg : Config) (cs : List Bytes) (rest : Bytes) (hv : Valid cs) :
    ∃ (out : ByteArray) (sd : Bool), out.data.toList = cs.flatten ∧
      decodeStream cfg { inp := ⟨(sStream true cs ++ rest).toArray⟩ } =
        .ok () ⟨⟨(sStream true cs ++ rest).toArray⟩, 8 * (sStream true cs).length, out, 4, 11, 15, 16, sd⟩ := by
  have hpos := sStream_length_pos true cs
  have hgt := sStream_length_gt true cs
  have hsize : (⟨(sStream true cs ++ rest).toArray⟩ : ByteArray).size
      = (sStream true cs).length + rest.length := by
    simp [ByteArray.size]
  have h0 : readVal ⟨(sStream true cs ++ rest).toArray⟩ 0 1 = 0 := by
    apply readVal_of_getBits _ _ _ _ (by omega) (by rw [hsize]; omega)
    apply getBits_one _ _ false
    exact getBit_sStream_zero cs rest
  obtain ⟨out, sd, ho, hloop⟩ := loop_stream_t cfg 16 rest cs hv true [] ByteArray.empty 4 11 15 16 false
    (List.range' 0 (8 * ((sStream true cs).length + rest.length) + 1) 1) (by simp; omega)
  simp only [List.nil_append, List.length_nil, Nat.mul_zero, Nat.zero_add,
    show (pfx true).length = 1 from rfl] at hloop
  refine ⟨out, sd, by simpa using ho, ?_⟩
  rw [decodeStream_eq, bind_ok _ _ _ _ _ (rwb16 cfg.strict _ _ _ _ _ _ _ h0 (by rw [hsize]; omega)), get_bind]
  simp only [Std.Legacy.Range.forIn_eq_forIn_range', Std.Legacy.Range.size, hsize, Nat.sub_zero,
    Nat.add_sub_cancel, Nat.div_one]
  rw [bind_ok _ _ _ _ _ hloop]
  rfl

theorem brotliDecStream_sStream (strict : Bool) (cs : List Bytes) (rest : Bytes) (hv : Valid cs) :
    brotliDecStream strict (sStream true cs ++ rest) = (cs.flatten, some rest, false) := by
  obtain ⟨out, sd, ho, h⟩ := decodeStream_sStream_t { strict := strict } cs rest hv
  unfold brotliDecStream decodeWith
  simp only [EStateM.run, h, toList_eq, ho]
  simp

/-! ### 9. the stream cut just before its closing byte (what a flush has emitted) -/

theorem bind_err {α β : Type} (x : M α) (f : α → M β) (s s' : St) (e : Stop)
    (h : x s = .error e s') : (x >>= f) s = .error e s' := by
  show EStateM.bind x f s = _
  unfold EStateM.bind
  rw [h]

/-- a stored stream without its closing byte -/
def sBody : Bool → List Bytes → Bytes
  | _, [] => []
  | f, c :: cs => storedPiece f c ++ sBody false cs

theorem sStream_eq_sBody (f : Bool) (cs : List Bytes) :
    sStream f cs = sBody f cs ++ [if f && cs.isEmpty then 6 else 3] := by
  induction cs generalizing f with
  | nil => cases f <;> rfl
  | cons c cs ih =>
    rw [sStream, sBody, ih false]
    simp

theorem mb_needMore (cfg : Config) (wbits : Nat) (s : St) (h : ¬ s.pos + 1 ≤ 8 * s.inp.size) :
    decodeMetaBlock cfg wbits s = .error .needMore s := by
  unfold decodeMetaBlock
  rw [bind_err _ _ _ _ _ (readBits_needMore 1 s h)]

theorem body_err (cfg : Config) (wbits i : Nat) (r : Option Unit × Unit) (s s' : St) (e : Stop)
    (h : decodeMetaBlock cfg wbits s = .error e s') :
    body cfg wbits i r s = .error e s' := by
  unfold body
  rw [bind_err _ _ _ _ _ h]

/-- the loop on a stream cut just before its closing byte: all chunks, then "need more input" -/
theorem loop_body_cut (cfg : Config) (wbits : Nat) (cs : List Bytes) (hv : Valid cs) :
    ∀ (f : Bool) (pre : Bytes) (out : ByteArray) (d1 d2 d3 d4 : Nat) (sd : Bool) (l : List Nat),
      cs.length < l.length →
      ∃ (s' : St), s'.out.data.toList = out.data.toList ++ cs.flatten ∧
        forIn l ((none : Option Unit), ()) (body cfg wbits)
          ⟨⟨(pre ++ sBody f cs).toArray⟩, 8 * pre.length + (pfx f).length, out, d1, d2, d3, d4, sd⟩
        = .error .needMore s' := by
  induction cs with
  | nil =>
    intro f pre out d1 d2 d3 d4 sd l hl
    obtain ⟨i, l', rfl⟩ : ∃ i l', l = i :: l' := by
      cases l with
      | nil => simp at hl
      | cons i l' => exact ⟨i, l', rfl⟩
    refine ⟨⟨⟨(pre ++ sBody f []).toArray⟩, 8 * pre.length + (pfx f).length, out, d1, d2, d3, d4, sd⟩, ?_, ?_⟩
    rotate_left
    · rw [List.forIn_cons]
      apply bind_err
      apply body_err
      apply mb_needMore
      show ¬ 8 * pre.length + (pfx f).length + 1 ≤ 8 * (pre ++ sBody f []).toArray.size
      simp [sBody]; omega
    · simp
  | cons c cs ih =>
    intro f pre out d1 d2 d3 d4 sd l hl
    obtain ⟨i, l', rfl⟩ : ∃ i l', l = i :: l' := by
      cases l with
      | nil => simp at hl
      | cons i l' => exact ⟨i, l', rfl⟩
    have hc := hv c (by simp)
    have hv' : Valid cs := fun x hx => hv x (by simp [hx])
    have hx : 0 < codeOf c.length → 2 ^ (4 * (3 + codeOf c.length)) ≤ c.length - 1 := by
      unfold codeOf; repeat' split
      all_goals ((try simp) <;> omega)
    obtain ⟨out1, ho1, hd⟩ := mb_stored cfg wbits pre c (sBody false cs) (pfx f) (codeOf c.length)
      (c.length - 1) out d1 d2 d3 d4 sd (codeOf_lt _) (codeOf_fit _ hc.1 hc.2) hx (by omega)
    generalize hhb : hbytes (pfx f) (codeOf c.length) (c.length - 1) = hb at hd
    have eL : pre ++ sBody f (c :: cs) = pre ++ (hb ++ (c ++ sBody false cs)) := by
      rw [sBody, storedPiece_eq, hhb]; simp
    obtain ⟨s2, ho2, hloop⟩ := ih hv' false (pre ++ hb ++ c) out1 d1 d2 d3 d4 true l'
      (by simp at hl ⊢; omega)
    have eL' : pre ++ hb ++ c ++ sBody false cs = pre ++ (hb ++ (c ++ sBody false cs)) := by
      simp
    have ep : 8 * (pre ++ hb ++ c).length + (pfx false).length = 8 * (pre.length + hb.length + c.length) := by
      simp [pfx]; omega
    rw [eL', ep] at hloop
    refine ⟨s2, by rw [ho2, ho1]; simp, ?_⟩
    rw [eL, List.forIn_cons, bind_ok _ _ _ _ _ (body_block cfg wbits i _ _ _ hd)]
    exact hloop

theorem brotliDecStream_sBody (strict : Bool) (cs : List Bytes) (hv : Valid cs) :
    brotliDecStream strict (sBody true cs) = (cs.flatten, none, false) := by
  cases cs with
  | nil =>
    have h : decodeStream { strict := strict } { inp := ⟨([] : Bytes).toArray⟩ }
        = .error .needMore { inp := ⟨([] : Bytes).toArray⟩ } := by
      rw [decodeStream_eq]
      apply bind_err
      unfold readWindowBits
      apply bind_err
      apply readBits_needMore
      decide
    unfold brotliDecStream decodeWith
    simp only [sBody, EStateM.run, h]
    simp
  | cons c cs' =>
    have hc := hv c (by simp)
    have hpos : 0 < (sBody true (c :: cs')).length := by
      rw [sBody, List.length_append, storedPiece_length]; omega
    have hgt : (c :: cs').length < (sBody true (c :: cs')).length + 1 := by
      have := sStream_length_gt true (c :: cs')
      rw [sStream_eq_sBody] at this
      simpa using this
    have hsize : (⟨(sBody true (c :: cs')).toArray⟩ : ByteArray).size = (sBody true (c :: cs')).length := by
      simp [ByteArray.size]
    have h0 : readVal ⟨(sBody true (c :: cs')).toArray⟩ 0 1 = 0 := by
      apply readVal_of_getBits _ _ _ _ (by omega) (by rw [hsize]; omega)
      apply getBits_one _ _ false
      rw [sBody, storedPiece_eq, List.append_assoc]
      have := getBit_packBits_at []
        ([false] ++ bitsOf (codeOf c.length) 2 ++ bitsOf (c.length - 1) (4 * (4 + codeOf c.length))
          ++ [true]) false (c ++ sBody false cs')
      simpa [hbytes, hbits, pfx] using this
    obtain ⟨s', ho, hloop⟩ := loop_body_cut { strict := strict } 16 (c :: cs') hv true [] ByteArray.empty
      4 11 15 16 false (List.range' 0 (8 * (sBody true (c :: cs')).length + 1) 1) (by rw [List.length_range']; omega)
    simp only [List.nil_append, List.length_nil, Nat.mul_zero, Nat.zero_add,
      show (pfx true).length = 1 from rfl] at hloop
    have h : decodeStream { strict := strict } { inp := ⟨(sBody true (c :: cs')).toArray⟩ }
        = .error .needMore s' := by
      rw [decodeStream_eq, bind_ok _ _ _ _ _ (rwb16 strict _ _ _ _ _ _ _ h0 (by rw [hsize]; omega)), get_bind]
      simp only [Std.Legacy.Range.forIn_eq_forIn_range', Std.Legacy.Range.size, hsize, Nat.sub_zero,
        Nat.add_sub_cancel, Nat.div_one]
      rw [bind_err _ _ _ _ _ hloop]
    unfold brotliDecStream decodeWith
    simp only [EStateM.run, h, toList_eq, ho]
    simp

end BrStoredPf
end MlaModel

/-
  Helper lemmas for `MlaModel.Theorems.C09Stack`:
    * the encryption sink depends only on the concatenation of the pieces it is given;
    * the compression writer ignores zero-length `write_all` calls (`CW.writeAll _ _ _ w [] = (w, [])`),
      so the compression layer's output depends only on the call list with empty writes removed;
    * the archive writer's call list, with empty writes removed, is the same for an op list and for
      the op list with refused calls erased (cut re-indexed by `origIdx`).
-/
import MlaModel.Theorems.C07
import MlaModel.Theorems.C09
namespace MlaModel.C09
open MlaModel

/-! ### encryption sink: only the concatenated bytes matter -/

theorem EW.inv_unique (P : Params) (C : EncPrims) (w w' : EW) (p out out' : Bytes)
    (h : EW.Inv P C w p out) (h' : EW.Inv P C w' p out') : w = w' ∧ out = out' := by
  have hc := P.hchunk
  have key : ∀ (v : EW) (o : Bytes), EW.Inv P C v p o → (p.length - 1) / P.chunk = v.ctr := by
    intro v o hv
    obtain ⟨hlen, hle, hcur, hout, hnz⟩ := hv
    by_cases hz : v.cur = []
    · have h0 := hnz hz
      have : v.cur.length = 0 := by simp [hz]
      rw [hlen, h0, this]; simp
    · have hpos : 0 < v.cur.length := List.length_pos_iff.mpr hz
      rw [hlen]
      have : v.ctr * P.chunk + v.cur.length - 1 = P.chunk * v.ctr + (v.cur.length - 1) := by
        rw [Nat.mul_comm]; omega
      rw [this, Nat.mul_add_div hc, Nat.div_eq_of_lt (by omega)]; simp
  have k1 := key w out h
  have k2 := key w' out' h'
  have hctr : w.ctr = w'.ctr := by rw [← k1, ← k2]
  have hcur : w.cur = w'.cur := by rw [h.cur, h'.cur, hctr]
  have hw : w = w' := by
    cases w; cases w'; simp_all
  exact ⟨hw, by rw [h.out, h'.out, hctr, hcur]⟩

theorem encWritePieces_congr (P : Params) (C : EncPrims) (a b : List Bytes) (h : a.flatten = b.flatten) :
    encWritePieces P C a = encWritePieces P C b := by
  have ha := encWritePieces_inv P C a
  have hb := encWritePieces_inv P C b
  rw [h] at ha
  obtain ⟨h1, h2⟩ := EW.inv_unique P C _ _ _ _ _ ha hb
  exact Prod.ext h1 h2

/-- what the encryption layer sends to the destination depends only on the bytes it received
    (not on how they were cut into `write_all` calls, nor on flushes) -/
theorem encSink_congr (P : Params) (C : EncPrims) (a b : List LAct) (fin : Bool)
    (h : LAct.written a = LAct.written b) : Stack.encSink P C a fin = Stack.encSink P C b fin := by
  unfold Stack.encSink
  rw [encWritePieces_congr P C (LAct.pieces a) (LAct.pieces b)
    (by rw [C07.pieces_flatten, C07.pieces_flatten, h])]

/-! ### empty writes -/

/-- a zero-length `write_all` -/
def isEmptyWrite : LAct → Bool
  | .write [] => true
  | _ => false

/-- a call list without its zero-length writes -/
def strip (l : List LAct) : List LAct := l.filter (fun a => !isEmptyWrite a)

theorem strip_append (a b : List LAct) : strip (a ++ b) = strip a ++ strip b := by
  simp [strip]

/-- the compression writer ignores a zero-length `write_all` (`CW.writeAll` returns at once) -/
theorem compStep_empty (P : Params) (K : Codec) (acc : CW K × Bytes) :
    compStep P K acc (.write []) = acc := by
  simp [compStep, CW.writeAll]

theorem compFoldl_strip (P : Params) (K : Codec) (acts : List LAct) : ∀ acc : CW K × Bytes,
    acts.foldl (compStep P K) acc = (strip acts).foldl (compStep P K) acc := by
  induction acts with
  | nil => intro acc; rfl
  | cons a acts ih =>
    intro acc
    by_cases he : isEmptyWrite a = true
    · have ha : a = .write [] := by
        cases a with
        | flush => simp [isEmptyWrite] at he
        | write b => cases b with
          | nil => rfl
          | cons x xs => simp [isEmptyWrite] at he
      subst ha
      simp only [List.foldl_cons, compStep_empty]
      rw [ih]
      simp [strip, isEmptyWrite]
    · have : strip (a :: acts) = a :: strip acts := by simp [strip, he]
      rw [this]
      simp only [List.foldl_cons]
      exact ih _

theorem compRun_strip (P : Params) (K : Codec) (lvl : Nat) (acts : List LAct) :
    compRun P K lvl acts = compRun P K lvl (strip acts) := compFoldl_strip P K acts _

/-- all the pieces a cut makes of the empty string are empty -/
theorem strip_cut_nil (cut : Cut) (i : Nat) : strip ((cut.f i []).map LAct.write) = [] := by
  have hf := cut.flat i []
  generalize cut.f i [] = l at hf
  induction l with
  | nil => rfl
  | cons x xs ih =>
    simp only [List.flatten_cons, List.append_eq_nil_iff] at hf
    obtain ⟨rfl, hx⟩ := hf
    have e : strip (List.map LAct.write ([] :: xs)) = strip (xs.map LAct.write) := rfl
    rw [e]; exact ih hx

/-! ### erasing refused calls under the archive writer -/

section
variable (P : Params) (H : Bytes → Bytes)

/-- position, in `ops` (issued from state `s`), of the `j`-th accepted call -/
def origIdx (s : WState) : List Op → Nat → Nat
  | [], j => j
  | op :: ops, j =>
    if Refusal (Writer.step P H s op).2.1 then origIdx s ops j + 1
    else match j with
      | 0 => 0
      | j + 1 => origIdx (Writer.step P H s op).1 ops j + 1

/-- a refused call is not a `flush` -/
theorem refused_ne_flush (s : WState) (op : Op) (h : Refusal (Writer.step P H s op).2.1) :
    op ≠ .flush := by
  rintro rfl
  simp [Writer.step, Refusal] at h

theorem topActs_cons (cut : Cut) (i : Nat) (s : WState) (op : Op) (ops : List Op) :
    Stack.topActs P H cut i s (op :: ops) =
      if ((Writer.step P H s op).1.finalized && !s.finalized) = true then
        (Stack.opActs cut i op (Writer.step P H s op).2.2, true)
      else
        (Stack.opActs cut i op (Writer.step P H s op).2.2 ++
            (Stack.topActs P H cut (i + 1) (Writer.step P H s op).1 ops).1,
          (Stack.topActs P H cut (i + 1) (Writer.step P H s op).1 ops).2) := by
  rw [Stack.topActs]

/-- The calls the archive writer issues, zero-length writes apart, are the same for `ops` and for
    `ops` with the refused calls erased, when the `j`-th kept call is cut as it was in `ops`. -/
theorem topActs_strip (cut cut' : Cut) (ops : List Op) : ∀ (i i' : Nat) (s : WState),
    (∀ j b, cut'.f (i' + j) b = cut.f (i + origIdx P H s ops j) b) →
    strip (Stack.topActs P H cut i s ops).1 =
      strip (Stack.topActs P H cut' i' s (keepAccepted P H s ops)).1 ∧
    (Stack.topActs P H cut i s ops).2 = (Stack.topActs P H cut' i' s (keepAccepted P H s ops)).2 := by
  induction ops with
  | nil => intro i i' s _; simp [keepAccepted, Stack.topActs]
  | cons op ops ih =>
    intro i i' s hc
    by_cases h : Refusal (Writer.step P H s op).2.1
    · obtain ⟨h1, h2⟩ := refused_noop P H s op h
      have hnf := refused_ne_flush P H s op h
      have hhere : strip (Stack.opActs cut i op (Writer.step P H s op).2.2) = [] := by
        rw [h2]
        cases op <;> first | exact strip_cut_nil cut i | exact absurd rfl hnf
      have hk : keepAccepted P H s (op :: ops) = keepAccepted P H s ops := by
        simp [keepAccepted, h]
      have hih := ih (i + 1) i' s (by
        intro j b
        rw [hc j b]
        simp only [origIdx, h, if_true]
        congr 1; omega)
      rw [hk, topActs_cons]
      have hfin : ((Writer.step P H s op).1.finalized && !s.finalized) = false := by
        rw [h1]; cases s.finalized <;> rfl
      simp only [hfin, Bool.false_eq_true, if_false]
      rw [strip_append, hhere, h1]
      exact ⟨by simpa using hih.1, hih.2⟩
    · have hk : keepAccepted P H s (op :: ops) = op :: keepAccepted P H (Writer.step P H s op).1 ops := by
        simp [keepAccepted, h]
      have hcut : cut'.f i' = cut.f i := by
        funext b
        have := hc 0 b
        simpa [origIdx, h] using this
      have hhere : Stack.opActs cut' i' op (Writer.step P H s op).2.2 =
          Stack.opActs cut i op (Writer.step P H s op).2.2 := by
        cases op <;> simp [Stack.opActs, hcut]
      have hih := ih (i + 1) (i' + 1) (Writer.step P H s op).1 (by
        intro j b
        have := hc (j + 1) b
        simp only [origIdx, h, if_false] at this
        rw [show i' + 1 + j = i' + (j + 1) by omega, this]
        congr 1; omega)
      rw [hk, topActs_cons, topActs_cons]
      by_cases hfin : ((Writer.step P H s op).1.finalized && !s.finalized) = true
      · simp only [hfin, if_true, hhere, and_self]
      · simp only [hfin, Bool.false_eq_true, if_false, strip_append, hhere]
        exact ⟨by rw [hih.1], hih.2⟩

end

end MlaModel.C09

/-
  Proofs: the stored-only brotli codec (`Codec.stored`, MlaModel/CodecStored.lean).

  1. bit level: `packBits` / `getBit` / `getBits` round trips;
  2. one meta-block: the decoder on a complete header + data, on a cut header, on cut data;
  3. shift: decoding at bit `8·|pre| + b` of `pre ++ s` is decoding at bit `b` of `s`;
  4. a stream as a list of chunks (`sStream`), decoder on the whole stream and on every prefix
     (`sOut`), monotonicity of `sOut`;
  5. the encoder output is such a stream.
-/
import MlaModel.CodecStored
namespace MlaModel
namespace StoredPf

/-! ### 1. bits -/

/-- value of a little-endian bit list -/
def bv : List Bool → Nat
  | [] => 0
  | b :: r => b.toNat + 2 * bv r

def byteOf (l : List Bool) : Nat :=
  l.zipIdx.foldl (fun (acc : Nat) (b, i) => if b then acc + 2 ^ i else acc) 0

theorem foldl_zipIdx (l : List Bool) (k acc : Nat) :
    (l.zipIdx k).foldl (fun (acc : Nat) (b, i) => if b then acc + 2 ^ i else acc) acc
      = acc + 2 ^ k * bv l := by
  induction l generalizing k acc with
  | nil => simp [bv]
  | cons b r ih =>
    simp only [List.zipIdx_cons, List.foldl_cons, ih, bv]
    have h : 2 ^ (k + 1) * bv r = 2 * (2 ^ k * bv r) := by
      rw [Nat.pow_succ, Nat.mul_assoc, Nat.mul_comm (2 ^ k) (2 * bv r), Nat.mul_assoc,
        Nat.mul_comm (bv r)]
    rw [h, Nat.mul_add, ← Nat.mul_assoc (2 ^ k) 2, Nat.mul_comm (2 ^ k) 2, Nat.mul_assoc]
    cases b <;> simp <;> omega

theorem byteOf_eq (l : List Bool) : byteOf l = bv l := by
  simp [byteOf, foldl_zipIdx]

theorem bv_lt (l : List Bool) : bv l < 2 ^ l.length := by
  induction l with
  | nil => simp [bv]
  | cons b r ih =>
    simp only [bv, List.length_cons, Nat.pow_succ]
    cases b <;> simp <;> omega

theorem bv_testBit (l : List Bool) (i : Nat) :
    (bv l / 2 ^ i) % 2 = (l[i]?.getD false).toNat := by
  induction l generalizing i with
  | nil => simp [bv]
  | cons b r ih =>
    cases i with
    | zero => cases b <;> simp [bv] <;> omega
    | succ i =>
      have h : (b.toNat + 2 * bv r) / 2 ^ (i + 1) = bv r / 2 ^ i := by
        have h2 : (b.toNat + 2 * bv r) / 2 = bv r := by cases b <;> simp <;> omega
        rw [Nat.pow_succ, Nat.mul_comm (2 ^ i) 2, ← Nat.div_div_eq_div_mul, h2]
      simp only [bv, h, ih, List.getElem?_cons_succ]

theorem getBit_cons (x : UInt8) (xs : Bytes) (i : Nat) :
    getBit (x :: xs) i =
      if i < 8 then some (decide ((x.toNat / 2 ^ i) % 2 = 1)) else getBit xs (i - 8) := by
  unfold getBit
  by_cases h : i < 8
  · have h1 : i / 8 = 0 := by omega
    have h2 : i % 8 = i := by omega
    simp [h, h1, h2]
  · obtain ⟨j, rfl⟩ : ∃ j, i = j + 8 := ⟨i - 8, by omega⟩
    have h1 : (j + 8) / 8 = j / 8 + 1 := by omega
    have h2 : (j + 8) % 8 = j % 8 := by omega
    rw [if_neg h]
    simp [h1, h2]

theorem getBit_nil (i : Nat) : getBit [] i = none := by simp [getBit]

theorem getBit_eq_none {s : Bytes} {i : Nat} (h : s.length ≤ i / 8) : getBit s i = none := by
  unfold getBit
  rw [List.getElem?_eq_none h]

theorem getBit_take (s : Bytes) (k i : Nat) :
    getBit (s.take k) i = if i / 8 < k then getBit s i else none := by
  unfold getBit
  rw [List.getElem?_take]
  by_cases h : i / 8 < k <;> simp [h]

theorem getBit_shift (pre s : Bytes) (i : Nat) :
    getBit (pre ++ s) (8 * pre.length + i) = getBit s i := by
  unfold getBit
  have h1 : (8 * pre.length + i) / 8 = pre.length + i / 8 := by omega
  have h2 : (8 * pre.length + i) % 8 = i % 8 := by omega
  rw [h1, h2, List.getElem?_append_right (by omega)]
  simp

theorem packBitsAux_length (fuel : Nat) (bs : List Bool) (h : bs.length ≤ fuel) :
    (packBitsAux fuel bs).length = (bs.length + 7) / 8 := by
  induction fuel generalizing bs with
  | zero =>
    have : bs = [] := List.eq_nil_of_length_eq_zero (by omega)
    subst this; simp [packBitsAux]
  | succ fuel ih =>
    unfold packBitsAux
    by_cases hb : bs = []
    · subst hb; simp
    · have hl : 0 < bs.length := List.length_pos_iff.mpr hb
      simp only [hb, if_false, List.length_cons]
      rw [ih _ (by simp; omega)]
      simp; omega

theorem packBits_length (bs : List Bool) : (packBits bs).length = (bs.length + 7) / 8 :=
  packBitsAux_length _ _ (by omega)

theorem getBit_packBitsAux (fuel : Nat) (bs : List Bool) (rest : Bytes) (i : Nat)
    (h : bs.length ≤ fuel) (hi : i < 8 * ((bs.length + 7) / 8)) :
    getBit (packBitsAux fuel bs ++ rest) i = some (bs[i]?.getD false) := by
  induction fuel generalizing bs i with
  | zero =>
    have : bs = [] := List.eq_nil_of_length_eq_zero (by omega)
    subst this; simp at hi
  | succ fuel ih =>
    unfold packBitsAux
    by_cases hb : bs = []
    · subst hb; simp at hi
    · simp only [hb, if_false, List.cons_append, getBit_cons]
      by_cases h8 : i < 8
      · simp only [h8, if_true]
        have hv := byteOf_eq (bs.take 8)
        unfold byteOf at hv
        rw [hv]
        have hlt : bv (bs.take 8) < 256 := by
          have := bv_lt (bs.take 8)
          have h2 : (2:Nat) ^ (bs.take 8).length ≤ 2 ^ 8 :=
            Nat.pow_le_pow_right (by omega) (by simp; omega)
          omega
        have hn : (bv (bs.take 8)).toUInt8.toNat = bv (bs.take 8) := by
          simp [Nat.toUInt8, UInt8.toNat_ofNat']; omega
        rw [hn, bv_testBit, List.getElem?_take]
        simp only [h8, if_true]
        cases bs[i]?.getD false <;> simp
      · simp only [h8, if_false]
        rw [ih _ _ (by simp; omega) (by simp; omega)]
        simp only [List.getElem?_drop]
        have : 8 + (i - 8) = i := by omega
        rw [this]

theorem getBit_packBits (bs : List Bool) (rest : Bytes) (i : Nat) (hi : i < bs.length) :
    getBit (packBits bs ++ rest) i = some (bs[i]?.getD false) :=
  getBit_packBitsAux _ _ _ _ (by omega) (by omega)

/-! `getBits` -/

theorem getBits_zero (s : Bytes) (i : Nat) : getBits s i 0 = some 0 := by simp [getBits]

theorem getBits_succ (s : Bytes) (i n : Nat) :
    getBits s i (n + 1) =
      match getBits s i n, getBit s (i + n) with
      | some v, some b => some (if b then v + 2 ^ n else v)
      | _, _ => none := by
  simp only [getBits, List.range_succ, List.foldl_append, List.foldl_cons, List.foldl_nil]
  generalize List.foldl _ _ _ = a
  cases a <;> cases getBit s (i + n) <;> rfl

theorem getBits_last_none (s : Bytes) (i n : Nat) (h : getBit s (i + n) = none) :
    getBits s i (n + 1) = none := by
  rw [getBits_succ, h]
  cases getBits s i n <;> rfl

theorem getBits_congr (s t : Bytes) (i j n : Nat)
    (h : ∀ k, k < n → getBit s (i + k) = getBit t (j + k)) : getBits s i n = getBits t j n := by
  induction n with
  | zero => simp [getBits_zero]
  | succ n ih =>
    rw [getBits_succ, getBits_succ, ih (fun k hk => h k (by omega)), h n (by omega)]

theorem getBits_shift (pre s : Bytes) (i n : Nat) :
    getBits (pre ++ s) (8 * pre.length + i) n = getBits s i n :=
  getBits_congr _ _ _ _ _ fun k _ => by rw [Nat.add_assoc, getBit_shift]

theorem getBits_take (s : Bytes) (k i n : Nat) (h : i + n ≤ 8 * k) :
    getBits (s.take k) i n = getBits s i n :=
  getBits_congr _ _ _ _ _ fun j hj => by
    rw [getBit_take, if_pos (by omega)]

theorem getBits_value (s : Bytes) (i n v : Nat)
    (h : ∀ k, k < n → getBit s (i + k) = some (decide ((v / 2 ^ k) % 2 = 1))) :
    getBits s i n = some (v % 2 ^ n) := by
  induction n with
  | zero => simp [getBits_zero, Nat.mod_one]
  | succ n ih =>
    rw [getBits_succ, ih (fun k hk => h k (by omega)), h n (by omega), Nat.mod_pow_succ]
    simp only
    rcases Nat.mod_two_eq_zero_or_one (v / 2 ^ n) with h0 | h1
    · simp [h0]
    · simp [h1]

theorem bitsOf_length (v n : Nat) : (bitsOf v n).length = n := by simp [bitsOf]

theorem bitsOf_getElem? (v n k : Nat) (hk : k < n) :
    (bitsOf v n)[k]? = some (decide ((v / 2 ^ k) % 2 = 1)) := by
  simp [bitsOf, hk]

/-- reading back a `bitsOf` field placed after `A` in a packed bit string -/
theorem getBits_packBits (A B : List Bool) (v n : Nat) (rest : Bytes) :
    getBits (packBits (A ++ bitsOf v n ++ B) ++ rest) A.length n = some (v % 2 ^ n) := by
  apply getBits_value
  intro k hk
  rw [getBit_packBits _ _ _ (by simp [bitsOf_length]; omega)]
  rw [List.append_assoc, List.getElem?_append_right (by omega)]
  have : A.length + k - A.length = k := by omega
  rw [this, List.getElem?_append_left (by simp [bitsOf_length]; omega), bitsOf_getElem? _ _ _ hk]
  rfl

/-- reading back a single bit placed after `A` -/
theorem getBit_packBits_at (A B : List Bool) (b : Bool) (rest : Bytes) :
    getBit (packBits (A ++ [b] ++ B) ++ rest) A.length = some b := by
  rw [getBit_packBits _ _ _ (by simp)]
  rw [List.append_assoc, List.getElem?_append_right (by omega)]
  simp

/-! ### 3. shift -/

theorem storedDecode_shift (fuel : Nat) (pre s : Bytes) (bit : Nat) :
    storedDecode fuel (pre ++ s) (8 * pre.length + bit) = storedDecode fuel s bit := by
  induction fuel generalizing bit with
  | zero => rfl
  | succ fuel ih =>
    have hd : ∀ x, (8 * pre.length + x) / 8 = pre.length + x / 8 := fun x => by omega
    have hr : ∀ a n, (pre.length + a + n) * 8 = 8 * pre.length + (a + n) * 8 := fun a n => by omega
    have hdrop : ∀ x, (pre ++ s).drop (pre.length + x) = s.drop x := fun x => by simp
    simp only [storedDecode, Nat.add_assoc (8 * pre.length), getBit_shift, getBits_shift, hd,
      hdrop, hr, ih]

/-! ### 2. one meta-block -/

/-- decoder when the whole header is readable -/
theorem dec_full (fuel : Nat) (s : Bytes) (bit code m : Nat)
    (h0 : getBit s bit = some false) (h1 : getBits s (bit + 1) 2 = some code) (hc : code < 3)
    (h2 : getBits s (bit + 3) (4 * (4 + code)) = some m)
    (h3 : getBit s (bit + 3 + 4 * (4 + code)) = some true) :
    storedDecode (fuel + 1) s bit =
      if ((s.drop ((bit + 3 + 4 * (4 + code) + 1 + 7) / 8)).take (m + 1)).length < m + 1 then
        ((s.drop ((bit + 3 + 4 * (4 + code) + 1 + 7) / 8)).take (m + 1), none, false)
      else
        ((s.drop ((bit + 3 + 4 * (4 + code) + 1 + 7) / 8)).take (m + 1) ++
          (storedDecode fuel s (((bit + 3 + 4 * (4 + code) + 1 + 7) / 8 + (m + 1)) * 8)).1,
         (storedDecode fuel s (((bit + 3 + 4 * (4 + code) + 1 + 7) / 8 + (m + 1)) * 8)).2.1,
         (storedDecode fuel s (((bit + 3 + 4 * (4 + code) + 1 + 7) / 8 + (m + 1)) * 8)).2.2) := by
  have hc3 : code ≠ 3 := by omega
  simp only [storedDecode, h0, h1, h2, h3, hc3, if_false, Bool.not_true, Bool.false_eq_true]

/-- decoder when the header is cut -/
theorem dec_cut (fuel : Nat) (s : Bytes) (bit : Nat)
    (h0 : getBit s bit = none ∨ getBit s bit = some false)
    (h1 : getBits s (bit + 1) 2 = none ∨ ∃ code, code < 3 ∧ getBits s (bit + 1) 2 = some code ∧
        getBit s (bit + 3 + 4 * (4 + code)) = none) :
    storedDecode (fuel + 1) s bit = ([], none, false) := by
  rcases h0 with h0 | h0
  · simp only [storedDecode, h0]
  · rcases h1 with h1 | ⟨code, hc, h1, h3⟩
    · simp only [storedDecode, h0, h1]
    · have hc3 : code ≠ 3 := by omega
      simp only [storedDecode, h0, h1, h3, hc3, if_false]
      cases getBits s (bit + 3) (4 * (4 + code)) <;> rfl


/-- header bits after an arbitrary bit prefix `P` -/
def hbits (P : List Bool) (code m : Nat) : List Bool :=
  P ++ [false] ++ bitsOf code 2 ++ bitsOf m (4 * (4 + code)) ++ [true]

theorem hbits_length (P : List Bool) (code m : Nat) :
    (hbits P code m).length = P.length + 4 + 4 * (4 + code) := by
  simp [hbits, bitsOf_length]; omega

/-- header bytes -/
def hbytes (P : List Bool) (code m : Nat) : Bytes := packBits (hbits P code m)

theorem hbytes_length (P : List Bool) (code m : Nat) :
    (hbytes P code m).length = (P.length + 3 + 4 * (4 + code) + 1 + 7) / 8 := by
  rw [hbytes, packBits_length, hbits_length]; congr 1; omega

theorem hb0 (P : List Bool) (code m : Nat) (rest : Bytes) :
    getBit (hbytes P code m ++ rest) P.length = some false := by
  have : hbits P code m = P ++ [false] ++ (bitsOf code 2 ++ bitsOf m (4 * (4 + code)) ++ [true]) := by
    simp [hbits]
  rw [hbytes, this]; exact getBit_packBits_at _ _ _ _

theorem hb1 (P : List Bool) (code m : Nat) (rest : Bytes) (hc : code < 3) :
    getBits (hbytes P code m ++ rest) (P.length + 1) 2 = some code := by
  have : hbits P code m = (P ++ [false]) ++ bitsOf code 2 ++ (bitsOf m (4 * (4 + code)) ++ [true]) := by
    simp [hbits]
  have h := getBits_packBits (P ++ [false]) (bitsOf m (4 * (4 + code)) ++ [true]) code 2 rest
  rw [hbytes, this]
  simp only [List.length_append, List.length_cons, List.length_nil] at h
  rw [h]; congr 1; omega

theorem hb2 (P : List Bool) (code m : Nat) (rest : Bytes) (hm : m < 2 ^ (4 * (4 + code))) :
    getBits (hbytes P code m ++ rest) (P.length + 3) (4 * (4 + code)) = some m := by
  have h := getBits_packBits (P ++ [false] ++ bitsOf code 2) [true] m (4 * (4 + code)) rest
  simp only [List.length_append, List.length_cons, List.length_nil, bitsOf_length] at h
  rw [hbytes, hbits, h, Nat.mod_eq_of_lt hm]

theorem hb3 (P : List Bool) (code m : Nat) (rest : Bytes) :
    getBit (hbytes P code m ++ rest) (P.length + 3 + 4 * (4 + code)) = some true := by
  have h := getBit_packBits_at (P ++ [false] ++ bitsOf code 2 ++ bitsOf m (4 * (4 + code))) [] true rest
  simp only [List.length_append, List.length_cons, List.length_nil, bitsOf_length,
    List.append_nil] at h
  rw [hbytes, hbits]; exact h

/-- S3: a complete meta-block, then decoding continues on the tail -/
theorem dec_block (fuel : Nat) (P : List Bool) (code m : Nat) (c t : Bytes) (hc : code < 3)
    (hm : m < 2 ^ (4 * (4 + code))) (hlen : c.length = m + 1) :
    storedDecode (fuel + 1) (hbytes P code m ++ c ++ t) P.length =
      (c ++ (storedDecode fuel t 0).1, (storedDecode fuel t 0).2.1, (storedDecode fuel t 0).2.2) := by
  rw [List.append_assoc]
  rw [dec_full fuel _ P.length code m (hb0 ..) (hb1 _ _ _ _ hc) hc (hb2 _ _ _ _ hm) (hb3 ..)]
  rw [← hbytes_length P code m]
  have hd : ((hbytes P code m ++ (c ++ t)).drop (hbytes P code m).length).take (m + 1) = c := by
    simp [← hlen]
  have hp : ((hbytes P code m).length + (m + 1)) * 8 = 8 * (hbytes P code m ++ c).length + 0 := by
    simp [hlen]; omega
  rw [hd, if_neg (by omega), hp, ← List.append_assoc, storedDecode_shift]

/-- S2: complete header, data cut -/
theorem dec_block_data (fuel : Nat) (P : List Bool) (code m : Nat) (d : Bytes) (hc : code < 3)
    (hm : m < 2 ^ (4 * (4 + code))) (hlen : d.length < m + 1) :
    storedDecode (fuel + 1) (hbytes P code m ++ d) P.length = (d, none, false) := by
  rw [dec_full fuel _ P.length code m (hb0 ..) (hb1 _ _ _ _ hc) hc (hb2 _ _ _ _ hm) (hb3 ..)]
  rw [← hbytes_length P code m]
  have hd : ((hbytes P code m ++ d).drop (hbytes P code m).length).take (m + 1) = d := by
    simp
    exact List.take_of_length_le (by omega)
  rw [hd, if_pos hlen]

/-- S1: header cut -/
theorem dec_block_hdr (fuel : Nat) (P : List Bool) (code m k : Nat) (hc : code < 3)
    (hk : k < (hbytes P code m).length) :
    storedDecode (fuel + 1) ((hbytes P code m).take k) P.length = ([], none, false) := by
  rw [hbytes_length] at hk
  apply dec_cut
  · rw [getBit_take]
    split
    · right; simpa using hb0 P code m []
    · left; rfl
  · by_cases h : P.length + 1 + 2 ≤ 8 * k
    · right
      refine ⟨code, hc, ?_, ?_⟩
      · rw [getBits_take _ _ _ _ h]; simpa using hb1 P code m [] hc
      · rw [getBit_take, if_neg (by omega)]
    · left
      apply getBits_last_none
      rw [getBit_take, if_neg (by omega)]


/-! ### 4. streams as lists of chunks -/

def codeOf (n : Nat) : Nat := if n ≤ 2 ^ 16 then 0 else if n ≤ 2 ^ 20 then 1 else 2

theorem codeOf_lt (n : Nat) : codeOf n < 3 := by
  unfold codeOf; repeat' split
  all_goals omega

theorem codeOf_fit (n : Nat) (h1 : 1 ≤ n) (h2 : n ≤ 2 ^ 24) : n - 1 < 2 ^ (4 * (4 + codeOf n)) := by
  unfold codeOf; repeat' split
  all_goals (simp; omega)

def pfx (f : Bool) : List Bool := if f then [false] else []

theorem storedHdrBits_eq (n : Nat) :
    storedHdrBits n =
      [false] ++ bitsOf (codeOf n) 2 ++ bitsOf (n - 1) (4 * (4 + codeOf n)) ++ [true] := by
  unfold storedHdrBits codeOf
  by_cases h1 : n ≤ 2 ^ 16
  · simp [h1]
  · by_cases h2 : n ≤ 2 ^ 20 <;> simp [h1, h2]

theorem storedPiece_eq (f : Bool) (b : Bytes) :
    storedPiece f b = hbytes (pfx f) (codeOf b.length) (b.length - 1) ++ b := by
  rw [storedPiece, storedHdrBits_eq, hbytes, hbits, pfx]
  simp

def hl (f : Bool) (c : Bytes) : Nat := (hbytes (pfx f) (codeOf c.length) (c.length - 1)).length

theorem hl_pos (f : Bool) (c : Bytes) : 0 < hl f c := by
  rw [hl, hbytes_length]; omega

theorem storedPiece_length (f : Bool) (c : Bytes) : (storedPiece f c).length = hl f c + c.length := by
  rw [storedPiece_eq, List.length_append, hl]

def Valid (cs : List Bytes) : Prop := ∀ c ∈ cs, 1 ≤ c.length ∧ c.length ≤ 2 ^ 24

def sStream : Bool → List Bytes → Bytes
  | f, [] => [if f then 6 else 3]
  | f, c :: cs => storedPiece f c ++ sStream false cs

def sOut : Bool → List Bytes → Nat → Bytes
  | _, [], _ => []
  | f, c :: cs, k =>
    if k < hl f c then [] else
    if k < hl f c + c.length then c.take (k - hl f c) else
    c ++ sOut false cs (k - (hl f c + c.length))

theorem dec_end (fuel : Nat) (f : Bool) (rest : Bytes) :
    storedDecode (fuel + 1) ((if f then 6 else 3 : UInt8) :: rest) (pfx f).length
      = ([], some rest, false) := by
  cases f <;> simp [storedDecode, getBit_cons, pfx]

theorem dec_nil (fuel bit : Nat) : storedDecode (fuel + 1) [] bit = ([], none, false) := by
  simp [storedDecode, getBit_nil]

theorem dec_stream_full (cs : List Bytes) (f : Bool) (fuel : Nat) (rest : Bytes) (hv : Valid cs)
    (hf : cs.length < fuel) :
    storedDecode fuel (sStream f cs ++ rest) (pfx f).length = (cs.flatten, some rest, false) := by
  induction cs generalizing f fuel with
  | nil =>
    obtain ⟨fuel, rfl⟩ : ∃ n, fuel = n + 1 := ⟨fuel - 1, by simp at hf; omega⟩
    simpa [sStream] using dec_end fuel f rest
  | cons c cs ih =>
    obtain ⟨fuel, rfl⟩ : ∃ n, fuel = n + 1 := ⟨fuel - 1, by omega⟩
    have hc := hv c (by simp)
    have ih' := ih false fuel (fun x hx => hv x (by simp [hx])) (by simp at hf; omega)
    simp only [pfx, Bool.false_eq_true, if_false, List.length_nil] at ih'
    rw [sStream, storedPiece_eq, List.append_assoc,
      dec_block fuel _ _ _ _ _ (codeOf_lt _) (codeOf_fit _ hc.1 hc.2) (by omega), ih']
    simp

theorem dec_stream_take (cs : List Bytes) (f : Bool) (fuel k : Nat) (hv : Valid cs)
    (hf : k < fuel) (hk : k < (sStream f cs).length) :
    storedDecode fuel ((sStream f cs).take k) (pfx f).length = (sOut f cs k, none, false) := by
  induction cs generalizing f fuel k with
  | nil =>
    obtain ⟨fuel, rfl⟩ : ∃ n, fuel = n + 1 := ⟨fuel - 1, by omega⟩
    have : k = 0 := by simp [sStream] at hk; omega
    subst this
    simpa [sOut] using dec_nil fuel _
  | cons c cs ih =>
    obtain ⟨fuel, rfl⟩ : ∃ n, fuel = n + 1 := ⟨fuel - 1, by omega⟩
    have hc := hv c (by simp)
    have hcl := codeOf_lt c.length
    have hfit := codeOf_fit _ hc.1 hc.2
    rw [sStream, storedPiece_eq, sOut]
    by_cases h1 : k < hl f c
    · rw [if_pos h1, List.append_assoc, List.take_append_of_le_length (by rw [hl] at h1; omega)]
      exact dec_block_hdr fuel _ _ _ _ hcl h1
    · rw [if_neg h1]
      by_cases h2 : k < hl f c + c.length
      · rw [if_pos h2, List.append_assoc]
        obtain ⟨j, rfl⟩ : ∃ j, k = hl f c + j := ⟨k - hl f c, by omega⟩
        rw [hl, List.take_length_add_append, ← hl,
          List.take_append_of_le_length (by omega)]
        have : hl f c + j - hl f c = j := by omega
        rw [this]
        exact dec_block_data fuel _ _ _ _ hcl hfit (by simp; omega)
      · rw [if_neg h2]
        obtain ⟨j, rfl⟩ : ∃ j, k = hl f c + c.length + j := ⟨k - (hl f c + c.length), by omega⟩
        have hlen : (hbytes (pfx f) (codeOf c.length) (c.length - 1) ++ c).length
            = hl f c + c.length := by simp [hl]
        rw [← hlen, List.take_length_add_append,
          dec_block fuel _ _ _ _ _ hcl hfit (by omega)]
        have ih' := ih false fuel j (fun x hx => hv x (by simp [hx])) (by omega)
          (by rw [sStream, List.length_append, storedPiece_length] at hk; omega)
        simp only [pfx, Bool.false_eq_true, if_false, List.length_nil] at ih'
        rw [ih', hlen]
        have : hl f c + c.length + j - (hl f c + c.length) = j := by omega
        rw [this]


theorem sStream_length_pos (f : Bool) (cs : List Bytes) : 0 < (sStream f cs).length := by
  cases cs with
  | nil => simp [sStream]
  | cons c cs => rw [sStream, List.length_append, storedPiece_length]; have := hl_pos f c; omega

theorem sStream_length_gt (f : Bool) (cs : List Bytes) : cs.length < (sStream f cs).length := by
  induction cs generalizing f with
  | nil => simp [sStream]
  | cons c cs ih =>
    rw [sStream, List.length_append, storedPiece_length]
    have := hl_pos f c; have := ih false; simp; omega

theorem sOut_zero (f : Bool) (cs : List Bytes) : sOut f cs 0 = [] := by
  cases cs with
  | nil => rfl
  | cons c cs => rw [sOut, if_pos (hl_pos f c)]

theorem sOut_prefix (f : Bool) (cs : List Bytes) (k : Nat) : sOut f cs k <+: cs.flatten := by
  induction cs generalizing f k with
  | nil => simp [sOut]
  | cons c cs ih =>
    rw [sOut, List.flatten_cons]
    split
    · exact List.nil_prefix
    · split
      · exact (List.take_prefix _ _).trans (List.prefix_append _ _)
      · exact (List.prefix_append_right_inj _).mpr (ih _ _)

theorem sOut_mono (f : Bool) (cs : List Bytes) (k₁ k₂ : Nat) (h : k₁ ≤ k₂) :
    sOut f cs k₁ <+: sOut f cs k₂ := by
  induction cs generalizing f k₁ k₂ with
  | nil => simp [sOut]
  | cons c cs ih =>
    rw [sOut, sOut]
    by_cases h1 : k₁ < hl f c
    · rw [if_pos h1]; exact List.nil_prefix
    · have h1' : ¬ k₂ < hl f c := by omega
      rw [if_neg h1, if_neg h1']
      by_cases h2 : k₁ < hl f c + c.length
      · rw [if_pos h2]
        by_cases h3 : k₂ < hl f c + c.length
        · rw [if_pos h3]
          have : k₁ - hl f c = min (k₁ - hl f c) (k₂ - hl f c) := by omega
          rw [this, ← List.take_take]
          exact List.take_prefix _ _
        · rw [if_neg h3]
          exact (List.take_prefix _ _).trans (List.prefix_append _ _)
      · have h2' : ¬ k₂ < hl f c + c.length := by omega
        rw [if_neg h2, if_neg h2']
        exact (List.prefix_append_right_inj _).mpr (ih _ _ _ (by omega))

/-- just before the end marker everything has been delivered -/
theorem sOut_last (f : Bool) (cs : List Bytes) :
    sOut f cs ((sStream f cs).length - 1) = cs.flatten := by
  induction cs generalizing f with
  | nil => simp [sOut]
  | cons c cs ih =>
    have hp := sStream_length_pos false cs
    have : (sStream f (c :: cs)).length - 1
        = hl f c + c.length + ((sStream false cs).length - 1) := by
      rw [sStream, List.length_append, storedPiece_length]; omega
    have ha : ¬ hl f c + c.length + ((sStream false cs).length - 1) < hl f c := by omega
    have hb : ¬ hl f c + c.length + ((sStream false cs).length - 1) < hl f c + c.length := by omega
    rw [this, sOut, if_neg ha, if_neg hb]
    have : hl f c + c.length + ((sStream false cs).length - 1) - (hl f c + c.length)
        = (sStream false cs).length - 1 := by omega
    rw [this, ih, List.flatten_cons]

theorem getBit_sStream_zero (cs : List Bytes) (rest : Bytes) :
    getBit (sStream true cs ++ rest) 0 = some false := by
  cases cs with
  | nil => simp [sStream, getBit_cons]
  | cons c cs =>
    rw [sStream, storedPiece_eq, List.append_assoc, List.append_assoc]
    have := getBit_packBits_at []
      ([false] ++ bitsOf (codeOf c.length) 2 ++ bitsOf (c.length - 1) (4 * (4 + codeOf c.length))
        ++ [true]) false (c ++ (sStream false cs ++ rest))
    simpa [hbytes, hbits, pfx] using this

theorem decStream_full (cs : List Bytes) (rest : Bytes) (hv : Valid cs) :
    storedDecStream (sStream true cs ++ rest) = (cs.flatten, some rest, false) := by
  rw [storedDecStream, getBit_sStream_zero]
  have := sStream_length_gt true cs
  exact dec_stream_full cs true _ rest hv (by simp; omega)

theorem decStream_take (cs : List Bytes) (k : Nat) (hv : Valid cs)
    (hk : k < (sStream true cs).length) :
    storedDecStream ((sStream true cs).take k) = (sOut true cs k, none, false) := by
  rw [storedDecStream, getBit_take]
  by_cases h0 : k = 0
  · subst h0; simp [sOut_zero]
  · have := getBit_sStream_zero cs []
    rw [List.append_nil] at this
    rw [if_pos (by omega), this]
    exact dec_stream_take cs true _ k hv (by simp; omega) hk


/-- decoding any prefix, proper or not -/
theorem decStream_take_any (cs : List Bytes) (k : Nat) (hv : Valid cs) :
    storedDecStream ((sStream true cs).take k) =
      if k < (sStream true cs).length then (sOut true cs k, none, false)
      else (cs.flatten, some [], false) := by
  by_cases hk : k < (sStream true cs).length
  · rw [if_pos hk, decStream_take cs k hv hk]
  · rw [if_neg hk, List.take_of_length_le (by omega)]
    simpa using decStream_full cs [] hv

theorem decStream_take_mono (cs : List Bytes) (k₁ k₂ : Nat) (hv : Valid cs) (h : k₁ ≤ k₂) :
    (storedDecStream ((sStream true cs).take k₁)).1 <+:
      (storedDecStream ((sStream true cs).take k₂)).1 := by
  rw [decStream_take_any cs k₁ hv, decStream_take_any cs k₂ hv]
  by_cases h2 : k₂ < (sStream true cs).length
  · rw [if_pos h2, if_pos (by omega)]; exact sOut_mono _ _ _ _ h
  · rw [if_neg h2]
    by_cases h1 : k₁ < (sStream true cs).length
    · rw [if_pos h1]; exact sOut_prefix _ _ _
    · rw [if_neg h1]; exact List.prefix_refl _

/-! ### 5. the encoder -/

def chunks24 : Nat → Bytes → List Bytes
  | 0, _ => []
  | fuel+1, b => if b = [] then [] else b.take (2 ^ 24) :: chunks24 fuel (b.drop (2 ^ 24))

theorem chunks24_valid (fuel : Nat) (b : Bytes) : Valid (chunks24 fuel b) := by
  induction fuel generalizing b with
  | zero => intro c hc; simp [chunks24] at hc
  | succ fuel ih =>
    intro c hc
    unfold chunks24 at hc
    by_cases hb : b = []
    · simp [hb] at hc
    · simp only [hb, if_false, List.mem_cons] at hc
      rcases hc with rfl | hc
      · have : 0 < b.length := List.length_pos_iff.mpr hb
        simp only [List.length_take]; omega
      · exact ih _ c hc

theorem chunks24_flatten (fuel : Nat) (b : Bytes) (h : b.length ≤ fuel * 2 ^ 24) :
    (chunks24 fuel b).flatten = b := by
  induction fuel generalizing b with
  | zero =>
    have : b = [] := List.eq_nil_of_length_eq_zero (by omega)
    subst this; rfl
  | succ fuel ih =>
    unfold chunks24
    by_cases hb : b = []
    · simp [hb]
    · simp only [hb, if_false, List.flatten_cons]
      rw [ih _ (by simp only [List.length_drop]; omega), List.take_append_drop]

theorem storedWrite_false (fuel : Nat) (b : Bytes) (cs : List Bytes) :
    storedWrite fuel false b ++ sStream false cs = sStream false (chunks24 fuel b ++ cs) := by
  induction fuel generalizing b with
  | zero => rfl
  | succ fuel ih =>
    unfold storedWrite chunks24
    by_cases hb : b = []
    · simp [hb]
    · simp only [hb, if_false, List.cons_append, sStream, List.append_assoc, ih]

theorem storedWrite_first (fuel : Nat) (f : Bool) (b : Bytes) (cs : List Bytes) (hb : b ≠ []) :
    storedWrite (fuel + 1) f b ++ sStream false cs
      = sStream f (chunks24 (fuel + 1) b ++ cs) := by
  unfold storedWrite chunks24
  simp only [hb, if_false, List.cons_append, sStream, List.append_assoc, storedWrite_false]

/-- The encoder output, finished, is a chunk stream of valid chunks carrying what was written. -/
theorem runActs_stream (acts : List EAct) (es : StoredES) :
    ∃ cs, Valid cs ∧ cs.flatten = EAct.written acts ∧
      (Codec.stored.runActs es acts).2 ++ Codec.stored.efinish (Codec.stored.runActs es acts).1
        = sStream (!es.started) cs := by
  induction acts generalizing es with
  | nil =>
    refine ⟨[], by intro c hc; simp at hc, rfl, ?_⟩
    cases es with | mk st => cases st <;> rfl
  | cons a r ih =>
    cases a with
    | flush =>
      obtain ⟨cs, hv, hfl, hs⟩ := ih es
      exact ⟨cs, hv, by simpa [EAct.written] using hfl, by simpa [Codec.runActs, Codec.stored] using hs⟩
    | write b =>
      by_cases hb : b = []
      · obtain ⟨cs, hv, hfl, hs⟩ := ih es
        exact ⟨cs, hv, by simpa [EAct.written, hb] using hfl,
          by simpa [Codec.runActs, Codec.stored, hb] using hs⟩
      · obtain ⟨cs, hv, hfl, hs⟩ := ih ⟨true⟩
        refine ⟨chunks24 (b.length / 2 ^ 24 + 2) b ++ cs, ?_, ?_, ?_⟩
        · intro c hc
          rcases List.mem_append.mp hc with h | h
          · exact chunks24_valid _ _ c h
          · exact hv c h
        · rw [List.flatten_append, hfl, chunks24_flatten _ _ (by omega)]; rfl
        · have := storedWrite_first (b.length / 2 ^ 24 + 1) (!es.started) b cs hb
          simp only [Codec.runActs, Codec.stored, hb, if_false, List.append_assoc] at hs ⊢
          simp only [Bool.not_true] at hs
          rw [hs, this]

theorem efinish_length (es : StoredES) : (Codec.stored.efinish es).length = 1 := by
  cases es with | mk st => cases st <;> rfl

theorem runActs_flush (acts : List EAct) (es : StoredES) :
    (Codec.stored.runActs es (acts ++ [.flush])).2 = (Codec.stored.runActs es acts).2 := by
  induction acts generalizing es with
  | nil => simp [Codec.runActs, Codec.stored]
  | cons a r ih =>
    cases a with
    | flush => simp only [List.cons_append, Codec.runActs]; exact congrArg _ (ih _)
    | write b => simp only [List.cons_append, Codec.runActs]; exact congrArg _ (ih _)

end StoredPf
end MlaModel

/-
  Proofs about the footer codec: the footer `ArchiveFooter::serialize_into` emits
  (`encFooter`) is parsed back by `ArchiveFooter::deserialize_from` (`parseFooter`) to the writer's
  index (`WState.index`), whatever precedes it in the stream.
-/
import MlaModel.Reader
import MlaModel.Proofs.Blocks
namespace MlaModel

/-! ### (1) one u64 -/

theorem deU64_le64 (v : Nat) (r : Bytes) (h : v < U64) : deU64 (le64 v ++ r) = .ok (v, r) := by
  simp [deU64, readLe8 v r h]

/-! ### (2) a vector of u64 -/

theorem flatten_le64_length (vs : List Nat) : ((vs.map le64).flatten).length = 8 * vs.length := by
  induction vs with
  | nil => rfl
  | cons v vs ih =>
    simp only [List.map_cons, List.flatten_cons, List.length_append, le64_length, ih,
      List.length_cons]
    omega

theorem deU64s_enc (vs : List Nat) (r : Bytes) (h : ∀ v ∈ vs, v < U64) :
    deU64s vs.length ((vs.map le64).flatten ++ r) = .ok (vs, r) := by
  induction vs with
  | nil => simp [deU64s]
  | cons v vs ih =>
    simp only [List.map_cons, List.flatten_cons, List.append_assoc, List.length_cons, deU64s]
    rw [deU64_le64 v _ (h v (by simp))]
    simp only
    rw [ih (fun w hw => h w (by simp [hw]))]

/-! ### (3) one `FileInfo` -/

/-- the numbers of a `FileInfo` fit in a u64 -/
def FileInfo.WF (fi : FileInfo) : Prop :=
  fi.offsets.length < U64 ∧ (∀ o ∈ fi.offsets, o < U64) ∧ fi.size < U64 ∧ fi.eof < U64

theorem encFileInfo_length (fi : FileInfo) :
    (encFileInfo fi).length = 8 + 8 * fi.offsets.length + 16 := by
  simp only [encFileInfo, List.length_append, le64_length, flatten_le64_length]

theorem deFileInfo_enc (fi : FileInfo) (r : Bytes) (h : fi.WF) :
    deFileInfo (encFileInfo fi ++ r) = .ok (fi, r) := by
  obtain ⟨hl, ho, hs, he⟩ := h
  simp only [encFileInfo, List.append_assoc, deFileInfo]
  rw [deU64_le64 _ _ hl]
  simp only
  have hchk : ¬ ((fi.offsets.map le64).flatten ++ (le64 fi.size ++ (le64 fi.eof ++ r))).length
      < 8 * fi.offsets.length := by
    simp only [List.length_append, flatten_le64_length]
    omega
  rw [if_neg hchk, deU64s_enc _ _ ho]
  simp only
  rw [deU64_le64 _ _ hs]
  simp only
  rw [deU64_le64 _ _ he]

/-! ### (4) the entries -/

/-- bincode of the entries of an index (the map without its length prefix) -/
def encIndex (ix : Index) : Bytes :=
  (ix.map fun e => le64 e.1.length ++ e.1 ++ encFileInfo e.2).flatten

theorem encFooterEntries_eq (names : List (Bytes × Nat)) (info : List (Nat × FileInfo)) :
    encFooterEntries names info
      = encIndex (names.map fun (n, id) => (n, (alookup id info).getD ⟨[], 0, 0⟩)) := by
  simp only [encFooterEntries, encIndex, List.map_map]
  rfl

/-- each encoded entry takes at least 32 bytes -/
theorem encIndex_length_ge (ix : Index) : 32 * ix.length ≤ (encIndex ix).length := by
  induction ix with
  | nil => simp [encIndex]
  | cons e ix ih =>
    have hc : encIndex (e :: ix) = le64 e.1.length ++ e.1 ++ encFileInfo e.2 ++ encIndex ix := by
      simp [encIndex]
    rw [hc]
    simp only [List.length_append, le64_length, encFileInfo_length, List.length_cons]
    omega

theorem Index.insert_of_not_mem (acc : Index) (name : Bytes) (fi : FileInfo)
    (h : name ∉ acc.map (·.1)) : acc.insert name fi = acc ++ [(name, fi)] := by
  induction acc with
  | nil => rfl
  | cons e acc ih =>
    obtain ⟨n, v⟩ := e
    simp only [List.map_cons, List.mem_cons, not_or] at h
    have hne : ¬ n = name := fun hh => h.1 hh.symm
    simp only [Index.insert, hne, if_false, List.cons_append, ih h.2]

/-- what `deEntries` asks of each entry -/
def EntryWF (utf8 : Bytes → Bool) (e : Bytes × FileInfo) : Prop :=
  utf8 e.1 = true ∧ e.1.length < U64 ∧ e.2.WF

theorem deEntries_enc (utf8 : Bytes → Bool) (ix : Index) (r : Bytes) (acc : Index)
    (hwf : ∀ e ∈ ix, EntryWF utf8 e) (hd : ((acc ++ ix).map (·.1)).Nodup) :
    deEntries utf8 ix.length (encIndex ix ++ r) acc = .ok (acc ++ ix) := by
  induction ix generalizing acc with
  | nil => simp [deEntries]
  | cons e ix ih =>
    obtain ⟨name, fi⟩ := e
    obtain ⟨hu, hl, hfi⟩ := hwf (name, fi) (by simp)
    simp only at hu hl hfi
    have hc : encIndex ((name, fi) :: ix) ++ r
        = le64 name.length ++ (name ++ (encFileInfo fi ++ (encIndex ix ++ r))) := by
      simp [encIndex]
    rw [hc]
    simp only [List.length_cons, deEntries]
    rw [deU64_le64 _ _ hl]
    simp only
    have hchk : ¬ (name ++ (encFileInfo fi ++ (encIndex ix ++ r))).length < name.length := by
      simp only [List.length_append]
      omega
    rw [if_neg hchk]
    simp only [List.take_left', List.drop_left', hu, Bool.not_true, Bool.false_eq_true, if_false]
    rw [deFileInfo_enc fi _ hfi]
    simp only
    have hnot : name ∉ acc.map (·.1) := by
      intro hm
      simp only [List.map_append, List.map_cons] at hd
      rw [List.nodup_append] at hd
      exact hd.2.2 name hm name (by simp) rfl
    rw [Index.insert_of_not_mem acc name fi hnot]
    rw [ih (acc ++ [(name, fi)]) (fun e he => hwf e (by simp [he])) (by simpa using hd)]
    simp

/-! ### (5) the footer -/

/-- every number the footer stores fits in a u64 and every name is valid UTF-8 -/
def IndexWF (utf8 : Bytes → Bool) (ix : Index) : Prop :=
  ix.length < U64 ∧ ∀ e ∈ ix, utf8 e.1 = true ∧ e.1.length < U64 ∧ e.2.offsets.length < U64 ∧
    (∀ o ∈ e.2.offsets, o < U64) ∧ e.2.size < U64 ∧ e.2.eof < U64

theorem U32_eq : U32 = 256 ^ 4 := by decide

/-- the last four bytes of the stream are the length field, the `len` bytes before them the body -/
theorem footer_slices (pre body : Bytes) (h : body.length < U32) :
    let s := pre ++ (body ++ le32 body.length)
    ¬ s.length < 4 ∧ unle (s.drop (s.length - 4)) = body.length ∧
      ¬ s.length - 4 < body.length ∧
      (s.drop (s.length - 4 - body.length)).take body.length = body := by
  intro s
  have hlen : s.length = pre.length + (body.length + 4) := by
    simp [s]
  have h4 : s.length - 4 = (pre ++ body).length := by
    rw [hlen, List.length_append]; omega
  have hs : s = (pre ++ body) ++ le32 body.length := by simp [s]
  refine ⟨by omega, ?_, by rw [h4, List.length_append]; omega, ?_⟩
  · rw [h4, hs, List.drop_left']
    · exact unle_leN_of_lt 4 _ (by rw [← U32_eq]; exact h)
    · rfl
  · have h5 : s.length - 4 - body.length = pre.length := by
      rw [h4, List.length_append]; omega
    rw [h5]
    show (List.drop pre.length (pre ++ (body ++ le32 body.length))).take body.length = body
    rw [List.drop_left', List.take_left'] <;> rfl

theorem parseFooter_encFooter (utf8 : Bytes → Bool) (pre : Bytes)
    (names : List (Bytes × Nat)) (info : List (Nat × FileInfo))
    (hd : (names.map (·.1)).Nodup)
    (hwf : IndexWF utf8 (names.map fun (n, id) => (n, (alookup id info).getD ⟨[], 0, 0⟩)))
    (hlen : (encFooter names info).length - 4 < U32) :
    parseFooter utf8 (pre ++ encFooter names info)
      = .ok (names.map fun (n, id) => (n, (alookup id info).getD ⟨[], 0, 0⟩)) := by
  obtain ⟨hn, he⟩ := hwf
  rw [List.length_map] at hn
  -- name the index and the body
  generalize hix : (names.map fun (n, id) => (n, (alookup id info).getD ⟨[], 0, 0⟩)) = ix at he ⊢
  have hixl : ix.length = names.length := by rw [← hix, List.length_map]
  have hkeys : ix.map (·.1) = names.map (·.1) := by
    rw [← hix, List.map_map]; rfl
  have henc : encFooter names info
      = (le64 names.length ++ encIndex ix) ++ le32 (le64 names.length ++ encIndex ix).length := by
    simp only [encFooter, encFooterEntries_eq, hix]
  rw [henc] at hlen ⊢
  generalize hbody : le64 names.length ++ encIndex ix = body at hlen ⊢
  have hbl : body.length < U32 := by
    simp only [List.length_append, le32_length] at hlen
    omega
  obtain ⟨c1, c2, c3, c4⟩ := footer_slices pre body hbl
  unfold parseFooter
  simp only at c1 c2 c3 c4 ⊢
  rw [if_neg c1, c2, if_neg c3, c4, ← hbody, deU64_le64 _ _ hn]
  simp only
  have hchk : ¬ (encIndex ix).length < 32 * names.length := by
    have := encIndex_length_ge ix
    rw [hixl] at this
    omega
  rw [if_neg hchk]
  have := deEntries_enc utf8 ix [] []
    (fun e h => by
      obtain ⟨a, b, c, d, e', f⟩ := he e h
      exact ⟨a, b, c, d, e', f⟩)
    (by simpa [hkeys] using hd)
  rw [hixl] at this
  simpa using this

/-- the footer the writer emits for its final state parses back to the writer's index -/
theorem parseFooter_index (utf8 : Bytes → Bool) (pre : Bytes) (s : WState)
    (hd : (s.names.map (·.1)).Nodup)
    (hwf : IndexWF utf8 s.index)
    (hlen : (encFooter s.names s.info).length - 4 < U32) :
    parseFooter utf8 (pre ++ encFooter s.names s.info) = .ok s.index :=
  parseFooter_encFooter utf8 pre s.names s.info hd hwf hlen

/-! ### non-vacuity: a concrete two-file index -/

def exNames : List (Bytes × Nat) := [([97], 0), ([98, 99], 1)]
def exInfo : List (Nat × FileInfo) := [(0, ⟨[5, 40], 7, 60⟩), (1, ⟨[20], 3, 80⟩)]

/-- the parser run by the kernel on the 103-byte footer behind three bytes of other data -/
example : parseFooter (fun _ => true) ([1, 2, 3] ++ encFooter exNames exInfo)
    = .ok [([97], ⟨[5, 40], 7, 60⟩), ([98, 99], ⟨[20], 3, 80⟩)] := by rfl

/-- the hypotheses of `parseFooter_encFooter` are satisfiable (and give the same answer) -/
example : parseFooter (fun _ => true) ([1, 2, 3] ++ encFooter exNames exInfo)
    = .ok [([97], ⟨[5, 40], 7, 60⟩), ([98, 99], ⟨[20], 3, 80⟩)] :=
  parseFooter_encFooter _ _ exNames exInfo (by decide) (by unfold IndexWF; decide) (by decide)

end MlaModel

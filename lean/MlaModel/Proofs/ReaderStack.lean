/-
  The reader stack `ArchiveReader::from_config` builds over an in-memory archive file:

      Cur over file  →  RawR (offset = end of the header)  →  [EncRd P C]  →  [CompRd P K rd]

  * `ReaderStackT`, `openStack` : the stack and its initialisation for the four layer combinations
    (raw `reset_position` after the header, `EncR.init` = `initialize` → rewind, `CompR.init`).
  * `openStack_cursor` : over `file = hdr ++ sealedBody P C cfg S cs` the initialised stack behaves
    like a plain cursor over `S`, whatever layers are enabled (composition of `Cur.isCursor`,
    `RawR.isCursor`, `C11.EncRd.isCursor`, `C11.CompRd.isCursor` and the `init_ok` lemmas).
  * `parseFooterS_ok` : `ArchiveFooter::deserialize_from` over a cursor-like stream is `parseFooter`
    on its data.
-/
import MlaModel.ArchiveS
import MlaModel.Proofs.ReaderS
import MlaModel.Proofs.RepairStack
import MlaModel.Proofs.CompressWriter
import MlaModel.Theorems.C11Encrypt
import MlaModel.Theorems.C11Compress
namespace MlaModel

/-! ### `IsEncoded` (writer side) gives `IsCompressed` (reader side) -/

theorem isCompressed_of_encoded {P : Params} {K : Codec} (hK : K.DecFinish) {S : Bytes}
    {cs : List Bytes} (h : CompFS.IsEncoded P K S cs) : IsCompressed P K S cs (compBody P S cs) where
  layout := rfl
  count := h.count
  blocks := by
    intro k hk
    obtain ⟨lvl, acts, hw, hc⟩ := h.blocks k hk
    rw [hc, ← hw]
    exact hK lvl acts

/-! ### the stack -/

/-- the type of the reader stack, per layer combination -/
abbrev ReaderStackT (P : Params) (C : EncPrims) (K : Codec) (rd : Nat → Nat) : LayerCfg → Type
  | .none => RawR Cur
  | .enc => EncRd P C (RawR Cur)
  | .comp => CompRd P K rd (RawR Cur)
  | .compEnc => CompRd P K rd (EncRd P C (RawR Cur))

instance (P : Params) (C : EncPrims) (K : Codec) (rd : Nat → Nat) (cfg : LayerCfg) :
    Stream (ReaderStackT P C K rd cfg) :=
  match cfg with
  | .none => inferInstanceAs (Stream (RawR Cur))
  | .enc => inferInstanceAs (Stream (EncRd P C (RawR Cur)))
  | .comp => inferInstanceAs (Stream (CompRd P K rd (RawR Cur)))
  | .compEnc => inferInstanceAs (Stream (CompRd P K rd (EncRd P C (RawR Cur))))

/-- the raw layer right after the header has been read from the file: `reset_position` pins the
    current position (the end of the header) as position 0 -/
def rawAfterHeader (file : Bytes) (hdrLen : Nat) : RawR Cur := ⟨⟨file, hdrLen⟩, hdrLen⟩

/-- `ArchiveReader::from_config` after the header: build and initialise the layers -/
def openStack (P : Params) (C : EncPrims) (K : Codec) (rd : Nat → Nat) (cfg : LayerCfg)
    (hdrLen : Nat) (file : Bytes) : Except Err (ReaderStackT P C K rd cfg) :=
  match cfg with
  | .none => .ok (rawAfterHeader file hdrLen)
  | .enc =>
    match EncR.init P C (rawAfterHeader file hdrLen) with
    | (_, .error e) => .error e
    | (r, .ok _) => .ok ⟨r⟩
  | .comp =>
    match CompR.init (rawAfterHeader file hdrLen) with
    | .error e => .error e
    | .ok r => .ok ⟨r⟩
  | .compEnc =>
    match EncR.init P C (rawAfterHeader file hdrLen) with
    | (_, .error e) => .error e
    | (r, .ok _) =>
      match CompR.init (⟨r⟩ : EncRd P C (RawR Cur)) with
      | .error e => .error e
      | .ok r' => .ok ⟨r'⟩

/-- open the archive: the stack, then the footer -/
def openArchive (P : Params) (C : EncPrims) (K : Codec) (rd : Nat → Nat) (utf8 : Bytes → Bool)
    (cfg : LayerCfg) (hdrLen : Nat) (file : Bytes) : Except Err (ArS (ReaderStackT P C K rd cfg)) :=
  match openStack P C K rd cfg hdrLen file with
  | .error e => .error e
  | .ok s =>
    match parseFooterS utf8 s with
    | (_, .error e) => .error e
    | (s', .ok ix) => .ok ⟨s', ix, none⟩

/-! ### the footer over a cursor-like stream -/

section
variable {σ : Type} [Stream σ] {Inv : σ → Prop} {abs : σ → Nat} {data : Bytes}

/-- `ArchiveFooter::deserialize_from` over a stream that behaves like a cursor over `data` returns
    what `parseFooter data` returns (stated for the success case), from any good state -/
theorem parseFooterS_ok (hI : IsCursor Inv abs data) (utf8 : Bytes → Bool) (s : σ) (hs : Inv s)
    (ix : Index) (h : parseFooter utf8 data = .ok ix) :
    ∃ s', parseFooterS utf8 s = (s', .ok ix) ∧ Inv s' := by
  unfold parseFooter at h
  split at h
  · cases h
  · rename_i h4
    dsimp only at h
    split at h
    · cases h
    · rename_i hlen
      -- seek to the last four bytes
      obtain ⟨s1, hk1, hi1, ha1⟩ := hI.seek_ok s (.fromEnd (-4)) (data.length - 4) hs (by omega)
        (by simp only; omega)
      -- read the length
      have hsim1 : Sim Inv abs data s1 (data.drop (data.length - 4)) := ⟨hi1, by rw [ha1]⟩
      have hr := readExactS_sim hI s1 _ 4 hsim1
      have hte : takeExact 4 (data.drop (data.length - 4)) = .ok (data.drop (data.length - 4), []) := by
        have hl : (data.drop (data.length - 4)).length = 4 := by simp; omega
        generalize data.drop (data.length - 4) = d at hl
        unfold takeExact
        rw [if_pos (by omega), List.take_of_length_le (by omega), List.drop_eq_nil_of_le (by omega)]
      rw [hte] at hr
      obtain ⟨s2, hr2, hi2, _⟩ := hr
      -- seek to the body and read it
      obtain ⟨s3, hk3, hi3, ha3⟩ := hI.seek_ok s2 (.start (data.length - 4 - unle (data.drop (data.length - 4))))
        (data.length - 4 - unle (data.drop (data.length - 4))) hi2 (by omega) rfl
      obtain ⟨s4, hr4, hi4, _⟩ := readUpTo_ok hI (unle (data.drop (data.length - 4)) + 1) s3
        (unle (data.drop (data.length - 4))) hi3 (by omega)
      rw [ha3] at hr4
      refine ⟨s4, ?_, hi4⟩
      simp only [parseFooterS, hk1, hr2, hlen, if_false, hk3, hr4]
      split at h
      · cases h
      · rename_i n r hd
        simp only [hd]
        split at h
        · cases h
        · rename_i h32
          simp only [h32, if_false, h]

end

/-! ### the stack is a cursor over the block stream -/

section
variable (P : Params) (C : EncPrims) (K : Codec) (rd : Nat → Nat)
  (hC : C11.EncPrims.Laws P C) (hK : K.DecFinish)
  (hrd : ∀ m, 0 < m → 0 < rd m ∧ rd m ≤ m) (hrd0 : rd 0 = 0)
  (cfg : LayerCfg) (S : Bytes) (cs : List Bytes) (hdr : Bytes)
  (hchunks : cfg.encrypted = true → (encPlain P cfg S cs).length / P.chunk + 1 < U32)
  (hcs : cfg.compressed = true → CompFS.IsEncoded P K S cs)
  (hfit : cfg.compressed = true → CompFits P cs)
  (hfile : (hdr ++ sealedBody P C cfg S cs).length < U64)
include hC hK hrd hrd0 hchunks hcs hfit hfile

/-- **the initialised reader stack behaves like a cursor over the block stream `S`**, for every
    layer combination, over `file = hdr ++ sealedBody P C cfg S cs` -/
theorem openStack_cursor :
    ∃ (Inv : ReaderStackT P C K rd cfg → Prop) (abs : ReaderStackT P C K rd cfg → Nat)
      (s : ReaderStackT P C K rd cfg),
      openStack P C K rd cfg hdr.length (hdr ++ sealedBody P C cfg S cs) = .ok s ∧
      IsCursor Inv abs S ∧ Inv s := by
  have hraw0 : ∀ body : Bytes,
      (fun r : RawR Cur => (r.inner.data = hdr ++ body ∧ r.inner.pos ≤ (hdr ++ body).length) ∧
        r.off = hdr.length ∧ hdr.length ≤ r.inner.pos) (rawAfterHeader (hdr ++ body) hdr.length) := by
    intro body
    simp [rawAfterHeader]
  have hrawc : ∀ body : Bytes, (hdr ++ body).length < U64 → IsCursor (σ := RawR Cur)
      (fun r => (r.inner.data = hdr ++ body ∧ r.inner.pos ≤ (hdr ++ body).length) ∧
        r.off = hdr.length ∧ hdr.length ≤ r.inner.pos)
      (fun r => r.inner.pos - r.off) body := by
    intro body hb
    have := RawR.isCursor (hdr ++ body) hdr.length (by simp) hb (Cur.isCursor (hdr ++ body))
    simpa using this
  cases cfg with
  | none => exact ⟨_, _, _, rfl, hrawc S hfile, hraw0 S⟩
  | enc =>
    have hch : S.length / P.chunk + 1 < U32 := hchunks rfl
    obtain ⟨r, hinit, hinv, _⟩ := C11.EncR.init_ok P C hC S (hrawc (sealS P C S) hfile) _ (hraw0 _)
    refine ⟨_, _, ⟨r⟩, ?_, C11.EncRd.isCursor P C hC S hch (hrawc (sealS P C S) hfile), hinv⟩
    simp only [openStack, sealedBody, hinit]
  | comp =>
    have hcomp := isCompressed_of_encoded hK (hcs rfl)
    obtain ⟨r, hinit, hinv, _⟩ := C11.CompR.init_ok P K rd S cs _ hcomp (hfit rfl)
      (hrawc (compBody P S cs) hfile) _ (hraw0 _)
    refine ⟨_, _, ⟨r⟩, ?_,
      C11.CompRd.isCursor P K rd hrd hrd0 S cs _ hcomp (hrawc (compBody P S cs) hfile), hinv⟩
    simp only [openStack, sealedBody, hinit]
  | compEnc =>
    have hch : (compBody P S cs).length / P.chunk + 1 < U32 := hchunks rfl
    have hcomp := isCompressed_of_encoded hK (hcs rfl)
    have henc := C11.EncRd.isCursor P C hC (compBody P S cs) hch
      (hrawc (sealS P C (compBody P S cs)) hfile)
    obtain ⟨r, hinit, hinv, _⟩ := C11.EncR.init_ok P C hC (compBody P S cs)
      (hrawc (sealS P C (compBody P S cs)) hfile) _ (hraw0 _)
    obtain ⟨r', hinit', hinv', _⟩ := C11.CompR.init_ok P K rd S cs _ hcomp (hfit rfl) henc ⟨r⟩ hinv
    refine ⟨_, _, ⟨r'⟩, ?_, C11.CompRd.isCursor P K rd hrd hrd0 S cs _ hcomp henc, hinv'⟩
    simp only [openStack, sealedBody, hinit, hinit']

end

end MlaModel

/-
  Helper lemmas for C11 on the encryption layer: chunk-wise description of `sealS`, `openChunk`
  round trip, behaviour of `load`, `readFull`, `seekStart`, `seekFull` under the reader invariant.
-/
import MlaModel.Proofs.Stream
import MlaModel.Proofs.EncryptWriter
namespace MlaModel

/-! ### arithmetic helpers -/

theorem le_of_mul_lt_succ {k n c : Nat} (h : k * c < n * c + c) : k ≤ n := by
  have : k * c < (n + 1) * c := by rw [Nat.add_mul]; omega
  have := Nat.lt_of_mul_lt_mul_right this
  omega

/-! ### keystream xor is an involution -/

theorem xorAt_xorAt (ks : Nat → UInt8) (off : Nat) (x : Bytes) : xorAt ks off (xorAt ks off x) = x := by
  induction x generalizing off with
  | nil => rfl
  | cons b bs ih => simp [xorAt, ih, UInt8.xor_assoc]

/-- plaintext of chunk `k` -/
def ptChunk (P : Params) (p : Bytes) (k : Nat) : Bytes := (p.drop (k * P.chunk)).take P.chunk

/-- sealed bytes of chunk `k` -/
def scChunk (P : Params) (C : EncPrims) (p : Bytes) (k : Nat) : Bytes :=
  xorAt (C.ks k) 0 (ptChunk P p k) ++ C.tag k (xorAt (C.ks k) 0 (ptChunk P p k))

theorem ptChunk_length (P : Params) (p : Bytes) (k : Nat) :
    (ptChunk P p k).length = min P.chunk (p.length - k * P.chunk) := by
  simp [ptChunk]

theorem openChunk_seal (P : Params) (C : EncPrims) (htag : ∀ i c, (C.tag i c).length = P.tagLen)
    (k : Nat) (ct : Bytes) : openChunk P C k (ct ++ C.tag k ct) = .ok (xorAt (C.ks k) 0 ct) := by
  have h1 : ¬ ((ct ++ C.tag k ct).length < P.tagLen) := by simp [htag]
  have h2 : (ct ++ C.tag k ct).length - P.tagLen = ct.length := by simp [htag]
  unfold openChunk
  rw [if_neg h1]
  simp only [h2, List.take_left', List.drop_left', if_true]

theorem openChunk_scChunk (P : Params) (C : EncPrims) (htag : ∀ i c, (C.tag i c).length = P.tagLen)
    (p : Bytes) (k : Nat) : openChunk P C k (scChunk P C p k) = .ok (ptChunk P p k) := by
  rw [scChunk, openChunk_seal P C htag, xorAt_xorAt]

theorem scChunk_length (P : Params) (C : EncPrims) (htag : ∀ i c, (C.tag i c).length = P.tagLen)
    (p : Bytes) (k : Nat) :
    (scChunk P C p k).length = min P.chunk (p.length - k * P.chunk) + P.tagLen := by
  simp [scChunk, htag, ptChunk_length]


/-! ### chunk-wise description of `sealS` -/

section Seal
variable (P : Params) (C : EncPrims) (htag : ∀ i c, (C.tag i c).length = P.tagLen)
include htag

theorem encFull_length (n i : Nat) (p : Bytes) (h : n * P.chunk ≤ p.length) :
    (encFull P C n i p).length = n * (P.chunk + P.tagLen) := by
  induction n generalizing i p with
  | zero => simp [encFull]
  | succ n ih =>
    have e : (n+1) * P.chunk = n * P.chunk + P.chunk := by rw [Nat.add_mul]; omega
    have e2 : (n+1) * (P.chunk + P.tagLen) = n * (P.chunk + P.tagLen) + (P.chunk + P.tagLen) := by
      rw [Nat.add_mul]; omega
    have := ih (i+1) (p.drop P.chunk) (by simp; omega)
    simp only [encFull, List.length_append, xorAt_length, htag, List.length_take, this]
    omega

omit htag in
theorem encFull_prefix (p : Bytes) (k m : Nat) (h : k + 1 ≤ m) :
    ∃ rest, encFull P C m 0 p = encFull P C k 0 p ++ (scChunk P C p k ++ rest) := by
  induction m with
  | zero => omega
  | succ m ih =>
    by_cases hm : k = m
    · subst hm
      refine ⟨[], ?_⟩
      rw [encFull_succ_end]; simp [scChunk, ptChunk]
    · obtain ⟨rest, hr⟩ := ih (by omega)
      refine ⟨rest ++ (xorAt (C.ks (0+m)) 0 ((p.drop (m*P.chunk)).take P.chunk) ++
        C.tag (0+m) (xorAt (C.ks (0+m)) 0 ((p.drop (m*P.chunk)).take P.chunk))), ?_⟩
      rw [encFull_succ_end, hr]; simp only [List.append_assoc]

/-- index of the last chunk -/
def nLast (P : Params) (p : Bytes) : Nat := (p.length - 1) / P.chunk

omit htag in
theorem nLast_spec (p : Bytes) :
    nLast P p * P.chunk ≤ p.length ∧ p.length ≤ nLast P p * P.chunk + P.chunk ∧
    (0 < p.length → nLast P p * P.chunk < p.length) := by
  have h1 : nLast P p * P.chunk ≤ p.length - 1 := Nat.div_mul_le_self _ _
  have h2 : p.length - 1 < nLast P p * P.chunk + P.chunk := Nat.lt_div_mul_add P.hchunk
  refine ⟨by omega, by omega, by omega⟩

omit htag in
theorem nLast_cases (p : Bytes) (k : Nat) (hk : k * P.chunk ≤ p.length) :
    k ≤ nLast P p ∨ (k = nLast P p + 1 ∧ k * P.chunk = p.length ∧ 0 < p.length) := by
  obtain ⟨h1, h2, h3⟩ := nLast_spec P p
  have hc := P.hchunk
  by_cases h : k ≤ nLast P p
  · exact .inl h
  · right
    have hge : (nLast P p + 1) * P.chunk ≤ k * P.chunk := Nat.mul_le_mul_right _ (by omega)
    have e : (nLast P p + 1) * P.chunk = nLast P p * P.chunk + P.chunk := by rw [Nat.add_mul]; omega
    have heq : k * P.chunk = (nLast P p + 1) * P.chunk := by omega
    refine ⟨Nat.eq_of_mul_eq_mul_right hc heq, by omega, by omega⟩

omit htag in
theorem le_nLast (p : Bytes) (k : Nat) (hk : k * P.chunk < p.length) : k ≤ nLast P p := by
  obtain ⟨h1, h2, h3⟩ := nLast_spec P p
  exact le_of_mul_lt_succ (c := P.chunk) (by omega)

omit htag in
theorem sealS_split (p : Bytes) (k : Nat) (hk : k ≤ nLast P p) :
    ∃ rest, sealS P C p = encFull P C k 0 p ++ (scChunk P C p k ++ rest) ∧
      (k = nLast P p → rest = []) := by
  obtain ⟨h1, h2, h3⟩ := nLast_spec P p
  by_cases h : k = nLast P p
  · subst h
    refine ⟨[], ?_, fun _ => rfl⟩
    have : ptChunk P p (nLast P p) = p.drop (nLast P p * P.chunk) := by
      rw [ptChunk, List.take_of_length_le (by simp; omega)]
    simp only [sealS, scChunk, this, List.append_nil, List.append_assoc]
    rfl
  · obtain ⟨rest, hr⟩ := encFull_prefix P C p k (nLast P p) (by omega)
    refine ⟨rest ++ (xorAt (C.ks (nLast P p)) 0 (p.drop (nLast P p * P.chunk)) ++
      C.tag (nLast P p) (xorAt (C.ks (nLast P p)) 0 (p.drop (nLast P p * P.chunk)))), ?_,
      fun h' => absurd h' h⟩
    show encFull P C (nLast P p) 0 p ++ _ ++ _ = _
    rw [hr]; simp only [List.append_assoc]; rfl

theorem sealS_length (p : Bytes) :
    (sealS P C p).length = p.length + (nLast P p + 1) * P.tagLen := by
  obtain ⟨h1, h2, h3⟩ := nLast_spec P p
  obtain ⟨rest, hs, hr⟩ := sealS_split P C p (nLast P p) (Nat.le_refl _)
  rw [hs, hr rfl]
  simp only [List.length_append, encFull_length P C htag _ _ _ h1, scChunk_length P C htag,
    List.length_nil, Nat.mul_add, Nat.add_mul]
  omega

/-- the sealed bytes of chunk `k ≤ nLast` sit at offset `k * (chunk + tagLen)` -/
theorem sealS_chunk (p : Bytes) (k : Nat) (hk : k ≤ nLast P p) :
    ((sealS P C p).drop (k * (P.chunk + P.tagLen))).take (P.chunk + P.tagLen) = scChunk P C p k := by
  obtain ⟨h1, h2, h3⟩ := nLast_spec P p
  obtain ⟨rest, hs, hr⟩ := sealS_split P C p k hk
  have hkc : k * P.chunk ≤ nLast P p * P.chunk := Nat.mul_le_mul_right _ hk
  have hl := encFull_length P C htag k 0 p (by omega)
  rw [hs, List.drop_left' hl]
  by_cases h : k = nLast P p
  · rw [hr h, List.append_nil, List.take_of_length_le]
    rw [scChunk_length P C htag]; omega
  · have hlt : k + 1 ≤ nLast P p := by omega
    have : (k + 1) * P.chunk ≤ nLast P p * P.chunk := Nat.mul_le_mul_right _ hlt
    rw [Nat.add_mul] at this
    apply List.take_left'
    rw [scChunk_length P C htag]; omega

end Seal

/-! ### one-shot decryption of the sealed stream -/

section OpenAll
variable (P : Params) (C : EncPrims) (htag : ∀ i c, (C.tag i c).length = P.tagLen)
include htag

theorem openAll_from (p : Bytes) (j : Nat) : ∀ (k fuel : Nat), k + j = nLast P p → j + 2 ≤ fuel →
    openAll P C fuel k ((sealS P C p).drop (k * (P.chunk + P.tagLen))) = .ok (p.drop (k * P.chunk)) := by
  obtain ⟨h1, h2, h3⟩ := nLast_spec P p
  have ht := P.htag
  have hlen := sealS_length P C htag p
  induction j with
  | zero =>
    intro k fuel hk hf
    have hkn : k = nLast P p := by omega
    have hkc : k * P.chunk = nLast P p * P.chunk := by rw [hkn]
    have hkt : k * P.tagLen = nLast P p * P.tagLen := by rw [hkn]
    obtain ⟨f, rfl⟩ : ∃ f, fuel = f + 1 := ⟨fuel - 1, by omega⟩
    obtain ⟨f', rfl⟩ : ∃ f', f = f' + 1 := ⟨f - 1, by omega⟩
    have hch := sealS_chunk P C htag p k (by omega)
    have hsl := scChunk_length P C htag p k
    have hne : (sealS P C p).drop (k * (P.chunk + P.tagLen)) ≠ [] := by
      have hpos : 0 < (scChunk P C p k).length := by omega
      intro h; rw [h, List.take_nil] at hch; rw [← hch] at hpos; simp at hpos
    have hrest : ((sealS P C p).drop (k * (P.chunk + P.tagLen))).drop (P.chunk + P.tagLen) = [] := by
      rw [List.drop_drop]; apply List.drop_eq_nil_of_le
      rw [hlen]; simp only [Nat.mul_add, Nat.add_mul]; omega
    have hpt : ptChunk P p k = p.drop (k * P.chunk) := by
      rw [ptChunk, List.take_of_length_le (by simp; omega)]
    rw [openAll, if_neg hne, hch, openChunk_scChunk P C htag, hrest]
    simp [openAll, hpt]
  | succ j ih =>
    intro k fuel hk hf
    obtain ⟨f, rfl⟩ : ∃ f, fuel = f + 1 := ⟨fuel - 1, by omega⟩
    have hch := sealS_chunk P C htag p k (by omega)
    have hsl := scChunk_length P C htag p k
    have hne : (sealS P C p).drop (k * (P.chunk + P.tagLen)) ≠ [] := by
      have hpos : 0 < (scChunk P C p k).length := by omega
      intro h; rw [h, List.take_nil] at hch; rw [← hch] at hpos; simp at hpos
    have hrest : ((sealS P C p).drop (k * (P.chunk + P.tagLen))).drop (P.chunk + P.tagLen) =
        (sealS P C p).drop ((k + 1) * (P.chunk + P.tagLen)) := by
      rw [List.drop_drop]; congr 1; rw [Nat.add_mul]; omega
    have hpt : ptChunk P p k ++ p.drop ((k + 1) * P.chunk) = p.drop (k * P.chunk) := by
      have : p.drop ((k + 1) * P.chunk) = (p.drop (k * P.chunk)).drop P.chunk := by
        rw [List.drop_drop]; congr 1; rw [Nat.add_mul]; omega
      rw [this, ptChunk, List.take_append_drop]
    rw [openAll, if_neg hne, hch, openChunk_scChunk P C htag, hrest, ih (k + 1) f (by omega) (by omega)]
    simp [hpt]

/-- **L1** for the encryption layer: decrypting the sealed stream gives back the plaintext -/
theorem openAll_sealS (p : Bytes) (fuel : Nat) (hf : nLast P p + 2 ≤ fuel) :
    openAll P C fuel 0 (sealS P C p) = .ok p := by
  have := openAll_from P C htag p (nLast P p) 0 fuel (by omega) hf
  simpa using this

end OpenAll

/-! ### the reader -/

section Reader
variable {ι : Type} [Stream ι] (P : Params) (C : EncPrims)
  (htag : ∀ i c, (C.tag i c).length = P.tagLen)
  {InvI : ι → Prop} {absI : ι → Nat} (p : Bytes) (hI : IsCursor InvI absI (sealS P C p))
include htag hI

/-- `load` with the inner stream at the start of chunk `k` (`k * chunk ≤ |p|`): chunk `k` is cached
    (the empty chunk when `k * chunk = |p|`), the inner stream is right after its sealed bytes. -/
theorem EncR.load_ok (r : EncR ι) (hin : InvI r.inner) (hk : r.chunkNo * P.chunk ≤ p.length)
    (hpos : absI r.inner = r.chunkNo * (P.chunk + P.tagLen)) :
    ∃ i b, EncR.load P C r = (⟨i, ptChunk P p r.chunkNo, 0, r.chunkNo, r.failed⟩, .ok b) ∧ InvI i ∧
      absI i = min ((r.chunkNo + 1) * (P.chunk + P.tagLen)) (sealS P C p).length ∧
      (b = false → ptChunk P p r.chunkNo = []) := by
  obtain ⟨i, hr, hi, ha⟩ := readUpTo_ok hI (P.chunk + P.tagLen + 1) r.inner (P.chunk + P.tagLen) hin
    (by omega)
  rw [hpos] at hr ha
  obtain ⟨h1, h2, h3⟩ := nLast_spec P p
  have hc := P.hchunk
  have ht := P.htag
  have hlen := sealS_length P C htag p
  generalize hkk : r.chunkNo = k at *
  rcases nLast_cases P p k hk with hle | ⟨hk1, hk2, hk3⟩
  · rw [sealS_chunk P C htag p k hle] at hr ha
    have hsl := scChunk_length P C htag p k
    have hne : ¬ ((scChunk P C p k).length = 0) := by omega
    refine ⟨i, true, ?_, hi, ?_, by simp⟩
    · unfold EncR.load
      rw [hr]
      simp only [hne, if_false, hkk, openChunk_scChunk P C htag]
    · rw [ha, hsl, hlen]
      by_cases h : k = nLast P p
      · subst h
        simp only [Nat.mul_add, Nat.add_mul]; omega
      · have hlt : k + 1 ≤ nLast P p := by omega
        have a1 : (k + 1) * P.chunk ≤ nLast P p * P.chunk := Nat.mul_le_mul_right _ hlt
        have a2 : (k + 1) * P.tagLen ≤ nLast P p * P.tagLen := Nat.mul_le_mul_right _ hlt
        simp only [Nat.mul_add, Nat.add_mul] at a1 a2 ⊢; omega
  · have hkT : k * (P.chunk + P.tagLen) = (sealS P C p).length := by
      rw [hlen, ← hk1, Nat.mul_add, hk2]
    have hnil : ((sealS P C p).drop (k * (P.chunk + P.tagLen))).take (P.chunk + P.tagLen) = [] := by
      rw [List.drop_eq_nil_of_le (by omega)]; simp
    rw [hnil] at hr ha
    have hpt : ptChunk P p k = [] := by
      rw [ptChunk, List.drop_eq_nil_of_le (by omega)]; simp
    refine ⟨i, false, ?_, hi, ?_, fun _ => hpt⟩
    · unfold EncR.load
      rw [hr]
      simp [hkk, hpt]
    · rw [ha, ← hkT]; simp only [List.length_nil, Nat.add_mul]; omega


omit hI in
/-- chunk `k` (with `k * chunk ≤ |p|`) starts inside the sealed stream -/
theorem chunk_off_le (k : Nat) (hk : k * P.chunk ≤ p.length) :
    k * (P.chunk + P.tagLen) ≤ (sealS P C p).length := by
  obtain ⟨h1, h2, h3⟩ := nLast_spec P p
  rw [sealS_length P C htag p]
  rcases nLast_cases P p k hk with hle | ⟨hk1, hk2, hk3⟩
  · have a2 : k * P.tagLen ≤ nLast P p * P.tagLen := Nat.mul_le_mul_right _ hle
    simp only [Nat.mul_add, Nat.add_mul]; omega
  · rw [← hk1, Nat.mul_add, hk2]; omega

end Reader

/-- The reader invariant, relative to the plaintext `p` and the inner stream's invariant /
    abstraction: the cache is the plaintext of chunk `chunkNo` (empty when `chunkNo * chunk = |p|`),
    the position inside it is within the cache, and the inner stream is positioned right after the
    sealed bytes of that chunk. -/
structure EncRd.Inv {ι : Type} (P : Params) (C : EncPrims) (p : Bytes) (InvI : ι → Prop)
    (absI : ι → Nat) (s : EncRd P C ι) : Prop where
  inner : InvI s.r.inner
  le : s.r.chunkNo * P.chunk ≤ p.length
  cache : s.r.cache = (p.drop (s.r.chunkNo * P.chunk)).take P.chunk
  cpos : s.r.cpos ≤ s.r.cache.length
  nofail : s.r.failed = false
  ipos : absI s.r.inner = min ((s.r.chunkNo + 1) * (P.chunk + P.tagLen)) (sealS P C p).length

section Reader2
variable {ι : Type} [Stream ι] (P : Params) (C : EncPrims)
  (htag : ∀ i c, (C.tag i c).length = P.tagLen)
  {InvI : ι → Prop} {absI : ι → Nat} (p : Bytes) (hI : IsCursor InvI absI (sealS P C p))

omit [Stream ι] in
theorem EncRd.Inv.abs_le {s : EncRd P C ι} (h : EncRd.Inv P C p InvI absI s) :
    s.r.chunkNo * P.chunk + s.r.cpos ≤ p.length := by
  have h1 := h.cpos
  have h2 := h.le
  rw [h.cache] at h1
  simp only [List.length_take, List.length_drop] at h1
  omega

theorem take_eq_take_length {α : Type} (l : List α) (m : Nat) : l.take m = l.take (l.take m).length := by
  rw [List.take_eq_take_iff]; simp

omit [Stream ι] in
/-- consuming from the cache under the invariant -/
theorem EncR.fromCache_ok (r : EncR ι) (n : Nat) (h : EncRd.Inv P C p InvI absI ⟨r⟩) :
    EncRd.Inv P C p InvI absI ⟨(EncR.fromCache P r n).1⟩ ∧
    (EncR.fromCache P r n).2 =
      (p.drop (r.chunkNo * P.chunk + r.cpos)).take (EncR.fromCache P r n).2.length ∧
    (EncR.fromCache P r n).2.length ≤ n ∧
    (0 < n → r.chunkNo * P.chunk + r.cpos < p.length → r.cpos < P.chunk →
      0 < (EncR.fromCache P r n).2.length) ∧
    (EncR.fromCache P r n).1.chunkNo * P.chunk + (EncR.fromCache P r n).1.cpos =
      r.chunkNo * P.chunk + r.cpos + (EncR.fromCache P r n).2.length := by
  obtain ⟨hin, hle, hcache, hcpos, hnf, hipos⟩ := h
  simp only at hin hle hcache hcpos hnf hipos
  have hout : (EncR.fromCache P r n).2 =
      (p.drop (r.chunkNo * P.chunk + r.cpos)).take (min (P.chunk - r.cpos) n) := by
    simp only [EncR.fromCache, hcache, List.drop_take, List.drop_drop, List.take_take]
    congr 1; omega
  have hlen : (EncR.fromCache P r n).2.length =
      min (min (P.chunk - r.cpos) n) (p.length - (r.chunkNo * P.chunk + r.cpos)) := by
    rw [hout]; simp
  have hcl : r.cache.length = min P.chunk (p.length - r.chunkNo * P.chunk) := by
    rw [hcache]; simp
  refine ⟨⟨hin, hle, hcache, ?_, hnf, hipos⟩, ?_, ?_, ?_, ?_⟩
  · show r.cpos + (EncR.fromCache P r n).2.length ≤ r.cache.length
    rw [hlen]; omega
  · rw [hout]; exact take_eq_take_length _ _
  · rw [hlen]; omega
  · intro h1 h2 h3; rw [hlen]; omega
  · show r.chunkNo * P.chunk + (r.cpos + (EncR.fromCache P r n).2.length) = _
    omega

include htag hI

/-- `readFull` is "make sure the cache is not exhausted (load the next chunk if it is), then consume
    from the cache" -/
theorem EncR.readFull_eq (r : EncR ι) (n : Nat) (h : EncRd.Inv P C p InvI absI ⟨r⟩) :
    ∃ r1, EncRd.Inv P C p InvI absI ⟨r1⟩ ∧
      r1.chunkNo * P.chunk + r1.cpos = r.chunkNo * P.chunk + r.cpos ∧ r1.cpos < P.chunk ∧
      EncR.readFull P C r n = ((EncR.fromCache P r1 n).1, .ok (EncR.fromCache P r1 n).2) := by
  have hc := P.hchunk
  by_cases hz : P.chunk - r.cpos = 0
  · obtain ⟨hin, hle, hcache, hcpos, hnf, hipos⟩ := h
    simp only at hin hle hcache hcpos hnf hipos
    have hcl : r.cache.length = min P.chunk (p.length - r.chunkNo * P.chunk) := by
      rw [hcache]; simp
    have hcp : r.cpos = P.chunk := by omega
    have hk1 : (r.chunkNo + 1) * P.chunk ≤ p.length := by rw [Nat.add_mul]; omega
    have hoff := chunk_off_le P C htag p (r.chunkNo + 1) hk1
    obtain ⟨i, b, hl, hi, ha, hb⟩ := EncR.load_ok P C htag p hI
      { r with chunkNo := r.chunkNo + 1 } hin hk1
      (by show absI r.inner = _; rw [hipos]; exact Nat.min_eq_left hoff)
    simp only [hnf] at hl ha hb
    refine ⟨⟨i, ptChunk P p (r.chunkNo + 1), 0, r.chunkNo + 1, false⟩,
      ⟨hi, hk1, rfl, Nat.zero_le _, rfl, ha⟩, ?_, hc, ?_⟩
    · simp only [Nat.add_mul]; omega
    · unfold EncR.readFull
      rw [hnf, if_neg (by simp), if_pos hz, hl]
      cases b with
      | true => rfl
      | false => simp [EncR.fromCache, hb rfl]
  · refine ⟨r, h, rfl, by omega, ?_⟩
    unfold EncR.readFull
    rw [h.nofail, if_neg (by simp), if_neg hz]

/-- `seekStart` to any position of the plaintext, from any state whose inner stream is fine -/
theorem EncR.seekStart_ok (r : EncR ι) (pos : Nat) (hin : InvI r.inner) (hpos : pos ≤ p.length)
    (hu : pos / P.chunk < U32) :
    ∃ r', EncR.seekStart P C r pos = (r', .ok pos) ∧ EncRd.Inv P C p InvI absI ⟨r'⟩ ∧
      r'.chunkNo * P.chunk + r'.cpos = pos := by
  have hc := P.hchunk
  have ht := P.htag
  have hT : 0 < P.chunk + P.tagLen := by omega
  have hrm : pos % P.chunk < P.chunk := Nat.mod_lt _ hc
  have hdm : pos / P.chunk * P.chunk + pos % P.chunk = pos := by
    rw [Nat.mul_comm]; exact Nat.div_add_mod pos P.chunk
  generalize hq : pos / P.chunk = q at *
  generalize hm : pos % P.chunk = rm at *
  have e1 : (q * (P.chunk + P.tagLen) + rm) / (P.chunk + P.tagLen) = q := by
    rw [Nat.mul_comm, Nat.mul_add_div hT, Nat.div_eq_of_lt (by omega)]; rfl
  have e2 : (q * (P.chunk + P.tagLen) + rm) % (P.chunk + P.tagLen) = rm := by
    rw [Nat.mul_comm, Nat.mul_add_mod, Nat.mod_eq_of_lt (by omega)]
  have hqc : q * P.chunk ≤ p.length := by omega
  have hoff := chunk_off_le P C htag p q hqc
  obtain ⟨i, hs, hi, ha⟩ := hI.seek_ok r.inner (.start (q * (P.chunk + P.tagLen)))
    (q * (P.chunk + P.tagLen)) hin hoff rfl
  obtain ⟨i', b, hl, hi', ha', _⟩ := EncR.load_ok P C htag p hI
    { r with inner := i, chunkNo := q } hi hqc ha
  simp only at hl ha'
  refine ⟨⟨i', ptChunk P p q, rm, q, false⟩, ?_, ⟨hi', hqc, rfl, ?_, rfl, ha'⟩, by omega⟩
  · unfold EncR.seekStart
    simp only [hq, hm, e1, e2, hs, hl, if_neg (Nat.not_le.mpr hu)]
  · show rm ≤ (ptChunk P p q).length
    rw [ptChunk_length]; omega


omit hI in
/-- what `seek(End)` computes from the length of the sealed stream is the plaintext length -/
theorem sealS_end :
    let e := (sealS P C p).length
    let T := P.chunk + P.tagLen
    ¬ (e % T ≠ 0 ∧ e % T < P.tagLen) ∧
    (if e % T = 0 then e / T * P.chunk else e / T * P.chunk + e % T - P.tagLen) = p.length := by
  intro e T
  have hc := P.hchunk
  have ht := P.htag
  have hT : 0 < T := by show 0 < P.chunk + P.tagLen; omega
  obtain ⟨h1, h2, h3⟩ := nLast_spec P p
  have he : e = T * nLast P p + (p.length - nLast P p * P.chunk + P.tagLen) := by
    show (sealS P C p).length = (P.chunk + P.tagLen) * nLast P p + _
    have a1 : (P.chunk + P.tagLen) * nLast P p = nLast P p * P.chunk + nLast P p * P.tagLen := by
      rw [Nat.mul_comm, Nat.mul_add]
    have a2 : (nLast P p + 1) * P.tagLen = nLast P p * P.tagLen + P.tagLen := by
      rw [Nat.add_mul]; omega
    rw [sealS_length P C htag p, a1, a2]; omega
  by_cases hfull : p.length - nLast P p * P.chunk = P.chunk
  · have he' : e = T * (nLast P p + 1) + 0 := by
      rw [he, hfull, Nat.mul_add]; show _ = _ + T * 1 + 0; omega
    have hq : e / T = nLast P p + 1 := by
      rw [he', Nat.mul_add_div hT]; simp
    have hr : e % T = 0 := by rw [he', Nat.mul_add_mod]; simp
    rw [hq, hr]
    refine ⟨by omega, ?_⟩
    simp only [if_true, Nat.add_mul]; omega
  · have hlt : p.length - nLast P p * P.chunk + P.tagLen < T := by
      show _ < P.chunk + P.tagLen; omega
    have hq : e / T = nLast P p := by
      rw [he, Nat.mul_add_div hT, Nat.div_eq_of_lt hlt]; rfl
    have hr : e % T = p.length - nLast P p * P.chunk + P.tagLen := by
      rw [he, Nat.mul_add_mod, Nat.mod_eq_of_lt hlt]
    rw [hq, hr]
    refine ⟨by omega, ?_⟩
    rw [if_neg (by omega)]; omega

/-- every seek into `[0, |p|]` succeeds, re-establishes the invariant and lands on the target -/
theorem EncR.seekFull_ok (r : EncR ι) (w : SeekFrom) (target : Nat)
    (h : EncRd.Inv P C p InvI absI ⟨r⟩) (ht : target ≤ p.length)
    (hu : p.length / P.chunk < U32)
    (hw : match w with
       | .start n => target = n
       | .current d => (target : Int) = (r.chunkNo * P.chunk + r.cpos : Nat) + d
       | .fromEnd d => (target : Int) = p.length + d) :
    ∃ r', EncR.seekFull P C r w = (r', .ok target) ∧ EncRd.Inv P C p InvI absI ⟨r'⟩ ∧
      r'.chunkNo * P.chunk + r'.cpos = target := by
  have hut : target / P.chunk < U32 := Nat.lt_of_le_of_lt (Nat.div_le_div_right ht) hu
  cases w with
  | start n =>
    simp only at hw; subst hw
    exact EncR.seekStart_ok P C htag p hI r target h.inner ht hut
  | current d =>
    simp only at hw
    by_cases hd : d = 0
    · subst hd
      refine ⟨r, ?_, h, by omega⟩
      have : r.chunkNo * P.chunk + r.cpos = target := by omega
      simp [EncR.seekFull, this]
    · obtain ⟨r', hs, hi, ha⟩ := EncR.seekStart_ok P C htag p hI r target h.inner ht hut
      refine ⟨r', ?_, hi, ha⟩
      have h1 : ¬ (((r.chunkNo * P.chunk + r.cpos : Nat) : Int) + d < 0) := by omega
      have h2 : (((r.chunkNo * P.chunk + r.cpos : Nat) : Int) + d).toNat = target := by omega
      simp only [EncR.seekFull, if_neg hd]
      rw [if_neg h1, h2, hs]
  | fromEnd d =>
    simp only at hw
    obtain ⟨i, hs, hi, ha⟩ := hI.seek_ok r.inner (.fromEnd 0) (sealS P C p).length h.inner
      (Nat.le_refl _) (by simp)
    obtain ⟨hrem, hend⟩ := sealS_end P C htag p
    obtain ⟨r', hs', hi', ha'⟩ := EncR.seekStart_ok P C htag p hI { r with inner := i } target hi ht hut
    refine ⟨r', ?_, hi', ha'⟩
    have h0 : ¬ (0 < d) := by omega
    have h1 : ¬ ((p.length : Int) + d < 0) := by omega
    have h2 : ((p.length : Int) + d).toNat = target := by omega
    simp only [EncR.seekFull, if_neg h0, hs]
    rw [if_neg hrem, hend, if_neg h1, h2, hs']

end Reader2

end MlaModel

/-
  Helper lemmas for Theorems/C14Stack.lean: the writer stack's call lists and destination bytes for
  a prefix of the op list.
-/
import MlaModel.Theorems.C14
import MlaModel.Theorems.C05Stack
namespace MlaModel.C14
open MlaModel

theorem pieces_append (a b : List LAct) : LAct.pieces (a ++ b) = LAct.pieces a ++ LAct.pieces b := by
  induction a with
  | nil => rfl
  | cons x a ih => cases x <;> simp [LAct.pieces, ih]

/-- the encryption layer only ever appends to what it has emitted -/
theorem encFoldl_prefix (P : Params) (C : EncPrims) (ps : List Bytes) : ∀ (acc : EW × Bytes),
    acc.2 <+: (ps.foldl (encStepPiece P C) acc).2 := by
  induction ps with
  | nil => intro acc; exact List.prefix_refl _
  | cons p ps ih =>
    intro acc
    simp only [List.foldl_cons]
    exact (List.prefix_append _ _).trans (ih (encStepPiece P C acc p))

theorem encWritePieces_append_prefix (P : Params) (C : EncPrims) (a b : List Bytes) :
    (encWritePieces P C a).2 <+: (encWritePieces P C (a ++ b)).2 := by
  unfold encWritePieces
  rw [List.foldl_append]
  exact encFoldl_prefix P C b _

section
variable (P : Params) (H : Bytes → Bytes)

/-- the calls issued for a prefix of the op list are a prefix of the calls issued for the list -/
theorem topActs_append (cut : Cut) (a b : List Op) : ∀ (i : Nat) (s : WState),
    ∃ tail, (Stack.topActs P H cut i s (a ++ b)).1 = (Stack.topActs P H cut i s a).1 ++ tail := by
  induction a with
  | nil => intro i s; exact ⟨(Stack.topActs P H cut i s b).1, by simp [Stack.topActs]⟩
  | cons op a ih =>
    intro i s
    simp only [List.cons_append]
    unfold Stack.topActs
    by_cases hfin : ((Writer.step P H s op).1.finalized && !s.finalized) = true
    · simp only [hfin, if_true]
      exact ⟨[], by simp⟩
    · simp only [hfin, Bool.false_eq_true, if_false]
      obtain ⟨tail, ht⟩ := ih (i + 1) (Writer.step P H s op).1
      exact ⟨tail, by rw [ht, List.append_assoc]⟩

/-- if the writer is not finalized after `a`, the calls for `a ++ [.flush]` are those for `a`, then
    one `flush` -/
theorem topActs_snoc_flush (cut : Cut) (a : List Op) : ∀ (i : Nat) (s : WState),
    (Writer.runFrom P H s a).1.finalized = false →
    (Stack.topActs P H cut i s (a ++ [.flush])).1 = (Stack.topActs P H cut i s a).1 ++ [.flush] := by
  induction a with
  | nil =>
    intro i s hs
    have hs' : s.finalized = false := by simpa [Writer.runFrom] using hs
    simp [Stack.topActs, C07.step_flush, hs', Stack.opActs]
  | cons op a ih =>
    intro i s hs
    rw [runFrom_cons] at hs
    simp only at hs
    simp only [List.cons_append]
    unfold Stack.topActs
    have h1 : (Writer.step P H s op).1.finalized = false := by
      cases h : (Writer.step P H s op).1.finalized with
      | false => rfl
      | true =>
        rw [runFrom_of_finalized P H _ a h] at hs
        rw [h] at hs; cases hs
    simp only [h1, Bool.false_and, Bool.false_eq_true, if_false]
    rw [ih (i + 1) _ hs, List.append_assoc]

end

section
variable (P : Params) (K : Codec)

/-- the compression layer's calls for a prefix of the calls it receives -/
theorem compTrans_append (cut : Cut) (fin : Bool) (as bs : List LAct) : ∀ (i : Nat) (w : CW K),
    Stack.compTrans P K cut i w (as ++ bs) fin =
      Stack.compTrans P K cut i w as false ++
        Stack.compTrans P K cut (i + as.length) (as.foldl (compStep P K) (w, [])).1 bs fin := by
  induction as with
  | nil => intro i w; simp [Stack.compTrans]
  | cons a as ih =>
    intro i w
    simp only [List.cons_append, List.foldl_cons, List.length_cons]
    rw [Stack.compTrans, Stack.compTrans, ih]
    have e : (as.foldl (compStep P K) (compStep P K (w, []) a)).1 =
        (as.foldl (compStep P K) ((compStep P K (w, []) a).1, [])).1 := by
      rw [C07.compFoldl_acc P K as (compStep P K (w, []) a).1 (compStep P K (w, []) a).2]
    rw [e]
    have e2 : i + 1 + as.length = i + (as.length + 1) := by omega
    rw [e2]
    simp [List.append_assoc]

end

end MlaModel.C14

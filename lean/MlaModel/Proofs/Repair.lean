/-
  Helpers for C02 / C05: `Repair.loop` / `Repair.convert` on (a truncation of) a genuine stream.

  The block list of a genuine stream obeys the block protocol (`protoRun`, WriterInv).  A delivered
  prefix of `k` bytes of `encodeAll bs` is, for the repair loop, the same as the block list
  `cutBlocks bs k` (the whole blocks inside the cut, plus — if the cut falls in the payload of a
  content block — that block with the shorter payload).  The loop invariant `RInv` relates the
  repair state to the protocol state after the blocks consumed so far and to the state of the
  output writer after the calls issued so far.
-/
import MlaModel.Repair
import MlaModel.Spec
import MlaModel.Proofs.Linear
namespace MlaModel

/-! ### the protocol state -/

structure PSt.WF (p : PSt) : Prop where
  ids : p.names.map (·.2) = List.range p.names.length
  nodup : (p.names.map (·.1)).Nodup
  okeys : (p.opened.map (·.1)).Nodup
  olt : ∀ k ∈ p.opened.map (·.1), k < p.names.length

theorem PSt.WF.init : (⟨[], []⟩ : PSt).WF := ⟨rfl, by simp, by simp, by simp⟩

section
variable {H : Bytes → Bytes}

theorem protoStep_start_inv {p p' : PSt} {id : Nat} {name : Bytes}
    (h : protoStep H p (.start id name) = some p') :
    id = p.names.length ∧ name ∉ p.names.map (·.1) ∧
      p' = ⟨p.names ++ [(name, id)], p.opened ++ [(id, [])]⟩ := by
  simp only [protoStep] at h
  split at h
  · rename_i hc
    simp only [Option.some.injEq] at h
    exact ⟨hc.1, hc.2, h.symm⟩
  · simp at h

theorem protoStep_content_inv {p p' : PSt} {id : Nat} {d : Bytes}
    (h : protoStep H p (.content id d) = some p') :
    ∃ c, alookup id p.opened = some c ∧ p' = ⟨p.names, aupdate id (fun h => h ++ d) p.opened⟩ := by
  simp only [protoStep] at h
  cases hc : alookup id p.opened with
  | none => simp [hc] at h
  | some c =>
    simp only [hc, Option.some.injEq] at h
    exact ⟨c, rfl, h.symm⟩

theorem protoStep_eof_inv {p p' : PSt} {id : Nat} {g : Bytes}
    (h : protoStep H p (.eof id g) = some p') :
    ∃ c, alookup id p.opened = some c ∧ g = H c ∧ p' = ⟨p.names, aerase id p.opened⟩ := by
  simp only [protoStep] at h
  cases hc : alookup id p.opened with
  | none => simp [hc] at h
  | some c =>
    simp only [hc] at h
    split at h
    · rename_i hg
      simp only [Option.some.injEq] at h
      exact ⟨c, rfl, hg, h.symm⟩
    · simp at h

theorem alookup_lt_of_wf {p : PSt} (hw : p.WF) {id : Nat} {c : Bytes}
    (h : alookup id p.opened = some c) : id < p.names.length :=
  hw.olt id (mem_keys_of_alookup id p.opened c h)

theorem protoStep_wf {p p' : PSt} {b : Block} (hw : p.WF) (h : protoStep H p b = some p') :
    p'.WF := by
  cases b with
  | eoad => simp [protoStep] at h
  | start id name =>
    obtain ⟨rfl, hfresh, rfl⟩ := protoStep_start_inv h
    refine ⟨?_, ?_, ?_, ?_⟩
    · simp [hw.ids, List.range_succ]
    · simp only [List.map_append, List.map_cons, List.map_nil]
      rw [List.nodup_append]
      refine ⟨hw.nodup, by simp, ?_⟩
      intro a ha b hb
      simp only [List.mem_singleton] at hb; subst hb
      intro e; subst e; exact hfresh ha
    · simp only [List.map_append, List.map_cons, List.map_nil]
      rw [List.nodup_append]
      refine ⟨hw.okeys, by simp, ?_⟩
      intro a ha b hb
      simp only [List.mem_singleton] at hb; subst hb
      intro e; subst e
      have := hw.olt _ ha; omega
    · intro k hk
      simp only [List.map_append, List.map_cons, List.map_nil, List.mem_append,
        List.mem_singleton, List.length_append, List.length_cons, List.length_nil] at hk ⊢
      rcases hk with hk | hk
      · have := hw.olt k hk; omega
      · omega
  | content id d =>
    obtain ⟨c, _, rfl⟩ := protoStep_content_inv h
    exact ⟨hw.ids, hw.nodup, by simp only [aupdate_keys]; exact hw.okeys,
      by simp only [aupdate_keys]; exact hw.olt⟩
  | eof id g =>
    obtain ⟨c, _, _, rfl⟩ := protoStep_eof_inv h
    exact ⟨hw.ids, hw.nodup, (aerase_keys_sublist id p.opened).nodup hw.okeys,
      fun k hk => hw.olt k ((aerase_keys_sublist id p.opened).subset hk)⟩

theorem protoRun_wf {p pf : PSt} {bs : List Block} (hw : p.WF) (h : protoRun H p bs = some pf) :
    pf.WF := by
  induction bs generalizing p with
  | nil => simp only [protoRun, Option.some.injEq] at h; exact h ▸ hw
  | cons b bs ih =>
    simp only [protoRun] at h
    cases hs : protoStep H p b with
    | none => simp [hs] at h
    | some p' => simp only [hs] at h; exact ih (protoStep_wf hw hs) h

theorem protoStep_names_prefix {p p' : PSt} {b : Block} (h : protoStep H p b = some p') :
    p.names <+: p'.names := by
  cases b with
  | eoad => simp [protoStep] at h
  | start id name => obtain ⟨_, _, rfl⟩ := protoStep_start_inv h; exact List.prefix_append _ _
  | content id d => obtain ⟨c, _, rfl⟩ := protoStep_content_inv h; exact List.prefix_refl _
  | eof id g => obtain ⟨c, _, _, rfl⟩ := protoStep_eof_inv h; exact List.prefix_refl _

theorem protoRun_names_prefix {p pf : PSt} {bs : List Block} (h : protoRun H p bs = some pf) :
    p.names <+: pf.names := by
  induction bs generalizing p with
  | nil => simp only [protoRun, Option.some.injEq] at h; exact h ▸ List.prefix_refl _
  | cons b bs ih =>
    simp only [protoRun] at h
    cases hs : protoStep H p b with
    | none => simp [hs] at h
    | some p' => simp only [hs] at h; exact (protoStep_names_prefix hs).trans (ih h)

/-- a closed file stays closed and gets no more content -/
theorem protoStep_closed {p p' : PSt} {b : Block} (_hw : p.WF) (h : protoStep H p b = some p')
    {i : Nat} (hi : i < p.names.length) (hc : alookup i p.opened = none) :
    alookup i p'.opened = none ∧ b.dataFor i = [] := by
  cases b with
  | eoad => simp [protoStep] at h
  | start id name =>
    obtain ⟨rfl, _, rfl⟩ := protoStep_start_inv h
    refine ⟨?_, rfl⟩
    simp only [alookup_append, hc]
    have : ¬ p.names.length = i := by omega
    simp [this]
  | content id d =>
    obtain ⟨c, hc', rfl⟩ := protoStep_content_inv h
    have hne : ¬ id = i := by intro e; subst e; rw [hc] at hc'; simp at hc'
    refine ⟨?_, by simp [Block.dataFor, hne]⟩
    simp only [alookup_aupdate, hc]
    split <;> rfl
  | eof id g =>
    obtain ⟨c, hc', _, rfl⟩ := protoStep_eof_inv h
    have hne : i ≠ id := by intro e; subst e; rw [hc] at hc'; simp at hc'
    exact ⟨by simp only [alookup_aerase_ne _ _ _ hne, hc], rfl⟩

theorem closed_no_more {p pf : PSt} {bs : List Block} (hw : p.WF) (h : protoRun H p bs = some pf)
    {i : Nat} (hi : i < p.names.length) (hc : alookup i p.opened = none) :
    contentOf i bs = [] := by
  induction bs generalizing p with
  | nil => rfl
  | cons b bs ih =>
    simp only [protoRun] at h
    cases hs : protoStep H p b with
    | none => simp [hs] at h
    | some p' =>
      simp only [hs] at h
      obtain ⟨h1, h2⟩ := protoStep_closed hw hs hi hc
      have hl := (protoStep_names_prefix hs).length_le
      simp [h2, ih (protoStep_wf hw hs) h (by omega) h1]

end

/-! ### what a cut of `k` bytes leaves of a block list -/

def cutBlocks : List Block → Nat → List Block
  | [], _ => []
  | b :: bs, k =>
    if b.encode.length ≤ k then b :: cutBlocks bs (k - b.encode.length)
    else match b with
      | .content id d => if 17 ≤ k then [.content id (d.take (k - 17))] else []
      | _ => []

theorem cutBlocks_full (bs : List Block) (k : Nat) (h : (encodeAll bs).length ≤ k) :
    cutBlocks bs k = bs := by
  induction bs generalizing k with
  | nil => rfl
  | cons b bs ih =>
    simp only [encodeAll_cons, List.length_append] at h
    have : b.encode.length ≤ k := by omega
    simp only [cutBlocks, this, if_true]
    rw [ih _ (by omega)]

theorem cut_content_prefix (i : Nat) (bs : List Block) (k : Nat) :
    contentOf i (cutBlocks bs k) <+: contentOf i bs := by
  induction bs generalizing k with
  | nil => exact List.prefix_refl _
  | cons b bs ih =>
    simp only [cutBlocks]
    split
    · simp only [contentOf_cons]
      exact (List.prefix_append_right_inj _).2 (ih _)
    · cases b with
      | content id d =>
        simp only
        split
        · simp only [contentOf_cons, contentOf_nil, Block.dataFor, List.append_nil]
          split
          · exact (List.take_prefix _ _).trans (List.prefix_append _ _)
          · exact List.nil_prefix
        · exact List.nil_prefix
      | _ => exact List.nil_prefix

theorem cut_compose (bs : List Block) (k₁ k₂ : Nat) (h : k₁ ≤ k₂) :
    cutBlocks (cutBlocks bs k₂) k₁ = cutBlocks bs k₁ := by
  induction bs generalizing k₁ k₂ with
  | nil => rfl
  | cons b bs ih =>
    by_cases h2 : b.encode.length ≤ k₂
    · simp only [cutBlocks, h2, if_true]
      by_cases h1 : b.encode.length ≤ k₁
      · simp only [h1, if_true]
        rw [ih _ _ (by omega)]
      · simp only [h1, if_false]
    · have h1 : ¬ b.encode.length ≤ k₁ := by omega
      simp only [cutBlocks, h2, h1, if_false]
      cases b with
      | content id d =>
        have hel := Block.encode_length (Block.content id d)
        simp only at hel
        simp only
        by_cases h17 : 17 ≤ k₂
        · simp only [h17, if_true]
          have hlen : (Block.content id (d.take (k₂ - 17))).encode.length = k₂ := by
            rw [Block.encode_length]; simp; omega
          by_cases h21 : k₂ ≤ k₁
          · have : k₁ = k₂ := by omega
            subst this
            simp [cutBlocks, hlen, h17]
          · have hn : ¬ (Block.content id (d.take (k₂ - 17))).encode.length ≤ k₁ := by
              rw [hlen]; omega
            simp only [cutBlocks, hn, if_false]
            by_cases h171 : 17 ≤ k₁
            · simp only [h171, if_true, List.take_take]
              congr 3
              omega
            · simp only [h171, if_false]
        · have : ¬ 17 ≤ k₁ := by omega
          simp [h17, this, cutBlocks]
      | start id n => simp [cutBlocks]
      | eof id g => simp [cutBlocks]
      | eoad => simp [cutBlocks]

section
variable {H : Bytes → Bytes}

/-- the cut block list still obeys the protocol and starts a prefix of the files -/
theorem cut_run {p pf : PSt} {bs : List Block} (k : Nat) (h : protoRun H p bs = some pf) :
    ∃ p'', protoRun H p (cutBlocks bs k) = some p'' ∧ p''.names <+: pf.names := by
  induction bs generalizing p k with
  | nil => exact ⟨p, rfl, by simp only [protoRun, Option.some.injEq] at h; exact h ▸ List.prefix_refl _⟩
  | cons b bs ih =>
    simp only [protoRun] at h
    cases hs : protoStep H p b with
    | none => simp [hs] at h
    | some p' =>
      simp only [hs] at h
      have hpre := (protoStep_names_prefix hs).trans (protoRun_names_prefix h)
      simp only [cutBlocks]
      split
      · obtain ⟨p'', h1, h2⟩ := ih (k - b.encode.length) h
        exact ⟨p'', by simp only [protoRun, hs, h1], h2⟩
      · cases b with
        | content id d =>
          simp only
          split
          · obtain ⟨c, hc, rfl⟩ := protoStep_content_inv hs
            refine ⟨⟨p.names, aupdate id (fun h => h ++ d.take (k - 17)) p.opened⟩, ?_, hpre⟩
            simp [protoRun, protoStep, hc]
          · exact ⟨p, rfl, hpre⟩
        | start id n => exact ⟨p, rfl, hpre⟩
        | eof id g => exact ⟨p, rfl, hpre⟩
        | eoad => exact ⟨p, rfl, hpre⟩

/-- a file that is closed after the cut has all its content inside the cut -/
theorem cut_closed {p pf p'' : PSt} {bs : List Block} (k : Nat) (hw : p.WF)
    (h : protoRun H p bs = some pf) (hcut : protoRun H p (cutBlocks bs k) = some p'')
    {i : Nat} (hi : i < p''.names.length) (hc : alookup i p''.opened = none) :
    contentOf i (cutBlocks bs k) = contentOf i bs := by
  induction bs generalizing p k with
  | nil => rfl
  | cons b bs ih =>
    have hall := h
    simp only [protoRun] at h
    cases hs : protoStep H p b with
    | none => simp [hs] at h
    | some p' =>
      simp only [hs] at h
      simp only [cutBlocks] at hcut ⊢
      split
      · rename_i hle
        simp only [hle, if_true, protoRun, hs] at hcut
        simp only [contentOf_cons]
        rw [ih _ (protoStep_wf hw hs) h hcut]
      · rename_i hle
        simp only [hle, if_false] at hcut
        cases b with
        | content id d =>
          simp only at hcut ⊢
          split
          · rename_i h17
            simp only [h17, if_true] at hcut
            obtain ⟨c, hc', rfl⟩ := protoStep_content_inv hs
            simp only [protoRun, protoStep, hc', Option.some.injEq] at hcut
            subst hcut
            simp only at hi hc
            have hne : i ≠ id := by
              intro e; subst e
              rw [alookup_aupdate, if_pos rfl, hc'] at hc; simp at hc
            have hc0 : alookup i p.opened = none := by
              rw [alookup_aupdate, if_neg hne] at hc; exact hc
            have := closed_no_more hw hall hi hc0
            rw [this]
            have hne' : ¬ id = i := fun e => hne e.symm
            simp [Block.dataFor, hne']
          · rename_i h17
            simp only [h17, if_false, protoRun, Option.some.injEq] at hcut
            subst hcut
            rw [closed_no_more hw hall hi hc]; rfl
        | start id n =>
          simp only [protoRun, Option.some.injEq] at hcut
          subst hcut
          rw [closed_no_more hw hall hi hc]; rfl
        | eof id g =>
          simp only [protoRun, Option.some.injEq] at hcut
          subst hcut
          rw [closed_no_more hw hall hi hc]; rfl
        | eoad =>
          simp only [protoRun, Option.some.injEq] at hcut
          subst hcut
          rw [closed_no_more hw hall hi hc]; rfl

end

/-! ### the output writer: which calls are accepted, and what they do to the bookkeeping -/

/-- what acceptance depends on: finalized, next id, names (in order), open ids (in order) -/
def wabs (w : WState) : Bool × Nat × List Bytes × List Nat :=
  (w.finalized, w.nextId, w.names.map (·.1), w.opened.map (·.1))

theorem nameLookup_none_of_not_mem (n : Bytes) (l : List (Bytes × Nat)) (h : n ∉ l.map (·.1)) :
    nameLookup n l = none := by
  induction l with
  | nil => rfl
  | cons x xs ih =>
    obtain ⟨a, b⟩ := x
    simp only [List.map_cons, List.mem_cons, not_or] at h
    have : ¬ a = n := fun e => h.1 e.symm
    simp only [nameLookup, this, if_false]
    exact ih h.2

theorem aerase_keys {α} (k : Nat) (l : List (Nat × α)) :
    (aerase k l).map (·.1) = (l.map (·.1)).erase k := by
  induction l with
  | nil => rfl
  | cons x xs ih =>
    obtain ⟨a, b⟩ := x
    simp only [aerase, List.map_cons, List.erase_cons]
    by_cases h : a = k
    · simp [h]
    · simp [h, ih]

section
variable (P : Params) (H : Bytes → Bytes)

theorem stepStart_ok (w : WState) (name : Bytes) {n : Nat} {ns : List Bytes} {os : List Nat}
    (ha : wabs w = (false, n, ns, os)) (hn : name ∉ ns) (hl : name.length ≤ P.nameMax) :
    (stepStart P w name).2.1 = .id n ∧
      wabs (stepStart P w name).1 = (false, n + 1, ns ++ [name], os ++ [n]) := by
  simp only [wabs, Prod.mk.injEq] at ha
  obtain ⟨hf, rfl, rfl, rfl⟩ := ha
  have hnl := nameLookup_none_of_not_mem name w.names hn
  have hnm : ¬ P.nameMax < name.length := by omega
  simp [stepStart, hf, hnl, hnm, wabs]

theorem stepAppend_ok (w : WState) (id : Nat) (d : Bytes) {n : Nat} {ns : List Bytes}
    {os : List Nat} (ha : wabs w = (false, n, ns, os)) (hid : id ∈ os) :
    (stepAppend w id d.length d).2.1 = .ok ∧
      wabs (stepAppend w id d.length d).1 = (false, n, ns, os) := by
  simp only [wabs, Prod.mk.injEq] at ha
  obtain ⟨hf, rfl, rfl, rfl⟩ := ha
  obtain ⟨c, hc⟩ := alookup_isSome_of_mem_keys id w.opened hid
  unfold stepAppend
  rw [if_neg (by simp [hf])]
  simp only [hc]
  by_cases hz : d.length = 0
  · simp [hz, wabs, hf]
  · obtain ⟨m1, m2, m3, m4, m5, m6, m7, m8⟩ := markContinuous_spec w id
    simp only [hz, if_false, List.take_length, Nat.lt_irrefl, wabs, aupdate_keys, m1, m2, m5, m6,
      hf, and_self]

theorem stepEnd_ok (w : WState) (id : Nat) {n : Nat} {ns : List Bytes}
    {os : List Nat} (ha : wabs w = (false, n, ns, os)) (hid : id ∈ os) :
    (stepEnd H w id).2.1 = .ok ∧ wabs (stepEnd H w id).1 = (false, n, ns, os.erase id) := by
  simp only [wabs, Prod.mk.injEq] at ha
  obtain ⟨hf, rfl, rfl, rfl⟩ := ha
  obtain ⟨c, hc⟩ := alookup_isSome_of_mem_keys id w.opened hid
  unfold stepEnd
  rw [if_neg (by simp [hf])]
  simp only [hc]
  obtain ⟨m1, m2, m3, m4, m5, m6, m7, m8⟩ :=
    markContinuous_spec { w with opened := aerase id w.opened } id
  simp only at m1 m2 m5 m6
  generalize WState.markContinuous { w with opened := aerase id w.opened } id = sm at *
  simp only [wabs, m1, m2, m5, m6, hf, aerase_keys, and_self]

theorem stepFinalize_ok (w : WState) {n : Nat} {ns : List Bytes}
    (ha : wabs w = (false, n, ns, [])) : (stepFinalize w).2.1 = .ok := by
  simp only [wabs, Prod.mk.injEq, List.map_eq_nil_iff] at ha
  obtain ⟨hf, _, _, ho⟩ := ha
  simp [stepFinalize, hf, ho]

/-- a run of appends to an open id -/
theorem appends_ok (id : Nat) (pieces : List Bytes) (w : WState) {n : Nat} {ns : List Bytes}
    {os : List Nat} (ha : wabs w = (false, n, ns, os)) (hid : id ∈ os) :
    (∀ r ∈ (Writer.runFrom P H w (pieces.map fun d => Op.append id d.length d)).2.1,
        r.isOk = true) ∧
      wabs (Writer.runFrom P H w (pieces.map fun d => Op.append id d.length d)).1
        = (false, n, ns, os) := by
  induction pieces generalizing w with
  | nil => simp [Writer.runFrom, ha]
  | cons d ds ih =>
    obtain ⟨h1, h2⟩ := stepAppend_ok w id d ha hid
    obtain ⟨h3, h4⟩ := ih (stepAppend w id d.length d).1 h2
    simp only [List.map_cons, runFrom_cons, Writer.step]
    refine ⟨?_, h4⟩
    intro r hr
    rcases List.mem_cons.1 hr with hr | hr
    · rw [hr, h1]; rfl
    · exact h3 r hr

/-- ending a duplicate-free list of open ids -/
theorem ends_ok (es : List Nat) (w : WState) {n : Nat} {ns : List Bytes} {os : List Nat}
    (ha : wabs w = (false, n, ns, os)) (hos : os.Nodup) (hes : es.Nodup) (hsub : ∀ i ∈ es, i ∈ os) :
    (∀ r ∈ (Writer.runFrom P H w (es.map Op.end_)).2.1, r.isOk = true) ∧
      ∃ os', wabs (Writer.runFrom P H w (es.map Op.end_)).1 = (false, n, ns, os') ∧
        ∀ j, j ∈ os' ↔ j ∈ os ∧ j ∉ es := by
  induction es generalizing w os with
  | nil => exact ⟨by simp [Writer.runFrom], os, by simp [Writer.runFrom, ha], by simp⟩
  | cons i is ih =>
    simp only [List.nodup_cons] at hes
    obtain ⟨h1, h2⟩ := stepEnd_ok H w i ha (hsub i (by simp))
    obtain ⟨h3, os', h4, h5⟩ := ih (stepEnd H w i).1 h2 (hos.erase i) hes.2 (by
      intro j hj
      rw [hos.mem_erase_iff]
      exact ⟨fun e => hes.1 (e ▸ hj), hsub j (by simp [hj])⟩)
    simp only [List.map_cons, runFrom_cons, Writer.step]
    refine ⟨?_, os', h4, ?_⟩
    · intro r hr
      rcases List.mem_cons.1 hr with hr | hr
      · rw [hr, h1]; rfl
      · exact h3 r hr
    · intro j
      rw [h5 j, hos.mem_erase_iff]
      simp only [List.mem_cons, not_or]
      constructor
      · rintro ⟨⟨a, b⟩, c⟩; exact ⟨b, a, c⟩
      · rintro ⟨a, b, c⟩; exact ⟨⟨b, a⟩, c⟩

end

/-! ### the spec of a run of appends; the repair cache -/

theorem SpecState.append_append (sp : SpecState) (id : Nat) (a b : Bytes) :
    (sp.append id a).append id b = sp.append id (a ++ b) := by
  simp only [SpecState.append, List.map_map]
  congr 1
  apply List.map_congr_left
  intro f _
  simp only [Function.comp]
  by_cases h : f.id = id <;> simp [h]

theorem spec_appends (id : Nat) (pieces : List Bytes) (sp : SpecState) :
    (pieces.map fun d => Op.append id d.length d).foldl SpecState.step sp =
      sp.append id pieces.flatten := by
  induction pieces generalizing sp with
  | nil => simp [SpecState.append_nil]
  | cons d ds ih =>
    simp only [List.map_cons, List.foldl_cons, SpecState.step, List.take_length, ih,
      SpecState.append_append, List.flatten_cons]

theorem cachePieces_flatten (rc fuel : Nat) (d : Bytes) : (cachePieces rc fuel d).flatten = d := by
  induction fuel generalizing d with
  | zero => simp [cachePieces]
  | succ f ih =>
    simp only [cachePieces]
    split
    · simp
    · simp [ih]

theorem cachePieces_length_le (rc fuel : Nat) (d : Bytes) :
    ∀ x ∈ cachePieces rc fuel d, x.length ≤ d.length := by
  induction fuel generalizing d with
  | zero => simp [cachePieces]
  | succ f ih =>
    simp only [cachePieces]
    split
    · simp
    · intro x hx
      rcases List.mem_cons.1 hx with hx | hx
      · rw [hx]; simp; omega
      · have := ih _ x hx
        simp at this; omega

/-! ### the loop invariant -/

/-- `id2out` on a genuine stream: ids are handed out in order on both sides -/
def idPairs (k : Nat) : List (Nat × Nat) := (List.range k).map fun i => (i, i)

theorem idPairs_succ (k : Nat) : idPairs (k + 1) = idPairs k ++ [(k, k)] := by
  simp [idPairs, List.range_succ]

theorem alookup_idPairs (i k : Nat) : alookup i (idPairs k) = if i < k then some i else none := by
  induction k with
  | zero => simp [idPairs, alookup]
  | succ k ih =>
    rw [idPairs_succ, alookup_append, ih]
    by_cases h : i < k
    · have : i < k + 1 := by omega
      simp [h, this]
    · by_cases h2 : k = i
      · subst h2; simp
      · have : ¬ i < k + 1 := by omega
        simp [h, h2, this]

theorem PSt.WF.id_lt {p : PSt} (hw : p.WF) {n : Bytes} {id : Nat} (h : (n, id) ∈ p.names) :
    id < p.names.length := by
  have : id ∈ p.names.map (·.2) := List.mem_map.2 ⟨(n, id), h, rfl⟩
  rw [hw.ids] at this
  simpa using this

theorem PSt.WF.name_of_lt {p : PSt} (hw : p.WF) {id : Nat} (h : id < p.names.length) :
    ∃ n, (n, id) ∈ p.names := by
  have : id ∈ p.names.map (·.2) := by rw [hw.ids]; simpa using h
  obtain ⟨q, hq, he⟩ := List.mem_map.1 this
  exact ⟨q.1, by rw [← he]; exact hq⟩

structure RInv (P : Params) (H : Bytes → Bytes) (utf8 : Bytes → Bool) (cs : List Block) (p : PSt)
    (st : RepairSt) : Prop where
  id2out : st.id2out = idPairs p.names.length
  nextOut : st.nextOut = p.names.length
  id2name : ∀ n id, (n, id) ∈ p.names → alookup id st.id2name = some n
  done : ∀ id, st.done.contains id = true ↔ (id < p.names.length ∧ alookup id p.opened = none)
  hashed : ∀ id, alookup id st.hashed = alookup id p.opened
  hkeys : (st.hashed.map (·.1)).Nodup
  outNames : ∀ n, n ∈ st.outNames ↔ n ∈ p.names.map (·.1)
  fresh : ∀ id, p.names.length ≤ id → contentOf id cs = []
  wf : ∀ op ∈ st.ops, op.WF utf8
  acc : ∀ r ∈ (Writer.runFrom P H WState.init st.ops).2.1, r.isOk = true
  wst : wabs (Writer.runFrom P H WState.init st.ops).1 =
    (false, p.names.length, p.names.map (·.1), p.opened.map (·.1))
  spec : st.ops.foldl SpecState.step {} =
    ⟨p.names.length, p.names.map fun q => ⟨q.2, q.1, contentOf q.2 cs⟩⟩

theorem RInv.init (P : Params) (H : Bytes → Bytes) (utf8 : Bytes → Bool) :
    RInv P H utf8 [] ⟨[], []⟩ {} := by
  refine ⟨rfl, rfl, by simp, by simp, by simp [alookup], by simp, by simp, by simp, by simp,
    by simp [Writer.runFrom], rfl, rfl⟩

section
variable {P : Params} {H : Bytes → Bytes} {utf8 : Bytes → Bool}
variable {cs : List Block} {p : PSt} {st : RepairSt}

theorem RInv.start (hinv : RInv P H utf8 cs p st) (hw : p.WF) {id : Nat} {name : Bytes} {p' : PSt}
    (hs : protoStep H p (.start id name) = some p') (hwf : (Block.start id name).WF P utf8) :
    RInv P H utf8 (cs ++ [.start id name]) p'
      { st with id2name := (id, name) :: aerase id st.id2name,
                id2out := st.id2out ++ [(id, st.nextOut)],
                hashed := (id, []) :: aerase id st.hashed,
                ops := st.ops ++ [.start name], nextOut := st.nextOut + 1,
                outNames := name :: st.outNames } := by
  obtain ⟨rfl, hfresh, rfl⟩ := protoStep_start_inv hs
  have hnone : alookup p.names.length p.opened = none :=
    alookup_eq_none _ _ (fun hm => by have := hw.olt _ hm; omega)
  obtain ⟨h1, h2⟩ := stepStart_ok P (Writer.runFrom P H WState.init st.ops).1 name hinv.wst hfresh
    hwf.2.1
  refine ⟨?_, ?_, ?_, ?_, ?_, ?_, ?_, ?_, ?_, ?_, ?_, ?_⟩
  · simp [hinv.id2out, hinv.nextOut, idPairs_succ]
  · simp [hinv.nextOut]
  · intro n id hmem
    rcases List.mem_append.1 hmem with hmem | hmem
    · have hlt := hw.id_lt hmem
      have hne : ¬ p.names.length = id := by omega
      simp only [alookup, hne, if_false]
      rw [alookup_aerase_ne _ _ _ (by omega)]
      exact hinv.id2name n id hmem
    · simp only [List.mem_singleton, Prod.mk.injEq] at hmem
      obtain ⟨rfl, rfl⟩ := hmem
      simp [alookup]
  · intro id
    simp only [List.length_append, List.length_cons, List.length_nil]
    rw [hinv.done id, alookup_append]
    constructor
    · rintro ⟨h1, h2⟩
      refine ⟨by omega, ?_⟩
      have : ¬ p.names.length = id := by omega
      simp [h2, this]
    · rintro ⟨h1, h2⟩
      cases hc : alookup id p.opened with
      | some v => simp [hc] at h2
      | none =>
        simp only [hc] at h2
        by_cases he : p.names.length = id
        · simp [he] at h2
        · exact ⟨by omega, rfl⟩
  · intro id
    simp only [alookup, alookup_append]
    by_cases he : p.names.length = id
    · subst he; simp [hnone]
    · simp only [he, if_false]
      rw [alookup_aerase_ne _ _ _ (fun e => he e.symm), hinv.hashed]
      cases alookup id p.opened <;> rfl
  · simp only [List.map_cons, List.nodup_cons]
    refine ⟨?_, (aerase_keys_sublist _ _).nodup hinv.hkeys⟩
    intro hm
    have hm' := (aerase_keys_sublist _ _).subset hm
    obtain ⟨v, hv⟩ := alookup_isSome_of_mem_keys _ _ hm'
    rw [hinv.hashed, hnone] at hv; simp at hv
  · intro n
    simp only [List.mem_cons, hinv.outNames, List.map_append, List.map_cons, List.map_nil,
      List.mem_append, List.not_mem_nil, or_false]
    exact ⟨fun h => h.symm, fun h => h.symm⟩
  · intro id hid
    simp only [List.length_append, List.length_cons, List.length_nil] at hid
    simp [Block.dataFor, hinv.fresh id (by omega)]
  · intro op hop
    rcases List.mem_append.1 hop with hop | hop
    · exact hinv.wf op hop
    · simp only [List.mem_singleton] at hop; subst hop; exact hwf.2.2.2
  · show ∀ r ∈ (Writer.runFrom P H WState.init (st.ops ++ [Op.start name])).2.1, r.isOk = true
    rw [runFrom_append]
    intro r hr
    rcases List.mem_append.1 hr with hr | hr
    · exact hinv.acc r hr
    · simp only [Writer.runFrom, Writer.step, List.mem_singleton] at hr
      rw [hr, h1]; rfl
  · show wabs (Writer.runFrom P H WState.init (st.ops ++ [Op.start name])).1 = _
    rw [runFrom_append]
    simp only [Writer.runFrom, Writer.step, h2]
    simp
  · show (st.ops ++ [Op.start name]).foldl SpecState.step {} = _
    simp only [List.foldl_append, hinv.spec, List.foldl_cons, List.foldl_nil, SpecState.step,
      List.map_append, List.map_cons, List.map_nil, List.length_append, List.length_cons,
      List.length_nil, contentOf_append, contentOf_cons, contentOf_nil, Block.dataFor,
      List.append_nil, hinv.fresh _ (Nat.le_refl _)]

theorem RInv.content (hinv : RInv P H utf8 cs p st) (hw : p.WF) {id : Nat} {c : Bytes}
    (hc : alookup id p.opened = some c) (data : Bytes) (pieces : List Bytes)
    (hfl : pieces.flatten = data) (hpl : ∀ x ∈ pieces, x.length < U64) :
    RInv P H utf8 (cs ++ [.content id data]) ⟨p.names, aupdate id (fun h => h ++ data) p.opened⟩
      { st with ops := st.ops ++ pieces.map (fun d => Op.append id d.length d),
                hashed := aupdate id (fun h => h ++ data) st.hashed } := by
  have hlt := alookup_lt_of_wf hw hc
  obtain ⟨h1, h2⟩ := appends_ok P H id pieces (Writer.runFrom P H WState.init st.ops).1 hinv.wst
    (mem_keys_of_alookup _ _ _ hc)
  refine ⟨hinv.id2out, hinv.nextOut, hinv.id2name, ?_, ?_, ?_, hinv.outNames, ?_, ?_, ?_, ?_, ?_⟩
  · intro id'
    rw [hinv.done id']
    simp only [alookup_aupdate]
    by_cases he : id' = id
    · subst he; simp [hc]
    · simp [he]
  · intro id'
    simp only [alookup_aupdate, hinv.hashed]
  · simp only [aupdate_keys]; exact hinv.hkeys
  · intro id' hid'
    have hne : ¬ id = id' := by
      intro e; subst e; simp only at hid'; omega
    simp [Block.dataFor, hne, hinv.fresh id' hid']
  · intro op hop
    rcases List.mem_append.1 hop with hop | hop
    · exact hinv.wf op hop
    · obtain ⟨x, hx, rfl⟩ := List.mem_map.1 hop
      exact hpl x hx
  · show ∀ r ∈ (Writer.runFrom P H WState.init (st.ops ++ _)).2.1, r.isOk = true
    rw [runFrom_append]
    intro r hr
    rcases List.mem_append.1 hr with hr | hr
    · exact hinv.acc r hr
    · exact h1 r hr
  · show wabs (Writer.runFrom P H WState.init (st.ops ++ _)).1 = _
    rw [runFrom_append]
    simp only [h2, aupdate_keys]
  · show (st.ops ++ _).foldl SpecState.step {} = _
    rw [List.foldl_append, hinv.spec, spec_appends, hfl]
    simp only [SpecState.append, List.map_map]
    congr 1
    apply List.map_congr_left
    intro q _
    by_cases hq : q.2 = id
    · simp [hq, Block.dataFor]
    · have : ¬ id = q.2 := fun e => hq e.symm
      simp [hq, Block.dataFor, this]

theorem RInv.eof (hinv : RInv P H utf8 cs p st) (hw : p.WF) {id : Nat} {c : Bytes}
    (hc : alookup id p.opened = some c) (g : Bytes) :
    RInv P H utf8 (cs ++ [.eof id g]) ⟨p.names, aerase id p.opened⟩
      { st with hashed := aerase id st.hashed, ops := st.ops ++ [.end_ id],
                done := id :: st.done } := by
  have hlt := alookup_lt_of_wf hw hc
  obtain ⟨h1, h2⟩ := stepEnd_ok H (Writer.runFrom P H WState.init st.ops).1 id hinv.wst
    (mem_keys_of_alookup _ _ _ hc)
  refine ⟨hinv.id2out, hinv.nextOut, hinv.id2name, ?_, ?_, ?_, hinv.outNames, ?_, ?_, ?_, ?_, ?_⟩
  · intro id'
    simp only [List.contains_cons, Bool.or_eq_true, beq_iff_eq]
    by_cases he : id' = id
    · subst he
      simp [alookup_aerase_self _ _ hw.okeys, hlt]
    · rw [alookup_aerase_ne _ _ _ he, ← hinv.done id']
      simp [he]
  · intro id'
    by_cases he : id' = id
    · subst he
      rw [alookup_aerase_self _ _ hw.okeys, alookup_aerase_self _ _ hinv.hkeys]
    · rw [alookup_aerase_ne _ _ _ he, alookup_aerase_ne _ _ _ he, hinv.hashed]
  · exact (aerase_keys_sublist _ _).nodup hinv.hkeys
  · intro id' hid'
    simp [Block.dataFor, hinv.fresh id' hid']
  · intro op hop
    rcases List.mem_append.1 hop with hop | hop
    · exact hinv.wf op hop
    · simp only [List.mem_singleton] at hop; subst hop; trivial
  · show ∀ r ∈ (Writer.runFrom P H WState.init (st.ops ++ [Op.end_ id])).2.1, r.isOk = true
    rw [runFrom_append]
    intro r hr
    rcases List.mem_append.1 hr with hr | hr
    · exact hinv.acc r hr
    · simp only [Writer.runFrom, Writer.step, List.mem_singleton] at hr
      rw [hr, h1]; rfl
  · show wabs (Writer.runFrom P H WState.init (st.ops ++ [Op.end_ id])).1 = _
    rw [runFrom_append]
    simp only [Writer.runFrom, Writer.step, h2, aerase_keys]
  · show (st.ops ++ [Op.end_ id]).foldl SpecState.step {} = _
    simp only [List.foldl_append, hinv.spec, List.foldl_cons, List.foldl_nil, SpecState.step,
      contentOf_append, contentOf_cons, contentOf_nil, Block.dataFor, List.append_nil]

end

/-! ### the loop on whole blocks, on a cut block, on the whole stream -/

section
variable {P : Params} {H : Bytes → Bytes} {utf8 : Bytes → Bool}
variable {cs : List Block} {p : PSt} {st : RepairSt}

theorem pieces_lt (rc : Nat) (data : Bytes) (h : data.length < U64) :
    ∀ x ∈ cachePieces rc (data.length / rc + 1) data, x.length < U64 := by
  intro x hx
  have := cachePieces_length_le rc _ data x hx
  omega

theorem RInv.guards (hinv : RInv P H utf8 cs p st) (hw : p.WF) {id : Nat} {c : Bytes}
    (hc : alookup id p.opened = some c) :
    alookup id st.id2out = some id ∧ st.done.contains id = false := by
  have hlt := alookup_lt_of_wf hw hc
  refine ⟨by rw [hinv.id2out, alookup_idPairs, if_pos hlt], ?_⟩
  cases hd : st.done.contains id with
  | false => rfl
  | true =>
    have := ((hinv.done id).1 hd).2
    rw [hc] at this; simp at this

/-- one whole block -/
theorem loop_step (hinv : RInv P H utf8 cs p st) (hw : p.WF) (b : Block) (hwf : b.WF P utf8)
    {p' : PSt} (hs : protoStep H p b = some p') (r : Bytes) (fuel : Nat) (endErr : Bool) :
    ∃ st', Repair.loop P H utf8 endErr (fuel + 1) (b.encode ++ r) st =
        Repair.loop P H utf8 endErr fuel r st' ∧ RInv P H utf8 (cs ++ [b]) p' st' := by
  have hdec := Hdr.decode_encode P utf8 b r hwf
  cases b with
  | eoad => simp [protoStep] at hs
  | start id name =>
    have hs' := hs
    obtain ⟨rfl, hfresh, _⟩ := protoStep_start_inv hs'
    have g1 : (alookup p.names.length st.id2out).isSome = false := by
      rw [hinv.id2out, alookup_idPairs]; simp
    have g2 : st.done.contains p.names.length = false := by
      cases hd : st.done.contains p.names.length with
      | false => rfl
      | true => have := ((hinv.done _).1 hd).1; omega
    have g3 : st.outNames.contains name = false := by
      cases hd : st.outNames.contains name with
      | false => rfl
      | true =>
        rw [List.contains_iff_mem, hinv.outNames] at hd
        exact absurd hd hfresh
    refine ⟨_, ?_, hinv.start hw hs hwf⟩
    simp only [Repair.loop, hdec, Block.hdr, Block.payload, List.nil_append, g1, g2, g3,
      Bool.false_eq_true, if_false]
  | content id d =>
    obtain ⟨c, hc, rfl⟩ := protoStep_content_inv hs
    obtain ⟨g1, g2⟩ := hinv.guards hw hc
    refine ⟨_, ?_, hinv.content hw hc d (cachePieces P.rcache (d.length / P.rcache + 1) d)
      (cachePieces_flatten _ _ _) (pieces_lt _ _ hwf.2)⟩
    simp only [Repair.loop, hdec, Block.hdr, Block.payload, g1, g2, Bool.false_eq_true, if_false,
      List.take_left', List.drop_left', Nat.lt_irrefl, false_and]
  | eof id g =>
    obtain ⟨c, hc, rfl, rfl⟩ := protoStep_eof_inv hs
    obtain ⟨g1, g2⟩ := hinv.guards hw hc
    have g3 : alookup id st.hashed = some c := by rw [hinv.hashed, hc]
    refine ⟨_, ?_, hinv.eof hw hc (H c)⟩
    simp only [Repair.loop, hdec, Block.hdr, Block.payload, List.nil_append, g1, g2, g3,
      Bool.false_eq_true, if_false, ne_eq, not_true_eq_false]

theorem loop_nil_stop (endErr : Bool) (fuel : Nat) (st : RepairSt) :
    ∃ stop, Repair.loop P H utf8 endErr (fuel + 1) [] st = (st, stop) ∧ stop ≠ .eoad := by
  refine ⟨if endErr then .errNextBlock .io else .eofNextBlock, by simp [Repair.loop, Hdr.decode], ?_⟩
  cases endErr <;> simp

/-- the whole block list, then the end-of-archive marker -/
theorem loop_full (endErr : Bool) (rest : Bytes) (bs : List Block) :
    ∀ (cs : List Block) (p : PSt) (st : RepairSt) (pf : PSt) (fuel : Nat),
      RInv P H utf8 cs p st → p.WF → (∀ b ∈ bs, b.WF P utf8) → protoRun H p bs = some pf →
      bs.length < fuel →
      ∃ st', Repair.loop P H utf8 endErr fuel (encodeAll bs ++ tEoad :: rest) st = (st', .eoad) ∧
        RInv P H utf8 (cs ++ bs) pf st' := by
  induction bs with
  | nil =>
    intro cs p st pf fuel hinv _ _ hrun hf
    obtain ⟨f, rfl⟩ : ∃ f, fuel = f + 1 := ⟨fuel - 1, by simp at hf; omega⟩
    simp only [protoRun, Option.some.injEq] at hrun
    subst hrun
    have hdec := Hdr.decode_encode P utf8 .eoad rest trivial
    simp only [Block.encode, List.cons_append, List.nil_append, Block.hdr, Block.payload] at hdec
    exact ⟨st, by simp [Repair.loop, hdec], by simpa using hinv⟩
  | cons b bs ih =>
    intro cs p st pf fuel hinv hw hwf hrun hf
    obtain ⟨f, rfl⟩ : ∃ f, fuel = f + 1 := ⟨fuel - 1, by simp at hf; omega⟩
    simp only [protoRun] at hrun
    cases hs : protoStep H p b with
    | none => simp [hs] at hrun
    | some p' =>
      simp only [hs] at hrun
      obtain ⟨st1, he, hinv1⟩ := loop_step hinv hw b (hwf b (by simp)) hs
        (encodeAll bs ++ tEoad :: rest) f endErr
      obtain ⟨st', he', hinv'⟩ := ih (cs ++ [b]) p' st1 pf f hinv1 (protoStep_wf hw hs)
        (fun c hc => hwf c (by simp [hc])) hrun (by simp at hf; omega)
      refine ⟨st', ?_, by simpa using hinv'⟩
      rw [encodeAll_cons, List.append_assoc, he, he']

/-- the whole block list and then the end of the delivered bytes (a cut at a block boundary):
    every block is consumed and the loop stops on the missing next block -/
theorem loop_boundary (endErr : Bool) (bs : List Block) :
    ∀ (cs : List Block) (p : PSt) (st : RepairSt) (pf : PSt) (fuel : Nat),
      RInv P H utf8 cs p st → p.WF → (∀ b ∈ bs, b.WF P utf8) → protoRun H p bs = some pf →
      bs.length < fuel →
      ∃ st', Repair.loop P H utf8 endErr fuel (encodeAll bs) st =
          (st', if endErr then .errNextBlock .io else .eofNextBlock) ∧
        RInv P H utf8 (cs ++ bs) pf st' := by
  induction bs with
  | nil =>
    intro cs p st pf fuel hinv _ _ hrun hf
    obtain ⟨f, rfl⟩ : ∃ f, fuel = f + 1 := ⟨fuel - 1, by simp at hf; omega⟩
    simp only [protoRun, Option.some.injEq] at hrun
    subst hrun
    have hnil : Hdr.decode P utf8 [] = .error .eof := rfl
    exact ⟨st, by simp only [encodeAll_nil, Repair.loop, hnil], by simpa using hinv⟩
  | cons b bs ih =>
    intro cs p st pf fuel hinv hw hwf hrun hf
    obtain ⟨f, rfl⟩ : ∃ f, fuel = f + 1 := ⟨fuel - 1, by simp at hf; omega⟩
    simp only [protoRun] at hrun
    cases hs : protoStep H p b with
    | none => simp [hs] at hrun
    | some p' =>
      simp only [hs] at hrun
      obtain ⟨st1, he, hinv1⟩ := loop_step hinv hw b (hwf b (by simp)) hs (encodeAll bs) f endErr
      obtain ⟨st', he', hinv'⟩ := ih (cs ++ [b]) p' st1 pf f hinv1 (protoStep_wf hw hs)
        (fun c hc => hwf c (by simp [hc])) hrun (by simp at hf; omega)
      refine ⟨st', ?_, by simpa using hinv'⟩
      rw [encodeAll_cons, he, he']

/-- a cut of `k` bytes: the loop sees `cutBlocks bs k` and then stops (never with `eoad`) -/
theorem loop_cut (endErr : Bool) (bs : List Block) :
    ∀ (cs : List Block) (p : PSt) (st : RepairSt) (pf : PSt) (k fuel : Nat),
      RInv P H utf8 cs p st → p.WF → (∀ b ∈ bs, b.WF P utf8) → protoRun H p bs = some pf →
      k ≤ (encodeAll bs).length → k < fuel →
      ∃ st' stop p'', Repair.loop P H utf8 endErr fuel ((encodeAll bs).take k) st = (st', stop) ∧
        stop ≠ .eoad ∧ protoRun H p (cutBlocks bs k) = some p'' ∧
        RInv P H utf8 (cs ++ cutBlocks bs k) p'' st' := by
  induction bs with
  | nil =>
    intro cs p st pf k fuel hinv _ _ _ _ hf
    obtain ⟨f, rfl⟩ : ∃ f, fuel = f + 1 := ⟨fuel - 1, by omega⟩
    obtain ⟨stop, h1, h2⟩ := loop_nil_stop (P := P) (H := H) (utf8 := utf8) endErr f st
    exact ⟨st, stop, p, by simpa using h1, h2, rfl, by simpa [cutBlocks] using hinv⟩
  | cons b bs ih =>
    intro cs p st pf k fuel hinv hw hwf hrun hk hf
    obtain ⟨f, rfl⟩ : ∃ f, fuel = f + 1 := ⟨fuel - 1, by omega⟩
    have hbw := hwf b (by simp)
    have hpos := Block.encode_pos b
    simp only [encodeAll_cons, List.length_append] at hk
    simp only [protoRun] at hrun
    cases hs : protoStep H p b with
    | none => simp [hs] at hrun
    | some p' =>
      simp only [hs] at hrun
      by_cases hlen : b.encode.length ≤ k
      · have ht : (encodeAll (b :: bs)).take k =
            b.encode ++ (encodeAll bs).take (k - b.encode.length) := by
          rw [encodeAll_cons, List.take_append, List.take_of_length_le hlen]
        obtain ⟨st1, he, hinv1⟩ := loop_step hinv hw b hbw hs
          ((encodeAll bs).take (k - b.encode.length)) f endErr
        obtain ⟨st', stop, p'', he', hne, hr', hinv'⟩ := ih (cs ++ [b]) p' st1 pf
          (k - b.encode.length) f hinv1 (protoStep_wf hw hs)
          (fun c hc => hwf c (by simp [hc])) hrun (by omega) (by omega)
        refine ⟨st', stop, p'', by rw [ht, he, he'], hne, ?_, ?_⟩
        · simp only [cutBlocks, hlen, if_true, protoRun, hs, hr']
        · simpa [cutBlocks, hlen] using hinv'
      · have hlt : k < b.encode.length := by omega
        have ht : (encodeAll (b :: bs)).take k = b.encode.take k := by
          rw [encodeAll_cons, List.take_append_of_le_length (by omega)]
        rw [ht]
        rcases decode_prefix P utf8 b hbw k hlt with h | ⟨id, d, rfl, h17, h⟩
        · -- the header is cut
          have hcb : cutBlocks (b :: bs) k = [] := by
            simp only [cutBlocks, hlen, if_false]
            cases b with
            | content id d =>
              have hel := Block.encode_length (Block.content id d)
              simp only at hel
              by_cases h17 : 17 ≤ k
              · exfalso
                -- with 17 ≤ k the header of a content block decodes
                have hid := hbw.1
                have hl := hbw.2
                have h1 : ¬ (tContent = tStart) := by decide
                obtain ⟨j, rfl⟩ : ∃ j, k = j + 1 := ⟨k - 1, by omega⟩
                simp only [Block.encode, List.append_assoc, List.take_succ_cons, Hdr.decode, h1,
                  if_false, if_true] at h
                rw [readLe8_take id hid] at h
                have hj : ¬ j < 8 := by omega
                simp only [hj, if_false] at h
                rw [readLe8_take _ hl] at h
                have hj2 : ¬ j - 8 < 8 := by omega
                simp [hj2] at h
              · simp [h17]
            | start id n => rfl
            | eof id g => rfl
            | eoad => rfl
          refine ⟨st, if endErr then .errNextBlock .io else .eofNextBlock, p, ?_, ?_, ?_, ?_⟩
          · simp only [Repair.loop, h]
          · cases endErr <;> simp
          · rw [hcb]; rfl
          · rw [hcb]; simpa using hinv
        · -- a content block cut inside its payload
          have hel := Block.encode_length (Block.content id d)
          simp only at hel
          obtain ⟨c, hc, _⟩ := protoStep_content_inv hs
          obtain ⟨g1, g2⟩ := hinv.guards hw hc
          have hcb : cutBlocks (Block.content id d :: bs) k = [.content id (d.take (k - 17))] := by
            simp [cutBlocks, hlen, h17]
          have hjl : (d.take (k - 17)).length = k - 17 := by simp; omega
          have hinv' := hinv.content hw hc (d.take (k - 17))
            (cachePieces P.rcache ((d.take (k - 17)).length / P.rcache + 1) (d.take (k - 17)))
            (cachePieces_flatten _ _ _) (pieces_lt _ _ (by have := hbw.2; omega))
          have htt : (d.take (k - 17)).take d.length = d.take (k - 17) := by
            rw [List.take_take]; congr 1; omega
          have hdd : (d.take (k - 17)).drop d.length = [] := by
            apply List.drop_eq_nil_of_le; omega
          have hrun' : protoRun H p [Block.content id (d.take (k - 17))] =
              some ⟨p.names, aupdate id (fun h => h ++ d.take (k - 17)) p.opened⟩ := by
            simp [protoRun, protoStep, hc]
          have hlt2 : (d.take (k - 17)).length < d.length := by omega
          rw [hcb]
          cases endErr with
          | true =>
            refine ⟨_, .errorInFile ((alookup id st.id2name).getD []), _, ?_, by simp, hrun', hinv'⟩
            simp only [Repair.loop, h, g1, g2, Bool.false_eq_true, if_false, htt, hlt2, and_self,
              if_true]
          | false =>
            obtain ⟨f', rfl⟩ : ∃ f', f = f' + 1 := ⟨f - 1, by omega⟩
            refine ⟨_, .eofNextBlock, _, ?_, by simp, hrun', hinv'⟩
            have hnil : Hdr.decode P utf8 [] = .error .eof := rfl
            simp only [Repair.loop, h, g1, g2, Bool.false_eq_true, if_false, htt, hdd, and_false,
              hnil]

end

/-! ### `convert_to_archive`: close what is open, finalize -/

theorem spec_ends (es : List Nat) (sp : SpecState) :
    (es.map Op.end_).foldl SpecState.step sp = sp := by
  induction es generalizing sp with
  | nil => rfl
  | cons e es ih => simp only [List.map_cons, List.foldl_cons, SpecState.step, ih]

/-- the ids still open when the loop stops -/
def openIds (st : RepairSt) (k : Nat) : List Nat :=
  (List.range k).filter fun i => !st.done.contains i

theorem convert_eq (P : Params) (H : Bytes → Bytes) (utf8 : Bytes → Bool) (d : Bytes)
    (endErr : Bool) (st : RepairSt) (stop : Stop) (k : Nat)
    (hloop : Repair.loop P H utf8 endErr (d.length + 1) d {} = (st, stop))
    (hid : st.id2out = idPairs k) :
    Repair.convert P H utf8 d endErr =
      { ops := st.ops ++ (openIds st k).map Op.end_ ++ [.finalize],
        unfinished := (openIds st k).map fun i => (alookup i st.id2name).getD [],
        stop := stop } := by
  have hopen : (st.id2out.filter fun (x : Nat × Nat) => !st.done.contains x.1) =
      (openIds st k).map fun i => (i, i) := by
    rw [hid, idPairs, openIds, List.filter_map]
    rfl
  simp only [Repair.convert, hloop]
  have h1 : (st.id2out.filter fun (x : Nat × Nat) =>
      match x with | (idf, _) => !st.done.contains idf) =
      (openIds st k).map fun i => (i, i) := by
    rw [← hopen]
  rw [h1]
  simp only [List.map_map]
  rfl

section
variable {P : Params} {H : Bytes → Bytes} {utf8 : Bytes → Bool}
variable {cs : List Block} {p : PSt} {st : RepairSt}

theorem id_unique_of_name (l : List (Bytes × Nat)) (hn : (l.map (·.1)).Nodup) {n : Bytes}
    {a b : Nat} (ha : (n, a) ∈ l) (hb : (n, b) ∈ l) : a = b := by
  have h1 := nameLookup_of_mem n a l hn ha
  have h2 := nameLookup_of_mem n b l hn hb
  rw [h1] at h2; simpa using h2

theorem mem_openIds (hinv : RInv P H utf8 cs p st) (hw : p.WF) (i : Nat) :
    i ∈ openIds st p.names.length ↔ i ∈ p.opened.map (·.1) := by
  simp only [openIds, List.mem_filter, List.mem_range, Bool.not_eq_true']
  constructor
  · rintro ⟨hlt, hd⟩
    cases hc : alookup i p.opened with
    | some c => exact mem_keys_of_alookup _ _ _ hc
    | none =>
      have := (hinv.done i).2 ⟨hlt, hc⟩
      rw [hd] at this; simp at this
  · intro hm
    obtain ⟨c, hc⟩ := alookup_isSome_of_mem_keys _ _ hm
    refine ⟨hw.olt i hm, ?_⟩
    cases hd : st.done.contains i with
    | false => rfl
    | true => have := ((hinv.done i).1 hd).2; rw [hc] at this; simp at this

/-- what `convert` returns, given the state in which the loop stopped -/
theorem convert_of_loop (hinv : RInv P H utf8 cs p st) (hw : p.WF) (d : Bytes) (endErr : Bool)
    (stop : Stop) (hloop : Repair.loop P H utf8 endErr (d.length + 1) d {} = (st, stop)) :
    (Repair.convert P H utf8 d endErr).stop = stop ∧
    AllAccepted P H (Repair.convert P H utf8 d endErr).ops ∧
    (Repair.convert P H utf8 d endErr).ops.getLast? = some .finalize ∧
    (∀ op ∈ (Repair.convert P H utf8 d endErr).ops, op.WF utf8) ∧
    specOf (Repair.convert P H utf8 d endErr).ops = p.names.map (fun q => (q.1, contentOf q.2 cs)) ∧
    (∀ n id, (n, id) ∈ p.names →
      (n ∈ (Repair.convert P H utf8 d endErr).unfinished ↔ alookup id p.opened ≠ none)) ∧
    ((Repair.convert P H utf8 d endErr).unfinished = [] ↔ p.opened = []) := by
  rw [convert_eq P H utf8 d endErr st stop p.names.length hloop hinv.id2out]
  have hnd : (openIds st p.names.length).Nodup :=
    (List.filter_sublist (l := List.range p.names.length)).nodup List.nodup_range
  obtain ⟨e1, os', e2, e3⟩ := ends_ok P H (openIds st p.names.length)
    (Writer.runFrom P H WState.init st.ops).1 hinv.wst hw.okeys hnd
    (fun i hi => (mem_openIds hinv hw i).1 hi)
  have hos' : os' = [] := by
    rw [List.eq_nil_iff_forall_not_mem]
    intro j hj
    have := (e3 j).1 hj
    exact this.2 ((mem_openIds hinv hw j).2 this.1)
  rw [hos'] at e2
  have e4 := stepFinalize_ok _ e2
  refine ⟨rfl, ?_, by simp, ?_, ?_, ?_, ?_⟩
  · unfold AllAccepted Writer.run
    rw [runFrom_append, runFrom_append]
    intro r hr
    simp only [List.mem_append] at hr
    rcases hr with (hr | hr) | hr
    · exact hinv.acc r hr
    · exact e1 r hr
    · simp only [Writer.runFrom, Writer.step, List.mem_singleton] at hr
      rw [hr, e4]; rfl
  · intro op hop
    simp only [List.mem_append, List.mem_singleton] at hop
    rcases hop with (hop | hop) | hop
    · exact hinv.wf op hop
    · obtain ⟨i, _, rfl⟩ := List.mem_map.1 hop; trivial
    · subst hop; trivial
  · simp only [specOf, List.foldl_append, hinv.spec, spec_ends, List.foldl_cons, List.foldl_nil,
      SpecState.step, List.map_map]
    rfl
  · intro n id hmem
    simp only [List.mem_map]
    constructor
    · rintro ⟨i, hi, hn⟩
      have hi' := (mem_openIds hinv hw i).1 hi
      obtain ⟨n', hn'⟩ := hw.name_of_lt (hw.olt i hi')
      rw [hinv.id2name n' i hn'] at hn
      simp only [Option.getD_some] at hn
      subst hn
      have := id_unique_of_name p.names hw.nodup hn' hmem
      subst this
      obtain ⟨c, hc⟩ := alookup_isSome_of_mem_keys _ _ hi'
      rw [hc]; simp
    · intro hne
      cases hc : alookup id p.opened with
      | none => exact absurd hc hne
      | some c =>
        refine ⟨id, (mem_openIds hinv hw id).2 (mem_keys_of_alookup _ _ _ hc), ?_⟩
        rw [hinv.id2name n id hmem]; rfl
  · simp only [List.map_eq_nil_iff]
    constructor
    · intro h
      cases ho : p.opened with
      | nil => rfl
      | cons x xs =>
        have : x.1 ∈ openIds st p.names.length :=
          (mem_openIds hinv hw x.1).2 (by rw [ho]; simp)
        rw [h] at this; simp at this
    · intro h
      rw [List.eq_nil_iff_forall_not_mem]
      intro i hi
      have := (mem_openIds hinv hw i).1 hi
      rw [h] at this; simp at this

end

end MlaModel

/-
  Helper lemmas for Theorems/C14Auth.lean: authenticated fail-safe reading at the flush point of an
  archive written with compression under encryption.
-/
import MlaModel.Theorems.C14Stack
namespace MlaModel.C14
open MlaModel

section
variable (P : Params) (H : Bytes → Bytes) (pre rest : List Op)
  (hacc : AllAccepted P H (pre ++ .flush :: rest))
  (hfin : (pre ++ .flush :: rest).getLast? = some .finalize)
  (C : EncPrims) (K : Codec) (hK : K.Laws) (hTag : ∀ i c, (C.tag i c).length = P.tagLen)

include hacc hfin in
/-- what the encryption layer (or the raw layer) had been given when the flush returned is a prefix
    of what it is given by the whole run -/
theorem inner_flush_prefix (cfg : StackCfg) (cutTop : Cut) :
    Stack.inner P H K cfg cutTop (pre ++ [.flush]) <+:
      Stack.inner P H K cfg cutTop (pre ++ .flush :: rest) := by
  obtain ⟨_, tail, ht⟩ := lowActs_flush_prefix P H pre rest hacc hfin K cfg cutTop Cut.whole
  rw [← C07.lowActs_written P H K cfg cutTop Cut.whole,
    ← C07.lowActs_written P H K cfg cutTop Cut.whole, ht, LAct.written_append]
  exact List.prefix_append _ _

include hacc hfin in
/-- the destination bytes at the flush point, encryption on: the encryption layer's output for the
    pieces it received, no final tag -/
theorem destF_enc (lvl : Option Nat) (cutTop cutComp : Cut) :
    (Stack.run P H C K ⟨lvl, true⟩ cutTop cutComp (pre ++ [.flush])).dest =
      (encWritePieces P C (LAct.pieces
        (Stack.lowActs P H K ⟨lvl, true⟩ cutTop cutComp (pre ++ [.flush])).1)).2 := by
  have h2 := (lowActs_flush_prefix P H pre rest hacc hfin K ⟨lvl, true⟩ cutTop cutComp).1
  simp only [Stack.run, if_true, Stack.encSink, h2, Bool.false_eq_true, if_false, List.append_nil]

include hacc hfin hK hTag in
/-- **delivered bytes at the flush point**, compression under encryption, authenticated mode:
    with `Z` the compressed stream the encryption layer had received and `ctr` the chunks it had
    closed, fail-safe decompression of `Z.take (ctr * chunk)` is a prefix of what the fail-safe stack
    delivers from the destination bytes (or both contain the whole block stream); what is delivered
    is comparable with the whole block stream. -/
theorem flush_point_auth_comp (lvl : Nat) (cutTop cutComp : Cut) :
    let destF := (Stack.run P H C K ⟨some lvl, true⟩ cutTop cutComp (pre ++ [.flush])).dest
    let Z := Stack.inner P H K ⟨some lvl, true⟩ cutTop (pre ++ [.flush])
    let ctr := (encWritePieces P C (LAct.pieces
      (Stack.lowActs P H K ⟨some lvl, true⟩ cutTop cutComp (pre ++ [.flush])).1)).1.ctr
    let lo := fsDecompress P K (Z.take (ctr * P.chunk))
    let dlF := failsafeDeliver P C K (LayerCfg.ofStack ⟨some lvl, true⟩) .authenticated destF
    let S := (Writer.run P H (pre ++ .flush :: rest)).2.2
    (lo.1 <+: dlF.1 ∨ (S <+: lo.1 ∧ S <+: dlF.1)) ∧ C02.Delivered S dlF.1 := by
  intro destF Z ctr lo dlF S
  obtain ⟨cs, hcs, _, hinner⟩ :=
    C02.stack_body P H C K ⟨some lvl, true⟩ cutTop cutComp _ hacc hfin
  have hcs' : CompFS.IsEncoded P K S cs := hcs rfl
  have hin : Stack.inner P H K ⟨some lvl, true⟩ cutTop (pre ++ .flush :: rest) =
      cs.flatten ++ encSizes ⟨cs.map List.length, S.length - (cs.length - 1) * P.block⟩ :=
    hinner rfl
  have hp : (LAct.pieces
      (Stack.lowActs P H K ⟨some lvl, true⟩ cutTop cutComp (pre ++ [.flush])).1).flatten = Z := by
    rw [C07.pieces_flatten, C07.lowActs_written]
  obtain ⟨hlow, hup⟩ := enc_auth P C hTag Z _ hp
  have hZ := inner_flush_prefix P H pre rest hacc hfin K ⟨some lvl, true⟩ cutTop
  rw [hin] at hZ
  have hdl : dlF = fsDecompress P K (fsAuth P C (encWritePieces P C (LAct.pieces
      (Stack.lowActs P H K ⟨some lvl, true⟩ cutTop cutComp (pre ++ [.flush])).1)).2) := by
    simp only [dlF, destF]
    rw [destF_enc P H pre rest hacc hfin C K (some lvl) cutTop cutComp]
    rfl
  rw [hdl]
  have hc1 : Comparable (Z.take (ctr * P.chunk)) cs.flatten :=
    Comparable.of_prefix_append ((List.take_prefix _ _).trans hZ)
  have hc2 : Comparable (fsAuth P C (encWritePieces P C (LAct.pieces
      (Stack.lowActs P H K ⟨some lvl, true⟩ cutTop cutComp (pre ++ [.flush])).1)).2) cs.flatten :=
    Comparable.of_prefix_append (hup.trans hZ)
  exact ⟨fsDecompress_mono P K hK S cs hcs' _ _ hlow hc1 hc2,
    fsDecompress_comparable P K hK S cs hcs' _ hc2⟩

end

end MlaModel.C14

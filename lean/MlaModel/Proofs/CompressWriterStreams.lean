/-
  A stronger view of the compression writer invariant (`CW.Inv`, Proofs/CompressWriter.lean): every
  CLOSED block is literally a finished encoder stream — `(K.runActs (K.einit lvl) a).2 ++ K.efinish …`
  with `EAct.written a` the corresponding block of the plaintext — not merely something `K.dec`
  decodes.  This is what the fail-safe decompressor laws (`CompFS.L5_flush`) need of the bytes
  emitted up to a flush.
-/
import MlaModel.Proofs.CompressWriter
import MlaModel.Proofs.CompressFailSafe
namespace MlaModel

/-- a finished encoder stream of the plaintext `b` -/
def IsFinished (K : Codec) (b c : Bytes) : Prop :=
  ∃ lvl acts, EAct.written acts = b ∧
    c = (K.runActs (K.einit lvl) acts).2 ++ K.efinish (K.runActs (K.einit lvl) acts).1

structure CW.OpenS (P : Params) (K : Codec) (level : Nat) (sizes : List Nat) (p out : Bytes)
    (written : Nat) (es : K.ES) (cnt : Nat) (done : List Bytes) (eacts : List EAct) : Prop where
  sizes : sizes = done.map List.length
  cnt : cnt = (K.runActs (K.einit level) eacts).2.length
  enc : ∀ k (h : k < done.length), IsFinished K (blockOf P p k) done[k]
  es : es = (K.runActs (K.einit level) eacts).1
  rest : EAct.written eacts = p.drop (done.length * P.block)
  len : p.length = done.length * P.block + written
  pos : 0 < written
  le : written ≤ P.block
  out : out = done.flatten ++ (K.runActs (K.einit level) eacts).2

def CW.InvS (P : Params) (K : Codec) (level : Nat) (w : CW K) (p out : Bytes) : Prop :=
  w.level = level ∧
  match w.st with
  | .ready => w.sizes = [] ∧ p = [] ∧ out = []
  | .inData written es cnt =>
    ∃ done eacts, CW.OpenS P K level w.sizes p out written es cnt done eacts

theorem CW.invS_init (P : Params) (K : Codec) (level : Nat) :
    CW.InvS P K level (CW.init K level) [] [] := by
  simp [CW.InvS, CW.init]

theorem CW.write_invS (P : Params) (K : Codec) (level : Nat) (w : CW K)
    (p out buf : Bytes) (h : CW.InvS P K level w p out) (hb : buf ≠ []) :
    CW.InvS P K level (w.write P K buf).1 (p ++ buf.take (w.write P K buf).2.1)
      (out ++ (w.write P K buf).2.2) ∧
    0 < (w.write P K buf).2.1 ∧ (w.write P K buf).2.1 ≤ buf.length := by
  have hB := P.hblock
  have hbl : 0 < buf.length := List.length_pos_iff.mpr hb
  obtain ⟨st, sizes, lvl⟩ := w
  obtain ⟨hlvl, hst⟩ := h
  simp only at hlvl
  subst hlvl
  cases st with
  | ready =>
    obtain ⟨hs, hp, ho⟩ := hst
    simp only at hs
    subst hs hp ho
    simp only [CW.write]
    generalize hsz : min P.block buf.length = size
    have hs1 : 0 < size := by omega
    have hs2 : size ≤ buf.length := by omega
    have hs3 : size ≤ P.block := by omega
    have htl : (buf.take size).length = size := by simp; omega
    refine ⟨⟨rfl, [], [.write (buf.take size)], ?_⟩, hs1, hs2⟩
    constructor <;> simp [Codec.runActs_write, htl, hs1, hs3]
  | inData written es cnt =>
    obtain ⟨done, eacts, hsz, hcnt, hblk, hes, hrest, hlen, hpos, hle, hout⟩ := hst
    by_cases hfull : written = P.block
    · simp only [CW.write, hfull, if_true]
      generalize hsize : min P.block buf.length = size
      have hs1 : 0 < size := by omega
      have hs2 : size ≤ buf.length := by omega
      have hs3 : size ≤ P.block := by omega
      have htl : (buf.take size).length = size := by simp; omega
      have hpl : p.length = (done.length + 1) * P.block := by rw [hlen, hfull, Nat.add_mul]; omega
      refine ⟨⟨rfl, done ++ [(K.runActs (K.einit lvl) eacts).2 ++ K.efinish es],
        [.write (buf.take size)], ?_⟩, hs1, hs2⟩
      simp only at hsz
      constructor
      · simp [hsz, hcnt]
      · simp [Codec.runActs_write]
      · intro k hk
        simp only [List.length_append, List.length_singleton] at hk
        by_cases hk' : k < done.length
        · rw [List.getElem_append_left hk', blockOf_append_of_le]
          · exact hblk k hk'
          · have : (k + 1) * P.block ≤ (done.length) * P.block := Nat.mul_le_mul_right _ hk'
            omega
        · have hke : k = done.length := by omega
          subst hke
          rw [List.getElem_append_right (Nat.le_refl _)]
          simp only [Nat.sub_self, List.getElem_cons_zero]
          rw [blockOf_last P p _ _ hpl, ← hrest, hes]
          exact ⟨lvl, eacts, rfl, rfl⟩
      · simp [Codec.runActs_write]
      · simp only [EAct.written_write, List.length_append, List.length_singleton]
        rw [List.drop_append_of_le_length (by omega), List.drop_eq_nil_of_le (by omega)]; simp
      · simp [htl, hpl]
      · exact hs1
      · exact hs3
      · simp [Codec.runActs_write, hout, List.append_assoc]
    · simp only [CW.write, hfull, if_false]
      generalize hsize : min (P.block - written) buf.length = size
      have hs1 : 0 < size := by omega
      have hs2 : size ≤ buf.length := by omega
      have hs3 : written + size ≤ P.block := by omega
      have htl : (buf.take size).length = size := by simp; omega
      have hk0 : done.length * P.block ≤ p.length := by omega
      refine ⟨⟨rfl, done, eacts ++ [.write (buf.take size)], ?_⟩, hs1, hs2⟩
      constructor
      · exact hsz
      · simp [Codec.runActs_append, Codec.runActs_write, ← hes, hcnt]
      · intro k hk
        rw [blockOf_append_of_le]
        · exact hblk k hk
        · have : (k + 1) * P.block ≤ (done.length) * P.block := Nat.mul_le_mul_right _ hk
          omega
      · simp [Codec.runActs_append, Codec.runActs_write, ← hes]
      · rw [EAct.written_append, hrest, List.drop_append_of_le_length hk0]; simp
      · simp [htl, hlen]; omega
      · omega
      · exact hs3
      · simp [Codec.runActs_append, Codec.runActs_write, ← hes, hout, List.append_assoc]

theorem CW.writeAll_invS (P : Params) (K : Codec) (level : Nat) :
    ∀ (fuel : Nat) (w : CW K) (p out buf : Bytes), CW.InvS P K level w p out → buf.length < fuel →
      CW.InvS P K level (CW.writeAll P K fuel w buf).1 (p ++ buf)
        (out ++ (CW.writeAll P K fuel w buf).2) := by
  intro fuel
  induction fuel with
  | zero => intro w p out buf _ h; omega
  | succ fuel ih =>
    intro w p out buf hinv hf
    by_cases hb : buf = []
    · subst hb; simpa [CW.writeAll] using hinv
    · obtain ⟨hi, hpos, hle⟩ := CW.write_invS P K level w p out buf hinv hb
      have hrec := ih (w.write P K buf).1 (p ++ buf.take (w.write P K buf).2.1)
        (out ++ (w.write P K buf).2.2) (buf.drop (w.write P K buf).2.1) hi (by simp; omega)
      simp only [CW.writeAll, hb, if_false]
      simpa [List.append_assoc, List.take_append_drop] using hrec

theorem CW.flush_invS (P : Params) (K : Codec) (level : Nat) (w : CW K) (p out : Bytes)
    (h : CW.InvS P K level w p out) :
    CW.InvS P K level (w.flush K).1 p (out ++ (w.flush K).2) := by
  obtain ⟨st, sizes, lvl⟩ := w
  obtain ⟨hlvl, hst⟩ := h
  simp only at hlvl
  subst hlvl
  cases st with
  | ready => simpa [CW.InvS, CW.flush] using hst
  | inData written es cnt =>
    obtain ⟨done, eacts, hsz, hcnt, hblk, hes, hrest, hlen, hpos, hle, hout⟩ := hst
    refine ⟨rfl, done, eacts ++ [.flush], ?_⟩
    simp only [CW.flush]
    constructor
    · exact hsz
    · simp [Codec.runActs_append, Codec.runActs_flush, ← hes, hcnt]
    · exact hblk
    · simp [Codec.runActs_append, Codec.runActs_flush, ← hes]
    · rw [EAct.written_append, hrest]; simp
    · exact hlen
    · exact hpos
    · exact hle
    · simp [Codec.runActs_append, Codec.runActs_flush, ← hes, hout, List.append_assoc]

theorem compStep_invS (P : Params) (K : Codec) (level : Nat) (acc : CW K × Bytes)
    (p : Bytes) (a : LAct) (h : CW.InvS P K level acc.1 p acc.2) :
    CW.InvS P K level (compStep P K acc a).1 (p ++ LAct.written [a]) (compStep P K acc a).2 := by
  cases a with
  | write b =>
    simpa [compStep, LAct.written] using
      CW.writeAll_invS P K level (b.length + 1) acc.1 p acc.2 b h (by omega)
  | flush =>
    simpa [compStep, LAct.written] using CW.flush_invS P K level acc.1 p acc.2 h

theorem compFoldl_invS (P : Params) (K : Codec) (level : Nat) (acts : List LAct) :
    ∀ (acc : CW K × Bytes) (p : Bytes), CW.InvS P K level acc.1 p acc.2 →
      CW.InvS P K level (acts.foldl (compStep P K) acc).1 (p ++ LAct.written acts)
        (acts.foldl (compStep P K) acc).2 := by
  induction acts with
  | nil => intro acc p h; simpa [LAct.written] using h
  | cons a r ih =>
    intro acc p h
    have h1 := compStep_invS P K level acc p a h
    have := ih _ _ h1
    rw [List.append_assoc, ← LAct.written_append] at this
    simpa using this

/-- the stronger invariant after any sequence of `write_all` calls and flushes (no codec law
    needed: it is a statement about which encoder calls the writer made) -/
theorem compRun_invS (P : Params) (K : Codec) (level : Nat) (acts : List LAct) :
    CW.InvS P K level (compRun P K level acts).1 (LAct.written acts) (compRun P K level acts).2 := by
  have := compFoldl_invS P K level acts (CW.init K level, []) [] (CW.invS_init P K level)
  simpa [compRun] using this

/-- right after a flush: the emitted bytes are finished streams of the full blocks of the plaintext
    followed by the bytes of the open block's encoder, which has been given the rest of the
    plaintext and a `flush` (or nothing was ever written and nothing was emitted) -/
theorem compRun_flush_streams (P : Params) (K : Codec) (level : Nat) (acts : List LAct) :
    let r := compRun P K level (acts ++ [.flush]); let p := LAct.written acts
    (p = [] ∧ r.2 = []) ∨
    ∃ done lvl eacts, r.2 = List.flatten done ++ (K.runActs (K.einit lvl) (eacts ++ [.flush])).2 ∧
      (∀ k (h : k < done.length), IsFinished K (blockOf P p k) done[k]) ∧
      EAct.written eacts = p.drop (done.length * P.block) ∧ (EAct.written eacts).length ≤ P.block := by
  intro r p
  have hinv := compRun_invS P K level (acts ++ [.flush])
  have hp : LAct.written (acts ++ [.flush]) = p := by
    rw [LAct.written_append]; simp [LAct.written, p]
  rw [hp] at hinv
  -- the state after `acts`, then the flush
  have hinv0 := compRun_invS P K level acts
  have hr : r = ((compRun P K level acts).1.flush K |>.1,
      (compRun P K level acts).2 ++ ((compRun P K level acts).1.flush K).2) := by
    show compRun P K level (acts ++ [.flush]) = _
    rw [compRun, List.foldl_append, ← compRun]; rfl
  generalize compRun P K level acts = r0 at hinv0 hr
  obtain ⟨w, out⟩ := r0
  obtain ⟨st, sizes, lvl⟩ := w
  obtain ⟨hlvl, hst⟩ := hinv0
  simp only at hlvl hst
  cases st with
  | ready =>
    left
    obtain ⟨_, h1, h2⟩ := hst
    refine ⟨h1, ?_⟩
    rw [hr]; simp [CW.flush, h2]
  | inData written es cnt =>
    right
    obtain ⟨done, eacts, hsz, hcnt, hblk, hes, hrest, hlen, hpos, hle, hout⟩ := hst
    refine ⟨done, level, eacts, ?_, hblk, hrest, ?_⟩
    · rw [hr]
      simp only [CW.flush]
      rw [hout, hes, Codec.runActs_append, Codec.runActs_flush]
      simp [List.append_assoc]
    · rw [hrest]; simp; omega

/-- **`finalize`**: the bytes emitted up to and including `finalize` are finished encoder streams of
    the blocks of the plaintext (`IsEncoded`) followed by the sizes table -/
theorem CW.finalize_encoded (P : Params) (K : Codec) (level : Nat) (w : CW K) (p out : Bytes)
    (h : CW.InvS P K level w p out) :
    ∃ cs, CompFS.IsEncoded P K p cs ∧
      out ++ w.finalize K =
        cs.flatten ++ encSizes ⟨cs.map List.length, p.length - (cs.length - 1) * P.block⟩ := by
  have hB := P.hblock
  obtain ⟨st, sizes, lvl⟩ := w
  obtain ⟨hlvl, hst⟩ := h
  simp only at hlvl
  subst hlvl
  cases st with
  | ready =>
    obtain ⟨hs, hp, ho⟩ := hst
    simp only at hs
    subst hs hp ho
    refine ⟨[], ⟨?_, ?_⟩, ?_⟩
    · simp only [List.length_nil, Nat.zero_add]
      rw [Nat.div_eq_of_lt (by omega)]
    · intro k hk; simp at hk
    · simp [CW.finalize]
  | inData written es cnt =>
    obtain ⟨done, eacts, hsz, hcnt, hblk, hes, hrest, hlen, hpos, hle, hout⟩ := hst
    simp only at hsz
    refine ⟨done ++ [(K.runActs (K.einit lvl) eacts).2 ++ K.efinish es], ⟨?_, ?_⟩, ?_⟩
    · simp only [List.length_append, List.length_singleton]
      have : p.length + P.block - 1 = P.block * (done.length) + (written + P.block - 1) := by
        rw [hlen, Nat.mul_comm]; omega
      rw [this, Nat.mul_add_div hB]
      obtain ⟨d, hd⟩ : ∃ d, written = d + 1 := ⟨written - 1, by omega⟩
      have : written + P.block - 1 = d + P.block := by omega
      rw [this, Nat.add_div_right _ hB, Nat.div_eq_of_lt (by omega)]
    · intro k hk
      simp only [List.length_append, List.length_singleton] at hk
      by_cases hk' : k < done.length
      · rw [List.getElem_append_left hk']
        exact hblk k hk'
      · have hke : k = done.length := by omega
        subst hke
        rw [List.getElem_append_right (Nat.le_refl _)]
        simp only [Nat.sub_self, List.getElem_cons_zero]
        have : blockOf P p done.length = EAct.written eacts := by
          unfold blockOf
          rw [hrest, List.take_of_length_le]; simp; omega
        rw [this, hes]
        exact ⟨lvl, eacts, rfl, rfl⟩
    · have hl : p.length - done.length * P.block = written := by omega
      simp [CW.finalize, hout, hsz, hcnt, hl, List.append_assoc]

/-- the whole run: `write_all`s and flushes, then `finalize` -/
theorem compRun_finalize_encoded (P : Params) (K : Codec) (level : Nat) (acts : List LAct) :
    ∃ cs, CompFS.IsEncoded P K (LAct.written acts) cs ∧
      (compRun P K level acts).2 ++ (compRun P K level acts).1.finalize K =
        cs.flatten ++ encSizes ⟨cs.map List.length,
          (LAct.written acts).length - (cs.length - 1) * P.block⟩ :=
  CW.finalize_encoded P K level _ _ _ (compRun_invS P K level acts)

end MlaModel

/-
  Chunk-wise description of `sealS` and the one-shot decryption round trip
  `openAll (sealS p) = p` (L1 of the encryption layer).

  NOTE: this is a verbatim copy of the first part (lines 9-215) of
  `MlaModel/Proofs/EncryptReader.lean`, placed in the namespace `MlaModel.C06` so that C06 does not
  depend on that file (whose reader part is being repaired after the `EncR.failed` change).  Once
  that file compiles again, `C06.layout` can use `C11.open_seal` and this copy can go.
-/
import MlaModel.Proofs.EncryptWriter
namespace MlaModel.C06
open MlaModel

/-! ### arithmetic helpers -/

theorem le_of_mul_lt_succ {k n c : Nat} (h : k * c < n * c + c) : k ≤ n := by
  have : k * c < (n + 1) * c := by rw [Nat.add_mul]; omega
  have := Nat.lt_of_mul_lt_mul_right this
  omega

/-! ### keystream xor is an involution -/

theorem xorAt_xorAt (ks : Nat → UInt8) (off : Nat) (x : Bytes) : xorAt ks off (xorAt ks off x) = x := by
  induction x generalizing off with
  | nil => rfl
  | cons b bs ih => simp [xorAt, ih, UInt8.xor_assoc]

/-- plaintext of chunk `k` -/
def ptChunk (P : Params) (p : Bytes) (k : Nat) : Bytes := (p.drop (k * P.chunk)).take P.chunk

/-- sealed bytes of chunk `k` -/
def scChunk (P : Params) (C : EncPrims) (p : Bytes) (k : Nat) : Bytes :=
  xorAt (C.ks k) 0 (ptChunk P p k) ++ C.tag k (xorAt (C.ks k) 0 (ptChunk P p k))

theorem ptChunk_length (P : Params) (p : Bytes) (k : Nat) :
    (ptChunk P p k).length = min P.chunk (p.length - k * P.chunk) := by
  simp [ptChunk]

theorem openChunk_seal (P : Params) (C : EncPrims) (htag : ∀ i c, (C.tag i c).length = P.tagLen)
    (k : Nat) (ct : Bytes) : openChunk P C k (ct ++ C.tag k ct) = .ok (xorAt (C.ks k) 0 ct) := by
  have h1 : ¬ ((ct ++ C.tag k ct).length < P.tagLen) := by simp [htag]
  have h2 : (ct ++ C.tag k ct).length - P.tagLen = ct.length := by simp [htag]
  unfold openChunk
  rw [if_neg h1]
  simp only [h2, List.take_left', List.drop_left', if_true]

theorem openChunk_scChunk (P : Params) (C : EncPrims) (htag : ∀ i c, (C.tag i c).length = P.tagLen)
    (p : Bytes) (k : Nat) : openChunk P C k (scChunk P C p k) = .ok (ptChunk P p k) := by
  rw [scChunk, openChunk_seal P C htag, xorAt_xorAt]

theorem scChunk_length (P : Params) (C : EncPrims) (htag : ∀ i c, (C.tag i c).length = P.tagLen)
    (p : Bytes) (k : Nat) :
    (scChunk P C p k).length = min P.chunk (p.length - k * P.chunk) + P.tagLen := by
  simp [scChunk, htag, ptChunk_length]


/-! ### chunk-wise description of `sealS` -/

section Seal
variable (P : Params) (C : EncPrims) (htag : ∀ i c, (C.tag i c).length = P.tagLen)
include htag

theorem encFull_length (n i : Nat) (p : Bytes) (h : n * P.chunk ≤ p.length) :
    (encFull P C n i p).length = n * (P.chunk + P.tagLen) := by
  induction n generalizing i p with
  | zero => simp [encFull]
  | succ n ih =>
    have e : (n+1) * P.chunk = n * P.chunk + P.chunk := by rw [Nat.add_mul]; omega
    have e2 : (n+1) * (P.chunk + P.tagLen) = n * (P.chunk + P.tagLen) + (P.chunk + P.tagLen) := by
      rw [Nat.add_mul]; omega
    have := ih (i+1) (p.drop P.chunk) (by simp; omega)
    simp only [encFull, List.length_append, xorAt_length, htag, List.length_take, this]
    omega

omit htag in
theorem encFull_prefix (p : Bytes) (k m : Nat) (h : k + 1 ≤ m) :
    ∃ rest, encFull P C m 0 p = encFull P C k 0 p ++ (scChunk P C p k ++ rest) := by
  induction m with
  | zero => omega
  | succ m ih =>
    by_cases hm : k = m
    · subst hm
      refine ⟨[], ?_⟩
      rw [encFull_succ_end]; simp [scChunk, ptChunk]
    · obtain ⟨rest, hr⟩ := ih (by omega)
      refine ⟨rest ++ (xorAt (C.ks (0+m)) 0 ((p.drop (m*P.chunk)).take P.chunk) ++
        C.tag (0+m) (xorAt (C.ks (0+m)) 0 ((p.drop (m*P.chunk)).take P.chunk))), ?_⟩
      rw [encFull_succ_end, hr]; simp only [List.append_assoc]

/-- index of the last chunk -/
def nLast (P : Params) (p : Bytes) : Nat := (p.length - 1) / P.chunk

omit htag in
theorem nLast_spec (p : Bytes) :
    nLast P p * P.chunk ≤ p.length ∧ p.length ≤ nLast P p * P.chunk + P.chunk ∧
    (0 < p.length → nLast P p * P.chunk < p.length) := by
  have h1 : nLast P p * P.chunk ≤ p.length - 1 := Nat.div_mul_le_self _ _
  have h2 : p.length - 1 < nLast P p * P.chunk + P.chunk := Nat.lt_div_mul_add P.hchunk
  refine ⟨by omega, by omega, by omega⟩

omit htag in
theorem nLast_cases (p : Bytes) (k : Nat) (hk : k * P.chunk ≤ p.length) :
    k ≤ nLast P p ∨ (k = nLast P p + 1 ∧ k * P.chunk = p.length ∧ 0 < p.length) := by
  obtain ⟨h1, h2, h3⟩ := nLast_spec P p
  have hc := P.hchunk
  by_cases h : k ≤ nLast P p
  · exact .inl h
  · right
    have hge : (nLast P p + 1) * P.chunk ≤ k * P.chunk := Nat.mul_le_mul_right _ (by omega)
    have e : (nLast P p + 1) * P.chunk = nLast P p * P.chunk + P.chunk := by rw [Nat.add_mul]; omega
    have heq : k * P.chunk = (nLast P p + 1) * P.chunk := by omega
    refine ⟨Nat.eq_of_mul_eq_mul_right hc heq, by omega, by omega⟩

omit htag in
theorem le_nLast (p : Bytes) (k : Nat) (hk : k * P.chunk < p.length) : k ≤ nLast P p := by
  obtain ⟨h1, h2, h3⟩ := nLast_spec P p
  exact le_of_mul_lt_succ (c := P.chunk) (by omega)

omit htag in
theorem sealS_split (p : Bytes) (k : Nat) (hk : k ≤ nLast P p) :
    ∃ rest, sealS P C p = encFull P C k 0 p ++ (scChunk P C p k ++ rest) ∧
      (k = nLast P p → rest = []) := by
  obtain ⟨h1, h2, h3⟩ := nLast_spec P p
  by_cases h : k = nLast P p
  · subst h
    refine ⟨[], ?_, fun _ => rfl⟩
    have : ptChunk P p (nLast P p) = p.drop (nLast P p * P.chunk) := by
      rw [ptChunk, List.take_of_length_le (by simp; omega)]
    simp only [sealS, scChunk, this, List.append_nil, List.append_assoc]
    rfl
  · obtain ⟨rest, hr⟩ := encFull_prefix P C p k (nLast P p) (by omega)
    refine ⟨rest ++ (xorAt (C.ks (nLast P p)) 0 (p.drop (nLast P p * P.chunk)) ++
      C.tag (nLast P p) (xorAt (C.ks (nLast P p)) 0 (p.drop (nLast P p * P.chunk)))), ?_,
      fun h' => absurd h' h⟩
    show encFull P C (nLast P p) 0 p ++ _ ++ _ = _
    rw [hr]; simp only [List.append_assoc]; rfl

theorem sealS_length (p : Bytes) :
    (sealS P C p).length = p.length + (nLast P p + 1) * P.tagLen := by
  obtain ⟨h1, h2, h3⟩ := nLast_spec P p
  obtain ⟨rest, hs, hr⟩ := sealS_split P C p (nLast P p) (Nat.le_refl _)
  rw [hs, hr rfl]
  simp only [List.length_append, encFull_length P C htag _ _ _ h1, scChunk_length P C htag,
    List.length_nil, Nat.mul_add, Nat.add_mul]
  omega

/-- the sealed bytes of chunk `k ≤ nLast` sit at offset `k * (chunk + tagLen)` -/
theorem sealS_chunk (p : Bytes) (k : Nat) (hk : k ≤ nLast P p) :
    ((sealS P C p).drop (k * (P.chunk + P.tagLen))).take (P.chunk + P.tagLen) = scChunk P C p k := by
  obtain ⟨h1, h2, h3⟩ := nLast_spec P p
  obtain ⟨rest, hs, hr⟩ := sealS_split P C p k hk
  have hkc : k * P.chunk ≤ nLast P p * P.chunk := Nat.mul_le_mul_right _ hk
  have hl := encFull_length P C htag k 0 p (by omega)
  rw [hs, List.drop_left' hl]
  by_cases h : k = nLast P p
  · rw [hr h, List.append_nil, List.take_of_length_le]
    rw [scChunk_length P C htag]; omega
  · have hlt : k + 1 ≤ nLast P p := by omega
    have : (k + 1) * P.chunk ≤ nLast P p * P.chunk := Nat.mul_le_mul_right _ hlt
    rw [Nat.add_mul] at this
    apply List.take_left'
    rw [scChunk_length P C htag]; omega

end Seal

/-! ### one-shot decryption of the sealed stream -/

section OpenAll
variable (P : Params) (C : EncPrims) (htag : ∀ i c, (C.tag i c).length = P.tagLen)
include htag

theorem openAll_from (p : Bytes) (j : Nat) : ∀ (k fuel : Nat), k + j = nLast P p → j + 2 ≤ fuel →
    openAll P C fuel k ((sealS P C p).drop (k * (P.chunk + P.tagLen))) = .ok (p.drop (k * P.chunk)) := by
  obtain ⟨h1, h2, h3⟩ := nLast_spec P p
  have ht := P.htag
  have hlen := sealS_length P C htag p
  induction j with
  | zero =>
    intro k fuel hk hf
    have hkn : k = nLast P p := by omega
    have hkc : k * P.chunk = nLast P p * P.chunk := by rw [hkn]
    have hkt : k * P.tagLen = nLast P p * P.tagLen := by rw [hkn]
    obtain ⟨f, rfl⟩ : ∃ f, fuel = f + 1 := ⟨fuel - 1, by omega⟩
    obtain ⟨f', rfl⟩ : ∃ f', f = f' + 1 := ⟨f - 1, by omega⟩
    have hch := sealS_chunk P C htag p k (by omega)
    have hsl := scChunk_length P C htag p k
    have hne : (sealS P C p).drop (k * (P.chunk + P.tagLen)) ≠ [] := by
      have hpos : 0 < (scChunk P C p k).length := by omega
      intro h; rw [h, List.take_nil] at hch; rw [← hch] at hpos; simp at hpos
    have hrest : ((sealS P C p).drop (k * (P.chunk + P.tagLen))).drop (P.chunk + P.tagLen) = [] := by
      rw [List.drop_drop]; apply List.drop_eq_nil_of_le
      rw [hlen]; simp only [Nat.mul_add, Nat.add_mul]; omega
    have hpt : ptChunk P p k = p.drop (k * P.chunk) := by
      rw [ptChunk, List.take_of_length_le (by simp; omega)]
    rw [openAll, if_neg hne, hch, openChunk_scChunk P C htag, hrest]
    simp [openAll, hpt]
  | succ j ih =>
    intro k fuel hk hf
    obtain ⟨f, rfl⟩ : ∃ f, fuel = f + 1 := ⟨fuel - 1, by omega⟩
    have hch := sealS_chunk P C htag p k (by omega)
    have hsl := scChunk_length P C htag p k
    have hne : (sealS P C p).drop (k * (P.chunk + P.tagLen)) ≠ [] := by
      have hpos : 0 < (scChunk P C p k).length := by omega
      intro h; rw [h, List.take_nil] at hch; rw [← hch] at hpos; simp at hpos
    have hrest : ((sealS P C p).drop (k * (P.chunk + P.tagLen))).drop (P.chunk + P.tagLen) =
        (sealS P C p).drop ((k + 1) * (P.chunk + P.tagLen)) := by
      rw [List.drop_drop]; congr 1; rw [Nat.add_mul]; omega
    have hpt : ptChunk P p k ++ p.drop ((k + 1) * P.chunk) = p.drop (k * P.chunk) := by
      have : p.drop ((k + 1) * P.chunk) = (p.drop (k * P.chunk)).drop P.chunk := by
        rw [List.drop_drop]; congr 1; rw [Nat.add_mul]; omega
      rw [this, ptChunk, List.take_append_drop]
    rw [openAll, if_neg hne, hch, openChunk_scChunk P C htag, hrest, ih (k + 1) f (by omega) (by omega)]
    simp [hpt]

/-- **L1** for the encryption layer: decrypting the sealed stream gives back the plaintext -/
theorem openAll_sealS (p : Bytes) (fuel : Nat) (hf : nLast P p + 2 ≤ fuel) :
    openAll P C fuel 0 (sealS P C p) = .ok p := by
  have := openAll_from P C htag p (nLast P p) 0 fuel (by omega) hf
  simpa using this

end OpenAll

end MlaModel.C06

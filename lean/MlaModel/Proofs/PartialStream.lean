/-
  Streams that may FAIL: the refinement notion `IsSoundPartial` and how the archive reader
  (`MlaModel.ReaderS`, `MlaModel.ArchiveS`) behaves over such a stream.

  * `IsSoundPartial Inv abs data` — like `IsCursor` (Stream.lean), but every `read`/`seek` may answer
    an error instead.  When `read` answers `.ok` the bytes are those of `data` at the abstract
    position (nothing past the end), at least one byte unless the buffer is empty or the position is
    at/after the end, and the position advances by what was returned; when `seek` answers `.ok q` the
    abstract position becomes `q` and `q` is the position a cursor over `data` answers for that
    request (`n` for `Start(n)`, `pos + d` for `Current(d)`, `|data| + d` for `End(d)`; stated with
    `Int.toNat` because the raw layer clamps a target before its offset to 0 where a cursor answers
    an error).  Positions past the end are allowed (reads return nothing there).
    In the `Stream` interface an error answer carries NO state (`Except Err (σ × _)`): the
    caller keeps the state it had before the call, which still satisfies `Inv`; so "the invariant is
    preserved whatever the call answered" holds by construction, and a history continues after an
    error from the state before the failed call.
  * `IsDead Inv abs data Dead` — what the Rust objects are left in after a failed call is NOT the
    state before the call: `Dead` describes such states abstractly (every `read` errs; an absolute
    seek that succeeds re-establishes `Inv` at the requested position).  The archive-level
    statements below allow the reader to start in a `Dead` state with ANY unfinished handle.
  * `Tot σ abs data` — the totalisation used in the proofs: it answers as `σ` does as long as `σ`
    answers `.ok`, and as an in-memory cursor over `data` from the first error on.  It is an
    `IsCursor` over `data` (`Tot.isCursor`), and every function of the reader that succeeds over `σ`
    computes the same thing over `Tot σ` (`…_live` lemmas): the theorems about cursor-like streams
    (`Proofs/ReaderS`, `Theorems/C10`) transfer to the successful runs over `σ`.
-/
import MlaModel.ArchiveS
import MlaModel.Proofs.Stream
import MlaModel.Proofs.ReaderS
namespace MlaModel

/-- `σ` with invariant `Inv` and abstraction `abs` is a *sound, possibly failing* reader of `data`:
    whatever it returns is what a cursor over `data` returns; it may answer an error at any call. -/
structure IsSoundPartial {σ : Type} [Stream σ] (Inv : σ → Prop) (abs : σ → Nat) (data : Bytes) :
    Prop where
  read_sound : ∀ s n s' out, Inv s → Stream.read s n = .ok (s', out) →
      Inv s' ∧ out = (data.drop (abs s)).take out.length ∧ out.length ≤ n ∧
      (0 < n → abs s < data.length → 0 < out.length) ∧ abs s' = abs s + out.length
  seek_sound : ∀ s (w : SeekFrom) s' q, Inv s → Stream.seek s w = .ok (s', q) →
      Inv s' ∧ abs s' = q ∧
      (match w with
       | .start n => q = n
       | .current d => q = ((abs s : Int) + d).toNat
       | .fromEnd d => q = ((data.length : Int) + d).toNat)

/-- `Dead` states (what a failed call may leave behind in the Rust objects): every `read` errs, and
    an absolute seek that succeeds lands on a good state at the requested position. -/
structure IsDead {σ : Type} [Stream σ] (Inv : σ → Prop) (abs : σ → Nat) (data : Bytes)
    (Dead : σ → Prop) : Prop where
  dead_read : ∀ s n, Dead s → ∃ e, Stream.read s n = .error e
  dead_seek : ∀ s (w : SeekFrom) s' q, Dead s → Stream.seek s w = .ok (s', q) →
      (match w with
       | .start n => Inv s' ∧ abs s' = q ∧ q = n
       | .current _ => True
       | .fromEnd d => Inv s' ∧ abs s' = q ∧ q = ((data.length : Int) + d).toNat)

/-- no dead states at all -/
theorem IsDead.none {σ : Type} [Stream σ] (Inv : σ → Prop) (abs : σ → Nat) (data : Bytes) :
    IsDead Inv abs data (fun _ => False) :=
  ⟨fun _ _ h => h.elim, fun _ _ _ _ h => h.elim⟩

/-! ### instances: the in-memory cursor, the raw layer -/

theorem Cur.isSoundPartial (data : Bytes) :
    IsSoundPartial (σ := Cur) (fun c => c.data = data) (·.pos) data := by
  refine ⟨?_, ?_⟩
  · intro s n s' out hd h
    subst hd
    simp only [Stream.read, Except.ok.injEq, Prod.mk.injEq] at h
    obtain ⟨rfl, rfl⟩ := h
    refine ⟨rfl, ?_, ?_, ?_, rfl⟩
    · simp
    · simp; omega
    · intro hn hlt; simp; omega
  · intro s w s' q hd h
    subst hd
    cases w with
    | start n =>
      simp only [Stream.seek, Except.ok.injEq, Prod.mk.injEq] at h
      obtain ⟨rfl, rfl⟩ := h
      exact ⟨rfl, rfl, rfl⟩
    | current d =>
      simp only [Stream.seek] at h
      split at h
      · simp only [Except.ok.injEq, Prod.mk.injEq] at h
        obtain ⟨rfl, rfl⟩ := h
        exact ⟨rfl, rfl, rfl⟩
      · cases h
    | fromEnd d =>
      simp only [Stream.seek] at h
      split at h
      · simp only [Except.ok.injEq, Prod.mk.injEq] at h
        obtain ⟨rfl, rfl⟩ := h
        exact ⟨rfl, rfl, rfl⟩
      · cases h

/-- the raw layer over a sound partial inner stream over `full` is a sound partial stream over the
    part of `full` after its offset -/
theorem RawR.isSoundPartial {ι : Type} [Stream ι] {InvI : ι → Prop} {absI : ι → Nat}
    (full : Bytes) (off : Nat) (hoff : off ≤ full.length) (hI : IsSoundPartial InvI absI full) :
    IsSoundPartial (σ := RawR ι) (fun r => InvI r.inner ∧ r.off = off ∧ off ≤ absI r.inner)
      (fun r => absI r.inner - r.off) (full.drop off) := by
  refine ⟨?_, ?_⟩
  · intro s n s' out ⟨hi, ho, hge⟩ h
    simp only [Stream.read] at h
    split at h
    · cases h
    · rename_i i out' hr
      simp only [Except.ok.injEq, Prod.mk.injEq] at h
      obtain ⟨rfl, rfl⟩ := h
      obtain ⟨hi', hout, hle, hpos, ha'⟩ := hI.read_sound _ _ _ _ hi hr
      refine ⟨⟨hi', ho, by simp only [ha']; omega⟩, ?_, hle, ?_, ?_⟩
      · simp only [List.drop_drop]
        have : off + (absI s.inner - s.off) = absI s.inner := by omega
        rw [this]; exact hout
      · intro hn hlt; apply hpos hn; simp only [List.length_drop] at hlt; omega
      · simp only [ha']; omega
  · intro s w s' q ⟨hi, ho, hge⟩ h
    have key : ∀ w' : SeekFrom, (∀ n, w' ≠ .start n) →
        (match Stream.seek s.inner w' with
         | .error e => (.error e : Except Err (RawR ι × Nat))
         | .ok (i, p) =>
           if p < s.off then
             match Stream.seek i (.start s.off) with
             | .error e => .error e
             | .ok (i, _) => .ok ({ s with inner := i }, 0)
           else .ok ({ s with inner := i }, p - s.off)) = .ok (s', q) →
        ∃ p, (InvI s'.inner ∧ s'.off = off ∧ off ≤ absI s'.inner) ∧ absI s'.inner - s'.off = q ∧
          q = p - off ∧
          (match w' with
           | .start n => True
           | .current d => p = ((absI s.inner : Int) + d).toNat
           | .fromEnd d => p = ((full.length : Int) + d).toNat) := by
      intro w' hw' h
      split at h
      · cases h
      · rename_i i p hs
        obtain ⟨hi1, ha1, hq1⟩ := hI.seek_sound _ _ _ _ hi hs
        refine ⟨p, ?_⟩
        split at h
        · rename_i hlt
          split at h
          · cases h
          · rename_i i2 p2 hs2
            simp only [Except.ok.injEq, Prod.mk.injEq] at h
            obtain ⟨rfl, rfl⟩ := h
            obtain ⟨hi2, ha2, hq2⟩ := hI.seek_sound _ _ _ _ hi1 hs2
            simp only at hq2
            refine ⟨⟨hi2, ho, by simp only; omega⟩, by simp only; omega, by omega, ?_⟩
            cases w' <;> first | trivial | exact hq1
        · rename_i hge'
          simp only [Except.ok.injEq, Prod.mk.injEq] at h
          obtain ⟨rfl, rfl⟩ := h
          refine ⟨⟨hi1, ho, by simp only; omega⟩, by simp only [ha1, ho], by omega, ?_⟩
          cases w' <;> first | trivial | exact hq1
    cases w with
    | start n =>
      simp only [Stream.seek] at h
      split at h
      · cases h
      · split at h
        · cases h
        · rename_i i p hs
          simp only [Except.ok.injEq, Prod.mk.injEq] at h
          obtain ⟨rfl, rfl⟩ := h
          obtain ⟨hi1, ha1, hq1⟩ := hI.seek_sound _ _ _ _ hi hs
          simp only at hq1
          exact ⟨⟨hi1, ho, by simp only; omega⟩, by simp only; omega, rfl⟩
    | current d =>
      obtain ⟨p, h1, h2, h3, h4⟩ := key (.current d) (fun n => by simp) h
      refine ⟨h1, h2, ?_⟩
      simp only at h4 ⊢
      omega
    | fromEnd d =>
      obtain ⟨p, h1, h2, h3, h4⟩ := key (.fromEnd d) (fun n => by simp) h
      refine ⟨h1, h2, ?_⟩
      simp only [List.length_drop] at h4 ⊢
      omega

/-! ### the totalisation `Tot σ abs data` -/

/-- answers as `σ` while `σ` answers `.ok` (`live`); from the first error on, and for relative seeks,
    an in-memory cursor over `data` (`dead`) -/
inductive Tot (σ : Type) (abs : σ → Nat) (data : Bytes) where
  | live (s : σ)
  | dead (c : Cur)

namespace Tot
variable {σ : Type} {abs : σ → Nat} {data : Bytes}

/-- the cursor that takes over when `σ` fails in state `s` -/
def fb (abs : σ → Nat) (data : Bytes) (s : σ) : Cur := ⟨data, min (abs s) data.length⟩

def ofCur {α : Type} : Except Err (Cur × α) → Except Err (Tot σ abs data × α)
  | .ok (c, x) => .ok (.dead c, x)
  | .error e => .error e

instance [Stream σ] : Stream (Tot σ abs data) where
  seek t w :=
    match t with
    | .dead c => ofCur (Stream.seek c w)
    | .live s =>
      match w with
      | .current d => ofCur (Stream.seek (fb abs data s) (.current d))
      | .start n =>
        match Stream.seek s (.start n) with
        | .ok (s', q) => .ok (.live s', q)
        | .error _ => ofCur (Stream.seek (fb abs data s) (.start n))
      | .fromEnd d =>
        match Stream.seek s (.fromEnd d) with
        | .ok (s', q) => .ok (.live s', q)
        | .error _ => ofCur (Stream.seek (fb abs data s) (.fromEnd d))
  read t n :=
    match t with
    | .dead c => ofCur (Stream.read c n)
    | .live s =>
      match Stream.read s n with
      | .ok (s', out) => .ok (.live s', out)
      | .error _ => ofCur (Stream.read (fb abs data s) n)

/-- invariant of the totalisation -/
def InvT (Inv Dead : σ → Prop) : Tot σ abs data → Prop
  | .live s => Inv s ∨ Dead s
  | .dead c => c.data = data ∧ c.pos ≤ data.length

/-- abstract position of the totalisation -/
def absT : Tot σ abs data → Nat
  | .live s => min (abs s) data.length
  | .dead c => c.pos

variable [Stream σ] {Inv Dead : σ → Prop}

theorem read_live {s s' : σ} {n : Nat} {out : Bytes} (h : Stream.read s n = .ok (s', out)) :
    Stream.read (Tot.live s : Tot σ abs data) n = .ok (.live s', out) := by
  show (match Stream.read s n with
    | .ok (s', out) => (.ok (Tot.live s', out) : Except Err (Tot σ abs data × Bytes))
    | .error _ => ofCur (Stream.read (fb abs data s) n)) = _
  rw [h]

theorem seek_live_start {s s' : σ} {n q : Nat} (h : Stream.seek s (.start n) = .ok (s', q)) :
    Stream.seek (Tot.live s : Tot σ abs data) (.start n) = .ok (.live s', q) := by
  show (match Stream.seek s (.start n) with
    | .ok (s', q) => (.ok (Tot.live s', q) : Except Err (Tot σ abs data × Nat))
    | .error _ => ofCur (Stream.seek (fb abs data s) (.start n))) = _
  rw [h]

theorem seek_live_end {s s' : σ} {d : Int} {q : Nat} (h : Stream.seek s (.fromEnd d) = .ok (s', q)) :
    Stream.seek (Tot.live s : Tot σ abs data) (.fromEnd d) = .ok (.live s', q) := by
  show (match Stream.seek s (.fromEnd d) with
    | .ok (s', q) => (.ok (Tot.live s', q) : Except Err (Tot σ abs data × Nat))
    | .error _ => ofCur (Stream.seek (fb abs data s) (.fromEnd d))) = _
  rw [h]

omit [Stream σ] in
theorem fb_inv (s : σ) : (fb abs data s).data = data ∧ (fb abs data s).pos ≤ data.length :=
  ⟨rfl, Nat.min_le_right _ _⟩

omit [Stream σ] in
/-- a seek of the fall-back cursor, lifted -/
theorem ofCur_seek (c : Cur) (hc : c.data = data ∧ c.pos ≤ data.length) (w : SeekFrom)
    (target : Nat) (ht : target ≤ data.length)
    (hw : match w with
       | .start n => target = n
       | .current d => (target : Int) = c.pos + d
       | .fromEnd d => (target : Int) = data.length + d) :
    ∃ t' : Tot σ abs data, ofCur (Stream.seek c w) = .ok (t', target) ∧
      InvT (abs := abs) (data := data) Inv Dead t' ∧ absT t' = target := by
  obtain ⟨c', hs, hi, ha⟩ := (Cur.isCursor data).seek_ok c w target hc ht hw
  exact ⟨.dead c', by rw [hs]; rfl, hi, ha⟩

/-- **the totalisation of a sound partial stream behaves like a cursor** -/
theorem isCursor (hP : IsSoundPartial Inv abs data) (hD : IsDead Inv abs data Dead) :
    IsCursor (σ := Tot σ abs data) (InvT Inv Dead) absT data := by
  refine ⟨?_, ?_, ?_⟩
  · intro t ht
    cases t with
    | live s => exact Nat.min_le_right _ _
    | dead c => exact ht.2
  · intro t w target hinv ht hw
    cases t with
    | dead c => exact ofCur_seek c hinv w target ht hw
    | live s =>
      cases w with
      | current d => exact ofCur_seek _ (fb_inv s) (.current d) target ht hw
      | start n =>
        cases hs : Stream.seek s (.start n) with
        | error e =>
          obtain ⟨t', h1, h2⟩ := ofCur_seek (σ := σ) (abs := abs) (Inv := Inv) (Dead := Dead)
            _ (fb_inv (abs := abs) (data := data) s) (.start n) target ht hw
          refine ⟨t', ?_, h2⟩
          show (match Stream.seek s (.start n) with
            | .ok (s', q) => (.ok (Tot.live s', q) : Except Err (Tot σ abs data × Nat))
            | .error _ => ofCur (Stream.seek (fb abs data s) (.start n))) = _
          rw [hs]; exact h1
        | ok p =>
          obtain ⟨s', q⟩ := p
          have hgood : Inv s' ∧ abs s' = q ∧ q = n := by
            rcases hinv with hi | hd
            · exact hP.seek_sound _ _ _ _ hi hs
            · exact hD.dead_seek _ _ _ _ hd hs
          obtain ⟨h1, h2, h3⟩ := hgood
          simp only at hw
          refine ⟨.live s', ?_, .inl h1, ?_⟩
          · rw [seek_live_start hs, h3, hw]
          · show min (abs s') data.length = target
            omega
      | fromEnd d =>
        cases hs : Stream.seek s (.fromEnd d) with
        | error e =>
          obtain ⟨t', h1, h2⟩ := ofCur_seek (σ := σ) (abs := abs) (Inv := Inv) (Dead := Dead)
            _ (fb_inv (abs := abs) (data := data) s) (.fromEnd d) target ht hw
          refine ⟨t', ?_, h2⟩
          show (match Stream.seek s (.fromEnd d) with
            | .ok (s', q) => (.ok (Tot.live s', q) : Except Err (Tot σ abs data × Nat))
            | .error _ => ofCur (Stream.seek (fb abs data s) (.fromEnd d))) = _
          rw [hs]; exact h1
        | ok p =>
          obtain ⟨s', q⟩ := p
          have hgood : Inv s' ∧ abs s' = q ∧ q = ((data.length : Int) + d).toNat := by
            rcases hinv with hi | hd
            · exact hP.seek_sound _ _ _ _ hi hs
            · exact hD.dead_seek _ _ _ _ hd hs
          obtain ⟨h1, h2, h3⟩ := hgood
          simp only at hw
          have hq : q = target := by omega
          refine ⟨.live s', ?_, .inl h1, ?_⟩
          · rw [seek_live_end hs, hq]
          · show min (abs s') data.length = target
            omega
  · intro t n hinv
    cases t with
    | dead c =>
      obtain ⟨c', out, hr, hi, h1, h2, h3, h4⟩ := (Cur.isCursor data).read_ok c n hinv
      exact ⟨.dead c', out, by show ofCur (Stream.read c n) = _; rw [hr]; rfl, hi, h1, h2, h3, h4⟩
    | live s =>
      cases hr : Stream.read s n with
      | error e =>
        obtain ⟨c', out, hr', hi, h1, h2, h3, h4⟩ :=
          (Cur.isCursor data).read_ok (fb abs data s) n (fb_inv s)
        refine ⟨.dead c', out, ?_, hi, h1, h2, h3, h4⟩
        show (match Stream.read s n with
          | .ok (s', out) => (.ok (Tot.live s', out) : Except Err (Tot σ abs data × Bytes))
          | .error _ => ofCur (Stream.read (fb abs data s) n)) = _
        rw [hr, hr']; rfl
      | ok p =>
        obtain ⟨s', out⟩ := p
        have hi : Inv s := by
          rcases hinv with hi | hd
          · exact hi
          · obtain ⟨e, he⟩ := hD.dead_read s n hd
            rw [he] at hr; cases hr
        obtain ⟨hi', hout, hle, hpos, ha'⟩ := hP.read_sound _ _ _ _ hi hr
        have hol : out.length ≤ data.length - abs s := by
          have := congrArg List.length hout
          simp only [List.length_take, List.length_drop] at this
          omega
        refine ⟨.live s', out, read_live hr, .inl hi', ?_, hle, ?_, ?_⟩
        · show out = (data.drop (min (abs s) data.length)).take out.length
          by_cases hlt : abs s ≤ data.length
          · rw [Nat.min_eq_left hlt]; exact hout
          · have h0 : out.length = 0 := by omega
            rw [h0]; simp [List.length_eq_zero_iff.1 h0]
        · intro hn hlt
          apply hpos hn
          have : min (abs s) data.length < data.length := hlt
          omega
        · show min (abs s') data.length = min (abs s) data.length + out.length
          omega

/-! ### whatever succeeds over `σ` computes the same over `Tot σ` -/

theorem readUpTo_live : ∀ (fuel : Nat) (s s' : σ) (limit : Nat) (b : Bytes),
    readUpTo fuel s limit = .ok (s', b) →
    readUpTo fuel (Tot.live s : Tot σ abs data) limit = .ok (.live s', b) := by
  intro fuel
  induction fuel with
  | zero =>
    intro s s' limit b h
    simp only [readUpTo, Except.ok.injEq, Prod.mk.injEq] at h
    obtain ⟨rfl, rfl⟩ := h
    rfl
  | succ fuel ih =>
    intro s s' limit b h
    unfold readUpTo at h ⊢
    by_cases hl : limit = 0
    · simp only [hl, if_true, Except.ok.injEq, Prod.mk.injEq] at h ⊢
      obtain ⟨rfl, rfl⟩ := h
      exact ⟨rfl, rfl⟩
    · simp only [hl, if_false] at h ⊢
      cases hr : Stream.read s limit with
      | error e => rw [hr] at h; cases h
      | ok p =>
        obtain ⟨s1, out⟩ := p
        rw [hr] at h
        rw [read_live hr]
        simp only at h ⊢
        by_cases ho : out = []
        · simp only [ho, if_true, Except.ok.injEq, Prod.mk.injEq] at h ⊢
          obtain ⟨rfl, rfl⟩ := h
          exact ⟨rfl, rfl⟩
        · simp only [ho, if_false] at h ⊢
          cases hr2 : readUpTo fuel s1 (limit - out.length) with
          | error e => rw [hr2] at h; cases h
          | ok p2 =>
            obtain ⟨s2, rest⟩ := p2
            rw [hr2] at h
            rw [ih _ _ _ _ hr2]
            simp only [Except.ok.injEq, Prod.mk.injEq] at h ⊢
            obtain ⟨rfl, rfl⟩ := h
            exact ⟨rfl, rfl⟩

theorem readExactS_live {s s' : σ} {n : Nat} {b : Bytes} (h : readExactS s n = .ok (s', b)) :
    readExactS (Tot.live s : Tot σ abs data) n = .ok (.live s', b) := by
  unfold readExactS at h ⊢
  cases hr : readUpTo (n + 1) s n with
  | error e => rw [hr] at h; cases h
  | ok p =>
    obtain ⟨s1, b1⟩ := p
    rw [hr] at h
    rw [readUpTo_live _ _ _ _ _ hr]
    simp only at h ⊢
    by_cases hl : b1.length < n
    · simp [hl] at h
    · simp only [hl, if_false, Except.ok.injEq, Prod.mk.injEq] at h ⊢
      obtain ⟨rfl, rfl⟩ := h
      exact ⟨rfl, rfl⟩

theorem decodeS_live {P : Params} {utf8 : Bytes → Bool} {s s' : σ} {hd : Hdr}
    (h : Hdr.decodeS P utf8 s = .ok (s', hd)) :
    Hdr.decodeS P utf8 (Tot.live s : Tot σ abs data) = .ok (.live s', hd) := by
  unfold Hdr.decodeS at h ⊢
  cases h1 : readExactS s 1 with
  | error e => rw [h1] at h; cases h
  | ok p1 =>
    obtain ⟨s1, tb⟩ := p1
    rw [h1] at h; rw [readExactS_live h1]
    simp only at h ⊢
    by_cases ht1 : tb.headD 0 = tStart
    · simp only [ht1, if_true] at h ⊢
      cases h2 : readExactS s1 8 with
      | error e => rw [h2] at h; cases h
      | ok p2 =>
        obtain ⟨s2, idb⟩ := p2
        rw [h2] at h; rw [readExactS_live h2]
        simp only at h ⊢
        cases h3 : readExactS s2 8 with
        | error e => rw [h3] at h; cases h
        | ok p3 =>
          obtain ⟨s3, lb⟩ := p3
          rw [h3] at h; rw [readExactS_live h3]
          simp only at h ⊢
          by_cases hnm : P.nameMax < unle lb
          · rw [if_pos hnm] at h; cases h
          · simp only [hnm, if_false] at h ⊢
            cases h4 : readExactS s3 (unle lb) with
            | error e => rw [h4] at h; cases h
            | ok p4 =>
              obtain ⟨s4, name⟩ := p4
              rw [h4] at h; rw [readExactS_live h4]
              simp only at h ⊢
              by_cases hu : utf8 name = true
              · simp only [hu, if_true, Except.ok.injEq, Prod.mk.injEq] at h ⊢
                obtain ⟨rfl, rfl⟩ := h
                exact ⟨rfl, rfl⟩
              · rw [if_neg hu] at h; cases h
    · simp only [ht1, if_false] at h ⊢
      by_cases ht2 : tb.headD 0 = tContent
      · simp only [ht2, if_true] at h ⊢
        cases h2 : readExactS s1 8 with
        | error e => rw [h2] at h; cases h
        | ok p2 =>
          obtain ⟨s2, idb⟩ := p2
          rw [h2] at h; rw [readExactS_live h2]
          simp only at h ⊢
          cases h3 : readExactS s2 8 with
          | error e => rw [h3] at h; cases h
          | ok p3 =>
            obtain ⟨s3, lb⟩ := p3
            rw [h3] at h; rw [readExactS_live h3]
            simp only [Except.ok.injEq, Prod.mk.injEq] at h ⊢
            obtain ⟨rfl, rfl⟩ := h
            exact ⟨rfl, rfl⟩
      · simp only [ht2, if_false] at h ⊢
        by_cases ht3 : tb.headD 0 = tEof
        · simp only [ht3, if_true] at h ⊢
          cases h2 : readExactS s1 8 with
          | error e => rw [h2] at h; cases h
          | ok p2 =>
            obtain ⟨s2, idb⟩ := p2
            rw [h2] at h; rw [readExactS_live h2]
            simp only at h ⊢
            cases h3 : readExactS s2 hashLen with
            | error e => rw [h3] at h; cases h
            | ok p3 =>
              obtain ⟨s3, hb⟩ := p3
              rw [h3] at h; rw [readExactS_live h3]
              simp only [Except.ok.injEq, Prod.mk.injEq] at h ⊢
              obtain ⟨rfl, rfl⟩ := h
              exact ⟨rfl, rfl⟩
        · simp only [ht3, if_false] at h ⊢
          by_cases ht4 : tb.headD 0 = tEoad
          · simp only [ht4, if_true, Except.ok.injEq, Prod.mk.injEq] at h ⊢
            obtain ⟨rfl, rfl⟩ := h
            exact ⟨rfl, rfl⟩
          · rw [if_neg ht4] at h; cases h

/-- a handle over `σ`, seen over the totalisation -/
def liftB (abs : σ → Nat) (data : Bytes) (b : BtfS σ) : BtfS (Tot σ abs data) :=
  ⟨.live b.src, b.st, b.id, b.curOff, b.offsets⟩

theorem new_live {P : Params} {utf8 : Bytes → Bool} {src : σ} {offs : List Nat} {b : BtfS σ}
    (h : BtfS.new P utf8 src offs = .ok b) :
    BtfS.new P utf8 (Tot.live src : Tot σ abs data) offs = .ok (liftB abs data b) := by
  unfold BtfS.new at h ⊢
  cases offs with
  | nil => cases h
  | cons o rest =>
    simp only at h ⊢
    cases hs : Stream.seek src (.start o) with
    | error e => rw [hs] at h; cases h
    | ok p =>
      obtain ⟨s1, q⟩ := p
      rw [hs] at h; rw [seek_live_start hs]
      simp only at h ⊢
      cases hd : Hdr.decodeS P utf8 s1 with
      | error e => rw [hd] at h; cases h
      | ok p2 =>
        obtain ⟨s2, hdr⟩ := p2
        rw [hd] at h; rw [decodeS_live hd]
        cases hdr with
        | start id nm =>
          simp only [Except.ok.injEq] at h ⊢
          subst h; rfl
        | content id len => cases h
        | eof id hh => cases h
        | eoad => cases h

theorem readAux_live {P : Params} {utf8 : Bytes → Bool} (n : Nat) : ∀ (fuel : Nat) (b b' : BtfS σ)
    (out : Bytes), BtfS.readAux P utf8 n fuel b = .ok (b', out) →
    BtfS.readAux P utf8 n fuel (liftB abs data b) = .ok (liftB abs data b', out) := by
  intro fuel
  induction fuel with
  | zero => intro b b' out h; cases h
  | succ fuel ih =>
    intro b b' out h
    obtain ⟨src, st, id, co, offs⟩ := b
    cases st with
    | finish =>
      simp only [BtfS.readAux, Except.ok.injEq, Prod.mk.injEq] at h
      obtain ⟨rfl, rfl⟩ := h
      simp [BtfS.readAux, liftB]
    | inFile rem =>
      simp only [BtfS.readAux] at h
      cases hr : Stream.read src (min rem n) with
      | error e => rw [hr] at h; cases h
      | ok p =>
        obtain ⟨s1, o1⟩ := p
        rw [hr] at h
        simp only [Except.ok.injEq, Prod.mk.injEq] at h
        obtain ⟨rfl, rfl⟩ := h
        simp only [BtfS.readAux, liftB, read_live hr]
    | ready =>
      simp only [BtfS.readAux] at h
      cases hd : Hdr.decodeS P utf8 src with
      | error e => rw [hd] at h; cases h
      | ok p =>
        obtain ⟨s1, hdr⟩ := p
        rw [hd] at h
        simp only [BtfS.readAux, liftB, decodeS_live hd]
        cases hdr with
        | eoad => cases h
        | start k nm =>
          simp only at h ⊢
          by_cases hk : k = id
          · simp only [hk, ne_eq, not_true_eq_false, if_false] at h; cases h
          · simp only [hk, ne_eq, not_false_eq_true, if_true] at h ⊢
            cases ho : offs[co + 1]? with
            | none => simp only [ho] at h; cases h
            | some o =>
              simp only [ho] at h ⊢
              cases hs : Stream.seek s1 (.start o) with
              | error e => rw [hs] at h; cases h
              | ok p =>
                obtain ⟨s2, q⟩ := p
                rw [hs] at h; rw [seek_live_start hs]
                exact ih _ _ _ h
        | eof k hh =>
          simp only at h ⊢
          by_cases hk : k = id
          · simp only [hk, ne_eq, not_true_eq_false, if_false, Except.ok.injEq, Prod.mk.injEq] at h ⊢
            obtain ⟨rfl, rfl⟩ := h
            exact ⟨rfl, rfl⟩
          · simp only [hk, ne_eq, not_false_eq_true, if_true] at h ⊢
            cases ho : offs[co + 1]? with
            | none => simp only [ho] at h; cases h
            | some o =>
              simp only [ho] at h ⊢
              cases hs : Stream.seek s1 (.start o) with
              | error e => rw [hs] at h; cases h
              | ok p =>
                obtain ⟨s2, q⟩ := p
                rw [hs] at h; rw [seek_live_start hs]
                exact ih _ _ _ h
        | content k len =>
          simp only at h ⊢
          by_cases hk : k = id
          · simp only [hk, ne_eq, not_true_eq_false, if_false] at h ⊢
            cases hr : Stream.read s1 (min len n) with
            | error e => rw [hr] at h; cases h
            | ok p =>
              obtain ⟨s2, o1⟩ := p
              rw [hr] at h
              simp only [Except.ok.injEq, Prod.mk.injEq] at h
              obtain ⟨rfl, rfl⟩ := h
              simp only [read_live hr]
          · simp only [hk, ne_eq, not_false_eq_true, if_true] at h ⊢
            cases ho : offs[co + 1]? with
            | none => simp only [ho] at h; cases h
            | some o =>
              simp only [ho] at h ⊢
              cases hs : Stream.seek s1 (.start o) with
              | error e => rw [hs] at h; cases h
              | ok p =>
                obtain ⟨s2, q⟩ := p
                rw [hs] at h; rw [seek_live_start hs]
                exact ih _ _ _ h

theorem btfRead_live {P : Params} {utf8 : Bytes → Bool} {b b' : BtfS σ} {n : Nat} {out : Bytes}
    (h : BtfS.read P utf8 b n = .ok (b', out)) :
    BtfS.read P utf8 (liftB abs data b) n = .ok (liftB abs data b', out) :=
  readAux_live n _ _ _ _ h

theorem parseFooterS_live {utf8 : Bytes → Bool} {s s' : σ} {ix : Index}
    (h : parseFooterS utf8 s = (s', .ok ix)) :
    parseFooterS utf8 (Tot.live s : Tot σ abs data) = (.live s', .ok ix) := by
  unfold parseFooterS at h ⊢
  cases h1 : Stream.seek s (.fromEnd (-4)) with
  | error e => rw [h1] at h; simp at h
  | ok p1 =>
    obtain ⟨s1, pos⟩ := p1
    rw [h1] at h; rw [seek_live_end h1]
    simp only at h ⊢
    cases h2 : readExactS s1 4 with
    | error e => rw [h2] at h; simp at h
    | ok p2 =>
      obtain ⟨s2, lb⟩ := p2
      rw [h2] at h; rw [readExactS_live h2]
      simp only at h ⊢
      by_cases hl : pos < unle lb
      · rw [if_pos hl] at h; simp at h
      · rw [if_neg hl] at h ⊢
        cases h3 : Stream.seek s2 (.start (pos - unle lb)) with
        | error e => rw [h3] at h; simp at h
        | ok p3 =>
          obtain ⟨s3, q3⟩ := p3
          rw [h3] at h; rw [seek_live_start h3]
          simp only at h ⊢
          cases h4 : readUpTo (unle lb + 1) s3 (unle lb) with
          | error e => rw [h4] at h; simp at h
          | ok p4 =>
            obtain ⟨s4, body⟩ := p4
            rw [h4] at h; rw [readUpTo_live _ _ _ _ _ h4]
            simp only at h ⊢
            cases h5 : deU64 body with
            | error e => rw [h5] at h; simp at h
            | ok p5 =>
              obtain ⟨n, r⟩ := p5
              rw [h5] at h
              simp only at h ⊢
              by_cases h32 : r.length < 32 * n
              · rw [if_pos h32] at h; simp at h
              · rw [if_neg h32] at h ⊢
                simp only [Prod.mk.injEq] at h ⊢
                exact ⟨by rw [h.1], h.2⟩

/-! ### a dead stream under an unfinished handle: every read of the handle errs -/

theorem btfRead_dead (hD : IsDead Inv abs data Dead) {P : Params} {utf8 : Bytes → Bool} (src : σ)
    (st : BtfSt) (id co : Nat) (offs : List Nat) (n : Nat) (hd : Dead src) (hst : st ≠ .finish) :
    ∃ e, BtfS.read P utf8 ⟨src, st, id, co, offs⟩ n = .error e := by
  unfold BtfS.read
  cases st with
  | finish => exact absurd rfl hst
  | inFile rem =>
    obtain ⟨e, he⟩ := hD.dead_read src (min rem n) hd
    exact ⟨e, by simp [BtfS.readAux, he]⟩
  | ready =>
    obtain ⟨e, he⟩ := hD.dead_read src 1 hd
    refine ⟨e, ?_⟩
    have : Hdr.decodeS P utf8 src = .error e := by
      simp [Hdr.decodeS, readExactS, readUpTo, he]
    simp [BtfS.readAux, this]

/-! ### the archive reader over `σ` and over `Tot σ` -/

/-- a reader state over `σ`, seen over the totalisation -/
def liftA (abs : σ → Nat) (data : Bytes) (a : ArS σ) : ArS (Tot σ abs data) :=
  ⟨.live a.src, a.ix, a.handle⟩

/-- **an operation that does not answer an error computes the same over the totalisation** -/
theorem step_live {P : Params} {utf8 : Bytes → Bool} (a : ArS σ) (op : ROp)
    (hne : ∀ e, (ArS.step P utf8 a op).2 ≠ .err e) :
    ArS.step P utf8 (liftA abs data a) op =
      (liftA abs data (ArS.step P utf8 a op).1, (ArS.step P utf8 a op).2) := by
  cases op with
  | list => rfl
  | drop => rfl
  | getSize name =>
    simp only [ArS.step, liftA]
    cases a.ix.find name <;> rfl
  | getHash name =>
    simp only [ArS.step, liftA] at hne ⊢
    cases hf : a.ix.find name with
    | none => rfl
    | some fi =>
      simp only [hf] at hne ⊢
      cases hs : Stream.seek a.src (.start fi.eof) with
      | error e => simp only [hs] at hne; exact absurd rfl (hne e)
      | ok p =>
        obtain ⟨s1, q⟩ := p
        simp only [hs] at hne ⊢
        rw [seek_live_start hs]
        simp only
        cases hd : Hdr.decodeS P utf8 s1 with
        | error e => simp only [hd] at hne; exact absurd rfl (hne e)
        | ok p2 =>
          obtain ⟨s2, hdr⟩ := p2
          simp only [hd] at hne ⊢
          rw [decodeS_live hd]
          cases hdr with
          | eof k hh => rfl
          | start k nm => exact absurd rfl (hne .state)
          | content k len => exact absurd rfl (hne .state)
          | eoad => exact absurd rfl (hne .state)
  | getFile name =>
    simp only [ArS.step, liftA] at hne ⊢
    cases hf : a.ix.find name with
    | none => rfl
    | some fi =>
      simp only [hf] at hne ⊢
      cases hn : BtfS.new P utf8 a.src fi.offsets with
      | error e => simp only [hn] at hne; exact absurd rfl (hne e)
      | ok b =>
        simp only
        rw [new_live hn]
        rfl
  | read n =>
    obtain ⟨src, ix, handle⟩ := a
    simp only [ArS.step, liftA] at hne ⊢
    cases handle with
    | none => rfl
    | some hd =>
      obtain ⟨st, id, co, offs⟩ := hd
      simp only at hne ⊢
      cases hr : BtfS.read P utf8 ⟨src, st, id, co, offs⟩ n with
      | error e => simp only [hr] at hne; exact absurd rfl (hne e)
      | ok p =>
        obtain ⟨b, out⟩ := p
        simp only
        have := btfRead_live (abs := abs) (data := data) hr
        simp only [liftB] at this
        rw [this]

/-- **an operation that answers an error**: the stream is still in a good (or dead) state, the index
    is untouched; a failed `read` changes nothing at all, any other failed operation has ended the
    handle. -/
theorem step_err (hP : IsSoundPartial Inv abs data) (hD : IsDead Inv abs data Dead) {P : Params}
    {utf8 : Bytes → Bool} (a : ArS σ) (op : ROp) (e : Err) (hinv : Inv a.src ∨ Dead a.src)
    (h : (ArS.step P utf8 a op).2 = .err e) :
    (Inv (ArS.step P utf8 a op).1.src ∨ Dead (ArS.step P utf8 a op).1.src) ∧
    (ArS.step P utf8 a op).1.ix = a.ix ∧
    ((∃ n, op = .read n ∧ (ArS.step P utf8 a op).1 = a) ∨
      ((∀ n, op ≠ .read n) ∧ (ArS.step P utf8 a op).1.handle = none)) := by
  have hT := isCursor hP hD
  cases op with
  | list => simp [ArS.step] at h
  | drop => simp [ArS.step] at h
  | getSize name =>
    simp only [ArS.step] at h
    cases hf : a.ix.find name <;> simp [hf] at h
  | getHash name =>
    simp only [ArS.step] at h ⊢
    cases hf : a.ix.find name with
    | none => simp [hf] at h
    | some fi =>
      simp only [hf] at h ⊢
      cases hs : Stream.seek a.src (.start fi.eof) with
      | error e' => exact ⟨hinv, rfl, .inr ⟨fun n => by simp, rfl⟩⟩
      | ok p =>
        obtain ⟨s1, q⟩ := p
        simp only [hs] at h ⊢
        have hi1 : Inv s1 := by
          rcases hinv with hi | hd
          · exact (hP.seek_sound _ _ _ _ hi hs).1
          · exact (hD.dead_seek _ _ _ _ hd hs).1
        cases hd : Hdr.decodeS P utf8 s1 with
        | error e' => exact ⟨.inl hi1, rfl, .inr ⟨fun n => by simp, rfl⟩⟩
        | ok p2 =>
          obtain ⟨s2, hdr⟩ := p2
          have hsim := decodeS_sim hT P utf8 (Tot.live s1 : Tot σ abs data) _ ⟨.inl hi1, rfl⟩
          rw [decodeS_live hd] at hsim
          have hi2 : Inv s2 ∨ Dead s2 := by
            split at hsim
            · obtain ⟨t', ht', hs'⟩ := hsim
              simp only [Except.ok.injEq, Prod.mk.injEq] at ht'
              rw [← ht'.1] at hs'
              exact hs'.1
            · cases hsim
          cases hdr <;> exact ⟨hi2, rfl, .inr ⟨fun n => by simp, rfl⟩⟩
  | getFile name =>
    simp only [ArS.step] at h ⊢
    cases hf : a.ix.find name with
    | none => simp [hf] at h
    | some fi =>
      simp only [hf] at h ⊢
      cases hn : BtfS.new P utf8 a.src fi.offsets with
      | error e' => exact ⟨hinv, rfl, .inr ⟨fun n => by simp, rfl⟩⟩
      | ok b => simp [hn] at h
  | read n =>
    simp only [ArS.step] at h ⊢
    cases hh : a.handle with
    | none => simp [hh] at h
    | some hd =>
      obtain ⟨st, id, co, offs⟩ := hd
      simp only [hh] at h ⊢
      cases hr : BtfS.read P utf8 ⟨a.src, st, id, co, offs⟩ n with
      | error e' => exact ⟨hinv, rfl, .inl ⟨n, rfl, rfl⟩⟩
      | ok p => simp [hr] at h

end Tot

end MlaModel

/-
  Helper lemmas for C03 on the encryption layer: the normal reader over an ARBITRARY byte string
  `e` in place of the sealed stream.

  * `IsFullCursor`  — what the reader needs from the inner stream when the bytes are not the genuine
                      ones: seeks from the start to ANY offset (the reader computes offsets from the
                      requested position, and `e` may be shorter than the genuine stream) and the
                      end seek; reads as in `IsCursor`, nothing past the end.  `Cur` satisfies it.
  * `Unforged`      — the integrity hypothesis on `e`: every chunk slot of `e` that authenticates
                      under its own index holds the genuine sealed chunk of that index.
  * `TInv`          — the reader invariant that survives errors.
-/
import MlaModel.Proofs.EncryptReader
namespace MlaModel

/-- cursor-like stream over `data` with unrestricted forward seeks (`std::io::Cursor` semantics):
    the part of the interface the encryption reader uses. -/
structure IsFullCursor {σ : Type} [Stream σ] (Inv : σ → Prop) (abs : σ → Nat) (data : Bytes) : Prop where
  seek_start : ∀ s n, Inv s → ∃ s', Stream.seek s (.start n) = .ok (s', n) ∧ Inv s' ∧ abs s' = n
  seek_end : ∀ s, Inv s →
      ∃ s', Stream.seek s (.fromEnd 0) = .ok (s', data.length) ∧ Inv s' ∧ abs s' = data.length
  read_ok : ∀ s n, Inv s → ∃ s' out, Stream.read s n = .ok (s', out) ∧ Inv s' ∧
      out = (data.drop (abs s)).take out.length ∧ out.length ≤ n ∧
      (0 < n → abs s < data.length → 0 < out.length) ∧ abs s' = abs s + out.length

theorem Cur.isFullCursor (data : Bytes) :
    IsFullCursor (σ := Cur) (fun c => c.data = data) (·.pos) data := by
  refine ⟨?_, ?_, ?_⟩
  · intro s n hd
    exact ⟨{ s with pos := n }, rfl, hd, rfl⟩
  · intro s hd
    subst hd
    refine ⟨{ s with pos := s.data.length }, ?_, rfl, rfl⟩
    simp [Stream.seek]
  · intro s n hd
    subst hd
    refine ⟨_, _, rfl, rfl, ?_, ?_, ?_, rfl⟩
    · simp
    · simp; omega
    · intro hn hlt; simp; omega

/-- `take(limit).read_to_end` over a full cursor: the next `limit` bytes, or all that remain (nothing
    when the position is past the end) -/
theorem readUpTo_full {σ : Type} [Stream σ] {Inv : σ → Prop} {abs : σ → Nat} {data : Bytes}
    (hI : IsFullCursor Inv abs data) :
    ∀ (fuel : Nat) (s : σ) (limit : Nat), Inv s → limit < fuel →
      ∃ s', readUpTo fuel s limit = .ok (s', (data.drop (abs s)).take limit) ∧ Inv s' ∧
        abs s' = abs s + ((data.drop (abs s)).take limit).length := by
  intro fuel
  induction fuel with
  | zero => intro s limit _ h; omega
  | succ fuel ih =>
    intro s limit hs hf
    by_cases hl : limit = 0
    · subst hl
      exact ⟨s, by simp [readUpTo], hs, by simp⟩
    · obtain ⟨s1, out, hr, hs1, hout, hle, hpos, ha1⟩ := hI.read_ok s limit hs
      by_cases ho : out = []
      · subst ho
        have hend : ¬ (abs s < data.length) := by
          intro hlt
          have := hpos (by omega) hlt
          simp at this
        have hnil : (data.drop (abs s)).take limit = [] := by
          rw [List.drop_eq_nil_of_le (by omega)]; simp
        refine ⟨s1, ?_, hs1, ?_⟩
        · simp [readUpTo, hl, hr, hnil]
        · simp [hnil, ha1]
      · have hop : 0 < out.length := List.length_pos_iff.mpr ho
        obtain ⟨s2, hr2, hs2, ha2⟩ := ih s1 (limit - out.length) hs1 (by omega)
        refine ⟨s2, ?_, hs2, ?_⟩
        · simp only [readUpTo, hl, if_false, hr, ho, hr2]
          congr 2
          rw [ha1, hout]
          have h1 : (data.drop (abs s + ((data.drop (abs s)).take out.length).length))
              = (data.drop (abs s)).drop ((data.drop (abs s)).take out.length).length := by
            rw [List.drop_drop]
          generalize data.drop (abs s) = d at *
          have hlen : (d.take out.length).length = out.length := by rw [← hout]
          rw [h1, hlen]
          have : limit = out.length + (limit - out.length) := by omega
          conv => rhs; rw [this, List.take_add]
        · have hd1 : data.drop (abs s1) = (data.drop (abs s)).drop out.length := by
            rw [ha1, List.drop_drop]
          have hol : out.length ≤ (data.drop (abs s)).length := by
            have := congrArg List.length hout
            simp only [List.length_take] at this
            omega
          rw [ha2, hd1, ha1]
          simp only [List.length_take, List.length_drop] at hol ⊢
          omega

/-- chunk slot `k` of a byte string -/
def win (P : Params) (e : Bytes) (k : Nat) : Bytes :=
  (e.drop (k * (P.chunk + P.tagLen))).take (P.chunk + P.tagLen)

/-- the plaintext end position `seek(End)` derives from the length `L` of the inner stream -/
def endOf (P : Params) (L : Nat) : Nat :=
  if L % (P.chunk + P.tagLen) = 0 then L / (P.chunk + P.tagLen) * P.chunk
  else L / (P.chunk + P.tagLen) * P.chunk + L % (P.chunk + P.tagLen) - P.tagLen

/-- **Integrity hypothesis** on the bytes `e` presented in place of `sealS P C p`: a chunk slot of
    `e` that authenticates under its own index holds the genuine sealed chunk of that index.
    (What INT-CTXT of the AEAD gives for an adversary who saw `sealS P C p`: the adversary cannot
    produce any other `(index, ciphertext, tag)` that verifies.  Removing, truncating or damaging
    chunks is not excluded.) -/
def Unforged (P : Params) (C : EncPrims) (p e : Bytes) : Prop :=
  ∀ k pt, openChunk P C k (win P e k) = .ok pt → k ≤ nLast P p ∧ win P e k = scChunk P C p k


/-! ### which byte strings are `Unforged` -/

theorem openChunk_nil (P : Params) (C : EncPrims) (k : Nat) : openChunk P C k [] = .error .wrongTag := by
  have := P.htag
  simp [openChunk, this]

theorem win_nil_of_le (P : Params) (e : Bytes) (k : Nat)
    (h : e.length ≤ k * (P.chunk + P.tagLen)) : win P e k = [] := by
  rw [win, List.drop_eq_nil_of_le h]; simp

/-- the genuine stream is unforged -/
theorem unforged_sealS (P : Params) (C : EncPrims) (htag : ∀ i c, (C.tag i c).length = P.tagLen)
    (p : Bytes) : Unforged P C p (sealS P C p) := by
  intro k pt hop
  by_cases hk : k ≤ nLast P p
  · exact ⟨hk, sealS_chunk P C htag p k hk⟩
  · exfalso
    obtain ⟨h1, h2, h3⟩ := nLast_spec P p
    have hge : (nLast P p + 1) * (P.chunk + P.tagLen) ≤ k * (P.chunk + P.tagLen) :=
      Nat.mul_le_mul_right _ (by omega)
    have hlen := sealS_length P C htag p
    have : win P (sealS P C p) k = [] := by
      apply win_nil_of_le
      simp only [Nat.mul_add, Nat.add_mul] at hge hlen ⊢; omega
    rw [this, openChunk_nil] at hop
    cases hop

/-- slots of a stream cut at a slot boundary -/
theorem win_take (P : Params) (s : Bytes) (k j : Nat) :
    win P (s.take (k * (P.chunk + P.tagLen))) j = if j < k then win P s j else [] := by
  have hT : 0 < P.chunk + P.tagLen := by have := P.hchunk; omega
  simp only [win, List.drop_take, List.take_take]
  split
  · rename_i hjk
    have : (j + 1) * (P.chunk + P.tagLen) ≤ k * (P.chunk + P.tagLen) := Nat.mul_le_mul_right _ hjk
    rw [Nat.add_mul] at this
    congr 1; omega
  · rename_i hjk
    have : k * (P.chunk + P.tagLen) ≤ j * (P.chunk + P.tagLen) := Nat.mul_le_mul_right _ (by omega)
    have h0 : k * (P.chunk + P.tagLen) - j * (P.chunk + P.tagLen) = 0 := by omega
    rw [h0]; simp

/-- cutting at a slot boundary keeps a stream unforged: truncation is NOT excluded by the
    integrity hypothesis (known weakness D14) -/
theorem unforged_take (P : Params) (C : EncPrims) (p s : Bytes) (k : Nat)
    (h : Unforged P C p s) : Unforged P C p (s.take (k * (P.chunk + P.tagLen))) := by
  intro j pt hop
  rw [win_take] at hop ⊢
  split at hop
  · rename_i hjk; rw [if_pos hjk]; exact h j pt hop
  · rw [openChunk_nil] at hop; cases hop

/-- `Unforged` is decidable slot by slot: only the slots that start inside `e` matter -/
theorem unforged_of_check (P : Params) (C : EncPrims) (p e : Bytes)
    (h : ∀ k, k < e.length / (P.chunk + P.tagLen) + 1 →
      (match openChunk P C k (win P e k) with | .ok _ => true | .error _ => false) = true →
      k ≤ nLast P p ∧ win P e k = scChunk P C p k) : Unforged P C p e := by
  intro k pt hop
  have hT : 0 < P.chunk + P.tagLen := by have := P.hchunk; omega
  by_cases hk : k < e.length / (P.chunk + P.tagLen) + 1
  · exact h k hk (by rw [hop])
  · exfalso
    have h1 : e.length / (P.chunk + P.tagLen) + 1 ≤ k := by omega
    have h2 := Nat.mul_le_mul_right (P.chunk + P.tagLen) h1
    have h3 : e.length < e.length / (P.chunk + P.tagLen) * (P.chunk + P.tagLen) + (P.chunk + P.tagLen) :=
      Nat.lt_div_mul_add hT
    rw [Nat.add_mul] at h2
    rw [win_nil_of_le P e k (by omega), openChunk_nil] at hop
    cases hop

theorem endOf_mul (P : Params) (k : Nat) : endOf P (k * (P.chunk + P.tagLen)) = k * P.chunk := by
  have hT : 0 < P.chunk + P.tagLen := by have := P.hchunk; omega
  simp [endOf, Nat.mul_mod_left, Nat.mul_div_cancel _ hT]

/-- A genuine stream cut after `k ≥ 1` whole chunks IS the genuine stream of the first
    `k * chunk` plaintext bytes: at this layer a whole-chunk truncation is indistinguishable from
    a shorter archive (known weakness D14; with `C11.EncRd.isCursor` the reader over it is a
    perfect cursor over `p.take (k * chunk)`). -/
theorem sealS_take (P : Params) (C : EncPrims) (htag : ∀ i c, (C.tag i c).length = P.tagLen)
    (p : Bytes) (k : Nat) (hk1 : 1 ≤ k) (hk : k ≤ nLast P p) :
    (sealS P C p).take (k * (P.chunk + P.tagLen)) = sealS P C (p.take (k * P.chunk)) := by
  obtain ⟨j, rfl⟩ : ∃ j, k = j + 1 := ⟨k - 1, by omega⟩
  have hc := P.hchunk
  obtain ⟨h1, h2, h3⟩ := nLast_spec P p
  have hkc : (j + 1) * P.chunk ≤ nLast P p * P.chunk := Nat.mul_le_mul_right _ hk
  have hjc : (j + 1) * P.chunk = j * P.chunk + P.chunk := by rw [Nat.add_mul]; omega
  -- left-hand side
  obtain ⟨rest, hs, _⟩ := sealS_split P C p (j + 1) hk
  have hl := encFull_length P C htag (j + 1) 0 p (by omega)
  rw [hs, List.take_left' hl]
  -- right-hand side
  have hlen' : (p.take ((j + 1) * P.chunk)).length = (j + 1) * P.chunk := by
    rw [List.length_take]; omega
  have hn' : nLast P (p.take ((j + 1) * P.chunk)) = j := by
    unfold nLast
    rw [hlen', hjc]
    have : j * P.chunk + P.chunk - 1 = P.chunk * j + (P.chunk - 1) := by rw [Nat.mul_comm]; omega
    rw [this, Nat.mul_add_div hc, Nat.div_eq_of_lt (by omega)]; rfl
  obtain ⟨rest', hs', hr'⟩ := sealS_split P C (p.take ((j + 1) * P.chunk)) j (by omega)
  rw [hs', hr' hn'.symm, List.append_nil]
  have hcongr : encFull P C j 0 (p.take ((j + 1) * P.chunk)) = encFull P C j 0 p := by
    apply encFull_congr
    rw [List.take_take, Nat.min_eq_left (by omega)]
  have hpt : ptChunk P (p.take ((j + 1) * P.chunk)) j = ptChunk P p j := by
    simp only [ptChunk, List.drop_take, List.take_take]
    congr 1; omega
  rw [hcongr, encFull_succ_end]
  simp only [scChunk, hpt, Nat.zero_add]
  rfl

/-- The naive integrity statement "whatever `openChunk` accepts under index `i` is the genuine
    chunk `i`" is INCONSISTENT for a tag that is a total function of fixed output length: every
    `(i, ct)` has the accepted extension `ct ++ C.tag i ct`.  (INT-CTXT is about what an adversary
    can compute, not about which triples exist; hence `Unforged`, a hypothesis on the adversary's
    output `e`.) -/
theorem naive_intctxt_inconsistent (P : Params) (C : EncPrims)
    (htag : ∀ i c, (C.tag i c).length = P.tagLen) (p : Bytes) :
    ¬ (∀ i dt pt, openChunk P C i dt = .ok pt → i ≤ nLast P p ∧ dt = scChunk P C p i) := by
  intro h
  have h1 := (h 0 _ _ (openChunk_seal P C htag 0 [])).2
  have h2 := (h 0 _ _ (openChunk_seal P C htag 0 [0])).2
  have := congrArg List.length (h1.trans h2.symm)
  simp [htag] at this

/-- The reader invariant over arbitrary bytes `e` (kept by every call, failing or not).
    The cache is empty or the genuine plaintext of chunk `chunkNo`; when a full chunk is cached the
    inner stream sits right after its slot or past the end of `e`; a position at the end of the
    cache (`cpos = chunk`) with nothing cached occurs only in a `failed` state. -/
structure TInv {ι : Type} (P : Params) (p e : Bytes) (InvI : ι → Prop) (absI : ι → Nat)
    (r : EncR ι) : Prop where
  inner : InvI r.inner
  cpos : r.cpos ≤ P.chunk
  cache : r.cache = [] ∨ r.cache = (p.drop (r.chunkNo * P.chunk)).take P.chunk
  ipos : r.cache.length = P.chunk →
    absI r.inner = (r.chunkNo + 1) * (P.chunk + P.tagLen) ∨ e.length ≤ absI r.inner
  full : r.failed = false → r.cpos = P.chunk → r.cache.length = P.chunk

section FromCache
variable {ι : Type} (P : Params) (p : Bytes)

@[simp] theorem EncR.fromCache_inner (r : EncR ι) (n : Nat) : (EncR.fromCache P r n).1.inner = r.inner := rfl
@[simp] theorem EncR.fromCache_cache (r : EncR ι) (n : Nat) : (EncR.fromCache P r n).1.cache = r.cache := rfl
@[simp] theorem EncR.fromCache_chunkNo (r : EncR ι) (n : Nat) :
    (EncR.fromCache P r n).1.chunkNo = r.chunkNo := rfl
@[simp] theorem EncR.fromCache_failed (r : EncR ι) (n : Nat) :
    (EncR.fromCache P r n).1.failed = r.failed := rfl
@[simp] theorem EncR.fromCache_cpos (r : EncR ι) (n : Nat) :
    (EncR.fromCache P r n).1.cpos = r.cpos + (EncR.fromCache P r n).2.length := rfl

/-- what comes out of the cache is genuine plaintext at the reader's position -/
theorem EncR.fromCache_sound (r : EncR ι) (n : Nat)
    (hcache : r.cache = [] ∨ r.cache = (p.drop (r.chunkNo * P.chunk)).take P.chunk) :
    (EncR.fromCache P r n).2 =
      (p.drop (r.chunkNo * P.chunk + r.cpos)).take (EncR.fromCache P r n).2.length ∧
    (EncR.fromCache P r n).2.length ≤ n ∧
    (EncR.fromCache P r n).2.length ≤ P.chunk - r.cpos ∧
    ((EncR.fromCache P r n).2.length = 0 ∨
      r.cpos + (EncR.fromCache P r n).2.length ≤ r.cache.length) ∧
    r.cache.length ≤ P.chunk := by
  rcases hcache with hc | hc
  · have : (EncR.fromCache P r n).2 = [] := by simp [EncR.fromCache, hc]
    rw [this, hc]; simp
  · have hout : (EncR.fromCache P r n).2 =
        (p.drop (r.chunkNo * P.chunk + r.cpos)).take (min (P.chunk - r.cpos) n) := by
      simp only [EncR.fromCache, hc, List.drop_take, List.drop_drop, List.take_take]
      congr 1; omega
    have hlen : (EncR.fromCache P r n).2.length =
        min (min (P.chunk - r.cpos) n) (p.length - (r.chunkNo * P.chunk + r.cpos)) := by
      rw [hout]; simp
    have hcl : r.cache.length = min P.chunk (p.length - r.chunkNo * P.chunk) := by
      rw [hc]; simp
    refine ⟨?_, ?_, ?_, ?_, ?_⟩
    · rw [hout]; exact take_eq_take_length _ _
    · rw [hlen]; omega
    · rw [hlen]; omega
    · rw [hlen, hcl]; omega
    · rw [hcl]; omega

end FromCache

section Tamper
variable {ι : Type} [Stream ι] (P : Params) (C : EncPrims)
  (htag : ∀ i c, (C.tag i c).length = P.tagLen)
  {InvI : ι → Prop} {absI : ι → Nat} (p e : Bytes)
  (hF : IsFullCursor InvI absI e) (hU : Unforged P C p e)
include htag hF hU

/-- `load` over arbitrary bytes, the inner stream at slot `chunkNo` or past the end: nothing left
    (`.ok false`), or an error with the cache cleared, or the GENUINE chunk `chunkNo` cached. -/
theorem EncR.load_tamper (r : EncR ι) (hin : InvI r.inner)
    (hpos : absI r.inner = r.chunkNo * (P.chunk + P.tagLen) ∨ e.length ≤ absI r.inner) :
    ∃ i, InvI i ∧
      (EncR.load P C r = ({ r with inner := i, cache := [], cpos := 0 }, .ok false) ∨
       (∃ er, EncR.load P C r = ({ r with inner := i, cache := [] }, .error er)) ∨
       (EncR.load P C r =
          ({ r with inner := i, cache := ptChunk P p r.chunkNo, cpos := 0 }, .ok true) ∧
        ((ptChunk P p r.chunkNo).length = P.chunk →
          absI i = (r.chunkNo + 1) * (P.chunk + P.tagLen)))) := by
  obtain ⟨i, hr, hi, ha⟩ := readUpTo_full hF (P.chunk + P.tagLen + 1) r.inner (P.chunk + P.tagLen)
    hin (by omega)
  refine ⟨i, hi, ?_⟩
  by_cases hz : ((e.drop (absI r.inner)).take (P.chunk + P.tagLen)).length = 0
  · left
    unfold EncR.load
    rw [hr]
    simp only [hz, if_true]
  · right
    have hlt : ¬ (e.length ≤ absI r.inner) := by
      intro hle; apply hz; rw [List.drop_eq_nil_of_le hle]; simp
    have hk : absI r.inner = r.chunkNo * (P.chunk + P.tagLen) := by
      rcases hpos with h | h
      · exact h
      · exact absurd h hlt
    have hw : (e.drop (absI r.inner)).take (P.chunk + P.tagLen) = win P e r.chunkNo := by
      rw [hk]; rfl
    rw [hw] at hr ha hz
    cases hop : openChunk P C r.chunkNo (win P e r.chunkNo) with
    | error er =>
      left
      refine ⟨er, ?_⟩
      unfold EncR.load
      rw [hr]
      simp only [hz, if_false, hop]
    | ok pt =>
      right
      obtain ⟨hkn, hsc⟩ := hU r.chunkNo pt hop
      have hpt : pt = ptChunk P p r.chunkNo := by
        rw [hsc, openChunk_scChunk P C htag] at hop
        exact (Except.ok.inj hop).symm
      subst hpt
      refine ⟨?_, ?_⟩
      · unfold EncR.load
        rw [hr]
        simp only [hz, if_false, hop]
      · intro hfull
        rw [ha, hk, hsc, scChunk_length P C htag, ← ptChunk_length, hfull, Nat.add_mul]
        omega


/-- `readFull` over arbitrary bytes: the invariant is kept; an answer `.ok out` comes from a
    non-failed state, leaves a non-failed state, `out` is genuine plaintext at the position before
    the call and the position advances by `|out|`; an error leaves a failed state. -/
theorem EncR.readFull_tamper (r : EncR ι) (n : Nat) (h : TInv P p e InvI absI r) :
    TInv P p e InvI absI (EncR.readFull P C r n).1 ∧
    (∀ out, (EncR.readFull P C r n).2 = .ok out →
      r.failed = false ∧ (EncR.readFull P C r n).1.failed = false ∧
      out = (p.drop (r.chunkNo * P.chunk + r.cpos)).take out.length ∧
      (EncR.readFull P C r n).1.chunkNo * P.chunk + (EncR.readFull P C r n).1.cpos =
        r.chunkNo * P.chunk + r.cpos + out.length ∧
      out.length ≤ n) ∧
    (∀ er, (EncR.readFull P C r n).2 = .error er → (EncR.readFull P C r n).1.failed = true) := by
  have hc := P.hchunk
  obtain ⟨hin, hcp, hcache, hipos, hfull⟩ := h
  cases hf : r.failed with
  | true =>
    have hrf : EncR.readFull P C r n = (r, .error .wrongTag) := by simp [EncR.readFull, hf]
    rw [hrf]
    exact ⟨⟨hin, hcp, hcache, hipos, hfull⟩, fun out ho => by simp at ho, fun _ _ => hf⟩
  | false =>
    have hnf : ¬ (r.failed = true) := by rw [hf]; simp
    by_cases hz : P.chunk - r.cpos = 0
    · have hcpe : r.cpos = P.chunk := by omega
      have hcl := hfull hf hcpe
      obtain ⟨i, hi, hl⟩ := EncR.load_tamper P C htag p e hF hU { r with chunkNo := r.chunkNo + 1 }
        hin (hipos hcl)
      rcases hl with hl | ⟨er, hl⟩ | ⟨hl, hip⟩
      · have hrf : EncR.readFull P C r n =
            ({ r with chunkNo := r.chunkNo + 1, inner := i, cache := [], cpos := 0 }, .ok []) := by
          unfold EncR.readFull
          rw [if_neg hnf, if_pos hz, hl]
        rw [hrf]
        refine ⟨⟨hi, Nat.zero_le _, .inl rfl, ?_, ?_⟩, ?_, fun er he => by simp at he⟩
        · intro h0; simp at h0; omega
        · intro _ h0; simp at h0; omega
        · intro out ho
          have : out = [] := by simpa using ho.symm
          subst this
          refine ⟨rfl, hf, by simp, ?_, by simp⟩
          simp only [List.length_nil, Nat.add_mul]; omega
      · have hrf : EncR.readFull P C r n =
            ({ r with chunkNo := r.chunkNo + 1, inner := i, cache := [], failed := true },
              .error er) := by
          unfold EncR.readFull
          rw [if_neg hnf, if_pos hz, hl]
        rw [hrf]
        refine ⟨⟨hi, hcp, .inl rfl, ?_, ?_⟩, fun out ho => by simp at ho, fun _ _ => rfl⟩
        · intro h0; simp at h0; omega
        · intro h0; simp at h0
      · simp only at hip
        obtain ⟨r2, hr2⟩ : ∃ r2 : EncR ι,
            EncR.mk i (ptChunk P p (r.chunkNo + 1)) 0 (r.chunkNo + 1) r.failed = r2 := ⟨_, rfl⟩
        have hrf : EncR.readFull P C r n =
            ((EncR.fromCache P r2 n).1, .ok (EncR.fromCache P r2 n).2) := by
          unfold EncR.readFull
          rw [if_neg hnf, if_pos hz, hl, ← hr2]
        have e1 : r2.inner = i := by rw [← hr2]
        have e2 : r2.cache = ptChunk P p (r.chunkNo + 1) := by rw [← hr2]
        have e3 : r2.cpos = 0 := by rw [← hr2]
        have e4 : r2.chunkNo = r.chunkNo + 1 := by rw [← hr2]
        have e5 : r2.failed = false := by rw [← hr2]; exact hf
        obtain ⟨s1, s2, s3, s4, s5⟩ := EncR.fromCache_sound P p r2 n (by rw [e2, e4]; exact .inr rfl)
        rw [hrf]
        refine ⟨⟨?_, ?_, ?_, ?_, ?_⟩, ?_, fun er he => by simp at he⟩
        · simp only [EncR.fromCache_inner, e1]; exact hi
        · simp only [EncR.fromCache_cpos, e3]; omega
        · simp only [EncR.fromCache_cache, EncR.fromCache_chunkNo, e2, e4]; exact .inr rfl
        · simp only [EncR.fromCache_cache, EncR.fromCache_chunkNo, EncR.fromCache_inner, e1, e2, e4]
          intro h0; exact .inl (hip h0)
        · simp only [EncR.fromCache_cache, EncR.fromCache_cpos, e3]
          intro _ h0; omega
        · intro out ho
          have : out = (EncR.fromCache P r2 n).2 := by simpa using ho.symm
          subst this
          refine ⟨rfl, by simp [e5], ?_, ?_, s2⟩
          · rw [e4, e3] at s1
            have : (r.chunkNo + 1) * P.chunk + 0 = r.chunkNo * P.chunk + r.cpos := by
              rw [Nat.add_mul]; omega
            rw [← this]; exact s1
          · simp only [EncR.fromCache_chunkNo, EncR.fromCache_cpos, e3, e4, Nat.add_mul]; omega
    · have hrf : EncR.readFull P C r n =
          ((EncR.fromCache P r n).1, .ok (EncR.fromCache P r n).2) := by
        unfold EncR.readFull
        rw [if_neg hnf, if_neg hz]
      obtain ⟨s1, s2, s3, s4, s5⟩ := EncR.fromCache_sound P p r n hcache
      rw [hrf]
      refine ⟨⟨?_, ?_, ?_, ?_, ?_⟩, ?_, fun er he => by simp at he⟩
      · simpa using hin
      · simp only [EncR.fromCache_cpos]; omega
      · simpa using hcache
      · simpa using hipos
      · simp only [EncR.fromCache_cache, EncR.fromCache_cpos]
        intro _ h0; omega
      · intro out ho
        have : out = (EncR.fromCache P r n).2 := by simpa using ho.symm
        subst this
        refine ⟨rfl, by simpa using hf, s1, ?_, s2⟩
        simp only [EncR.fromCache_chunkNo, EncR.fromCache_cpos]; omega


/-- `seekStart` over arbitrary bytes (shorter than 2^32 chunk slots) -/
theorem EncR.seekStart_tamper (hsmall : e.length ≤ U32 * (P.chunk + P.tagLen))
    (r : EncR ι) (pos : Nat) (h : TInv P p e InvI absI r) :
    TInv P p e InvI absI (EncR.seekStart P C r pos).1 ∧
    (∀ q, (EncR.seekStart P C r pos).2 = .ok q → q = pos ∧
      (EncR.seekStart P C r pos).1.chunkNo * P.chunk + (EncR.seekStart P C r pos).1.cpos = pos ∧
      (EncR.seekStart P C r pos).1.failed = false) ∧
    (∀ er, (EncR.seekStart P C r pos).2 = .error er → r.failed = true →
      (EncR.seekStart P C r pos).1.failed = true) := by
  have hc := P.hchunk
  have ht := P.htag
  obtain ⟨hin, hcp, hcache, hipos, hfull⟩ := h
  have hT : 0 < P.chunk + P.tagLen := by omega
  have hrm : pos % P.chunk < P.chunk := Nat.mod_lt _ hc
  have hdm : pos / P.chunk * P.chunk + pos % P.chunk = pos := by
    rw [Nat.mul_comm]; exact Nat.div_add_mod pos P.chunk
  generalize hq : pos / P.chunk = q at *
  generalize hm : pos % P.chunk = rm at *
  have e1 : (q * (P.chunk + P.tagLen) + rm) / (P.chunk + P.tagLen) = q := by
    rw [Nat.mul_comm, Nat.mul_add_div hT, Nat.div_eq_of_lt (by omega)]; rfl
  have e2 : (q * (P.chunk + P.tagLen) + rm) % (P.chunk + P.tagLen) = rm := by
    rw [Nat.mul_comm, Nat.mul_add_mod, Nat.mod_eq_of_lt (by omega)]
  obtain ⟨i, hs, hi, ha⟩ := hF.seek_start r.inner (q * (P.chunk + P.tagLen)) hin
  by_cases hu : U32 ≤ q
  · have hrf : EncR.seekStart P C r pos = ({ r with inner := i }, .error .io) := by
      unfold EncR.seekStart
      simp only [hq, hm, e1, hs, if_pos hu]
    rw [hrf]
    refine ⟨⟨hi, hcp, hcache, fun _ => .inr ?_, hfull⟩, fun q' ho => by simp at ho, fun _ _ hf => hf⟩
    show e.length ≤ absI i
    have := Nat.mul_le_mul_right (P.chunk + P.tagLen) hu
    omega
  · obtain ⟨i', hi', hl⟩ := EncR.load_tamper P C htag p e hF hU { r with inner := i, chunkNo := q }
      hi (.inl ha)
    rcases hl with hl | ⟨er, hl⟩ | ⟨hl, hip⟩
    · have hrf : EncR.seekStart P C r pos =
          (⟨i', [], rm, q, false⟩, .ok pos) := by
        unfold EncR.seekStart
        simp only [hq, hm, e1, e2, hs, if_neg hu, hl]
      rw [hrf]
      refine ⟨⟨hi', Nat.le_of_lt hrm, .inl rfl, ?_, ?_⟩, fun q' ho => ⟨by simpa using ho.symm, hdm, rfl⟩,
        fun er he => by simp at he⟩
      · intro h0; simp at h0; omega
      · intro _ h0; simp at h0; omega
    · have hrf : EncR.seekStart P C r pos =
          (⟨i', [], r.cpos, q, true⟩, .error er) := by
        unfold EncR.seekStart
        simp only [hq, hm, e1, hs, if_neg hu, hl]
      rw [hrf]
      refine ⟨⟨hi', hcp, .inl rfl, ?_, ?_⟩, fun q' ho => by simp at ho, fun _ _ _ => rfl⟩
      · intro h0; simp at h0; omega
      · intro h0; simp at h0
    · have hrf : EncR.seekStart P C r pos =
          (⟨i', ptChunk P p q, rm, q, false⟩, .ok pos) := by
        unfold EncR.seekStart
        simp only [hq, hm, e1, e2, hs, if_neg hu, hl]
      rw [hrf]
      refine ⟨⟨hi', Nat.le_of_lt hrm, .inr rfl, fun h0 => .inl (hip h0), ?_⟩,
        fun q' ho => ⟨by simpa using ho.symm, hdm, rfl⟩, fun er he => by simp at he⟩
      intro _ h0; simp at h0; omega

/-- `seekFull` over arbitrary bytes: the invariant is kept; an answer `.ok q` means the new
    position is `q`, and `q` is the requested target (computed from the old position for
    `Current`, from the length of `e` for `End`); unless the call is the `Current(0)` query the
    state is no longer failed; a failing seek on a failed state leaves it failed. -/
theorem EncR.seekFull_tamper (hsmall : e.length ≤ U32 * (P.chunk + P.tagLen))
    (r : EncR ι) (w : SeekFrom) (h : TInv P p e InvI absI r) :
    TInv P p e InvI absI (EncR.seekFull P C r w).1 ∧
    (∀ q, (EncR.seekFull P C r w).2 = .ok q →
      (EncR.seekFull P C r w).1.chunkNo * P.chunk + (EncR.seekFull P C r w).1.cpos = q ∧
      (match w with
       | .start n => q = n
       | .current d => (q : Int) = (r.chunkNo * P.chunk + r.cpos : Nat) + d
       | .fromEnd d => (q : Int) = (endOf P e.length : Nat) + d) ∧
      (w ≠ .current 0 → (EncR.seekFull P C r w).1.failed = false)) ∧
    (∀ er, (EncR.seekFull P C r w).2 = .error er → r.failed = true →
      (EncR.seekFull P C r w).1.failed = true) := by
  cases w with
  | start n =>
    obtain ⟨a, b, c⟩ := EncR.seekStart_tamper P C htag p e hF hU hsmall r n h
    refine ⟨a, fun q ho => ?_, c⟩
    obtain ⟨b1, b2, b3⟩ := b q ho
    exact ⟨by rw [b1]; exact b2, b1, fun _ => b3⟩
  | current d =>
    by_cases hd : d = 0
    · subst hd
      have hrf : EncR.seekFull P C r (.current 0) = (r, .ok (r.chunkNo * P.chunk + r.cpos)) := by
        simp [EncR.seekFull]
      rw [hrf]
      refine ⟨h, fun q ho => ?_, fun er he => by simp at he⟩
      have : q = r.chunkNo * P.chunk + r.cpos := by simpa using ho.symm
      subst this
      exact ⟨rfl, by simp, fun hne => absurd rfl hne⟩
    · by_cases hneg : ((r.chunkNo * P.chunk + r.cpos : Nat) : Int) + d < 0
      · have hrf : EncR.seekFull P C r (.current d) = (r, .error .io) := by
          simp only [EncR.seekFull, if_neg hd, if_pos hneg]
        rw [hrf]
        exact ⟨h, fun q ho => by simp at ho, fun _ _ hf => hf⟩
      · have hrf : EncR.seekFull P C r (.current d) =
            EncR.seekStart P C r (((r.chunkNo * P.chunk + r.cpos : Nat) : Int) + d).toNat := by
          simp only [EncR.seekFull, if_neg hd, if_neg hneg]
        rw [hrf]
        obtain ⟨a, b, c⟩ := EncR.seekStart_tamper P C htag p e hF hU hsmall r
          (((r.chunkNo * P.chunk + r.cpos : Nat) : Int) + d).toNat h
        refine ⟨a, fun q ho => ?_, c⟩
        obtain ⟨b1, b2, b3⟩ := b q ho
        refine ⟨by rw [b1]; exact b2, ?_, fun _ => b3⟩
        show (q : Int) = _
        rw [b1]; omega
  | fromEnd d =>
    obtain ⟨hin, hcp, hcache, hipos, hfull⟩ := h
    by_cases hd : 0 < d
    · have hrf : EncR.seekFull P C r (.fromEnd d) = (r, .error .endOfStream) := by
        simp only [EncR.seekFull, if_pos hd]
      rw [hrf]
      exact ⟨⟨hin, hcp, hcache, hipos, hfull⟩, fun q ho => by simp at ho, fun _ _ hf => hf⟩
    · obtain ⟨i, hs, hi, ha⟩ := hF.seek_end r.inner hin
      have hi' : TInv P p e InvI absI { r with inner := i } :=
        ⟨hi, hcp, hcache, fun _ => .inr (by show e.length ≤ absI i; omega), hfull⟩
      by_cases hrem : e.length % (P.chunk + P.tagLen) ≠ 0 ∧ e.length % (P.chunk + P.tagLen) < P.tagLen
      · have hrf : EncR.seekFull P C r (.fromEnd d) = ({ r with inner := i }, .error .io) := by
          simp only [EncR.seekFull, if_neg hd, hs, if_pos hrem]
        rw [hrf]
        exact ⟨hi', fun q ho => by simp at ho, fun _ _ hf => hf⟩
      · by_cases hneg : ((endOf P e.length : Nat) : Int) + d < 0
        · have hrf : EncR.seekFull P C r (.fromEnd d) = ({ r with inner := i }, .error .io) := by
            unfold endOf at hneg
            simp only [EncR.seekFull, if_neg hd, hs, if_neg hrem, if_pos hneg]
          rw [hrf]
          exact ⟨hi', fun q ho => by simp at ho, fun _ _ hf => hf⟩
        · have hrf : EncR.seekFull P C r (.fromEnd d) =
              EncR.seekStart P C { r with inner := i } (((endOf P e.length : Nat) : Int) + d).toNat := by
            unfold endOf at hneg ⊢
            simp only [EncR.seekFull, if_neg hd, hs, if_neg hrem, if_neg hneg]
          rw [hrf]
          obtain ⟨a, b, c⟩ := EncR.seekStart_tamper P C htag p e hF hU hsmall { r with inner := i }
            (((endOf P e.length : Nat) : Int) + d).toNat hi'
          refine ⟨a, fun q ho => ?_, c⟩
          obtain ⟨b1, b2, b3⟩ := b q ho
          refine ⟨by rw [b1]; exact b2, ?_, fun _ => b3⟩
          show (q : Int) = _
          rw [b1]; omega

end Tamper

end MlaModel

/-
  `linear_extract` over a cursor-like stream (`LinearS.loop` / `LinearS.run`, MlaModel/LinearS.lean)
  is `linear_extract` over the bytes the stream stands for (`Linear.loop` / `Linear.run`,
  MlaModel/Reader.lean):

    * `Linear.loop_fuel`  : the pure loop does not depend on its fuel once it exceeds the length of
                            the input (every iteration consumes the block-type byte);
    * `copyTakeS_sim`     : `io::copy(take(len))` over the stream = `take len` / `drop len`;
    * `LinearS.loop_sim`  : the loops agree step by step, errors included, with the same fuel;
    * `LinearS.run_sim`   : from ANY good state of the stream (the rewind is an absolute seek) and
                            with ANY fuel larger than `data.length`, `LinearS.run` answers what
                            `Linear.run` answers on `data`: the same error, or the same list of
                            (name, bytes) with a stream left in a good state;
    * `LinearS.run_eq`    : the same as one equation, forgetting the final stream state.
  No side condition on `data` is needed (no `data.length < U64`): the parsers do not need one.
-/
import MlaModel.LinearS
import MlaModel.Proofs.ReaderS
import MlaModel.Proofs.NoPanic
namespace MlaModel

/-! ### the pure loop does not depend on the fuel -/

theorem Linear.loop_fuel (P : Params) (utf8 : Bytes → Bool) (chosen : List Bytes) :
    ∀ (f1 f2 : Nat) (s : Bytes) (m : List (Nat × Bytes)) (out : List (Bytes × Bytes)),
      s.length < f1 → s.length < f2 →
      Linear.loop P utf8 chosen f1 s m out = Linear.loop P utf8 chosen f2 s m out := by
  intro f1
  induction f1 with
  | zero => intro f2 s m out h; omega
  | succ f1 ih =>
    intro f2 s m out h1 h2
    obtain ⟨f2, rfl⟩ : ∃ f, f2 = f + 1 := ⟨f2 - 1, by omega⟩
    unfold Linear.loop
    split
    · rfl
    · rename_i id name r hd
      have := Hdr.decode_shorter hd
      exact ih _ _ _ _ (by omega) (by omega)
    · rename_i id g r hd
      have := Hdr.decode_shorter hd
      exact ih _ _ _ _ (by omega) (by omega)
    · rename_i id len r hd
      have := Hdr.decode_shorter hd
      exact ih _ _ _ _ (by simp only [List.length_drop]; omega) (by simp only [List.length_drop]; omega)
    · rfl

/-- with less fuel the pure loop answers the same or runs out of fuel -/
theorem Linear.loop_fuel_le (P : Params) (utf8 : Bytes → Bool) (chosen : List Bytes) :
    ∀ (f1 f2 : Nat) (s : Bytes) (m : List (Nat × Bytes)) (out : List (Bytes × Bytes)), f1 ≤ f2 →
      Linear.loop P utf8 chosen f1 s m out = Linear.loop P utf8 chosen f2 s m out ∨
      Linear.loop P utf8 chosen f1 s m out = .error (.panic "linear-fuel") := by
  intro f1
  induction f1 with
  | zero => intro f2 s m out _; right; rfl
  | succ f1 ih =>
    intro f2 s m out h
    obtain ⟨f2, rfl⟩ : ∃ f, f2 = f + 1 := ⟨f2 - 1, by omega⟩
    unfold Linear.loop
    split
    · left; rfl
    · exact ih _ _ _ _ (by omega)
    · exact ih _ _ _ _ (by omega)
    · exact ih _ _ _ _ (by omega)
    · left; rfl

section
variable {σ : Type} [Stream σ] {Inv : σ → Prop} {abs : σ → Nat} {data : Bytes}

/-! ### `rewind` and `io::copy(take(len))` over a cursor-like stream -/

/-- `rewind` succeeds from any good state and leaves the stream at the start of the data -/
theorem rewindS_sim (hI : IsCursor Inv abs data) (s : σ) (hs : Inv s) :
    ∃ s', rewindS s = .ok s' ∧ Sim Inv abs data s' data := by
  obtain ⟨s', hk, hi, ha⟩ := hI.seek_ok s (.start 0) 0 hs (Nat.zero_le _) rfl
  refine ⟨s', by simp [rewindS, hk], hi, by rw [ha]; rfl⟩

/-- `io::copy(take(len))` over the stream delivers the next `len` bytes (all that remain if there
    are fewer — not an error) and leaves the stream right after them -/
theorem copyTakeS_sim (hI : IsCursor Inv abs data) (s : σ) (d : Bytes) (len : Nat)
    (h : Sim Inv abs data s d) :
    ∃ s', copyTakeS s len = .ok (s', d.take len) ∧ Sim Inv abs data s' (d.drop len) := by
  obtain ⟨hs, hd⟩ := h
  obtain ⟨s', hr, hs', ha'⟩ := readUpTo_ok hI (len + 1) s len hs (by omega)
  rw [hd] at hr ha'
  refine ⟨s', hr, hs', ?_⟩
  rw [ha', ← List.drop_drop, hd, List.length_take]
  by_cases hl : len ≤ d.length
  · rw [Nat.min_eq_left hl]
  · rw [Nat.min_eq_right (by omega), List.drop_eq_nil_of_le (Nat.le_refl _),
      List.drop_eq_nil_of_le (by omega)]

/-! ### the loops agree -/

/-- the stream-level loop started where the stream will deliver `d` = the pure loop on `d`, with the
    same fuel: same error, or same result with the stream left in a good state -/
theorem LinearS.loop_sim (hI : IsCursor Inv abs data) (P : Params) (utf8 : Bytes → Bool)
    (chosen : List Bytes) :
    ∀ (fuel : Nat) (s : σ) (d : Bytes) (m : List (Nat × Bytes)) (out : List (Bytes × Bytes)),
      Sim Inv abs data s d →
      match Linear.loop P utf8 chosen fuel d m out with
      | .ok res => ∃ s', LinearS.loop P utf8 chosen fuel s m out = .ok (s', res) ∧ Inv s'
      | .error e => LinearS.loop P utf8 chosen fuel s m out = .error e := by
  intro fuel
  induction fuel with
  | zero => intro s d m out _; simp [Linear.loop, LinearS.loop]
  | succ fuel ih =>
    intro s d m out hs
    have hdec := decodeS_sim hI P utf8 s d hs
    unfold Linear.loop LinearS.loop
    cases hd : Hdr.decode P utf8 d with
    | error e =>
      rw [hd] at hdec
      simp only at hdec
      simp only [hdec]
    | ok p =>
      obtain ⟨h, r⟩ := p
      rw [hd] at hdec
      obtain ⟨s1, e1, hs1⟩ := hdec
      cases h with
      | start id name =>
        simp only [e1]
        exact ih s1 r _ out hs1
      | eof id g =>
        simp only [e1]
        exact ih s1 r _ out hs1
      | content id len =>
        obtain ⟨s2, e2, hs2⟩ := copyTakeS_sim hI s1 r len hs1
        simp only [e1, e2]
        exact ih s2 (r.drop len) m _ hs2
      | eoad =>
        simp only [e1]
        exact ⟨s1, rfl, hs1.1⟩

/-- **`linear_extract` over a cursor-like stream = `linear_extract` over its data**: from any good
    state `s` of the stream and for any fuel larger than the length of the data, same error or same
    list of (name, bytes); on success the stream is left in a good state. -/
theorem LinearS.run_sim (hI : IsCursor Inv abs data) (P : Params) (utf8 : Bytes → Bool)
    (fuel : Nat) (hfuel : data.length < fuel) (s : σ) (hs : Inv s) (chosen : List Bytes) :
    match Linear.run P utf8 data chosen with
    | .ok res => ∃ s', LinearS.run P utf8 fuel s chosen = .ok (s', res) ∧ Inv s'
    | .error e => LinearS.run P utf8 fuel s chosen = .error e := by
  obtain ⟨s0, hrw, hs0⟩ := rewindS_sim hI s hs
  have h := LinearS.loop_sim hI P utf8 chosen fuel s0 data [] (chosen.eraseDups.map fun n => (n, [])) hs0
  rw [Linear.loop_fuel P utf8 chosen fuel (data.length + 1) data _ _ hfuel (Nat.lt_succ_self _)] at h
  unfold Linear.run LinearS.run
  simp only [hrw]
  exact h

/-- the same as one equation: forgetting the final state of the stream, the two extractions return
    the same `Except` value -/
theorem LinearS.run_eq (hI : IsCursor Inv abs data) (P : Params) (utf8 : Bytes → Bool)
    (fuel : Nat) (hfuel : data.length < fuel) (s : σ) (hs : Inv s) (chosen : List Bytes) :
    (LinearS.run P utf8 fuel s chosen).map (·.2) = Linear.run P utf8 data chosen := by
  have h := LinearS.run_sim hI P utf8 fuel hfuel s hs chosen
  cases hr : Linear.run P utf8 data chosen with
  | error e => rw [hr] at h; simp only at h; rw [h]; rfl
  | ok res => rw [hr] at h; obtain ⟨s', h1, _⟩ := h; rw [h1]; rfl

/-- with ANY fuel (possibly too little): the answer of `Linear.run`, or out of fuel -/
theorem LinearS.run_any_fuel (hI : IsCursor Inv abs data) (P : Params) (utf8 : Bytes → Bool)
    (fuel : Nat) (s : σ) (hs : Inv s) (chosen : List Bytes) :
    (LinearS.run P utf8 fuel s chosen).map (·.2) = Linear.run P utf8 data chosen ∨
    LinearS.run P utf8 fuel s chosen = .error (.panic "linear-fuel") := by
  by_cases hf : data.length < fuel
  · exact Or.inl (LinearS.run_eq hI P utf8 fuel hf s hs chosen)
  · obtain ⟨s0, hrw, hs0⟩ := rewindS_sim hI s hs
    have h := LinearS.loop_sim hI P utf8 chosen fuel s0 data [] (chosen.eraseDups.map fun n => (n, [])) hs0
    unfold Linear.run LinearS.run
    simp only [hrw]
    rcases Linear.loop_fuel_le P utf8 chosen fuel (data.length + 1) data []
      (chosen.eraseDups.map fun n => (n, [])) (by omega) with he | he
    · left
      rw [← he]
      cases hr : Linear.loop P utf8 chosen fuel data [] (chosen.eraseDups.map fun n => (n, [])) with
      | error e => rw [hr] at h; simp only at h; rw [h]; rfl
      | ok res => rw [hr] at h; obtain ⟨s', h1, _⟩ := h; rw [h1]; rfl
    · right
      rw [he] at h
      exact h

/-- `LinearS.run` with fuel `data.length + 1` (the fuel `Linear.run` itself uses) -/
theorem LinearS.run_eq_exact (hI : IsCursor Inv abs data) (P : Params) (utf8 : Bytes → Bool)
    (s : σ) (hs : Inv s) (chosen : List Bytes) :
    (LinearS.run P utf8 (data.length + 1) s chosen).map (·.2) = Linear.run P utf8 data chosen :=
  LinearS.run_eq hI P utf8 _ (Nat.lt_succ_self _) s hs chosen

end

end MlaModel

/-
  Base64: `b64Decode (b64Encode d) = some d` for every byte string, and what characters the encoder emits.
-/
import MlaModel.Keys
namespace MlaModel.Keys

theorem b64Val_b64Char : ∀ n, n < 64 → b64Val (b64Char n) = some n := by decide

theorem b64Char_ne_pad : ∀ n, n < 64 → b64Char n ≠ padChar := by decide

theorem toNat_lt (a : UInt8) : a.toNat < 256 := UInt8.toNat_lt a

theorem ofNat_toNat (a : UInt8) : UInt8.ofNat a.toNat = a := by simp

theorem decFull_enc3 (a b c : UInt8) :
    decFull (b64Char (a.toNat / 4)) (b64Char (a.toNat % 4 * 16 + b.toNat / 16))
      (b64Char (b.toNat % 16 * 4 + c.toNat / 64)) (b64Char (c.toNat % 64)) = some [a, b, c] := by
  have ha := toNat_lt a; have hb := toNat_lt b; have hc := toNat_lt c
  simp only [decFull]
  rw [b64Val_b64Char _ (by omega), b64Val_b64Char _ (by omega), b64Val_b64Char _ (by omega),
      b64Val_b64Char _ (by omega)]
  simp only [dec3]
  have h0 : a.toNat / 4 * 4 + (a.toNat % 4 * 16 + b.toNat / 16) / 16 = a.toNat := by omega
  have h1 : (a.toNat % 4 * 16 + b.toNat / 16) % 16 * 16 + (b.toNat % 16 * 4 + c.toNat / 64) / 4
      = b.toNat := by omega
  have h2 : (b.toNat % 16 * 4 + c.toNat / 64) % 4 * 64 + c.toNat % 64 = c.toNat := by omega
  rw [h0, h1, h2]
  simp

theorem decLast_enc3 (a b c : UInt8) :
    decLast (b64Char (a.toNat / 4)) (b64Char (a.toNat % 4 * 16 + b.toNat / 16))
      (b64Char (b.toNat % 16 * 4 + c.toNat / 64)) (b64Char (c.toNat % 64)) = some [a, b, c] := by
  have hc := toNat_lt c
  unfold decLast
  rw [if_neg (b64Char_ne_pad _ (by omega))]
  exact decFull_enc3 a b c

theorem decLast_two (a b : UInt8) :
    decLast (b64Char (a.toNat / 4)) (b64Char (a.toNat % 4 * 16 + b.toNat / 16))
      (b64Char (b.toNat % 16 * 4)) padChar = some [a, b] := by
  have ha := toNat_lt a; have hb := toNat_lt b
  unfold decLast
  rw [if_pos rfl, if_neg (b64Char_ne_pad _ (by omega))]
  rw [b64Val_b64Char _ (by omega), b64Val_b64Char _ (by omega), b64Val_b64Char _ (by omega)]
  have h : b.toNat % 16 * 4 % 4 = 0 := by omega
  have h0 : a.toNat / 4 * 4 + (a.toNat % 4 * 16 + b.toNat / 16) / 16 = a.toNat := by omega
  have h1 : (a.toNat % 4 * 16 + b.toNat / 16) % 16 * 16 + b.toNat % 16 * 4 / 4 = b.toNat := by omega
  simp only [h, if_true, h0, h1]
  simp

theorem decLast_one (a : UInt8) :
    decLast (b64Char (a.toNat / 4)) (b64Char (a.toNat % 4 * 16)) padChar padChar = some [a] := by
  have ha := toNat_lt a
  unfold decLast
  rw [if_pos rfl, if_pos rfl]
  rw [b64Val_b64Char _ (by omega), b64Val_b64Char _ (by omega)]
  have h : a.toNat % 4 * 16 % 16 = 0 := by omega
  have h0 : a.toNat / 4 * 4 + a.toNat % 4 * 16 / 16 = a.toNat := by omega
  simp only [h, if_true, h0]
  simp

theorem b64Encode_eq_nil (d : Bytes) : b64Encode d = [] ↔ d = [] := by
  constructor
  · intro h
    match d with
    | [] => rfl
    | [_] => simp [b64Encode] at h
    | [_, _] => simp [b64Encode] at h
    | _ :: _ :: _ :: _ => simp [b64Encode, enc3] at h
  · intro h; subst h; rfl

/-- **Base64 round trip**: decoding what the encoder wrote gives the bytes back, for every byte string. -/
theorem b64Decode_encode (d : Bytes) : b64Decode (b64Encode d) = some d := by
  induction d using b64Encode.induct with
  | case1 a b c rest ih =>
    simp only [b64Encode, enc3, List.cons_append, List.nil_append]
    unfold b64Decode
    cases hr : b64Encode rest with
    | nil =>
      have : rest = [] := (b64Encode_eq_nil rest).1 hr
      subst this
      simpa using decLast_enc3 a b c
    | cons y ys =>
      simp only [decFull_enc3]
      rw [hr] at ih
      rw [ih]
      rfl
  | case2 a b => simpa [b64Encode, b64Decode] using decLast_two a b
  | case3 a => simpa [b64Encode, b64Decode] using decLast_one a
  | case4 => rfl

/-- characters the encoder can emit: the alphabet and `=` -/
def isB64Out (c : UInt8) : Bool :=
  inRange c 65 90 || inRange c 97 122 || inRange c 48 57 || c = 43 || c = 47 || c = 61

theorem isB64Out_b64Char : ∀ n, n < 64 → isB64Out (b64Char n) = true := by decide

theorem b64Encode_chars (d : Bytes) : ∀ c ∈ b64Encode d, isB64Out c = true := by
  induction d using b64Encode.induct with
  | case1 a b c rest ih =>
    have ha := toNat_lt a; have hb := toNat_lt b; have hc := toNat_lt c
    intro x hx
    simp only [b64Encode, enc3, List.cons_append, List.nil_append, List.mem_cons] at hx
    rcases hx with h | h | h | h | h
    · subst h; exact isB64Out_b64Char _ (by omega)
    · subst h; exact isB64Out_b64Char _ (by omega)
    · subst h; exact isB64Out_b64Char _ (by omega)
    · subst h; exact isB64Out_b64Char _ (by omega)
    · exact ih x h
  | case2 a b =>
    have ha := toNat_lt a; have hb := toNat_lt b
    intro x hx
    simp only [b64Encode, List.mem_cons, List.not_mem_nil, or_false] at hx
    rcases hx with h | h | h | h
    · subst h; exact isB64Out_b64Char _ (by omega)
    · subst h; exact isB64Out_b64Char _ (by omega)
    · subst h; exact isB64Out_b64Char _ (by omega)
    · subst h; decide
  | case3 a =>
    have ha := toNat_lt a
    intro x hx
    simp only [b64Encode, List.mem_cons, List.not_mem_nil, or_false] at hx
    rcases hx with h | h | h | h
    · subst h; exact isB64Out_b64Char _ (by omega)
    · subst h; exact isB64Out_b64Char _ (by omega)
    · subst h; decide
    · subst h; decide
  | case4 => intro x hx; simp [b64Encode] at hx

end MlaModel.Keys

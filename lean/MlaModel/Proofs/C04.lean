/-
  Helpers for C04: the authenticated fail-safe decryptor over an ARBITRARY byte string `e` standing
  in for a sealed stream, and the monotonicity of the repair loop in its input.
-/
import MlaModel.Proofs.EncryptFailSafe
import MlaModel.Proofs.EncryptTamper
import MlaModel.Proofs.Repair
namespace MlaModel

/-! ### `fsAuth` = chunk 0 unverified, then the verified run from slot 1 -/

theorem fsAuth_eq' (P : Params) (C : EncPrims) (e : Bytes) :
    fsAuth P C e = xorAt (C.ks 0) 0 (e.take P.chunk) ++ fsA P C 1 (e.drop (P.chunk + P.tagLen)) := by
  rw [fsAuth_eq]
  by_cases he : e = []
  · subst he; simp [xorAt]
  · simp only [he, if_false]
    by_cases hs : e.length < P.chunk
    · simp only [hs, if_true]
      rw [List.drop_eq_nil_of_le (by omega), fsA_nil]
    · simp only [hs, if_false, List.drop_drop]

/-- first index `≥ i` whose slot of `e` does not pass `openChunk` (bounded search) -/
def firstFail (P : Params) (C : EncPrims) (e : Bytes) : Nat → Nat → Nat
  | 0, i => i
  | fuel+1, i =>
    match openChunk P C i (win P e i) with
    | .error _ => i
    | .ok _ => firstFail P C e fuel (i+1)

theorem firstFail_ge (P : Params) (C : EncPrims) (e : Bytes) :
    ∀ fuel i, i ≤ firstFail P C e fuel i := by
  intro fuel
  induction fuel with
  | zero => intro i; exact Nat.le_refl _
  | succ f ih =>
    intro i
    simp only [firstFail]
    split
    · exact Nat.le_refl _
    · exact Nat.le_trans (Nat.le_succ _) (ih (i+1))

theorem firstFail_ok (P : Params) (C : EncPrims) (e : Bytes) :
    ∀ fuel i k, i ≤ k → k < firstFail P C e fuel i → ∃ pt, openChunk P C k (win P e k) = .ok pt := by
  intro fuel
  induction fuel with
  | zero => intro i k h1 h2; simp only [firstFail] at h2; omega
  | succ f ih =>
    intro i k h1 h2
    simp only [firstFail] at h2
    split at h2
    · omega
    · rename_i pt hpt
      by_cases hk : k = i
      · subst hk; exact ⟨pt, hpt⟩
      · exact ih (i+1) k (by omega) h2

theorem firstFail_fail (P : Params) (C : EncPrims) (e : Bytes) :
    ∀ fuel i, e.length < i + fuel →
      openChunk P C (firstFail P C e fuel i) (win P e (firstFail P C e fuel i)) = .error .wrongTag := by
  intro fuel
  induction fuel with
  | zero =>
    intro i h
    have hc := P.hchunk
    have : e.length ≤ i * (P.chunk + P.tagLen) := by
      have := Nat.le_mul_of_pos_right i (show 0 < P.chunk + P.tagLen by omega)
      omega
    simp only [firstFail]
    rw [win_nil_of_le P e i this, openChunk_nil]
  | succ f ih =>
    intro i h
    simp only [firstFail]
    split
    · rename_i er her
      rw [her, openChunk_err her]
    · exact ih (i+1) (by omega)

section
variable (P : Params) (C : EncPrims) (hTag : ∀ i c, (C.tag i c).length = P.tagLen)
include hTag

/-- the verified run over slots `i … j-1` that hold the genuine chunks, slot `j` failing -/
theorem fsA_slots (p e : Bytes) :
    ∀ (d i j : Nat), j = i + d →
      (∀ k, i ≤ k → k < j → k ≤ nLast P p ∧ win P e k = scChunk P C p k) →
      openChunk P C j (win P e j) = .error .wrongTag →
      fsA P C i (e.drop (i * (P.chunk + P.tagLen))) = (p.take (j * P.chunk)).drop (i * P.chunk) := by
  intro d
  induction d with
  | zero =>
    intro i j hj _ hfail
    have : j = i := by omega
    subst this
    have hr : (p.take (j * P.chunk)).drop (j * P.chunk) = [] :=
      List.drop_eq_nil_of_le (by rw [List.length_take]; omega)
    rw [hr]
    by_cases he : e.drop (j * (P.chunk + P.tagLen)) = []
    · rw [he, fsA_nil]
    · rw [fsA_unfold P C j _ he]
      show (match openChunk P C j (win P e j) with | .error _ => [] | .ok pt => _) = []
      rw [hfail]
  | succ d ih =>
    intro i j hj hgen hfail
    have hc := P.hchunk
    have ht := P.htag
    obtain ⟨hin, hw⟩ := hgen i (Nat.le_refl _) (by omega)
    have hne : e.drop (i * (P.chunk + P.tagLen)) ≠ [] := by
      intro h0
      have : win P e i = [] := by rw [win, h0]; simp
      rw [this] at hw
      have := congrArg List.length hw
      rw [scChunk_length P C hTag] at this
      simp at this; omega
    have hop : openChunk P C i ((e.drop (i * (P.chunk + P.tagLen))).take (P.chunk + P.tagLen)) =
        .ok (ptChunk P p i) := by
      show openChunk P C i (win P e i) = _
      rw [hw, openChunk_scChunk P C hTag]
    rw [fsA_unfold P C i _ hne, hop]
    simp only []
    have hmul : (i + 1) * (P.chunk + P.tagLen) = i * (P.chunk + P.tagLen) + (P.chunk + P.tagLen) := by
      rw [Nat.add_mul]; omega
    have hmulc : (i + 1) * P.chunk = i * P.chunk + P.chunk := by rw [Nat.add_mul]; omega
    have hjc : (i + 1) * P.chunk ≤ j * P.chunk := Nat.mul_le_mul_right _ (by omega)
    by_cases hs : (ptChunk P p i).length < P.chunk
    · simp only [hs, if_true, List.append_nil]
      rw [ptChunk_length] at hs
      rw [List.take_of_length_le (by omega), ptChunk, List.take_of_length_le]
      simp only [List.length_drop]; omega
    · simp only [hs, if_false]
      rw [List.drop_drop, ← hmul, ih (i+1) j (by omega) (fun k h1 h2 => hgen k (by omega) h2) hfail]
      rw [ptChunk_length] at hs
      have hX : (p.take (j * P.chunk)).drop (i * P.chunk) =
          ptChunk P p i ++ (p.take (j * P.chunk)).drop ((i + 1) * P.chunk) := by
        conv => lhs; rw [← List.take_append_drop P.chunk ((p.take (j * P.chunk)).drop (i * P.chunk))]
        rw [List.drop_drop, ← hmulc]
        congr 1
        rw [List.drop_take, List.take_take, ptChunk]
        congr 1; omega
      rw [hX]

/-- the same under the integrity hypothesis: slots that verify are genuine -/
theorem fsA_unforged (p e : Bytes) (hU : Unforged P C p e) (i j : Nat) (hij : i ≤ j)
    (hok : ∀ k, i ≤ k → k < j → ∃ pt, openChunk P C k (win P e k) = .ok pt)
    (hfail : openChunk P C j (win P e j) = .error .wrongTag) :
    fsA P C i (e.drop (i * (P.chunk + P.tagLen))) = (p.take (j * P.chunk)).drop (i * P.chunk) := by
  refine fsA_slots P C hTag p e (j - i) i j (by omega) ?_ hfail
  intro k h1 h2
  obtain ⟨pt, hpt⟩ := hok k h1 h2
  exact hU k pt hpt

omit hTag in
/-- the first `chunk` bytes of a sealed stream whose plaintext fills chunk 0 -/
theorem sealS_take_chunk (p : Bytes) (hp : P.chunk ≤ p.length) :
    (sealS P C p).take P.chunk = xorAt (C.ks 0) 0 (p.take P.chunk) := by
  have hcl : (xorAt (C.ks 0) 0 (p.take P.chunk)).length = P.chunk := by
    simp [List.length_take]; omega
  rw [sealS_eq_sealI, sealI_cons, sealedChunk, List.append_assoc, List.take_left' hcl]


/-- `fsAuth` over slots `1 … j-1` holding genuine chunks, slot `j` failing -/
theorem fsAuth_slots (p e : Bytes) (j : Nat) (hj : 1 ≤ j)
    (hgen : ∀ k, 1 ≤ k → k < j → k ≤ nLast P p ∧ win P e k = scChunk P C p k)
    (hfail : openChunk P C j (win P e j) = .error .wrongTag) :
    fsAuth P C e = xorAt (C.ks 0) 0 (e.take P.chunk) ++ (p.take (j * P.chunk)).drop P.chunk := by
  have := fsA_slots P C hTag p e (j - 1) 1 j (by omega) hgen hfail
  rw [Nat.one_mul, Nat.one_mul] at this
  rw [fsAuth_eq', this]

theorem fsAuth_unforged (p e : Bytes) (hU : Unforged P C p e) (j : Nat) (hj : 1 ≤ j)
    (hok : ∀ k, 1 ≤ k → k < j → ∃ pt, openChunk P C k (win P e k) = .ok pt)
    (hfail : openChunk P C j (win P e j) = .error .wrongTag) :
    fsAuth P C e = xorAt (C.ks 0) 0 (e.take P.chunk) ++ (p.take (j * P.chunk)).drop P.chunk :=
  fsAuth_slots P C hTag p e j hj
    (fun k h1 h2 => let ⟨pt, hpt⟩ := hok k h1 h2; hU k pt hpt) hfail

omit hTag in
/-- plaintext chunks `1 … n` of `p`, concatenated -/
theorem chunks_flatten (p : Bytes) (n : Nat) :
    ((List.range n).map fun k => ptChunk P p (k + 1)).flatten =
      (p.take ((n + 1) * P.chunk)).drop P.chunk := by
  have hc := P.hchunk
  induction n with
  | zero =>
    simp only [List.range_zero, List.map_nil, List.flatten_nil, Nat.zero_add, Nat.one_mul]
    rw [List.drop_eq_nil_of_le]; rw [List.length_take]; omega
  | succ n ih =>
    have hmul : (n + 1 + 1) * P.chunk = (n + 1) * P.chunk + P.chunk := by rw [Nat.add_mul]; omega
    have hge : P.chunk ≤ (n + 1) * P.chunk := by rw [Nat.add_mul]; omega
    rw [List.range_succ, List.map_append, List.flatten_append, ih, hmul, List.take_add,
      List.drop_append]
    simp only [List.map_cons, List.map_nil, List.flatten_cons, List.flatten_nil, List.append_nil]
    congr 1
    by_cases hl : (n + 1) * P.chunk ≤ p.length
    · have : P.chunk - (p.take ((n + 1) * P.chunk)).length = 0 := by
        rw [List.length_take, Nat.min_eq_left hl]; omega
      rw [this]; rfl
    · have : (p.drop ((n + 1) * P.chunk)).take P.chunk = [] := by
        rw [List.drop_eq_nil_of_le (by omega)]; simp
      rw [ptChunk, this]; simp

/-- genuine chunk 0 and the integrity hypothesis: the authenticated fail-safe decryptor delivers a
    prefix of `p` cut at a chunk boundary when `p` fills chunk 0 … -/
theorem fsAuth_unforged_long (p e : Bytes) (hU : Unforged P C p e)
    (h0 : e.take P.chunk = (sealS P C p).take P.chunk) (hp : P.chunk ≤ p.length) :
    fsAuth P C e = p.take (firstFail P C e (e.length + 1) 1 * P.chunk) := by
  have hc := P.hchunk
  have hj := firstFail_ge P C e (e.length + 1) 1
  have hmul : P.chunk ≤ firstFail P C e (e.length + 1) 1 * P.chunk :=
    Nat.le_mul_of_pos_left _ (by omega)
  rw [fsAuth_unforged P C hTag p e hU _ hj
    (fun k h1 h2 => firstFail_ok P C e _ 1 k h1 h2) (firstFail_fail P C e _ 1 (by omega)),
    h0, sealS_take_chunk P C p hp, xorAt_invol]
  conv => rhs; rw [← List.take_append_drop P.chunk (p.take _)]
  rw [List.take_take, Nat.min_eq_left hmul]

/-- … and exactly what the genuine stream gives when `p` is shorter than one chunk -/
theorem fsAuth_unforged_short (p e : Bytes) (hU : Unforged P C p e)
    (h0 : e.take P.chunk = (sealS P C p).take P.chunk) (hp : p.length < P.chunk) :
    fsAuth P C e = fsAuth P C (sealS P C p) := by
  have hnil : ∀ j, (p.take (j * P.chunk)).drop P.chunk = [] := by
    intro j; apply List.drop_eq_nil_of_le; rw [List.length_take]; omega
  rw [fsAuth_unforged P C hTag p e hU _ (firstFail_ge P C e (e.length + 1) 1)
    (fun k h1 h2 => firstFail_ok P C e _ 1 k h1 h2) (firstFail_fail P C e _ 1 (by omega)),
    fsAuth_unforged P C hTag p (sealS P C p) (unforged_sealS P C hTag p) _
      (firstFail_ge P C (sealS P C p) ((sealS P C p).length + 1) 1)
      (fun k h1 h2 => firstFail_ok P C _ _ 1 k h1 h2) (firstFail_fail P C _ _ 1 (by omega)),
    hnil, hnil, h0]

theorem fsAuth_delivered (p e : Bytes) (hU : Unforged P C p e)
    (h0 : e.take P.chunk = (sealS P C p).take P.chunk) :
    fsAuth P C e <+: p ∨ p <+: fsAuth P C e := by
  by_cases hp : P.chunk ≤ p.length
  · left; rw [fsAuth_unforged_long P C hTag p e hU h0 hp]; exact List.take_prefix _ _
  · right
    rw [fsAuth_unforged_short P C hTag p e hU h0 (by omega), fsAuth_seal_exact P C hTag p]
    exact List.prefix_append _ _

/-- **stop**: `k ≥ 1` whole genuine slots, then anything whose first slot fails the tag check of
    chunk `k`: exactly the first `k` plaintext chunks come out -/
theorem fsAuth_stop (p : Bytes) (k : Nat) (hk1 : 1 ≤ k) (hk : k ≤ nLast P p) (tail : Bytes)
    (hfail : openChunk P C k (tail.take (P.chunk + P.tagLen)) = .error .wrongTag) :
    fsAuth P C ((sealS P C p).take (k * (P.chunk + P.tagLen)) ++ tail) = p.take (k * P.chunk) := by
  have hc := P.hchunk
  obtain ⟨h1, h2, h3⟩ := nLast_spec P p
  have hkc : k * P.chunk ≤ nLast P p * P.chunk := Nat.mul_le_mul_right _ hk
  have hkT : k * P.tagLen ≤ nLast P p * P.tagLen := Nat.mul_le_mul_right _ hk
  have hcle : P.chunk ≤ k * P.chunk := Nat.le_mul_of_pos_left _ (by omega)
  have hgl : ((sealS P C p).take (k * (P.chunk + P.tagLen))).length = k * (P.chunk + P.tagLen) := by
    rw [List.length_take, sealS_length P C hTag]
    simp only [Nat.mul_add, Nat.add_mul]; omega
  have hwin : ∀ k', k' < k →
      win P ((sealS P C p).take (k * (P.chunk + P.tagLen)) ++ tail) k' = scChunk P C p k' := by
    intro k' hk'
    have hle : (k' + 1) * (P.chunk + P.tagLen) ≤ k * (P.chunk + P.tagLen) :=
      Nat.mul_le_mul_right _ hk'
    rw [Nat.add_mul, Nat.one_mul] at hle
    have : win P ((sealS P C p).take (k * (P.chunk + P.tagLen)) ++ tail) k' =
        win P ((sealS P C p).take (k * (P.chunk + P.tagLen))) k' := by
      simp only [win]
      rw [List.drop_append_of_le_length (by omega),
        List.take_append_of_le_length (by simp only [List.length_drop]; omega)]
    rw [this, win_take, if_pos hk']
    exact sealS_chunk P C hTag p k' (by omega)
  have hwk : win P ((sealS P C p).take (k * (P.chunk + P.tagLen)) ++ tail) k =
      tail.take (P.chunk + P.tagLen) := by
    simp only [win]; rw [List.drop_left' hgl]
  rw [fsAuth_slots P C hTag p _ k hk1 (fun k' _ h2 => ⟨by omega, hwin k' h2⟩) (by rw [hwk]; exact hfail),
    List.take_append_of_le_length (by rw [hgl]; rw [Nat.mul_add]; omega), List.take_take,
    Nat.min_eq_left (by rw [Nat.mul_add]; omega), sealS_take_chunk P C p (by omega), xorAt_invol]
  conv => rhs; rw [← List.take_append_drop P.chunk (p.take _)]
  rw [List.take_take, Nat.min_eq_left hcle]

end

/-! ### repair: more input never recovers less — for ARBITRARY byte strings -/

set_option linter.unusedVariables false

def FilesLe : List SpecFile → List SpecFile → Prop
  | [], _ => True
  | _ :: _, [] => False
  | f :: fs, g :: gs => f.id = g.id ∧ f.name = g.name ∧ f.content <+: g.content ∧ FilesLe fs gs

theorem FilesLe.refl : ∀ a, FilesLe a a
  | [] => trivial
  | f :: fs => ⟨rfl, rfl, List.prefix_refl _, FilesLe.refl fs⟩

theorem FilesLe.trans : ∀ {a b c}, FilesLe a b → FilesLe b c → FilesLe a c
  | [], _, _, _, _ => trivial
  | _ :: _, [], _, h, _ => h.elim
  | _ :: _, _ :: _, [], _, h => h.elim
  | _ :: fs, _ :: gs, _ :: hs, ⟨a1, a2, a3, a4⟩, ⟨b1, b2, b3, b4⟩ =>
    ⟨a1.trans b1, a2.trans b2, a3.trans b3, FilesLe.trans a4 b4⟩

theorem FilesLe.append_right : ∀ {a b} (x), FilesLe a b → FilesLe a (b ++ x)
  | [], _, _, _ => trivial
  | _ :: _, [], _, h => h.elim
  | _ :: fs, _ :: gs, x, ⟨a1, a2, a3, a4⟩ => ⟨a1, a2, a3, FilesLe.append_right x a4⟩

def appF (id : Nat) (d : Bytes) (f : SpecFile) : SpecFile :=
  if f.id = id then { f with content := f.content ++ d } else f

theorem appF_id (id d f) : (appF id d f).id = f.id := by unfold appF; split <;> rfl
theorem appF_name (id d f) : (appF id d f).name = f.name := by unfold appF; split <;> rfl
theorem appF_content (id d f) : f.content <+: (appF id d f).content := by
  unfold appF; split
  · exact List.prefix_append _ _
  · exact List.prefix_refl _

theorem FilesLe.map_app (id : Nat) (d : Bytes) : ∀ {a b}, FilesLe a b → FilesLe a (b.map (appF id d))
  | [], _, _ => trivial
  | _ :: _, [], h => h.elim
  | _ :: fs, g :: gs, ⟨a1, a2, a3, a4⟩ =>
    ⟨a1.trans (appF_id id d g).symm, a2.trans (appF_name id d g).symm,
      a3.trans (appF_content id d g), FilesLe.map_app id d a4⟩

theorem FilesLe.map_app_both (id : Nat) {d₁ d₂ : Bytes} (h : d₁ <+: d₂) :
    ∀ a : List SpecFile, FilesLe (a.map (appF id d₁)) (a.map (appF id d₂))
  | [] => trivial
  | f :: fs => by
    refine ⟨by rw [appF_id, appF_id], by rw [appF_name, appF_name], ?_, FilesLe.map_app_both id h fs⟩
    unfold appF; split
    · exact (List.prefix_append_right_inj _).mpr h
    · exact List.prefix_refl _

theorem FilesLe.mem : ∀ {a b}, FilesLe a b → ∀ f ∈ a, ∃ g ∈ b, g.name = f.name ∧ f.content <+: g.content
  | [], _, _, f, hf => by cases hf
  | _ :: _, [], h, _, _ => h.elim
  | f' :: fs, g' :: gs, ⟨_, a2, a3, a4⟩, f, hf => by
    rcases List.mem_cons.1 hf with rfl | hf
    · exact ⟨g', by simp, a2.symm, a3⟩
    · obtain ⟨g, hg, h1, h2⟩ := FilesLe.mem a4 f hf
      exact ⟨g, by simp [hg], h1, h2⟩

theorem SpecState.append_files (s : SpecState) (id : Nat) (d : Bytes) :
    (s.append id d).files = s.files.map (appF id d) := rfl

theorem FilesLe.step (σ : List SpecFile) (s : SpecState) (op : Op) (h : FilesLe σ s.files) :
    FilesLe σ (s.step op).files := by
  cases op <;> simp only [SpecState.step]
  all_goals first
    | exact h
    | exact FilesLe.append_right _ h
    | (rw [SpecState.append_files]; exact FilesLe.map_app _ _ h)

theorem FilesLe.steps (σ : List SpecFile) (ops : List Op) : ∀ (s : SpecState), FilesLe σ s.files →
    FilesLe σ (ops.foldl SpecState.step s).files := by
  induction ops with
  | nil => intro s h; exact h
  | cons op ops ih => intro s h; exact ih _ (FilesLe.step σ s op h)

def specOps (ops : List Op) : SpecState := ops.foldl SpecState.step {}

theorem specOps_append (a b : List Op) : specOps (a ++ b) = b.foldl SpecState.step (specOps a) := by
  simp [specOps, List.foldl_append]

section RepairMono
variable (P : Params) (H : Bytes → Bytes) (utf8 : Bytes → Bool)

theorem loop_extends (endErr : Bool) (fuel : Nat) (s : Bytes) (st : RepairSt) :
    ∀ σ, FilesLe σ (specOps st.ops).files →
      FilesLe σ (specOps (Repair.loop P H utf8 endErr fuel s st).1.ops).files := by
  fun_induction Repair.loop P H utf8 endErr fuel s st
  all_goals intro σ h
  all_goals try exact h
  all_goals first
    | (rename_i ih; apply ih; simp +zetaDelta only [specOps_append]; exact FilesLe.steps _ _ _ h)
    | (simp +zetaDelta only [specOps_append]; exact FilesLe.steps _ _ _ h)
theorem takeExact_app {n : Nat} {s a r : Bytes} (h : takeExact n s = .ok (a, r)) (t : Bytes) :
    takeExact n (s ++ t) = .ok (a, r ++ t) := by
  unfold takeExact at h ⊢
  split at h
  · rename_i hn
    simp only [Except.ok.injEq, Prod.mk.injEq] at h
    obtain ⟨rfl, rfl⟩ := h
    have : n ≤ (s ++ t).length := by simp; omega
    rw [if_pos this, List.take_append_of_le_length hn, List.drop_append_of_le_length hn]
  · cases h

theorem readLe_app {n : Nat} {s r : Bytes} {v : Nat} (h : readLe n s = .ok (v, r)) (t : Bytes) :
    readLe n (s ++ t) = .ok (v, r ++ t) := by
  unfold readLe at h ⊢
  cases ht : takeExact n s with
  | error e => rw [ht] at h; cases h
  | ok x =>
    obtain ⟨a, r'⟩ := x
    rw [ht] at h
    simp only [Except.ok.injEq, Prod.mk.injEq] at h
    obtain ⟨rfl, rfl⟩ := h
    rw [takeExact_app ht t]

theorem Hdr.decode_app {s r : Bytes} {h : Hdr} (hd : Hdr.decode P utf8 s = .ok (h, r)) (t : Bytes) :
    Hdr.decode P utf8 (s ++ t) = .ok (h, r ++ t) := by
  cases s with
  | nil => simp [Hdr.decode] at hd
  | cons b r0 =>
    simp only [List.cons_append, Hdr.decode] at hd ⊢
    split at hd
    · rename_i hb
      rw [if_pos hb]
      cases h1 : readLe 8 r0 with
      | error e => rw [h1] at hd; cases hd
      | ok x1 =>
        obtain ⟨id, r1⟩ := x1
        rw [h1] at hd; rw [readLe_app h1 t]
        simp only at hd ⊢
        cases h2 : readLe 8 r1 with
        | error e => rw [h2] at hd; cases hd
        | ok x2 =>
          obtain ⟨len, r2⟩ := x2
          rw [h2] at hd; rw [readLe_app h2 t]
          simp only at hd ⊢
          split at hd
          · cases hd
          · rename_i hlen
            rw [if_neg hlen]
            cases h3 : takeExact len r2 with
            | error e => rw [h3] at hd; cases hd
            | ok x3 =>
              obtain ⟨name, r3⟩ := x3
              rw [h3] at hd; rw [takeExact_app h3 t]
              simp only at hd ⊢
              split at hd
              · rename_i hu
                rw [if_pos hu]
                simp only [Except.ok.injEq, Prod.mk.injEq] at hd
                obtain ⟨rfl, rfl⟩ := hd; rfl
              · cases hd
    · rename_i hb
      rw [if_neg hb]
      split at hd
      · rename_i hb2
        rw [if_pos hb2]
        cases h1 : readLe 8 r0 with
        | error e => rw [h1] at hd; cases hd
        | ok x1 =>
          obtain ⟨id, r1⟩ := x1
          rw [h1] at hd; rw [readLe_app h1 t]
          simp only at hd ⊢
          cases h2 : readLe 8 r1 with
          | error e => rw [h2] at hd; cases hd
          | ok x2 =>
            obtain ⟨len, r2⟩ := x2
            rw [h2] at hd; rw [readLe_app h2 t]
            simp only [Except.ok.injEq, Prod.mk.injEq] at hd ⊢
            obtain ⟨rfl, rfl⟩ := hd; exact ⟨rfl, rfl⟩
      · rename_i hb2
        rw [if_neg hb2]
        split at hd
        · rename_i hb3
          rw [if_pos hb3]
          cases h1 : readLe 8 r0 with
          | error e => rw [h1] at hd; cases hd
          | ok x1 =>
            obtain ⟨id, r1⟩ := x1
            rw [h1] at hd; rw [readLe_app h1 t]
            simp only at hd ⊢
            cases h3 : takeExact hashLen r1 with
            | error e => rw [h3] at hd; cases hd
            | ok x3 =>
              obtain ⟨hh, r3⟩ := x3
              rw [h3] at hd; rw [takeExact_app h3 t]
              simp only [Except.ok.injEq, Prod.mk.injEq] at hd ⊢
              obtain ⟨rfl, rfl⟩ := hd; exact ⟨rfl, rfl⟩
        · rename_i hb3
          rw [if_neg hb3]
          split at hd
          · rename_i hb4
            rw [if_pos hb4]
            simp only [Except.ok.injEq, Prod.mk.injEq] at hd ⊢
            obtain ⟨rfl, rfl⟩ := hd; exact ⟨rfl, rfl⟩
          · cases hd

theorem loop_succ_error (e : Bool) (f : Nat) (s : Bytes) (st : RepairSt) (er : Err)
    (hd : Hdr.decode P utf8 s = .error er) : (Repair.loop P H utf8 e (f+1) s st).1 = st := by
  simp only [Repair.loop, hd]
  cases er <;> rfl

theorem loop_nil_fst (e : Bool) (fuel : Nat) (st : RepairSt) :
    (Repair.loop P H utf8 e fuel [] st).1 = st := by
  cases fuel with
  | zero => rfl
  | succ f => simp only [Repair.loop, Hdr.decode]

/-- the spec state after the appends of one content block -/
theorem specOps_content (ops : List Op) (idOut rc fuel : Nat) (data : Bytes) :
    (specOps (ops ++ (cachePieces rc fuel data).map fun d => Op.append idOut d.length d)).files =
      (specOps ops).files.map (appF idOut data) := by
  rw [specOps_append, spec_appends, cachePieces_flatten, SpecState.append_files]

/-- **Monotonicity of the repair loop in its input, for arbitrary bytes**: from the same state, on
    `s` and on `s ++ t` (any `t`, any end conditions, at least as much fuel), the files written for
    `s` are, position by position, files written for `s ++ t`, with a prefix of their content. -/
theorem loop_mono (e₁ e₂ : Bool) : ∀ (f₁ f₂ : Nat) (s t : Bytes) (st : RepairSt), f₁ ≤ f₂ →
    FilesLe (specOps (Repair.loop P H utf8 e₁ f₁ s st).1.ops).files
      (specOps (Repair.loop P H utf8 e₂ f₂ (s ++ t) st).1.ops).files := by
  intro f₁
  induction f₁ with
  | zero =>
    intro f₂ s t st _
    exact loop_extends P H utf8 e₂ f₂ (s ++ t) st _ (FilesLe.refl _)
  | succ f₁ ih =>
    intro f₂ s t st hle
    obtain ⟨f₂, rfl⟩ : ∃ g, f₂ = g + 1 := ⟨f₂ - 1, by omega⟩
    have ext : (Repair.loop P H utf8 e₁ (f₁+1) s st).1.ops = st.ops →
        FilesLe (specOps (Repair.loop P H utf8 e₁ (f₁+1) s st).1.ops).files
          (specOps (Repair.loop P H utf8 e₂ (f₂+1) (s ++ t) st).1.ops).files := by
      intro h; rw [h]
      exact loop_extends P H utf8 e₂ (f₂+1) (s ++ t) st _ (FilesLe.refl _)
    cases hd : Hdr.decode P utf8 s with
    | error er => exact ext (by rw [loop_succ_error P H utf8 e₁ f₁ s st er hd])
    | ok v =>
      obtain ⟨hdr, r⟩ := v
      have hd2 := Hdr.decode_app P utf8 hd t
      cases hdr with
      | eoad => exact ext (by simp only [Repair.loop, hd])
      | start id name =>
        by_cases c1 : (alookup id st.id2out).isSome = true
        · exact ext (by simp only [Repair.loop, hd, c1, if_true])
        by_cases c2 : st.done.contains id = true
        · exact ext (by simp only [Repair.loop, hd, c1, c2, Bool.false_eq_true, ↓reduceIte])
        by_cases c3 : st.outNames.contains name = true
        · exact ext (by simp only [Repair.loop, hd, c1, c2, c3, Bool.false_eq_true, ↓reduceIte])
        · simp only [Repair.loop, hd, hd2, c1, c2, c3, Bool.false_eq_true, if_false]
          exact ih f₂ r t _ (by omega)
      | content id len =>
        cases c1 : alookup id st.id2out with
        | none => exact ext (by simp only [Repair.loop, hd, c1])
        | some idOut =>
          by_cases c2 : st.done.contains id = true
          · exact ext (by simp only [Repair.loop, hd, c1, c2, if_true])
          by_cases hlen : len ≤ r.length
          · have hl : (r.take len).length = len := by rw [List.length_take]; omega
            have hn1 : ¬ ((r.take len).length < len ∧ e₁ = true) := by omega
            have hn2 : ¬ ((r.take len).length < len ∧ e₂ = true) := by omega
            simp only [Repair.loop, hd, hd2, c1, c2, Bool.false_eq_true, if_false,
              List.take_append_of_le_length hlen, List.drop_append_of_le_length hlen, hn1, hn2]
            exact ih f₂ (r.drop len) t _ (by omega)
          · -- the content block is cut short in `s`: run 1 ends with what it has
            have hr : r.take len = r := List.take_of_length_le (by omega)
            have hdr0 : r.drop len = [] := List.drop_eq_nil_of_le (by omega)
            have hpre : r <+: (r ++ t).take len := by
              rw [List.take_append, hr]; exact List.prefix_append _ _
            -- final state of run 1
            have h1 : (specOps (Repair.loop P H utf8 e₁ (f₁+1) s st).1.ops).files =
                (specOps st.ops).files.map (appF idOut r) := by
              simp only [Repair.loop, hd, c1, c2, Bool.false_eq_true, if_false, hr, hdr0]
              split
              · exact specOps_content _ _ _ _ _
              · rw [loop_nil_fst]; exact specOps_content _ _ _ _ _
            rw [h1]
            -- run 2 extends its own state after the block
            simp only [Repair.loop, hd2, c1, c2, Bool.false_eq_true, if_false]
            split
            · rw [specOps_content]; exact FilesLe.map_app_both idOut hpre _
            · apply loop_extends
              rw [specOps_content]; exact FilesLe.map_app_both idOut hpre _
      | eof id hash =>
        cases c1 : alookup id st.id2out with
        | none => exact ext (by simp only [Repair.loop, hd, c1])
        | some idOut =>
          by_cases c2 : st.done.contains id = true
          · exact ext (by simp only [Repair.loop, hd, c1, c2, if_true])
          cases c3 : alookup id st.hashed with
          | none => exact ext (by simp only [Repair.loop, hd, c1, c2, c3, Bool.false_eq_true, ↓reduceIte])
          | some hh =>
            by_cases c4 : H hh ≠ hash
            · exact ext (by simp only [Repair.loop, hd, c1, c2, c3, Bool.false_eq_true, ↓reduceIte]; rw [if_pos c4])
            · simp only [Repair.loop, hd, hd2, c1, c2, c3, c4, Bool.false_eq_true, if_false]
              exact ih f₂ r t _ (by omega)


/-- the meaning of the op list `convert` issues = the spec state of the loop's final op list -/
theorem specOf_convert (d : Bytes) (e : Bool) :
    specOf (Repair.convert P H utf8 d e).ops =
      (specOps (Repair.loop P H utf8 e (d.length + 1) d {}).1.ops).files.map
        fun f => (f.name, f.content) := by
  have hends : ∀ (l : List (Nat × Nat)),
      l.map (fun (x : Nat × Nat) => match x with | (_, ido) => Op.end_ ido) =
        (l.map (·.2)).map Op.end_ := by
    intro l; rw [List.map_map]; rfl
  simp only [Repair.convert, specOf, List.foldl_append, hends, spec_ends, List.foldl_cons,
    List.foldl_nil, SpecState.step, specOps]

/-- **Repair is monotone in what it is given, for ARBITRARY byte strings**: the files recovered
    from `d₁` are, position by position, the first files recovered from `d₁ ++ t`, each with a
    prefix of its content (whatever the end conditions). -/
theorem convert_mono_files (d₁ t : Bytes) (e₁ e₂ : Bool) :
    FilesLe (specOps (Repair.loop P H utf8 e₁ (d₁.length + 1) d₁ {}).1.ops).files
      (specOps (Repair.loop P H utf8 e₂ ((d₁ ++ t).length + 1) (d₁ ++ t) {}).1.ops).files :=
  loop_mono P H utf8 e₁ e₂ _ _ d₁ t {} (by simp)

theorem convert_mono (d₁ d₂ : Bytes) (e₁ e₂ : Bool) (h : d₁ <+: d₂) :
    ∀ name c₁, (name, c₁) ∈ specOf (Repair.convert P H utf8 d₁ e₁).ops →
      ∃ c₂, (name, c₂) ∈ specOf (Repair.convert P H utf8 d₂ e₂).ops ∧ c₁ <+: c₂ := by
  obtain ⟨t, rfl⟩ := h
  intro name c₁ hmem
  rw [specOf_convert] at hmem ⊢
  obtain ⟨f, hf, hfe⟩ := List.mem_map.1 hmem
  simp only [Prod.mk.injEq] at hfe
  obtain ⟨rfl, rfl⟩ := hfe
  obtain ⟨g, hg, h1, h2⟩ := (convert_mono_files P H utf8 d₁ t e₁ e₂).mem f hf
  exact ⟨g.content, List.mem_map.2 ⟨g, hg, by rw [h1]⟩, h2⟩

end RepairMono

end MlaModel

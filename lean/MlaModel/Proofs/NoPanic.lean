/-
  No operation of the model answers the distinguished outcome `Err.panic _` — on ARBITRARY input and
  from ARBITRARY state.  `Err.panic` is answered only where a fuel runs out; these lemmas show the
  fuels are adequate (or that the function has no such branch at all).
-/
import MlaModel.Reader
import MlaModel.ReaderS
import MlaModel.ArchiveS
import MlaModel.Repair
import MlaModel.Encrypt
import MlaModel.Compress
namespace MlaModel

def Err.isPanic : Err → Bool
  | .panic _ => true
  | _ => false

/-- the answer is not `Err.panic _` -/
def NoPanic {α : Type} (r : Except Err α) : Prop := ∀ e, r = .error e → e.isPanic = false

theorem NoPanic.ok {α : Type} (x : α) : NoPanic (.ok x : Except Err α) := by
  intro e h; cases h

theorem NoPanic.err {α : Type} {e : Err} (h : e.isPanic = false) :
    NoPanic (.error e : Except Err α) := by
  intro e' h'; cases h'; exact h

/-- an error propagated from a call that does not panic -/
theorem NoPanic.of_err {α β : Type} {x : Except Err α} {e : Err} (hx : NoPanic x)
    (h : x = .error e) : NoPanic (.error e : Except Err β) :=
  NoPanic.err (hx e h)

theorem NoPanic.iff_ne {α : Type} (r : Except Err α) :
    NoPanic r ↔ ∀ site, r ≠ .error (.panic site) := by
  constructor
  · intro h site hr
    have := h _ hr
    simp [Err.isPanic] at this
  · intro h e he
    cases e with
    | panic site => exact absurd he (h site)
    | _ => rfl

/-- closes a goal `NoPanic (…)` that is an answer, a non-panic error, or an error propagated from a
    call already known not to panic (extended below, lemma by lemma) -/
syntax "np_leaf" : tactic
macro_rules | `(tactic| np_leaf) => `(tactic| exact NoPanic.ok _)
macro_rules | `(tactic| np_leaf) => `(tactic| exact NoPanic.err rfl)
/-- case analysis down to the leaves -/
macro "np" : tactic => `(tactic| repeat (first | np_leaf | split | dsimp only))

/-! ### parsers over byte strings -/

theorem takeExact_noPanic (n : Nat) (s : Bytes) : NoPanic (takeExact n s) := by
  unfold takeExact; np
macro_rules | `(tactic| np_leaf) => `(tactic| exact (takeExact_noPanic _ _).of_err (by assumption))

theorem readLe_noPanic (n : Nat) (s : Bytes) : NoPanic (readLe n s) := by
  unfold readLe; np
macro_rules | `(tactic| np_leaf) => `(tactic| exact (readLe_noPanic _ _).of_err (by assumption))

theorem Hdr.decode_noPanic (P : Params) (utf8 : Bytes → Bool) (s : Bytes) :
    NoPanic (Hdr.decode P utf8 s) := by
  unfold Hdr.decode; np
macro_rules | `(tactic| np_leaf) => `(tactic| exact (Hdr.decode_noPanic _ _ _).of_err (by assumption))

theorem Block.decode_noPanic (P : Params) (utf8 : Bytes → Bool) (s : Bytes) :
    NoPanic (Block.decode P utf8 s) := by
  unfold Block.decode; np

theorem deU64_noPanic (s : Bytes) : NoPanic (deU64 s) := by
  unfold deU64; np
macro_rules | `(tactic| np_leaf) => `(tactic| exact (deU64_noPanic _).of_err (by assumption))

theorem deU64s_noPanic (n : Nat) (s : Bytes) : NoPanic (deU64s n s) := by
  induction n generalizing s with
  | zero => exact NoPanic.ok _
  | succ n ih =>
    unfold deU64s
    repeat (first | np_leaf | exact (ih _).of_err (by assumption) | split | dsimp only)
macro_rules | `(tactic| np_leaf) => `(tactic| exact (deU64s_noPanic _ _).of_err (by assumption))

theorem deFileInfo_noPanic (s : Bytes) : NoPanic (deFileInfo s) := by
  unfold deFileInfo; np
macro_rules | `(tactic| np_leaf) => `(tactic| exact (deFileInfo_noPanic _).of_err (by assumption))

theorem deEntries_noPanic (utf8 : Bytes → Bool) (n : Nat) (s : Bytes) (acc : Index) :
    NoPanic (deEntries utf8 n s acc) := by
  induction n generalizing s acc with
  | zero => exact NoPanic.ok _
  | succ n ih =>
    unfold deEntries
    repeat (first | np_leaf | exact ih _ _ | split | dsimp only)
macro_rules | `(tactic| np_leaf) => `(tactic| exact deEntries_noPanic _ _ _ _)

theorem parseFooter_noPanic (utf8 : Bytes → Bool) (s : Bytes) : NoPanic (parseFooter utf8 s) := by
  unfold parseFooter; np

theorem parseSizes_noPanic (tbl : Bytes) : NoPanic (parseSizes tbl) := by
  unfold parseSizes; np
macro_rules | `(tactic| np_leaf) => `(tactic| exact (parseSizes_noPanic _).of_err (by assumption))

/-! ### `BlocksToFileReader` over a byte string: any state, any offsets -/

theorem Btf.new_noPanic (P : Params) (utf8 : Bytes → Bool) (s : Bytes) (offsets : List Nat) :
    NoPanic (Btf.new P utf8 s offsets) := by
  unfold Btf.new; np

/-- every jump increments `curOff` and needs `offsets[curOff+1]` to exist -/
theorem Btf.readAux_noPanic (P : Params) (utf8 : Bytes → Bool) (s : Bytes) (n : Nat) :
    ∀ (fuel : Nat) (b : Btf), b.offsets.length - b.curOff < fuel →
      NoPanic (Btf.readAux P utf8 s n fuel b) := by
  intro fuel
  induction fuel with
  | zero => intro b h; omega
  | succ fuel ih =>
    intro b h
    have hnext : ∀ o, b.offsets[b.curOff + 1]? = some o →
        NoPanic (Btf.readAux P utf8 s n fuel { b with curOff := b.curOff + 1, pos := o }) := by
      intro o ho
      apply ih
      have := (List.getElem?_eq_some_iff.1 ho).1
      simp only; omega
    unfold Btf.readAux
    repeat (first | np_leaf | exact hnext _ (by assumption) | split | dsimp only)

/-- **`Btf.read` never panics**, whatever the state (`curOff`, `offsets`, `pos`, `st`) and input. -/
theorem Btf.read_noPanic (P : Params) (utf8 : Bytes → Bool) (s : Bytes) (b : Btf) (n : Nat) :
    NoPanic (Btf.read P utf8 s b n) :=
  Btf.readAux_noPanic P utf8 s n _ b (by omega)

theorem Reader.getHash_noPanic (P : Params) (utf8 : Bytes → Bool) (s : Bytes) (ix : Index)
    (name : Bytes) : NoPanic (Reader.getHash P utf8 s ix name) := by
  unfold Reader.getHash; np

theorem Reader.getSize_noPanic (ix : Index) (name : Bytes) : NoPanic (Reader.getSize ix name) := by
  unfold Reader.getSize; np

/-! ### `linear_extract`: every iteration consumes at least the type byte -/

theorem takeExact_ok_iff (n : Nat) (s a r : Bytes) :
    takeExact n s = .ok (a, r) ↔ n ≤ s.length ∧ a = s.take n ∧ r = s.drop n := by
  unfold takeExact
  split
  · simp only [Except.ok.injEq, Prod.mk.injEq]
    constructor
    · rintro ⟨rfl, rfl⟩; exact ⟨by assumption, rfl, rfl⟩
    · rintro ⟨_, rfl, rfl⟩; exact ⟨rfl, rfl⟩
  · simp only [reduceCtorEq, false_iff]
    rintro ⟨h, _⟩; omega

theorem readLe_ok_iff (n : Nat) (s r : Bytes) (v : Nat) :
    readLe n s = .ok (v, r) ↔ n ≤ s.length ∧ v = unle (s.take n) ∧ r = s.drop n := by
  unfold readLe
  split
  · rename_i b r' hb
    rw [takeExact_ok_iff] at hb
    obtain ⟨h1, rfl, rfl⟩ := hb
    simp only [Except.ok.injEq, Prod.mk.injEq]
    constructor
    · rintro ⟨rfl, rfl⟩; exact ⟨h1, rfl, rfl⟩
    · rintro ⟨_, rfl, rfl⟩; exact ⟨rfl, rfl⟩
  · rename_i e he
    simp only [reduceCtorEq, false_iff]
    rintro ⟨h, _⟩
    have : takeExact n s = .ok (s.take n, s.drop n) := (takeExact_ok_iff _ _ _ _).2 ⟨h, rfl, rfl⟩
    rw [this] at he; cases he

/-- a decoded header consumed at least one byte (the block type) -/
theorem Hdr.decode_shorter {P : Params} {utf8 : Bytes → Bool} {s r : Bytes} {h : Hdr}
    (hd : Hdr.decode P utf8 s = .ok (h, r)) : r.length < s.length := by
  unfold Hdr.decode at hd
  split at hd
  · simp at hd
  · rename_i t r0
    simp only [List.length_cons]
    repeat' (first | (simp at hd; done) | split at hd)
    all_goals
      simp_all only [Except.ok.injEq, Prod.mk.injEq, readLe_ok_iff, takeExact_ok_iff]
      simp only [← hd.2, List.length_drop]
      omega

/-! #### `read_to_end` terminates: every non-empty read makes progress -/

/-- a non-empty read either moves forward inside the stream or uses up an offset -/
theorem Btf.readAux_progress (P : Params) (utf8 : Bytes → Bool) (s : Bytes) (n : Nat) :
    ∀ (fuel : Nat) (b b' : Btf) (out : Bytes), Btf.readAux P utf8 s n fuel b = .ok (b', out) →
      b'.offsets = b.offsets ∧
      (out ≠ [] → (b'.curOff = b.curOff ∧ b.pos < b'.pos ∧ b'.pos ≤ s.length) ∨
        (b.curOff < b'.curOff ∧ b'.curOff < b.offsets.length)) := by
  intro fuel
  induction fuel with
  | zero => intro b b' out h; simp [Btf.readAux] at h
  | succ fuel ih =>
    intro b b' out h
    have hnext : ∀ o, b.offsets[b.curOff + 1]? = some o →
        Btf.readAux P utf8 s n fuel { b with curOff := b.curOff + 1, pos := o } = .ok (b', out) →
        b'.offsets = b.offsets ∧
        (out ≠ [] → (b'.curOff = b.curOff ∧ b.pos < b'.pos ∧ b'.pos ≤ s.length) ∨
          (b.curOff < b'.curOff ∧ b'.curOff < b.offsets.length)) := by
      intro o ho h'
      obtain ⟨h1, h2⟩ := ih _ _ _ h'
      have hl := (List.getElem?_eq_some_iff.1 ho).1
      refine ⟨h1, fun hne => Or.inr ?_⟩
      simp only at h2
      rcases h2 hne with h3 | h3 <;> omega
    have hmove : ∀ r : Except Err (Btf × Bytes),
        (match b.offsets[b.curOff + 1]? with
          | none => (.error .state : Except Err (Btf × Bytes))
          | some o => Btf.readAux P utf8 s n fuel { b with curOff := b.curOff + 1, pos := o }) =
          .ok (b', out) →
        b'.offsets = b.offsets ∧
        (out ≠ [] → (b'.curOff = b.curOff ∧ b.pos < b'.pos ∧ b'.pos ≤ s.length) ∨
          (b.curOff < b'.curOff ∧ b'.curOff < b.offsets.length)) := by
      intro _ h'
      split at h'
      · cases h'
      · exact hnext _ (by assumption) h'
    unfold Btf.readAux at h
    split at h
    · -- finish
      simp only [Except.ok.injEq, Prod.mk.injEq] at h
      obtain ⟨rfl, rfl⟩ := h
      exact ⟨rfl, fun hne => absurd rfl hne⟩
    · -- inFile
      rename_i rem hst
      simp only [Except.ok.injEq, Prod.mk.injEq] at h
      obtain ⟨rfl, rfl⟩ := h
      refine ⟨rfl, fun hne => Or.inl ⟨rfl, ?_, ?_⟩⟩
      · have := List.length_pos_iff.2 hne
        simp only; omega
      · have h1 := List.length_pos_iff.2 hne
        have h2 : ((s.drop b.pos).take (min rem n)).length ≤ s.length - b.pos := by
          simp only [List.length_take, List.length_drop]; omega
        simp only; omega
    · -- ready
      dsimp only at h
      split at h
      · cases h
      · rename_i id len r hd
        have hsh := Hdr.decode_shorter hd
        simp only [List.length_drop] at hsh
        split at h
        · exact hmove (.error .state) h
        · simp only [Except.ok.injEq, Prod.mk.injEq] at h
          obtain ⟨rfl, rfl⟩ := h
          refine ⟨rfl, fun _ => Or.inl ⟨rfl, ?_, ?_⟩⟩
          · simp only; omega
          · have : (r.take (min len n)).length ≤ r.length := by simp; omega
            simp only; omega
      · rename_i id g r hd
        split at h
        · exact hmove (.error .state) h
        · simp only [Except.ok.injEq, Prod.mk.injEq] at h
          obtain ⟨rfl, rfl⟩ := h
          exact ⟨rfl, fun hne => absurd rfl hne⟩
      · split at h
        · exact hmove (.error .state) h
        · cases h
      · cases h

/-- the number of reads `read_to_end` can still need: `(offsets left) × (|s| + 1) + (bytes left)` -/
def Btf.budget (s : Bytes) (b : Btf) : Nat :=
  (b.offsets.length - b.curOff) * (s.length + 1) + (s.length - b.pos)

theorem Btf.read_budget (P : Params) (utf8 : Bytes → Bool) (s : Bytes) (n : Nat) (b b' : Btf)
    (out : Bytes) (h : Btf.read P utf8 s b n = .ok (b', out)) (hne : out ≠ []) :
    Btf.budget s b' < Btf.budget s b := by
  obtain ⟨h1, h2⟩ := Btf.readAux_progress P utf8 s n _ b b' out h
  unfold Btf.budget
  rw [h1]
  rcases h2 hne with ⟨h3, h4, h5⟩ | ⟨h3, h4⟩
  · rw [h3]; omega
  · have e1 : b.offsets.length - b.curOff = (b.offsets.length - b'.curOff) + (b'.curOff - b.curOff) := by
      omega
    rw [e1, Nat.add_mul]
    have : (s.length + 1) ≤ (b'.curOff - b.curOff) * (s.length + 1) :=
      Nat.le_mul_of_pos_left _ (by omega)
    omega

/-- **`read_to_end` terminates on any input**: with more fuel than the budget of the state,
    `Btf.readAll` never panics (the budget is at most `(offsets.length + 1) × (|s| + 1)`, which is
    the fuel `Reader.getFile` uses; `|s| + 2` would NOT be enough for a hostile offsets list). -/
theorem Btf.readAll_noPanic (P : Params) (utf8 : Bytes → Bool) (s : Bytes) (n : Nat) :
    ∀ (fuel : Nat) (b : Btf), Btf.budget s b < fuel → NoPanic (Btf.readAll P utf8 s n fuel b) := by
  intro fuel
  induction fuel with
  | zero => intro b h; omega
  | succ fuel ih =>
    intro b h
    unfold Btf.readAll
    split
    · rename_i e he
      exact (Btf.read_noPanic P utf8 s b n).of_err he
    · rename_i b' out he
      split
      · exact NoPanic.ok _
      · rename_i hne
        have hb := Btf.read_budget P utf8 s n b b' out he hne
        have := ih b' (by omega)
        split
        · rename_i e he'
          exact this.of_err he'
        · exact NoPanic.ok _

theorem Btf.new_shape {P : Params} {utf8 : Bytes → Bool} {s : Bytes} {offsets : List Nat} {b : Btf}
    (h : Btf.new P utf8 s offsets = .ok b) : b.offsets = offsets ∧ b.curOff = 0 := by
  unfold Btf.new at h
  split at h
  · cases h
  · split at h
    · cases h
    · simp only [Except.ok.injEq] at h
      subst h; exact ⟨rfl, rfl⟩
    · cases h

/-- **`get_file` + `read_to_end` never panics**, for any stream, any index, any buffer size
    (with `n = 0` every read returns `[]` and `read_to_end` stops at once) -/
theorem Reader.getFile_noPanic (P : Params) (utf8 : Bytes → Bool) (s : Bytes) (ix : Index)
    (name : Bytes) (n : Nat) : NoPanic (Reader.getFile P utf8 s ix name n) := by
  unfold Reader.getFile
  split
  · exact NoPanic.err rfl
  · rename_i fi _
    split
    · rename_i e he
      exact (Btf.new_noPanic P utf8 s fi.offsets).of_err he
    · rename_i b hb
      obtain ⟨h1, h2⟩ := Btf.new_shape hb
      apply Btf.readAll_noPanic
      unfold Btf.budget
      rw [h1, h2, Nat.sub_zero, Nat.add_mul]
      omega

theorem Linear.loop_noPanic (P : Params) (utf8 : Bytes → Bool) (chosen : List Bytes) :
    ∀ (fuel : Nat) (s : Bytes) (m : List (Nat × Bytes)) (out : List (Bytes × Bytes)),
      s.length < fuel → NoPanic (Linear.loop P utf8 chosen fuel s m out) := by
  intro fuel
  induction fuel with
  | zero => intro s m out h; omega
  | succ fuel ih =>
    intro s m out h
    unfold Linear.loop
    split
    · np
    · rename_i id name r hd
      have := Hdr.decode_shorter hd
      exact ih _ _ _ (by omega)
    · rename_i id g r hd
      have := Hdr.decode_shorter hd
      exact ih _ _ _ (by omega)
    · rename_i id len r hd
      have := Hdr.decode_shorter hd
      exact ih _ _ _ (by simp; omega)
    · exact NoPanic.ok _

/-- **`linear_extract` never panics**: the fuel `|s| + 1` is adequate on any input. -/
theorem Linear.run_noPanic (P : Params) (utf8 : Bytes → Bool) (s : Bytes) (chosen : List Bytes) :
    NoPanic (Linear.run P utf8 s chosen) :=
  Linear.loop_noPanic P utf8 chosen _ s _ _ (by omega)

/-! ### repair: neither fuel nor the `repair-sync` branch -/

def Stop.isPanic : Stop → Bool
  | .errNextBlock e => e.isPanic
  | _ => false

/-- every started, not yet closed id has its running hash -/
def RepairSt.Sync (st : RepairSt) : Prop :=
  ∀ id, (alookup id st.id2out).isSome = true → st.done.contains id = false →
    (alookup id st.hashed).isSome = true

theorem alookup_cons_isSome {α} (k k' : Nat) (v : α) (l : List (Nat × α)) :
    (alookup k ((k', v) :: l)).isSome = (decide (k' = k) || (alookup k l).isSome) := by
  simp only [alookup]
  split <;> simp [*]

theorem alookup_append_isSome {α} (k k' : Nat) (v : α) (l : List (Nat × α)) :
    (alookup k (l ++ [(k', v)])).isSome = ((alookup k l).isSome || decide (k' = k)) := by
  induction l with
  | nil => simp [alookup]; split <;> simp [*]
  | cons x xs ih =>
    obtain ⟨a, b⟩ := x
    simp only [List.cons_append, alookup]
    split
    · simp
    · exact ih

theorem alookup_aerase_of_ne {α} (k k' : Nat) (l : List (Nat × α)) (h : k ≠ k') :
    alookup k (aerase k' l) = alookup k l := by
  induction l with
  | nil => rfl
  | cons x xs ih =>
    obtain ⟨a, b⟩ := x
    simp only [aerase]
    by_cases h1 : a = k'
    · have : ¬ a = k := by omega
      simp [h1, alookup]
      subst h1
      simp [this]
    · simp only [h1, if_false, alookup, ih]

theorem alookup_aupdate_isSome {α} (k k' : Nat) (f : α → α) (l : List (Nat × α)) :
    (alookup k (aupdate k' f l)).isSome = (alookup k l).isSome := by
  induction l with
  | nil => rfl
  | cons x xs ih =>
    obtain ⟨a, b⟩ := x
    simp only [aupdate]
    by_cases h1 : a = k'
    · simp only [h1, if_true, alookup]
      split <;> rfl
    · simp only [h1, if_false, alookup]
      split
      · rfl
      · exact ih

theorem Repair.loop_noPanic (P : Params) (H : Bytes → Bytes) (utf8 : Bytes → Bool) (endErr : Bool) :
    ∀ (fuel : Nat) (s : Bytes) (st : RepairSt), st.Sync → s.length < fuel →
      (Repair.loop P H utf8 endErr fuel s st).2.isPanic = false := by
  intro fuel
  induction fuel with
  | zero => intro s st _ h; omega
  | succ fuel ih =>
    intro s st hsync h
    unfold Repair.loop
    split
    · split <;> rfl
    · rename_i e _ hd
      exact Hdr.decode_noPanic P utf8 s e hd
    · rfl
    · -- start
      rename_i id name r hd
      have hlt := Hdr.decode_shorter hd
      split
      · rfl
      · split
        · rfl
        · split
          · rfl
          · rename_i h1 h2 h3
            apply ih _ _ _ (by omega)
            intro id' hs hdn
            simp only at hs hdn ⊢
            rw [alookup_cons_isSome]
            rw [alookup_append_isSome] at hs
            by_cases he : id = id'
            · simp [he]
            · have hne : id' ≠ id := fun e => he e.symm
              simp only [he, decide_false, Bool.or_false, Bool.false_or] at hs ⊢
              rw [alookup_aerase_of_ne _ _ _ hne]
              exact hsync id' hs hdn
    · -- content
      rename_i id len r hd
      have hlt := Hdr.decode_shorter hd
      split
      · rfl
      · rename_i idOut hout
        split
        · rfl
        · dsimp only
          split
          · rfl
          · apply ih _ _ _ (by simp; omega)
            intro id' hs hdn
            simp only at hs hdn ⊢
            rw [alookup_aupdate_isSome]
            exact hsync id' hs hdn
    · -- eof
      rename_i id hash r hd
      have hlt := Hdr.decode_shorter hd
      split
      · rfl
      · rename_i idOut hout
        split
        · rfl
        · rename_i hdn
          split
          · -- the `repair-sync` branch is unreachable
            rename_i hnone
            have := hsync id (by rw [hout]; rfl) (by simpa using hdn)
            rw [hnone] at this; simp at this
          · dsimp only
            split
            · rfl
            · apply ih _ _ _ (by omega)
              intro id' hs hdn'
              simp only [List.contains_cons, Bool.or_eq_false_iff, beq_eq_false_iff_ne] at hs hdn' ⊢
              rw [alookup_aerase_of_ne _ _ _ hdn'.1]
              exact hsync id' hs hdn'.2

/-- **repair never panics**: neither the fuel `|d| + 1` nor the `repair-sync` branch is reached,
    on any delivered bytes. -/
theorem Repair.convert_noPanic (P : Params) (H : Bytes → Bytes) (utf8 : Bytes → Bool) (d : Bytes)
    (endErr : Bool) : (Repair.convert P H utf8 d endErr).stop.isPanic = false := by
  have := Repair.loop_noPanic P H utf8 endErr (d.length + 1) d {}
    (by intro id h; simp [alookup] at h) (by omega)
  simp only [Repair.convert]
  exact this

/-! ### streams: a layer over a stream that never panics never panics -/

/-- the stream never answers `Err.panic _`, in any state -/
class StreamNoPanic (σ : Type) [Stream σ] : Prop where
  seek : ∀ (s : σ) (w : SeekFrom), NoPanic (Stream.seek s w)
  read : ∀ (s : σ) (n : Nat), NoPanic (Stream.read s n)

macro_rules | `(tactic| np_leaf) => `(tactic| exact (StreamNoPanic.seek _ _).of_err (by assumption))
macro_rules | `(tactic| np_leaf) => `(tactic| exact (StreamNoPanic.read _ _).of_err (by assumption))

instance : StreamNoPanic Cur where
  seek c w := by
    cases w <;> simp only [Stream.seek] <;> np
  read c n := by simp only [Stream.read]; np

section
variable {σ : Type} [Stream σ]

/-- `readUpTo` has no panic branch; moreover its fuel is not what stops it: with `limit ≤ fuel` the
    result is the same for every larger fuel (whatever the stream does) -/
theorem readUpTo_fuel (k : Nat) : ∀ (fuel : Nat) (s : σ) (limit : Nat), limit ≤ fuel →
    readUpTo fuel s limit = readUpTo (fuel + k) s limit := by
  intro fuel
  induction fuel with
  | zero =>
    intro s limit h
    have : limit = 0 := by omega
    subst this
    cases k <;> simp [readUpTo]
  | succ fuel ih =>
    intro s limit h
    rw [show fuel + 1 + k = (fuel + k) + 1 by omega]
    simp only [readUpTo]
    split
    · rfl
    · split
      · rfl
      · rename_i s' out _
        split
        · rfl
        · rename_i hne
          have hl : 0 < out.length := List.length_pos_iff.2 hne
          rw [ih s' (limit - out.length) (by omega)]

variable [StreamNoPanic σ]

theorem readUpTo_noPanic : ∀ (fuel : Nat) (s : σ) (limit : Nat), NoPanic (readUpTo fuel s limit) := by
  intro fuel
  induction fuel with
  | zero => intro s limit; exact NoPanic.ok _
  | succ fuel ih =>
    intro s limit
    unfold readUpTo
    repeat (first | np_leaf | exact (ih _ _).of_err (by assumption) | split | dsimp only)

end

macro_rules | `(tactic| np_leaf) => `(tactic| exact (readUpTo_noPanic _ _ _).of_err (by assumption))

section
variable {σ : Type} [Stream σ] [StreamNoPanic σ]

theorem readExactS_noPanic (s : σ) (n : Nat) : NoPanic (readExactS s n) := by
  unfold readExactS; np

end
macro_rules | `(tactic| np_leaf) => `(tactic| exact (readExactS_noPanic _ _).of_err (by assumption))

section
variable {σ : Type} [Stream σ] [StreamNoPanic σ]

theorem Hdr.decodeS_noPanic (P : Params) (utf8 : Bytes → Bool) (s : σ) :
    NoPanic (Hdr.decodeS P utf8 s) := by
  unfold Hdr.decodeS; np

end
macro_rules | `(tactic| np_leaf) => `(tactic| exact (Hdr.decodeS_noPanic _ _ _).of_err (by assumption))

section
variable {σ : Type} [Stream σ] [StreamNoPanic σ]

theorem BtfS.new_noPanic (P : Params) (utf8 : Bytes → Bool) (src : σ) (offsets : List Nat) :
    NoPanic (BtfS.new P utf8 src offsets) := by
  unfold BtfS.new; np

theorem BtfS.readAux_noPanic (P : Params) (utf8 : Bytes → Bool) (n : Nat) :
    ∀ (fuel : Nat) (b : BtfS σ), b.offsets.length - b.curOff < fuel →
      NoPanic (BtfS.readAux P utf8 n fuel b) := by
  intro fuel
  induction fuel with
  | zero => intro b h; omega
  | succ fuel ih =>
    intro b h
    have hnext : ∀ o (src : σ), b.offsets[b.curOff + 1]? = some o →
        NoPanic (BtfS.readAux P utf8 n fuel { b with src := src, curOff := b.curOff + 1 }) := by
      intro o src ho
      apply ih
      have := (List.getElem?_eq_some_iff.1 ho).1
      simp only; omega
    unfold BtfS.readAux
    repeat (first | np_leaf | exact hnext _ _ (by assumption) | split | dsimp only)

/-- `BlocksToFileReader::read` over any layer stack, from any state -/
theorem BtfS.read_noPanic (P : Params) (utf8 : Bytes → Bool) (b : BtfS σ) (n : Nat) :
    NoPanic (BtfS.read P utf8 b n) :=
  BtfS.readAux_noPanic P utf8 n _ b (by omega)

theorem parseFooterS_noPanic (utf8 : Bytes → Bool) (s : σ) : NoPanic (parseFooterS utf8 s).2 := by
  unfold parseFooterS; np

def ROut.isPanic : ROut → Bool
  | .err e => e.isPanic
  | _ => false

/-- one call on the archive reader, from ANY state (any index, any handle, any stream state — in
    particular the state a failed call left) -/
theorem ArS.step_noPanic (P : Params) (utf8 : Bytes → Bool) (a : ArS σ) (op : ROp) :
    (ArS.step P utf8 a op).2.isPanic = false := by
  cases op with
  | list => rfl
  | drop => rfl
  | getSize name => simp only [ArS.step]; split <;> rfl
  | getHash name =>
    simp only [ArS.step]
    split
    · rfl
    · split
      · rename_i e he
        exact StreamNoPanic.seek _ _ e he
      · split
        · rename_i e he
          exact Hdr.decodeS_noPanic P utf8 _ e he
        · rfl
        · rfl
  | getFile name =>
    simp only [ArS.step]
    split
    · rfl
    · split
      · rename_i e he
        exact BtfS.new_noPanic P utf8 _ _ e he
      · rfl
  | read n =>
    simp only [ArS.step]
    split
    · rfl
    · split
      · rename_i e he
        exact BtfS.read_noPanic P utf8 _ n e he
      · rfl

theorem ArS.run_noPanic (P : Params) (utf8 : Bytes → Bool) (a : ArS σ) (ops : List ROp) :
    ∀ o ∈ (ArS.run P utf8 a ops).2, o.isPanic = false := by
  induction ops generalizing a with
  | nil => simp [ArS.run]
  | cons op ops ih =>
    intro o ho
    simp only [ArS.run, List.mem_cons] at ho
    rcases ho with ho | ho
    · rw [ho]; exact ArS.step_noPanic P utf8 a op
    · exact ih _ o ho

end

/-! ### the parsed index is never larger than the input -/

theorem deU64_ok_iff (s r : Bytes) (v : Nat) :
    deU64 s = .ok (v, r) ↔ 8 ≤ s.length ∧ v = unle (s.take 8) ∧ r = s.drop 8 := by
  unfold deU64
  split
  · rename_i x hx
    obtain ⟨a, b⟩ := x
    rw [readLe_ok_iff] at hx
    simp only [Except.ok.injEq, Prod.mk.injEq]
    obtain ⟨h1, rfl, rfl⟩ := hx
    constructor
    · rintro ⟨rfl, rfl⟩; exact ⟨h1, rfl, rfl⟩
    · rintro ⟨_, rfl, rfl⟩; exact ⟨rfl, rfl⟩
  · rename_i e he
    simp only [reduceCtorEq, false_iff]
    rintro ⟨h, _⟩
    have : readLe 8 s = .ok (unle (s.take 8), s.drop 8) := (readLe_ok_iff _ _ _ _).2 ⟨h, rfl, rfl⟩
    rw [this] at he; cases he

theorem deU64s_ok {n : Nat} {s r : Bytes} {vs : List Nat} (h : deU64s n s = .ok (vs, r)) :
    vs.length = n ∧ r.length ≤ s.length := by
  induction n generalizing s vs r with
  | zero =>
    simp only [deU64s, Except.ok.injEq, Prod.mk.injEq] at h
    obtain ⟨rfl, rfl⟩ := h; simp
  | succ n ih =>
    unfold deU64s at h
    split at h
    · cases h
    · rename_i v r1 h1
      split at h
      · cases h
      · rename_i vs' r2 h2
        simp only [Except.ok.injEq, Prod.mk.injEq] at h
        obtain ⟨rfl, rfl⟩ := h
        obtain ⟨i1, i2⟩ := ih h2
        rw [deU64_ok_iff] at h1
        obtain ⟨_, _, rfl⟩ := h1
        simp only [List.length_drop] at i2
        simp only [List.length_cons, i1, true_and]
        omega

theorem deFileInfo_ok {s r : Bytes} {fi : FileInfo} (h : deFileInfo s = .ok (fi, r)) :
    8 * fi.offsets.length ≤ s.length ∧ r.length ≤ s.length := by
  unfold deFileInfo at h
  split at h
  · cases h
  · rename_i n r1 h1
    rw [deU64_ok_iff] at h1
    obtain ⟨_, _, rfl⟩ := h1
    split at h
    · cases h
    · rename_i hlen
      split at h
      · cases h
      · rename_i offs r2 h2
        obtain ⟨o1, o2⟩ := deU64s_ok h2
        split at h
        · cases h
        · rename_i size r3 h3
          rw [deU64_ok_iff] at h3
          obtain ⟨_, _, rfl⟩ := h3
          split at h
          · cases h
          · rename_i eof r4 h4
            rw [deU64_ok_iff] at h4
            obtain ⟨_, _, rfl⟩ := h4
            simp only [Except.ok.injEq, Prod.mk.injEq] at h
            obtain ⟨rfl, rfl⟩ := h
            simp only [List.length_drop] at *
            omega

theorem Index.insert_length_le (acc : Index) (name : Bytes) (fi : FileInfo) :
    (acc.insert name fi).length ≤ acc.length + 1 := by
  induction acc with
  | nil => simp [Index.insert]
  | cons x xs ih =>
    obtain ⟨n, v⟩ := x
    simp only [Index.insert]
    split
    · simp
    · simp only [List.length_cons]; omega

theorem Index.mem_insert (acc : Index) (name : Bytes) (fi : FileInfo) (e : Bytes × FileInfo)
    (h : e ∈ acc.insert name fi) : e ∈ acc ∨ e.2 = fi := by
  induction acc with
  | nil => simp only [Index.insert, List.mem_singleton] at h; right; rw [h]
  | cons x xs ih =>
    obtain ⟨n, v⟩ := x
    simp only [Index.insert] at h
    split at h
    · rcases List.mem_cons.1 h with h | h
      · right; rw [h]
      · left; exact List.mem_cons_of_mem _ h
    · rcases List.mem_cons.1 h with h | h
      · left; rw [h]; exact List.mem_cons_self
      · rcases ih h with h | h
        · left; exact List.mem_cons_of_mem _ h
        · right; exact h

theorem deEntries_alloc (utf8 : Bytes → Bool) {n : Nat} {s : Bytes} {acc ix : Index}
    (h : deEntries utf8 n s acc = .ok ix) :
    ix.length ≤ acc.length + n ∧ ∀ e ∈ ix, e ∈ acc ∨ 8 * e.2.offsets.length ≤ s.length := by
  induction n generalizing s acc with
  | zero =>
    simp only [deEntries, Except.ok.injEq] at h
    subst h; exact ⟨by simp, fun e he => Or.inl he⟩
  | succ n ih =>
    unfold deEntries at h
    split at h
    · cases h
    · rename_i len r h1
      rw [deU64_ok_iff] at h1
      obtain ⟨_, _, rfl⟩ := h1
      split at h
      · cases h
      · dsimp only at h
        split at h
        · cases h
        · split at h
          · cases h
          · rename_i fi r2 h2
            obtain ⟨f1, f2⟩ := deFileInfo_ok h2
            obtain ⟨i1, i2⟩ := ih h
            have hl := Index.insert_length_le acc ((s.drop 8).take len) fi
            simp only [List.length_drop] at f1 f2
            refine ⟨by omega, ?_⟩
            intro e he
            rcases i2 e he with h' | h'
            · rcases Index.mem_insert _ _ _ _ h' with h'' | h''
              · exact Or.inl h''
              · right; rw [h'']; omega
            · right; omega

/-- **allocation bound**: the index `parseFooter` builds has at most `|s| / 32` entries and every
    offsets list at most `|s| / 8` elements — never larger than the input. -/
theorem parseFooter_alloc (utf8 : Bytes → Bool) {s : Bytes} {ix : Index}
    (h : parseFooter utf8 s = .ok ix) :
    32 * ix.length ≤ s.length ∧ ∀ e ∈ ix, 8 * e.2.offsets.length ≤ s.length := by
  unfold parseFooter at h
  split at h
  · cases h
  · dsimp only at h
    split at h
    · cases h
    · split at h
      · cases h
      · rename_i n r h1
        rw [deU64_ok_iff] at h1
        obtain ⟨_, _, rfl⟩ := h1
        split at h
        · cases h
        · rename_i hlen
          obtain ⟨i1, i2⟩ := deEntries_alloc utf8 h
          simp only [List.length_drop, List.length_take, List.length_nil, Nat.zero_add] at *
          refine ⟨by omega, ?_⟩
          intro e he
          rcases i2 e he with h' | h'
          · simp at h'
          · omega

end MlaModel

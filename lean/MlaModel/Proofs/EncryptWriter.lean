/-
  L0 for the encryption writer: whatever the split of the plaintext into `write_all` calls (hence
  into `write` calls of at most `cbuf` bytes), the bytes emitted up to and including `finalize` are
  `sealS` of the concatenation — for every chunk size and every cipher-buffer size.
-/
import MlaModel.Encrypt
namespace MlaModel

@[simp] theorem xorAt_length (ks) (off) (p : Bytes) : (xorAt ks off p).length = p.length := by
  induction p generalizing off with
  | nil => rfl
  | cons b bs ih => simp [xorAt, ih]

theorem xorAt_append (ks) (off) (a b : Bytes) :
    xorAt ks off (a ++ b) = xorAt ks off a ++ xorAt ks (off + a.length) b := by
  induction a generalizing off with
  | nil => simp [xorAt]
  | cons x xs ih => simp [xorAt, ih, Nat.add_assoc, Nat.add_comm 1]

theorem encFull_succ_end (P : Params) (C : EncPrims) (n i : Nat) (p : Bytes) :
    encFull P C (n+1) i p = encFull P C n i p ++
      (xorAt (C.ks (i+n)) 0 ((p.drop (n*P.chunk)).take P.chunk) ++
       C.tag (i+n) (xorAt (C.ks (i+n)) 0 ((p.drop (n*P.chunk)).take P.chunk))) := by
  induction n generalizing i p with
  | zero => simp [encFull]
  | succ n ih =>
    rw [encFull, ih]
    have h2 : P.chunk + n * P.chunk = (n+1) * P.chunk := by rw [Nat.add_mul]; omega
    simp [encFull, List.drop_drop, h2, Nat.add_assoc, Nat.add_comm 1 n]

theorem encFull_congr (P : Params) (C : EncPrims) (n i : Nat) (p q : Bytes)
    (h : p.take (n * P.chunk) = q.take (n * P.chunk)) : encFull P C n i p = encFull P C n i q := by
  induction n generalizing i p q with
  | zero => rfl
  | succ n ih =>
    have hc : P.chunk ≤ (n+1) * P.chunk := by rw [Nat.add_mul]; omega
    have h1 : p.take P.chunk = q.take P.chunk := by
      have := congrArg (List.take P.chunk) h
      simpa [List.take_take, Nat.min_eq_left hc] using this
    have h2 : (p.drop P.chunk).take (n * P.chunk) = (q.drop P.chunk).take (n * P.chunk) := by
      have := congrArg (List.drop P.chunk) h
      have e : (n+1) * P.chunk - P.chunk = n * P.chunk := by rw [Nat.add_mul]; omega
      simpa [List.drop_take, e] using this
    simp [encFull, h1, ih (i+1) _ _ h2]

/-- writer invariant: `p` written so far, `out` emitted so far -/
structure EW.Inv (P : Params) (C : EncPrims) (w : EW) (p out : Bytes) : Prop where
  len : p.length = w.ctr * P.chunk + w.cur.length
  le : w.cur.length ≤ P.chunk
  cur : w.cur = xorAt (C.ks w.ctr) 0 (p.drop (w.ctr * P.chunk))
  out : out = encFull P C w.ctr 0 p ++ w.cur
  nz : w.cur = [] → w.ctr = 0

theorem EW.inv_init (P : Params) (C : EncPrims) : EW.Inv P C EW.init [] [] := by
  constructor <;> simp [EW.init, encFull, xorAt]

theorem EW.write_inv (P : Params) (C : EncPrims) (w : EW) (p out buf : Bytes)
    (h : EW.Inv P C w p out) (hb : buf ≠ []) :
    EW.Inv P C (w.write P C buf).1 (p ++ buf.take (w.write P C buf).2.1) (out ++ (w.write P C buf).2.2) ∧
    0 < (w.write P C buf).2.1 ∧ (w.write P C buf).2.1 ≤ buf.length := by
  obtain ⟨hlen, hle, hcur, hout, hnz⟩ := h
  have hc := P.hchunk
  have hcb := P.hcbuf
  have hbl : 0 < buf.length := List.length_pos_iff.mpr hb
  by_cases hroll : w.cur.length = P.chunk
  · have hsz : (w.write P C buf).2.1 = min (min P.cbuf buf.length) P.chunk := by
      simp [EW.write, hroll]
    have hst : (w.write P C buf).1 =
        ⟨xorAt (C.ks (w.ctr+1)) 0 (buf.take (min (min P.cbuf buf.length) P.chunk)), w.ctr+1⟩ := by
      simp [EW.write, hroll]
    have hem : (w.write P C buf).2.2 =
        C.tag w.ctr w.cur ++ xorAt (C.ks (w.ctr+1)) 0 (buf.take (min (min P.cbuf buf.length) P.chunk)) := by
      simp [EW.write, hroll]
    rw [hsz, hst, hem]
    generalize hs : min (min P.cbuf buf.length) P.chunk = size
    have hs1 : 0 < size := by omega
    have hs2 : size ≤ buf.length := by omega
    have hs3 : size ≤ P.chunk := by omega
    have htl : (buf.take size).length = size := by simp; omega
    have hpl : p.length = (w.ctr + 1) * P.chunk := by rw [hlen, hroll, Nat.add_mul]; omega
    have hk : w.ctr * P.chunk ≤ p.length := by omega
    refine ⟨⟨?_, ?_, ?_, ?_, ?_⟩, hs1, hs2⟩
    · simp [htl, hpl]
    · simp [htl]; exact hs3
    · show xorAt (C.ks (w.ctr+1)) 0 (buf.take size) = xorAt (C.ks (w.ctr+1)) 0 ((p ++ buf.take size).drop ((w.ctr+1) * P.chunk))
      rw [List.drop_append_of_le_length (by omega), List.drop_eq_nil_of_le (by omega)]; simp
    · show out ++ (C.tag w.ctr w.cur ++ xorAt (C.ks (w.ctr+1)) 0 (buf.take size)) = _
      rw [encFull_succ_end, encFull_congr P C w.ctr 0 (p ++ buf.take size) p
        (List.take_append_of_le_length hk)]
      have hX : ((p ++ buf.take size).drop (w.ctr * P.chunk)).take P.chunk = p.drop (w.ctr * P.chunk) := by
        rw [List.drop_append_of_le_length hk, List.take_append_of_le_length (by simp; omega),
            List.take_of_length_le (by simp; omega)]
      simp only [Nat.zero_add, hX, ← hcur, hout, List.append_assoc]
    · intro hnil
      have : (xorAt (C.ks (w.ctr+1)) 0 (buf.take size)).length = 0 := by
        have := congrArg List.length hnil; simpa using this
      simp [htl] at this; omega
  · have hlt : w.cur.length < P.chunk := by omega
    have hsz : (w.write P C buf).2.1 = min (min P.cbuf buf.length) (P.chunk - w.cur.length) := by
      simp [EW.write, hroll]
    have hst : (w.write P C buf).1 =
        ⟨w.cur ++ xorAt (C.ks w.ctr) w.cur.length (buf.take (min (min P.cbuf buf.length) (P.chunk - w.cur.length))), w.ctr⟩ := by
      simp [EW.write, hroll]
    have hem : (w.write P C buf).2.2 =
        xorAt (C.ks w.ctr) w.cur.length (buf.take (min (min P.cbuf buf.length) (P.chunk - w.cur.length))) := by
      simp [EW.write, hroll]
    rw [hsz, hst, hem]
    generalize hs : min (min P.cbuf buf.length) (P.chunk - w.cur.length) = size
    have hs1 : 0 < size := by omega
    have hs2 : size ≤ buf.length := by omega
    have hs3 : w.cur.length + size ≤ P.chunk := by omega
    have htl : (buf.take size).length = size := by simp; omega
    have hk : w.ctr * P.chunk ≤ p.length := by omega
    have hdl : (p.drop (w.ctr * P.chunk)).length = w.cur.length := by simp; omega
    refine ⟨⟨?_, ?_, ?_, ?_, ?_⟩, hs1, hs2⟩
    · simp [htl, hlen]; omega
    · simp [htl]; exact hs3
    · show w.cur ++ xorAt (C.ks w.ctr) w.cur.length (buf.take size) = _
      rw [List.drop_append_of_le_length hk, xorAt_append, ← hcur, hdl]; simp
    · show out ++ xorAt (C.ks w.ctr) w.cur.length (buf.take size) = _
      rw [encFull_congr P C w.ctr 0 (p ++ buf.take size) p (List.take_append_of_le_length hk), hout]
      simp [List.append_assoc]
    · intro hnil
      have : (w.cur ++ xorAt (C.ks w.ctr) w.cur.length (buf.take size)).length = 0 := by
        have := congrArg List.length hnil; simpa using this
      simp [htl] at this; omega

theorem EW.writeAll_inv (P : Params) (C : EncPrims) :
    ∀ (fuel : Nat) (w : EW) (p out buf : Bytes), EW.Inv P C w p out → buf.length < fuel →
      EW.Inv P C (EW.writeAll P C fuel w buf).1 (p ++ buf) (out ++ (EW.writeAll P C fuel w buf).2) := by
  intro fuel
  induction fuel with
  | zero => intro w p out buf _ h; omega
  | succ fuel ih =>
    intro w p out buf hinv hf
    by_cases hb : buf = []
    · subst hb; simpa [EW.writeAll] using hinv
    · obtain ⟨hi, hpos, hle⟩ := EW.write_inv P C w p out buf hinv hb
      have hrec := ih (w.write P C buf).1 (p ++ buf.take (w.write P C buf).2.1)
        (out ++ (w.write P C buf).2.2) (buf.drop (w.write P C buf).2.1) hi (by simp; omega)
      simp only [EW.writeAll, hb, if_false]
      simpa [List.append_assoc, List.take_append_drop] using hrec

theorem encFoldl_inv (P : Params) (C : EncPrims) (ps : List Bytes) :
    ∀ (w : EW) (p out : Bytes), EW.Inv P C w p out →
      EW.Inv P C (ps.foldl (encStepPiece P C) (w, out)).1 (p ++ ps.flatten)
        (ps.foldl (encStepPiece P C) (w, out)).2 := by
  induction ps with
  | nil => intro w p out h; simpa using h
  | cons a ps ih =>
    intro w p out h
    have h1 := EW.writeAll_inv P C (a.length + 1) w p out a h (by omega)
    have := ih _ _ _ h1
    simpa [List.foldl, encStepPiece, List.append_assoc] using this

/-- the invariant after any sequence of `write_all` calls -/
theorem encWritePieces_inv (P : Params) (C : EncPrims) (pieces : List Bytes) :
    EW.Inv P C (encWritePieces P C pieces).1 pieces.flatten (encWritePieces P C pieces).2 := by
  have hinv := encFoldl_inv P C pieces EW.init [] [] (EW.inv_init P C)
  simpa [encWritePieces] using hinv

/-- **L0** — split independence of the encryption writer. -/
theorem encWritePieces_seal (P : Params) (C : EncPrims) (pieces : List Bytes) :
    (encWritePieces P C pieces).2 ++ (encWritePieces P C pieces).1.finalize C = sealS P C pieces.flatten := by
  have hinv := encWritePieces_inv P C pieces
  generalize encWritePieces P C pieces = r at *
  obtain ⟨hlen, hle, hcur, hout, hnz⟩ := hinv
  have hc := P.hchunk
  have hn : (pieces.flatten.length - 1) / P.chunk = r.1.ctr := by
    by_cases hz : r.1.cur = []
    · have h0 := hnz hz
      have : r.1.cur.length = 0 := by simp [hz]
      rw [hlen, h0, this]; simp
    · have hpos : 0 < r.1.cur.length := List.length_pos_iff.mpr hz
      rw [hlen]
      have : r.1.ctr * P.chunk + r.1.cur.length - 1 = P.chunk * r.1.ctr + (r.1.cur.length - 1) := by
        rw [Nat.mul_comm]; omega
      rw [this, Nat.mul_add_div hc, Nat.div_eq_of_lt (by omega)]; simp
  show r.2 ++ C.tag r.1.ctr r.1.cur = sealS P C pieces.flatten
  simp only [sealS, hn, ← hcur, hout]

end MlaModel

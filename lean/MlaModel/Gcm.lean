/-
  MlaModel.Gcm — the incremental AES-GCM core `AesGcm256` (mla/src/crypto/aesgcm.rs:48-177) over
  ABSTRACT primitives.

  What is modelled is the *buffering logic* of the Rust struct: a CTR keystream applied at a running
  position, a GHASH state updated one 16-byte block at a time, and `current_block`, the ciphertext
  bytes not yet hashed because they do not fill a block.  The primitives are parameters
  (`GcmPrims`): the keystream byte at message offset `i` (i.e. from counter block 2 on — the Rust
  code seeks the `Ctr128BE` cipher to byte 16 in `new`), the GHASH step `Y ↦ (Y ⊕ X)·H`, the GHASH
  state after the associated data, and the final masking with `E_K(J0)` (`seek(0)` +
  `apply_keystream(tag)` in `into_tag`).

  `sealMsg` is the one-shot definition of NIST SP 800-38D with these primitives: ciphertext =
  message XOR keystream, tag = mask(GHASH(zero-padded ciphertext blocks ‖ length block)).

  Lengths: `bytes_encrypted` and the AAD length are `u64` in Rust and are multiplied by 8 for the
  length block; the model keeps them as `Nat` and truncates to 64 bits when the block is written
  (`be64`) — identical below 2^61 bytes, far above what GCM allows per message.
-/
import MlaModel.Encrypt
namespace MlaModel

/-- `n` big-endian bytes of `v` (the low `8·n` bits) -/
def beN : Nat → Nat → Bytes
  | 0, _ => []
  | n+1, v => beN n (v / 256) ++ [(v % 256).toUInt8]

def be64 (v : Nat) : Bytes := beN 8 v
def be32 (v : Nat) : Bytes := beN 4 v

/-- AES-GCM under one (key, nonce, associated data), reduced to what the buffering logic uses. -/
structure GcmPrims where
  /-- CTR keystream byte applied to offset `i` of the message (counter blocks 2, 3, …) -/
  ks : Nat → UInt8
  /-- one GHASH step on a 16-byte block `X`: `Y ↦ (Y ⊕ X)·H` -/
  ghStep : Bytes → Bytes → Bytes
  /-- GHASH state after `update_padded(associated_data)` -/
  ghInit : Bytes
  /-- final XOR with `E_K(J0)` (keystream block of counter 1) -/
  mask : Bytes → Bytes

/-- `GHash::update` over the first `k` whole 16-byte blocks of `b` (`chunks_exact`) -/
def ghFold (G : GcmPrims) : Nat → Bytes → Bytes → Bytes
  | 0, y, _ => y
  | k+1, y, b => ghFold G k (G.ghStep y (b.take 16)) (b.drop 16)

def pad16 (b : Bytes) : Bytes := b ++ List.replicate (16 - b.length) 0

/-- `GHash::update_padded`: whole blocks, then the zero-padded remainder if there is one -/
def ghPadded (G : GcmPrims) (y : Bytes) (b : Bytes) : Bytes :=
  let y1 := ghFold G (b.length / 16) y b
  let rem := b.drop (b.length / 16 * 16)
  if rem = [] then y1 else G.ghStep y1 (pad16 rem)

/-- `len(A) ‖ len(C)` in bits, each on 64 bits big-endian -/
def lenBlock (aadBits msgBits : Nat) : Bytes := be64 aadBits ++ be64 msgBits

/-- the fields of `AesGcm256` -/
structure GcmSt where
  /-- position of the CTR cipher, counted from the first data byte (cipher position − 16) -/
  pos : Nat
  /-- GHASH state -/
  gh : Bytes
  /-- `current_block`: ciphertext bytes not hashed yet -/
  cur : Bytes
  /-- `bytes_encrypted` -/
  n : Nat
  /-- `associated_data_bits_len` -/
  aadBits : Nat
deriving Repr, DecidableEq

/-- `AesGcm256::new(key, nonce, aad)` with `aad.len() = aadLen` -/
def Gcm.init (G : GcmPrims) (aadLen : Nat) : GcmSt := ⟨0, G.ghInit, [], 0, aadLen * 8⟩

/-- `AesGcm256::encrypt(buffer)`: new state and the buffer after encryption.
    1. if `current_block` is not empty: when even with `buffer` it stays below a block, encrypt,
       append, return; otherwise complete it with the first `16 − len` bytes, hash it, clear it;
    2. whole blocks of the rest: encrypt, hash;
    3. the remainder: encrypt, keep in `current_block`.
    (`16 - s.cur.length`: `current_block` is always shorter than 16 — `Gcm.Inv.cur_lt`; the Rust
    `split_at_mut` would panic otherwise.) -/
def Gcm.encrypt (G : GcmPrims) (s : GcmSt) (buf : Bytes) : GcmSt × Bytes :=
  if s.cur ≠ [] ∧ s.cur.length + buf.length < 16 then
    let c := xorAt G.ks s.pos buf
    ({ s with pos := s.pos + buf.length, cur := s.cur ++ c, n := s.n + buf.length }, c)
  else
    let k := if s.cur = [] then 0 else 16 - s.cur.length
    let c1 := xorAt G.ks s.pos (buf.take k)
    let gh1 := if s.cur = [] then s.gh else G.ghStep s.gh (s.cur ++ c1)
    let rest := buf.drop k
    let c2 := xorAt G.ks (s.pos + k) rest
    let q := rest.length / 16
    ({ pos := s.pos + buf.length, gh := ghFold G q gh1 c2, cur := c2.drop (q * 16),
       n := s.n + buf.length, aadBits := s.aadBits }, c1 ++ c2)

/-- `AesGcm256::into_tag` -/
def Gcm.intoTag (G : GcmPrims) (s : GcmSt) : Bytes :=
  G.mask (G.ghStep (ghPadded G s.gh s.cur) (lenBlock s.aadBits (s.n * 8)))

/-- `AesGcm256::decrypt(buffer)`: ONE-SHOT in the code — it hashes `buffer` from the current GHASH
    state, ignores `current_block` and `bytes_encrypted`, writes the length block with
    `buffer.len()`, and leaves the cipher at the first data byte again (`seek(0)` + 16 bytes).
    Returns the new state, the decrypted buffer and the tag. -/
def Gcm.decrypt (G : GcmPrims) (s : GcmSt) (buf : Bytes) : GcmSt × Bytes × Bytes :=
  let gh2 := G.ghStep (ghPadded G s.gh buf) (lenBlock s.aadBits (buf.length * 8))
  ({ s with gh := gh2, pos := 0 }, xorAt G.ks s.pos buf, G.mask gh2)

/-- `AesGcm256::decrypt_unauthenticated` -/
def Gcm.decryptUnauth (G : GcmPrims) (s : GcmSt) (buf : Bytes) : GcmSt × Bytes :=
  ({ s with pos := s.pos + buf.length }, xorAt G.ks s.pos buf)

/-- any sequence of `encrypt` calls followed by `into_tag`: concatenated ciphertext and tag -/
def Gcm.encryptPieces (G : GcmPrims) (aadLen : Nat) (pieces : List Bytes) : Bytes × Bytes :=
  let r := pieces.foldl (fun (acc : GcmSt × Bytes) p =>
    ((Gcm.encrypt G acc.1 p).1, acc.2 ++ (Gcm.encrypt G acc.1 p).2)) (Gcm.init G aadLen, [])
  (r.2, Gcm.intoTag G r.1)

/-- tag of a ciphertext: the standard definition -/
def Gcm.tagOf (G : GcmPrims) (aadLen : Nat) (ct : Bytes) : Bytes :=
  G.mask (G.ghStep (ghPadded G G.ghInit ct) (lenBlock (aadLen * 8) (ct.length * 8)))

/-- one-shot AES-GCM encryption: the specification -/
def Gcm.sealMsg (G : GcmPrims) (aadLen : Nat) (m : Bytes) : Bytes × Bytes :=
  (xorAt G.ks 0 m, Gcm.tagOf G aadLen (xorAt G.ks 0 m))

/-- one-shot verify-and-decrypt: the specification -/
def Gcm.openMsg (G : GcmPrims) (aadLen : Nat) (ct tag : Bytes) : Option Bytes :=
  if Gcm.tagOf G aadLen ct = tag then some (xorAt G.ks 0 ct) else none

/-! ### link with the encryption layer -/

/-- `build_nonce` (encrypt.rs:42-48): the 8-byte archive nonce followed by the chunk counter
    (`u32::to_be_bytes`) -/
def nonce12 (nonce8 : Bytes) (ctr : Nat) : Bytes := nonce8 ++ be32 ctr

/-- The encryption layer's per-chunk primitives obtained from a family of GCM instances, one per
    12-byte nonce (key fixed inside, associated data empty): chunk `i` is one GCM message under
    `nonce12 nonce8 i`. -/
def EncPrims.ofGcm (gcm : Bytes → GcmPrims) (nonce8 : Bytes) : EncPrims :=
  { ks := fun i => (gcm (nonce12 nonce8 i)).ks
    tag := fun i ct => Gcm.tagOf (gcm (nonce12 nonce8 i)) 0 ct }

end MlaModel

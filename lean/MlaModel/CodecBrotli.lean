/-
  MlaModel.CodecBrotli — the codec whose DECODING side is the RFC 7932 decoder of `MlaModel/Brotli`
  (a total Lean function, differential-tested against the `brotli` crate; see tools/brotli/REPORT.md)
  and whose encoding side is the stored-only encoder of `CodecStored` (real brotli streams made of
  uncompressed meta-blocks).  The driver uses it to decode the compressed blocks of REAL archives, so
  that what a compressed archive means is decided by the model alone, not by a table computed with
  the reference crate.
-/
import MlaModel.CodecStored
import MlaModel.Brotli.Decode
namespace MlaModel

/-- one complete stream, nothing after it -/
def brotliDec (strict : Bool) (c : Bytes) : Option Bytes :=
  let r := Brotli.decodeWith { strict := strict } ⟨c.toArray⟩
  match r.status with
  | .done => if r.consumed = c.length then some r.out.toList else none
  | _ => none

/-- streaming view: everything decodable from the bytes given, where the first stream ends if it
    does, whether the bytes are not a prefix of any valid stream -/
def brotliDecStream (strict : Bool) (s : Bytes) : Bytes × Option Bytes × Bool :=
  let r := Brotli.decodeWith { strict := strict } ⟨s.toArray⟩
  match r.status with
  | .done => (r.out.toList, some (s.drop r.consumed), false)
  | .needMore => (r.out.toList, none, false)
  | .error _ => (r.out.toList, none, true)

/-- `strict = false` follows the two leniencies of brotli-decompressor 4.0.2 (final padding, MLEN
    overshoot); `strict = true` is RFC 7932 to the letter. -/
def Codec.brotli (strict : Bool := false) : Codec :=
  { Codec.stored with dec := brotliDec strict, decStream := brotliDecStream strict }

end MlaModel

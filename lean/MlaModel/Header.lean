/-
  MlaModel.Header — the archive header of format v1 and the multi-recipient key wrapping, written
  from FORMAT.md ("MLA Header", "Encryption layer") and checked against `ArchiveHeader::{dump,from}`
  (mla/src/lib.rs:404-451) and ecc.rs.

  Layout:  "MLA" | u32 LE version = 1 | bincode(fixint) of `ArchivePersistentConfig`:
             layers byte (ENCRYPT = 0x01, COMPRESS = 0x02)
             option tag (0 = no encryption config, 1 = present), and if present
               ephemeral public key (32) | u64 LE count | count × (wrapped key 32 ‖ tag 16)
               archive nonce (8)
  Everything after the header is `data`.

  Errors of `decode` as in `ArchiveHeader::from`: a short magic/version is an `UnexpectedEof`, a
  wrong magic `WrongMagic`, another version `UnsupportedVersion`, every failure of the bincode part
  (short input, option tag other than 0/1, more than `bincodeLimit` bytes) `DeserializationError`.
-/
import MlaModel.Gcm
namespace MlaModel

def magic : Bytes := [0x4D, 0x4C, 0x41]     -- "MLA"
def formatVersion : Nat := 1
def layerEncrypt : Nat := 1
def layerCompress : Nat := 2
/-- lib.rs `BINCODE_MAX_DESERIALIZE` -/
def bincodeLimit : Nat := 512 * 1024 * 1024

/-- `EncryptionPersistentConfig` -/
structure EncHdr where
  /-- ephemeral public key -/
  pub : Bytes
  /-- one (wrapped key, tag) per recipient -/
  keys : List (Bytes × Bytes)
  /-- archive nonce -/
  nonce : Bytes
deriving Repr, DecidableEq

/-- `ArchivePersistentConfig` -/
structure Header where
  layers : Nat
  enc : Option EncHdr
deriving Repr, DecidableEq

def hasEnc (layers : Nat) : Bool := layers % 2 = 1
def hasComp (layers : Nat) : Bool := layers / 2 % 2 = 1

def encKeys (ks : List (Bytes × Bytes)) : Bytes := (ks.map fun kt => kt.1 ++ kt.2).flatten

def EncHdr.encode (e : EncHdr) : Bytes := e.pub ++ le64 e.keys.length ++ encKeys e.keys ++ e.nonce

def Header.encode (h : Header) : Bytes :=
  magic ++ le32 formatVersion ++ h.layers.toUInt8 ::
    (match h.enc with
     | none => [0]
     | some e => 1 :: e.encode)

/-- what `dump` can write: the layers fit a byte, the fixed-size arrays have their sizes, the
    bincode part stays below the serialization limit -/
def Header.WF (h : Header) : Prop :=
  h.layers < 256 ∧
  match h.enc with
  | none => True
  | some e => e.pub.length = 32 ∧ (∀ kt ∈ e.keys, kt.1.length = 32 ∧ kt.2.length = 16) ∧
      e.nonce.length = 8 ∧ 50 + 48 * e.keys.length ≤ bincodeLimit

/-- `n` entries of 48 bytes from the front of `s` (the caller checked that they are there) -/
def decKeys : Nat → Bytes → List (Bytes × Bytes)
  | 0, _ => []
  | n+1, s => (s.take 32, (s.drop 32).take 16) :: decKeys n (s.drop 48)

/-- the bincode part: `ArchivePersistentConfig` (fixint encoding, limit `bincodeLimit`) -/
def Header.decodeConfig (r : Bytes) : Except Err (Header × Bytes) :=
  match r with
  | layers :: tag :: r =>
    if tag = 0 then .ok (⟨layers.toNat, none⟩, r)
    else if tag = 1 then
      if r.length < 40 then .error .deser else
      let n := unle ((r.drop 32).take 8)
      if bincodeLimit < 50 + 48 * n then .error .deser else
      let body := r.drop 40
      if body.length < 48 * n + 8 then .error .deser else
      .ok (⟨layers.toNat, some ⟨r.take 32, decKeys n body, (body.drop (48 * n)).take 8⟩⟩,
           body.drop (48 * n + 8))
    else .error .deser
  | _ => .error .deser

/-- `ArchiveHeader::from`: the header and the bytes that follow it -/
def Header.decode (s : Bytes) : Except Err (Header × Bytes) :=
  match takeExact 3 s with
  | .error e => .error e
  | .ok (m, r) =>
    if m ≠ magic then .error .magic else
    match readLe 4 r with
    | .error e => .error e
    | .ok (v, r) =>
      if v ≠ formatVersion then .error .version else Header.decodeConfig r

/-! ### ECIES key wrapping (mla/src/crypto/ecc.rs) over abstract primitives -/

structure Ecies where
  /-- X25519(scalar, point), clamping included -/
  dh : Bytes → Bytes → Bytes
  /-- the base point -/
  base : Bytes
  /-- `derive_key`'s HKDF-SHA256 of the shared secret (no salt, info "KEY DERIVATION", 32 bytes) -/
  kdf : Bytes → Bytes
  /-- AES-256-GCM under the given key, nonce "ECIES NONCE0", empty associated data -/
  gcm : Bytes → GcmPrims

/-- one iteration of `store_key_for_multi_recipients`: `AesGcm256::new(dh_key, ECIES_NONCE, "")`,
    `encrypt(key)`, `into_tag()` -/
def Ecies.wrapOne (X : Ecies) (eph key recipient : Bytes) : Bytes × Bytes :=
  let G := X.gcm (X.kdf (X.dh eph recipient))
  let r := Gcm.encrypt G (Gcm.init G 0) key
  (r.2, Gcm.intoTag G r.1)

/-- `store_key_for_multi_recipients` with the ephemeral scalar `eph` (drawn from the CSPRNG in the
    code): ephemeral public key and one entry per recipient public key -/
def Ecies.wrap (X : Ecies) (eph key : Bytes) (recipients : List Bytes) : Bytes × List (Bytes × Bytes) :=
  (X.dh eph X.base, recipients.map (X.wrapOne eph key))

/-- the loop of `retrieve_key`: the first entry whose recomputed tag equals the stored one -/
def Ecies.tryKeys (G : GcmPrims) : List (Bytes × Bytes) → Option Bytes
  | [] => none
  | (ct, tag) :: r =>
    let d := Gcm.decrypt G (Gcm.init G 0) ct
    if d.2.2 = tag then some d.2.1 else Ecies.tryKeys G r

/-- `retrieve_key(persist, private_key)` -/
def Ecies.unwrap (X : Ecies) (secret pub : Bytes) (keys : List (Bytes × Bytes)) : Option Bytes :=
  Ecies.tryKeys (X.gcm (X.kdf (X.dh secret pub))) keys

end MlaModel

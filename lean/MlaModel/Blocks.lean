/-
  MlaModel.Blocks — `ArchiveFileBlock::{dump, from}` (mla/src/lib.rs), the typed block stream.

  Block-type bytes: FileStart 0x00, FileContent 0x01, EndOfArchiveData 0xFE, EndOfFile 0xFF.
  Layouts (all integers little-endian u64):
    start   : 00 | id | name length | name            (name length ≤ nameMax)
    content : 01 | id | length | data
    eof     : FF | id | 32-byte SHA-256
    eoad    : FE
-/
import MlaModel.Basic
namespace MlaModel

inductive Block where
  | start (id : Nat) (name : Bytes)
  | content (id : Nat) (data : Bytes)
  | eof (id : Nat) (hash : Bytes)
  | eoad
deriving Repr, DecidableEq, Inhabited

def tStart : UInt8 := 0x00
def tContent : UInt8 := 0x01
def tEoad : UInt8 := 0xFE
def tEof : UInt8 := 0xFF
def hashLen : Nat := 32

def Block.owner : Block → Option Nat
  | .start i _ => some i | .content i _ => some i | .eof i _ => some i | .eoad => none

def Block.encode : Block → Bytes
  | .start id name => tStart :: (le64 id ++ le64 name.length ++ name)
  | .content id data => tContent :: (le64 id ++ le64 data.length ++ data)
  | .eof id hash => tEof :: (le64 id ++ hash)
  | .eoad => [tEoad]

/-- A block the writer can produce: ids and lengths fit in a u64, the name obeys the limit and
    is valid UTF-8 (`utf8` is the validity predicate, a parameter), the hash has 32 bytes. -/
def Block.WF (P : Params) (utf8 : Bytes → Bool) : Block → Prop
  | .start id name => id < U64 ∧ name.length ≤ P.nameMax ∧ name.length < U64 ∧ utf8 name = true
  | .content id data => id < U64 ∧ data.length < U64
  | .eof id hash => id < U64 ∧ hash.length = hashLen
  | .eoad => True

/-- What `ArchiveFileBlock::from` returns: for a content block only the header; the source is
    left at the first data byte. -/
inductive Hdr where
  | start (id : Nat) (name : Bytes)
  | content (id : Nat) (len : Nat)
  | eof (id : Nat) (hash : Bytes)
  | eoad
deriving Repr, DecidableEq, Inhabited

/-- `ArchiveFileBlock::from`: parse one block header from the front of `s`. -/
def Hdr.decode (P : Params) (utf8 : Bytes → Bool) (s : Bytes) : Except Err (Hdr × Bytes) :=
  match s with
  | [] => .error .eof
  | t :: r =>
    if t = tStart then
      match readLe 8 r with
      | .error e => .error e
      | .ok (id, r) =>
        match readLe 8 r with
        | .error e => .error e
        | .ok (len, r) =>
          if P.nameMax < len then .error .nameTooLong else
          match takeExact len r with
          | .error e => .error e
          | .ok (name, r) => if utf8 name then .ok (.start id name, r) else .error .utf8
    else if t = tContent then
      match readLe 8 r with
      | .error e => .error e
      | .ok (id, r) =>
        match readLe 8 r with
        | .error e => .error e
        | .ok (len, r) => .ok (.content id len, r)
    else if t = tEof then
      match readLe 8 r with
      | .error e => .error e
      | .ok (id, r) =>
        match takeExact hashLen r with
        | .error e => .error e
        | .ok (h, r) => .ok (.eof id h, r)
    else if t = tEoad then .ok (.eoad, r)
    else .error .badBlockType

/-- Full block decode (header, then the announced payload). -/
def Block.decode (P : Params) (utf8 : Bytes → Bool) (s : Bytes) : Except Err (Block × Bytes) :=
  match Hdr.decode P utf8 s with
  | .error e => .error e
  | .ok (.start id name, r) => .ok (.start id name, r)
  | .ok (.eof id h, r) => .ok (.eof id h, r)
  | .ok (.eoad, r) => .ok (.eoad, r)
  | .ok (.content id len, r) =>
    match takeExact len r with
    | .error e => .error e
    | .ok (d, r) => .ok (.content id d, r)

def encodeAll (bs : List Block) : Bytes := (bs.map Block.encode).flatten

/-- Decode a whole byte string into blocks; stops at the first error or at the end of input.
    Returns the blocks and the error that stopped it (`none` = clean end of input). -/
def decodeAll (P : Params) (utf8 : Bytes → Bool) : Nat → Bytes → List Block × Option Err
  | 0, _ => ([], some (.panic "fuel"))
  | fuel+1, s =>
    if s = [] then ([], none) else
    match Block.decode P utf8 s with
    | .error e => ([], some e)
    | .ok (b, r) =>
      let (bs, e) := decodeAll P utf8 fuel r
      (b :: bs, e)

end MlaModel

/-
  MlaModel.Cli — the part of `mlar` (mlar/src/main.rs) that decides WHERE extraction writes.

  * `components`        : `std::path::Path::components` on Unix (bytes; '/' = 47, '.' = 46):
                          leading '/' (any number) = `RootDir`; pieces between separators; empty pieces
                          dropped; "." dropped except as the very first piece of a relative path
                          (`CurDir`); ".." = `ParentDir`; anything else `Normal`.
  * `getExtractedPath`  : main.rs:367-389 — `RootDir`/`CurDir` ignored, `ParentDir` refuses the member,
                          `Normal` pushed onto the output directory.
  * `createPath`        : the decision of `create_file` (main.rs:392-443) about the path it will open:
                          no parent ⇒ skipped; canonicalised parent must `starts_with` the canonical
                          output directory.  OS ASSUMPTION (stated, not proved): the output directory
                          is canonical and contains no symbolic links, so canonicalisation of a path
                          below it is the identity and `starts_with` is the lexical prefix test.
  * `FS`, `createFile`  : an abstract file system `path ↦ file bytes | directory` with the OS refusals
                          that matter here (a path the OS cannot represent — component or total length —;
                          a file where a directory is needed; a directory where a file is to be created).
  * `wholeExtract`      : `extract` without file arguments (main.rs:598-621): every name, in sorted
                          order, is created (truncated) first; then the content blocks are appended in
                          stream order by `linear_extract` to the files of the export map.
  * `eachExtract`       : `extract` with a name / glob (main.rs:623-652): per matching name, in sorted
                          order, create then copy the whole content.
  * `Policy`            : what happens when `create_file` returns an OS error.  `.skip` is the code
                          since `fix: D18` (`if let Ok(Some(..)) = create_file(..)`: the member has been
                          reported on stderr and is skipped, extraction goes on, status 0); `.abort` is
                          the code before that fix (`?` — the command ends with status 1; members created
                          before stay EMPTY in the whole-archive form, DESIGN §8 D18).  Theorems cover
                          both; the harness detects which one the tree has (a revert shows up as the
                          D18 violation).
  * `mkdirAll`          : `fs::create_dir_all`, including what it leaves behind when it fails half-way.
  Core-only (no imports beyond Basic) so that the driver links.
-/
import MlaModel.Basic
namespace MlaModel.Cli
open MlaModel

/-! ## `Path::components` (Unix) -/

inductive Comp where
  | rootDir
  | curDir
  | parentDir
  | normal (s : Bytes)
deriving DecidableEq, Repr

/-- split on '/' (47), keeping empty pieces: always at least one piece -/
def splitSlash : Bytes → List Bytes
  | [] => [[]]
  | b :: bs =>
    if b = 47 then [] :: splitSlash bs
    else match splitSlash bs with
      | [] => [[b]]
      | p :: ps => (b :: p) :: ps

/-- what a piece between separators becomes after the first position -/
def pieceComp (p : Bytes) : Option Comp :=
  if p = [] then none
  else if p = [46] then none
  else if p = [46, 46] then some .parentDir
  else some (.normal p)

def components (s : Bytes) : List Comp :=
  let ps := splitSlash s
  if s.head? = some 47 then .rootDir :: ps.filterMap pieceComp
  else if ps.head? = some [46] then .curDir :: ps.tail.filterMap pieceComp
  else ps.filterMap pieceComp

/-- absolute canonical path: the normal components below the root -/
abbrev PathC := List Bytes

/-- the loop of `get_extracted_path`, relative to the output directory -/
def relOf : List Comp → Option (List Bytes)
  | [] => some []
  | .parentDir :: _ => none
  | .normal p :: r => (relOf r).map (p :: ·)
  | .rootDir :: r => relOf r
  | .curDir :: r => relOf r

/-- normalised relative path of a member name (`none`: the name has a ".." component) -/
def norm (name : Bytes) : Option (List Bytes) := relOf (components name)

def getExtractedPath (out : PathC) (name : Bytes) : Option PathC :=
  (norm name).map (out ++ ·)

/-- `Path::parent` of an absolute path given by its normal components (`/` has none) -/
def parentOf (p : PathC) : Option PathC := if p = [] then none else some p.dropLast

/-- `create_file`'s decision: the path that will be opened with `File::create`, or `none` (skipped).
    Canonicalisation is the identity by the OS assumption above. -/
def createPath (out : PathC) (name : Bytes) : Option PathC :=
  match getExtractedPath out name with
  | none => none
  | some p =>
    match parentOf p with
    | none => none
    | some par => if out.isPrefixOf par then some p else none

/-- a component that names a directory entry: what `Component::Normal` can carry -/
def NormalComp (c : Bytes) : Prop := c ≠ [] ∧ c ≠ [46] ∧ c ≠ [46, 46] ∧ (47 : UInt8) ∉ c

instance (c : Bytes) : Decidable (NormalComp c) := by unfold NormalComp; infer_instance

/-! ## Abstract file system -/

inductive Node where
  | file (b : Bytes)
  | dir
deriving DecidableEq, Repr

abbrev FS := PathC → Option Node

def FS.set (fs : FS) (p : PathC) (n : Node) : FS := fun q => if q = p then some n else fs q

def Node.isFile : Option Node → Bool
  | some (.file _) => true
  | _ => false

/-- what the OS can represent (`ENAMETOOLONG` otherwise): a limit per component, checked when the
    component is looked up during the path walk, and a limit on the whole path string, checked before
    the walk starts -/
structure OS where
  nameOk : Bytes → Bool
  lenOk : PathC → Bool

def OS.rep (os : OS) (p : PathC) : Bool := p.all os.nameOk && os.lenOk p

/-- Linux: every component at most `nameMax` bytes, the absolute path at most `pathMax` bytes -/
def OS.unix (nameMax pathMax : Nat) : OS :=
  { nameOk := fun c => c.length ≤ nameMax
    lenOk := fun p => (p.map (fun c => c.length + 1)).sum ≤ pathMax }

/-- all prefixes of a path, shortest first -/
def inits : PathC → List PathC
  | [] => [[]]
  | c :: p => [] :: (inits p).map (c :: ·)

/-- how far `create_dir_all` gets: the longest prefix `acc ++ …` of `acc ++ rest` reached before a
    component the OS refuses or a file in the way -/
def goodPrefix (os : OS) (fs : FS) : PathC → List Bytes → PathC
  | acc, [] => acc
  | acc, c :: cs =>
    if os.nameOk c && !Node.isFile (fs (acc ++ [c])) then goodPrefix os fs (acc ++ [c]) cs else acc

/-- `fs::create_dir_all p` (std: `mkdir p`; on `NotFound` recurse on the parent, then `mkdir p`):
    a path string that is too long is refused before anything happens; otherwise the missing
    directories are created from the top down until a component the OS refuses (`ENAMETOOLONG`) or a
    file in the way (`ENOTDIR`) — the directories created up to there STAY.  Result: the file system
    and whether the call succeeded. -/
def mkdirAll (os : OS) (fs : FS) (p : PathC) : FS × Bool :=
  if !os.lenOk p then (fs, false)
  else
    let good := goodPrefix os fs [] p
    (fun q => if q.isPrefixOf good && (fs q).isNone then some .dir else fs q, good == p)

inductive Created where
  | err                -- an OS error: the command's `?` fires
  | skip               -- `Ok(None)`: member skipped with a message
  | made (p : PathC)   -- file created or truncated at `p`
deriving DecidableEq, Repr

/-- `File::create p`: the parent must be a directory and `p` must not be one; the file is created or
    truncated -/
def fileCreate (fs : FS) (par p : PathC) : FS × Created :=
  match fs par, fs p with
  | some .dir, some .dir => (fs, .err)
  | some .dir, _ => (fs.set p (.file []), .made p)
  | _, _ => (fs, .err)

/-- `if !containing_directory.exists() { fs::create_dir_all(containing_directory)? }` -/
def ensureParent (os : OS) (fs : FS) (par : PathC) : FS × Bool :=
  if (fs par).isSome then (fs, true) else mkdirAll os fs par

/-- `create_file(output_dir, fname)` on the abstract file system -/
def createFile (os : OS) (out : PathC) (fs : FS) (name : Bytes) : FS × Created :=
  match getExtractedPath out name with
  | none => (fs, .skip)
  | some p =>
    match parentOf p with
    | none => (fs, .skip)
    | some par =>
      match ensureParent os fs par with
      | (fs1, false) => (fs1, .err)
      | (fs1, true) =>
        -- canonicalize: fails only if the parent does not exist (it does); identity otherwise
        if !out.isPrefixOf par then (fs1, .skip)
        else
          -- `File::create`: the path must be representable
          if !os.rep p then (fs1, .err)
          else fileCreate fs1 par p

inductive Policy where
  | abort
  | skip
deriving DecidableEq, Repr

/-- the abstract content of an archive as the CLI sees it: the sorted member names (`list_files` +
    `sort`), and the content blocks in stream order (what `linear_extract` walks through) -/
structure Archive where
  names : List Bytes
  pieces : List (Bytes × Bytes)

/-- a member's bytes: its blocks in stream order (`get_file`, by C01/C12) -/
def Archive.content (a : Archive) (n : Bytes) : Bytes :=
  (a.pieces.filter (fun x => x.1 = n)).flatMap (·.2)

/-- first loop of the whole-archive form: the export map, or `none` when the command aborted -/
def createAll (pol : Policy) (os : OS) (out : PathC) : FS → List Bytes → FS × Option (List (Bytes × PathC))
  | fs, [] => (fs, some [])
  | fs, n :: ns =>
    match createFile os out fs n with
    | (fs1, .made p) =>
      match createAll pol os out fs1 ns with
      | (fs2, some ex) => (fs2, some ((n, p) :: ex))
      | (fs2, none) => (fs2, none)
    | (fs1, .skip) => createAll pol os out fs1 ns
    | (fs1, .err) =>
      match pol with
      | .abort => (fs1, none)
      | .skip => createAll pol os out fs1 ns

/-- `linear_extract` over the export map: each block is appended (`OpenOptions::append`) to the file
    of its member; a member without an entry is skipped -/
def appendPieces (ex : List (Bytes × PathC)) : FS → List (Bytes × Bytes) → FS × Bool
  | fs, [] => (fs, true)
  | fs, (n, d) :: r =>
    match ex.lookup n with
    | none => appendPieces ex fs r
    | some p =>
      match fs p with
      | some (.file b) => appendPieces ex (fs.set p (.file (b ++ d))) r
      | _ => (fs, false)

/-- `mlar extract -i A -o out` — final file system and whether the command ended with status 0 -/
def wholeExtract (pol : Policy) (os : OS) (out : PathC) (fs : FS) (a : Archive) : FS × Bool :=
  match createAll pol os out fs a.names with
  | (fs1, none) => (fs1, false)
  | (fs1, some ex) => appendPieces ex fs1 a.pieces

/-- second form: per selected name create and copy -/
def eachExtract (pol : Policy) (os : OS) (out : PathC) (content : Bytes → Bytes) : FS → List Bytes → FS × Bool
  | fs, [] => (fs, true)
  | fs, n :: ns =>
    match createFile os out fs n with
    | (fs1, .made p) => eachExtract pol os out content (fs1.set p (.file (content n))) ns
    | (fs1, .skip) => eachExtract pol os out content fs1 ns
    | (fs1, .err) =>
      match pol with
      | .abort => (fs1, false)
      | .skip => eachExtract pol os out content fs1 ns

/-- `mlar extract -i A -o out NAME` / `-g PATTERN`: `sel` is the matcher -/
def listedExtract (pol : Policy) (os : OS) (out : PathC) (fs : FS) (a : Archive) (sel : Bytes → Bool) : FS × Bool :=
  eachExtract pol os out a.content fs (a.names.filter sel)

/-- a fresh output directory: `out` and everything above it are directories, nothing else exists -/
def freshFS (out : PathC) : FS := fun q => if q.isPrefixOf out then some .dir else none

/-- executable form of `C16.Isolated` (sound by `C16.isolatedB_sound`): member `n` has no "..", at least
    one normal component, is representable, and no OTHER member of `N` has a normalised path that is a
    prefix of its own or that its own is a prefix of -/
def isolatedB (os : OS) (out : PathC) (N : List Bytes) (n : Bytes) : Bool :=
  match norm n with
  | none => false
  | some r =>
    !r.isEmpty && os.rep (out ++ r) && os.rep (out ++ r.dropLast) &&
    N.all (fun m => m == n ||
      match norm m with
      | none => true
      | some r' => !(r'.isPrefixOf r) && !(r.isPrefixOf r'))


end MlaModel.Cli

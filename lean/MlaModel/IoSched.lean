/-
  MlaModel.IoSched — sources and destinations that do not do what they are asked at once (C13).

  SOURCE side
  * `Throttled sched`: an in-memory source whose `k`-th `read(n)` returns `min n (sched k n)` bytes
    (fewer than asked, one at a time, …), `sched : call number → requested → returned`.
  * `EncFSrc`: the fail-safe encryption reader (`EncryptionLayerFailSafeReader`, encrypt.rs) over a
    *stream* source instead of the remaining bytes (`EncF`, MlaModel/Encrypt.lean): its loaders use
    `(&mut inner).take(CHUNK).read_to_end(..)` then `io::copy(take(TAG), sink())`
    (`load_in_cache_unauthenticated`) and `take(CHUNK + TAG).read_to_end(..)` (`load_in_cache`), both
    modelled by `readUpTo`.

  SINK side
  * `WriteDst`: something with `Write::write` (`none` = `ErrorKind::Interrupted`).
  * `Sink accept`: a destination that collects bytes; its `k`-th `write(buf)` accepts
    `accept k |buf|` = `some j` (the first `min j |buf|` bytes) or `none` (interrupted, nothing taken).
  * `writeAllW` = `std::io::Write::write_all`: loops on `write`, retries on `Interrupted`, fails with
    `WriteZero` on `Ok(0)`.
  * `PosW`: `PositionLayerWriter` (position.rs): `written = inner.write(buf)?; pos += written`.
  * `runOnW`: a sequence of `write_all` calls (what a writer stack issues on its destination).
-/
import MlaModel.Stream
import MlaModel.Encrypt
namespace MlaModel

/-! ### throttled source -/

/-- in-memory source with read schedule `sched` (call number, requested ↦ returned) -/
structure Throttled (sched : Nat → Nat → Nat) where
  data : Bytes
  pos : Nat
  calls : Nat := 0
deriving Repr, DecidableEq

instance (sched : Nat → Nat → Nat) : Stream (Throttled sched) where
  seek c
    | .start n => .ok ({ c with pos := n }, n)
    | .current d =>
      if 0 ≤ (c.pos : Int) + d then
        .ok ({ c with pos := ((c.pos : Int) + d).toNat }, ((c.pos : Int) + d).toNat)
      else .error .io
    | .fromEnd d =>
      if 0 ≤ (c.data.length : Int) + d then
        .ok ({ c with pos := ((c.data.length : Int) + d).toNat }, ((c.data.length : Int) + d).toNat)
      else .error .io
  read c n :=
    let out := (c.data.drop c.pos).take (min n (sched c.calls n))
    .ok ({ c with pos := c.pos + out.length, calls := c.calls + 1 }, out)

/-! ### the fail-safe encryption reader over a stream source -/

structure EncFSrc (ι : Type) where
  inner : ι
  cache : Bytes
  cpos : Nat
  chunkNo : Nat
  failed : Bool
  mode : FsMode

section
variable {ι : Type} [Stream ι]

/-- `load_in_cache_unauthenticated`: `take(CHUNK).read_to_end`, stop if nothing came, else skip the
    tag with `io::copy(take(TAG), sink())`, decrypt without verification.  An I/O error of the source
    is returned with the state unchanged. -/
def EncFSrc.loadUnauthS (P : Params) (C : EncPrims) (f : EncFSrc ι) : EncFSrc ι × Except Err Bool :=
  match readUpTo (P.chunk + 1) f.inner P.chunk with
  | .error e => (f, .error e)
  | .ok (i, data) =>
    if data = [] then ({ f with inner := i, cache := [], cpos := 0 }, .ok false)
    else match readUpTo (P.tagLen + 1) i P.tagLen with
      | .error e => ({ f with inner := i }, .error e)
      | .ok (i2, _) =>
        ({ f with inner := i2, cache := xorAt (C.ks f.chunkNo) 0 data, cpos := 0 }, .ok true)

/-- `load_in_cache`: `take(CHUNK + TAG).read_to_end`, split off the tag, verify, decrypt -/
def EncFSrc.loadAuthS (P : Params) (C : EncPrims) (f : EncFSrc ι) : EncFSrc ι × Except Err Bool :=
  match readUpTo (P.chunk + P.tagLen + 1) f.inner (P.chunk + P.tagLen) with
  | .error e => (f, .error e)
  | .ok (i, dt) =>
    if dt = [] then ({ f with inner := i, cache := [], cpos := 0 }, .ok false)
    else match openChunk P C f.chunkNo dt with
      | .error e => ({ f with inner := i, cache := [] }, .error e)
      | .ok pt => ({ f with inner := i, cache := pt, cpos := 0 }, .ok true)

def EncFSrc.fromCache (P : Params) (f : EncFSrc ι) (n : Nat) : EncFSrc ι × Bytes :=
  let out := (f.cache.drop f.cpos).take (min (P.chunk - f.cpos) n)
  ({ f with cpos := f.cpos + out.length }, out)

/-- `EncryptionLayerFailSafeReader::new`: chunk 0 is loaded without tag check in both modes -/
def EncFSrc.new (P : Params) (C : EncPrims) (mode : FsMode) (src : ι) : EncFSrc ι × Except Err Bool :=
  EncFSrc.loadUnauthS P C ⟨src, [], 0, 0, false, mode⟩

/-- one `read(buf)` with `buf.len() = n` (same control flow as `EncF.read`) -/
def EncFSrc.read (P : Params) (C : EncPrims) (f : EncFSrc ι) (n : Nat) : EncFSrc ι × Except Err Bytes :=
  match f.mode with
  | .unauthenticated =>
    if P.chunk - f.cpos = 0 then
      match EncFSrc.loadUnauthS P C { f with chunkNo := f.chunkNo + 1 } with
      | (f', .error e) => (f', .error e)
      | (f', .ok false) => (f', .ok [])
      | (f', .ok true) => let (f'', out) := EncFSrc.fromCache P f' n; (f'', .ok out)
    else let (f', out) := EncFSrc.fromCache P f n; (f', .ok out)
  | .authenticated =>
    if f.failed then (f, .ok []) else
    if P.chunk - f.cpos = 0 then
      match EncFSrc.loadAuthS P C { f with chunkNo := f.chunkNo + 1 } with
      | (f', .error .wrongTag) => ({ f' with failed := true }, .ok [])
      | (f', .error e) => (f', .error e)
      | (f', .ok false) => (f', .ok [])
      | (f', .ok true) => let (f'', out) := EncFSrc.fromCache P f' n; (f'', .ok out)
    else let (f', out) := EncFSrc.fromCache P f n; (f', .ok out)

/-- everything the reader delivers when read with buffers of `n` bytes until the first empty read
    or error (as `EncF.deliver`) -/
def EncFSrc.deliver (P : Params) (C : EncPrims) (n : Nat) : Nat → EncFSrc ι → Bytes
  | 0, _ => []
  | fuel+1, f =>
    match EncFSrc.read P C f n with
    | (_, .error _) => []
    | (f', .ok out) => if out = [] then [] else out ++ EncFSrc.deliver P C n fuel f'

end

/-! ### destinations -/

/-- `Write::write`: new state and `some k` = `Ok(k)` (`k ≤ |buf|`), `none` = `Interrupted` -/
class WriteDst (ω : Type) where
  write : ω → Bytes → ω × Option Nat

/-- `Write::write_all` -/
def writeAllW {ω : Type} [WriteDst ω] : Nat → ω → Bytes → ω × Except Err Unit
  | 0, w, buf => if buf = [] then (w, .ok ()) else (w, .error (.panic "write_all-fuel"))
  | fuel+1, w, buf =>
    if buf = [] then (w, .ok ()) else
    match WriteDst.write w buf with
    | (w', none) => writeAllW fuel w' buf                    -- Interrupted: retry
    | (w', some 0) => (w', .error .io)                       -- WriteZero
    | (w', some k) => writeAllW fuel w' (buf.drop k)

/-- a sequence of `write_all` calls, stopping at the first error (`fuel` bounds each call) -/
def runOnW {ω : Type} [WriteDst ω] (fuel : Nat) : List Bytes → ω → ω × Except Err Unit
  | [], w => (w, .ok ())
  | p :: ps, w =>
    match writeAllW fuel w p with
    | (w', .error e) => (w', .error e)
    | (w', .ok _) => runOnW fuel ps w'

/-- a collecting destination driven by the schedule `accept` (call number, offered ↦ accepted) -/
structure Sink (accept : Nat → Nat → Option Nat) where
  got : Bytes := []
  calls : Nat := 0
deriving Repr, DecidableEq

/-- one `write(buf)` on the sink -/
def Sink.write {accept : Nat → Nat → Option Nat} (s : Sink accept) (buf : Bytes) :
    Sink accept × Option Nat :=
  match accept s.calls buf.length with
  | none => ({ s with calls := s.calls + 1 }, none)
  | some j =>
    let k := min j buf.length
    ({ got := s.got ++ buf.take k, calls := s.calls + 1 }, some k)

instance (accept : Nat → Nat → Option Nat) : WriteDst (Sink accept) := ⟨Sink.write⟩

/-- `write_all` on a sink -/
abbrev writeAllS {accept : Nat → Nat → Option Nat} (fuel : Nat) (s : Sink accept) (buf : Bytes) :=
  writeAllW fuel s buf

/-- the calls a writer stack issues on its destination: one `write_all` per piece -/
abbrev runOnSink {accept : Nat → Nat → Option Nat} (fuel : Nat) (pieces : List Bytes)
    (s : Sink accept) := runOnW fuel pieces s

/-- `PositionLayerWriter`: counts what `write` RETURNS -/
structure PosW (ω : Type) where
  inner : ω
  pos : Nat := 0

/-- `PositionLayerWriter::write` -/
def PosW.write {ω : Type} [WriteDst ω] (p : PosW ω) (buf : Bytes) : PosW ω × Option Nat :=
  match WriteDst.write p.inner buf with
  | (i, none) => ({ p with inner := i }, none)
  | (i, some k) => ({ inner := i, pos := p.pos + k }, some k)

instance {ω : Type} [WriteDst ω] : WriteDst (PosW ω) := ⟨PosW.write⟩

end MlaModel

/-
  MlaModel.Keys — key files of `curve25519-parser` and the deterministic key commands of `mlar`.

  What is modelled (anchors in /repo):
  * `curve25519-parser/src/lib.rs`
      - `parse_openssl_25519_privkey_der` / `parse_openssl_25519_pubkey_der`: the DER readers, *as
        lenient as `der-parser` 10 / `asn1-rs` 0.7 make them* (see "DER" below);
      - `parse_openssl_25519_privkey` / `_pubkey`: PEM first, DER as fallback;
      - `parse_openssl_25519_pubkeys_pem_many`;
      - `generate_keypair`, `KeyPair::{public_as_pem, private_as_pem}`: fixed-prefix export.
  * the `pem` crate 3.0.5 (`parser.rs`, `lib.rs`): framing scanner `read_until` (with its
    reset-without-backtracking behaviour), header split, `decode_data` (Unicode white space is dropped,
    strict canonical base64), `encode` (64 columns, CRLF).
  * `mlar/src/main.rs` `keygen` (lines 797-834), `apply_derive`, `keyderive` (836-897) and README
    "deterministic key generation" / "hierarchical key infrastructure".

  Cryptographic primitives are a parameter (`KPrims`): theorems hold for every instance; the driver
  uses `KPrims.native` (MlaModel/Crypto).  No theorem depends on what a primitive computes.

  DER: what the crate accepts beyond the 48/44 bytes it writes (read off der-parser's code, checked by
  the harness against the crate on every run):
    - every TLV header may use any class bits and either value of the constructed bit (only the tag
      *number* is compared; exception: the BIT STRING must be primitive);
    - the tag number may be in high-tag-number form (`1f` + up to 5 base-128 bytes, accumulated in a
      u32 that silently drops overflowing bits);
    - lengths may be in long form with up to 126 length bytes as long as the value fits a u64;
    - the INTEGER (version) may have any value whose encoding has no redundant leading zero byte;
    - the OID is compared by content (3 bytes); the key OCTET STRING content must be exactly
      `04 20 ‖ key`; the BIT STRING may announce 0–7 unused bits if those bits of the last byte are 0;
    - bytes after the outer SEQUENCE are ignored.
-/
import MlaModel.Crypto.X25519
import MlaModel.Crypto.Hmac
import MlaModel.Crypto.ChaCha

namespace MlaModel.Keys

abbrev Bytes := List UInt8

/-! ## Base64 (standard alphabet, canonical padding required — `base64::engine::general_purpose::STANDARD`) -/

/-- character of a 6-bit value -/
def b64Char (n : Nat) : UInt8 :=
  if n < 26 then UInt8.ofNat (65 + n)
  else if n < 52 then UInt8.ofNat (71 + n)
  else if n < 62 then UInt8.ofNat (n - 4)
  else if n = 62 then 43 else 47

/-- 6-bit value of a character of the alphabet -/
def b64Val (c : UInt8) : Option Nat :=
  if 65 ≤ c.toNat ∧ c.toNat ≤ 90 then some (c.toNat - 65)
  else if 97 ≤ c.toNat ∧ c.toNat ≤ 122 then some (c.toNat - 71)
  else if 48 ≤ c.toNat ∧ c.toNat ≤ 57 then some (c.toNat + 4)
  else if c.toNat = 43 then some 62
  else if c.toNat = 47 then some 63
  else none

def padChar : UInt8 := 61

/-- the four characters of a full 3-byte group -/
def enc3 (a b c : UInt8) : Bytes :=
  [b64Char (a.toNat / 4), b64Char (a.toNat % 4 * 16 + b.toNat / 16),
   b64Char (b.toNat % 16 * 4 + c.toNat / 64), b64Char (c.toNat % 64)]

def b64Encode : Bytes → Bytes
  | a :: b :: c :: rest => enc3 a b c ++ b64Encode rest
  | [a, b] => [b64Char (a.toNat / 4), b64Char (a.toNat % 4 * 16 + b.toNat / 16),
               b64Char (b.toNat % 16 * 4), padChar]
  | [a] => [b64Char (a.toNat / 4), b64Char (a.toNat % 4 * 16), padChar, padChar]
  | [] => []

/-- the three bytes of four 6-bit values -/
def dec3 (v0 v1 v2 v3 : Nat) : Bytes :=
  [UInt8.ofNat (v0 * 4 + v1 / 16), UInt8.ofNat (v1 % 16 * 16 + v2 / 4), UInt8.ofNat (v2 % 4 * 64 + v3)]

/-- a group of four characters none of which is padding -/
def decFull (c0 c1 c2 c3 : UInt8) : Option Bytes :=
  match b64Val c0, b64Val c1, b64Val c2, b64Val c3 with
  | some v0, some v1, some v2, some v3 => some (dec3 v0 v1 v2 v3)
  | _, _, _, _ => none

/-- the last group: may end in `=` or `==`; the unused low bits must be zero -/
def decLast (c0 c1 c2 c3 : UInt8) : Option Bytes :=
  if c3 = padChar then
    if c2 = padChar then
      match b64Val c0, b64Val c1 with
      | some v0, some v1 => if v1 % 16 = 0 then some [UInt8.ofNat (v0 * 4 + v1 / 16)] else none
      | _, _ => none
    else
      match b64Val c0, b64Val c1, b64Val c2 with
      | some v0, some v1, some v2 =>
        if v2 % 4 = 0 then some [UInt8.ofNat (v0 * 4 + v1 / 16), UInt8.ofNat (v1 % 16 * 16 + v2 / 4)]
        else none
      | _, _, _ => none
  else decFull c0 c1 c2 c3

/-- strict decoder: length multiple of 4, padding only at the very end, canonical -/
def b64Decode : Bytes → Option Bytes
  | [] => some []
  | c0 :: c1 :: c2 :: c3 :: rest =>
    match rest with
    | [] => decLast c0 c1 c2 c3
    | _ :: _ =>
      match decFull c0 c1 c2 c3, b64Decode rest with
      | some g, some t => some (g ++ t)
      | _, _ => none
  | _ => none

/-! ## UTF-8 (`core::str::from_utf8`) -/

@[inline] def isCont (b : UInt8) : Bool := 0x80 ≤ b.toNat && b.toNat ≤ 0xBF
@[inline] def inRange (b : UInt8) (lo hi : Nat) : Bool := lo ≤ b.toNat && b.toNat ≤ hi

/-- well-formed UTF-8 (no overlong forms, no surrogates, at most U+10FFFF) -/
def utf8Valid : Bytes → Bool
  | [] => true
  | b0 :: r =>
    if b0.toNat < 0x80 then utf8Valid r
    else if inRange b0 0xC2 0xDF then
      match r with
      | b1 :: r' => isCont b1 && utf8Valid r'
      | _ => false
    else if inRange b0 0xE0 0xEF then
      match r with
      | b1 :: b2 :: r' =>
        (if b0.toNat = 0xE0 then inRange b1 0xA0 0xBF
         else if b0.toNat = 0xED then inRange b1 0x80 0x9F else isCont b1)
        && isCont b2 && utf8Valid r'
      | _ => false
    else if inRange b0 0xF0 0xF4 then
      match r with
      | b1 :: b2 :: b3 :: r' =>
        (if b0.toNat = 0xF0 then inRange b1 0x90 0xBF
         else if b0.toNat = 0xF4 then inRange b1 0x80 0x8F else isCont b1)
        && isCont b2 && isCont b3 && utf8Valid r'
      | _ => false
    else false

/-! ## PEM (`pem` 3.0.5) -/

def isWs (c : UInt8) : Bool := c = 32 || c = 9 || c = 10 || c = 13

/-- `parser.rs::skip_whitespace` -/
def skipWs : Bytes → Bytes
  | [] => []
  | c :: r => if isWs c then skipWs r else c :: r

/-- `l.length < n`, without walking the whole list -/
def shorterThan : Bytes → Nat → Bool
  | _, 0 => false
  | [], _ + 1 => true
  | _ :: r, n + 1 => shorterThan r n

theorem shorterThan_eq (l : Bytes) (n : Nat) : shorterThan l n = decide (l.length < n) := by
  induction l generalizing n with
  | nil => cases n <;> simp [shorterThan]
  | cons a l ih => cases n <;> simp [shorterThan, ih]

/-- `parser.rs::read_until`, the scanning loop.  State: `found` = number of marker bytes matched so
    far; on a mismatch `found` is reset to 0 and the current byte is **not** re-examined (so
    `------BEGIN ` does not contain the marker `-----BEGIN ` as far as this scanner is concerned).
    Answers the input after the marker and the length of the text before it. -/
def readUntilGo (m : Bytes) : Bytes → Nat → Nat → Option (Bytes × Nat)
  | [], _, _ => none
  | c :: rest, found, idx =>
    if shorterThan (c :: rest) (m.length - found) then none
    else
      let found' := if m[found]? = some c then found + 1 else 0
      if found' = m.length then some (rest, idx + 1 - found')
      else readUntilGo m rest found' (idx + 1)

/-- `read_until(input, marker)` for a non-empty marker: (remaining, matched) -/
def readUntil (m input : Bytes) : Option (Bytes × Bytes) :=
  match readUntilGo m input 0 0 with
  | some (rem, n) => some (rem, input.take n)
  | none => none

def beginMarker : Bytes := [45, 45, 45, 45, 45, 66, 69, 71, 73, 78, 32]      -- "-----BEGIN "
def endMarker : Bytes := [45, 45, 45, 45, 45, 69, 78, 68, 32]                -- "-----END "
def dashes : Bytes := [45, 45, 45, 45, 45]                                   -- "-----"
def lfLf : Bytes := [10, 10]
def crLfCrLf : Bytes := [13, 10, 13, 10]

/-- `extract_headers_and_data`: (headers, data) -/
def splitHeaders (payload : Bytes) : Bytes × Bytes :=
  match readUntil lfLf payload with
  | some (rest, h) => (h, rest)
  | none =>
    match readUntil crLfCrLf payload with
    | some (rest, h) => (h, rest)
    | none => ([], payload)

structure Captures where
  begin : Bytes
  headers : Bytes
  data : Bytes
  end_ : Bytes
deriving Repr, DecidableEq

/-- `parser_inner`: the framing of the first PEM block; (remaining input, captures) -/
def pemFrame (input : Bytes) : Option (Bytes × Captures) :=
  match readUntil beginMarker input with
  | none => none
  | some (i1, _) =>
    match readUntil dashes i1 with
    | none => none
    | some (i2, tag) =>
      match readUntil endMarker (skipWs i2) with
      | none => none
      | some (i4, payload) =>
        match readUntil dashes i4 with
        | none => none
        | some (i5, etag) =>
          let hd := splitHeaders payload
          some (skipWs i5, ⟨tag, hd.1, hd.2, etag⟩)

/-- `decode_data`, first half: drop every `char::is_whitespace` character.  `none` stands for "the data
    is not UTF-8, or contains a non-ASCII character that is not white space" — in both cases
    `pem::parse` fails (NotUtf8, resp. base64 InvalidByte). -/
def cleanData : Bytes → Option Bytes
  | [] => some []
  | c :: r =>
    if c.toNat < 0x80 then
      if c = 32 || inRange c 9 13 then cleanData r
      else match cleanData r with
        | some t => some (c :: t)
        | none => none
    else
      match r with
      | b1 :: r1 =>
        if c = 0xC2 && (b1 = 0x85 || b1 = 0xA0) then cleanData r1      -- U+0085, U+00A0
        else
          match r1 with
          | b2 :: r2 =>
            if (c = 0xE1 && b1 = 0x9A && b2 = 0x80)                    -- U+1680
              || (c = 0xE2 && b1 = 0x80 && (inRange b2 0x80 0x8A || b2 = 0xA8 || b2 = 0xA9 || b2 = 0xAF))
                                                                        -- U+2000–200A, 2028, 2029, 202F
              || (c = 0xE2 && b1 = 0x81 && b2 = 0x9F)                  -- U+205F
              || (c = 0xE3 && b1 = 0x80 && b2 = 0x80)                  -- U+3000
            then cleanData r2 else none
          | [] => none
      | [] => none

/-- pieces between line feeds (`n` line feeds give `n+1` pieces) -/
def splitLF : Bytes → List Bytes
  | [] => [[]]
  | c :: r =>
    match splitLF r with
    | [] => [[c]]          -- unreachable: `splitLF` never answers `[]`
    | l :: ls => if c = 10 then [] :: l :: ls else (c :: l) :: ls

/-- `str::lines()` as far as "does every line contain a colon" is concerned -/
def headerLines (h : Bytes) : List Bytes :=
  let ps := splitLF h
  match ps.getLast? with
  | some [] => ps.dropLast
  | _ => ps

/-- `HeaderMap::parse` on `as_utf8(headers)?.lines()` -/
def headersOk (h : Bytes) : Bool :=
  utf8Valid h && (headerLines h).all (fun l => l.contains 58)

structure Pem where
  tag : Bytes
  contents : Bytes
deriving Repr, DecidableEq

/-- `Pem::new_from_captures`; `none` = any `PemError` -/
def pemOfCaptures (c : Captures) : Option Pem :=
  if utf8Valid c.begin && !c.begin.isEmpty && utf8Valid c.end_ && !c.end_.isEmpty
      && (c.begin == c.end_) then
    match cleanData c.data with
    | none => none
    | some t =>
      match b64Decode t with
      | none => none
      | some d => if headersOk c.headers then some ⟨c.begin, d⟩ else none
  else none

/-- `pem::parse` -/
def pemParse (input : Bytes) : Option Pem :=
  match pemFrame input with
  | none => none
  | some (_, c) => pemOfCaptures c

/-- `pem::parse_many` with explicit fuel (each block consumes at least one byte, `pemParseMany`
    supplies enough): `none` = the first block that frames does not decode -/
def pemParseManyFuel : Nat → Bytes → Option (List Pem)
  | 0, _ => some []
  | fuel + 1, input =>
    if input.isEmpty then some []
    else match pemFrame input with
      | none => some []
      | some (rest, c) =>
        match pemOfCaptures c with
        | none => none
        | some p =>
          match pemParseManyFuel fuel rest with
          | none => none
          | some ps => some (p :: ps)

def pemParseMany (input : Bytes) : Option (List Pem) := pemParseManyFuel (input.length + 1) input

/-- text cut into lines of `w` characters (the last one may be shorter), each followed by `le` -/
def wrapLines (w : Nat) (le : Bytes) : Nat → Bytes → Bytes
  | 0, _ => []
  | fuel + 1, t =>
    if t.isEmpty then [] else t.take w ++ le ++ wrapLines w le fuel (t.drop w)

/-- `pem::encode_config` without headers: line width `w`, line ending `le` -/
def pemEncodeWith (w : Nat) (le : Bytes) (tag contents : Bytes) : Bytes :=
  let t := b64Encode contents
  beginMarker ++ tag ++ dashes ++ le ++ wrapLines w le t.length t ++ endMarker ++ tag ++ dashes ++ le

def crlf : Bytes := [13, 10]
def lf : Bytes := [10]

/-- `pem::encode` (default configuration: 64 columns, CRLF) -/
def pemEncode (tag contents : Bytes) : Bytes := pemEncodeWith 64 crlf tag contents

/-! ## DER as read by `der-parser` -/

/-- fails when fewer than `n` bytes are available (`nom::bytes::complete::take`, `Incomplete`) -/
def takeN : Nat → Bytes → Option (Bytes × Bytes)
  | 0, b => some ([], b)
  | _ + 1, [] => none
  | n + 1, x :: r =>
    match takeN n r with
    | some (a, t) => some (x :: a, t)
    | none => none

/-- continuation bytes of a high-tag-number identifier: at most 5, accumulated in a `u32` -/
def readTagLong : Nat → Nat → Bytes → Option (Nat × Bytes)
  | 0, _, _ => none
  | _ + 1, _, [] => none
  | f + 1, acc, b :: rest =>
    let acc' := (acc * 128 + b.toNat % 128) % 2 ^ 32
    if b.toNat < 128 then some (acc', rest) else readTagLong f acc' rest

structure Hdr where
  cls : Nat
  constructed : Bool
  tag : Nat
  len : Nat
deriving Repr, DecidableEq

/-- big-endian length bytes; `none` when the value does not fit a `u64` (`bytes_to_u64`) -/
def beLen : Bytes → Nat → Option Nat
  | [], u => some u
  | c :: r, u => if u / 2 ^ 56 ≠ 0 then none else beLen r (u * 256 + c.toNat)

/-- `asn1_rs::Header::from_der` -/
def readHdr : Bytes → Option (Hdr × Bytes)
  | [] => none
  | b0 :: r0 =>
    let cls := b0.toNat / 64
    let cons := b0.toNat / 32 % 2 = 1
    let tagAndRest : Option (Nat × Bytes) :=
      if b0.toNat % 32 = 31 then readTagLong 5 0 r0 else some (b0.toNat % 32, r0)
    match tagAndRest with
    | none => none
    | some (tag, r1) =>
      match r1 with
      | [] => none
      | l0 :: r2 =>
        if l0.toNat < 128 then some (⟨cls, cons, tag, l0.toNat⟩, r2)
        else if l0.toNat = 128 then none          -- indefinite
        else if l0.toNat = 255 then none          -- reserved
        else
          match takeN (l0.toNat - 128) r2 with
          | none => none
          | some (lb, r3) =>
            match beLen lb 0 with
            | none => none
            | some n => some (⟨cls, cons, tag, n⟩, r3)

/-- header with the expected tag number, then its content: (header, content, rest) -/
def readTlv (tag : Nat) (b : Bytes) : Option (Hdr × Bytes × Bytes) :=
  match readHdr b with
  | none => none
  | some (h, r) =>
    if h.tag ≠ tag then none
    else match takeN h.len r with
      | none => none
      | some (c, rest) => some (h, c, rest)

inductive KeyErr where
  | der            -- `BerError` / `NomError`
  | invalidData    -- `InvalidData`
  | unknownOid     -- `UnknownOid`
  | invalidPemTag  -- `InvalidPEMTag`
  | pem            -- `PemError` (only `parse_openssl_25519_pubkeys_pem_many` lets it through)
deriving Repr, DecidableEq

def KeyErr.tag : KeyErr → String
  | .der => "der" | .invalidData => "invalidData" | .unknownOid => "unknownOid"
  | .invalidPemTag => "invalidPemTag" | .pem => "pem"

/-- DER INTEGER content check of `der_read_element_content_as` -/
def integerOk : Bytes → Bool
  | [] => false
  | [_] => true
  | a :: b :: _ => !(a = 0 && b.toNat < 128)

def oidEd : Bytes := [0x2b, 0x65, 0x70]     -- 1.3.101.112
def oidX : Bytes := [0x2b, 0x65, 0x6e]      -- 1.3.101.110

/-- `SEQUENCE { OID }` whose content is exactly one OID element: the OID bytes -/
def readAlgId (b : Bytes) : Option (Bytes × Bytes) :=
  match readTlv 16 b with
  | none => none
  | some (_, c, rest) =>
    match readTlv 6 c with
    | some (_, oid, []) => some (oid, rest)
    | _ => none

/-- `parse_25519_private`: (OID content, OCTET STRING content) -/
def readPrivStruct (b : Bytes) : Option (Bytes × Bytes) :=
  match readTlv 16 b with
  | none => none
  | some (_, c, _) =>                       -- bytes after the outer SEQUENCE are ignored
    match readTlv 2 c with
    | none => none
    | some (_, ic, r1) =>
      if !integerOk ic then none
      else match readAlgId r1 with
        | none => none
        | some (oid, r2) =>
          match readTlv 4 r2 with
          | some (_, d, []) => some (oid, d)
          | _ => none

/-- DER BIT STRING content check (`der_read_content_bitstring`): the data after the unused-bits byte -/
def bitStringData (constructed : Bool) (c : Bytes) : Option Bytes :=
  if constructed then none
  else match c with
    | [] => none
    | u :: d =>
      if u.toNat > 7 then none
      else match d.getLast? with
        | none => some d
        | some l => if l.toNat % 2 ^ u.toNat = 0 then some d else none

/-- `parse_25519_public`: (OID content, BIT STRING data) -/
def readPubStruct (b : Bytes) : Option (Bytes × Bytes) :=
  match readTlv 16 b with
  | none => none
  | some (_, c, _) =>
    match readAlgId c with
    | none => none
    | some (oid, r1) =>
      match readTlv 3 r1 with
      | some (h, bc, []) =>
        (match bitStringData h.constructed bc with
         | some d => some (oid, d)
         | none => none)
      | _ => none

/-! ## Primitives -/

structure KPrims where
  sha512 : Bytes → Bytes
  /-- HKDF-SHA512 (salt, ikm, info) → 32 bytes -/
  hkdf512 : Bytes → Bytes → Bytes → Bytes
  /-- `ChaCha20Rng::from_seed(seed).fill_bytes(&mut [0u8; 32])` -/
  chacha32 : Bytes → Bytes
  /-- `PublicKey::from(&StaticSecret)`: X25519(clamp(scalar), 9) -/
  x25519Base : Bytes → Bytes
  /-- `CompressedEdwardsY::decompress` then `to_montgomery`; `none` when `y` is not on the curve -/
  edToMont : Bytes → Option Bytes

/-- sizes the rest relies on -/
structure KPrims.Laws (P : KPrims) : Prop where
  sha512_len : ∀ b, (P.sha512 b).length = 64
  chacha_len : ∀ s, (P.chacha32 s).length = 32
  base_len : ∀ s, (P.x25519Base s).length = 32

/-! ## The crate's parsers -/

variable (P : KPrims)

/-- `parse_openssl_25519_privkey_der`: the 32 bytes held by the returned `StaticSecret`
    (x25519-dalek 2.x stores them as given: **not** clamped) -/
def parsePrivDer (b : Bytes) : Except KeyErr Bytes :=
  match readPrivStruct b with
  | none => .error .der
  | some (oid, d) =>
    match d with
    | t :: l :: key =>
      if d.length ≠ 34 || t ≠ 4 || l ≠ 32 then .error .invalidData
      else if oid = oidEd then .ok ((P.sha512 key).take 32)
      else if oid = oidX then .ok key
      else .error .unknownOid
    | _ => .error .invalidData

/-- `parse_openssl_25519_pubkey_der`: the 32 bytes of the returned `PublicKey` -/
def parsePubDer (b : Bytes) : Except KeyErr Bytes :=
  match readPubStruct b with
  | none => .error .der
  | some (oid, d) =>
    if d.length ≠ 32 then .error .invalidData
    else if oid = oidEd then
      match P.edToMont d with
      | some u => .ok u
      | none => .error .invalidData
    else if oid = oidX then .ok d
    else .error .unknownOid

def publicTag : Bytes := [80, 85, 66, 76, 73, 67, 32, 75, 69, 89]          -- "PUBLIC KEY"
def privateTag : Bytes := [80, 82, 73, 86, 65, 84, 69, 32, 75, 69, 89]     -- "PRIVATE KEY"

/-- `parse_openssl_25519_pubkey`: PEM first, DER as fallback -/
def parsePub (b : Bytes) : Except KeyErr Bytes :=
  match pemParse b with
  | some p => if p.tag ≠ publicTag then .error .invalidPemTag else parsePubDer P p.contents
  | none => parsePubDer P b

/-- `parse_openssl_25519_privkey` -/
def parsePriv (b : Bytes) : Except KeyErr Bytes :=
  match pemParse b with
  | some p => if p.tag ≠ privateTag then .error .invalidPemTag else parsePrivDer P p.contents
  | none => parsePrivDer P b

/-- keys of a list of PEM blocks, stopping at the first failure -/
def parsePubBlocks : List Pem → Except KeyErr (List Bytes)
  | [] => .ok []
  | p :: ps =>
    if p.tag ≠ publicTag then .error .invalidPemTag
    else match parsePubDer P p.contents with
      | .error e => .error e
      | .ok k =>
        match parsePubBlocks ps with
        | .error e => .error e
        | .ok ks => .ok (k :: ks)

/-- `parse_openssl_25519_pubkeys_pem_many` -/
def parsePubMany (b : Bytes) : Except KeyErr (List Bytes) :=
  match pemParseMany b with
  | none => .error .pem
  | some ps => parsePubBlocks P ps

/-! ## Export (`generate_keypair`, `KeyPair`) -/

def privPrefix : Bytes :=
  [0x30, 0x2e, 0x02, 0x01, 0x00, 0x30, 0x05, 0x06, 0x03, 0x2b, 0x65, 0x6e, 0x04, 0x22, 0x04, 0x20]
def pubPrefix : Bytes :=
  [0x30, 0x2a, 0x30, 0x05, 0x06, 0x03, 0x2b, 0x65, 0x6e, 0x03, 0x21, 0x00]
/-- the same two shapes with the Ed25519 OID: what `openssl genpkey -algorithm ed25519` writes -/
def privPrefixEd : Bytes :=
  [0x30, 0x2e, 0x02, 0x01, 0x00, 0x30, 0x05, 0x06, 0x03, 0x2b, 0x65, 0x70, 0x04, 0x22, 0x04, 0x20]
def pubPrefixEd : Bytes :=
  [0x30, 0x2a, 0x30, 0x05, 0x06, 0x03, 0x2b, 0x65, 0x70, 0x03, 0x21, 0x00]

def exportPrivDer (secret : Bytes) : Bytes := privPrefix ++ secret
def exportPubDer (pub : Bytes) : Bytes := pubPrefix ++ pub
def exportPrivPem (secret : Bytes) : Bytes := pemEncode privateTag (exportPrivDer secret)
def exportPubPem (pub : Bytes) : Bytes := pemEncode publicTag (exportPubDer pub)
def exportPrivDerEd (seed : Bytes) : Bytes := privPrefixEd ++ seed
def exportPubDerEd (point : Bytes) : Bytes := pubPrefixEd ++ point

/-- strict readers: exactly what the crate writes -/
def strictPrivDer (b : Bytes) : Option Bytes :=
  if b.take 16 = privPrefix ∧ b.length = 48 then some (b.drop 16) else none
def strictPubDer (b : Bytes) : Option Bytes :=
  if b.take 12 = pubPrefix ∧ b.length = 44 then some (b.drop 12) else none

structure KeyPair where
  privateDer : Bytes
  publicDer : Bytes
deriving Repr, DecidableEq

/-- `generate_keypair` from the 32 bytes drawn from the generator -/
def keyPairOf (secret : Bytes) : KeyPair :=
  ⟨exportPrivDer secret, exportPubDer (P.x25519Base secret)⟩

/-- the two files `mlar keygen` / `mlar keyderive` write: `<out>` (private, DER) and `<out>.pub` (PEM) -/
structure KeyFiles where
  priv : Bytes
  pub : Bytes
deriving Repr, DecidableEq

def filesOf (kp : KeyPair) : KeyFiles := ⟨kp.privateDer, pemEncode publicTag kp.publicDer⟩

/-! ## `mlar keygen --seed` -/

/-- README step 2 / main.rs:816: `prng_seed = SHA512(seed as UTF-8)[0..32]` -/
def seedToRng (seed : Bytes) : Bytes := (P.sha512 seed).take 32

/-- README step 3: the 32 secret bytes are the first 32 bytes of the ChaCha20 generator -/
def keygenSecret (seed : Bytes) : Bytes := P.chacha32 (seedToRng P seed)

def keygen (seed : Bytes) : KeyFiles := filesOf (keyPairOf P (keygenSecret P seed))

/-! ## `mlar keyderive` -/

def deriveSalt : Bytes := [80, 65, 84, 72, 32, 68, 69, 82, 73, 86, 65, 84, 73, 79, 78]   -- "PATH DERIVATION"

/-- RFC 7748 clamping of a 32-byte scalar (any other length is returned unchanged) -/
def clamp (k : Bytes) : Bytes :=
  if k.length = 32 then
    match k with
    | b0 :: r => (b0 &&& 248) :: (r.take 30 ++ (r.drop 30).map fun b => (b &&& 127) ||| 64)
    | [] => []
  else k

/-- one derivation step: HKDF-SHA512(salt, ikm, info = path) seeds ChaCha20, whose first 32 bytes are
    the child secret.  `ikmOf` says what is extracted from the parent secret. -/
def deriveStep (ikmOf : Bytes → Bytes) (k path : Bytes) : Bytes :=
  P.chacha32 (P.hkdf512 deriveSalt (ikmOf k) path)

def deriveWith (ikmOf : Bytes → Bytes) (k : Bytes) (paths : List Bytes) : Bytes :=
  paths.foldl (deriveStep P ikmOf) k

/-- what `apply_derive` does: `StaticSecret::to_bytes()`, the stored (unclamped) 32 bytes -/
def deriveAsCoded := deriveWith P id
/-- what README documents: "the clamped private key of Curve 25519" -/
def deriveAsDocumented := deriveWith P clamp

/-- the command as coded: the parent file is read with `parse_openssl_25519_privkey`; after each step the
    freshly exported private DER is parsed again with the same function (main.rs:880, `unwrap`);
    no path at all is refused (`expect("At least one path must be provided")`).
    `none` = the process panics. -/
def keyderiveLoop (ikmOf : Bytes → Bytes) : Bytes → Option Bytes → List Bytes → Option (Option Bytes)
  | _, last, [] => some last
  | k, _, p :: ps =>
    let child := deriveStep P ikmOf k p
    match parsePriv P (exportPrivDer child) with
    | .ok k' => keyderiveLoop ikmOf k' (some child) ps
    | .error _ => none

/-- `mlar keyderive <parentFile> <out> -p … -p …`: the files written, or `none` when the process
    panics (unreadable parent, no path, or a child that cannot be read back) -/
def keyderiveCmd (ikmOf : Bytes → Bytes) (parentFile : Bytes) (paths : List Bytes) : Option KeyFiles :=
  match parsePriv P parentFile with
  | .error _ => none
  | .ok k =>
    match keyderiveLoop P ikmOf k none paths with
    | some (some child) => some (filesOf (keyPairOf P child))
    | _ => none

/-! ## Native primitives -/

open MlaModel.Crypto in
/-- is `(y² − 1)/(d·y² + 1)` a square mod p (what `CompressedEdwardsY::decompress` checks) -/
def edYOnCurve (y32 : Bytes) : Bool :=
  let y := (decodeLE (ofList (y32.take 32)) % 2 ^ 255) % Fe.p
  let d := Fe.mul (Fe.sub 0 121665) (Fe.inv 121666)
  let yy := Fe.sq y
  let u := Fe.sub yy 1
  let v := Fe.add (Fe.mul d yy) 1
  let w := Fe.mul u (Fe.inv v)
  w = 0 || Fe.pow w ((Fe.p - 1) / 2) = 1

open MlaModel.Crypto in
def KPrims.native : KPrims where
  sha512 := sha512L
  hkdf512 := fun salt ikm info => hkdf512L salt ikm info 32
  chacha32 := fun seed => chacha20RngBytesL seed 32
  x25519Base := x25519BaseL
  edToMont := fun y => if y.length = 32 ∧ edYOnCurve y then some (edwardsYToMontgomeryUL y) else none

end MlaModel.Keys

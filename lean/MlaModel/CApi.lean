/-
  MlaModel.CApi — the handle protocol of the C interface (bindings/C/src/lib.rs) as a state machine
  over the `Writer` model.

  What is modelled
  * **Handle cells.**  Every handle the C caller owns is a cell `Handle α`: `null` (never set),
    `live v`, or `cleared` (the interface itself wrote NULL into the caller's variable:
    `mla_archive_new` / `mla_roarchive_extract` clear `*config`, `mla_archive_file_close` clears
    `*file`, `mla_archive_close` clears `*archive`).  `null` and `cleared` are the same machine value
    (a null pointer): the code cannot tell them apart and neither can `step`; the distinction is a
    ghost kept so that statements can speak about "a handle the interface cleared".
  * **Entry points** (`Call`): `mla_config_default_new`, `mla_config_add_public_keys`,
    `mla_config_set_compression_level`, `mla_archive_new`, `mla_archive_file_new`,
    `mla_archive_file_append`, `mla_archive_file_close`, `mla_archive_flush`, `mla_archive_close`.
    Pointer arguments that may themselves be NULL (`handle_out`, `*mut handle`, the two callbacks,
    the key string, the file name, the buffer) are explicit (`Bool` flags / `Option`).  A handle
    passed *by value* is the current content of the caller's cell (stale copies kept by the caller
    after the interface cleared the cell are use-after-free and outside the model, see below).
  * **Status classes** (`Status`): `success`, `badArg` (= `MLA_STATUS_BAD_API_ARGUMENT`), `err e` (the
    classes of `Err`: `io` = `MLA_STATUS_IO_ERROR` and `MLA_STATUS_SERIALIZATION_ERROR` (bincode wraps
    the I/O error of a failed callback while the header, the footer or a size table is written),
    `state` = the three `Wrong*State`, `dupName`,
    `nameTooLong`, `config` = the `ConfigError*` family and `Curve25519ParserError`), and `hang` (the
    call does not return: see `writeAll`).
  * **The "Rust interface"** (`Rust.step`): `Writer.step` followed by the layer stack (`Layer`, a
    parameter: plaintext in, bytes for the destination out) — what `ArchiveWriter<W>` does over an
    infallible `W`.  `Layer.id` is the empty stack; `Layer.table` replays per-call output sizes
    measured on the implementation (contents irrelevant) so that "which call's output crosses offset F"
    can be predicted for the compress+encrypt stack, the only one the C interface can create
    (`mla_config_default_new` sets `Layers::DEFAULT`, there is no entry point to change the layers,
    and `ArchiveWriterConfig::check` refuses a configuration without public key).
  * **The callback writer** (`CallbackOutput`): a sink driven by a policy `SinkPol`: the answer of
    the write callback to its `call`-th invocation, given the number of bytes it accepted so far
    (`pos`) and the number offered (`n`): `take k` = return 0 and report `min k n` bytes (the
    environment class of the property: "accept any part of each buffer"; `take 0` = report 0 bytes),
    or `fail code` = return `code ≠ 0`.  `writeAll` is `std::io::Write::write_all` over it:
    `Ok(0)` ⇒ `WriteZero` error; `Err(e)` with `e.kind() == Interrupted` — which is what
    `io::Error::from_raw_os_error(4)` (EINTR) is on Linux — ⇒ **retried** (std::io's documented
    convention: an interrupted call is to be made again; the tree's example callbacks `return errno`,
    so a callback answering 4 is *asking to be called again*, it is not a failure report); any other
    error ⇒ returned.  The flush callback answering 4 is retried by brotli's writer when a compressed
    block is open and returned as an error otherwise: the model takes it as a failure and the
    correspondence does not compare that case.
    The retry loop of the real code is unbounded; the model gives it `fuel + |buf|` iterations and
    answers `hang` beyond (for a policy that never answers EINTR the fuel is never exhausted:
    `writeAll_no_hang`).  A callback that reports *more* than it was offered makes `write_all` slice
    out of range (panic in an `extern "C"` function = abort); such callbacks are outside the
    environment class and outside the model.
  * After a failed or hung write callback the archive is `poisoned`: the Rust writer and its layers
    are left in whatever state the interrupted operation produced (e.g. the compression layer stays
    `Empty`); the model keeps the state the completed operation would have produced and **claims
    nothing about the statuses of later writer calls** on that archive (null checks still apply, they
    precede everything).  The property asks nothing of them either, except not crashing, which is a
    harness-side observation.

  The model follows the code **with the D19 repair** (`mla_archive_new` tests `*config` for NULL):
  on a tree without it the second `mla_archive_new` on a cleared config cell runs
  `Box::from_raw(null)`; the harness reports that as an abort.

  Not modelled: memory safety of `Box::from_raw` / `Box::leak` (that a live handle still points to a
  live allocation of the right type), stale handle copies, names with interior NUL (not expressible
  as C strings); invalid UTF-8 in names goes through the parameter `lossy`
  (`CStr::to_string_lossy`).  Core-only, no imports besides the writer model.
-/
import MlaModel.Writer
namespace MlaModel.CApi
open MlaModel

/-! ### Status classes -/

inductive Status where
  | success
  | badArg
  | err (e : Err)
  | hang
deriving Repr, DecidableEq, Inhabited

def Status.ofRes : Res → Status
  | .ok => .success
  | .id _ => .success
  | .err e => .err e

def Status.tag : Status → String
  | .success => "success" | .badArg => "badarg" | .err e => e.tag | .hang => "hang"

/-! ### Handle cells -/

inductive Handle (α : Type) where
  | null
  | cleared
  | live (v : α)
deriving Repr, DecidableEq, Inhabited

def Handle.get? {α} : Handle α → Option α
  | .live v => some v
  | _ => none

/-- the machine value is a null pointer -/
def Handle.isNull {α} (h : Handle α) : Prop := h.get? = none

@[simp] theorem Handle.get?_null {α} : (Handle.null : Handle α).get? = none := rfl
@[simp] theorem Handle.get?_cleared {α} : (Handle.cleared : Handle α).get? = none := rfl
@[simp] theorem Handle.get?_live {α} (v : α) : (Handle.live v).get? = some v := rfl

/-! ### The callback sink -/

inductive SinkEv where
  | take (k : Nat)
  | fail (code : Int)
deriving Repr, DecidableEq, Inhabited

/-- `EINTR` on Linux: `io::Error::from_raw_os_error(4).kind() == ErrorKind::Interrupted` -/
def EINTR : Int := 4

structure SinkPol where
  /-- write callback: invocation number, bytes accepted so far, bytes offered -/
  write : (call pos n : Nat) → SinkEv
  /-- flush callback: invocation number ↦ return code -/
  flush : (call : Nat) → Int

/-- dynamic part of the sink; `log`/`flog` are ghosts: the answers given so far, latest first -/
structure SinkSt where
  pos : Nat := 0
  log : List SinkEv := []
  flog : List Int := []
deriving Repr, DecidableEq, Inhabited

inductive IoRes where
  | ok
  | failed
  | hang
deriving Repr, DecidableEq, Inhabited

/-- one answer recorded -/
def SinkSt.note (st : SinkSt) (ev : SinkEv) (adv : Nat) : SinkSt :=
  { st with pos := st.pos + adv, log := ev :: st.log }

/-- `Write::write_all(buf)` over `CallbackOutput::write`.  Returns the new sink state, the bytes the
    callback accepted, and how the loop ended. -/
def writeAll (pol : SinkPol) : Nat → SinkSt → Bytes → SinkSt × Bytes × IoRes
  | _, st, [] => (st, [], .ok)
  | 0, st, _ :: _ => (st, [], .hang)
  | fuel+1, st, b :: bs =>
    match pol.write st.log.length st.pos (b :: bs).length with
    | .take 0 => (st.note (.take 0) 0, [], .failed)
    | .take (k+1) =>
      let m := min (k+1) (b :: bs).length
      let r := writeAll pol fuel (st.note (.take (k+1)) m) ((b :: bs).drop m)
      (r.1, (b :: bs).take m ++ r.2.1, r.2.2)
    | .fail code =>
      if code = EINTR then writeAll pol fuel (st.note (.fail code) 0) (b :: bs)
      else (st.note (.fail code) 0, [], .failed)

/-- `CallbackOutput::flush` -/
def flushCb (pol : SinkPol) (st : SinkSt) : SinkSt × IoRes :=
  let c := pol.flush st.flog.length
  ({ st with flog := c :: st.flog }, if c = 0 then .ok else .failed)

/-! ### Layer stack and the Rust interface -/

structure Layer where
  σ : Type
  init : σ
  write : σ → Bytes → σ × Bytes
  flush : σ → σ × Bytes
  finalize : σ → Bytes → Bytes

/-- the empty stack -/
def Layer.id : Layer :=
  { σ := Unit, init := (), write := fun _ b => ((), b), flush := fun _ => ((), []),
    finalize := fun _ b => b }

/-- replay of measured output sizes: one entry per layer call (contents are zeros); falls back to
    the empty stack when the table runs out -/
def Layer.table (lens : List Nat) : Layer :=
  { σ := List Nat, init := lens,
    write := fun t b => match t with | [] => ([], b) | n :: r => (r, List.replicate n 0),
    flush := fun t => match t with | [] => ([], []) | n :: r => (r, List.replicate n 0),
    finalize := fun t b => match t with | [] => b | n :: _ => List.replicate n 0 }

/-- which layer call an op results in: `flush` always reaches the layers; `finalize` only when the
    writer accepted it; the others only when they emitted something (`write_all` of nothing makes
    no call) -/
def Layer.feed (L : Layer) (l : L.σ) (op : Op) (r : Res) (e : Bytes) : L.σ × Bytes :=
  match op with
  | .flush => L.flush l
  | .finalize => if r.isOk then (l, L.finalize l e) else (l, [])
  | _ => if e = [] then (l, []) else L.write l e

structure Archive (L : Layer) where
  w : WState
  l : L.σ

/-- Static environment of a run. -/
structure Env where
  P : Params
  H : Bytes → Bytes
  L : Layer
  pol : SinkPol
  /-- archive header for a configuration (persistent config, wrapped keys: abstract) -/
  hdr : (level keys : Nat) → Bytes
  /-- `CStr::to_string_lossy` -/
  lossy : Bytes → Bytes
  /-- bound on the Interrupted-retries of one `write_all` (the real loop is unbounded) -/
  fuel : Nat

/-- `ArchiveWriter` over an infallible destination: writer step, then the layers. -/
def Rust.step (E : Env) (a : Archive E.L) (op : Op) : Archive E.L × Res × Bytes :=
  let r := Writer.step E.P E.H a.w op
  let f := E.L.feed a.l op r.2.1 r.2.2
  (⟨r.1, f.1⟩, r.2.1, f.2)

def Rust.runFrom (E : Env) (a : Archive E.L) : List Op → Archive E.L × List Res × Bytes
  | [] => (a, [], [])
  | op :: ops =>
    let r := Rust.step E a op
    let rs := Rust.runFrom E r.1 ops
    (rs.1, r.2.1 :: rs.2.1, r.2.2 ++ rs.2.2)

/-! ### The C side -/

structure WCfg where
  level : Nat := 5
  keys : Nat := 0
deriving Repr, DecidableEq, Inhabited

/-- association list update-or-insert -/
def aset {α} (k : Nat) (v : α) : List (Nat × α) → List (Nat × α)
  | [] => [(k, v)]
  | (k', v') :: r => if k' = k then (k, v) :: r else (k', v') :: aset k v r

structure World (L : Layer) where
  cfg : Handle WCfg := .null
  arch : Handle (Archive L) := .null
  /-- the caller's file-handle variables, by slot number; an absent slot is a NULL variable -/
  files : List (Nat × Handle Nat) := []
  sink : SinkSt := {}
  /-- ghost: a write callback failed or hung during a call on the current archive -/
  poisoned : Bool := false

def World.file {L} (w : World L) (slot : Nat) : Handle Nat := (alookup slot w.files).getD .null

inductive Call where
  /-- `mla_config_default_new(handle_out)` -/
  | configNew (outNull : Bool)
  /-- `mla_config_add_public_keys(config, keys)`; `parsed` = what the PEM parser makes of the
      string: `none` = error, `some n` = `n` keys -/
  | configAddKeys (keysNull : Bool) (parsed : Option Nat)
  /-- `mla_config_set_compression_level(config, level)` -/
  | configSetLevel (level : Nat)
  /-- `mla_archive_new(&config, write_cb, flush_cb, ctx, handle_out)` -/
  | archiveNew (cfgPtrNull wcbNull fcbNull outNull : Bool)
  /-- `mla_archive_file_new(archive, name, &slot)` -/
  | fileNew (slot : Nat) (name : Option Bytes) (outNull : Bool)
  /-- `mla_archive_file_append(archive, slot, buffer, length)` -/
  | fileAppend (slot : Nat) (buf : Option Bytes)
  /-- `mla_archive_file_close(archive, &slot)` -/
  | fileClose (slot : Nat) (ptrNull : Bool)
  /-- `mla_archive_flush(archive)` -/
  | flush
  /-- `mla_archive_close(&archive)` -/
  | close (ptrNull : Bool)
deriving Repr, DecidableEq, Inhabited

def Call.isNew : Call → Bool
  | .archiveNew .. => true
  | _ => false

/-- the five entry points that take the archive handle -/
def Call.isArch : Call → Bool
  | .fileNew .. | .fileAppend .. | .fileClose .. | .flush | .close _ => true
  | _ => false

def Call.isClose : Call → Bool
  | .close _ => true
  | _ => false

def emit (E : Env) (st : SinkSt) (b : Bytes) : SinkSt × Bytes × IoRes :=
  writeAll E.pol (E.fuel + b.length) st b

/-- status of a writer call given how the destination behaved -/
def ioStatus (r : Res) : IoRes → Status
  | .ok => Status.ofRes r
  | .failed => .err .io
  | .hang => .hang

/-- A writer call on a live archive: Rust step, output through the sink (`mla_archive_flush` then
    calls the flush callback).  Returns the archive after, the writer's result, how the destination
    behaved, the sink after, the bytes it accepted. -/
def archOp (E : Env) (st : SinkSt) (a : Archive E.L) (op : Op) :
    Archive E.L × Res × IoRes × SinkSt × Bytes :=
  let r := Rust.step E a op
  let w := emit E st r.2.2
  let f := if op = .flush ∧ w.2.2 = .ok then flushCb E.pol w.1 else (w.1, w.2.2)
  (r.1, r.2.1, f.2, f.1, w.2.1)

/-- the Writer op an entry point results in when all its handles are live -/
def opOf (E : Env) (w : World E.L) : Call → Option Op
  | .fileNew _ (some nm) false => if w.arch.get?.isSome then some (.start (E.lossy nm)) else none
  | .fileAppend slot (some b) =>
    if w.arch.get?.isSome then (w.file slot).get?.map fun id => .append id b.length b else none
  | .fileClose slot false =>
    if w.arch.get?.isSome then (w.file slot).get?.map fun id => .end_ id else none
  | .flush => if w.arch.get?.isSome then some .flush else none
  | .close false => if w.arch.get?.isSome then some .finalize else none
  | _ => none

/-- effect of a writer call on the caller's cells -/
def afterOp {L} (w : World L) (c : Call) (a' : Archive L) (r : Res) (io : IoRes) (st : SinkSt) :
    World L :=
  let bad := w.poisoned || (match io with | .ok => false | _ => true)
  match c with
  | .fileNew slot _ _ =>
    -- `*handle_out` is written only when `start_file` returned an id
    let files := match r, io with
      | .id i, .ok => aset slot (.live i) w.files
      | _, _ => w.files
    { w with arch := .live a', files := files, sink := st, poisoned := bad }
  | .fileClose slot _ =>
    -- `*file = NULL` before `end_file`, whatever its result
    { w with arch := .live a', files := aset slot .cleared w.files, sink := st, poisoned := bad }
  | .close _ =>
    -- `*archive = NULL`, the writer is dropped whatever `finalize` answered
    { w with arch := .cleared, sink := st, poisoned := false }
  | _ => { w with arch := .live a', sink := st, poisoned := bad }

/-- One entry-point call: new world, status, bytes accepted by the write callback during the call. -/
def step (E : Env) (w : World E.L) (c : Call) : World E.L × Status × Bytes :=
  match c with
  | .configNew outNull =>
    if outNull then (w, .badArg, []) else ({ w with cfg := .live {} }, .success, [])
  | .configAddKeys keysNull parsed =>
    match w.cfg.get? with
    | none => (w, .badArg, [])
    | some cfg =>
      if keysNull then (w, .badArg, []) else
      match parsed with
      | some (n+1) => ({ w with cfg := .live { cfg with keys := cfg.keys + (n+1) } }, .success, [])
      | _ => (w, .err .config, [])
  | .configSetLevel level =>
    match w.cfg.get? with
    | none => (w, .badArg, [])
    | some cfg =>
      if 11 < level then (w, .err .config, [])
      else ({ w with cfg := .live { cfg with level := level } }, .success, [])
  | .archiveNew cfgPtrNull wcbNull fcbNull outNull =>
    if cfgPtrNull || wcbNull || fcbNull || outNull then (w, .badArg, []) else
    match w.cfg.get? with
    | none => (w, .badArg, [])          -- the D19 repair: `*config` is NULL
    | some cfg =>
      -- `*config = NULL`; the configuration is consumed whatever happens next
      let w1 := { w with cfg := .cleared }
      if cfg.keys = 0 then (w1, .err .config, []) else
      let o := emit E w.sink (E.hdr cfg.level cfg.keys)
      match o.2.2 with
      | .ok => ({ w1 with arch := .live ⟨WState.init, E.L.init⟩, sink := o.1, poisoned := false },
                .success, o.2.1)
      | .failed => ({ w1 with sink := o.1 }, .err .io, o.2.1)
      | .hang => ({ w1 with sink := o.1 }, .hang, o.2.1)
  | c =>
    match w.arch.get?, opOf E w c with
    | some a, some op =>
      let r := archOp E w.sink a op
      (afterOp w c r.1 r.2.1 r.2.2.1 r.2.2.2.1, ioStatus r.2.1 r.2.2.1, r.2.2.2.2)
    | _, _ => (w, .badArg, [])

/-- Run a call list: final world, per call (the writer op it resulted in, its status), all bytes
    accepted by the write callback. -/
def runFrom (E : Env) (w : World E.L) : List Call → World E.L × List (Option Op × Status) × Bytes
  | [] => (w, [], [])
  | c :: cs =>
    let r := step E w c
    let rs := runFrom E r.1 cs
    (rs.1, (opOf E w c, r.2.1) :: rs.2.1, r.2.2 ++ rs.2.2)

def run (E : Env) (cs : List Call) := runFrom E ({} : World E.L) cs

/-- "this call is made with a NULL argument or a NULL (never set, or cleared) handle" -/
def NullCall {L} (w : World L) : Call → Prop
  | .configNew outNull => outNull = true
  | .configAddKeys keysNull _ => w.cfg.isNull ∨ keysNull = true
  | .configSetLevel _ => w.cfg.isNull
  | .archiveNew a b c d => a = true ∨ b = true ∨ c = true ∨ d = true ∨ w.cfg.isNull
  | .fileNew _ name outNull => w.arch.isNull ∨ name = none ∨ outNull = true
  | .fileAppend slot buf => w.arch.isNull ∨ (w.file slot).isNull ∨ buf = none
  | .fileClose slot ptrNull => w.arch.isNull ∨ ptrNull = true ∨ (w.file slot).isNull
  | .flush => w.arch.isNull
  | .close ptrNull => ptrNull = true ∨ w.arch.isNull

/-- the write callback accepts a non-empty part of every buffer and the flush callback succeeds -/
def SinkPol.Good (pol : SinkPol) : Prop :=
  (∀ call pos n, ∃ k, pol.write call pos n = .take (k+1)) ∧ ∀ call, pol.flush call = 0

/-- answers after which `write_all` carries on: a non-empty part accepted, or EINTR (retried) -/
def SinkEv.Benign : SinkEv → Prop
  | .take (_+1) => True
  | .fail code => code = EINTR
  | _ => False

/-- answers that are not a reported failure -/
def SinkEv.Accepts : SinkEv → Prop
  | .take (_+1) => True
  | _ => False

end MlaModel.CApi

/-
  MlaModel.ArchiveS — opening an archive over a layer stack `σ` (`ArchiveReader::from_config` after
  the header): `ArchiveFooter::deserialize_from` over a stream, then whole-file reads.
-/
import MlaModel.ReaderS
namespace MlaModel

variable {σ : Type} [Stream σ]

/-- `ArchiveFooter::deserialize_from(src)`: seek to the last 4 bytes, read the length, seek back,
    parse at most `len` bytes. -/
def parseFooterS (utf8 : Bytes → Bool) (s : σ) : σ × Except Err Index :=
  match Stream.seek s (.fromEnd (-4)) with
  | .error e => (s, .error e)
  | .ok (s, pos) =>
    match readExactS s 4 with
    | .error e => (s, .error e)
    | .ok (s, lb) =>
      let len := unle lb
      if pos < len then (s, .error .deser) else
      match Stream.seek s (.start (pos - len)) with
      | .error e => (s, .error e)
      | .ok (s, _) =>
        match readUpTo (len + 1) s len with
        | .error e => (s, .error e)
        | .ok (s, body) =>
          match deU64 body with
          | .error e => (s, .error e)
          | .ok (n, r) =>
            if r.length < 32 * n then (s, .error .deser) else
            (s, deEntries utf8 n r [])

/-- read a whole file through a fresh handle with buffers of `n` bytes: the bytes obtained before
    the end or the first error, and that error if any -/
def readWholeS (P : Params) (utf8 : Bytes → Bool) (n : Nat) : Nat → BtfS σ → Bytes → BtfS σ × Bytes × Option Err
  | 0, b, acc => (b, acc, some (.panic "readWhole-fuel"))
  | fuel+1, b, acc =>
    match BtfS.read P utf8 b n with
    | .error e => (b, acc, some e)
    | .ok (b', out) => if out = [] then (b', acc, none) else readWholeS P utf8 n fuel b' (acc ++ out)

end MlaModel

/-
  MlaModel.CodecStored — an executable instance of `Codec`: RFC 7932 (brotli) streams made only of
  *uncompressed* meta-blocks.  The real `brotli` crate decodes what this encoder writes, so
  archives built by the model can be handed to the real reader; the decoder here reads back the
  same subset (anything else is reported as "not a valid stream" for this codec).

  Layout: WBITS = 16 (one `0` bit), then per `write` of `n > 0` bytes (n ≤ 2^24) a meta-block
  header `ISLAST=0, MNIBBLES, MLEN-1, ISUNCOMPRESSED=1`, zero padding to the next byte boundary,
  the raw bytes; the stream ends with `ISLAST=1, ISLASTEMPTY=1` padded to a byte.  After every
  meta-block the stream is byte aligned, so `flush` has nothing to emit.
-/
import MlaModel.Compress
namespace MlaModel

/-- pack bits (LSB first) into bytes, zero padded -/
def packBitsAux : Nat → List Bool → Bytes
  | 0, _ => []
  | fuel+1, bs =>
    if bs = [] then [] else
    let byte := (bs.take 8).zipIdx.foldl (fun (acc : Nat) (b, i) => if b then acc + 2 ^ i else acc) 0
    byte.toUInt8 :: packBitsAux fuel (bs.drop 8)

def packBits (bs : List Bool) : Bytes := packBitsAux (bs.length + 1) bs

def bitsOf (v n : Nat) : List Bool := (List.range n).map fun i => (v / 2 ^ i) % 2 = 1

/-- header bits of an uncompressed meta-block of `n` bytes (1 ≤ n ≤ 2^24) -/
def storedHdrBits (n : Nat) : List Bool :=
  let (code, nib) := if n ≤ 2 ^ 16 then (0, 4) else if n ≤ 2 ^ 20 then (1, 5) else (2, 6)
  [false] ++ bitsOf code 2 ++ bitsOf (n - 1) (4 * nib) ++ [true]

/-- encoder state: has the WBITS bit been emitted? -/
structure StoredES where
  started : Bool
deriving Repr, DecidableEq

def storedPiece (first : Bool) (b : Bytes) : Bytes :=
  packBits ((if first then [false] else []) ++ storedHdrBits b.length) ++ b

/-- split a write into meta-blocks of at most 2^24 bytes -/
def storedWrite : Nat → Bool → Bytes → Bytes
  | 0, _, _ => []
  | fuel+1, first, b =>
    if b = [] then [] else
    storedPiece first (b.take (2 ^ 24)) ++ storedWrite fuel false (b.drop (2 ^ 24))

/-! ### decoder for the same subset -/

def getBit (s : Bytes) (i : Nat) : Option Bool :=
  match s[i / 8]? with
  | none => none
  | some b => some ((b.toNat / 2 ^ (i % 8)) % 2 = 1)

def getBits (s : Bytes) (i n : Nat) : Option Nat :=
  (List.range n).foldl (fun acc k =>
    match acc, getBit s (i + k) with
    | some v, some b => some (if b then v + 2 ^ k else v)
    | _, _ => none) (some 0)

/-- decode meta-blocks starting at bit `bit` of `s` (the stream's own bytes from its first byte).
    Returns (plaintext, rest after the end of the stream, invalid). -/
def storedDecode : Nat → Bytes → Nat → Bytes × Option Bytes × Bool
  | 0, _, _ => ([], none, true)
  | fuel+1, s, bit =>
    match getBit s bit with
    | none => ([], none, false)
    | some true =>
      -- ISLAST: only the empty last meta-block is in the subset
      match getBit s (bit + 1) with
      | none => ([], none, false)
      | some true => ([], some (s.drop ((bit + 2 + 7) / 8)), false)
      | some false => ([], none, true)
    | some false =>
      match getBits s (bit + 1) 2 with
      | none => ([], none, false)
      | some code =>
        if code = 3 then ([], none, true) else
        let nib := 4 + code
        match getBits s (bit + 3) (4 * nib), getBit s (bit + 3 + 4 * nib) with
        | some m, some unc =>
          if !unc then ([], none, true) else
          let n := m + 1
          let start := (bit + 3 + 4 * nib + 1 + 7) / 8
          let data := (s.drop start).take n
          if data.length < n then (data, none, false) else
          let (o, r, bad) := storedDecode fuel s ((start + n) * 8)
          (data ++ o, r, bad)
        | _, _ => ([], none, false)

def storedDecStream (s : Bytes) : Bytes × Option Bytes × Bool :=
  match getBit s 0 with
  | none => ([], none, false)
  | some true => ([], none, true)      -- WBITS other than 16: outside the subset
  | some false => storedDecode (s.length + 2) s 1

def Codec.stored : Codec where
  ES := StoredES
  einit := fun _ => ⟨false⟩
  ewrite := fun es b =>
    if b = [] then (es, []) else (⟨true⟩, storedWrite (b.length / 2 ^ 24 + 2) (!es.started) b)
  eflush := fun es => (es, [])
  efinish := fun es => if es.started then [3] else [6]
  dec := fun s => match storedDecStream s with
    | (o, some [], false) => some o
    | _ => none
  decStream := storedDecStream

end MlaModel

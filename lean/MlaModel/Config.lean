/-
  MlaModel.Config — `ArchiveWriterConfig` (mla/src/config.rs, with the fields of
  `EncryptionConfig` / `CompressionConfig` it wraps) as a builder: the layer set, the compression
  level, the recipients, and the secrets drawn ONCE, when the configuration is constructed
  (`EncryptionConfig::default()`: key and nonce from a ChaCha generator seeded by the OS).
  The draws are parameters (`key`, `nonce`): what the model states is how builder calls use them.
-/
import MlaModel.Basic
namespace MlaModel

/-- layer bits: 1 = ENCRYPT, 2 = COMPRESS (lib.rs `Layers`) -/
structure WCfg where
  layers : Nat
  level : Nat
  pubs : List Bytes
  key : Bytes
  nonce : Bytes
deriving Repr, DecidableEq

/-- builder calls -/
inductive BOp where
  | enable (l : Nat)          -- `enable_layer`
  | disable (l : Nat)         -- `disable_layer`
  | setLayers (l : Nat)       -- `set_layers`
  | level (n : Nat)           -- `with_compression_level`
  | addKeys (ks : List Bytes) -- `add_public_keys`
deriving Repr, DecidableEq

/-- `ArchiveWriterConfig::new()`: no layer -/
def WCfg.new (key nonce : Bytes) : WCfg := ⟨0, 5, [], key, nonce⟩
/-- `ArchiveWriterConfig::default()`: `Layers::DEFAULT` = ENCRYPT | COMPRESS -/
def WCfg.dflt (key nonce : Bytes) : WCfg := ⟨3, 5, [], key, nonce⟩

/-- one call; only `with_compression_level` can refuse (level > 11) and then changes nothing -/
def WCfg.step (c : WCfg) : BOp → Except Err WCfg
  | .enable l => .ok { c with layers := c.layers ||| (l &&& 3) }
  | .disable l => .ok { c with layers := c.layers &&& (3 ^^^ (l &&& 3)) }
  | .setLayers l => .ok { c with layers := l &&& 3 }
  | .level n => if 11 < n then .error .config else .ok { c with level := n }
  | .addKeys ks => .ok { c with pubs := c.pubs ++ ks }

/-- a call list; a refused call is skipped (the builder is unchanged by it) -/
def WCfg.run (c : WCfg) : List BOp → WCfg
  | [] => c
  | op :: ops => match c.step op with
    | .ok c' => WCfg.run c' ops
    | .error _ => WCfg.run c ops

/-- `check()` / what `ArchiveWriter::from_config` needs: encryption enabled ⇒ at least one recipient -/
def WCfg.usable (c : WCfg) : Bool := c.layers &&& 1 = 0 || !c.pubs.isEmpty

/-- the recipients listed by builder calls, in order -/
def BOp.keys : BOp → List Bytes
  | .addKeys ks => ks
  | _ => []

end MlaModel

/-
  MlaModel.LinearS — `linear_extract` (mla/src/helpers.rs:24-76) over an arbitrary layer stack `σ`
  (any `Stream`): the same loop as `Linear.loop` (MlaModel.Reader, over a pure byte string), but every
  byte comes out of `Stream.read` calls on the one underlying stream, whose state survives from
  block to block.  `Proofs/LinearS` shows the two agree over every cursor-like stream.

      archive.src.rewind()?;                                  -- `seek(SeekFrom::Start(0))`
      let mut src = io::BufReader::new(&mut archive.src);
      let mut id2filename = HashMap::new();
      loop { match ArchiveFileBlock::from(&mut src)? {
          FileStart { filename, id } => if export.contains_key(&filename) { id2filename.insert(id, filename) }
          EndOfFile { id, .. }       => { id2filename.remove(&id); }
          FileContent { length, id, .. } => {
              let copy_src = &mut (&mut src).take(length);
              /* io::copy(copy_src, writer of id2filename[id])?  or  io::copy(copy_src, &mut io::sink())? */ }
          EndOfArchiveData => break } }
      Ok(())

  About the `BufReader`: the Rust code reads the stream through an `io::BufReader`.  A buffered reader
  delivers the bytes of the underlying stream in the same order and never skips or repeats one
  (nothing seeks between `rewind` and the end of the loop), so the *logical* byte sequence seen by
  `ArchiveFileBlock::from` and `io::copy` is the one of the underlying stream; only the sizes of
  the `read` calls that reach the layer differ (the buffer asks for up to 8 KiB at a time).  The
  model therefore reads the logical byte sequence directly from the stream.  What buffering CAN
  change is *when* an error of the underlying stream surfaces: read-ahead can hit a failing region
  (at most one buffer ahead, possibly after the end-of-archive marker) that an unbuffered reader
  would not have touched yet.  Over a cursor-like stream (`IsCursor`) reads never fail, so the
  theorems of `Proofs/LinearS` / `Theorems/C12Stack` are not affected by this.

  About `io::copy(take(length))`: it reads until `length` bytes were obtained or a read returns
  nothing (`readUpTo`, Stream.lean); a short copy is NOT an error in the Rust code — the loop goes
  on and the next `ArchiveFileBlock::from` fails with `UnexpectedEof` (or misparses what follows).
  Bytes already copied to a writer before a failure are not observable in the model (the result is
  `Err`), exactly as in `Linear.loop`.

  Fuel: the Rust loop is unbounded; it ends because every iteration consumes at least the block-type
  byte or fails.  Over an arbitrary `Stream` (which could deliver bytes forever) no bound exists, so
  the fuel is an explicit argument (as for `readWholeS`); `Proofs/LinearS` shows that any fuel larger
  than the length of the data is adequate (the result does not depend on it).
-/
import MlaModel.ReaderS
namespace MlaModel

variable {σ : Type} [Stream σ]

/-- `archive.src.rewind()` = `seek(SeekFrom::Start(0))`, the returned position dropped -/
def rewindS (s : σ) : Except Err σ :=
  match Stream.seek s (.start 0) with
  | .error e => .error e
  | .ok (s, _) => .ok s

/-- `io::copy(&mut (&mut src).take(length), w)`: read until `length` bytes were obtained or a read
    returns nothing; the bytes are what `w` received.  A short result is not an error. -/
def copyTakeS (s : σ) (length : Nat) : Except Err (σ × Bytes) :=
  readUpTo (length + 1) s length

/-- the `'read_block` loop.  `chosen` = the keys of `export`; `id2name` = `id2filename`;
    `out` maps each chosen name to the bytes its writer received so far. -/
def LinearS.loop (P : Params) (utf8 : Bytes → Bool) (chosen : List Bytes) :
    Nat → σ → List (Nat × Bytes) → List (Bytes × Bytes) → Except Err (σ × List (Bytes × Bytes))
  | 0, _, _, _ => .error (.panic "linear-fuel")
  | fuel+1, s, id2name, out =>
    match Hdr.decodeS P utf8 s with
    | .error e => .error e
    | .ok (s, .start id name) =>
      let id2name := if chosen.contains name then (id, name) :: aerase id id2name else id2name
      LinearS.loop P utf8 chosen fuel s id2name out
    | .ok (s, .eof id _) => LinearS.loop P utf8 chosen fuel s (aerase id id2name) out
    | .ok (s, .content id len) =>
      match copyTakeS s len with
      | .error e => .error e
      | .ok (s, data) =>
        let out := match alookup id id2name with
          | some name => out.map fun (n, d) => if n = name then (n, d ++ data) else (n, d)
          | none => out
        LinearS.loop P utf8 chosen fuel s id2name out
    | .ok (s, .eoad) => .ok (s, out)

/-- `linear_extract(archive, export)` with `export.keys() = chosen`: rewind, then the loop.  The
    result is the final state of the stream and, for each chosen name, what its writer received. -/
def LinearS.run (P : Params) (utf8 : Bytes → Bool) (fuel : Nat) (s : σ) (chosen : List Bytes) :
    Except Err (σ × List (Bytes × Bytes)) :=
  match rewindS s with
  | .error e => .error e
  | .ok s => LinearS.loop P utf8 chosen fuel s [] (chosen.eraseDups.map fun n => (n, []))

end MlaModel

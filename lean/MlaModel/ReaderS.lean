/-
  MlaModel.ReaderS — `ArchiveReader` as a state machine over an arbitrary layer stack `σ`
  (any `Stream`), for C10: the reader owns ONE underlying stream whose position and caches
  survive from call to call; `get_file` borrows it for the lifetime of the returned
  `BlocksToFileReader`.  `MlaModel.Reader` is the same logic over a pure byte string; C10 says the
  two agree whatever happened before.
-/
import MlaModel.Reader
import MlaModel.Stream
namespace MlaModel

variable {σ : Type} [Stream σ]

/-- `read_exact(n)` over a stream: `UnexpectedEof` if the stream ends first -/
def readExactS (s : σ) (n : Nat) : Except Err (σ × Bytes) :=
  match readUpTo (n + 1) s n with
  | .error e => .error e
  | .ok (s', b) => if b.length < n then .error .eof else .ok (s', b)

/-- `ArchiveFileBlock::from` over a stream -/
def Hdr.decodeS (P : Params) (utf8 : Bytes → Bool) (s : σ) : Except Err (σ × Hdr) :=
  match readExactS s 1 with
  | .error e => .error e
  | .ok (s, tb) =>
    let t := tb.headD 0
    if t = tStart then
      match readExactS s 8 with
      | .error e => .error e
      | .ok (s, idb) =>
        match readExactS s 8 with
        | .error e => .error e
        | .ok (s, lb) =>
          let len := unle lb
          if P.nameMax < len then .error .nameTooLong else
          match readExactS s len with
          | .error e => .error e
          | .ok (s, name) => if utf8 name then .ok (s, .start (unle idb) name) else .error .utf8
    else if t = tContent then
      match readExactS s 8 with
      | .error e => .error e
      | .ok (s, idb) =>
        match readExactS s 8 with
        | .error e => .error e
        | .ok (s, lb) => .ok (s, .content (unle idb) (unle lb))
    else if t = tEof then
      match readExactS s 8 with
      | .error e => .error e
      | .ok (s, idb) =>
        match readExactS s hashLen with
        | .error e => .error e
        | .ok (s, h) => .ok (s, .eof (unle idb) h)
    else if t = tEoad then .ok (s, .eoad)
    else .error .badBlockType

/-- `BlocksToFileReader` borrowing the stream -/
structure BtfS (σ : Type) where
  src : σ
  st : BtfSt
  id : Nat
  curOff : Nat
  offsets : List Nat

def BtfS.new (P : Params) (utf8 : Bytes → Bool) (src : σ) (offsets : List Nat) : Except Err (BtfS σ) :=
  match offsets with
  | [] => .error .state
  | o :: _ =>
    match Stream.seek src (.start o) with
    | .error e => .error e
    | .ok (src, _) =>
      match Hdr.decodeS P utf8 src with
      | .error e => .error e
      | .ok (src, .start id _) => .ok ⟨src, .ready, id, 0, offsets⟩
      | .ok _ => .error .state

/-- one `read(into)` with `into.len() = n` -/
def BtfS.readAux (P : Params) (utf8 : Bytes → Bool) (n : Nat) : Nat → BtfS σ → Except Err (BtfS σ × Bytes)
  | 0, _ => .error (.panic "btf-fuel")
  | fuel+1, b =>
    match b.st with
    | .finish => .ok (b, [])
    | .inFile rem =>
      match Stream.read b.src (min rem n) with
      | .error e => .error e
      | .ok (src, out) =>
        let rem' := rem - out.length
        .ok ({ b with src := src, st := if rem' = 0 then .ready else .inFile rem' }, out)
    | .ready =>
      match Hdr.decodeS P utf8 b.src with
      | .error e => .error e
      | .ok (src, h) =>
        let moveNext : Except Err (BtfS σ × Bytes) :=
          match b.offsets[b.curOff + 1]? with
          | none => .error .state
          | some o =>
            match Stream.seek src (.start o) with
            | .error e => .error e
            | .ok (src, _) => BtfS.readAux P utf8 n fuel { b with src := src, curOff := b.curOff + 1 }
        match h with
        | .content id len =>
          if id ≠ b.id then moveNext else
          match Stream.read src (min len n) with
          | .error e => .error e
          | .ok (src, out) =>
            let rem' := len - out.length
            .ok ({ b with src := src, st := if rem' = 0 then .ready else .inFile rem' }, out)
        | .eof id _ => if id ≠ b.id then moveNext else .ok ({ b with src := src, st := .finish }, [])
        | .start id _ => if id ≠ b.id then moveNext else .error .state
        | .eoad => .error .state

def BtfS.read (P : Params) (utf8 : Bytes → Bool) (b : BtfS σ) (n : Nat) : Except Err (BtfS σ × Bytes) :=
  BtfS.readAux P utf8 n (b.offsets.length + 2) b

/-! ### the archive reader and its operation histories -/

inductive ROp where
  | list
  | getFile (name : Bytes)     -- opens a file handle (ends the previous one, if any)
  | read (n : Nat)             -- reads from the open handle
  | drop                       -- abandons the open handle (every op but `read` also ends it)
  | getHash (name : Bytes)
  | getSize (name : Bytes)
deriving Repr, DecidableEq

inductive ROut where
  | names (l : List Bytes)
  | opened (size : Nat)
  | data (b : Bytes)
  | hash (h : Bytes)
  | size (n : Nat)
  | none_                      -- `Ok(None)`: no such name
  | noHandle
  | dropped
  | err (e : Err)
deriving Repr, DecidableEq

/-- the reader: the stream, the index, and the handle currently borrowed (if any).  After an error
    inside an operation the stream state is whatever the failed operation left; histories over
    well-formed archives never get there. -/
structure ArS (σ : Type) where
  src : σ
  ix : Index
  handle : Option (BtfSt × Nat × Nat × List Nat)   -- state, id, curOff, offsets of the open handle

/-- One call on the reader.  `get_file(&mut self)` returns a `BlocksToFileReader` that mutably borrows
    the reader (its `src` and the offsets inside `metadata`), so in Rust NO other method — not even
    `list_files(&self)` — can be called while that handle is alive: the borrow checker forces the
    handle to be dead (never used again) before `list_files`, `get_hash`, `get_file` or a size lookup.
    The model mirrors this: every operation other than `.read` ends the borrow (`handle := none`), so a
    `.read` after it answers `.noHandle` instead of reading through a stale handle whose stream was
    moved by `get_hash`. -/
def ArS.step (P : Params) (utf8 : Bytes → Bool) (a : ArS σ) : ROp → ArS σ × ROut
  | .list => ({ a with handle := none }, .names (a.ix.map (·.1)))
  | .getSize name =>
    match a.ix.find name with
    | none => ({ a with handle := none }, .none_)
    | some fi => ({ a with handle := none }, .size fi.size)
  | .getHash name =>
    match a.ix.find name with
    | none => ({ a with handle := none }, .none_)
    | some fi =>
      match Stream.seek a.src (.start fi.eof) with
      | .error e => ({ a with handle := none }, .err e)
      | .ok (src, _) =>
        match Hdr.decodeS P utf8 src with
        | .error e => ({ a with src := src, handle := none }, .err e)
        | .ok (src, .eof _ h) => ({ a with src := src, handle := none }, .hash h)
        | .ok (src, _) => ({ a with src := src, handle := none }, .err .state)
  | .getFile name =>
    match a.ix.find name with
    | none => ({ a with handle := none }, .none_)
    | some fi =>
      match BtfS.new P utf8 a.src fi.offsets with
      | .error e => ({ a with handle := none }, .err e)
      | .ok b => ({ a with src := b.src, handle := some (b.st, b.id, b.curOff, b.offsets) }, .opened fi.size)
  | .read n =>
    match a.handle with
    | none => (a, .noHandle)
    | some (st, id, co, offs) =>
      match BtfS.read P utf8 ⟨a.src, st, id, co, offs⟩ n with
      | .error e => (a, .err e)
      | .ok (b, out) => ({ a with src := b.src, handle := some (b.st, b.id, b.curOff, b.offsets) }, .data out)
  | .drop => ({ a with handle := none }, .dropped)

def ArS.run (P : Params) (utf8 : Bytes → Bool) (a : ArS σ) : List ROp → ArS σ × List ROut
  | [] => (a, [])
  | op :: ops =>
    let (a1, o) := ArS.step P utf8 a op
    let (a2, os) := ArS.run P utf8 a1 ops
    (a2, o :: os)

end MlaModel

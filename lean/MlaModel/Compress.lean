/-
  MlaModel.Compress — the compression layer (mla/src/layers/compress.rs).

  The plaintext is cut into blocks of `block` bytes; each block is one complete brotli stream; the
  layer ends with a table (`SizesInfo`: compressed size of every block, uncompressed size of the
  last one, bincode fixint) followed by its length on 4 bytes.

  Brotli itself is a parameter (`Codec`): an encoder state machine and a decoder, related by the
  laws in `Codec.Laws`.  Theorems about this layer hold for every codec satisfying the laws.
-/
import MlaModel.Stream
namespace MlaModel

structure Codec where
  ES : Type
  /-- fresh encoder for a compression level -/
  einit : Nat → ES
  /-- `CompressorWriter::write`: takes all the bytes offered, may emit compressed bytes -/
  ewrite : ES → Bytes → ES × Bytes
  /-- `CompressorWriter::flush` -/
  eflush : ES → ES × Bytes
  /-- `CompressorWriter::into_inner`: ends the stream, emits the last bytes -/
  efinish : ES → Bytes
  /-- decode one complete stream -/
  dec : Bytes → Option Bytes
  /-- streaming view (repair): from a byte string starting at a stream boundary,
      `(plaintext decodable so far, bytes after the end of the first stream if it ends here,
        input is not a valid stream prefix)` -/
  decStream : Bytes → Bytes × Option Bytes × Bool

/-- encoder actions of one block -/
inductive EAct where
  | write (b : Bytes)
  | flush
deriving Repr, DecidableEq

def EAct.written : List EAct → Bytes
  | [] => []
  | .write b :: r => b ++ EAct.written r
  | .flush :: r => EAct.written r

/-- run encoder actions from a state: final state and emitted bytes -/
def Codec.runActs (K : Codec) (es : K.ES) : List EAct → K.ES × Bytes
  | [] => (es, [])
  | .write b :: r =>
    let (es1, o1) := K.ewrite es b
    let (es2, o2) := K.runActs es1 r
    (es2, o1 ++ o2)
  | .flush :: r =>
    let (es1, o1) := K.eflush es
    let (es2, o2) := K.runActs es1 r
    (es2, o1 ++ o2)

/-- The contract the layer relies on (K1–K5 of DESIGN.md §3.3). -/
structure Codec.Laws (K : Codec) : Prop where
  /-- K4: a finished stream decodes to exactly what was written -/
  dec_finish : ∀ lvl acts, let r := K.runActs (K.einit lvl) acts
      K.dec (r.2 ++ K.efinish r.1) = some (EAct.written acts)
  /-- K5: streams are self-delimiting: followed by anything, the decoder delivers the plaintext and
      stops exactly at the end of the stream -/
  stream_finish : ∀ lvl acts rest, let r := K.runActs (K.einit lvl) acts
      K.decStream (r.2 ++ K.efinish r.1 ++ rest) = (EAct.written acts, some rest, false)
  /-- K2: every proper prefix of a finished stream decodes to a prefix of what was written, the end
      of the stream is not seen, and the prefix is not rejected -/
  stream_prefix : ∀ lvl acts k, let r := K.runActs (K.einit lvl) acts
      k < (r.2 ++ K.efinish r.1).length →
      (K.decStream ((r.2 ++ K.efinish r.1).take k)).1 <+: EAct.written acts ∧
      (K.decStream ((r.2 ++ K.efinish r.1).take k)).2.1 = none ∧
      (K.decStream ((r.2 ++ K.efinish r.1).take k)).2.2 = false
  /-- K1: more input never yields less output -/
  stream_mono : ∀ lvl acts k₁ k₂, let r := K.runActs (K.einit lvl) acts
      k₁ ≤ k₂ →
      (K.decStream ((r.2 ++ K.efinish r.1).take k₁)).1 <+:
        (K.decStream ((r.2 ++ K.efinish r.1).take k₂)).1
  /-- K3: after a flush, everything written so far is decodable from what was emitted -/
  stream_flush : ∀ lvl acts, let r := K.runActs (K.einit lvl) (acts ++ [.flush])
      (K.decStream r.2).1 = EAct.written acts

/-! ### SizesInfo -/

structure Sizes where
  csizes : List Nat
  last : Nat
deriving Repr, DecidableEq, Inhabited

def encSizes (z : Sizes) : Bytes :=
  let body := le64 z.csizes.length ++ (z.csizes.map le32).flatten ++ le32 z.last
  body ++ le32 body.length

def Sizes.maxPos (P : Params) (z : Sizes) : Nat := (z.csizes.length - 1) * P.block + z.last

def Sizes.usizeAt (P : Params) (z : Sizes) (blockNum : Nat) : Nat :=
  if blockNum + 1 < z.csizes.length then P.block else z.last

/-! ### Writer (`CompressionLayerWriter`) -/

inductive CWSt (K : Codec) where
  | ready
  | inData (written : Nat) (es : K.ES) (cnt : Nat)

structure CW (K : Codec) where
  st : CWSt K
  sizes : List Nat
  level : Nat

def CW.init (K : Codec) (level : Nat) : CW K := ⟨.ready, [], level⟩

/-- `write`: new state, bytes consumed, bytes emitted.  A full block is closed lazily by the next
    `write` (or by `finalize`). -/
def CW.write (P : Params) (K : Codec) (w : CW K) (buf : Bytes) : CW K × Nat × Bytes :=
  match w.st with
  | .ready =>
    let size := min P.block buf.length
    let (es, out) := K.ewrite (K.einit w.level) (buf.take size)
    ({ w with st := .inData size es out.length }, size, out)
  | .inData written es cnt =>
    if written = P.block then
      let fin := K.efinish es
      let size := min P.block buf.length
      let (es', out) := K.ewrite (K.einit w.level) (buf.take size)
      ({ w with st := .inData size es' out.length, sizes := w.sizes ++ [cnt + fin.length] },
        size, fin ++ out)
    else
      let size := min (P.block - written) buf.length
      let (es', out) := K.ewrite es (buf.take size)
      ({ w with st := .inData (written + size) es' (cnt + out.length) }, size, out)

def CW.flush (K : Codec) (w : CW K) : CW K × Bytes :=
  match w.st with
  | .ready => (w, [])
  | .inData written es cnt =>
    let (es', out) := K.eflush es
    ({ w with st := .inData written es' (cnt + out.length) }, out)

/-- `finalize`: close the open block, emit the sizes table -/
def CW.finalize (K : Codec) (w : CW K) : Bytes :=
  match w.st with
  | .ready => encSizes ⟨w.sizes, 0⟩
  | .inData written es cnt =>
    let fin := K.efinish es
    fin ++ encSizes ⟨w.sizes ++ [cnt + fin.length], written⟩

def CW.writeAll (P : Params) (K : Codec) : Nat → CW K → Bytes → CW K × Bytes
  | 0, w, _ => (w, [])
  | fuel+1, w, buf =>
    if buf = [] then (w, []) else
    let (w', n, e) := w.write P K buf
    let (w'', e') := CW.writeAll P K fuel w' (buf.drop n)
    (w'', e ++ e')

/-- layer-level actions: `write_all` of a piece, or `flush` -/
inductive LAct where
  | write (b : Bytes)
  | flush
deriving Repr, DecidableEq

def LAct.written : List LAct → Bytes
  | [] => []
  | .write b :: r => b ++ LAct.written r
  | .flush :: r => LAct.written r

def compStep (P : Params) (K : Codec) (acc : CW K × Bytes) : LAct → CW K × Bytes
  | .write b => let r := CW.writeAll P K (b.length + 1) acc.1 b; (r.1, acc.2 ++ r.2)
  | .flush => let r := CW.flush K acc.1; (r.1, acc.2 ++ r.2)

def compRun (P : Params) (K : Codec) (level : Nat) (acts : List LAct) : CW K × Bytes :=
  acts.foldl (compStep P K) (CW.init K level, [])

/-- `k`-th block of the plaintext -/
def blockOf (P : Params) (p : Bytes) (k : Nat) : Bytes := (p.drop (k * P.block)).take P.block

/-- A well-formed compressed stream for plaintext `p`: blocks `cs` (each a complete stream decoding
    to the corresponding `block`-byte piece of `p`, the last one possibly shorter), then the table. -/
structure IsCompressed (P : Params) (K : Codec) (p : Bytes) (cs : List Bytes) (e : Bytes) : Prop where
  layout : e = cs.flatten ++ encSizes ⟨cs.map List.length, p.length - (cs.length - 1) * P.block⟩
  count : cs.length = (p.length + P.block - 1) / P.block
  blocks : ∀ k (h : k < cs.length), K.dec cs[k] = some (blockOf P p k)

/-! ### Normal reader (`CompressionLayerReader`) -/

inductive CRSt where
  | ready
  | inData (read usize : Nat) (plain : Bytes)   -- `plain`: what the block's decompressor still holds
  | empty                                        -- placeholder left behind by an error
deriving Repr, DecidableEq

structure CompR (ι : Type) where
  inner : ι
  sizes : Option Sizes
  upos : Nat
  st : CRSt

/-- parse `[SizesInfo][len]` (every failure is a `DeserializationError`) -/
def parseSizes (tbl : Bytes) : Except Err Sizes :=
  match readLe 8 tbl with
  | .error _ => .error .deser
  | .ok (n, r) =>
    if r.length < 4 * n + 4 then .error .deser else
    let cs := (List.range n).map fun i => unle ((r.drop (4 * i)).take 4)
    .ok ⟨cs, unle ((r.drop (4 * n)).take 4)⟩

variable {ι : Type} [Stream ι]

/-- `initialize` (after `new`): read the table from the end of the inner stream -/
def CompR.init (inner : ι) : Except Err (CompR ι) :=
  match Stream.seek inner (.fromEnd (-4)) with
  | .error e => .error e
  | .ok (i, pos) =>
    match readUpTo 5 i 4 with
    | .error e => .error e
    | .ok (i, lenB) =>
      if lenB.length < 4 then .error .eof else
      let len := unle lenB
      if pos < len then .error .deser else
      match Stream.seek i (.start (pos - len)) with
      | .error e => .error e
      | .ok (i, _) =>
        match readUpTo (len + 1) i len with
        | .error e => .error e
        | .ok (i, tbl) =>
          match parseSizes tbl with
          | .error e => .error e
          | .ok z => .ok ⟨i, some z, 0, .ready⟩

/-- start offset of block `k` in the inner stream -/
def Sizes.startOf (z : Sizes) (k : Nat) : Nat := (z.csizes.take k).sum

/-- enter the block at uncompressed position `upos` (a block boundary): seek the inner stream to
    the block, take its compressed bytes, decode. -/
def CompR.enter (P : Params) (K : Codec) (r : CompR ι) (z : Sizes) (upos : Nat) :
    Except Err (ι × Nat × Bytes) :=
  if upos % P.block ≠ 0 then .error .io
  else if ¬ upos < z.maxPos P then .error .endOfStream
  else
    let k := upos / P.block
    match Stream.seek r.inner (.start (z.startOf k)) with
    | .error e => .error e
    | .ok (i, _) =>
      match z.csizes[k]? with
      | none => .error .endOfStream
      | some csz =>
        match readUpTo (csz + 1) i csz with
        | .error e => .error e
        | .ok (i, c) =>
          match K.dec c with
          | none => .error .io
          | some plain => .ok (i, z.usizeAt P k, plain)

/-- `read`; `rd` is the decompressor's short-read policy (`0 < rd m ≤ m` for `m > 0`). -/
def CompR.readFull (P : Params) (K : Codec) (rd : Nat → Nat) :
    Nat → CompR ι → Nat → CompR ι × Except Err Bytes
  | 0, r, _ => (r, .error (.panic "compr-fuel"))
  | fuel+1, r, n =>
    match r.sizes with
    | none => (r, .error .missing)
    | some z =>
      if ¬ r.upos < z.maxPos P then (r, .ok []) else
      match r.st with
      | .empty => (r, .error .state)
      | .ready =>
        match CompR.enter P K r z r.upos with
        | .error e => ({ r with st := .empty }, .error e)
        | .ok (i, usize, plain) =>
          CompR.readFull P K rd fuel { r with inner := i, st := .inData 0 usize plain } n
      | .inData read usize plain =>
        if usize < read then ({ r with st := .empty }, .error .state)
        else if read = usize then CompR.readFull P K rd fuel { r with st := .ready } n
        else
          let size := min (usize - read) n
          let out := plain.take (rd (min size plain.length))
          ({ r with upos := r.upos + out.length,
                    st := .inData (read + out.length) usize (plain.drop out.length) }, .ok out)

def CompR.seekStart (P : Params) (K : Codec) (r : CompR ι) (pos : Nat) : CompR ι × Except Err Nat :=
  match r.sizes with
  | none => (r, .error .missing)
  | some z =>
    let endPos := z.maxPos P
    if endPos < pos then (r, .error .endOfStream)
    else if r.st = .empty then (r, .error .state)
    else if pos = endPos then ({ r with upos := pos }, .ok pos)
    else
      let inside := pos % P.block
      let rounded := pos - inside
      match CompR.enter P K r z rounded with
      | .error e => ({ r with st := .empty }, .error e)
      | .ok (i, usize, plain) =>
        -- `io::copy(decompressor.take(inside), sink)`
        ({ r with inner := i, upos := pos, st := .inData inside usize (plain.drop inside) }, .ok pos)

def CompR.seekFull (P : Params) (K : Codec) (r : CompR ι) : SeekFrom → CompR ι × Except Err Nat
  | .start pos => CompR.seekStart P K r pos
  | .current d =>
    match r.sizes with
    | none => (r, .error .missing)
    | some _ =>
      if d = 0 then (r, .ok r.upos)
      else if (r.upos : Int) + d < 0 then (r, .error .io)
      else CompR.seekStart P K r ((r.upos : Int) + d).toNat
  | .fromEnd d =>
    match r.sizes with
    | none => (r, .error .missing)
    | some z =>
      if 0 < d then (r, .error .endOfStream)
      else if (z.maxPos P : Int) + d < 0 then (r, .error .io)   -- u64 subtraction overflow
      else CompR.seekStart P K r ((z.maxPos P : Int) + d).toNat

structure CompRd (P : Params) (K : Codec) (rd : Nat → Nat) (ι : Type) where
  r : CompR ι

instance (P : Params) (K : Codec) (rd : Nat → Nat) : Stream (CompRd P K rd ι) where
  seek s w := match CompR.seekFull P K s.r w with
    | (r', .ok p) => .ok (⟨r'⟩, p)
    | (_, .error e) => .error e
  read s n := match CompR.readFull P K rd 3 s.r n with
    | (r', .ok b) => .ok (⟨r'⟩, b)
    | (_, .error e) => .error e

/-! ### Fail-safe reader: functional specification

Streams are decoded one after the other from the bytes available; a stream may not deliver more
than `block` bytes; what follows the last complete stream is decoded as far as it goes.  The flag
says whether the reader stops with an error (`true`) or a clean end (`false`).  -/
def fsDecomp (P : Params) (K : Codec) : Nat → Bytes → Bytes × Bool
  | 0, _ => ([], true)
  | fuel+1, s =>
    if s = [] then ([], false) else
    match K.decStream s with
    | (out, _, true) => (out.take P.block, true)
    | (out, none, false) =>
      if P.block < out.length then (out.take P.block, true) else (out, out ≠ [])
    | (out, some rest, false) =>
      if P.block < out.length then (out.take P.block, true)
      else if s.length ≤ rest.length then (out, true)
      else
        let (o2, e2) := fsDecomp P K fuel rest
        (out ++ o2, e2)

end MlaModel

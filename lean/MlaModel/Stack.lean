/-
  MlaModel.Stack — the full writer stack `ArchiveWriter::from_config` builds (mla/src/lib.rs:812-849)
  and the key material of an encrypted archive (mla/src/layers/encrypt.rs:63-173,
  mla/src/crypto/ecc.rs, mla/src/config.rs).

      ArchiveWriter ─► Position ─► [Compression] ─► [Encryption] ─► Raw ─► destination

  Every layer is a state machine that reacts synchronously to the calls of the layer above
  (`write_all` of a piece, `flush`, and one final `finalize`), so the stack is modelled as a
  pipeline of call lists:

  * `Stack.topActs`  : the calls `ArchiveWriter` issues on its destination for an op list.  Each op
    emits its bytes (`Writer.step`) through a number of `write_all` calls — `ArchiveFileBlock::dump`
    issues one per field, `io::copy` one per 8 KiB — whose cut is *arbitrary* here (`Cut`): theorems
    quantify over every cut.  `ArchiveWriter::flush` is `dest.flush()` (no state check).  The run
    stops at the first successful `finalize`: afterwards every writing call is refused by the state
    check and `flush` reaches `Ready(inner).flush()` → `Raw.flush()`, which emit nothing.
  * `Stack.compTrans`: the compression layer as a transducer of call lists (`compStep`; what
    `CW.write`/`CW.flush` emit goes down through `write_all` calls with an arbitrary cut; `flush` is
    forwarded after the encoder's flush; `finalize` writes the sizes table, then finalizes below).
  * `Stack.encSink`  : the encryption layer over the raw layer: `write_all` pieces go through
    `EW.writeAll`, `flush` is `inner.flush()` (emits nothing), `finalize` emits the last tag.
  * Position and Raw writers are pass-through (`position.rs`, `raw.rs`).

  `Stack.run` gives the bytes that reach the destination *after the header*.
-/
import MlaModel.Writer
import MlaModel.Encrypt
import MlaModel.Compress
namespace MlaModel

/-- How a caller cuts the bytes of its `i`-th emission into successive `write_all` calls.  Any cut
    whose pieces concatenate to the input is allowed. -/
structure Cut where
  f : Nat → Bytes → List Bytes
  flat : ∀ i b, (f i b).flatten = b

/-- executable cuts: piece sizes for call `i` are `sizes i`; what is left is the last piece -/
def cutBy : List Nat → Bytes → List Bytes
  | [], b => [b]
  | n :: ns, b => b.take n :: cutBy ns (b.drop n)

theorem cutBy_flatten (ns : List Nat) (b : Bytes) : (cutBy ns b).flatten = b := by
  induction ns generalizing b with
  | nil => simp [cutBy]
  | cons n ns ih => simp [cutBy, ih]

def Cut.bySizes (sizes : Nat → List Nat) : Cut := ⟨fun i b => cutBy (sizes i) b, fun _ _ => cutBy_flatten _ _⟩

/-- one call, one piece -/
def Cut.whole : Cut := ⟨fun _ b => [b], by simp⟩

/-- the pieces written by a call list (flushes dropped) -/
def LAct.pieces : List LAct → List Bytes
  | [] => []
  | .write b :: r => b :: LAct.pieces r
  | .flush :: r => LAct.pieces r

/-- layers enabled (`Layers::COMPRESS` with its level, `Layers::ENCRYPT`) -/
structure StackCfg where
  compress : Option Nat
  encrypt : Bool
deriving Repr, DecidableEq

/-- `layers_enabled` as serialized: ENCRYPT = 1, COMPRESS = 2 -/
def StackCfg.bits (c : StackCfg) : Nat := (if c.encrypt then 1 else 0) + (if c.compress.isSome then 2 else 0)

section
variable (P : Params) (H : Bytes → Bytes)

/-- the calls one op turns into: `flush` is forwarded, anything else writes its bytes -/
def Stack.opActs (cut : Cut) (i : Nat) (op : Op) (e : Bytes) : List LAct :=
  match op with
  | .flush => [.flush]
  | _ => (cut.f i e).map LAct.write

/-- `CompressionLayerWriter::flush` flushes the encoder, then the layer below -/
def Stack.fwdFlush : LAct → List LAct
  | .flush => [.flush]
  | .write _ => []

/-- calls issued by `ArchiveWriter` on the top of the stack, and whether `finalize` succeeded -/
def Stack.topActs (cut : Cut) : Nat → WState → List Op → List LAct × Bool
  | _, _, [] => ([], false)
  | i, s, op :: ops =>
    let r := Writer.step P H s op
    let here : List LAct := Stack.opActs cut i op r.2.2
    if r.1.finalized && !s.finalized then (here, true)
    else
      let rest := Stack.topActs cut (i + 1) r.1 ops
      (here ++ rest.1, rest.2)

/-- compression layer: calls received ↦ calls issued on the layer below -/
def Stack.compTrans (K : Codec) (cut : Cut) : Nat → CW K → List LAct → Bool → List LAct
  | i, w, [], fin => if fin then (cut.f i (w.finalize K)).map LAct.write else []
  | i, w, a :: as, fin =>
    let r := compStep P K (w, []) a
    (cut.f i r.2).map LAct.write ++ Stack.fwdFlush a ++
      Stack.compTrans K cut (i + 1) r.1 as fin

/-- encryption layer over the raw layer: bytes reaching the destination -/
def Stack.encSink (C : EncPrims) (acts : List LAct) (fin : Bool) : Bytes :=
  let r := encWritePieces P C (LAct.pieces acts)
  r.2 ++ (if fin then r.1.finalize C else [])

structure Stack.Out where
  /-- bytes that reached the destination after the header -/
  dest : Bytes
  /-- `finalize` succeeded (the layers have been finalized) -/
  fin : Bool
  /-- per-call results of the `ArchiveWriter` -/
  results : List Res
deriving Repr

/-- the calls that reach the encryption layer (or the raw layer when encryption is off) -/
def Stack.lowActs (K : Codec) (cfg : StackCfg) (cutTop cutComp : Cut) (ops : List Op) : List LAct × Bool :=
  let t := Stack.topActs P H cutTop 0 WState.init ops
  match cfg.compress with
  | some lvl => (Stack.compTrans P K cutComp 0 (CW.init K lvl) t.1 t.2, t.2)
  | none => t

/-- the whole stack -/
def Stack.run (C : EncPrims) (K : Codec) (cfg : StackCfg) (cutTop cutComp : Cut) (ops : List Op) : Stack.Out :=
  let l := Stack.lowActs P H K cfg cutTop cutComp ops
  { dest := if cfg.encrypt then Stack.encSink P C l.1 l.2 else LAct.written l.1,
    fin := l.2,
    results := (Writer.run P H ops).2.1 }

/-- What the encryption layer is given to protect, described without reference to the cuts below
    the compression layer: the archive writer's block stream (no compression), or the compression
    layer's output for the calls it received (then its `finalize` bytes once finalized). -/
def Stack.inner (K : Codec) (cfg : StackCfg) (cutTop : Cut) (ops : List Op) : Bytes :=
  let t := Stack.topActs P H cutTop 0 WState.init ops
  match cfg.compress with
  | none => LAct.written t.1
  | some lvl =>
    let r := compRun P K lvl t.1
    r.2 ++ (if t.2 then r.1.finalize K else [])

end

/-! ### Key material (ECIES over abstract primitives) -/

/-- `dh scalar point` = X25519 (clamping inside), `kdf` = HKDF-SHA256(no salt, "KEY DERIVATION"),
    `wrap k m` = AES-256-GCM(k, nonce "ECIES NONCE0", aad "") of a 32-byte key: ciphertext ‖ tag
    (`KeyAndTag`), `unwrap` = decrypt-and-compare-tag. -/
structure SEcies where
  dh : Bytes → Bytes → Bytes
  base : Bytes
  kdf : Bytes → Bytes
  wrap : Bytes → Bytes → Bytes
  unwrap : Bytes → Bytes → Option Bytes

structure SEcies.Laws (E : SEcies) : Prop where
  dh_comm : ∀ a b, E.dh a (E.dh b E.base) = E.dh b (E.dh a E.base)
  unwrap_wrap : ∀ k m, E.unwrap k (E.wrap k m) = some m

/-- the three random draws of one archive: `EncryptionConfig::default` draws `key` then `nonce` from
    one `ChaChaRng::from_os_rng()`; `to_persistent` draws the ephemeral scalar from another -/
structure Draws where
  key : Bytes
  nonce : Bytes
  eph : Bytes
deriving Repr, DecidableEq

/-- `EncryptionConfig` -/
structure EncConfig where
  eccKeys : List Bytes
  key : Bytes
  nonce : Bytes
deriving Repr, DecidableEq

/-- `EncryptionConfig::default()` -/
def EncConfig.default (d : Draws) : EncConfig := ⟨[], d.key, d.nonce⟩

/-- `add_public_keys` -/
def EncConfig.addPublicKeys (c : EncConfig) (ks : List Bytes) : EncConfig := { c with eccKeys := c.eccKeys ++ ks }

/-- `MultiRecipientPersistent` + nonce = `EncryptionPersistentConfig` -/
structure EncPersistent where
  pub : Bytes
  wrapped : List Bytes
  nonce : Bytes
deriving Repr, DecidableEq

/-- `derive_key` -/
def SEcies.deriveKey (E : SEcies) (priv pub : Bytes) : Bytes := E.kdf (E.dh priv pub)

/-- `store_key_for_multi_recipients` -/
def SEcies.storeKey (E : SEcies) (recipients : List Bytes) (key eph : Bytes) : Bytes × List Bytes :=
  (E.dh eph E.base, recipients.map fun r => E.wrap (E.deriveKey eph r) key)

/-- `EncryptionConfig::to_persistent` (the draw of the ephemeral scalar made explicit) -/
def EncConfig.toPersistent (E : SEcies) (c : EncConfig) (eph : Bytes) : EncPersistent :=
  let s := E.storeKey c.eccKeys c.key eph
  ⟨s.1, s.2, c.nonce⟩

/-- `retrieve_key`: try every wrapped key with the key derived from one private key -/
def SEcies.retrieveKey (E : SEcies) (p : EncPersistent) (priv : Bytes) : Option Bytes :=
  let k := E.deriveKey priv p.pub
  let rec go : List Bytes → Option Bytes
    | [] => none
    | kt :: r => match E.unwrap k kt with
      | some d => some d
      | none => go r
  go p.wrapped

/-- the candidate loop of `EncryptionReaderConfig::load_persistent` (with its `break`) -/
def SEcies.tryKeys (E : SEcies) (p : EncPersistent) : List Bytes → Option Bytes
  | [] => none
  | sk :: r => match E.retrieveKey p sk with
    | some k => some k
    | none => SEcies.tryKeys E p r

/-- `EncryptionReaderConfig::load_persistent`: `(key, nonce)` or a `ConfigError`
    (`PrivateKeyNotSet` / `PrivateKeyNotFound`, both class `config`) -/
def SEcies.loadPersistent (E : SEcies) (p : EncPersistent) (privs : List Bytes) : Except Err (Bytes × Bytes) :=
  if privs = [] then .error .config else
  match E.tryKeys p privs with
  | some k => .ok (k, p.nonce)
  | none => .error .config

/-- `ArchiveHeader::dump`: magic, format version 1, `ArchivePersistentConfig` in fixint bincode
    (`layers_enabled: u8`, `encrypt: Option<{public: [u8;32], encrypted_keys: Vec<{key,tag}>, nonce: [u8;8]}>`) -/
def encHeader (bits : Nat) (pc : Option EncPersistent) : Bytes :=
  [0x4D, 0x4C, 0x41] ++ le32 1 ++ [bits.toUInt8] ++
    match pc with
    | none => [0]
    | some p => [1] ++ p.pub ++ le64 p.wrapped.length ++ p.wrapped.flatten ++ p.nonce

/-- everything `ArchiveWriter::from_config` derives from a configuration: the header and the
    `(key, nonce)` the encryption layer writer is built with.  `config.check()` refuses ENCRYPT
    without any public key. -/
structure Opened where
  header : Bytes
  encKey : Bytes
  encNonce : Bytes
deriving Repr, DecidableEq

def Stack.fromConfig (E : SEcies) (cfg : StackCfg) (recipients : List Bytes) (d : Draws) : Except Err Opened :=
  let c := (EncConfig.default d).addPublicKeys recipients
  if cfg.encrypt && c.eccKeys.isEmpty then .error .config else
  let pc := if cfg.encrypt then some (c.toPersistent E d.eph) else none
  .ok ⟨encHeader cfg.bits pc, c.key, c.nonce⟩

/-- a whole archive: header, then the stack's output, the cipher being instantiated with the
    configuration's key and nonce (`prims key nonce` = AES-256-GCM with nonce prefix `nonce`) -/
def Stack.archive (P : Params) (H : Bytes → Bytes) (E : SEcies) (prims : Bytes → Bytes → EncPrims) (K : Codec)
    (cfg : StackCfg) (recipients : List Bytes) (d : Draws) (cutTop cutComp : Cut) (ops : List Op) :
    Except Err Bytes :=
  match Stack.fromConfig E cfg recipients d with
  | .error e => .error e
  | .ok o => .ok (o.header ++ (Stack.run P H (prims o.encKey o.encNonce) K cfg cutTop cutComp ops).dest)

end MlaModel

/-
  C13 — partial I/O.

  "An archive written to a destination that accepts only part of each write, one byte at a time, or
   that reports interruptions, contains the same files as when written to memory; an archive read
   or repaired from a source that returns fewer bytes than asked on every read gives the same
   listing, contents and repair result as from memory."

  SOURCE side (model: `Throttled sched`, MlaModel/IoSched.lean — the `k`-th `read(n)` returns
  `min n (sched k n)` bytes; hypothesis on the schedule: a non-empty request gets at least one byte).
    * `throttled_cursor`            : such a source behaves like a cursor over its data (`IsCursor`),
      for EVERY schedule.  Every layer reader is generic in its inner stream, so
      `throttled_raw`, `throttled_enc`, `throttled_comp`, `throttled_stack` are instantiations.
    * `source_reader`               : over any two cursor-like sources (any schedules, any layer
      stacks, any previous histories) listing, sizes, hashes and the concatenated contents per
      handle are the same — those of the archive (from `C10`); `source_reader_throttled` is the
      instance "throttled source vs. in-memory cursor".
    * `readUpTo_throttled`          : `take(k).read_to_end` returns the same bytes and leaves the same
      position as over memory.
    * `source_failsafe_loaders`, `source_failsafe`, `source_repair` : the fail-safe encryption reader
      over a stream source (`EncFSrc`: `loadUnauthS`/`loadAuthS` use `take(..).read_to_end` and
      `io::copy(take(TAG), sink)`) computes the same cache and the same remaining bytes as `EncF`
      over memory, delivers the same bytes, hence `convert_to_archive` gets the same input.

  SINK side (model: `Sink accept` — the `k`-th `write(buf)` accepts `accept k |buf|` = `some j`
  bytes or is `Interrupted`; `writeAllW` = `Write::write_all`; `PosW` = `PositionLayerWriter`).
    * `write_all`        : on a schedule that never answers `Ok(0)` and never interrupts forever
      (`Sink.Fair`), `write_all` succeeds and the sink collected exactly `old ++ buf`; with at most
      `B` interruptions in a row, fuel `|buf| * (B + 1)` suffices.
    * `sink_stack`       : a writer stack only talks to its destination through `write_all`; whatever
      pieces it issues, the destination ends up with their concatenation — the in-memory bytes.
    * `position_counts`  : the position layer's counter equals the number of bytes the destination
      collected, for EVERY schedule (fair or not, enough fuel or not, error or not), and the layer is
      a pass-through; on a fair schedule the counter ends at `|pieces.flatten|`.
-/
import MlaModel.Proofs.IoSched
import MlaModel.Theorems.C10
import MlaModel.Theorems.C11Encrypt
import MlaModel.Theorems.C11Compress
import MlaModel.Repair
namespace MlaModel.C13
open MlaModel

/-! ## Source side -/

/-- the invariant of a throttled source over `data` -/
abbrev TInv (sched : Nat → Nat → Nat) (data : Bytes) : Throttled sched → Prop :=
  fun c => c.data = data ∧ c.pos ≤ data.length

/-- **(a)** a source that returns fewer bytes than asked behaves like a cursor, for every schedule
    that returns at least one byte for a non-empty request -/
theorem throttled_cursor (sched : Nat → Nat → Nat) (hs : ∀ i n, 0 < n → 0 < sched i n)
    (data : Bytes) : IsCursor (TInv sched data) (·.pos) data :=
  Throttled.isCursor sched hs data

/-! ### (b) the layer readers over a throttled source are still cursors -/

section
variable (sched : Nat → Nat → Nat) (hs : ∀ i n, 0 < n → 0 < sched i n)
include hs

/-- the raw layer (positions relative to the end of the header) -/
theorem throttled_raw (full : Bytes) (off : Nat) (hoff : off ≤ full.length)
    (hfull : full.length < U64) :
    IsCursor (σ := RawR (Throttled sched))
      (fun r => TInv sched full r.inner ∧ r.off = off ∧ off ≤ r.inner.pos)
      (fun r => r.inner.pos - r.off) (full.drop off) :=
  RawR.isCursor full off hoff hfull (throttled_cursor sched hs full)

/-- the encryption reader -/
theorem throttled_enc (P : Params) (C : EncPrims) (hC : C11.EncPrims.Laws P C) (p : Bytes)
    (hchunks : p.length / P.chunk + 1 < U32) :
    IsCursor (σ := EncRd P C (Throttled sched))
      (EncRd.Inv P C p (TInv sched (sealS P C p)) (·.pos))
      (fun s => s.r.chunkNo * P.chunk + s.r.cpos) p :=
  C11.EncRd.isCursor P C hC p hchunks (throttled_cursor sched hs (sealS P C p))

/-- the compression reader -/
theorem throttled_comp (P : Params) (K : Codec) (rd : Nat → Nat)
    (hrd : ∀ m, 0 < m → 0 < rd m ∧ rd m ≤ m) (hrd0 : rd 0 = 0) (p : Bytes) (cs : List Bytes)
    (e : Bytes) (hc : IsCompressed P K p cs e) :
    IsCursor (σ := CompRd P K rd (Throttled sched))
      (CompRd.Inv P K p cs e (TInv sched e) (·.pos)) (fun s => s.r.upos) p :=
  C11.CompRd.isCursor P K rd hrd hrd0 p cs e hc (throttled_cursor sched hs e)

/-- the whole reading stack — compression over encryption over raw over a throttled file -/
theorem throttled_stack (P : Params) (C : EncPrims) (hC : C11.EncPrims.Laws P C) (K : Codec)
    (rd : Nat → Nat) (hrd : ∀ m, 0 < m → 0 < rd m ∧ rd m ≤ m) (hrd0 : rd 0 = 0)
    (p : Bytes) (cs : List Bytes) (e : Bytes) (hc : IsCompressed P K p cs e)
    (hchunks : e.length / P.chunk + 1 < U32)
    (full : Bytes) (off : Nat) (hoff : off ≤ full.length) (hfile : full.length < U64)
    (hfull : full.drop off = sealS P C e) :
    ∃ (InvS : CompRd P K rd (EncRd P C (RawR (Throttled sched))) → Prop),
      IsCursor InvS (fun s => s.r.upos) p := by
  have h1 := throttled_raw sched hs full off hoff hfile
  rw [hfull] at h1
  exact ⟨_, C11.CompRd.isCursor P K rd hrd hrd0 p cs e hc (C11.EncRd.isCursor P C hC e hchunks h1)⟩

end

/-! ### (b) the archive reader over two different sources -/

section
variable (P : Params) (H : Bytes → Bytes) (utf8 : Bytes → Bool) (ops : List Op)
  (hH : ∀ b, (H b).length = hashLen) (hwf : ∀ op ∈ ops, op.WF utf8)
  (hacc : AllAccepted P H ops) (hfin : ops.getLast? = some .finalize)
  (hlen : ops.length < U64) (hpos : (Writer.run P H ops).2.2.length < U64)
  {σ₁ σ₂ : Type} [Stream σ₁] [Stream σ₂]
  (Inv₁ : σ₁ → Prop) (abs₁ : σ₁ → Nat) (hI₁ : IsCursor Inv₁ abs₁ (Writer.run P H ops).2.2)
  (a₁ : ArS σ₁) (h0₁ : Inv₁ a₁.src) (hix₁ : a₁.ix = (Writer.run P H ops).1.index)
  (hh₁ : a₁.handle = none)
  (Inv₂ : σ₂ → Prop) (abs₂ : σ₂ → Nat) (hI₂ : IsCursor Inv₂ abs₂ (Writer.run P H ops).2.2)
  (a₂ : ArS σ₂) (h0₂ : Inv₂ a₂.src) (hix₂ : a₂.ix = (Writer.run P H ops).1.index)
  (hh₂ : a₂.handle = none)
include hH hwf hacc hfin hlen hpos hI₁ h0₁ hix₁ hh₁ hI₂ h0₂ hix₂ hh₂

/-- **C13.source_reader** — two readers of the same archive over two sources that behave like
    cursors (two read schedules, two layer stacks, memory vs. throttled file …), after ANY two
    histories `h₁`, `h₂`: listing, size and hash answers are equal, and opening `name` and reading it
    with positive buffers (any sizes `ns₁`, `ns₂`, at least as many as the file has bytes) yields
    chunks whose concatenations are equal — all being what the archive contains. -/
theorem source_reader (h₁ h₂ : List ROp) (name content : Bytes) (hm : (name, content) ∈ specOf ops)
    (ns₁ ns₂ : List Nat) (hp₁ : ∀ n ∈ ns₁, 0 < n) (hp₂ : ∀ n ∈ ns₂, 0 < n)
    (hl₁ : content.length ≤ ns₁.length) (hl₂ : content.length ≤ ns₂.length) :
    (∃ bs₁ bs₂ : List Bytes,
      (ArS.run P utf8 a₁ (h₁ ++ .getFile name :: ns₁.map .read)).2 =
        (ArS.run P utf8 a₁ h₁).2 ++ .opened content.length :: bs₁.map .data ∧
      (ArS.run P utf8 a₂ (h₂ ++ .getFile name :: ns₂.map .read)).2 =
        (ArS.run P utf8 a₂ h₂).2 ++ .opened content.length :: bs₂.map .data ∧
      bs₁.flatten = bs₂.flatten ∧ bs₁.flatten = content) ∧
    (∃ o, (ArS.run P utf8 a₁ (h₁ ++ [.list])).2 = (ArS.run P utf8 a₁ h₁).2 ++ [o] ∧
          (ArS.run P utf8 a₂ (h₂ ++ [.list])).2 = (ArS.run P utf8 a₂ h₂).2 ++ [o] ∧
          o = .names ((specOf ops).map (·.1))) ∧
    (∃ o, (ArS.run P utf8 a₁ (h₁ ++ [.getSize name])).2 = (ArS.run P utf8 a₁ h₁).2 ++ [o] ∧
          (ArS.run P utf8 a₂ (h₂ ++ [.getSize name])).2 = (ArS.run P utf8 a₂ h₂).2 ++ [o] ∧
          o = .size content.length) ∧
    (∃ o, (ArS.run P utf8 a₁ (h₁ ++ [.getHash name])).2 = (ArS.run P utf8 a₁ h₁).2 ++ [o] ∧
          (ArS.run P utf8 a₂ (h₂ ++ [.getHash name])).2 = (ArS.run P utf8 a₂ h₂).2 ++ [o] ∧
          o = .hash (H content)) := by
  obtain ⟨⟨bs₁, e₁, _, _, c₁⟩, _⟩ := C10.same_as_alone P H utf8 ops hH hwf hacc hfin hlen hpos
    Inv₁ abs₁ hI₁ a₁ h0₁ hix₁ hh₁ h₁ name content hm ns₁
  obtain ⟨⟨bs₂, e₂, _, _, c₂⟩, _⟩ := C10.same_as_alone P H utf8 ops hH hwf hacc hfin hlen hpos
    Inv₂ abs₂ hI₂ a₂ h0₂ hix₂ hh₂ h₂ name content hm ns₂
  refine ⟨⟨bs₁, bs₂, e₁, e₂, by rw [c₁ hp₁ hl₁, c₂ hp₂ hl₂], c₁ hp₁ hl₁⟩, ?_, ?_, ?_⟩
  · exact ⟨_, (C10.list_same_as_alone P H utf8 ops hH hwf hacc hfin hlen hpos Inv₁ abs₁ hI₁ a₁ h0₁
        hix₁ hh₁ h₁).1,
      (C10.list_same_as_alone P H utf8 ops hH hwf hacc hfin hlen hpos Inv₂ abs₂ hI₂ a₂ h0₂
        hix₂ hh₂ h₂).1, rfl⟩
  · exact ⟨_, (C10.size_same_as_alone P H utf8 ops hH hwf hacc hfin hlen hpos Inv₁ abs₁ hI₁ a₁ h0₁
        hix₁ hh₁ h₁ name content hm).1,
      (C10.size_same_as_alone P H utf8 ops hH hwf hacc hfin hlen hpos Inv₂ abs₂ hI₂ a₂ h0₂
        hix₂ hh₂ h₂ name content hm).1, rfl⟩
  · exact ⟨_, (C10.hash_same_as_alone P H utf8 ops hH hwf hacc hfin hlen hpos Inv₁ abs₁ hI₁ a₁ h0₁
        hix₁ hh₁ h₁ name content hm).1,
      (C10.hash_same_as_alone P H utf8 ops hH hwf hacc hfin hlen hpos Inv₂ abs₂ hI₂ a₂ h0₂
        hix₂ hh₂ h₂ name content hm).1, rfl⟩

end

/-! ### (c) `take(k).read_to_end` -/

/-- over a throttled source `take(limit).read_to_end` returns the same bytes and leaves the same
    position as over memory -/
theorem readUpTo_throttled (sched : Nat → Nat → Nat) (hs : ∀ i n, 0 < n → 0 < sched i n)
    (data : Bytes) (s : Throttled sched) (c : Cur) (hsd : s.data = data) (hcd : c.data = data)
    (hp : s.pos ≤ data.length) (hpc : c.pos = s.pos) (limit : Nat) :
    ∃ s' c', readUpTo (limit + 1) s limit = .ok (s', (data.drop s.pos).take limit) ∧
      readUpTo (limit + 1) c limit = .ok (c', (data.drop s.pos).take limit) ∧
      s'.pos = c'.pos ∧ s'.data = data := by
  obtain ⟨s', h1, hi1, ha1⟩ := readUpTo_ok (throttled_cursor sched hs data) (limit + 1) s limit
    ⟨hsd, hp⟩ (Nat.lt_succ_self _)
  obtain ⟨c', h2, _, ha2⟩ := readUpTo_ok (Cur.isCursor data) (limit + 1) c limit
    ⟨hcd, by omega⟩ (Nat.lt_succ_self _)
  have h1' : readUpTo (limit + 1) s limit = .ok (s', (data.drop s.pos).take limit) := h1
  have h2' : readUpTo (limit + 1) c limit = .ok (c', (data.drop c.pos).take limit) := h2
  have ha1' : s'.pos = s.pos + ((data.drop s.pos).take limit).length := ha1
  have ha2' : c'.pos = c.pos + ((data.drop c.pos).take limit).length := ha2
  rw [hpc] at h2' ha2'
  exact ⟨s', c', h1', h2', by omega, hi1.1⟩

/-! ### (c) the fail-safe encryption reader and repair -/

section
variable (sched : Nat → Nat → Nat) (hs : ∀ i n, 0 < n → 0 < sched i n) (P : Params) (C : EncPrims)
include hs

/-- the two loaders over a throttled source compute the same result, the same cache and the same
    remaining bytes (`absF`) as `EncF.loadUnauth` / `EncF.loadAuth` over memory, for every schedule -/
theorem source_failsafe_loaders (e : Bytes) (f : EncFSrc (Throttled sched))
    (hf : TInv sched e f.inner) :
    (∃ f', EncFSrc.loadUnauthS P C f = (f', .ok (EncF.loadUnauth P C (f.absF (·.pos) e)).2) ∧
      TInv sched e f'.inner ∧ f'.absF (·.pos) e = (EncF.loadUnauth P C (f.absF (·.pos) e)).1) ∧
    (∃ f', EncFSrc.loadAuthS P C f = (f', (EncF.loadAuth P C (f.absF (·.pos) e)).2) ∧
      TInv sched e f'.inner ∧ f'.absF (·.pos) e = (EncF.loadAuth P C (f.absF (·.pos) e)).1) :=
  ⟨EncFSrc.loadUnauthS_sim (throttled_cursor sched hs e) P C f hf,
   EncFSrc.loadAuthS_sim (throttled_cursor sched hs e) P C f hf⟩

/-- **C13.source_failsafe** — the fail-safe encryption reader built on a throttled source holding
    `e` delivers exactly what `EncF` delivers from memory, in both modes, for every read-buffer size
    and every schedule. -/
theorem source_failsafe (mode : FsMode) (e : Bytes) (n fuel : Nat) :
    ∃ f b, EncFSrc.new P C mode (⟨e, 0, 0⟩ : Throttled sched) = (f, .ok b) ∧
      EncFSrc.deliver P C n fuel f = EncF.deliver P C n fuel (EncF.new P C mode e) := by
  obtain ⟨f, b, hn, hi, ha⟩ := EncFSrc.new_sim (throttled_cursor sched hs e) P C mode
    (⟨e, 0, 0⟩ : Throttled sched) ⟨rfl, Nat.zero_le _⟩
  refine ⟨f, b, hn, ?_⟩
  rw [EncFSrc.deliver_sim (throttled_cursor sched hs e) P C n fuel f hi, ha]
  rfl

end

/-- **repair** gets the same input whatever the schedules of the two sources, hence gives the same
    result (`Repair.convert` is a function of the delivered bytes and of how the stream ended) -/
theorem source_repair (s₁ s₂ : Nat → Nat → Nat) (h₁ : ∀ i n, 0 < n → 0 < s₁ i n)
    (h₂ : ∀ i n, 0 < n → 0 < s₂ i n) (P : Params) (C : EncPrims) (H : Bytes → Bytes)
    (utf8 : Bytes → Bool) (mode : FsMode) (e : Bytes) (n fuel : Nat) (endErr : Bool) :
    ∃ f₁ f₂ b₁ b₂, EncFSrc.new P C mode (⟨e, 0, 0⟩ : Throttled s₁) = (f₁, .ok b₁) ∧
      EncFSrc.new P C mode (⟨e, 0, 0⟩ : Throttled s₂) = (f₂, .ok b₂) ∧
      EncFSrc.deliver P C n fuel f₁ = EncFSrc.deliver P C n fuel f₂ ∧
      Repair.convert P H utf8 (EncFSrc.deliver P C n fuel f₁) endErr =
        Repair.convert P H utf8 (EncF.deliver P C n fuel (EncF.new P C mode e)) endErr ∧
      Repair.convert P H utf8 (EncFSrc.deliver P C n fuel f₂) endErr =
        Repair.convert P H utf8 (EncF.deliver P C n fuel (EncF.new P C mode e)) endErr := by
  obtain ⟨f₁, b₁, e₁, d₁⟩ := source_failsafe s₁ h₁ P C mode e n fuel
  obtain ⟨f₂, b₂, e₂, d₂⟩ := source_failsafe s₂ h₂ P C mode e n fuel
  exact ⟨f₁, f₂, b₁, b₂, e₁, e₂, by rw [d₁, d₂], by rw [d₁], by rw [d₂]⟩

/-! ## Sink side -/

section
variable {accept : Nat → Nat → Option Nat}

/-- **C13.write_all** — on a fair schedule (`Ok(0)` never answered to a non-empty buffer,
    interruptions never go on forever) `write_all` succeeds as soon as the fuel is `≥ F` and the sink
    has then collected exactly `old ++ buf`; if at most `B` interruptions come in a row,
    `F ≤ |buf| * (B + 1)`. -/
theorem write_all (hfair : Sink.Fair accept) (s : Sink accept) (buf : Bytes) :
    ∃ (F : Nat) (s' : Sink accept), s'.got = s.got ++ buf ∧
      (∀ f, F ≤ f → writeAllS f s buf = (s', .ok ())) ∧
      (∀ B, (∀ i n, 0 < n → ∃ d, d ≤ B ∧ accept (i + d) n ≠ none) → F ≤ buf.length * (B + 1)) :=
  writeAllW_sink hfair buf s

/-- **C13.sink_stack** — whatever sequence of `write_all` calls a writer stack issues (`pieces`:
    what `Stack.run` / `encWritePieces` / `compRun` emit, cut in any way), a fair destination ends up
    with exactly `pieces.flatten`, the bytes an in-memory destination gets. -/
theorem sink_stack (hfair : Sink.Fair accept) (pieces : List Bytes) (s : Sink accept) :
    ∃ (F : Nat) (s' : Sink accept), s'.got = s.got ++ pieces.flatten ∧
      (∀ f, F ≤ f → runOnSink f pieces s = (s', .ok ())) ∧
      (∀ B L, (∀ i n, 0 < n → ∃ d, d ≤ B ∧ accept (i + d) n ≠ none) →
        (∀ p ∈ pieces, p.length ≤ L) → F ≤ L * (B + 1)) :=
  runOnW_sink hfair pieces s

/-- **C13.position_counts** — through the position layer: (1) for EVERY schedule, fuel and outcome
    the counter equals the number of bytes the destination collected (it adds what `write`
    RETURNS); (2) the layer is a pass-through; (3) on a fair schedule with enough fuel everything is
    written and the counter ends at `|pieces.flatten|`. -/
theorem position_counts (pieces : List Bytes) :
    (∀ fuel, (runOnW fuel pieces (⟨({} : Sink accept), 0⟩ : PosW (Sink accept))).1.pos =
      (runOnW fuel pieces (⟨({} : Sink accept), 0⟩ : PosW (Sink accept))).1.inner.got.length) ∧
    (∀ fuel, (runOnW fuel pieces (⟨({} : Sink accept), 0⟩ : PosW (Sink accept))).1.inner =
      (runOnW fuel pieces ({} : Sink accept)).1) ∧
    (Sink.Fair accept → ∃ F, ∀ fuel, F ≤ fuel →
      (runOnW fuel pieces (⟨({} : Sink accept), 0⟩ : PosW (Sink accept))).2 = .ok () ∧
      (runOnW fuel pieces (⟨({} : Sink accept), 0⟩ : PosW (Sink accept))).1.inner.got
        = pieces.flatten ∧
      (runOnW fuel pieces (⟨({} : Sink accept), 0⟩ : PosW (Sink accept))).1.pos
        = pieces.flatten.length) := by
  have hcount := fun fuel => PosW.runOn_counts (accept := accept) fuel pieces
    (⟨({} : Sink accept), 0⟩ : PosW (Sink accept)) 0 rfl
  refine ⟨fun fuel => by simpa using hcount fuel,
    fun fuel => (PosW.runOn_inner fuel pieces _).1, ?_⟩
  intro hfair
  obtain ⟨F, s', hg, hall, _⟩ := runOnW_sink hfair pieces ({} : Sink accept)
  refine ⟨F, fun fuel hf => ?_⟩
  obtain ⟨hi, hr⟩ := PosW.runOn_inner fuel pieces (⟨({} : Sink accept), 0⟩ : PosW (Sink accept))
  have hrun := hall fuel hf
  simp only at hi hr
  rw [hrun] at hi hr
  have hgot : (runOnW fuel pieces (⟨({} : Sink accept), 0⟩ : PosW (Sink accept))).1.inner.got
      = pieces.flatten := by rw [hi, hg]; rfl
  refine ⟨hr, hgot, ?_⟩
  have := hcount fuel
  simp only [Nat.add_zero] at this
  rw [this, hgot]

end

/-! ## Non-vacuity -/

/-- one byte per call -/
def oneByte : Nat → Nat → Option Nat := fun _ _ => some 1
/-- everything at once -/
def allAtOnce : Nat → Nat → Option Nat := fun _ n => some n
/-- alternately `Interrupted` and one byte -/
def stutter : Nat → Nat → Option Nat := fun i _ => if i % 2 = 0 then none else some 1

theorem oneByte_fair : Sink.Fair oneByte :=
  ⟨fun _ _ j _ h => by simp only [oneByte, Option.some.injEq] at h; omega,
   fun _ _ _ => ⟨0, by simp [oneByte]⟩⟩
theorem allAtOnce_fair : Sink.Fair allAtOnce :=
  ⟨fun _ n j hn h => by simp only [allAtOnce, Option.some.injEq] at h; omega,
   fun _ _ _ => ⟨0, by simp [allAtOnce]⟩⟩
theorem stutter_fair : Sink.Fair stutter := by
  refine ⟨fun i _ j _ h => ?_, fun i _ _ => ?_⟩
  · simp only [stutter] at h; split at h <;> simp at h; omega
  · by_cases hi : i % 2 = 0
    · exact ⟨1, by simp only [stutter]; rw [if_neg (by omega)]; simp⟩
    · exact ⟨0, by simp only [stutter, Nat.add_zero]; rw [if_neg hi]; simp⟩
theorem stutter_bound : ∀ i n, 0 < n → ∃ d, d ≤ 1 ∧ stutter (i + d) n ≠ none := by
  intro i n _
  by_cases hi : i % 2 = 0
  · exact ⟨1, Nat.le_refl _, by simp only [stutter]; rw [if_neg (by omega)]; simp⟩
  · exact ⟨0, Nat.zero_le _, by simp only [stutter, Nat.add_zero]; rw [if_neg hi]; simp⟩

def exPieces : List Bytes := [[1, 2, 3], [], [4], [5, 6, 7, 8]]

example : runOnSink 8 exPieces ({} : Sink oneByte) = (⟨[1, 2, 3, 4, 5, 6, 7, 8], 8⟩, .ok ()) := by
  rfl
example : runOnSink 8 exPieces ({} : Sink allAtOnce) = (⟨[1, 2, 3, 4, 5, 6, 7, 8], 3⟩, .ok ()) := by
  rfl
example : runOnSink 8 exPieces ({} : Sink stutter) = (⟨[1, 2, 3, 4, 5, 6, 7, 8], 16⟩, .ok ()) := by
  rfl
/-- not enough fuel for the stuttering schedule: the model reports it, it does not invent bytes -/
example : (runOnSink 3 exPieces ({} : Sink stutter)).2 = .error (.panic "write_all-fuel") := by
  rfl
/-- through the position layer, on the stuttering schedule -/
example : (runOnW 8 exPieces (⟨({} : Sink stutter), 0⟩ : PosW (Sink stutter))).1.pos = 8 := by decide
/-- `sink_stack` applies with the explicit fuel bound `L * (B + 1) = 4 * 2` -/
example : ∃ s' : Sink stutter, s'.got = exPieces.flatten ∧ runOnSink 8 exPieces {} = (s', .ok ()) := by
  obtain ⟨F, s', hg, hall, hb⟩ := sink_stack stutter_fair exPieces ({} : Sink stutter)
  have : F ≤ 4 * (1 + 1) := hb 1 4 stutter_bound (by decide)
  exact ⟨s', by simpa using hg, hall 8 (by omega)⟩

/-- read schedules: one byte per call; everything; alternately one byte and everything -/
def rOne : Nat → Nat → Nat := fun _ _ => 1
def rAll : Nat → Nat → Nat := fun _ n => n
def rAlt : Nat → Nat → Nat := fun i n => if i % 2 = 0 then 1 else n
theorem rOne_pos : ∀ i n, 0 < n → 0 < rOne i n := fun _ _ _ => Nat.one_pos
theorem rAll_pos : ∀ i n, 0 < n → 0 < rAll i n := fun _ _ h => h
theorem rAlt_pos : ∀ i n, 0 < n → 0 < rAlt i n := by
  intro i n h; simp only [rAlt]; split <;> omega

def exSrc : Bytes := [10, 11, 12, 13, 14, 15, 16]

example : readUpTo 6 (⟨exSrc, 1, 0⟩ : Throttled rOne) 5 = .ok (⟨exSrc, 6, 5⟩, [11, 12, 13, 14, 15]) := by
  rfl
example : readUpTo 6 (⟨exSrc, 1, 0⟩ : Throttled rAll) 5 = .ok (⟨exSrc, 6, 1⟩, [11, 12, 13, 14, 15]) := by
  rfl
example : readUpTo 6 (⟨exSrc, 1, 0⟩ : Throttled rAlt) 5 = .ok (⟨exSrc, 6, 2⟩, [11, 12, 13, 14, 15]) := by
  rfl

/-- the C10 example archive read through a one-byte-per-read source: `history`, `same_as_alone`
    and hence `source_reader` apply (here against the in-memory cursor of `C10.exA0`) -/
def exT0 : ArS (Throttled rOne) := ⟨⟨C10.exData, 3, 0⟩, C10.exIx, none⟩

set_option maxRecDepth 8192 in
theorem exT0_inv : TInv rOne C10.exData exT0.src := ⟨rfl, by decide⟩

set_option maxRecDepth 8192 in
example : (ArS.run Params.prod (fun _ => true) exT0
      [.getFile [97], .read 100, .read 100, .read 100, .read 100, .getHash [99]]).2 =
    [.opened 3, .data [1], .data [2], .data [7], .data [], .hash (C01.exH [5, 6])] := by
  decide

example : ∃ bs₁ bs₂ : List Bytes,
    (ArS.run Params.prod (fun _ => true) exT0
      (C10.exHist ++ .getFile [97] :: [5, 5, 5].map .read)).2 =
      (ArS.run Params.prod (fun _ => true) exT0 C10.exHist).2 ++ .opened 3 :: bs₁.map .data ∧
    (ArS.run Params.prod (fun _ => true) C10.exA0 ([] ++ .getFile [97] :: [1, 1, 1].map .read)).2 =
      (ArS.run Params.prod (fun _ => true) C10.exA0 []).2 ++ .opened 3 :: bs₂.map .data ∧
    bs₁.flatten = bs₂.flatten ∧ bs₁.flatten = [1, 2, 7] :=
  (source_reader Params.prod C01.exH (fun _ => true) C01.exOps C01.exH_len C01.exOps_wf
    C01.exOps_accepted C01.exOps_last C01.exOps_len C01.exOps_pos
    _ _ (throttled_cursor rOne rOne_pos C10.exData) exT0 exT0_inv rfl rfl
    _ _ (Cur.isCursor C10.exData) C10.exA0 C10.exA0_inv rfl rfl
    C10.exHist [] [97] [1, 2, 7] (by decide) [5, 5, 5] [1, 1, 1] (by decide) (by decide)
    (by decide) (by decide)).1

/-- the fail-safe reader of the C11 example (chunk = 4) over the alternating source: same bytes as
    from memory -/
example : ∃ f b, EncFSrc.new C11.exP C11.exC .unauthenticated
      (⟨sealS C11.exP C11.exC C11.exPlain, 0, 0⟩ : Throttled rAlt) = (f, .ok b) ∧
    EncFSrc.deliver C11.exP C11.exC 3 20 f =
      EncF.deliver C11.exP C11.exC 3 20
        (EncF.new C11.exP C11.exC .unauthenticated (sealS C11.exP C11.exC C11.exPlain)) :=
  source_failsafe rAlt rAlt_pos C11.exP C11.exC .unauthenticated _ 3 20

set_option maxRecDepth 8192 in
example : EncFSrc.deliver C11.exP C11.exC 3 20
    (EncFSrc.new C11.exP C11.exC .authenticated
      (⟨sealS C11.exP C11.exC C11.exPlain, 0, 0⟩ : Throttled rAlt)).1 = C11.exPlain := by
  decide

/-! ### `helpers::StreamWriter`: a file fed through the `Write` adapter, in any pieces -/

theorem SpecState.append_nil (s : SpecState) (id : Nat) : s.append id [] = s := by
  obtain ⟨n, fs⟩ := s
  simp only [SpecState.append, List.append_nil, SpecState.mk.injEq, true_and]
  induction fs with
  | nil => rfl
  | cons f fs ih => simp only [List.map_cons, ih]; split <;> rfl

theorem SpecState.append_append (s : SpecState) (id : Nat) (a b : Bytes) :
    (s.append id a).append id b = s.append id (a ++ b) := by
  obtain ⟨n, fs⟩ := s
  simp only [SpecState.append, List.map_map, SpecState.mk.injEq, true_and]
  apply List.map_congr_left
  intro f _
  simp only [Function.comp]
  by_cases h : f.id = id <;> simp [h]

theorem foldl_stream_writes (s : SpecState) (id : Nat) (pieces : List Bytes) :
    (pieces.map (StreamWriter.write id)).foldl SpecState.step s = s.append id pieces.flatten := by
  induction pieces generalizing s with
  | nil => simp [SpecState.append_nil]
  | cons p ps ih =>
    simp only [List.map_cons, List.foldl_cons, List.flatten_cons]
    rw [ih, ← SpecState.append_append]
    simp [SpecState.step, StreamWriter.write]

/-- **C13.stream_writer** — whatever pieces `io::copy` (or any caller) hands to the `Write` adapter
    of a file, the archive means the same as if the bytes had been appended in one call: the op
    list with the pieces and the op list with one append have the same specification, hence (C01,
    C10) every reader answer is the same. -/
theorem stream_writer (pre post : List Op) (id : Nat) (pieces : List Bytes) :
    specOf (pre ++ pieces.map (StreamWriter.write id) ++ post) =
      specOf (pre ++ [.append id pieces.flatten.length pieces.flatten] ++ post) := by
  simp only [specOf, List.foldl_append, foldl_stream_writes, List.foldl_cons, List.foldl_nil,
    SpecState.step, List.take_length]

/-- and the writer accepts the pieces whenever … is not needed for the meaning; acceptance of each
    piece is C09's subject.  Non-vacuity: three pieces into file 0 of the C01 example. -/
example : specOf ([.start [97]] ++ [[1], [], [2, 7]].map (StreamWriter.write 0) ++ [.end_ 0, .finalize]) =
    [([97], [1, 2, 7])] := by decide

end MlaModel.C13

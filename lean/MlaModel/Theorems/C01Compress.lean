/-
  C01 / C14 (compression layer, writer side).

  `CW` (MlaModel/Compress.lean) mirrors `CompressionLayerWriter` (mla/src/layers/compress.rs):
  `write` cuts the plaintext into blocks of `P.block` bytes, each handed to a fresh codec encoder; a
  full block is closed lazily by the next `write` or by `finalize`, which also emits the sizes table.

    * `C01.compress_wellformed`  : for every sequence of `write_all` pieces and flushes, the bytes
        emitted up to and including `finalize` are a well-formed compressed stream (`IsCompressed`)
        of the concatenation of the pieces.  Needs only law K4 (`dec_finish`) of the codec
        (`compress_wellformed'`).
    * `C14.compress_flush_decodable` : right after a flush (no `finalize`), the emitted bytes are the
        closed blocks followed by the bytes of the open block, from which the streaming decoder
        already delivers all the rest of the plaintext (law K3 `stream_flush`).

  Proofs: writer invariant `CW.Inv` in MlaModel/Proofs/CompressWriter.lean.
-/
import MlaModel.Proofs.CompressWriter
import MlaModel.CodecStored
namespace MlaModel.C01
open MlaModel

/-- `compress_wellformed` from law K4 (`dec_finish`) alone -/
theorem compress_wellformed' (P : Params) (K : Codec) (hK : K.DecFinish) (level : Nat)
    (acts : List LAct) :
    let r := compRun P K level acts
    ∃ cs, IsCompressed P K (LAct.written acts) cs (r.2 ++ r.1.finalize K) :=
  CW.finalize_wellformed P K hK level _ _ _ (compRun_inv P K hK level acts)

/-- L0+L1 for the compression writer: whatever the sequence of `write_all` pieces and flushes, the
    bytes emitted up to and including `finalize` form a well-formed compressed stream of the
    concatenation of the pieces: block `k` is a complete codec stream decoding to bytes
    `[k*block, (k+1)*block)` of the plaintext, and the table lists the blocks' compressed sizes and
    the uncompressed size of the last block.  Holds for every `block` size, every codec satisfying
    `dec_finish`, every compression level. -/
theorem compress_wellformed (P : Params) (K : Codec) (hK : K.Laws) (level : Nat) (acts : List LAct) :
    let r := compRun P K level acts
    ∃ cs, IsCompressed P K (LAct.written acts) cs (r.2 ++ r.1.finalize K) :=
  compress_wellformed' P K hK.decFinish level acts

/-- the degenerate run: nothing written (only flushes, which emit nothing in the `ready` state);
    `finalize` emits just the table of zero blocks, `⟨[], 0⟩` -/
theorem compress_wellformed_empty (P : Params) (K : Codec) (level : Nat) (n : Nat) :
    let r := compRun P K level (List.replicate n .flush)
    r.2 ++ r.1.finalize K = encSizes ⟨[], 0⟩ := by
  have h : ∀ n, compRun P K level (List.replicate n .flush) = (CW.init K level, []) := by
    intro n
    induction n with
    | zero => rfl
    | succ n ih =>
      rw [List.replicate_succ', compRun, List.foldl_append, ← compRun, ih]
      rfl
  simp [h n, CW.finalize, CW.init]

/-! ### non-vacuity: the stored-only brotli codec, `block = 8`, 11 bytes in two writes and a flush -/

def exP : Params := Params.scaled 4 3 8 2 4 (by decide)
def exActs : List LAct := [.write [1, 2, 3, 4, 5], .flush, .write [6, 7, 8, 9, 10, 11]]
/-- block 0: bytes 1..8 in two meta-blocks (5 bytes, flush, 3 bytes: the block is completed by the
    second `write_all`); block 1: bytes 9..11 -/
def exCs : List Bytes :=
  [[64, 0, 16, 1, 2, 3, 4, 5, 16, 0, 8, 6, 7, 8, 3], [32, 0, 16, 9, 10, 11, 3]]

example : LAct.written exActs = [1, 2, 3, 4, 5, 6, 7, 8, 9, 10, 11] := by decide

example : (compRun exP Codec.stored 5 exActs).2 ++ (compRun exP Codec.stored 5 exActs).1.finalize Codec.stored =
    [64, 0, 16, 1, 2, 3, 4, 5, 16, 0, 8, 6, 7, 8, 3, 32, 0, 16, 9, 10, 11, 3,
     2, 0, 0, 0, 0, 0, 0, 0, 15, 0, 0, 0, 7, 0, 0, 0, 3, 0, 0, 0, 20, 0, 0, 0] := by decide

/-- the conclusion of `compress_wellformed` on the concrete run, with the witness `exCs` -/
example : IsCompressed exP Codec.stored (LAct.written exActs) exCs
    ((compRun exP Codec.stored 5 exActs).2 ++ (compRun exP Codec.stored 5 exActs).1.finalize Codec.stored) :=
  ⟨by decide, by decide, by decide⟩

/-- the empty plaintext: zero blocks, table only -/
example : IsCompressed exP Codec.stored (LAct.written [.flush, .write []]) []
    ((compRun exP Codec.stored 5 [.flush, .write []]).2 ++
      (compRun exP Codec.stored 5 [.flush, .write []]).1.finalize Codec.stored) :=
  ⟨by decide, by decide, by decide⟩

end MlaModel.C01

namespace MlaModel.C14
open MlaModel

/-- after `acts ++ [.flush]` (not finalized) the emitted bytes are `done.flatten ++ cur` where the
    closed blocks decode to the full blocks of the plaintext and the open block's bytes `cur` already
    decode (streaming view, law `stream_flush`) to the rest of the plaintext.
    (When nothing has been written the writer is still `ready` and `cur = []`:
    `(K.decStream []).1 = []` follows from the laws, `Codec.Laws.decStream_nil`.) -/
theorem compress_flush_decodable (P : Params) (K : Codec) (hK : K.Laws) (level : Nat)
    (acts : List LAct) :
    let r := compRun P K level (acts ++ [.flush]); let p := LAct.written acts
    ∃ done cur, r.2 = List.flatten done ++ cur ∧
      (∀ k (h : k < done.length), K.dec done[k] = some (blockOf P p k)) ∧
      (K.decStream cur).1 = p.drop (done.length * P.block) ∧ done.length * P.block ≤ p.length ∧
      (p.length - done.length * P.block ≤ P.block) := by
  intro r p
  have hinv := compRun_inv P K hK.decFinish level acts
  have hr : r.2 = (compRun P K level acts).2 ++ ((compRun P K level acts).1.flush K).2 := by
    show (compRun P K level (acts ++ [.flush])).2 = _
    rw [compRun, List.foldl_append, ← compRun]; rfl
  rw [hr]
  exact CW.flush_decodable P K hK level _ _ _ hinv

/-- non-vacuity of the conclusion (stored codec, `block = 8`): after 5 + 6 bytes and a flush, block 0
    is closed and the 6 bytes emitted for the open block stream-decode to bytes 9..11 -/
example :
    let r := compRun C01.exP Codec.stored 5 (C01.exActs ++ [.flush])
    let done : List Bytes := [[64, 0, 16, 1, 2, 3, 4, 5, 16, 0, 8, 6, 7, 8, 3]]
    let cur : Bytes := [32, 0, 16, 9, 10, 11]
    r.2 = done.flatten ++ cur ∧
    Codec.stored.dec done[0] = some (blockOf C01.exP (LAct.written C01.exActs) 0) ∧
    (Codec.stored.decStream cur).1 = (LAct.written C01.exActs).drop (1 * C01.exP.block) := by
  decide

end MlaModel.C14

/-
  C11 (compression layer) — `Read + Seek` of the compression reader behave like `std::io::Cursor`
  over the plaintext (L6).

  Statements, for every `Params`, every codec `K` (only `K.dec` on the blocks matters), every
  short-read policy `rd` of the block decompressor, every plaintext `p` (the EMPTY one included) with
  compressed blocks `cs` and layer stream `e` (`IsCompressed P K p cs e`: blocks, then the sizes
  table, block `k` decoding to the `k`-th `block`-byte piece of `p`), and every inner stream that
  behaves like a cursor over `e`:
    * `CompRd.isCursor` : the reader (`CompR.seekFull` / `CompR.readFull`, MlaModel/Compress.lean)
                          with the invariant `CompRd.Inv` (MlaModel/Proofs/CompressReader.lean) and
                          position `upos` satisfies `IsCursor … p`: every seek into `[0, |p|]` (from
                          start, current, end) succeeds and lands on the target, every read returns
                          the bytes of `p` at the position, at least one when not at the end, and
                          no operation errs.
    * `CompR.init_ok`   : `new` + `initialize` find and parse the table (its fields fitting their
                          fixed widths: `CompFits`) and establish the invariant at position 0.
    * `CompR.empty_ok`  : for the EMPTY plaintext the writer emits a table without any block;
                          `initialize` accepts it, the position is `0 = |p|`, every read returns
                          nothing and the seeks to 0 (start / current / end) return 0.
    * `CompR.read_all`  : reading sequentially from a state at position 0 returns `p`.

  Hypotheses added to the statement first proposed, each needed:
    * `rd 0 = 0` — the policy `rd` was only constrained for `m > 0`; with `rd 0 = 5` a `read` into
      an empty buffer (`n = 0`) would hand out up to 5 bytes, contradicting `out.length ≤ n`.
    * `CompFits` (for `init_ok` only) — besides "compressed sizes < 2^32": `block < 2^32` (the
      uncompressed size of the last block is written on 4 bytes; `UNCOMPRESSED_DATA_SIZE` is a `u32`
      in Rust) and `8 + 4 * |cs| + 4 < 2^32` (the *length of the table* is written on 4 bytes; a
      table of 2^30 blocks would have its length truncated by `le32` and `initialize` would look for
      the table at the wrong place).  `|cs| < 2^64` and `|p| < 2^64` follow and are not needed.
-/
import MlaModel.Proofs.CompressReader
import MlaModel.CodecStored
namespace MlaModel.C11
open MlaModel

/-- **L6** for the compression layer: over ANY inner stream that behaves like a cursor over a
    well-formed compressed stream `e` of the plaintext `p`, the compression reader
    behaves like a cursor over `p`, for every short-read policy `rd` of the block decompressor. -/
theorem CompRd.isCursor {ι : Type} [Stream ι] (P : Params) (K : Codec) (rd : Nat → Nat)
    (hrd : ∀ m, 0 < m → 0 < rd m ∧ rd m ≤ m) (hrd0 : rd 0 = 0)
    {InvI : ι → Prop} {absI : ι → Nat} (p : Bytes) (cs : List Bytes) (e : Bytes)
    (hc : IsCompressed P K p cs e)
    (hI : IsCursor InvI absI e) :
    IsCursor (σ := CompRd P K rd ι) (CompRd.Inv P K p cs e InvI absI) (fun s => s.r.upos) p := by
  refine ⟨fun s h => h.le, ?_, ?_⟩
  · intro s w target h ht hw
    obtain ⟨r', hs, hi, ha⟩ := CompR.seekFull_ok P K rd p cs e hc hI s.r w target h ht
      (by cases w <;> simpa using hw)
    refine ⟨⟨r'⟩, ?_, hi, ha⟩
    simp [Stream.seek, hs]
  · intro s n h
    obtain ⟨out, hr, hi, hout, hlen, hpos, ha⟩ := CompR.readFull_ok P K rd hrd hrd0 p cs e hc hI s.r n h
    refine ⟨⟨(CompR.readFull P K rd 3 s.r n).1⟩, out, ?_, hi, hout, hlen, hpos, ha⟩
    simp only [Stream.read]
    generalize CompR.readFull P K rd 3 s.r n = res at *
    obtain ⟨r', x⟩ := res
    simp only at hr; subst hr
    rfl

/-- `new` + `initialize` on such a stream succeed and yield a state satisfying the invariant at
    position 0 -/
theorem CompR.init_ok {ι : Type} [Stream ι] (P : Params) (K : Codec) (rd : Nat → Nat)
    {InvI : ι → Prop} {absI : ι → Nat} (p : Bytes) (cs : List Bytes) (e : Bytes)
    (hc : IsCompressed P K p cs e)
    (hfit : CompFits P cs)
    (hI : IsCursor InvI absI e) (inner : ι) (hin : InvI inner) :
    ∃ r, CompR.init inner = .ok r ∧ CompRd.Inv (rd := rd) P K p cs e InvI absI ⟨r⟩ ∧ r.upos = 0 := by
  obtain ⟨i, hinit, hi⟩ := CompR.init_eq P K p cs e hc hfit hI inner hin
  exact ⟨_, hinit, ⟨rfl, hi, Nat.zero_le _, by simp, fun _ => Nat.zero_mod _⟩, rfl⟩

/-- reading sequentially (`take(|p|).read_to_end`) from position 0 returns the whole plaintext,
    whatever the short reads of the decompressor -/
theorem CompR.read_all {ι : Type} [Stream ι] (P : Params) (K : Codec) (rd : Nat → Nat)
    (hrd : ∀ m, 0 < m → 0 < rd m ∧ rd m ≤ m) (hrd0 : rd 0 = 0)
    {InvI : ι → Prop} {absI : ι → Nat} (p : Bytes) (cs : List Bytes) (e : Bytes)
    (hc : IsCompressed P K p cs e) (hI : IsCursor InvI absI e)
    (s : CompRd P K rd ι) (h : CompRd.Inv P K p cs e InvI absI s) (h0 : s.r.upos = 0) :
    ∃ s', readUpTo (p.length + 1) s p.length = .ok (s', p) ∧ CompRd.Inv P K p cs e InvI absI s' ∧
      s'.r.upos = p.length := by
  obtain ⟨s', hr, hi, ha⟩ := readUpTo_ok (CompRd.isCursor P K rd hrd hrd0 p cs e hc hI)
    (p.length + 1) s p.length h (Nat.lt_succ_self _)
  simp only [h0, List.drop_zero, List.take_length] at hr ha
  exact ⟨s', hr, hi, by omega⟩

/-- The EMPTY plaintext: the layer's stream is a table without blocks (`cs = []` is forced by
    `IsCompressed`); `initialize` accepts it, the reader is at position `0 = |p|` in a state
    satisfying the invariant, and from every state satisfying the invariant every `read` returns
    nothing and the seeks to 0 from the start, the current position and the end return 0. -/
theorem CompR.empty_ok {ι : Type} [Stream ι] (P : Params) (K : Codec) (rd : Nat → Nat)
    (hrd : ∀ m, 0 < m → 0 < rd m ∧ rd m ≤ m) (hrd0 : rd 0 = 0)
    {InvI : ι → Prop} {absI : ι → Nat} (cs : List Bytes) (e : Bytes)
    (hc : IsCompressed P K [] cs e) (hI : IsCursor InvI absI e) (inner : ι) (hin : InvI inner) :
    ∃ r, CompR.init inner = .ok r ∧ CompRd.Inv (rd := rd) P K [] cs e InvI absI ⟨r⟩ ∧ r.upos = 0 ∧
      ∀ s : CompRd P K rd ι, CompRd.Inv P K [] cs e InvI absI s →
        (∀ n, ∃ s', Stream.read s n = .ok (s', []) ∧ CompRd.Inv P K [] cs e InvI absI s') ∧
        (∀ w, w = .start 0 ∨ w = .current 0 ∨ w = .fromEnd 0 →
          ∃ s', Stream.seek s w = .ok (s', 0) ∧ CompRd.Inv P K [] cs e InvI absI s' ∧
            s'.r.upos = 0) := by
  have hcs : cs = [] := by
    have := hc.count
    simp only [List.length_nil, Nat.zero_add] at this
    rw [Nat.div_eq_of_lt (by have := P.hblock; omega)] at this
    exact List.eq_nil_of_length_eq_zero this
  subst hcs
  have hcur := CompRd.isCursor P K rd hrd hrd0 [] [] e hc hI
  -- `init`: the table ⟨[], 0⟩ always fits, whatever `block` is
  have ht : tblOf P [] [] = ⟨[], 0⟩ := by simp [tblOf]
  obtain ⟨i, hi, hinit⟩ := MlaModel.CompR.init_core (absI := absI) [] ⟨[], 0⟩
    (by have := hc.layout
        simp only [List.flatten_nil, List.map_nil, List.length_nil, Nat.zero_sub] at this
        subst this; exact hI)
    (parseSizes_body _ (by simp) (by decide) (by decide)) (by decide) inner hin
  refine ⟨_, hinit, ⟨congrArg some ht.symm, hi, Nat.zero_le _, by simp, fun _ => Nat.zero_mod _⟩,
    rfl, ?_⟩
  intro s hs
  have h0 : s.r.upos = 0 := by have := hs.le; simpa using this
  refine ⟨fun n => ?_, fun w hw => ?_⟩
  · obtain ⟨s', out, hr, hi', hout, _⟩ := hcur.read_ok s n hs
    have : out = [] := by rw [hout]; simp
    subst this
    exact ⟨s', hr, hi'⟩
  · obtain ⟨s', hsk, hi', ha⟩ := hcur.seek_ok s w 0 hs (Nat.le_refl _)
      (by rcases hw with rfl | rfl | rfl <;> simp [h0])
    exact ⟨s', hsk, hi', ha⟩

/-! ### Non-vacuity: a concrete instance (block = 8, two blocks, the last one of 3 bytes; the
    stored-only brotli codec; inner stream = in-memory cursor) -/

section Example
def cexP : Params := Params.scaled 4 3 8 2 4 (by decide)
def cexPlain : Bytes := [10, 11, 12, 13, 14, 15, 16, 17, 18, 19, 20]

/-- one block through the encoder: `write` then `into_inner` -/
def cexEnc (b : Bytes) : Bytes :=
  let r := Codec.stored.runActs (Codec.stored.einit 0) [.write b]
  r.2 ++ Codec.stored.efinish r.1

def cexCs : List Bytes := [cexEnc (blockOf cexP cexPlain 0), cexEnc (blockOf cexP cexPlain 1)]
def cexE : Bytes := cexCs.flatten ++ encSizes ⟨cexCs.map List.length, 3⟩

example : cexCs = [[112, 0, 16, 10, 11, 12, 13, 14, 15, 16, 17, 3], [32, 0, 16, 18, 19, 20, 3]] := by
  decide

theorem cexComp : IsCompressed cexP Codec.stored cexPlain cexCs cexE where
  layout := rfl
  count := by decide
  blocks := by
    intro k hk
    have : k = 0 ∨ k = 1 := by simp only [cexCs, List.length_cons, List.length_nil] at hk; omega
    rcases this with rfl | rfl <;> decide +revert

theorem cexFits : CompFits cexP cexCs where
  csz := by decide
  tbl := by decide
  block := by decide

abbrev cexInvI : Cur → Prop := fun c => c.data = cexE ∧ c.pos ≤ cexE.length

/-- the hypotheses of `CompRd.isCursor` are satisfiable -/
example : IsCursor (σ := CompRd cexP Codec.stored id Cur)
    (CompRd.Inv cexP Codec.stored cexPlain cexCs cexE cexInvI (·.pos)) (fun s => s.r.upos) cexPlain :=
  CompRd.isCursor cexP Codec.stored id (fun m hm => ⟨hm, Nat.le_refl m⟩) rfl cexPlain cexCs cexE
    cexComp (Cur.isCursor _)

/-- and the initial state exists -/
example : ∃ r, CompR.init (⟨cexE, 0⟩ : Cur) = .ok r ∧
    CompRd.Inv (rd := id) cexP Codec.stored cexPlain cexCs cexE cexInvI (·.pos) ⟨r⟩ ∧ r.upos = 0 :=
  CompR.init_ok cexP Codec.stored id cexPlain cexCs cexE cexComp cexFits (Cur.isCursor _) _
    ⟨rfl, Nat.zero_le _⟩

/-- the empty plaintext: hypotheses of `CompR.empty_ok` are satisfiable -/
theorem cexCompEmpty : IsCompressed cexP Codec.stored [] [] (encSizes ⟨[], 0⟩) :=
  ⟨rfl, by decide, fun k h => by simp at h⟩

example : ∃ r, CompR.init (⟨encSizes ⟨[], 0⟩, 0⟩ : Cur) = .ok r ∧ r.upos = 0 := by
  obtain ⟨r, h, _, h0, _⟩ := CompR.empty_ok cexP Codec.stored id (fun m hm => ⟨hm, Nat.le_refl m⟩) rfl
    [] (encSizes ⟨[], 0⟩) cexCompEmpty (Cur.isCursor _) (⟨encSizes ⟨[], 0⟩, 0⟩ : Cur)
    ⟨rfl, Nat.zero_le _⟩
  exact ⟨r, h, h0⟩

/-- why `rd 0 = 0` is needed: with a policy that is only constrained on `m > 0`, a `read` of at most
    0 bytes right after `initialize` hands out 5 bytes -/
example : (match CompR.init (⟨cexE, 0⟩ : Cur) with
    | .ok r => match (CompR.readFull cexP Codec.stored (fun m => if m = 0 then 5 else m) 3 r 0).2 with
      | .ok b => b
      | .error _ => []
    | .error _ => []) = [10, 11, 12, 13, 14] := by decide

/-- the model reader run on the example: reads of at most 5 bytes from position 0, then a seek to
    position 9 and a read -/
example : (match CompR.init (⟨cexE, 0⟩ : Cur) with
    | .ok r =>
      match CompR.readFull cexP Codec.stored id 3 r 5 with
      | (r1, .ok b1) => match CompR.readFull cexP Codec.stored id 3 r1 5 with
        | (r2, .ok b2) => match CompR.readFull cexP Codec.stored id 3 r2 5 with
          | (r3, .ok b3) => match CompR.seekFull cexP Codec.stored r3 (.fromEnd (-2)) with
            | (r4, .ok _) => match CompR.readFull cexP Codec.stored id 3 r4 5 with
              | (_, .ok b4) => [b1, b2, b3, b4]
              | _ => []
            | _ => []
          | _ => []
        | _ => []
      | _ => []
    | .error _ => []) = [[10, 11, 12, 13, 14], [15, 16, 17], [18, 19, 20], [19, 20]] := by decide
end Example

end MlaModel.C11

/-
  Layer laws of the fail-safe decryptor (`EncryptionLayerFailSafeReader`, the reader archive repair
  is built on) — DESIGN L2–L5′ and C04.unauth_ge.

  For every `P : Params` and every `C : EncPrims`; the laws that mention `sealS` need the tag
  function to produce `tagLen` bytes (`hTag`), nothing else: no cryptographic assumption is used
  except in `auth_mono`, which needs (and is shown by example to need) `NoForge`.

  * `fsUnauth P C (e.length+1) 0 e` / `fsAuth P C e` are the functional specifications of
    `MlaModel/Encrypt.lean`; `EncF.new`, `EncF.read`, `EncF.deliver` the modelled reader.
  * `EncF.deliverL`, `EncF.Inv`, `EncF.pending`, `EncF.Done`, `sealedChunk` are defined in
    `MlaModel/Proofs/EncryptFailSafe.lean`.
-/
import MlaModel.Proofs.EncryptFailSafe
namespace MlaModel.EncFS
open MlaModel

/-! ### Concrete values for the non-vacuity examples -/

/-- chunk 4, tag 16, cipher buffer 3 -/
def Pt : Params := Params.scaled 4 3 8 2 4 (by decide)

def Ct : EncPrims :=
  ⟨fun i off => (i * 7 + off).toUInt8, fun i c => List.replicate 16 (i.toUInt8 + c.length.toUInt8)⟩

theorem hTagT : ∀ i c, (Ct.tag i c).length = Pt.tagLen := fun _ _ => by
  simp [Ct, Pt, Params.scaled]

/-- chunk 4, tag **2**: small enough to exhibit an accidental tag match on truncation -/
def Pw : Params :=
  { chunk := 4, tagLen := 2, cbuf := 3, block := 8, fsbuf := 2, rcache := 4, nameMax := 16,
    hchunk := by decide, htag := by decide, hcbuf := by decide, hblock := by decide,
    hfsbuf := by decide, hrcache := by decide }

/-- no keystream (ciphertext = plaintext); a weak tag: `[7,7]` for a 1-byte message, `[0,0]` otherwise -/
def Cw : EncPrims := ⟨fun _ _ => 0, fun _ c => if c.length = 1 then [7, 7] else [0, 0]⟩

theorem hTagW : ∀ i c, (Cw.tag i c).length = Pw.tagLen := fun _ c => by
  simp only [Cw, Pw]; split <;> rfl

instance : DecidableEq (Except Err Bytes) := fun a b =>
  match a, b with
  | .ok x, .ok y =>
    if h : x = y then isTrue (by rw [h]) else isFalse (by intro h'; injection h' with h'; exact h h')
  | .error x, .error y =>
    if h : x = y then isTrue (by rw [h]) else isFalse (by intro h'; injection h' with h'; exact h h')
  | .ok _, .error _ => isFalse (by intro h; cases h)
  | .error _, .ok _ => isFalse (by intro h; cases h)

section
variable (P : Params) (C : EncPrims)

/-! ## 1. Schedule independence and sticky end (L5′) -/

/-- A read of a reachable state never fails, returns a prefix of what is still pending — a
    non-empty one unless nothing is pending — and leads to a reachable state. -/
theorem read_ok (f : EncF) (n : Nat) (hI : EncF.Inv P f) (hn : 0 < n) :
    ∃ f' out, EncF.read P C f n = (f', .ok out) ∧ EncF.Inv P f' ∧ f'.mode = f.mode ∧
      EncF.pending P C f = out ++ EncF.pending P C f' ∧ (out = [] → EncF.pending P C f = []) :=
  EncF.read_spec P C f n hI hn

theorem new_reachable (mode : FsMode) (e : Bytes) : EncF.Inv P (EncF.new P C mode e) :=
  EncF.new_inv P C mode e

/-- **L5′, any schedule, unauthenticated.**  Whatever the list of (positive) buffer sizes, the
    concatenation of the slices returned up to the first empty read is a prefix of the specified
    byte string, and is all of it as soon as the list has at least that many entries. -/
theorem deliverL_unauth (ns : List Nat) (hpos : ∀ n ∈ ns, 0 < n) (e : Bytes) :
    EncF.deliverL P C ns (EncF.new P C .unauthenticated e) <+: fsUnauth P C (e.length + 1) 0 e ∧
    ((fsUnauth P C (e.length + 1) 0 e).length ≤ ns.length →
      EncF.deliverL P C ns (EncF.new P C .unauthenticated e) = fsUnauth P C (e.length + 1) 0 e) := by
  have h := EncF.deliverL_spec P C ns _ (EncF.new_inv P C .unauthenticated e) hpos
  rw [EncF.pending_new_unauth] at h
  exact h

/-- **L5′, any schedule, authenticated.** -/
theorem deliverL_auth (ns : List Nat) (hpos : ∀ n ∈ ns, 0 < n) (e : Bytes) :
    EncF.deliverL P C ns (EncF.new P C .authenticated e) <+: fsAuth P C e ∧
    ((fsAuth P C e).length ≤ ns.length →
      EncF.deliverL P C ns (EncF.new P C .authenticated e) = fsAuth P C e) := by
  have h := EncF.deliverL_spec P C ns _ (EncF.new_inv P C .authenticated e) hpos
  rw [EncF.pending_new_auth] at h
  exact h

theorem fsUnauth_length_le (e : Bytes) : (fsUnauth P C (e.length + 1) 0 e).length ≤ e.length :=
  fsU_length_le P C _ 0 e (Nat.lt_succ_self _)

/-- **C04.unauth_ge** — for ALL byte strings, no assumption on the primitives: the authenticated
    result is a prefix of the unauthenticated one. -/
theorem auth_prefix_unauth (e : Bytes) : fsAuth P C e <+: fsUnauth P C (e.length + 1) 0 e :=
  fsAuth_prefix_fsU P C e

theorem fsAuth_length_le (e : Bytes) : (fsAuth P C e).length ≤ e.length :=
  Nat.le_trans (auth_prefix_unauth P C e).length_le (fsUnauth_length_le P C e)

/-- **L5′, fixed buffer size, unauthenticated**: `fuel ≥ e.length` reads suffice (so `e.length + 2`
    does). -/
theorem deliver_unauth (n : Nat) (hn : 0 < n) (e : Bytes) (fuel : Nat) (hf : e.length ≤ fuel) :
    EncF.deliver P C n fuel (EncF.new P C .unauthenticated e) = fsUnauth P C (e.length + 1) 0 e := by
  rw [EncF.deliver_eq_deliverL]
  refine (deliverL_unauth P C (List.replicate fuel n) ?_ e).2 ?_
  · intro m hm; rw [(List.mem_replicate.mp hm).2]; exact hn
  · have := fsUnauth_length_le P C e; simp only [List.length_replicate]; omega

/-- **L5′, fixed buffer size, authenticated.** -/
theorem deliver_auth (n : Nat) (hn : 0 < n) (e : Bytes) (fuel : Nat) (hf : e.length ≤ fuel) :
    EncF.deliver P C n fuel (EncF.new P C .authenticated e) = fsAuth P C e := by
  rw [EncF.deliver_eq_deliverL]
  refine (deliverL_auth P C (List.replicate fuel n) ?_ e).2 ?_
  · intro m hm; rw [(List.mem_replicate.mp hm).2]; exact hn
  · have := fsAuth_length_le P C e; simp only [List.length_replicate]; omega

/-- the result does not depend on the buffer size -/
theorem deliver_schedule_independent (mode : FsMode) (n₁ n₂ : Nat) (h₁ : 0 < n₁) (h₂ : 0 < n₂)
    (e : Bytes) :
    EncF.deliver P C n₁ (e.length + 2) (EncF.new P C mode e) =
    EncF.deliver P C n₂ (e.length + 2) (EncF.new P C mode e) := by
  cases mode with
  | authenticated =>
    rw [deliver_auth P C n₁ h₁ e _ (by omega), deliver_auth P C n₂ h₂ e _ (by omega)]
  | unauthenticated =>
    rw [deliver_unauth P C n₁ h₁ e _ (by omega), deliver_unauth P C n₂ h₂ e _ (by omega)]

/-- **Sticky end**: once a read with a non-empty buffer has returned nothing, every later read
    (any buffer size) returns nothing and leaves the state unchanged.  Holds from ANY state `f`
    (reachable or not), in both modes: in authenticated mode via `failed`, at the end of the input
    because the cache is empty at position 0 or exhausted below `chunk`. -/
theorem read_empty_sticky (f f' : EncF) (n : Nat) (hn : 0 < n)
    (h : EncF.read P C f n = (f', .ok [])) (m : Nat) : EncF.read P C f' m = (f', .ok []) :=
  EncF.read_done P C f' m (EncF.done_of_empty_read P C f f' n hn h)

example : EncF.deliver Pt Ct 3 40 (EncF.new Pt Ct .unauthenticated (sealS Pt Ct [1, 2, 3, 4, 5, 6])) =
    fsUnauth Pt Ct 39 0 (sealS Pt Ct [1, 2, 3, 4, 5, 6]) :=
  deliver_unauth Pt Ct 3 (by decide) _ 40 (by decide)

example : EncF.deliver Pt Ct 5 40 (EncF.new Pt Ct .authenticated (sealS Pt Ct [1, 2, 3, 4, 5, 6])) =
    [1, 2, 3, 4, 5, 6] := by decide

example : (EncF.deliverL Pt Ct [1, 7, 2, 2, 9, 1] (EncF.new Pt Ct .authenticated (sealS Pt Ct [1, 2, 3, 4, 5, 6]))) =
    [1, 2, 3, 4, 5, 6] := by decide

/-- sticky end on a concrete state: a failed tag check in authenticated mode (a corrupted chunk 1) -/
example (m : Nat) :
    let f := (EncF.read Pt Ct (EncF.new Pt Ct .authenticated
        ((sealS Pt Ct [1, 2, 3, 4, 5, 6]).take 20 ++ [0, 0, 9, 9, 9, 9, 9, 9, 9, 9, 9, 9, 9, 9, 9, 9, 9, 9])) 4).1
    (EncF.read Pt Ct f 4).2 = .ok [] ∧
    EncF.read Pt Ct (EncF.read Pt Ct f 4).1 m = ((EncF.read Pt Ct f 4).1, .ok []) := by
  intro f
  have h : EncF.read Pt Ct f 4 = ((EncF.read Pt Ct f 4).1, .ok []) := by decide
  exact ⟨by decide, read_empty_sticky Pt Ct f _ 4 (by decide) h m⟩

/-- C04.unauth_ge on arbitrary bytes, and a case where the prefix is strict (short last chunk:
    unauthenticated mode also decrypts the first `chunk - 2` bytes of the tag) -/
example : fsAuth Pt Ct [9, 8, 7, 6, 5, 4, 3, 2, 1] <+: fsUnauth Pt Ct 10 0 [9, 8, 7, 6, 5, 4, 3, 2, 1] :=
  auth_prefix_unauth Pt Ct _

example : fsAuth Pt Ct (sealS Pt Ct [1, 2, 3, 4, 5, 6]) = [1, 2, 3, 4, 5, 6] ∧
    fsUnauth Pt Ct 39 0 (sealS Pt Ct [1, 2, 3, 4, 5, 6]) = [1, 2, 3, 4, 5, 6, 10, 9] := by decide

/-! ## 3. Completeness (L3) -/

variable (hTag : ∀ i c, (C.tag i c).length = P.tagLen)
include hTag

/-- **L3, unauthenticated**: the plaintext comes out complete (followed, when the last chunk is
    short, by decrypted tag bytes — junk only after the whole of `p`). -/
theorem unauth_complete (p : Bytes) :
    p <+: fsUnauth P C ((sealS P C p).length + 1) 0 (sealS P C p) := by
  have := fsU_sealI_aux P C hTag _ 0 p (Nat.lt_succ_self _)
  rwa [← sealS_eq_sealI] at this

/-- **L3, authenticated**. -/
theorem auth_complete (p : Bytes) : p <+: fsAuth P C (sealS P C p) := by
  rw [fsAuth_seal_exact P C hTag p]; exact List.prefix_append _ _

/-- exactly: junk follows only a plaintext shorter than one chunk (chunk 0 is not verified), and
    it is the decrypted beginning of tag 0 -/
theorem auth_exact (p : Bytes) :
    fsAuth P C (sealS P C p) =
      p ++ xorAt (C.ks 0) p.length ((C.tag 0 (xorAt (C.ks 0) 0 p)).take (P.chunk - p.length)) :=
  fsAuth_seal_exact P C hTag p

theorem auth_exact_of_chunk_le (p : Bytes) (h : P.chunk ≤ p.length) :
    fsAuth P C (sealS P C p) = p := by
  have hz : P.chunk - p.length = 0 := by omega
  rw [fsAuth_seal_exact P C hTag p, hz]; simp [xorAt]

omit hTag in
example : [1, 2, 3, 4, 5, 6] <+:
    fsUnauth Pt Ct ((sealS Pt Ct [1, 2, 3, 4, 5, 6]).length + 1) 0 (sealS Pt Ct [1, 2, 3, 4, 5, 6]) :=
  unauth_complete Pt Ct hTagT _

omit hTag in
/-- the junk is really there: a 2-byte plaintext read back in authenticated mode -/
example : fsAuth Pt Ct (sealS Pt Ct [1, 2]) = [1, 2, 0, 1] := by decide

/-! ## 5. Monotonicity (L4) -/

omit hTag in
/-- **L4, unauthenticated, for ALL byte strings**: decrypting a prefix gives a prefix. -/
theorem unauth_mono (r₁ r₂ : Bytes) (h : r₁ <+: r₂) :
    fsUnauth P C (r₁.length + 1) 0 r₁ <+: fsUnauth P C (r₂.length + 1) 0 r₂ :=
  fsU_mono P C 0 h

omit hTag in
/-- … and a stream cut anywhere inside (or at the end of) the tag that follows `j` tagged chunks
    and a full ciphertext chunk `c` gives exactly what the stream cut at the start of that tag gives -/
theorem unauth_cut_in_tag (j : Nat) (x c t : Bytes) (hx : x.length = j * (P.chunk + P.tagLen))
    (hcl : c.length = P.chunk) (htl : t.length ≤ P.tagLen) :
    fsUnauth P C ((x ++ c ++ t).length + 1) 0 (x ++ c ++ t) =
      fsUnauth P C ((x ++ c).length + 1) 0 (x ++ c) :=
  fsU_cut_in_tag P C j 0 x c t hx hcl htl

/-- No accidental forgery on truncation — the weakest form the proof needs: for every chunk `k ≥ 1`
    of `p` (chunk 0 is never verified by the fail-safe reader), no proper prefix, at least `tagLen`
    long, of the genuine sealed chunk (ciphertext ‖ tag) passes the tag check of chunk `k`.
    A statement about the finitely many truncations of ONE sealed stream — not about all
    ciphertexts (quantified over all ciphertexts it would be unsatisfiable: `ct ‖ tag ct ‖ x`
    has the verifying proper prefix `ct ‖ tag ct`). -/
def NoForge (P : Params) (C : EncPrims) (p : Bytes) : Prop :=
  ∀ k, k ≤ (p.length - 1) / P.chunk → 1 ≤ k → ∀ m,
    m < (sealedChunk C k ((p.drop (k * P.chunk)).take P.chunk)).length → P.tagLen ≤ m →
    openChunk P C k ((sealedChunk C k ((p.drop (k * P.chunk)).take P.chunk)).take m) =
      .error .wrongTag

omit hTag in
theorem NoForge.toI {p : Bytes} (h : NoForge P C p) (hl : P.chunk < p.length) :
    NoForgeI P C 1 (p.drop P.chunk) := by
  have hc := P.hchunk
  have hdiv : (p.length - 1) / P.chunk = ((p.drop P.chunk).length - 1) / P.chunk + 1 := by
    rw [← Nat.add_div_right _ hc]; congr 1; simp only [List.length_drop]; omega
  intro k hk m hm
  have hmul : (k + 1) * P.chunk = P.chunk + k * P.chunk := by rw [Nat.add_mul]; omega
  by_cases hmt : P.tagLen ≤ m
  · have := h (k+1) (by omega) (by omega) m
    rw [hmul, ← List.drop_drop, Nat.add_comm k 1] at this
    exact this hm hmt
  · exact openChunk_short P C _ _ (by simp only [List.length_take]; omega)

/-- **L4, authenticated**, for the prefixes of a sealed stream whose chunks have no accidental
    forgery by truncation. -/
theorem auth_mono (p r₁ r₂ : Bytes) (hN : NoForge P C p) (h12 : r₁ <+: r₂)
    (h2 : r₂ <+: sealS P C p) : fsAuth P C r₁ <+: fsAuth P C r₂ :=
  fsAuth_mono_of_noForge P C hTag p r₁ r₂ (NoForge.toI P C hN) h12 h2

/-! ## 4. Prefix safety (L2): truncation never yields a wrong byte before the end of `p` -/

/-- **L2, unauthenticated**. -/
theorem unauth_prefix_safe (p r : Bytes) (h : r <+: sealS P C p) :
    fsUnauth P C (r.length + 1) 0 r <+: p ∨ p <+: fsUnauth P C (r.length + 1) 0 r :=
  List.prefix_or_prefix_of_prefix (unauth_mono P C r _ h) (unauth_complete P C hTag p)

/-- **L2, authenticated — unconditional**: if the truncated bytes of the last chunk happen to pass
    the tag check, what is delivered is still the decryption of genuine ciphertext. -/
theorem auth_prefix_safe (p r : Bytes) (h : r <+: sealS P C p) :
    fsAuth P C r <+: p ∨ p <+: fsAuth P C r :=
  List.prefix_or_prefix_of_prefix
    ((auth_prefix_unauth P C r).trans (unauth_mono P C r _ h)) (unauth_complete P C hTag p)

/-- … and when `p` fills at least chunk 0, authenticated mode never delivers a byte beyond `p`
    (unconditionally: the reader drops the last `tagLen` bytes of what it has, and a truncated
    stream has at most `tagLen` bytes after the last ciphertext byte). -/
theorem auth_trunc_within (p r : Bytes) (hp : P.chunk ≤ p.length) (h : r <+: sealS P C p) :
    fsAuth P C r <+: p :=
  fsAuth_trunc P C hTag p r hp h

end

/-! ### non-vacuity of 4 and 5 -/

example : fsUnauth Pt Ct 8 0 [9, 8, 7, 6, 5, 4, 3] <+: fsUnauth Pt Ct 12 0 [9, 8, 7, 6, 5, 4, 3, 2, 1, 0, 7] :=
  unauth_mono Pt Ct _ _ ⟨[2, 1, 0, 7], rfl⟩

/-- cut after 11 of the 16 tag bytes of chunk 0 = cut before that tag -/
example : fsUnauth Pt Ct 16 0 ([] ++ [1, 3, 1, 7] ++ [4, 4, 4, 4, 4, 4, 4, 4, 4, 4, 4]) =
    fsUnauth Pt Ct 5 0 ([] ++ [1, 3, 1, 7]) :=
  unauth_cut_in_tag Pt Ct 0 [] _ _ rfl rfl (by decide)

example : fsUnauth Pt Ct 24 0 ((sealS Pt Ct [1, 2, 3, 4, 5, 6]).take 23) <+: [1, 2, 3, 4, 5, 6] ∨
    [1, 2, 3, 4, 5, 6] <+: fsUnauth Pt Ct 24 0 ((sealS Pt Ct [1, 2, 3, 4, 5, 6]).take 23) :=
  unauth_prefix_safe Pt Ct hTagT _ _ (List.take_prefix _ _)

example : fsAuth Pt Ct ((sealS Pt Ct [1, 2]).take 7) <+: [1, 2] ∨
    [1, 2] <+: fsAuth Pt Ct ((sealS Pt Ct [1, 2]).take 7) :=
  auth_prefix_safe Pt Ct hTagT _ _ (List.take_prefix _ _)

example : fsAuth Pt Ct ((sealS Pt Ct [1, 2, 3, 4, 5, 6]).take 23) <+: [1, 2, 3, 4, 5, 6] :=
  auth_trunc_within Pt Ct hTagT _ _ (by decide) (List.take_prefix _ _)

example : fsUnauth Pt Ct 24 0 ((sealS Pt Ct [1, 2, 3, 4, 5, 6]).take 23) = [1, 2, 3, 4, 5, 6, 10] := by
  decide

example : fsAuth Pt Ct ((sealS Pt Ct [1, 2, 3, 4, 5, 6]).take 23) = [1, 2, 3, 4] := by decide

instance (P : Params) (C : EncPrims) (p : Bytes) : Decidable (NoForge P C p) := by
  unfold NoForge; infer_instance

/-- `NoForge` is satisfiable … -/
example : NoForge Pt Ct [1, 2, 3, 4, 5, 6] := by decide

example : fsAuth Pt Ct ((sealS Pt Ct [1, 2, 3, 4, 5, 6]).take 21) <+:
    fsAuth Pt Ct ((sealS Pt Ct [1, 2, 3, 4, 5, 6]).take 30) :=
  auth_mono Pt Ct hTagT [1, 2, 3, 4, 5, 6] _ _ (by decide)
    (List.take_prefix_take_left (by decide)) (List.take_prefix _ _)

/-- … and needed: with the weak tag `Cw`, the stream cut after 9 bytes passes the tag check of
    chunk 1 by accident and delivers byte 5 of the plaintext; cut after 10 bytes it does not. -/
example : ¬ NoForge Pw Cw [1, 2, 3, 4, 5, 7, 7, 9] := by decide

example :
    fsAuth Pw Cw ((sealS Pw Cw [1, 2, 3, 4, 5, 7, 7, 9]).take 9) = [1, 2, 3, 4, 5] ∧
    fsAuth Pw Cw ((sealS Pw Cw [1, 2, 3, 4, 5, 7, 7, 9]).take 10) = [1, 2, 3, 4] := by decide

/-! ## 6. Online / flush (L5) -/

section
variable (P : Params) (C : EncPrims)

/-- what an unfinished writer has emitted is a prefix of the sealed stream of EVERY extension of
    the plaintext written so far (no condition on `more`: when the open chunk is exactly full its
    tag has not been emitted yet, and with `more = []` it is the next thing `finalize` emits) -/
theorem online_prefix (pieces : List Bytes) (more : Bytes) :
    (encWritePieces P C pieces).2 <+: sealS P C (pieces.flatten ++ more) :=
  encWritePieces_prefix_seal P C pieces more

/-- the chunk counter of the writer, as a function of the plaintext -/
theorem online_ctr (pieces : List Bytes) :
    (encWritePieces P C pieces).1.ctr = (pieces.flatten.length - 1) / P.chunk := by
  have hinv := encWritePieces_inv P C pieces
  generalize encWritePieces P C pieces = r at *
  obtain ⟨hlen, hle, hcur, hout, hnz⟩ := hinv
  have hc := P.hchunk
  by_cases hz : r.1.cur = []
  · have h0 := hnz hz
    have : r.1.cur.length = 0 := by simp [hz]
    rw [hlen, h0, this]; simp
  · have hpos : 0 < r.1.cur.length := List.length_pos_iff.mpr hz
    rw [hlen]
    have : r.1.ctr * P.chunk + r.1.cur.length - 1 = P.chunk * r.1.ctr + (r.1.cur.length - 1) := by
      rw [Nat.mul_comm]; omega
    rw [this, Nat.mul_add_div hc, Nat.div_eq_of_lt (by omega)]; simp

variable (hTag : ∀ i c, (C.tag i c).length = P.tagLen)
include hTag

/-- **L5, unauthenticated**: everything written so far is recovered from what has been emitted. -/
theorem online_unauth (pieces : List Bytes) :
    fsUnauth P C ((encWritePieces P C pieces).2.length + 1) 0 (encWritePieces P C pieces).2 =
      pieces.flatten := by
  have hinv := encWritePieces_inv P C pieces
  generalize encWritePieces P C pieces = r at *
  obtain ⟨hlen, hle, hcur, hout, hnz⟩ := hinv
  have h := fsU_encFull_aux P C hTag r.1.ctr 0 pieces.flatten (by omega) (by omega)
  rw [Nat.zero_add, ← hcur, ← hout] at h
  exact h

/-- **L5, authenticated**: every chunk whose tag has been emitted is recovered. -/
theorem online_auth (pieces : List Bytes) :
    pieces.flatten.take ((encWritePieces P C pieces).1.ctr * P.chunk) <+:
      fsAuth P C (encWritePieces P C pieces).2 := by
  have hinv := encWritePieces_inv P C pieces
  generalize encWritePieces P C pieces = r at *
  obtain ⟨hlen, hle, hcur, hout, hnz⟩ := hinv
  rw [hout]
  exact fsAuth_encFull P C hTag r.1.ctr pieces.flatten r.1.cur (by omega)

end

example : (encWritePieces Pt Ct [[1, 2, 3], [4, 5, 6, 7, 8], [9]]).2 <+:
    sealS Pt Ct ([[1, 2, 3], [4, 5, 6, 7, 8], [9]].flatten ++ [10, 11]) :=
  online_prefix Pt Ct _ _

example : fsUnauth Pt Ct ((encWritePieces Pt Ct [[1, 2, 3], [4, 5, 6, 7, 8], [9]]).2.length + 1) 0
    (encWritePieces Pt Ct [[1, 2, 3], [4, 5, 6, 7, 8], [9]]).2 =
    [1, 2, 3, 4, 5, 6, 7, 8, 9] :=
  online_unauth Pt Ct hTagT _

example : (encWritePieces Pt Ct [[1, 2, 3], [4, 5, 6, 7, 8], [9]]).1.ctr = 2 ∧
    fsAuth Pt Ct (encWritePieces Pt Ct [[1, 2, 3], [4, 5, 6, 7, 8], [9]]).2 = [1, 2, 3, 4, 5, 6, 7, 8] := by
  decide

/-- the exactly-full open chunk: 8 bytes written, only chunk 0 has its tag; authenticated mode
    recovers chunk 0 (unverified) and stops at the untagged chunk 1 -/
example : (encWritePieces Pt Ct [[1, 2, 3], [4, 5, 6, 7, 8]]).1.ctr = 1 ∧
    fsAuth Pt Ct (encWritePieces Pt Ct [[1, 2, 3], [4, 5, 6, 7, 8]]).2 = [1, 2, 3, 4] := by
  decide

end MlaModel.EncFS

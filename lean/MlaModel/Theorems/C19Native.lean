/-
  C19 / D17 — the refutation of `C19.Full` for the native primitives, by kernel evaluation.

  Kept in its own module because checking it evaluates SHA-512 / HMAC / HKDF / ChaCha20 of
  MlaModel/Crypto inside the kernel (about two minutes); it imports the model only, so it is
  re-checked only when MlaModel/Keys.lean or the primitives change (`C19.full_fails_native` in
  Theorems/C19.lean uses it).  `decide +kernel` asks the kernel to evaluate the `Decidable` instance: no axiom is
  added (see the audit), nothing is compiled or trusted beyond the kernel.

  Witness: parent secret `ff…ff` (32 bytes, not clamped), one path `"A"`.
-/
import MlaModel.Keys
namespace MlaModel.C19
open MlaModel.Keys

set_option maxRecDepth 1000000 in
/-- the two variants give different children for the parent `ff…ff` and the path `"A"` -/
theorem native_witness :
    deriveAsCoded KPrims.native (List.replicate 32 0xff) [[65]]
      ≠ deriveAsDocumented KPrims.native (List.replicate 32 0xff) [[65]] := by decide +kernel

end MlaModel.C19

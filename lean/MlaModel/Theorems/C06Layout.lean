/-
  C06 (second half) — the whole archive.

    * `decompress_compress` : strict one-shot decompression (driven by the sizes table) of any
                              well-formed compressed stream gives the plaintext back.
    * `layout`              : `Archive.decode (Archive.build …)` succeeds for every recipient and
                              yields the header, the symmetric key, the block stream and the files
                              of the op list — for the four layer combinations.
    * `layout_bytes`        : the bytes of `Archive.build` are
                              header ‖ [encrypt] ( [compress] ( blocks ‖ 0xFE ‖ footer ‖ len ) ),
                              compression = blocks' streams ‖ sizes table ‖ len, encryption = one
                              GCM message per chunk (`sealS`).

  Composition of: `C06.header_roundtrip`, `C06.unwrap_wrap`, `openAll_sealS` (L1 of the encryption
  layer — copied into `Proofs/SealOpen.lean`, see the note there), `C01.compress_wellformed'`,
  `C01.roundtrip`, `C01.setup`.
-/
import MlaModel.Archive
import MlaModel.Theorems.C06
import MlaModel.Theorems.C01
import MlaModel.Theorems.C01Compress
import MlaModel.Proofs.CompressReader
import MlaModel.Proofs.SealOpen
import MlaModel.Theorems.CodecStored
namespace MlaModel.C06
open MlaModel

/-! ### decompression -/

theorem decBlocks_ok (P : Params) (K : Codec) (z : Sizes) :
    ∀ (cs plains : List Bytes) (k : Nat), cs.length = plains.length →
      (∀ j (h1 : j < cs.length) (h2 : j < plains.length), K.dec cs[j] = some plains[j]) →
      (∀ j (h : j < plains.length), plains[j].length = z.usizeAt P (k + j)) →
      decBlocks P K z (cs.map List.length) k cs.flatten = .ok plains.flatten := by
  intro cs
  induction cs with
  | nil =>
    intro plains k hl _ _
    have : plains = [] := List.length_eq_zero_iff.mp hl.symm
    subst this; simp [decBlocks]
  | cons c cs ih =>
    intro plains k hl hdec hsz
    cases plains with
    | nil => simp at hl
    | cons pl plains =>
      have h0 := hdec 0 (by simp) (by simp)
      have hs0 := hsz 0 (by simp)
      simp only [List.getElem_cons_zero, Nat.add_zero] at h0 hs0
      have hrec := ih plains (k + 1) (by simpa using hl)
        (fun j h1 h2 => by
          have := hdec (j + 1) (by simpa using h1) (by simpa using h2)
          simp only [List.getElem_cons_succ] at this
          exact this)
        (fun j h => by
          have := hsz (j + 1) (by simpa using h)
          simpa [Nat.add_assoc, Nat.add_comm 1 j] using this)
      simp only [List.map_cons, List.flatten_cons, decBlocks]
      have hlt : ¬ (c ++ cs.flatten).length < c.length := by simp
      rw [if_neg hlt, List.take_left, h0]
      simp only [hs0, ne_eq, not_true_eq_false, if_false, List.drop_left, hrec]

theorem flatten_blocks (P : Params) (p : Bytes) (n : Nat) :
    ((List.range n).map (blockOf P p)).flatten = p.take (n * P.block) := by
  induction n with
  | zero => simp
  | succ n ih =>
    rw [List.range_succ, List.map_append, List.flatten_append, ih]
    simp only [List.map_cons, List.map_nil, List.flatten_cons, List.flatten_nil, List.append_nil,
      blockOf]
    rw [Nat.add_mul, Nat.one_mul, List.take_add]

/-- **C06.decompress_compress** — for every codec, block size and plaintext: the strict one-shot
    decompression of a well-formed compressed stream (complete block streams ‖ sizes table ‖ length,
    `IsCompressed`) whose table fields fit their 32 bits is the plaintext. -/
theorem decompress_compress (P : Params) (K : Codec) (p : Bytes) (cs : List Bytes) (e : Bytes)
    (hc : IsCompressed P K p cs e) (hfit : CompFits P cs) : decompressAll P K e = .ok p := by
  have hparse := IsCompressed.parse P K p cs e hc hfit
  have hlay := IsCompressed.layout' P K p cs e hc
  generalize hz : tblOf P p cs = z at *
  have hbl : (sizesBody z).length = 8 + 4 * cs.length + 4 := by
    rw [sizesBody_length, ← hz]; simp [tblOf]
  have hb32 : (sizesBody z).length < U32 := by rw [hbl]; exact hfit.tbl
  have hb256 : (sizesBody z).length < 256 ^ 4 := by rw [← U32_eq]; exact hb32
  have e1 : e = (cs.flatten ++ sizesBody z) ++ le32 (sizesBody z).length := by
    rw [hlay, List.append_assoc]
  have hel : e.length = cs.flatten.length + (sizesBody z).length + 4 := by
    rw [e1]; simp [le32]; omega
  have hpc : parseCompLayer e = .ok (z, cs.flatten) := by
    unfold parseCompLayer
    have h4 : ¬ e.length < 4 := by omega
    have hpos : e.length - 4 = (cs.flatten ++ sizesBody z).length := by simp [hel]
    rw [if_neg h4]
    simp only
    have hdrop : e.drop (e.length - 4) = le32 (sizesBody z).length := by
      rw [hpos, e1, List.drop_left]
    have hlen : unle (e.drop (e.length - 4)) = (sizesBody z).length := by
      rw [hdrop]; exact unle_leN_of_lt 4 _ hb256
    rw [hlen]
    have hlt : ¬ e.length - 4 < (sizesBody z).length := by omega
    have hsub : e.length - 4 - (sizesBody z).length = cs.flatten.length := by omega
    rw [if_neg hlt, hsub]
    have htbl : (e.drop cs.flatten.length).take (sizesBody z).length = sizesBody z := by
      rw [hlay, List.drop_left, List.take_left]
    have htake : e.take cs.flatten.length = cs.flatten := by rw [hlay, List.take_left]
    rw [htbl, hparse, htake]
  unfold decompressAll
  rw [hpc]
  simp only
  have hcs : z.csizes = cs.map List.length := by rw [← hz]; rfl
  rw [hcs]
  have hb := P.hblock
  -- j < cs.length → j * block < |p|
  have hjlt : ∀ j, j < cs.length → j * P.block < p.length := by
    intro j hj
    have h1 : cs.length * P.block ≤ p.length + P.block - 1 := by
      rw [hc.count]; exact Nat.div_mul_le_self _ _
    have h2 : (j + 1) * P.block ≤ cs.length * P.block := Nat.mul_le_mul_right _ (by omega)
    rw [Nat.add_mul] at h2
    omega
  have := decBlocks_ok P K z cs ((List.range cs.length).map (blockOf P p)) 0 (by simp)
    (fun j h1 _ => by simpa using hc.blocks j h1)
    (fun j h => by
      have hj : j < cs.length := by simpa using h
      have := IsCompressed.usizeAt P K p cs e hc j (hjlt j hj)
      rw [hz] at this
      simpa using this.symm)
  rw [this, flatten_blocks, List.take_of_length_le (IsCompressed.spec P K p cs e hc).2]

/-- the stream emitted by the compression writer for `p` (one `write_all`, then `finalize`)
    decompresses to `p` -/
theorem decompress_compressS (P : Params) (K : Codec) (hK : K.DecFinish) (level : Nat) (p : Bytes)
    (hfit : ∀ cs, IsCompressed P K p cs (compressS P K level p) → CompFits P cs) :
    decompressAll P K (compressS P K level p) = .ok p := by
  obtain ⟨cs, hcs⟩ := C01.compress_wellformed' P K hK level [.write p]
  have hw : LAct.written [.write p] = p := by simp [LAct.written]
  rw [hw] at hcs
  exact decompress_compress P K p cs _ hcs (hfit cs hcs)

/-- non-vacuity (stored codec, `block = 8`, 11 bytes → two blocks) -/
example : decompressAll C01.exP Codec.stored (compressS C01.exP Codec.stored 5 [1, 2, 3, 4, 5, 6, 7, 8, 9, 10, 11]) =
    .ok [1, 2, 3, 4, 5, 6, 7, 8, 9, 10, 11] := by rfl

/-! ### the archive -/

/-- fuel given to `openAll` by the decoder is enough for a sealed stream -/
theorem fuel_ok (P : Params) (C : EncPrims) (htag : ∀ i c, (C.tag i c).length = P.tagLen) (p : Bytes) :
    nLast P p + 2 ≤ (sealS P C p).length / P.chunk + 2 := by
  have hl := sealS_length P C htag p
  have h1 : nLast P p ≤ p.length / P.chunk := Nat.div_le_div_right (Nat.sub_le _ _)
  have h2 : p.length / P.chunk ≤ (sealS P C p).length / P.chunk :=
    Nat.div_le_div_right (by omega)
  omega

/-- what the reader of an encrypted archive needs: it holds the secret `s` of one of the recipients,
    Diffie-Hellman commutes, and no earlier entry's tag verifies by accident (`C06.unwrap_wrap`) -/
structure ReaderOK (X : Ecies) (cfg : BuildCfg) (s : Bytes) : Prop where
  dh : ∀ a b, X.dh a (X.dh b X.base) = X.dh b (X.dh a X.base)
  pos : ∃ i, ∃ hi : i < cfg.recipients.length, cfg.recipients[i] = X.dh s X.base ∧
    ∀ j (hj : j < cfg.recipients.length), j < i →
      X.kdf (X.dh cfg.eph cfg.recipients[j]) ≠ X.kdf (X.dh cfg.eph cfg.recipients[i]) →
      let Gi := X.gcm (X.kdf (X.dh cfg.eph cfg.recipients[i]))
      (Gcm.decrypt Gi (Gcm.init Gi 0) (X.wrapOne cfg.eph cfg.key cfg.recipients[j]).1).2.2 ≠
        (X.wrapOne cfg.eph cfg.key cfg.recipients[j]).2

/-- the layers below the block stream, as `Archive.build` applies them -/
def layerBytes (P : Params) (mkC : Bytes → Bytes → EncPrims) (K : Codec) (cfg : BuildCfg)
    (inner : Bytes) : Bytes × Bytes :=
  let comp := if hasComp cfg.layers then compressS P K cfg.level inner else inner
  (comp, if hasEnc cfg.layers then sealS P (mkC cfg.key cfg.nonce) comp else comp)

/-- decoding the layers of a built archive gives back the block stream -/
theorem decode_layers (P : Params) (X : Ecies) (mkC : Bytes → Bytes → EncPrims) (K : Codec)
    (cfg : BuildCfg) (inner : Bytes) (s : Bytes)
    (hhdr : (cfg.header X).WF)
    (htag : ∀ i c, ((mkC cfg.key cfg.nonce).tag i c).length = P.tagLen)
    (henc : hasEnc cfg.layers = true → ReaderOK X cfg s)
    (hK : K.DecFinish)
    (hfit : ∀ cs, IsCompressed P K inner cs (compressS P K cfg.level inner) → CompFits P cs) :
    let lb := layerBytes P mkC K cfg inner
    Header.decode ((cfg.header X).encode ++ lb.2) = .ok (cfg.header X, lb.2) ∧
    Archive.decrypt P X mkC (some s) (cfg.header X) lb.2 =
      .ok (if hasEnc cfg.layers then some cfg.key else none, lb.1) ∧
    (if hasComp cfg.layers then decompressAll P K lb.1 else .ok lb.1) = .ok inner := by
  intro lb
  refine ⟨header_roundtrip _ hhdr _, ?_, ?_⟩
  · unfold Archive.decrypt
    show (if hasEnc cfg.layers = true then _ else _) = _
    by_cases he : hasEnc cfg.layers = true
    · obtain ⟨hdh, i, hi, hs, hnf⟩ := henc he
      have hun := unwrap_wrap X hdh cfg.eph cfg.key s cfg.recipients i hi hs hnf
      have hopen := openAll_sealS P (mkC cfg.key cfg.nonce) htag lb.1 _
        (fuel_ok P (mkC cfg.key cfg.nonce) htag lb.1)
      have hlb2 : lb.2 = sealS P (mkC cfg.key cfg.nonce) lb.1 := by
        simp [lb, layerBytes, he]
      simp only [BuildCfg.header, he, if_true]
      rw [hun]
      simp only
      rw [hlb2, hopen]
    · have hlb2 : lb.2 = lb.1 := by simp [lb, layerBytes, he]
      simp only [he]
      simp [hlb2]
  · by_cases hcp : hasComp cfg.layers = true
    · have : lb.1 = compressS P K cfg.level inner := by simp [lb, layerBytes, hcp]
      rw [if_pos hcp, this]
      exact decompress_compressS P K hK cfg.level inner hfit
    · have : lb.1 = inner := by simp [lb, layerBytes, hcp]
      rw [if_neg hcp, this]

theorem build_eq (P : Params) (X : Ecies) (mkC : Bytes → Bytes → EncPrims) (K : Codec)
    (H : Bytes → Bytes) (cfg : BuildCfg) (ops : List Op) :
    Archive.build P X mkC K H cfg ops =
      (cfg.header X).encode ++ (layerBytes P mkC K cfg (Writer.run P H ops).2.2).2 := rfl

/-- **C06.layout** — for every op sequence accepted by the writer and ending with `finalize`
    (hypotheses of `C01.roundtrip`), every configuration whose header can be written, every
    recipient holding one of the secrets: the independent decoder accepts the archive the
    independent writer built and yields the header, the symmetric key, the bytes below the
    compression layer, the block stream, and an index through which every file reads back (name
    list, content for every buffer size, size, hash).  All four layer combinations. -/
theorem layout (P : Params) (X : Ecies) (mkC : Bytes → Bytes → EncPrims) (K : Codec)
    (H : Bytes → Bytes) (utf8 : Bytes → Bool) (cfg : BuildCfg) (ops : List Op) (s : Bytes)
    -- the block stream (C01)
    (hH : ∀ b, (H b).length = hashLen) (hwf : ∀ op ∈ ops, op.WF utf8)
    (hacc : AllAccepted P H ops) (hfin : ops.getLast? = some .finalize)
    (hlen : ops.length < U64) (hpos : (Writer.run P H ops).2.2.length < U64)
    (hfoot : (encFooter (Writer.run P H ops).1.names (Writer.run P H ops).1.info).length - 4 < U32)
    -- the header can be written: layers byte, array sizes, serialization limit
    (hhdr : (cfg.header X).WF)
    -- encryption: tags have `tagLen` bytes; the reader is a recipient
    (htag : ∀ i c, ((mkC cfg.key cfg.nonce).tag i c).length = P.tagLen)
    (henc : hasEnc cfg.layers = true → ReaderOK X cfg s)
    -- compression: the codec decodes what it encoded; the table's fields fit their 32 bits
    (hK : K.DecFinish)
    (hfit : ∀ cs, IsCompressed P K (Writer.run P H ops).2.2 cs
      (compressS P K cfg.level (Writer.run P H ops).2.2) → CompFits P cs) :
    ∃ d, Archive.decode P X mkC K utf8 (some s) (Archive.build P X mkC K H cfg ops) = .ok d ∧
      d.header = cfg.header X ∧
      d.key = (if hasEnc cfg.layers then some cfg.key else none) ∧
      d.decrypted = (layerBytes P mkC K cfg (Writer.run P H ops).2.2).1 ∧
      d.inner = (Writer.run P H ops).2.2 ∧
      Reader.listFiles d.index = (specOf ops).map (·.1) ∧
      ∀ name content, (name, content) ∈ specOf ops → ∀ n, 0 < n →
        Reader.getFile P utf8 d.inner d.index name n = .ok content ∧
        Reader.getSize d.index name = .ok content.length ∧
        Reader.getHash P utf8 d.inner d.index name = .ok (H content) := by
  obtain ⟨ix, hix, hlist, hfiles⟩ := C01.roundtrip P H utf8 ops hH hwf hacc hfin hlen hpos hfoot
  obtain ⟨h1, h2, h3⟩ := decode_layers P X mkC K cfg (Writer.run P H ops).2.2 s hhdr htag henc hK hfit
  refine ⟨⟨cfg.header X, if hasEnc cfg.layers then some cfg.key else none,
    (layerBytes P mkC K cfg (Writer.run P H ops).2.2).1, (Writer.run P H ops).2.2, ix⟩,
    ?_, rfl, rfl, rfl, rfl, hlist, hfiles⟩
  rw [build_eq]
  unfold Archive.decode
  rw [h1]
  simp only
  rw [h2]
  simp only
  have hl : (cfg.header X).layers = cfg.layers := rfl
  rw [hl, h3]
  simp only
  rw [hix]

/-- **C06.layout_bytes** — the documented order of the parts: the archive is the header followed by
    the data; the data is the block stream, compressed if bit 1 is set (block streams ‖ sizes
    table ‖ its length, each block a complete stream of `block` plaintext bytes), then sealed if bit 0
    is set (one GCM message per `chunk` bytes); the block stream is the blocks, the end marker
    `0xFE`, the footer and its length. -/
theorem layout_bytes (P : Params) (X : Ecies) (mkC : Bytes → Bytes → EncPrims) (K : Codec)
    (H : Bytes → Bytes) (utf8 : Bytes → Bool) (cfg : BuildCfg) (ops : List Op)
    (hH : ∀ b, (H b).length = hashLen) (hwf : ∀ op ∈ ops, op.WF utf8)
    (hacc : AllAccepted P H ops) (hfin : ops.getLast? = some .finalize) (hK : K.DecFinish) :
    ∃ (inner comp : Bytes) (blocks : List Block) (names : List (Bytes × Nat)) (info : List (Nat × FileInfo)),
      Archive.build P X mkC K H cfg ops =
        (cfg.header X).encode ++ (if hasEnc cfg.layers then sealS P (mkC cfg.key cfg.nonce) comp else comp) ∧
      inner = encodeAll blocks ++ ([tEoad] ++ encFooter names info) ∧
      (hasComp cfg.layers = false → comp = inner) ∧
      (hasComp cfg.layers = true → ∃ cs, IsCompressed P K inner cs comp) := by
  obtain ⟨s', nb, _, _, _, _, _, hstream, _⟩ := C01.setup P H utf8 ops hH hwf hacc hfin
  refine ⟨(Writer.run P H ops).2.2, (layerBytes P mkC K cfg (Writer.run P H ops).2.2).1, nb,
    s'.names, s'.info, ?_, hstream, ?_, ?_⟩
  · rw [build_eq]; rfl
  · intro h; simp [layerBytes, h]
  · intro h
    obtain ⟨cs, hcs⟩ := C01.compress_wellformed' P K hK cfg.level [.write (Writer.run P H ops).2.2]
    have hw : LAct.written [.write (Writer.run P H ops).2.2] = (Writer.run P H ops).2.2 := by
      simp [LAct.written]
    rw [hw] at hcs
    refine ⟨cs, ?_⟩
    have : (layerBytes P mkC K cfg (Writer.run P H ops).2.2).1 =
        compressS P K cfg.level (Writer.run P H ops).2.2 := by simp [layerBytes, h]
    rw [this]; exact hcs

/-- a sufficient condition for the table's fields to fit: the compressed stream is shorter than
    4 GiB and so is a block -/
theorem compFits_of_length (P : Params) (K : Codec) (p : Bytes) (cs : List Bytes) (e : Bytes)
    (hc : IsCompressed P K p cs e) (he : e.length < U32) (hb : P.block < U32) : CompFits P cs := by
  have hlay := hc.layout
  have hl : e.length = cs.flatten.length + (8 + 4 * cs.length + 4 + 4) := by
    rw [hlay, encSizes_eq, List.length_append, List.length_append, sizesBody_length]
    simp [le32]
  refine ⟨fun c hcm => ?_, by omega, hb⟩
  have : c.length ≤ cs.flatten.length := by
    obtain ⟨a, b, rfl⟩ := List.append_of_mem hcm
    simp; omega
  omega

/-! ### non-vacuity of `layout`: production constants, both layers, two recipients (the reader is
    the second one), the interleaved op list of `C01.exOps`; toy primitives with the right sizes. -/

def exE : Ecies :=
  { dh := fun a b => List.replicate 32 (a.foldl (· + ·) 0 * b.headD 0)
    base := [1]
    kdf := id
    gcm := fun k => { ks := fun i => k.headD 0 + i.toUInt8,
                      ghStep := fun y x => List.zipWith (· + ·) y x,
                      ghInit := (k ++ List.replicate 16 0).take 16,
                      mask := fun y => (y ++ List.replicate 16 0).take 16 } }

theorem exE_dh : ∀ a b, exE.dh a (exE.dh b exE.base) = exE.dh b (exE.dh a exE.base) := by
  intro a b
  simp only [exE]
  generalize a.foldl (· + ·) (0 : UInt8) = x
  generalize b.foldl (· + ·) (0 : UInt8) = y
  have h : ∀ v : UInt8, (List.replicate 32 v).headD 0 = v := fun v => rfl
  rw [h, h]
  simp only [List.headD_cons, UInt8.mul_one]
  rw [UInt8.mul_comm]

def exMkC : Bytes → Bytes → EncPrims := fun k n =>
  { ks := fun i off => k.headD 0 + n.headD 0 + i.toUInt8 + off.toUInt8,
    tag := fun i c => List.replicate 16 (i.toUInt8 + c.foldl (· + ·) 0) }

def exCfg : BuildCfg :=
  { layers := 3, level := 5, key := List.replicate 32 7, nonce := List.replicate 8 9, eph := [3],
    recipients := [exE.dh [10] exE.base, exE.dh [20] exE.base] }

set_option maxRecDepth 8192 in
theorem exCfg_hdr : (exCfg.header exE).WF := by
  refine ⟨by decide, by decide, ?_, by decide, by decide⟩
  decide

set_option maxRecDepth 8192 in
theorem exCfg_reader : ReaderOK exE exCfg [20] := by
  refine ⟨exE_dh, 1, by decide, rfl, ?_⟩
  intro j hj hj1 _
  have : j = 0 := by omega
  subst this
  decide +revert

set_option maxRecDepth 16384 in
theorem ex_comp_len :
    (compressS Params.prod Codec.stored 5 (Writer.run Params.prod C01.exH C01.exOps).2.2).length < U32 := by
  decide

/-- `layout` applies: the second recipient decodes the archive; e.g. file `a` reads back -/
example : ∃ d, Archive.decode Params.prod exE exMkC Codec.stored (fun _ => true) (some [20])
      (Archive.build Params.prod exE exMkC Codec.stored C01.exH exCfg C01.exOps) = .ok d ∧
    d.key = some (List.replicate 32 7) ∧
    Reader.getFile Params.prod (fun _ => true) d.inner d.index [97] 2 = .ok [1, 2, 7] := by
  obtain ⟨d, hd, _, hkey, _, _, _, hfiles⟩ :=
    layout Params.prod exE exMkC Codec.stored C01.exH (fun _ => true) exCfg C01.exOps [20]
      C01.exH_len C01.exOps_wf C01.exOps_accepted C01.exOps_last C01.exOps_len C01.exOps_pos
      C01.exOps_foot exCfg_hdr (fun i c => by simp [exMkC, Params.prod]) (fun _ => exCfg_reader)
      Codec.stored_laws.decFinish
      (fun cs hcs => compFits_of_length _ _ _ cs _ hcs ex_comp_len (by decide))
  exact ⟨d, hd, hkey, (hfiles [97] [1, 2, 7] (by decide) 2 (by decide)).1⟩

end MlaModel.C06

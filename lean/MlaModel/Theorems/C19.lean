/-
  C19 — Seeded key generation and key derivation follow the documented algorithm.

  Model: MlaModel/Keys.lean (`keygen`, `deriveStep`, `deriveWith`, `keyderiveCmd`).  The documented
  algorithm (README "deterministic key generation", "hierarchical key infrastructure") is the model's
  `keygen` and `deriveAsDocumented`; what `mlar` does is `keygen` and `deriveAsCoded`: they differ in one
  place, the HKDF input key material (README: "the clamped private key"; code:
  `StaticSecret::to_bytes()`, the stored bytes, which x25519-dalek 2.x does not clamp) — defect D17.

    * `compose`       : deriving along `ps ++ qs` = deriving along `ps`, then along `qs` from the result
                        (both variants; also for the command, re-parsing included).
    * `pub_matches`   : the public file written next to a private file holds X25519(secret, 9) of the
                        secret in that private file, and both files read back.
    * determinism     : `keygen`, `keyderiveCmd` are functions of (seed) resp. (parent file, paths).
    * `Full`          : "implementation = documented algorithm" — kept separate; it is *false* for the
                        native primitives (`full_fails_native`, kernel-evaluated witness) and not a
                        consequence of the algorithm's shape (`full_not_generic`).
    * `coded_eq_documented_partial` : the two coincide on parents whose stored bytes are already
                        clamped, for one step.
-/
import MlaModel.Theorems.C18
import MlaModel.Theorems.C19Native
namespace MlaModel.C19
open MlaModel.Keys

variable (P : KPrims)

/-! ### composition -/

/-- **C19.compose** (fold law), for any choice of input key material -/
theorem compose (ikmOf : Bytes → Bytes) (k : Bytes) (ps qs : List Bytes) :
    deriveWith P ikmOf k (ps ++ qs) = deriveWith P ikmOf (deriveWith P ikmOf k ps) qs := by
  unfold deriveWith; exact List.foldl_append

theorem compose_coded (k : Bytes) (ps qs : List Bytes) :
    deriveAsCoded P k (ps ++ qs) = deriveAsCoded P (deriveAsCoded P k ps) qs := compose P id k ps qs

theorem compose_documented (k : Bytes) (ps qs : List Bytes) :
    deriveAsDocumented P k (ps ++ qs) = deriveAsDocumented P (deriveAsDocumented P k ps) qs :=
  compose P clamp k ps qs

example : deriveAsCoded C18.toyPrims [1] ([[2], []] ++ [[3]])
    = deriveAsCoded C18.toyPrims (deriveAsCoded C18.toyPrims [1] [[2], []]) [[3]] := by decide

/-- every derived secret is 32 bytes -/
theorem derive_length (L : P.Laws) (ikmOf : Bytes → Bytes) (k : Bytes) (ps : List Bytes)
    (hk : k.length = 32) : (deriveWith P ikmOf k ps).length = 32 := by
  induction ps generalizing k with
  | nil => exact hk
  | cons p ps ih => exact ih _ (L.chacha_len _)

/-! ### the public file matches the private file -/

/-- **C19.pub_matches**: the two files written for a secret read back as (secret, X25519(secret, 9)) -/
theorem pub_matches (L : P.Laws) (secret : Bytes) (hs : secret.length = 32) :
    parsePrivDer P (filesOf (keyPairOf P secret)).priv = .ok secret ∧
    parsePub P (filesOf (keyPairOf P secret)).pub = .ok (P.x25519Base secret) := by
  have h := C18.roundtrip P L secret hs
  exact ⟨h.1, h.2.2.2.1⟩

example : parsePub C18.toyPrims (filesOf (keyPairOf C18.toyPrims (List.replicate 32 7))).pub
    = .ok (List.replicate 32 9) := (pub_matches C18.toyPrims C18.toyLaws _ (by decide)).2

/-- `mlar keygen --seed`: the files are those of the secret README defines -/
theorem keygen_files (seed : Bytes) :
    keygen P seed = filesOf (keyPairOf P (P.chacha32 ((P.sha512 seed).take 32))) := rfl

theorem keygen_pub_matches (L : P.Laws) (seed : Bytes) :
    parsePrivDer P (keygen P seed).priv = .ok (keygenSecret P seed) ∧
    parsePub P (keygen P seed).pub = .ok (P.x25519Base (keygenSecret P seed)) :=
  pub_matches P L _ (L.chacha_len _)

/-! ### the command: re-parsing of every child -/

/-- a secret whose exported DER file reads back through the autodetecting entry point (all but the
    ones whose bytes contain a PEM frame: `C18.frameKey_misread`) -/
def Readable (k : Bytes) : Prop := parsePriv P (exportPrivDer k) = .ok k

theorem readable_of_noBegin (k : Bytes) (hk : k.length = 32) (h : ¬ beginMarker <:+: exportPrivDer k) :
    Readable P k := C18.roundtrip_der_autodetect_partial P k hk h

theorem keyderiveLoop_eq (ikmOf : Bytes → Bytes) :
    ∀ (ps : List Bytes) (k : Bytes) (last : Option Bytes),
      (∀ qs, qs ≠ [] → qs <+: ps → Readable P (deriveWith P ikmOf k qs)) →
      keyderiveLoop P ikmOf k last ps
        = some (if ps = [] then last else some (deriveWith P ikmOf k ps)) := by
  intro ps
  induction ps with
  | nil => intro k last _; rfl
  | cons p ps ih =>
    intro k last h
    have h1 : Readable P (deriveStep P ikmOf k p) := h [p] (by simp) (by simp)
    unfold Readable at h1
    have h2 := ih (deriveStep P ikmOf k p) (some (deriveStep P ikmOf k p)) (by
      intro qs hq hp
      have := h (p :: qs) (by simp) (by simpa using hp)
      simpa [deriveWith] using this)
    simp only [keyderiveLoop, h1, h2]
    by_cases hps : ps = []
    · subst hps; simp [deriveWith]
    · simp [hps, deriveWith]

/-- the command writes the files of the fold, as long as every child reads back -/
theorem keyderiveCmd_eq (ikmOf : Bytes → Bytes) (file k : Bytes) (ps : List Bytes)
    (hf : parsePriv P file = .ok k) (hps : ps ≠ [])
    (h : ∀ qs, qs ≠ [] → qs <+: ps → Readable P (deriveWith P ikmOf k qs)) :
    keyderiveCmd P ikmOf file ps = some (filesOf (keyPairOf P (deriveWith P ikmOf k ps))) := by
  unfold keyderiveCmd
  rw [hf]
  simp only []
  rw [keyderiveLoop_eq P ikmOf ps k none h]
  simp [hps]

/-- no path: the process panics (`expect("At least one path must be provided")`) -/
theorem keyderiveCmd_no_path (ikmOf : Bytes → Bytes) (file : Bytes) :
    keyderiveCmd P ikmOf file [] = none := by
  unfold keyderiveCmd
  cases parsePriv P file <;> rfl

/-- **composition on the command**: `-p ps… -p qs…` from a parent file = `-p qs…` from the private
    file that `-p ps…` wrote -/
theorem compose_cmd (ikmOf : Bytes → Bytes) (file k : Bytes) (ps qs : List Bytes)
    (hf : parsePriv P file = .ok k) (hps : ps ≠ []) (hqs : qs ≠ [])
    (h : ∀ rs, rs ≠ [] → rs <+: ps ++ qs → Readable P (deriveWith P ikmOf k rs)) :
    ∃ f, keyderiveCmd P ikmOf file ps = some f ∧
         keyderiveCmd P ikmOf f.priv qs = keyderiveCmd P ikmOf file (ps ++ qs) := by
  have h1 := keyderiveCmd_eq P ikmOf file k ps hf hps
    (fun rs hr hp => h rs hr (List.IsPrefix.trans hp (List.prefix_append ps qs)))
  refine ⟨_, h1, ?_⟩
  have hmid : parsePriv P (filesOf (keyPairOf P (deriveWith P ikmOf k ps))).priv
      = .ok (deriveWith P ikmOf k ps) := h ps hps (List.prefix_append ps qs)
  have h2 := keyderiveCmd_eq P ikmOf _ _ qs hmid hqs (by
    intro rs hr hp
    have := h (ps ++ rs) (by simp [hps]) (by
      obtain ⟨t, ht⟩ := hp
      exact ⟨t, by rw [← ht]; simp⟩)
    rwa [compose P ikmOf k ps rs] at this)
  have h3 := keyderiveCmd_eq P ikmOf file k (ps ++ qs) hf (by simp [hps]) h
  rw [h2, h3, compose P ikmOf k ps qs]

/-! ### D17: implementation vs. documentation -/

/-- **C19.Full**: the implementation (`deriveAsCoded`) is the documented algorithm (`deriveAsDocumented`) -/
def Full (P : KPrims) : Prop :=
  ∀ (k : Bytes) (ps : List Bytes), k.length = 32 → deriveAsCoded P k ps = deriveAsDocumented P k ps

theorem clamp_byte_idem : ∀ n, n < 256 → (((UInt8.ofNat n) &&& 127 ||| 64) &&& 127) ||| 64
    = (UInt8.ofNat n) &&& 127 ||| 64 := by
  set_option maxRecDepth 100000 in decide

theorem clamp_idem (k : Bytes) : clamp (clamp k) = clamp k := by
  unfold clamp
  by_cases hk : k.length = 32
  · match k, hk with
    | b0 :: r, hk =>
      have hr : r.length = 31 := by simpa using hk
      have hl : ((b0 &&& 248) :: (r.take 30 ++ (r.drop 30).map fun b => (b &&& 127) ||| 64)).length = 32 := by
        simp [hr]
      simp only [hk, if_true, hl]
      have e1 : (b0 &&& 248) &&& 248 = b0 &&& 248 := by
        rw [UInt8.and_assoc]; rfl
      have ht : (r.take 30 ++ (r.drop 30).map fun b => (b &&& 127) ||| 64).take 30 = r.take 30 := by
        rw [List.take_append_of_le_length (by simp [hr])]
        simp [List.take_take]
      have hd : (r.take 30 ++ (r.drop 30).map fun b => (b &&& 127) ||| 64).drop 30
          = (r.drop 30).map fun b => (b &&& 127) ||| 64 := by
        rw [List.drop_append_of_le_length (by simp [hr])]
        simp
      rw [e1, ht, hd, List.map_map]
      congr 2
      apply List.map_congr_left
      intro b _
      show ((b &&& 127 ||| 64) &&& 127) ||| 64 = b &&& 127 ||| 64
      have := clamp_byte_idem b.toNat (UInt8.toNat_lt b)
      rwa [UInt8.ofNat_toNat] at this
  · simp [hk]

/-- **partial**: on a parent whose stored bytes are already clamped, one step agrees -/
theorem coded_eq_documented_partial (k p : Bytes) (hk : clamp k = k) :
    deriveAsCoded P k [p] = deriveAsDocumented P k [p] := by
  simp [deriveAsCoded, deriveAsDocumented, deriveWith, deriveStep, hk]

/-- such parents exist (and `clamp` produces them) -/
example : clamp (clamp (List.replicate 32 0xff)) = clamp (List.replicate 32 0xff) := clamp_idem _

/-- **¬ C19.Full for the primitives `mlar` uses**: the implementation is not the documented algorithm
    (witness evaluated by the kernel in Theorems/C19Native.lean: parent `ff…ff`, path `"A"`) -/
theorem full_fails_native : ¬ Full KPrims.native :=
  fun h => native_witness (h (List.replicate 32 0xff) [[65]] (by decide))

/-- `Full` is not a consequence of the shape of the algorithm: with primitives that pass the input key
    material through, the two variants differ -/
theorem full_not_generic : ¬ ∀ P : KPrims, Full P := by
  intro h
  have := h ⟨id, fun _ ikm _ => ikm, id, id, fun _ => none⟩ (List.replicate 32 0xff) [[]] (by decide)
  revert this
  decide

end MlaModel.C19

/-
  C14 over the writer stack — the case left open by Theorems/C14Stack.lean: authenticated fail-safe
  reading of an archive written with compression UNDER encryption (`cfg = ⟨some lvl, true⟩`).

  Setting of C14Stack.lean: `ops = pre ++ .flush :: rest`, `dest` the archive body of the whole run,
  `destF` the bytes that had reached the destination when `flush()` returned.  At the flush,
    `Z   := Stack.inner … (pre ++ [.flush])`  — the compressed stream the encryption layer had
             received (the compression layer's output for the calls before the flush, then its
             flush; not finalized, so no sizes table),
    `ctr` — the number of chunks the encryption layer had closed (tag emitted),
    `lo  := fsDecompress P K (Z.take (ctr * P.chunk))` — fail-safe decompression of the closed
             chunks only.

    * `flush_point_auth_comp` (Proofs) : at the flush point, `lo.1 <+: dlF.1` (or both contain the
        whole block stream).
    * `flush_deliver_auth_comp` : the same about the delivered bytes for EVERY cut `n ≥ |destF|`.
    * `flush_file_auth_comp`    : for every cut `n ≥ |destF|`, repair recovers, for every file that
        repair of `lo` recovers, a file of the same name with at least that content.  The bytes of a
        partial chunk behind the closed chunks never make the result smaller.

  Hypotheses beyond those of `C05.archive_mono_file`: none.  `K.Laws` is needed for the monotonicity
  of fail-safe decompression (`CompFS.L4_mono`), `hTag` for the chunk geometry, `NoForge` (on what the
  encryption layer protects in the whole run, `Stack.inner`) only for the step from the flush point to
  a later cut (`EncFS.auth_mono` needs it: `EncryptFailSafe.lean`, example `¬ NoForge Pw Cw …`); at
  the flush point itself (`flush_point_auth_comp`) it is not used.
-/
import MlaModel.Proofs.C14Auth
namespace MlaModel.C14
open MlaModel

section
variable (P : Params) (H : Bytes → Bytes) (utf8 : Bytes → Bool) (pre rest : List Op)
  (hH : ∀ b, (H b).length = hashLen) (hwf : ∀ op ∈ pre ++ .flush :: rest, op.WF utf8)
  (hacc : AllAccepted P H (pre ++ .flush :: rest))
  (hfin : (pre ++ .flush :: rest).getLast? = some .finalize)
  (hlen : (pre ++ .flush :: rest).length < U64)
  (hpos : (Writer.run P H (pre ++ .flush :: rest)).2.2.length < U64)
  (C : EncPrims) (K : Codec) (hK : K.Laws) (hTag : ∀ i c, (C.tag i c).length = P.tagLen)

include hacc hfin hK hTag in
/-- **C14.flush_deliver_auth_comp** — delivered bytes, every cut at or after the flush point:
    fail-safe decompression of the chunks closed at the flush is a prefix of what the fail-safe stack
    delivers (or both contain the whole block stream, after which repair has stopped anyway). -/
theorem flush_deliver_auth_comp (lvl : Nat) (cutTop cutComp : Cut) (n : Nat)
    (hn : (Stack.run P H C K ⟨some lvl, true⟩ cutTop cutComp (pre ++ [.flush])).dest.length ≤ n)
    (hN : EncFS.NoForge P C (Stack.inner P H K ⟨some lvl, true⟩ cutTop (pre ++ .flush :: rest))) :
    let dest := (Stack.run P H C K ⟨some lvl, true⟩ cutTop cutComp (pre ++ .flush :: rest)).dest
    let dl := failsafeDeliver P C K (LayerCfg.ofStack ⟨some lvl, true⟩) .authenticated (dest.take n)
    let Z := Stack.inner P H K ⟨some lvl, true⟩ cutTop (pre ++ [.flush])
    let ctr := (encWritePieces P C (LAct.pieces
      (Stack.lowActs P H K ⟨some lvl, true⟩ cutTop cutComp (pre ++ [.flush])).1)).1.ctr
    let lo := fsDecompress P K (Z.take (ctr * P.chunk))
    let S := (Writer.run P H (pre ++ .flush :: rest)).2.2
    lo.1 <+: dl.1 ∨ (S <+: lo.1 ∧ S <+: dl.1) := by
  intro dest dl Z ctr lo S
  have hpf := flush_point_prefix P H pre rest hacc hfin C K ⟨some lvl, true⟩ cutTop cutComp
  have htake : dest.take
      (Stack.run P H C K ⟨some lvl, true⟩ cutTop cutComp (pre ++ [.flush])).dest.length =
      (Stack.run P H C K ⟨some lvl, true⟩ cutTop cutComp (pre ++ [.flush])).dest :=
    (List.prefix_iff_eq_take.1 hpf).symm
  obtain ⟨hF, hDel⟩ := flush_point_auth_comp P H pre rest hacc hfin C K hK hTag lvl cutTop cutComp
  obtain ⟨cs, hcs, hdest, hinner⟩ :=
    C02.stack_body P H C K ⟨some lvl, true⟩ cutTop cutComp _ hacc hfin
  have hm := deliver_mono P C K hK hTag (LayerCfg.ofStack ⟨some lvl, true⟩) .authenticated S cs hcs
    _ n hn (fun _ _ => by rw [← hinner rfl]; exact hN)
  simp only at hm
  rw [← hdest] at hm
  change _ <+: dl.1 ∨ (_ ∧ S <+: dl.1) at hm
  rw [htake] at hm
  rcases hm with hm | ⟨hm1, hm2⟩
  · rcases hF with hF | ⟨hF1, hF2⟩
    · exact Or.inl (hF.trans hm)
    · exact Or.inr ⟨hF1, hF2.trans hm⟩
  · rcases hF with hF | ⟨hF1, _⟩
    · rcases Nat.le_total lo.1.length S.length with hl | hl
      · exact Or.inl ((List.prefix_of_prefix_length_le hF hm1 hl).trans hm2)
      · exact Or.inr ⟨List.prefix_of_prefix_length_le hm1 hF hl, hm2⟩
    · exact Or.inr ⟨hF1, hm2⟩

include hH hwf hacc hfin hlen hpos hK hTag in
/-- **C14.flush_file_auth_comp** — authenticated fail-safe reading of an archive written with
    compression under encryption: for every cut at or after the flush point, repair recovers at least
    what repair recovers from the fail-safe decompression of the compressed bytes in the chunks the
    encryption layer had closed at the flush (`Z.take (ctr * chunk)`); the open chunk — fewer than
    `chunk` compressed bytes — is only authenticated by the tag a later write, or `finalize`, emits,
    and its bytes never make the result smaller. -/
theorem flush_file_auth_comp (lvl : Nat) (cutTop cutComp : Cut) (n : Nat)
    (hn : (Stack.run P H C K ⟨some lvl, true⟩ cutTop cutComp (pre ++ [.flush])).dest.length ≤ n)
    (hN : EncFS.NoForge P C (Stack.inner P H K ⟨some lvl, true⟩ cutTop (pre ++ .flush :: rest))) :
    let dest := (Stack.run P H C K ⟨some lvl, true⟩ cutTop cutComp (pre ++ .flush :: rest)).dest
    let dl := failsafeDeliver P C K (LayerCfg.ofStack ⟨some lvl, true⟩) .authenticated (dest.take n)
    let Z := Stack.inner P H K ⟨some lvl, true⟩ cutTop (pre ++ [.flush])
    let ctr := (encWritePieces P C (LAct.pieces
      (Stack.lowActs P H K ⟨some lvl, true⟩ cutTop cutComp (pre ++ [.flush])).1)).1.ctr
    let lo := fsDecompress P K (Z.take (ctr * P.chunk))
    ∀ name c, (name, c) ∈ specOf (Repair.convert P H utf8 lo.1 lo.2).ops →
      ∃ c₂, (name, c₂) ∈ specOf (Repair.convert P H utf8 dl.1 dl.2).ops ∧ c <+: c₂ := by
  intro dest dl Z ctr lo name c hc
  have hd := flush_deliver_auth_comp P H pre rest hacc hfin C K hK hTag lvl cutTop cutComp n hn hN
  obtain ⟨cs, hcs, hdest, _⟩ :=
    C02.stack_body P H C K ⟨some lvl, true⟩ cutTop cutComp _ hacc hfin
  have hDel : C02.Delivered (Writer.run P H (pre ++ .flush :: rest)).2.2 dl.1 := by
    have := C02.delivered_stack P H _ C K hK hTag (LayerCfg.ofStack ⟨some lvl, true⟩) .authenticated
      cs hcs n
    rw [← hdest] at this
    exact this
  rcases hd with hd | ⟨h1, h2⟩
  · exact C05.mono P H utf8 _ hH hwf hacc hfin hlen hpos lo.1 dl.1 lo.2 dl.2 hd hDel name c hc
  · have e1 := (C05.complete_of_prefix P H utf8 _ hH hwf hacc hfin hlen hpos lo.1 lo.2 h1).2.2
    have e2 := (C05.complete_of_prefix P H utf8 _ hH hwf hacc hfin hlen hpos dl.1 dl.2 h2).2.2
    refine ⟨c, ?_, List.prefix_refl _⟩
    rw [e2, ← e1]; exact hc

end

/-! ### Non-vacuity: the example ops of C01 (`exPre ++ .flush :: exRest`) through the real stack,
    compression under encryption (chunk 4, tag 16, blocks of 8 bytes, the stored-only brotli codec,
    the example primitives of `EncFS`) -/

section examples
open C01 C05

/-- the compressed stream the encryption layer had received at the flush -/
def exZ : Bytes :=
  Stack.inner EncFS.Pt exH Codec.stored ⟨some 5, true⟩ Cut.whole (exPre ++ [.flush])
/-- the chunks it had closed -/
def exCtr : Nat := (encWritePieces EncFS.Pt EncFS.Ct (LAct.pieces
  (Stack.lowActs EncFS.Pt exH Codec.stored ⟨some 5, true⟩ Cut.whole Cut.whole (exPre ++ [.flush])).1)).1.ctr
/-- fail-safe decompression of the closed chunks -/
def exLo : Bytes × Bool := fsDecompress EncFS.Pt Codec.stored (exZ.take (exCtr * EncFS.Pt.chunk))
def exLoRepair : List (Bytes × Bytes) × List Bytes × Stop :=
  let o := Repair.convert EncFS.Pt exH (fun _ => true) exLo.1 exLo.2
  (specOf o.ops, o.unfinished, o.stop)

set_option maxRecDepth 100000 in
/-- 335 compressed bytes at the flush, 83 closed chunks (332 bytes), 3 bytes in the open chunk; the
    closed chunks decompress to 208 bytes of the block stream -/
example : exZ.length = 335 ∧ exCtr = 83 ∧ exLo.1.length = 208 ∧ exLo.2 = false := by decide

set_option maxRecDepth 100000 in
/-- the lower bound is not trivial: all three files, `a` and `b` reported unfinished -/
example : exLoRepair =
    ([([97], [1, 2, 7]), ([98], [9]), ([99], [5, 6])], [[97], [98]], .eofNextBlock) := by decide

set_option maxRecDepth 100000 in
/-- evaluated at the flush point (1663 bytes, see C14Stack.lean), authenticated -/
example : exRepair ⟨some 5, true⟩ .authenticated 1663 =
    ([([97], [1, 2, 7]), ([98], [9]), ([99], [5, 6])], [[97], [98]], .eofNextBlock) := by decide

theorem exAccPt : AllAccepted EncFS.Pt exH exOps := by unfold AllAccepted; decide
set_option maxRecDepth 100000 in
theorem exPosPt : (Writer.run EncFS.Pt exH exOps).2.2.length < U64 := by decide
set_option maxRecDepth 100000 in
/-- `NoForge` holds for the example primitives on what the encryption layer protects here -/
theorem exNoForgePt : EncFS.NoForge EncFS.Pt EncFS.Ct
    (Stack.inner EncFS.Pt exH Codec.stored ⟨some 5, true⟩ Cut.whole exOps) := by decide

set_option maxRecDepth 100000 in
theorem exDestF_len : (Stack.run EncFS.Pt exH EncFS.Ct Codec.stored ⟨some 5, true⟩ Cut.whole Cut.whole
    (exPre ++ [.flush])).dest.length = 1663 := by decide

/-- all the hypotheses of `flush_file_auth_comp` hold together on a concrete instance (every cut
    `n ≥ 1663` of the 4499-byte body) -/
example (n : Nat) (hn : 1663 ≤ n) :=
  flush_file_auth_comp EncFS.Pt exH (fun _ => true) exPre exRest exH_len exOps_wf exAccPt
    exOps_last exOps_len exPosPt EncFS.Ct Codec.stored Codec.stored_laws EncFS.hTagT 5 Cut.whole
    Cut.whole n (by rw [exDestF_len]; exact hn) exNoForgePt

/-- the theorem applies with the production constants, any cipher, any cuts -/
example (C : EncPrims) (hTag : ∀ i c, (C.tag i c).length = Params.prod.tagLen) (cutTop cutComp : Cut)
    (hN : EncFS.NoForge Params.prod C
      (Stack.inner Params.prod exH Codec.stored ⟨some 5, true⟩ cutTop exOps)) (n : Nat)
    (hn : (Stack.run Params.prod exH C Codec.stored ⟨some 5, true⟩ cutTop cutComp
      (exPre ++ [.flush])).dest.length ≤ n) :=
  flush_file_auth_comp Params.prod exH (fun _ => true) exPre exRest exH_len exOps_wf exOps_accepted
    exOps_last exOps_len exOps_pos C Codec.stored Codec.stored_laws hTag 5 cutTop cutComp n hn hN

end examples

end MlaModel.C14

#print axioms MlaModel.C14.flush_point_auth_comp
#print axioms MlaModel.C14.flush_deliver_auth_comp
#print axioms MlaModel.C14.flush_file_auth_comp

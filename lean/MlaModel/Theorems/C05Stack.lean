/-
  C05 at the level of the archive file (setting of `Theorems/C02Stack.lean`).

    * `archive_complete` : from the whole body — all four layer combinations, both modes — repair
        stops on the end-of-archive marker, nothing is unfinished, and the output has exactly the
        original files.  (In authenticated mode chunk 0 is not verified by the fail-safe reader; it is
        genuine here.)
    * `archive_mono`     : for two truncations `n₁ ≤ n₂` of the body, every file recovered from the
        shorter one is recovered from the longer one with at least the same content.  The only extra
        hypothesis is `NoForge` (no accidental tag match on a truncated chunk) on what the encryption
        layer protects, and only in authenticated mode with encryption on — it is needed there
        (`EncFS.auth_mono`).  No restriction on where the cuts fall: past the compressed blocks the
        codec laws say nothing about how the decoder reads the sizes table, but by then the whole
        block stream has been delivered and repair has stopped at the end-of-archive marker.
-/
import MlaModel.Theorems.C05
import MlaModel.Theorems.C02Stack
import MlaModel.Theorems.CodecStored
namespace MlaModel.C05
open MlaModel C02

section
variable (P : Params) (H : Bytes → Bytes) (utf8 : Bytes → Bool) (ops : List Op)
  (hH : ∀ b, (H b).length = hashLen) (hwf : ∀ op ∈ ops, op.WF utf8)
  (hacc : AllAccepted P H ops) (hfin : ops.getLast? = some .finalize)
  (hlen : ops.length < U64) (hpos : (Writer.run P H ops).2.2.length < U64)
  (C : EncPrims) (K : Codec) (hK : K.Laws) (hTag : ∀ i c, (C.tag i c).length = P.tagLen)
  (cfg : LayerCfg) (mode : FsMode) (cs : List Bytes)
  (hcs : cfg.compressed = true → CompFS.IsEncoded P K (Writer.run P H ops).2.2 cs)
include hH hwf hacc hfin hlen hpos

/-- once the whole block stream has been delivered (followed by anything), repair is complete -/
theorem complete_of_prefix (d : Bytes) (endErr : Bool) (h : (Writer.run P H ops).2.2 <+: d) :
    (Repair.convert P H utf8 d endErr).stop = .eoad ∧
    (Repair.convert P H utf8 d endErr).unfinished = [] ∧
    specOf (Repair.convert P H utf8 d endErr).ops = specOf ops := by
  obtain ⟨junk, rfl⟩ := h
  exact complete P H utf8 ops hH hwf hacc hfin hlen hpos junk endErr

include hK hTag hcs

/-- **C05.archive_complete** — the intact archive body is repaired completely. -/
theorem archive_complete :
    let dl := failsafeDeliver P C K cfg mode (sealedBody P C cfg (Writer.run P H ops).2.2 cs)
    let o := Repair.convert P H utf8 dl.1 dl.2
    o.stop = .eoad ∧ o.unfinished = [] ∧ specOf o.ops = specOf ops := by
  intro dl o
  exact complete_of_prefix P H utf8 ops hH hwf hacc hfin hlen hpos dl.1 dl.2
    (deliver_complete P C K hK hTag cfg mode _ cs hcs)

/-- **C05.archive_mono** — a longer truncation of the archive never recovers less. -/
theorem archive_mono (n₁ n₂ : Nat) (hn : n₁ ≤ n₂)
    (hN : mode = .authenticated → cfg.encrypted = true →
      EncFS.NoForge P C (encPlain P cfg (Writer.run P H ops).2.2 cs)) :
    let dl₁ := failsafeDeliver P C K cfg mode
      ((sealedBody P C cfg (Writer.run P H ops).2.2 cs).take n₁)
    let dl₂ := failsafeDeliver P C K cfg mode
      ((sealedBody P C cfg (Writer.run P H ops).2.2 cs).take n₂)
    ∀ name c₁, (name, c₁) ∈ specOf (Repair.convert P H utf8 dl₁.1 dl₁.2).ops →
      ∃ c₂, (name, c₂) ∈ specOf (Repair.convert P H utf8 dl₂.1 dl₂.2).ops ∧ c₁ <+: c₂ := by
  intro dl₁ dl₂ name c₁ hmem
  rcases deliver_mono P C K hK hTag cfg mode _ cs hcs n₁ n₂ hn hN with h | ⟨h1, h2⟩
  · exact mono P H utf8 ops hH hwf hacc hfin hlen hpos dl₁.1 dl₂.1 dl₁.2 dl₂.2 h
      (delivered_stack P H ops C K hK hTag cfg mode cs hcs n₂) name c₁ hmem
  · have e1 := (complete_of_prefix P H utf8 ops hH hwf hacc hfin hlen hpos dl₁.1 dl₁.2 h1).2.2
    have e2 := (complete_of_prefix P H utf8 ops hH hwf hacc hfin hlen hpos dl₂.1 dl₂.2 h2).2.2
    refine ⟨c₁, ?_, List.prefix_refl _⟩
    rw [e2, ← e1]; exact hmem

end

/-! ### about the bytes of the archive file (`Stack.run`) -/

section
variable (P : Params) (H : Bytes → Bytes) (utf8 : Bytes → Bool) (ops : List Op)
  (hH : ∀ b, (H b).length = hashLen) (hwf : ∀ op ∈ ops, op.WF utf8)
  (hacc : AllAccepted P H ops) (hfin : ops.getLast? = some .finalize)
  (hlen : ops.length < U64) (hpos : (Writer.run P H ops).2.2.length < U64)
  (C : EncPrims) (K : Codec) (hK : K.Laws) (hTag : ∀ i c, (C.tag i c).length = P.tagLen)
include hH hwf hacc hfin hlen hpos hK hTag

/-- **C05.archive_complete_file** — the intact archive file is repaired completely. -/
theorem archive_complete_file (cfg : StackCfg) (cutTop cutComp : Cut) (mode : FsMode) :
    let dest := (Stack.run P H C K cfg cutTop cutComp ops).dest
    let dl := failsafeDeliver P C K (LayerCfg.ofStack cfg) mode dest
    let o := Repair.convert P H utf8 dl.1 dl.2
    o.stop = .eoad ∧ o.unfinished = [] ∧ specOf o.ops = specOf ops := by
  obtain ⟨cs, hcs, hdest, _⟩ := stack_body P H C K cfg cutTop cutComp ops hacc hfin
  intro dest
  have : dest = sealedBody P C (LayerCfg.ofStack cfg) (Writer.run P H ops).2.2 cs := hdest
  rw [this]
  exact archive_complete P H utf8 ops hH hwf hacc hfin hlen hpos C K hK hTag _ mode cs hcs

/-- **C05.archive_mono_file** — a longer truncation of the archive file never recovers less.
    `NoForge` (authenticated mode with encryption only) is about what the encryption layer protected,
    `Stack.inner`. -/
theorem archive_mono_file (cfg : StackCfg) (cutTop cutComp : Cut) (mode : FsMode) (n₁ n₂ : Nat)
    (hn : n₁ ≤ n₂)
    (hN : mode = .authenticated → cfg.encrypt = true →
      EncFS.NoForge P C (Stack.inner P H K cfg cutTop ops)) :
    let dest := (Stack.run P H C K cfg cutTop cutComp ops).dest
    let dl₁ := failsafeDeliver P C K (LayerCfg.ofStack cfg) mode (dest.take n₁)
    let dl₂ := failsafeDeliver P C K (LayerCfg.ofStack cfg) mode (dest.take n₂)
    ∀ name c₁, (name, c₁) ∈ specOf (Repair.convert P H utf8 dl₁.1 dl₁.2).ops →
      ∃ c₂, (name, c₂) ∈ specOf (Repair.convert P H utf8 dl₂.1 dl₂.2).ops ∧ c₁ <+: c₂ := by
  obtain ⟨cs, hcs, hdest, hinner⟩ := stack_body P H C K cfg cutTop cutComp ops hacc hfin
  intro dest
  have : dest = sealedBody P C (LayerCfg.ofStack cfg) (Writer.run P H ops).2.2 cs := hdest
  rw [this]
  apply archive_mono P H utf8 ops hH hwf hacc hfin hlen hpos C K hK hTag _ mode cs hcs n₁ n₂ hn
  intro hm he
  have hce : cfg.encrypt = true := by
    obtain ⟨lvl, enc⟩ := cfg
    cases lvl <;> cases enc <;> simp_all [LayerCfg.ofStack, LayerCfg.encrypted]
  rw [← hinner hce]
  exact hN hm hce

end

/-! ### Non-vacuity: the example ops of C01 through the real writer stack (chunk 4, tag 16, blocks of
    8 bytes, the stored-only brotli codec, the example primitives of `EncFS`), one truncation per
    layer combination, evaluated; and the theorems applied with `Params.prod`. -/

section examples
open C01

/-- the archive body for the example, per configuration (whole-piece cuts) -/
def exDest (cfg : StackCfg) : Bytes :=
  (Stack.run EncFS.Pt exH EncFS.Ct Codec.stored cfg Cut.whole Cut.whole exOps).dest

/-- repair of the body cut at `n` bytes: recovered files, unfinished names, stop reason -/
def exRepair (cfg : StackCfg) (mode : FsMode) (n : Nat) : List (Bytes × Bytes) × List Bytes × Stop :=
  let dl := failsafeDeliver EncFS.Pt EncFS.Ct Codec.stored (LayerCfg.ofStack cfg) mode
    ((exDest cfg).take n)
  let o := Repair.convert EncFS.Pt exH (fun _ => true) dl.1 dl.2
  (specOf o.ops, o.unfinished, o.stop)

set_option maxRecDepth 100000 in
/-- body lengths: no layer 427, encryption 2139, compression 899, both 4499 -/
example : (exDest ⟨none, false⟩).length = 427 ∧ (exDest ⟨none, true⟩).length = 2139 ∧
    (exDest ⟨some 5, false⟩).length = 899 ∧ (exDest ⟨some 5, true⟩).length = 4499 := by decide

set_option maxRecDepth 100000 in
example : exRepair ⟨none, false⟩ .unauthenticated 200 =
    ([([97], [1, 2, 7]), ([98], [9]), ([99], [5, 6])], [[97], [98]], .eofNextBlock) := by decide

set_option maxRecDepth 100000 in
example : exRepair ⟨none, true⟩ .authenticated 300 =
    ([([97], [1, 2]), ([98], [])], [[97], [98]], .eofNextBlock) := by decide

set_option maxRecDepth 100000 in
example : exRepair ⟨some 5, false⟩ .unauthenticated 300 =
    ([([97], [1, 2, 7]), ([98], [9]), ([99], [5, 6])], [[97], [98]], .errNextBlock .io) := by decide

set_option maxRecDepth 100000 in
example : exRepair ⟨some 5, true⟩ .authenticated 500 =
    ([([97], [1, 2]), ([98], [])], [[97], [98]], .errNextBlock .io) := by decide

set_option maxRecDepth 100000 in
/-- the intact body, compression under encryption, unauthenticated: everything, `eoad` -/
example : exRepair ⟨some 5, true⟩ .unauthenticated 4499 =
    ([([97], [1, 2, 7]), ([98], [9]), ([99], [5, 6])], [], .eoad) := by decide

/-- the theorems apply to the example (production constants), every configuration, cut and mode -/
example (C : EncPrims) (hTag : ∀ i c, (C.tag i c).length = Params.prod.tagLen) (cfg : StackCfg)
    (cutTop cutComp : Cut) (mode : FsMode) :
    let dest := (Stack.run Params.prod exH C Codec.stored cfg cutTop cutComp exOps).dest
    let dl := failsafeDeliver Params.prod C Codec.stored (LayerCfg.ofStack cfg) mode dest
    specOf (Repair.convert Params.prod exH (fun _ => true) dl.1 dl.2).ops = specOf exOps :=
  (archive_complete_file Params.prod exH (fun _ => true) exOps exH_len exOps_wf exOps_accepted
    exOps_last exOps_len exOps_pos C Codec.stored Codec.stored_laws hTag cfg cutTop cutComp mode).2.2

example (C : EncPrims) (hTag : ∀ i c, (C.tag i c).length = Params.prod.tagLen) (cfg : StackCfg)
    (cutTop cutComp : Cut) (mode : FsMode) (n : Nat) :
    let dest := (Stack.run Params.prod exH C Codec.stored cfg cutTop cutComp exOps).dest
    let dl := failsafeDeliver Params.prod C Codec.stored (LayerCfg.ofStack cfg) mode (dest.take n)
    AllAccepted Params.prod exH (Repair.convert Params.prod exH (fun _ => true) dl.1 dl.2).ops :=
  (archive_sound_file Params.prod exH (fun _ => true) exOps exH_len exOps_wf exOps_accepted
    exOps_last exOps_len exOps_pos C Codec.stored Codec.stored_laws hTag cfg cutTop cutComp mode n).1.1

end examples

end MlaModel.C05

/-
  C12 — linear extraction (`linear_extract`, helpers.rs; `Linear.run` in the model).

  Same hypotheses as `C01.blocks` (every call accepted, the sequence ends with `finalize`, names
  valid UTF-8, sizes / number of calls / stream length fit in a u64, 32-byte hashes):

    * `eq`     : for every list `chosen` of names, one sequential pass over the emitted stream returns
                 exactly `chosen` without duplicates, each name with the content the spec gives it
                 (`[]` for a name that is not in the archive).  `eq_mem` restates it entry by entry:
                 chosen files get their content, chosen names that are not in the archive get `[]`,
                 and nothing is delivered for names that were not chosen.
    * `trunc`  : extraction succeeds only if the end-of-archive-data marker is reached: the block
                 part of the stream (everything before `eoad ++ footer`) cut at ANY length `k` — inside
                 a header, inside a payload, at a block boundary, or not at all — makes `Linear.run`
                 fail with `UnexpectedEof`.
-/
import MlaModel.Theorems.C01
import MlaModel.Proofs.Linear
namespace MlaModel.C12
open MlaModel

/-- **C12.eq** — linear extraction of any chosen names returns what the spec says. -/
theorem eq (P : Params) (H : Bytes → Bytes) (utf8 : Bytes → Bool) (ops : List Op)
    (hH : ∀ b, (H b).length = hashLen) (hwf : ∀ op ∈ ops, op.WF utf8)
    (hacc : AllAccepted P H ops) (hfin : ops.getLast? = some .finalize)
    (hlen : ops.length < U64) (hpos : (Writer.run P H ops).2.2.length < U64)
    (chosen : List Bytes) :
    Linear.run P utf8 (Writer.run P H ops).2.2 chosen =
      .ok (chosen.eraseDups.map fun n => (n, ((specOf ops).lookup n).getD [])) := by
  obtain ⟨s', nb, hinv, _, _, _, _, hstream, hnid⟩ := C01.setup P H utf8 ops hH hwf hacc hfin
  rw [hstream] at hpos ⊢
  have hoks := C01.blocks_wf hinv (by omega) (by simp only [List.length_append] at hpos; omega)
  have hne : ∀ b ∈ nb, b ≠ .eoad := by
    intro b hb e; subst e; exact hinv.wf0 _ hb
  have hloop := loop_blocks P utf8 chosen nb (fun b hb => (hoks b hb).1) hne
    ((encodeAll nb ++ (Block.eoad.encode ++ encFooter s'.names s'.info)).length + 1)
    (encFooter s'.names s'.info) [] (chosen.eraseDups.map fun n => (n, []))
    (by have := C01.length_le_encodeAll nb; simp only [List.length_append]; omega)
  have hrun : Linear.run P utf8 (encodeAll nb ++ (Block.eoad.encode ++ encFooter s'.names s'.info))
      chosen = .ok (linFold chosen nb).2 := hloop
  rw [hrun, (hinv.lin chosen).out, C01.specOf_eq hinv]
  congr 1
  apply List.map_congr_left
  intro n _
  rw [lookup_names s'.names (fun id => contentOf id nb) n]
  cases nameLookup n s'.names <;> rfl

/-- **C12.eq**, entry by entry: chosen files are delivered with their content, chosen names that
    are not in the archive with `[]`, and nothing else is delivered. -/
theorem eq_mem (P : Params) (H : Bytes → Bytes) (utf8 : Bytes → Bool) (ops : List Op)
    (hH : ∀ b, (H b).length = hashLen) (hwf : ∀ op ∈ ops, op.WF utf8)
    (hacc : AllAccepted P H ops) (hfin : ops.getLast? = some .finalize)
    (hlen : ops.length < U64) (hpos : (Writer.run P H ops).2.2.length < U64)
    (chosen : List Bytes) :
    ∃ m, Linear.run P utf8 (Writer.run P H ops).2.2 chosen = .ok m ∧
      (∀ name ∈ chosen,
        (∀ content, (name, content) ∈ specOf ops → (name, content) ∈ m) ∧
        ((∀ content, (name, content) ∉ specOf ops) → (name, []) ∈ m)) ∧
      (∀ e ∈ m, e.1 ∈ chosen) ∧
      m.map (·.1) = chosen.eraseDups := by
  refine ⟨_, eq P H utf8 ops hH hwf hacc hfin hlen hpos chosen, ?_, ?_, ?_⟩
  · obtain ⟨s', nb, hinv, _, _, _, _, _, _⟩ := C01.setup P H utf8 ops hH hwf hacc hfin
    have hspec := C01.specOf_eq hinv
    intro name hname
    have hmem : name ∈ chosen.eraseDups := List.mem_eraseDups.2 hname
    refine ⟨?_, ?_⟩
    · intro content hc
      refine List.mem_map.2 ⟨name, hmem, ?_⟩
      rw [hspec] at hc ⊢
      obtain ⟨p, hp, hpe⟩ := List.mem_map.1 hc
      simp only [Prod.mk.injEq] at hpe
      obtain ⟨rfl, rfl⟩ := hpe
      rw [lookup_names s'.names (fun id => contentOf id nb) p.1,
        nameLookup_of_mem p.1 p.2 s'.names hinv.nodup hp]
      rfl
    · intro hnot
      refine List.mem_map.2 ⟨name, hmem, ?_⟩
      rw [hspec] at hnot ⊢
      rw [lookup_names s'.names (fun id => contentOf id nb) name]
      cases hl : nameLookup name s'.names with
      | none => rfl
      | some id =>
        exfalso
        apply hnot (contentOf id nb)
        exact List.mem_map.2 ⟨(name, id), mem_of_nameLookup _ _ _ hl, rfl⟩
  · intro e he
    obtain ⟨n, hn, rfl⟩ := List.mem_map.1 he
    exact List.mem_eraseDups.1 hn
  · simp [List.map_map, Function.comp_def]

/-- **C12.trunc** — the block part of the stream cut anywhere (before the end-of-archive-data
    marker) is never extracted successfully: `Linear.run` answers `UnexpectedEof`. -/
theorem trunc (P : Params) (H : Bytes → Bytes) (utf8 : Bytes → Bool) (ops : List Op)
    (hH : ∀ b, (H b).length = hashLen) (hwf : ∀ op ∈ ops, op.WF utf8)
    (hacc : AllAccepted P H ops) (hfin : ops.getLast? = some .finalize)
    (hlen : ops.length < U64) (hpos : (Writer.run P H ops).2.2.length < U64)
    (chosen : List Bytes) :
    ∃ body, (Writer.run P H ops).2.2 =
        body ++ tEoad :: encFooter (Writer.run P H ops).1.names (Writer.run P H ops).1.info ∧
      ∀ k, k ≤ body.length → Linear.run P utf8 (body.take k) chosen = .error .eof := by
  obtain ⟨s', nb, hinv, _, _, hnames, hinfo, hstream, hnid⟩ :=
    C01.setup P H utf8 ops hH hwf hacc hfin
  rw [hstream] at hpos
  have hoks := C01.blocks_wf hinv (by omega) (by simp only [List.length_append] at hpos; omega)
  have hne : ∀ b ∈ nb, b ≠ .eoad := by
    intro b hb e; subst e; exact hinv.wf0 _ hb
  refine ⟨encodeAll nb, by rw [hstream, hnames, hinfo]; rfl, ?_⟩
  intro k hk
  unfold Linear.run
  exact trunc_loop P utf8 chosen nb (fun b hb => (hoks b hb).1) hne k _ _ _ hk
    (by simp; omega)

/-- the decomposition in `trunc` is unique: `body` is the stream minus `eoad ++ footer` -/
theorem trunc' (P : Params) (H : Bytes → Bytes) (utf8 : Bytes → Bool) (ops : List Op)
    (hH : ∀ b, (H b).length = hashLen) (hwf : ∀ op ∈ ops, op.WF utf8)
    (hacc : AllAccepted P H ops) (hfin : ops.getLast? = some .finalize)
    (hlen : ops.length < U64) (hpos : (Writer.run P H ops).2.2.length < U64)
    (chosen : List Bytes) (body : Bytes)
    (hbody : (Writer.run P H ops).2.2 =
      body ++ tEoad :: encFooter (Writer.run P H ops).1.names (Writer.run P H ops).1.info)
    (k : Nat) (hk : k ≤ body.length) :
    Linear.run P utf8 (body.take k) chosen = .error .eof := by
  obtain ⟨body', h1, h2⟩ := trunc P H utf8 ops hH hwf hacc hfin hlen hpos chosen
  have : body = body' := List.append_cancel_right (hbody.symm.trans h1)
  subst this
  exact h2 k hk

/-! ### Non-vacuity (the example of C01: two interleaved files `a`, `b` and an added file `c`) -/

open C01 in
/-- `eq` applies: choosing `a`, an unknown name, `c`, and `a` again -/
example :
    Linear.run Params.prod (fun _ => true) (Writer.run Params.prod exH exOps).2.2
      [[97], [120], [99], [97]] = .ok [([97], [1, 2, 7]), ([120], []), ([99], [5, 6])] :=
  eq Params.prod exH (fun _ => true) exOps exH_len exOps_wf exOps_accepted exOps_last exOps_len
    exOps_pos [[97], [120], [99], [97]]

set_option maxRecDepth 8192 in
/-- the same, run by the kernel on the 427-byte stream -/
example :
    Linear.run Params.prod (fun _ => true) (Writer.run Params.prod C01.exH C01.exOps).2.2
      [[97], [120], [99], [97]] = .ok [([97], [1, 2, 7]), ([120], []), ([99], [5, 6])] := by
  rfl

set_option maxRecDepth 8192 in
/-- cuts of the example stream (first content block of `a`: header at bytes 36–52, payload 53–54):
    inside the header, inside the payload, and at the block boundary -/
example :
    Linear.run Params.prod (fun _ => true)
        ((Writer.run Params.prod C01.exH C01.exOps).2.2.take 40) [[97]] = .error .eof ∧
    Linear.run Params.prod (fun _ => true)
        ((Writer.run Params.prod C01.exH C01.exOps).2.2.take 54) [[97]] = .error .eof ∧
    Linear.run Params.prod (fun _ => true)
        ((Writer.run Params.prod C01.exH C01.exOps).2.2.take 55) [[97]] = .error .eof :=
  ⟨rfl, rfl, rfl⟩

end MlaModel.C12

/-
  C01 at the level of the archive FILE, through the actual reader stack.

  Setting: `ops` satisfies the hypotheses of `C01.blocks` (+ `hfoot`: the footer length fits its u32
  field), `S := (Writer.run P H ops).2.2` is the block stream, `file := hdr ++ sealedBody P C cfg S cs`
  an archive file (any header bytes `hdr`; `cfg`: no layer / encryption / compression / compression
  under encryption).  The reader is built as `ArchiveReader::from_config` does after the header
  (`openStack`, Proofs/ReaderStack.lean): an in-memory cursor over the file, the raw layer pinned at
  the end of the header, then `EncR.init` and/or `CompR.init`; the index comes from
  `parseFooterS` over that stack (`openArchive`).

    * `stack_cursor`      : whatever layers are enabled, the initialised stack behaves like a plain
        cursor over `S` (`IsCursor`) — the stacking statement of C11.
    * `archive_roundtrip` : opening the archive file succeeds, the index is the one the writer built,
        and ANY history of list / get_file / read / get_hash / get_size answers what `specOf ops`
        says (`C10.Matches`): names in order, for every file its content for every sequence of
        buffer sizes, its size, `H content` — after any other operations, for all four layer
        combinations, every `P`, every `C` whose tags have `tagLen` bytes, every codec with
        `Codec.Laws`, every short-read policy `rd` of the block decompressor.
    * `archive_roundtrip_file` : the same over `file := hdr ++ (Stack.run … ops).dest`, the bytes the
        real writer stack produced (any cut of the layers' output into `write_all` calls).

  Hypotheses beyond C01's, all explicit:
    * `hchunks` (encryption on): the number of chunks of what the encryption layer protects fits the
        u32 chunk counter: `|encPlain| / chunk + 1 < 2^32`;
    * `hfit` (compression on): `CompFits P cs` — compressed block sizes, the table length and `block`
        fit u32 fields (`compFits_of_length`: it holds when the compressed stream is shorter than
        2^32 bytes and `block < 2^32`);
    * `hfoot`: the footer length fits u32;
    * `hrd`, `hrd0`: the decompressor returns between 1 and `m` bytes when asked for `m > 0`, and
        nothing when asked for nothing.
-/
import MlaModel.Theorems.C10
import MlaModel.Theorems.C02Stack
import MlaModel.Proofs.ReaderStack
import MlaModel.Theorems.CodecStored
namespace MlaModel.C01
open MlaModel

section
variable (P : Params) (H : Bytes → Bytes) (utf8 : Bytes → Bool) (ops : List Op)
  (C : EncPrims) (K : Codec) (rd : Nat → Nat)
  (hC : C11.EncPrims.Laws P C) (hK : K.Laws)
  (hrd : ∀ m, 0 < m → 0 < rd m ∧ rd m ≤ m) (hrd0 : rd 0 = 0)
  (cfg : LayerCfg) (cs : List Bytes) (hdr : Bytes)
  (hchunks : cfg.encrypted = true →
    (encPlain P cfg (Writer.run P H ops).2.2 cs).length / P.chunk + 1 < U32)
  (hcs : cfg.compressed = true → CompFS.IsEncoded P K (Writer.run P H ops).2.2 cs)
  (hfit : cfg.compressed = true → CompFits P cs)
  (hfile : (hdr ++ sealedBody P C cfg (Writer.run P H ops).2.2 cs).length < U64)
include hC hK hrd hrd0 hchunks hcs hfit hfile

/-- **C01.stack_cursor** — the initialised reader stack over the archive file behaves like a plain
    cursor over the block stream, whatever layers are enabled. -/
theorem stack_cursor :
    ∃ (Inv : ReaderStackT P C K rd cfg → Prop) (abs : ReaderStackT P C K rd cfg → Nat)
      (s : ReaderStackT P C K rd cfg),
      openStack P C K rd cfg hdr.length (hdr ++ sealedBody P C cfg (Writer.run P H ops).2.2 cs)
        = .ok s ∧
      IsCursor Inv abs (Writer.run P H ops).2.2 ∧ Inv s :=
  openStack_cursor P C K rd hC hK.decFinish hrd hrd0 cfg _ cs hdr hchunks hcs hfit hfile

variable (hH : ∀ b, (H b).length = hashLen) (hwf : ∀ op ∈ ops, op.WF utf8)
  (hacc : AllAccepted P H ops) (hfin : ops.getLast? = some .finalize)
  (hlen : ops.length < U64) (hpos : (Writer.run P H ops).2.2.length < U64)
  (hfoot : (encFooter (Writer.run P H ops).1.names (Writer.run P H ops).1.info).length - 4 < U32)
include hH hwf hacc hfin hlen hpos hfoot

/-- **C01.archive_roundtrip** — open the archive file through the reader stack, then run any
    history: every answer is the one `specOf ops` determines. -/
theorem archive_roundtrip :
    ∃ a₀ : ArS (ReaderStackT P C K rd cfg),
      openArchive P C K rd utf8 cfg hdr.length
        (hdr ++ sealedBody P C cfg (Writer.run P H ops).2.2 cs) = .ok a₀ ∧
      a₀.ix = (Writer.run P H ops).1.index ∧ a₀.handle = none ∧
      -- every history is matched step by step by the specification
      (∀ h : List ROp, ∃ q', C10.RunMatches (specOf ops) H none h (ArS.run P utf8 a₀ h).2 q') ∧
      -- in particular, after ANY history `h`:
      (∀ h : List ROp, (ArS.run P utf8 a₀ (h ++ [.list])).2 =
        (ArS.run P utf8 a₀ h).2 ++ [.names ((specOf ops).map (·.1))]) ∧
      (∀ (h : List ROp) name content, (name, content) ∈ specOf ops →
        (ArS.run P utf8 a₀ (h ++ [.getSize name])).2 =
          (ArS.run P utf8 a₀ h).2 ++ [.size content.length] ∧
        (ArS.run P utf8 a₀ (h ++ [.getHash name])).2 =
          (ArS.run P utf8 a₀ h).2 ++ [.hash (H content)] ∧
        ∀ ns : List Nat, ∃ bs : List Bytes,
          (ArS.run P utf8 a₀ (h ++ .getFile name :: ns.map .read)).2 =
            (ArS.run P utf8 a₀ h).2 ++ .opened content.length :: bs.map .data ∧
          bs.flatten <+: content ∧ C10.Fits bs ns ∧
          ((∀ n ∈ ns, 0 < n) → content.length ≤ ns.length → bs.flatten = content)) := by
  obtain ⟨Inv, abs, s, hopen, hcur, hs⟩ :=
    stack_cursor P H ops C K rd hC hK hrd hrd0 cfg cs hdr hchunks hcs hfit hfile
  have hpf := archive P H utf8 ops hH hwf hacc hfin hlen hpos hfoot
  obtain ⟨s', hfs, hs'⟩ := parseFooterS_ok hcur utf8 s hs _ hpf
  refine ⟨⟨s', (Writer.run P H ops).1.index, none⟩, ?_, rfl, rfl, ?_, ?_, ?_⟩
  · simp only [openArchive, hopen, hfs]
  · intro h
    exact C10.history P H utf8 ops hH hwf hacc hfin hlen hpos Inv abs hcur _ hs' rfl rfl h
  · intro h
    exact (C10.list_same_as_alone P H utf8 ops hH hwf hacc hfin hlen hpos Inv abs hcur _ hs' rfl
      rfl h).1
  · intro h name content hm
    refine ⟨?_, ?_, ?_⟩
    · exact (C10.size_same_as_alone P H utf8 ops hH hwf hacc hfin hlen hpos Inv abs hcur _ hs' rfl
        rfl h name content hm).1
    · exact (C10.hash_same_as_alone P H utf8 ops hH hwf hacc hfin hlen hpos Inv abs hcur _ hs' rfl
        rfl h name content hm).1
    · intro ns
      exact (C10.same_as_alone P H utf8 ops hH hwf hacc hfin hlen hpos Inv abs hcur _ hs' rfl
        rfl h name content hm ns).1

end

/-! ### over the bytes the writer stack produced -/

/-- the table fields fit when the compressed stream is shorter than 2^32 bytes and `block < 2^32` -/
theorem compFits_of_length (P : Params) (S : Bytes) (cs : List Bytes)
    (h : (compBody P S cs).length < U32) (hb : P.block < U32) : CompFits P cs := by
  have hl : (compBody P S cs).length = cs.flatten.length + (8 + 4 * cs.length + 4 + 4) := by
    simp only [compBody, encSizes, List.length_append, le64_length, le32_length,
      flatten_le32_length, List.length_map]
  refine ⟨?_, by omega, hb⟩
  intro c hc
  have : c.length ≤ cs.flatten.length := by
    clear hl h
    induction cs with
    | nil => simp at hc
    | cons x xs ih =>
      rcases List.mem_cons.1 hc with rfl | hc
      · simp only [List.flatten_cons, List.length_append]; omega
      · have := ih hc; simp only [List.flatten_cons, List.length_append]; omega
  omega

section
variable (P : Params) (H : Bytes → Bytes)

/-- `C02.stack_body` with, in addition, what the compression layer emitted (`Stack.inner`) when
    compression is on -/
theorem stack_body_inner (C : EncPrims) (K : Codec) (scfg : StackCfg) (cutTop cutComp : Cut)
    (ops : List Op) (hacc : AllAccepted P H ops) (hfin : ops.getLast? = some .finalize) :
    ∃ cs, ((LayerCfg.ofStack scfg).compressed = true →
        CompFS.IsEncoded P K (Writer.run P H ops).2.2 cs ∧
        Stack.inner P H K scfg cutTop ops = compBody P (Writer.run P H ops).2.2 cs) ∧
      (Stack.run P H C K scfg cutTop cutComp ops).dest =
        sealedBody P C (LayerCfg.ofStack scfg) (Writer.run P H ops).2.2 cs ∧
      (scfg.encrypt = true → Stack.inner P H K scfg cutTop ops =
        encPlain P (LayerCfg.ofStack scfg) (Writer.run P H ops).2.2 cs) := by
  have hf := C02.finalized_of_accepted P H ops hacc hfin
  obtain ⟨lvl, enc⟩ := scfg
  cases enc with
  | false =>
    have hd := C07.no_encrypt_passthrough P H C K lvl cutTop cutComp ops
    cases lvl with
    | none =>
      refine ⟨[], by simp [LayerCfg.ofStack, LayerCfg.compressed], ?_, by simp⟩
      rw [hd, C07.inner_plain]; rfl
    | some l =>
      obtain ⟨cs, h1, h2⟩ := C02.inner_encoded P H K l false cutTop ops hf
      exact ⟨cs, fun _ => ⟨h1, h2⟩, by rw [hd, h2]; rfl, by simp⟩
  | true =>
    obtain ⟨hd, _, hfe⟩ := C07.all_through_cipher P H C K lvl cutTop cutComp ops
    have hd' := hd (by rw [hfe]; exact hf)
    cases lvl with
    | none =>
      refine ⟨[], by simp [LayerCfg.ofStack, LayerCfg.compressed], ?_, fun _ => ?_⟩
      · rw [hd', C07.inner_plain]; rfl
      · rw [C07.inner_plain]; rfl
    | some l =>
      obtain ⟨cs, h1, h2⟩ := C02.inner_encoded P H K l true cutTop ops hf
      exact ⟨cs, fun _ => ⟨h1, h2⟩, by rw [hd', h2]; rfl, fun _ => by rw [h2]; rfl⟩

end

section
variable (P : Params) (H : Bytes → Bytes) (utf8 : Bytes → Bool) (ops : List Op)
  (C : EncPrims) (K : Codec) (rd : Nat → Nat)
  (hC : C11.EncPrims.Laws P C) (hK : K.Laws)
  (hrd : ∀ m, 0 < m → 0 < rd m ∧ rd m ≤ m) (hrd0 : rd 0 = 0)
  (hH : ∀ b, (H b).length = hashLen) (hwf : ∀ op ∈ ops, op.WF utf8)
  (hacc : AllAccepted P H ops) (hfin : ops.getLast? = some .finalize)
  (hlen : ops.length < U64) (hpos : (Writer.run P H ops).2.2.length < U64)
  (hfoot : (encFooter (Writer.run P H ops).1.names (Writer.run P H ops).1.info).length - 4 < U32)
include hC hK hrd hrd0 hH hwf hacc hfin hlen hpos hfoot

/-- **C01.archive_roundtrip_file** — write with the real writer stack (any configuration, any cut
    of the layers' output), put any header in front, open the file through the reader stack, run
    any history: every answer is the one `specOf ops` determines.
    `hchunks`: with encryption, what it protects (`Stack.inner`) has fewer than 2^32 − 1 chunks;
    `hsmall`: with compression, the compressed stream is shorter than 2^32 bytes and `block < 2^32`
    (so that the fields of the sizes table fit). -/
theorem archive_roundtrip_file (scfg : StackCfg) (cutTop cutComp : Cut) (hdr : Bytes)
    (hchunks : scfg.encrypt = true →
      (Stack.inner P H K scfg cutTop ops).length / P.chunk + 1 < U32)
    (hsmall : scfg.compress.isSome = true →
      (Stack.inner P H K scfg cutTop ops).length < U32 ∧ P.block < U32)
    (hfile : (hdr ++ (Stack.run P H C K scfg cutTop cutComp ops).dest).length < U64) :
    ∃ a₀ : ArS (ReaderStackT P C K rd (LayerCfg.ofStack scfg)),
      openArchive P C K rd utf8 (LayerCfg.ofStack scfg) hdr.length
        (hdr ++ (Stack.run P H C K scfg cutTop cutComp ops).dest) = .ok a₀ ∧
      a₀.ix = (Writer.run P H ops).1.index ∧ a₀.handle = none ∧
      (∀ h : List ROp, ∃ q', C10.RunMatches (specOf ops) H none h (ArS.run P utf8 a₀ h).2 q') ∧
      (∀ h : List ROp, (ArS.run P utf8 a₀ (h ++ [.list])).2 =
        (ArS.run P utf8 a₀ h).2 ++ [.names ((specOf ops).map (·.1))]) ∧
      (∀ (h : List ROp) name content, (name, content) ∈ specOf ops →
        (ArS.run P utf8 a₀ (h ++ [.getSize name])).2 =
          (ArS.run P utf8 a₀ h).2 ++ [.size content.length] ∧
        (ArS.run P utf8 a₀ (h ++ [.getHash name])).2 =
          (ArS.run P utf8 a₀ h).2 ++ [.hash (H content)] ∧
        ∀ ns : List Nat, ∃ bs : List Bytes,
          (ArS.run P utf8 a₀ (h ++ .getFile name :: ns.map .read)).2 =
            (ArS.run P utf8 a₀ h).2 ++ .opened content.length :: bs.map .data ∧
          bs.flatten <+: content ∧ C10.Fits bs ns ∧
          ((∀ n ∈ ns, 0 < n) → content.length ≤ ns.length → bs.flatten = content)) := by
  obtain ⟨cs, hcs, hdest, hinner⟩ := stack_body_inner P H C K scfg cutTop cutComp ops hacc hfin
  rw [hdest] at hfile ⊢
  have henc : (LayerCfg.ofStack scfg).encrypted = true → scfg.encrypt = true := by
    obtain ⟨lvl, enc⟩ := scfg
    cases lvl <;> cases enc <;> simp [LayerCfg.ofStack, LayerCfg.encrypted]
  have hcmp : (LayerCfg.ofStack scfg).compressed = true → scfg.compress.isSome = true := by
    obtain ⟨lvl, enc⟩ := scfg
    cases lvl <;> cases enc <;> simp [LayerCfg.ofStack, LayerCfg.compressed]
  apply archive_roundtrip P H utf8 ops C K rd hC hK hrd hrd0 (LayerCfg.ofStack scfg) cs hdr
  · intro he
    rw [← hinner (henc he)]
    exact hchunks (henc he)
  · exact fun hc => (hcs hc).1
  · intro hc
    obtain ⟨h1, h2⟩ := hsmall (hcmp hc)
    rw [(hcs hc).2] at h1
    exact compFits_of_length P _ cs h1 h2
  all_goals assumption

end

/-! ### Non-vacuity: the example ops written by the real writer stack with compression under
    encryption (chunk 4, tag 16, blocks of 8 bytes, the stored-only brotli codec, the example
    primitives of `EncFS`), three header bytes in front, opened and read through the reader stack. -/

section examples

set_option maxRecDepth 4096 in
theorem exOps_len427 : (Writer.run Params.prod exH exOps).2.2.length = 427 := by decide

def exStackCfg : StackCfg := ⟨some 5, true⟩

/-- the archive file: 3 header bytes, then what the writer stack produced (4499 bytes) -/
def exFile : Bytes :=
  [1, 2, 3] ++ (Stack.run EncFS.Pt exH EncFS.Ct Codec.stored exStackCfg Cut.whole Cut.whole exOps).dest

/-- the same ops through the compression-only stack (902 bytes) -/
def exFileComp : Bytes :=
  [1, 2, 3] ++ (Stack.run EncFS.Pt exH EncFS.Ct Codec.stored ⟨some 5, false⟩ Cut.whole Cut.whole exOps).dest

/-- open the file, then: list, open `a`, read it with buffers of 2, 100, 100 bytes, hash of `c`,
    size of `b` -/
def exCompOut : List ROut :=
  match openArchive EncFS.Pt EncFS.Ct Codec.stored id (fun _ => true) .comp 3 exFileComp with
  | .ok a =>
    (ArS.run EncFS.Pt (fun _ => true) a
      [.list, .getFile [97], .read 2, .read 100, .read 100, .getHash [99], .getSize [98]]).2
  | .error e => [.err e]

set_option maxRecDepth 1000000 in
/-- evaluated by the kernel through `Cur → RawR → CompRd` -/
example : exCompOut =
    [.names [[97], [98], [99]], .opened 3, .data [1, 2], .data [7], .data [],
     .hash ([5, 6] ++ List.replicate 30 0), .size 1] := by decide +kernel

/-- a one-file archive through the full stack, compression under encryption (1443 bytes; the kernel
    needs about a minute for the 4502 bytes of `exFile`, where the same history answers
    `names [a, b, c]`, `opened 3`, `[1, 2]`, `[7]`, `[]`, the hash of `c`, `size 1` — checked with
    `#eval`) -/
def exSmallOps : List Op := [.add [97] 3 [1, 2, 7], .finalize]
def exFileSmall : Bytes :=
  [1, 2, 3] ++ (Stack.run EncFS.Pt exH EncFS.Ct Codec.stored exStackCfg Cut.whole Cut.whole exSmallOps).dest
def exSmallOut : List ROut :=
  match openArchive EncFS.Pt EncFS.Ct Codec.stored id (fun _ => true) .compEnc 3 exFileSmall with
  | .ok a =>
    (ArS.run EncFS.Pt (fun _ => true) a
      [.list, .getFile [97], .read 2, .read 100, .read 100, .getHash [97]]).2
  | .error e => [.err e]

set_option maxRecDepth 1000000 in
/-- evaluated by the kernel through `Cur → RawR → EncRd → CompRd` -/
example : exSmallOut =
    [.names [[97]], .opened 3, .data [1, 2], .data [7], .data [],
     .hash ([1, 2, 7] ++ List.replicate 29 0)] := by decide +kernel

set_option maxRecDepth 1000000 in
theorem exPt_accepted : AllAccepted EncFS.Pt exH exOps := by unfold AllAccepted; decide +kernel
set_option maxRecDepth 1000000 in
theorem exPt_pos : (Writer.run EncFS.Pt exH exOps).2.2.length < U64 := by decide +kernel
set_option maxRecDepth 1000000 in
theorem exPt_foot : (encFooter (Writer.run EncFS.Pt exH exOps).1.names
    (Writer.run EncFS.Pt exH exOps).1.info).length - 4 < U32 := by decide +kernel
set_option maxRecDepth 1000000 in
theorem exPt_inner :
    (Stack.inner EncFS.Pt exH Codec.stored exStackCfg Cut.whole exOps).length = 899 := by decide +kernel

set_option maxRecDepth 1000000 in
theorem exFile_len : exFile.length < U64 := by decide +kernel

/-- `archive_roundtrip_file` applies to the example: every hypothesis is met -/
example :
    ∃ a₀ : ArS (ReaderStackT EncFS.Pt EncFS.Ct Codec.stored id .compEnc),
      openArchive EncFS.Pt EncFS.Ct Codec.stored id (fun _ => true) .compEnc 3 exFile = .ok a₀ ∧
      ∀ (h : List ROp) name content, (name, content) ∈ specOf exOps →
        (ArS.run EncFS.Pt (fun _ => true) a₀ (h ++ [.getHash name])).2 =
          (ArS.run EncFS.Pt (fun _ => true) a₀ h).2 ++ [.hash (exH content)] := by
  obtain ⟨a₀, h1, _, _, _, _, h6⟩ :=
    archive_roundtrip_file EncFS.Pt exH (fun _ => true) exOps EncFS.Ct Codec.stored id
      ⟨EncFS.hTagT⟩ Codec.stored_laws (fun m hm => ⟨hm, Nat.le_refl _⟩) rfl exH_len exOps_wf
      exPt_accepted exOps_last exOps_len exPt_pos exPt_foot exStackCfg Cut.whole Cut.whole [1, 2, 3]
      (fun _ => by rw [exPt_inner]; decide) (fun _ => ⟨by rw [exPt_inner]; decide, by decide⟩)
      exFile_len
  exact ⟨a₀, h1, fun h name content hm => (h6 h name content hm).2.1⟩

/-- and with the production constants, encryption only, any primitives with 16-byte tags, any
    header, any cut -/
example (C : EncPrims) (hTag : ∀ i c, (C.tag i c).length = Params.prod.tagLen) (hdr : Bytes)
    (hh : hdr.length < U32) (cutTop cutComp : Cut) :
    ∃ a₀ : ArS (ReaderStackT Params.prod C Codec.stored id .enc),
      openArchive Params.prod C Codec.stored id (fun _ => true) .enc hdr.length
        (hdr ++ (Stack.run Params.prod exH C Codec.stored ⟨none, true⟩ cutTop cutComp exOps).dest)
        = .ok a₀ ∧
      ∀ h : List ROp, (ArS.run Params.prod (fun _ => true) a₀ (h ++ [.list])).2 =
        (ArS.run Params.prod (fun _ => true) a₀ h).2 ++ [.names [[97], [98], [99]]] := by
  have hin : (Stack.inner Params.prod exH Codec.stored ⟨none, true⟩ cutTop exOps).length = 427 := by
    rw [C07.inner_plain]; exact exOps_len427
  have hfile : (hdr ++ (Stack.run Params.prod exH C Codec.stored ⟨none, true⟩ cutTop cutComp
      exOps).dest).length < U64 := by
    obtain ⟨cs, _, hdest, _⟩ := stack_body_inner Params.prod exH C Codec.stored ⟨none, true⟩ cutTop
      cutComp exOps exOps_accepted exOps_last
    have hl : (sealS Params.prod C (Writer.run Params.prod exH exOps).2.2).length = 427 + 16 := by
      rw [sealS_length Params.prod C hTag]; unfold nLast; rw [exOps_len427]; decide
    rw [hdest]
    simp only [sealedBody, LayerCfg.ofStack, List.length_append, hl]
    have : U32 + 443 < U64 := by decide
    omega
  obtain ⟨a₀, h1, _, _, _, h5, _⟩ :=
    archive_roundtrip_file Params.prod exH (fun _ => true) exOps C Codec.stored id
      ⟨hTag⟩ Codec.stored_laws (fun m hm => ⟨hm, Nat.le_refl _⟩) rfl exH_len exOps_wf
      exOps_accepted exOps_last exOps_len exOps_pos exOps_foot ⟨none, true⟩ cutTop cutComp hdr
      (fun _ => by rw [hin]; decide) (fun h => by simp at h) hfile
  exact ⟨a₀, h1, h5⟩

end examples

end MlaModel.C01

/-
  C14 — after a flush, what was appended so far survives a cut (block level, then through the
  layers).

  Setting: `ops = pre ++ .flush :: rest` satisfies the hypotheses of `C01.blocks`;
  `S := (Writer.runFrom P H WState.init pre).2.2` is the plaintext block stream emitted by the calls
  made before the flush.  It is a prefix of the whole stream (`flushed_prefix`) and it ends at a
  block boundary, so repair of exactly `S` (what the destination holds if the process dies right
  after the flush and the layers are transparent) recovers everything:

    * `flush_blocks` : `Repair.convert P H utf8 S false` stops with `UnexpectedEOFOnNextBlock`, its
        calls are accepted, and `specOf` of its output is `specOf pre` — for every file started before
        the flush exactly the bytes appended to it before the flush, same names, same order; the files
        still open at the flush are the unfinished ones, the files ended before it are complete.
        (`repair_prefix`: the same for any accepted, not finalized call sequence `pre`.)

  Through the layers — what the fail-safe stack delivers from the destination bytes at the flush:
    * (i)  no layer: the destination holds `S` itself: `flush_blocks`.
    * (ii) encryption: the layer was given `S` in any pieces; `enc_unauth`: the unauthenticated
        fail-safe decryptor delivers exactly `S`, so repair recovers everything (`enc_unauth_repair`);
        `enc_auth`: the authenticated one delivers `A` with `S.take (ctr * chunk) <+: A <+: S` (every
        chunk whose tag has been emitted), so its repair is between the repairs of those two
        (`enc_auth_repair`).
    * (iii) compression: the layer was given `S` by `write_all`s then `flush`; `comp_flush`: the
        fail-safe decompressor delivers exactly `S` (`comp_flush_repair`).  Uses the stronger writer
        invariant of Proofs/CompressWriterStreams.lean (closed blocks are finished encoder streams).
    * (iv) compression over encryption: `comp_enc_flush`, `comp_enc_flush_repair` (unauthenticated
        decryption, then fail-safe decompression, deliver `S`).
-/
import MlaModel.Theorems.C05
import MlaModel.Theorems.C09
import MlaModel.Theorems.EncryptFailSafe
import MlaModel.Theorems.CompressFailSafe
import MlaModel.Theorems.C01Compress
import MlaModel.Proofs.CompressWriterStreams
import MlaModel.Theorems.CodecStored
namespace MlaModel.C14
open MlaModel

section
variable (P : Params) (H : Bytes → Bytes) (utf8 : Bytes → Bool)

/-- **repair of what an accepted, not finalized call sequence emitted** (a cut at a block boundary):
    everything appended so far is recovered. -/
theorem repair_prefix (pre : List Op)
    (hH : ∀ b, (H b).length = hashLen) (hwf : ∀ op ∈ pre, op.WF utf8)
    (hacc : ∀ r ∈ (Writer.runFrom P H WState.init pre).2.1, r.isOk = true)
    (hnf : (Writer.runFrom P H WState.init pre).1.finalized = false)
    (hlen : pre.length < U64) (hpos : (Writer.runFrom P H WState.init pre).2.2.length < U64)
    (endErr : Bool) :
    let S := (Writer.runFrom P H WState.init pre).2.2
    let sp := (Writer.runFrom P H WState.init pre).1
    let o := Repair.convert P H utf8 S endErr
    o.stop = (if endErr then .errNextBlock .io else .eofNextBlock) ∧
    AllAccepted P H o.ops ∧ o.ops.getLast? = some .finalize ∧ (∀ op ∈ o.ops, op.WF utf8) ∧
    specOf o.ops = specOf pre ∧
    (∀ n id, (n, id) ∈ sp.names → (n ∈ o.unfinished ↔ alookup id sp.opened ≠ none)) ∧
    (o.unfinished = [] ↔ sp.opened = []) := by
  intro S sp o
  obtain ⟨nb, hnb, hinv⟩ := run_inv (P := P) (H := H) (utf8 := utf8) hH pre WState.init [] {}
    (Inv.init P H utf8) hwf hacc hnf
  simp only [List.nil_append] at hinv
  have hS : S = encodeAll nb := hnb
  have hnid : sp.nextId ≤ U64 := by
    have := spec_next_le pre {}
    rw [hinv.spn] at this
    have h0 : ({} : SpecState).next = 0 := rfl
    show (Writer.runFrom P H WState.init pre).1.nextId ≤ U64
    omega
  have hoks := C01.blocks_wf hinv hnid (by rw [← hS]; exact hpos)
  have hnl := C01.length_le_encodeAll nb
  obtain ⟨st', hloop, hrinv⟩ :=
    loop_boundary (P := P) (H := H) (utf8 := utf8) endErr nb [] ⟨[], []⟩ {}
      ⟨sp.names, sp.opened⟩ (S.length + 1) (RInv.init P H utf8) PSt.WF.init
      (fun b hb => (hoks b hb).1) hinv.proto (by rw [hS]; omega)
  rw [← hS] at hloop
  simp only [List.nil_append] at hrinv
  obtain ⟨c1, c2, c3, c4, c5, c6, c7⟩ :=
    convert_of_loop hrinv (protoRun_wf PSt.WF.init hinv.proto) S endErr _ hloop
  refine ⟨c1, c2, c3, c4, ?_, c6, c7⟩
  rw [c5]
  exact (C01.specOf_eq hinv).symm

variable (pre rest : List Op)
  (hH : ∀ b, (H b).length = hashLen) (hwf : ∀ op ∈ pre ++ .flush :: rest, op.WF utf8)
  (hacc : AllAccepted P H (pre ++ .flush :: rest))
  (hfin : (pre ++ .flush :: rest).getLast? = some .finalize)
  (hlen : (pre ++ .flush :: rest).length < U64)
  (hpos : (Writer.run P H (pre ++ .flush :: rest)).2.2.length < U64)

/-- what the calls before the flush emitted is a prefix of the whole stream -/
theorem flushed_prefix :
    (Writer.runFrom P H WState.init pre).2.2 <+: (Writer.run P H (pre ++ .flush :: rest)).2.2 := by
  unfold Writer.run
  rw [runFrom_append]
  exact List.prefix_append _ _

include hacc hfin in
/-- the writer was not finalized at the flush (the closing `finalize` comes later and is accepted) -/
theorem not_finalized_at_flush : (Writer.runFrom P H WState.init pre).1.finalized = false := by
  cases hf : (Writer.runFrom P H WState.init pre).1.finalized with
  | false => rfl
  | true =>
    exfalso
    have hlast : (Op.flush :: rest).getLast? = some .finalize := by
      rw [List.getLast?_append] at hfin
      cases hl : (Op.flush :: rest).getLast? with
      | none => simp at hl
      | some x => rw [hl] at hfin; simpa using hfin
    obtain ⟨mid, hmid⟩ := List.getLast?_eq_some_iff.1 hlast
    unfold AllAccepted Writer.run at hacc
    rw [hmid, runFrom_append, runFrom_append] at hacc
    have hst : (Writer.runFrom P H (Writer.runFrom P H WState.init pre).1 mid).1 =
        (Writer.runFrom P H WState.init pre).1 := runFrom_of_finalized P H _ mid hf
    have := hacc (Writer.step P H (Writer.runFrom P H WState.init pre).1 .finalize).2.1 (by
      simp only [List.mem_append]
      right; right
      rw [hst]; simp [Writer.runFrom])
    rw [C09.after_finalize P H _ .finalize hf (by simp)] at this
    simp [Res.isOk] at this

include hH hwf hacc hfin hlen hpos in
/-- **C14.flush_blocks** — repair of the block stream emitted before a flush recovers, for every
    file started before the flush, exactly the bytes appended to it before the flush. -/
theorem flush_blocks :
    let S := (Writer.runFrom P H WState.init pre).2.2
    let sp := (Writer.runFrom P H WState.init pre).1
    let o := Repair.convert P H utf8 S false
    o.stop = .eofNextBlock ∧
    AllAccepted P H o.ops ∧ o.ops.getLast? = some .finalize ∧ (∀ op ∈ o.ops, op.WF utf8) ∧
    specOf o.ops = specOf pre ∧
    (∀ n id, (n, id) ∈ sp.names → (n ∈ o.unfinished ↔ alookup id sp.opened ≠ none)) ∧
    (o.unfinished = [] ↔ sp.opened = []) := by
  have hpre := (flushed_prefix P H pre rest).length_le
  have hacc' : ∀ r ∈ (Writer.runFrom P H WState.init pre).2.1, r.isOk = true := by
    intro r hr
    apply hacc
    unfold Writer.run
    rw [runFrom_append]
    exact List.mem_append_left _ hr
  have := repair_prefix P H utf8 pre hH (fun op hop => hwf op (List.mem_append_left _ hop)) hacc'
    (not_finalized_at_flush P H pre rest hacc hfin)
    (by simp only [List.length_append] at hlen; omega) (by omega) false
  simpa using this

end

/-! ### through the layers -/

section
variable (P : Params) (H : Bytes → Bytes) (utf8 : Bytes → Bool)

/-- (ii) encryption, unauthenticated: the fail-safe decryptor delivers exactly what the layer was
    given before the flush, in whatever pieces -/
theorem enc_unauth (C : EncPrims) (hTag : ∀ i c, (C.tag i c).length = P.tagLen)
    (S : Bytes) (pieces : List Bytes) (hp : pieces.flatten = S) :
    let out := (encWritePieces P C pieces).2
    fsUnauth P C (out.length + 1) 0 out = S := by
  intro out
  rw [← hp]
  exact EncFS.online_unauth P C hTag pieces

/-- (ii) encryption, authenticated: every chunk whose tag has been emitted is delivered, and nothing
    that was not written -/
theorem enc_auth (C : EncPrims) (hTag : ∀ i c, (C.tag i c).length = P.tagLen)
    (S : Bytes) (pieces : List Bytes) (hp : pieces.flatten = S) :
    let out := (encWritePieces P C pieces).2
    S.take ((encWritePieces P C pieces).1.ctr * P.chunk) <+: fsAuth P C out ∧ fsAuth P C out <+: S := by
  intro out
  refine ⟨by rw [← hp]; exact EncFS.online_auth P C hTag pieces, ?_⟩
  have := EncFS.auth_prefix_unauth P C out
  rw [enc_unauth P C hTag S pieces hp] at this
  exact this

/-- (iii) compression: after `write_all`s of `S` (and flushes) and a final `flush`, the fail-safe
    decompressor delivers exactly `S` from what has been emitted -/
theorem comp_flush (K : Codec) (hK : K.Laws) (level : Nat) (acts : List LAct) :
    let out := (compRun P K level (acts ++ [.flush])).2
    (fsDecomp P K (out.length + 1) out).1 = LAct.written acts := by
  intro out
  rcases compRun_flush_streams P K level acts with ⟨hp, ho⟩ | ⟨done, lvl, eacts, ho, hdone, hrest, hle⟩
  · have : out = [] := ho
    rw [this, hp]
    simp [fsDecomp]
  · have : out = done.flatten ++ (K.runActs (K.einit lvl) (eacts ++ [.flush])).2 := ho
    rw [this]
    exact CompFS.L5_flush' P K hK (LAct.written acts) done lvl eacts hdone hrest hle

/-- (iv) compression over encryption: the compressed bytes emitted up to the flush are given to the
    encryption layer in any pieces; unauthenticated decryption followed by fail-safe decompression
    delivers exactly what the compression layer was given -/
theorem comp_enc_flush (K : Codec) (hK : K.Laws) (level : Nat) (acts : List LAct)
    (C : EncPrims) (hTag : ∀ i c, (C.tag i c).length = P.tagLen) (pieces : List Bytes)
    (hp : pieces.flatten = (compRun P K level (acts ++ [.flush])).2) :
    let out := (encWritePieces P C pieces).2
    let mid := fsUnauth P C (out.length + 1) 0 out
    (fsDecomp P K (mid.length + 1) mid).1 = LAct.written acts := by
  intro out mid
  have hm : mid = (compRun P K level (acts ++ [.flush])).2 := enc_unauth P C hTag _ pieces hp
  rw [hm]
  exact comp_flush P K hK level acts

variable (pre rest : List Op)
  (hH : ∀ b, (H b).length = hashLen) (hwf : ∀ op ∈ pre ++ .flush :: rest, op.WF utf8)
  (hacc : AllAccepted P H (pre ++ .flush :: rest))
  (hfin : (pre ++ .flush :: rest).getLast? = some .finalize)
  (hlen : (pre ++ .flush :: rest).length < U64)
  (hpos : (Writer.run P H (pre ++ .flush :: rest)).2.2.length < U64)
include hH hwf hacc hfin hlen hpos

/-- (ii) encryption, unauthenticated repair of the flushed destination bytes recovers everything
    appended before the flush -/
theorem enc_unauth_repair (C : EncPrims) (hTag : ∀ i c, (C.tag i c).length = P.tagLen)
    (pieces : List Bytes) (hp : pieces.flatten = (Writer.runFrom P H WState.init pre).2.2) :
    let out := (encWritePieces P C pieces).2
    let o := Repair.convert P H utf8 (fsUnauth P C (out.length + 1) 0 out) false
    o.stop = .eofNextBlock ∧ AllAccepted P H o.ops ∧ specOf o.ops = specOf pre := by
  intro out o
  have h := flush_blocks P H utf8 pre rest hH hwf hacc hfin hlen hpos
  have hd : fsUnauth P C (out.length + 1) 0 out = (Writer.runFrom P H WState.init pre).2.2 :=
    enc_unauth P C hTag _ pieces hp
  simp only [o, hd]
  exact ⟨h.1, h.2.1, h.2.2.2.2.1⟩

/-- (ii) encryption, authenticated repair: between the repair of the chunks whose tag has been
    emitted and the repair of everything appended before the flush -/
theorem enc_auth_repair (C : EncPrims) (hTag : ∀ i c, (C.tag i c).length = P.tagLen)
    (pieces : List Bytes) (hp : pieces.flatten = (Writer.runFrom P H WState.init pre).2.2) :
    let S := (Writer.runFrom P H WState.init pre).2.2
    let out := (encWritePieces P C pieces).2
    let oA := Repair.convert P H utf8 (fsAuth P C out) false
    let oLow := Repair.convert P H utf8 (S.take ((encWritePieces P C pieces).1.ctr * P.chunk)) false
    (∀ name c, (name, c) ∈ specOf oLow.ops → ∃ c', (name, c') ∈ specOf oA.ops ∧ c <+: c') ∧
    (∀ name c, (name, c) ∈ specOf oA.ops → ∃ c', (name, c') ∈ specOf pre ∧ c <+: c') := by
  intro S out oA oLow
  obtain ⟨hlow, hup⟩ := enc_auth P C hTag S pieces hp
  have hSd : C02.Delivered (Writer.run P H (pre ++ .flush :: rest)).2.2 S :=
    Or.inl (flushed_prefix P H pre rest)
  have hAd : C02.Delivered (Writer.run P H (pre ++ .flush :: rest)).2.2 (fsAuth P C out) :=
    Or.inl (hup.trans (flushed_prefix P H pre rest))
  have hfb := flush_blocks P H utf8 pre rest hH hwf hacc hfin hlen hpos
  refine ⟨?_, ?_⟩
  · exact C05.mono P H utf8 _ hH hwf hacc hfin hlen hpos _ _ false false hlow hAd
  · intro name c hc
    have := C05.mono P H utf8 _ hH hwf hacc hfin hlen hpos _ _ false false hup hSd name c hc
    rw [hfb.2.2.2.2.1] at this
    exact this

/-- (iii) compression: repair of what the fail-safe decompressor delivers from the flushed bytes -/
theorem comp_flush_repair (K : Codec) (hK : K.Laws) (level : Nat) (acts : List LAct)
    (ha : LAct.written acts = (Writer.runFrom P H WState.init pre).2.2) :
    let out := (compRun P K level (acts ++ [.flush])).2
    let o := Repair.convert P H utf8 (fsDecomp P K (out.length + 1) out).1 false
    o.stop = .eofNextBlock ∧ AllAccepted P H o.ops ∧ specOf o.ops = specOf pre := by
  intro out o
  have h := flush_blocks P H utf8 pre rest hH hwf hacc hfin hlen hpos
  have hd : (fsDecomp P K (out.length + 1) out).1 = (Writer.runFrom P H WState.init pre).2.2 := by
    rw [← ha]; exact comp_flush P K hK level acts
  simp only [o, hd]
  exact ⟨h.1, h.2.1, h.2.2.2.2.1⟩

/-- (iv) compression over encryption -/
theorem comp_enc_flush_repair (K : Codec) (hK : K.Laws) (level : Nat) (acts : List LAct)
    (ha : LAct.written acts = (Writer.runFrom P H WState.init pre).2.2)
    (C : EncPrims) (hTag : ∀ i c, (C.tag i c).length = P.tagLen) (pieces : List Bytes)
    (hp : pieces.flatten = (compRun P K level (acts ++ [.flush])).2) :
    let out := (encWritePieces P C pieces).2
    let mid := fsUnauth P C (out.length + 1) 0 out
    let o := Repair.convert P H utf8 (fsDecomp P K (mid.length + 1) mid).1 false
    o.stop = .eofNextBlock ∧ AllAccepted P H o.ops ∧ specOf o.ops = specOf pre := by
  intro out mid o
  have h := flush_blocks P H utf8 pre rest hH hwf hacc hfin hlen hpos
  have hd : (fsDecomp P K (mid.length + 1) mid).1 = (Writer.runFrom P H WState.init pre).2.2 := by
    rw [← ha]; exact comp_enc_flush P K hK level acts C hTag pieces hp
  simp only [o, hd]
  exact ⟨h.1, h.2.1, h.2.2.2.2.1⟩

end

/-! ### Non-vacuity: the example of C01 has a `flush` as its ninth call -/

def exPre : List Op :=
  [.start [97], .start [98], .append 0 2 [1, 2, 3], .append 1 1 [9], .append 0 1 [7],
   .add [99] 2 [5, 6], .append 1 0 [], .end_ 1]
def exRest : List Op := [.end_ 0, .finalize]

example : C01.exOps = exPre ++ .flush :: exRest := rfl

open C01 in
set_option maxRecDepth 8192 in
/-- evaluated: at the flush, `b` and `c` are complete, `a` is still open -/
example :
    let o := Repair.convert Params.prod exH (fun _ => true)
      (Writer.runFrom Params.prod exH WState.init exPre).2.2 false
    specOf o.ops = [([97], [1, 2, 7]), ([98], [9]), ([99], [5, 6])] ∧ o.unfinished = [[97]] ∧
      o.stop = .eofNextBlock ∧ specOf exPre = [([97], [1, 2, 7]), ([98], [9]), ([99], [5, 6])] :=
  ⟨rfl, rfl, rfl, rfl⟩

open C01 in
/-- `flush_blocks` applies -/
example :
    specOf (Repair.convert Params.prod exH (fun _ => true)
      (Writer.runFrom Params.prod exH WState.init exPre).2.2 false).ops = specOf exPre :=
  (flush_blocks Params.prod exH (fun _ => true) exPre exRest exH_len exOps_wf exOps_accepted
    exOps_last exOps_len exOps_pos).2.2.2.2.1

/-- `comp_flush` applies with the stored-only brotli codec (and is checked by evaluation): 11 bytes,
    blocks of 8 — one closed block and an open one -/
example :
    let out := (compRun C01.exP Codec.stored 5 (C01.exActs ++ [.flush])).2
    (fsDecomp C01.exP Codec.stored (out.length + 1) out).1 = [1, 2, 3, 4, 5, 6, 7, 8, 9, 10, 11] :=
  comp_flush C01.exP Codec.stored Codec.stored_laws 5 C01.exActs

example :
    let out := (compRun C01.exP Codec.stored 5 (C01.exActs ++ [.flush])).2
    (fsDecomp C01.exP Codec.stored (out.length + 1) out).1 = [1, 2, 3, 4, 5, 6, 7, 8, 9, 10, 11] := by
  decide

/-- `enc_unauth` / `enc_auth` apply (chunk 4, the example primitives of `EncFS`): 6 bytes in pieces
    of 1, 3 and 2 bytes; one chunk is closed (its tag is emitted by the write that follows it) -/
example :
    let out := (encWritePieces EncFS.Pt EncFS.Ct [[1], [2, 3, 4], [5, 6]]).2
    fsUnauth EncFS.Pt EncFS.Ct (out.length + 1) 0 out = [1, 2, 3, 4, 5, 6] ∧
    [1, 2, 3, 4] <+: fsAuth EncFS.Pt EncFS.Ct out ∧ fsAuth EncFS.Pt EncFS.Ct out <+: [1, 2, 3, 4, 5, 6] :=
  ⟨enc_unauth EncFS.Pt EncFS.Ct EncFS.hTagT _ _ rfl,
   (enc_auth EncFS.Pt EncFS.Ct EncFS.hTagT [1, 2, 3, 4, 5, 6] [[1], [2, 3, 4], [5, 6]] rfl).1,
   (enc_auth EncFS.Pt EncFS.Ct EncFS.hTagT [1, 2, 3, 4, 5, 6] [[1], [2, 3, 4], [5, 6]] rfl).2⟩

end MlaModel.C14

/-
  C04 at the level of the archive file: repair in its default (authenticated) mode over an encrypted
  archive body corrupted ANYWHERE after the data bytes of chunk 0 (not merely cut), through the whole
  fail-safe stack — compression below encryption included.

  Setting (as in `C02Stack`): `ops` satisfies the hypotheses of `C01.blocks`, `S` is its block stream,
  `cfg ∈ {.enc, .compEnc}` (`cfg.encrypted = true`), `encPlain P cfg S cs` is what the encryption
  layer protects (`S`, or the compressed blocks `cs` followed by the sizes table), `sealedBody P C cfg
  S cs = sealS P C (encPlain …)` the genuine archive body.  The damaged body is ANY byte string `e`
  with
    * `Unforged P C (encPlain P cfg S cs) e`   integrity (`Proofs/EncryptTamper.lean`): a chunk slot of
                                               `e` that verifies is the genuine chunk of that index;
    * `e.take chunk = body.take chunk`         the DATA bytes of chunk 0 are genuine (the fail-safe
                                               reader never verifies chunk 0: known finding D15;
                                               without it the property is false, `C04.not_full`).

    * `corrupt_eq_cut`   the SHARPEST form: the fail-safe stack delivers from `e` EXACTLY (bytes and
                         error flag) what it delivers from the genuine body cut at the slot boundary
                         `cutAt P C e` before the first slot `≥ 1` of `e` that fails.  A corruption is
                         indistinguishable from a truncation.  (`corrupt_eq_cut_enc`: the encryption
                         layer alone; `altered_eq_cut`: `e = k genuine slots ++ tail`, first slot of
                         `tail` ≠ genuine chunk `k`: what the cut before slot `k` gives.)
    * `delivered_corrupt` hence `Delivered S …`: a prefix of the genuine block stream, or all of it
                         followed by junk (`C02.delivered_stack` at that cut).
    * `archive_files`    hence C02 (a)–(d) for the repair of `e`.
    * `archive_files_file`, `corrupt_eq_cut_file`: the same about the bytes `dest` the real writer
                         stack (`Stack.run`, `scfg.encrypt = true`, any cut of the layers' writes) put
                         after the header; the integrity hypothesis is about what the stack handed to
                         the encryption layer (`Stack.inner`).
    * `byte_altered_files` the literal special case: ONE byte of `dest` at an offset `≥ chunk` replaced
                         by any value, its chunk slot no longer verifying (`set_hyps`: then both
                         hypotheses hold — `unforged_set`, `unforged_of_slots` in Proofs/C04Stack.lean:
                         damage confined to slots that fail is `Unforged`).
  No side condition on `P.chunk`, the tag length or the length of the protected stream is needed: when
  the protected stream is shorter than one chunk the cut `cutAt P C e ≥ chunk + tagLen` keeps the whole
  genuine body, and the equality still holds (`fsAuth_unforged_short`).
-/
import MlaModel.Proofs.C04Stack
import MlaModel.Theorems.C04
import MlaModel.Theorems.C02Stack
import MlaModel.Theorems.C01Stack
namespace MlaModel.C04
open MlaModel

/-- the slot boundary before the first chunk slot `≥ 1` of `e` that does not authenticate -/
def cutAt (P : Params) (C : EncPrims) (e : Bytes) : Nat := stopIdx P C e * (P.chunk + P.tagLen)

/-! ## 1. Corruption = cut -/

section
variable (P : Params) (C : EncPrims) (hTag : ∀ i c, (C.tag i c).length = P.tagLen)
include hTag

/-- **C04.corrupt_eq_cut_enc** — the encryption layer alone -/
theorem corrupt_eq_cut_enc (p e : Bytes) (hU : Unforged P C p e)
    (h0 : e.take P.chunk = (sealS P C p).take P.chunk) :
    fsAuth P C e = fsAuth P C ((sealS P C p).take (cutAt P C e)) :=
  fsAuth_corrupt_eq_cut P C hTag p e hU h0

variable (K : Codec) (cfg : LayerCfg) (hcfg : cfg.encrypted = true) (S : Bytes) (cs : List Bytes)
include hcfg

/-- **C04.corrupt_eq_cut** — altering the archive body anywhere after the data of chunk 0 gives,
    through the whole fail-safe stack in authenticated mode, exactly what cutting the genuine body
    before the first chunk that fails gives (delivered bytes AND error flag).  Any block stream `S`,
    any compressed blocks `cs`, any codec: no hypothesis on the layers below encryption. -/
theorem corrupt_eq_cut (e : Bytes) (hU : Unforged P C (encPlain P cfg S cs) e)
    (h0 : e.take P.chunk = (sealedBody P C cfg S cs).take P.chunk) :
    failsafeDeliver P C K cfg .authenticated e =
      failsafeDeliver P C K cfg .authenticated ((sealedBody P C cfg S cs).take (cutAt P C e)) := by
  rw [sealedBody_encrypted P C cfg hcfg] at h0 ⊢
  exact failsafeDeliver_congr_auth P C K cfg hcfg _ _
    (fsAuth_corrupt_eq_cut P C hTag _ e hU h0)

/-- **C04.altered_eq_cut** — the literal form: `k ≥ 1` whole genuine slots followed by ANY `tail`
    whose first slot is not the genuine chunk `k` (the whole being `Unforged`): exactly what the
    body cut before slot `k` gives. -/
theorem altered_eq_cut (k : Nat) (hk1 : 1 ≤ k) (hk : k ≤ nLast P (encPlain P cfg S cs)) (tail : Bytes)
    (hU : Unforged P C (encPlain P cfg S cs)
      ((sealedBody P C cfg S cs).take (k * (P.chunk + P.tagLen)) ++ tail))
    (hne : tail.take (P.chunk + P.tagLen) ≠ scChunk P C (encPlain P cfg S cs) k) :
    failsafeDeliver P C K cfg .authenticated
        ((sealedBody P C cfg S cs).take (k * (P.chunk + P.tagLen)) ++ tail) =
      failsafeDeliver P C K cfg .authenticated
        ((sealedBody P C cfg S cs).take (k * (P.chunk + P.tagLen))) := by
  rw [sealedBody_encrypted P C cfg hcfg] at hU ⊢
  apply failsafeDeliver_congr_auth P C K cfg hcfg
  rw [stop_altered P C hTag _ k hk1 hk tail hU hne]
  have h := fsAuth_stop P C hTag (encPlain P cfg S cs) k hk1 hk []
    (by simpa using openChunk_nil P C k)
  rw [List.append_nil] at h
  exact h.symm

end

/-! ## 2. What is delivered, and what repair makes of it -/

section
variable (P : Params) (H : Bytes → Bytes) (utf8 : Bytes → Bool) (ops : List Op)
  (hH : ∀ b, (H b).length = hashLen) (hwf : ∀ op ∈ ops, op.WF utf8)
  (hacc : AllAccepted P H ops) (hfin : ops.getLast? = some .finalize)
  (hlen : ops.length < U64) (hpos : (Writer.run P H ops).2.2.length < U64)
  (C : EncPrims) (K : Codec) (hK : K.Laws) (hTag : ∀ i c, (C.tag i c).length = P.tagLen)
  (cfg : LayerCfg) (hcfg : cfg.encrypted = true) (cs : List Bytes)
  (hcs : cfg.compressed = true → CompFS.IsEncoded P K (Writer.run P H ops).2.2 cs)

include hK hTag hcfg hcs in
/-- **C04.delivered_corrupt** — whatever `Unforged` bytes with genuine chunk-0 data stand in for the
    archive body, the fail-safe stack in authenticated mode delivers a prefix of the genuine block
    stream, or all of it followed by junk. -/
theorem delivered_corrupt (e : Bytes)
    (hU : Unforged P C (encPlain P cfg (Writer.run P H ops).2.2 cs) e)
    (h0 : e.take P.chunk = (sealedBody P C cfg (Writer.run P H ops).2.2 cs).take P.chunk) :
    C02.Delivered (Writer.run P H ops).2.2 (failsafeDeliver P C K cfg .authenticated e).1 := by
  rw [corrupt_eq_cut P C hTag K cfg hcfg _ cs e hU h0]
  exact C02.delivered_stack P H ops C K hK hTag cfg .authenticated cs hcs _

include hH hwf hacc hfin hlen hpos hK hTag hcfg hcs in
/-- **C04.archive_files** — C02 (a)–(d) for the repair (default mode) of an arbitrarily corrupted
    encrypted archive body: (a) the calls of repair are accepted, end with `finalize`, are well
    formed; (b) every recovered file is an original file with a prefix of its content, complete
    unless reported unfinished; (c) names are distinct; (d) if repair reports the end-of-archive
    marker the output is exactly the original. -/
theorem archive_files (e : Bytes)
    (hU : Unforged P C (encPlain P cfg (Writer.run P H ops).2.2 cs) e)
    (h0 : e.take P.chunk = (sealedBody P C cfg (Writer.run P H ops).2.2 cs).take P.chunk) :
    let dl := failsafeDeliver P C K cfg .authenticated e
    let o := Repair.convert P H utf8 dl.1 dl.2
    (AllAccepted P H o.ops ∧ o.ops.getLast? = some .finalize ∧ (∀ op ∈ o.ops, op.WF utf8)) ∧
    (∀ name c', (name, c') ∈ specOf o.ops →
      ∃ c, (name, c) ∈ specOf ops ∧ c' <+: c ∧ (name ∉ o.unfinished → c' = c)) ∧
    ((specOf o.ops).map (·.1)).Nodup ∧
    (o.stop = .eoad → specOf o.ops = specOf ops ∧ o.unfinished = []) := by
  intro dl o
  have hd := delivered_corrupt P H ops C K hK hTag cfg hcfg cs hcs e hU h0
  exact ⟨C02.accepted P H utf8 ops hH hwf hacc hfin hlen hpos dl.1 dl.2 hd,
    C02.sound P H utf8 ops hH hwf hacc hfin hlen hpos dl.1 dl.2 hd,
    C02.names_nodup P H utf8 ops hH hwf hacc hfin hlen hpos dl.1 dl.2 hd,
    C02.eoad_complete P H utf8 ops hH hwf hacc hfin hlen hpos dl.1 dl.2 hd⟩

end

/-! ## 3. About the bytes of the archive file -/

theorem ofStack_encrypted (scfg : StackCfg) (henc : scfg.encrypt = true) :
    (LayerCfg.ofStack scfg).encrypted = true := by
  obtain ⟨lvl, enc⟩ := scfg
  cases lvl <;> cases enc <;> simp_all [LayerCfg.ofStack, LayerCfg.encrypted]

section
variable (P : Params) (H : Bytes → Bytes) (utf8 : Bytes → Bool) (ops : List Op)
  (hH : ∀ b, (H b).length = hashLen) (hwf : ∀ op ∈ ops, op.WF utf8)
  (hacc : AllAccepted P H ops) (hfin : ops.getLast? = some .finalize)
  (hlen : ops.length < U64) (hpos : (Writer.run P H ops).2.2.length < U64)
  (C : EncPrims) (K : Codec) (hK : K.Laws) (hTag : ∀ i c, (C.tag i c).length = P.tagLen)
  (scfg : StackCfg) (henc : scfg.encrypt = true) (cutTop cutComp : Cut)

include hacc hfin hTag henc in
/-- **C04.corrupt_eq_cut_file** — `dest` what the real writer stack put after the header, `e` any
    `Unforged` corruption of it (with respect to what the stack handed to the encryption layer) that
    keeps the data bytes of chunk 0: the fail-safe stack delivers from `e` exactly what it delivers
    from `dest` cut before the first chunk of `e` that fails. -/
theorem corrupt_eq_cut_file (e : Bytes)
    (hU : Unforged P C (Stack.inner P H K scfg cutTop ops) e)
    (h0 : e.take P.chunk = (Stack.run P H C K scfg cutTop cutComp ops).dest.take P.chunk) :
    failsafeDeliver P C K (LayerCfg.ofStack scfg) .authenticated e =
      failsafeDeliver P C K (LayerCfg.ofStack scfg) .authenticated
        ((Stack.run P H C K scfg cutTop cutComp ops).dest.take (cutAt P C e)) := by
  obtain ⟨cs, _, hdest, hinner⟩ := C02.stack_body P H C K scfg cutTop cutComp ops hacc hfin
  rw [hdest] at h0 ⊢
  rw [hinner henc] at hU
  exact corrupt_eq_cut P C hTag K _ (ofStack_encrypted scfg henc) _ cs e hU h0

include hH hwf hacc hfin hlen hpos hK hTag henc in
/-- **C04.archive_files_file** — C02 (a)–(d) for the repair, in its default mode, of ANY `Unforged`
    corruption `e` (chunk-0 data kept) of the bytes the real writer stack wrote after the header,
    for every stack configuration with encryption (compression below it or not), any cut of the
    layers' output into `write_all` calls. -/
theorem archive_files_file (e : Bytes)
    (hU : Unforged P C (Stack.inner P H K scfg cutTop ops) e)
    (h0 : e.take P.chunk = (Stack.run P H C K scfg cutTop cutComp ops).dest.take P.chunk) :
    let dl := failsafeDeliver P C K (LayerCfg.ofStack scfg) .authenticated e
    let o := Repair.convert P H utf8 dl.1 dl.2
    (AllAccepted P H o.ops ∧ o.ops.getLast? = some .finalize ∧ (∀ op ∈ o.ops, op.WF utf8)) ∧
    (∀ name c', (name, c') ∈ specOf o.ops →
      ∃ c, (name, c) ∈ specOf ops ∧ c' <+: c ∧ (name ∉ o.unfinished → c' = c)) ∧
    ((specOf o.ops).map (·.1)).Nodup ∧
    (o.stop = .eoad → specOf o.ops = specOf ops ∧ o.unfinished = []) := by
  obtain ⟨cs, hcs, hdest, hinner⟩ := C02.stack_body P H C K scfg cutTop cutComp ops hacc hfin
  rw [hdest] at h0
  rw [hinner henc] at hU
  exact archive_files P H utf8 ops hH hwf hacc hfin hlen hpos C K hK hTag _
    (ofStack_encrypted scfg henc) cs hcs e hU h0

end

/-! ## 4. A literal special case: one byte of the archive file replaced -/

section
variable (P : Params) (H : Bytes → Bytes) (utf8 : Bytes → Bool) (ops : List Op)
  (hH : ∀ b, (H b).length = hashLen) (hwf : ∀ op ∈ ops, op.WF utf8)
  (hacc : AllAccepted P H ops) (hfin : ops.getLast? = some .finalize)
  (hlen : ops.length < U64) (hpos : (Writer.run P H ops).2.2.length < U64)
  (C : EncPrims) (K : Codec) (hK : K.Laws) (hTag : ∀ i c, (C.tag i c).length = P.tagLen)
  (scfg : StackCfg) (henc : scfg.encrypt = true) (cutTop cutComp : Cut)

include hacc hfin henc in
/-- with encryption on, what the writer stack puts after the header is the sealed stream of what it
    handed to the encryption layer -/
theorem dest_sealS : (Stack.run P H C K scfg cutTop cutComp ops).dest =
    sealS P C (Stack.inner P H K scfg cutTop ops) := by
  obtain ⟨cs, _, hdest, hinner⟩ := C02.stack_body P H C K scfg cutTop cutComp ops hacc hfin
  rw [hdest, hinner henc, sealedBody_encrypted P C _ (ofStack_encrypted scfg henc)]

include hacc hfin hTag henc in
/-- the hypotheses of `archive_files_file` hold for the archive body with byte `i ≥ chunk` replaced
    by ANY value, as soon as the chunk slot that byte lies in no longer verifies (which is what the
    authentication tag is for) -/
theorem set_hyps (i : Nat) (v : UInt8) (hi : P.chunk ≤ i) (er : Err)
    (hfail : openChunk P C (i / (P.chunk + P.tagLen))
      (win P ((Stack.run P H C K scfg cutTop cutComp ops).dest.set i v)
        (i / (P.chunk + P.tagLen))) = .error er) :
    Unforged P C (Stack.inner P H K scfg cutTop ops)
      ((Stack.run P H C K scfg cutTop cutComp ops).dest.set i v) ∧
    ((Stack.run P H C K scfg cutTop cutComp ops).dest.set i v).take P.chunk =
      (Stack.run P H C K scfg cutTop cutComp ops).dest.take P.chunk := by
  refine ⟨?_, List.take_set_of_le hi⟩
  rw [dest_sealS P H ops hacc hfin C K scfg henc cutTop cutComp] at hfail ⊢
  exact unforged_set P C hTag _ i v er hfail

include hH hwf hacc hfin hlen hpos hK hTag henc in
/-- **C04.byte_altered_files** — one byte of the archive body, anywhere after the data of chunk 0,
    replaced by any value so that its chunk fails the tag check: the four conclusions for the repair
    of that file. -/
theorem byte_altered_files (i : Nat) (v : UInt8) (hi : P.chunk ≤ i) (er : Err)
    (hfail : openChunk P C (i / (P.chunk + P.tagLen))
      (win P ((Stack.run P H C K scfg cutTop cutComp ops).dest.set i v)
        (i / (P.chunk + P.tagLen))) = .error er) :
    let dl := failsafeDeliver P C K (LayerCfg.ofStack scfg) .authenticated
      ((Stack.run P H C K scfg cutTop cutComp ops).dest.set i v)
    let o := Repair.convert P H utf8 dl.1 dl.2
    (AllAccepted P H o.ops ∧ o.ops.getLast? = some .finalize ∧ (∀ op ∈ o.ops, op.WF utf8)) ∧
    (∀ name c', (name, c') ∈ specOf o.ops →
      ∃ c, (name, c) ∈ specOf ops ∧ c' <+: c ∧ (name ∉ o.unfinished → c' = c)) ∧
    ((specOf o.ops).map (·.1)).Nodup ∧
    (o.stop = .eoad → specOf o.ops = specOf ops ∧ o.unfinished = []) := by
  obtain ⟨hU, h0⟩ := set_hyps P H ops hacc hfin C K hTag scfg henc cutTop cutComp i v hi er hfail
  exact archive_files_file P H utf8 ops hH hwf hacc hfin hlen hpos C K hK hTag scfg henc cutTop
    cutComp _ hU h0

end

/-! ## 5. Non-vacuity -/

section Examples
open C01 C03

/-! ### encryption only: the example archive of `C04.files` (production constants, 100-byte chunks,
    5 chunks), bit 0 of byte 250 (inside chunk 2) flipped -/

/-- `corrupt_eq_cut`: the damaged body gives what the genuine body cut after two slots gives -/
example : failsafeDeliver exPa exC Codec.stored .enc .authenticated exDamaged =
    failsafeDeliver exPa exC Codec.stored .enc .authenticated
      (exSealed.take (cutAt exPa exC exDamaged)) :=
  corrupt_eq_cut exPa exC exPa_tag Codec.stored .enc rfl _ [] exDamaged exDamaged_unforged
    exDamaged_chunk0

set_option maxRecDepth 100000 in
example : cutAt exPa exC exDamaged = 232 ∧ exSealed.length = 507 := by decide

example : C02.Delivered (Writer.run exPa exH exOps).2.2
    (failsafeDeliver exPa exC Codec.stored .enc .authenticated exDamaged).1 :=
  delivered_corrupt exPa exH exOps exC Codec.stored Codec.stored_laws exPa_tag .enc rfl []
    (fun h => by cases h) exDamaged exDamaged_unforged exDamaged_chunk0

/-- `archive_files`: every hypothesis is met -/
example :
    let dl := failsafeDeliver exPa exC Codec.stored .enc .authenticated exDamaged
    let o := Repair.convert exPa exH (fun _ => true) dl.1 dl.2
    (∀ name c', (name, c') ∈ specOf o.ops →
      ∃ c, (name, c) ∈ specOf exOps ∧ c' <+: c ∧ (name ∉ o.unfinished → c' = c)) ∧
    (o.stop = .eoad → specOf o.ops = specOf exOps ∧ o.unfinished = []) :=
  let h := archive_files exPa exH (fun _ => true) exOps exH_len exOps_wf exPa_accepted exOps_last
    exOps_len exPa_pos exC Codec.stored Codec.stored_laws exPa_tag .enc rfl []
    (fun h => by cases h) exDamaged exDamaged_unforged exDamaged_chunk0
  ⟨h.2.1, h.2.2.2⟩

/-! ### `altered_eq_cut`: the 9-byte stream of C03 (chunk 4, tag 16): one genuine slot, then the
    tampered rest of `exBad` -/

example : failsafeDeliver exP exC Codec.stored .enc .authenticated
      (exGood.take (1 * (exP.chunk + exP.tagLen)) ++ exBad.drop 20) =
    failsafeDeliver exP exC Codec.stored .enc .authenticated
      (exGood.take (1 * (exP.chunk + exP.tagLen))) :=
  altered_eq_cut exP exC exLaws.tagLen Codec.stored .enc rfl exPlain [] 1 (by decide) (by decide) _
    (by apply unforged_of_check; decide) (by decide)

/-! ### the short case: a 2-byte stream under 4-byte chunks; a TAG byte (byte 10) of the only chunk
    altered.  Chunk 0 is not verified (D15): the 2 genuine bytes come out followed by 2 bytes of
    decrypted tag, exactly as from the genuine body (the cut at `cutAt = 20` keeps all 18 bytes) -/

def exShort : Bytes := sealS exP exC [1, 2]
def exShortBad : Bytes := exShort.set 10 (exShort.getD 10 0 ^^^ 1)

example : failsafeDeliver exP exC Codec.stored .enc .authenticated exShortBad =
    failsafeDeliver exP exC Codec.stored .enc .authenticated (exShort.take (cutAt exP exC exShortBad)) :=
  corrupt_eq_cut exP exC exLaws.tagLen Codec.stored .enc rfl [1, 2] [] exShortBad
    (unforged_set exP exC exLaws.tagLen [1, 2] 10 _ .wrongTag (by decide)) (by decide)

example : cutAt exP exC exShortBad = 20 ∧ exShort.length = 18 ∧
    failsafeDeliver exP exC Codec.stored .enc .authenticated exShortBad = ([1, 2, 7, 6], false) := by
  decide

/-! ### compression under encryption, written by the real writer stack: the example ops of C01
    through `Stack.run` (chunk 4, tag 16, blocks of 8 bytes, the stored-only brotli codec, the
    primitives of C03 whose tag depends on every ciphertext byte); `dest` has 4499 bytes = 225 chunk
    slots of 20 bytes; bit 0 of byte 1201 (a ciphertext byte of chunk 60) flipped -/

/-- what the writer stack put after the header -/
def exBody : Bytes :=
  (Stack.run EncFS.Pt exH exC Codec.stored exStackCfg Cut.whole Cut.whole exOps).dest
/-- … with one bit flipped -/
def exBodyBad : Bytes := exBody.set 1201 (exBody.getD 1201 0 ^^^ 1)

theorem exC_tagPt : ∀ i c, (exC.tag i c).length = EncFS.Pt.tagLen := fun _ _ => by
  simp [exC, EncFS.Pt, Params.scaled]

set_option maxRecDepth 1000000 in
/-- the damaged slot no longer verifies -/
theorem exBodyBad_fails : openChunk EncFS.Pt exC (1201 / (EncFS.Pt.chunk + EncFS.Pt.tagLen))
    (win EncFS.Pt exBodyBad (1201 / (EncFS.Pt.chunk + EncFS.Pt.tagLen))) = .error .wrongTag := by
  decide +kernel

/-- `archive_files_file` applies (hypotheses by `set_hyps`: no slot-by-slot computation) -/
example :
    let dl := failsafeDeliver EncFS.Pt exC Codec.stored .compEnc .authenticated exBodyBad
    let o := Repair.convert EncFS.Pt exH (fun _ => true) dl.1 dl.2
    (AllAccepted EncFS.Pt exH o.ops ∧ o.ops.getLast? = some .finalize ∧
      (∀ op ∈ o.ops, op.WF (fun _ => true))) ∧
    (∀ name c', (name, c') ∈ specOf o.ops →
      ∃ c, (name, c) ∈ specOf exOps ∧ c' <+: c ∧ (name ∉ o.unfinished → c' = c)) ∧
    ((specOf o.ops).map (·.1)).Nodup ∧
    (o.stop = .eoad → specOf o.ops = specOf exOps ∧ o.unfinished = []) :=
  byte_altered_files EncFS.Pt exH (fun _ => true) exOps exH_len exOps_wf exPt_accepted exOps_last
    exOps_len exPt_pos exC Codec.stored Codec.stored_laws exC_tagPt exStackCfg rfl Cut.whole Cut.whole
    1201 _ (by decide) .wrongTag exBodyBad_fails

/-- `corrupt_eq_cut_file`: the damaged file gives what the file cut after 60 slots gives -/
example : failsafeDeliver EncFS.Pt exC Codec.stored .compEnc .authenticated exBodyBad =
    failsafeDeliver EncFS.Pt exC Codec.stored .compEnc .authenticated
      (exBody.take (cutAt EncFS.Pt exC exBodyBad)) :=
  let h := set_hyps EncFS.Pt exH exOps exPt_accepted exOps_last exC Codec.stored exC_tagPt exStackCfg
    rfl Cut.whole Cut.whole 1201 _ (by decide) .wrongTag exBodyBad_fails
  corrupt_eq_cut_file EncFS.Pt exH exOps exPt_accepted exOps_last exC Codec.stored exC_tagPt
    exStackCfg rfl Cut.whole Cut.whole exBodyBad h.1 h.2

/-- what the fail-safe stack delivers from the damaged file -/
def exBadDl : Bytes × Bool :=
  failsafeDeliver EncFS.Pt exC Codec.stored .compEnc .authenticated exBodyBad

set_option maxRecDepth 1000000 in
/-- observed (kernel evaluation through decryption, decompression and repair): 60 slots = 240 bytes
    of the compressed stream are used, 150 bytes of blocks come out, the decompressor stops with an
    error; the three files are recovered with their whole content, all reported unfinished (their
    end-of-file blocks lie after the damage) -/
example :
    cutAt EncFS.Pt exC exBodyBad = 1200 ∧ exBadDl.1.length = 150 ∧ exBadDl.2 = true ∧
    specOf (Repair.convert EncFS.Pt exH (fun _ => true) exBadDl.1 exBadDl.2).ops =
      [([97], [1, 2, 7]), ([98], [9]), ([99], [5, 6])] ∧
    (Repair.convert EncFS.Pt exH (fun _ => true) exBadDl.1 exBadDl.2).unfinished =
      [[97], [98], [99]] := by
  decide +kernel

end Examples

end MlaModel.C04

/-
  `Codec.stored` (MlaModel/CodecStored.lean: brotli streams made of uncompressed meta-blocks only)
  satisfies the abstract codec contract `Codec.Laws` (MlaModel/Compress.lean).  Hence every theorem
  stated "for every codec satisfying `Codec.Laws`" has at least one executable instance, whose
  encoder output is accepted by the real `brotli` crate.

  No side condition: writes of any length (split into meta-blocks of at most 2^24 bytes), empty
  writes, flushes anywhere, any level.
-/
import MlaModel.Proofs.CodecStored
namespace MlaModel
open StoredPf

/-- K5 for the stored codec. -/
theorem Codec.stored_stream_finish (lvl : Nat) (acts : List EAct) (rest : Bytes) :
    let r := Codec.stored.runActs (Codec.stored.einit lvl) acts
    Codec.stored.decStream (r.2 ++ Codec.stored.efinish r.1 ++ rest)
      = (EAct.written acts, some rest, false) := by
  intro r
  obtain ⟨cs, hv, hfl, hs⟩ := runActs_stream acts (Codec.stored.einit lvl)
  show storedDecStream (r.2 ++ Codec.stored.efinish r.1 ++ rest) = _
  have hs' : r.2 ++ Codec.stored.efinish r.1 = sStream true cs := hs
  rw [hs', decStream_full cs rest hv, hfl]

/-- K4 for the stored codec. -/
theorem Codec.stored_dec_finish (lvl : Nat) (acts : List EAct) :
    let r := Codec.stored.runActs (Codec.stored.einit lvl) acts
    Codec.stored.dec (r.2 ++ Codec.stored.efinish r.1) = some (EAct.written acts) := by
  intro r
  have h := Codec.stored_stream_finish lvl acts []
  simp only [List.append_nil] at h
  have h' : storedDecStream (r.2 ++ Codec.stored.efinish r.1) = (EAct.written acts, some [], false) := h
  show (match storedDecStream (r.2 ++ Codec.stored.efinish r.1) with
    | (o, some [], false) => some o
    | _ => none) = _
  rw [h']

/-- K2 for the stored codec. -/
theorem Codec.stored_stream_prefix (lvl : Nat) (acts : List EAct) (k : Nat) :
    let r := Codec.stored.runActs (Codec.stored.einit lvl) acts
    k < (r.2 ++ Codec.stored.efinish r.1).length →
    (Codec.stored.decStream ((r.2 ++ Codec.stored.efinish r.1).take k)).1 <+: EAct.written acts ∧
    (Codec.stored.decStream ((r.2 ++ Codec.stored.efinish r.1).take k)).2.1 = none ∧
    (Codec.stored.decStream ((r.2 ++ Codec.stored.efinish r.1).take k)).2.2 = false := by
  intro r hk
  obtain ⟨cs, hv, hfl, hs⟩ := runActs_stream acts (Codec.stored.einit lvl)
  have hs' : r.2 ++ Codec.stored.efinish r.1 = sStream true cs := hs
  show (storedDecStream _).1 <+: _ ∧ (storedDecStream _).2.1 = none ∧ (storedDecStream _).2.2 = false
  rw [hs'] at hk ⊢
  rw [decStream_take cs k hv hk, ← hfl]
  exact ⟨sOut_prefix _ _ _, rfl, rfl⟩

/-- K1 for the stored codec. -/
theorem Codec.stored_stream_mono (lvl : Nat) (acts : List EAct) (k₁ k₂ : Nat) :
    let r := Codec.stored.runActs (Codec.stored.einit lvl) acts
    k₁ ≤ k₂ →
    (Codec.stored.decStream ((r.2 ++ Codec.stored.efinish r.1).take k₁)).1 <+:
      (Codec.stored.decStream ((r.2 ++ Codec.stored.efinish r.1).take k₂)).1 := by
  intro r hk
  obtain ⟨cs, hv, hfl, hs⟩ := runActs_stream acts (Codec.stored.einit lvl)
  have hs' : r.2 ++ Codec.stored.efinish r.1 = sStream true cs := hs
  show (storedDecStream _).1 <+: (storedDecStream _).1
  rw [hs']
  exact decStream_take_mono cs k₁ k₂ hv hk

/-- K3 for the stored codec. -/
theorem Codec.stored_stream_flush (lvl : Nat) (acts : List EAct) :
    let r := Codec.stored.runActs (Codec.stored.einit lvl) (acts ++ [.flush])
    (Codec.stored.decStream r.2).1 = EAct.written acts := by
  intro r
  have hr : r.2 = (Codec.stored.runActs (Codec.stored.einit lvl) acts).2 := runActs_flush acts _
  obtain ⟨cs, hv, hfl, hs⟩ := runActs_stream acts (Codec.stored.einit lvl)
  have hs' : (Codec.stored.runActs (Codec.stored.einit lvl) acts).2 ++
      Codec.stored.efinish (Codec.stored.runActs (Codec.stored.einit lvl) acts).1
        = sStream true cs := hs
  have hl1 := efinish_length (Codec.stored.runActs (Codec.stored.einit lvl) acts).1
  have ht : r.2 = (sStream true cs).take ((sStream true cs).length - 1) := by
    rw [hr, ← hs', List.length_append, hl1, Nat.add_sub_cancel, List.take_left]
  show (storedDecStream r.2).1 = _
  have hp := sStream_length_pos true cs
  rw [ht, decStream_take cs _ hv (by omega), sOut_last, hfl]

/-- `Codec.stored` satisfies the codec contract: the theorems proved for every codec satisfying
    `Codec.Laws` are not vacuous. -/
theorem Codec.stored_laws : Codec.Laws Codec.stored where
  dec_finish := Codec.stored_dec_finish
  stream_finish := Codec.stored_stream_finish
  stream_prefix := Codec.stored_stream_prefix
  stream_mono := Codec.stored_stream_mono
  stream_flush := Codec.stored_stream_flush

/-! ### Concrete instances (the laws have no hypothesis; these pin down the bytes involved):
    WBITS + first header `[32, 0, 16]`, data, second header `[8, 0, 8]`, data, end marker `[3]`. -/

example :
    let r := Codec.stored.runActs (Codec.stored.einit 5)
      [.write [1, 2, 3], .flush, .write [], .write [4, 5]]
    r.2 ++ Codec.stored.efinish r.1 = [32, 0, 16, 1, 2, 3, 8, 0, 8, 4, 5, 3] := by decide

example : Codec.stored.decStream [32, 0, 16, 1, 2, 3, 8, 0, 8, 4, 5, 3, 77]
    = ([1, 2, 3, 4, 5], some [77], false) := by decide

/-- cut inside the data of the second meta-block: the first block and the partial data are kept -/
example : Codec.stored.decStream [32, 0, 16, 1, 2, 3, 8, 0, 8, 4] = ([1, 2, 3, 4], none, false) := by
  decide

/-- cut inside the second header: the first block is kept -/
example : Codec.stored.decStream [32, 0, 16, 1, 2, 3, 8, 0] = ([1, 2, 3], none, false) := by decide

/-- cut just before the end marker -/
example : Codec.stored.decStream [32, 0, 16, 1, 2, 3, 8, 0, 8, 4, 5]
    = ([1, 2, 3, 4, 5], none, false) := by decide

/-- nothing written: the stream is `[6]` (WBITS, ISLAST, ISLASTEMPTY); flush before any write -/
example : Codec.stored.dec [6] = some [] := by decide
example : (Codec.stored.runActs (Codec.stored.einit 0) ([] ++ [.flush])).2 = [] := by decide
example : Codec.stored.decStream [] = ([], none, false) := by decide

end MlaModel

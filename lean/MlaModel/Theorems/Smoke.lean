import MlaModel.Basic
namespace MlaModel.Smoke
theorem le64_len (v : Nat) : (le64 v).length = 8 := by simp [le64]
end MlaModel.Smoke

/-
  Kernel-evaluated TESTS (not unbounded claims) relating the two decoders of the model on streams
  produced by the stored-only encoder: `Codec.stored`'s own reader (the one `Codec.Laws` is proved
  for) and the full RFC 7932 decoder of `MlaModel/Brotli` (the one the driver applies to the
  compressed blocks of real archives), in strict mode.  The unbounded agreement of the RFC decoder
  with the `brotli` crate is NOT proved: it is measured (tools/brotli/REPORT.md: 6 816 complete,
  33 258 truncated and 13 100 corrupt streams, plus the `table_mismatch = 0` cross-check of every
  block and stream prefix the checks meet, on every run).
-/
import MlaModel.CodecBrotli
import MlaModel.Brotli.Facts
namespace MlaModel.CodecBrotliTests
open MlaModel

/-- what the stored-only encoder emits for the writes `[1,2,3]`, flush, `[4]`, then finish -/
def exStream : Bytes :=
  let K := Codec.stored
  let r := K.runActs (K.einit 5) [.write [1, 2, 3], .flush, .write [4]]
  r.2 ++ K.efinish r.1

theorem exStream_val : exStream = [0x20, 0x00, 0x10, 1, 2, 3, 0x00, 0x00, 0x08, 4, 3] := by decide

/-- both decoders read it back, as one complete stream -/
theorem both_decode :
    Codec.stored.dec exStream = some [1, 2, 3, 4] ∧ brotliDec true exStream = some [1, 2, 3, 4] := by
  constructor
  · decide +kernel
  · decide +kernel

/-- followed by other bytes: both stop at the end of the stream and hand back the rest -/
theorem both_delimit :
    Codec.stored.decStream (exStream ++ [9, 9]) = ([1, 2, 3, 4], some [9, 9], false) ∧
    brotliDecStream true (exStream ++ [9, 9]) = ([1, 2, 3, 4], some [9, 9], false) := by
  constructor
  · decide +kernel
  · decide +kernel

/-- every proper prefix: both deliver the same bytes, see no end, reject nothing -/
theorem both_prefixes :
    ∀ k ∈ List.range exStream.length,
      Codec.stored.decStream (exStream.take k) = brotliDecStream true (exStream.take k) ∧
      (brotliDecStream true (exStream.take k)).2 = (none, false) := by
  decide +kernel

/-- the empty stream (an archive block that received no byte) -/
theorem empty_stream : brotliDec true (Codec.stored.efinish (Codec.stored.einit 5)) = some [] := by
  decide +kernel

end MlaModel.CodecBrotliTests

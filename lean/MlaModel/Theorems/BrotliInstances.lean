/-
  MlaModel.Theorems.BrotliInstances — the repair theorems that are stated "for a codec satisfying
  `Codec.Laws`", instantiated with `Codec.brotli strict` (stored encoder, native RFC 7932 decoder) through
  `Codec.brotli_laws`: no hypothesis about the codec is left.
-/
import MlaModel.Theorems.BrotliLaws
import MlaModel.Theorems.C14Stack
import MlaModel.Theorems.C05Stack
namespace MlaModel.BrotliInst
open MlaModel

/-- **C14.flush_file for the RFC 7932 decoder** — every cut of the archive file at or after a flush point
    repairs to files that extend what was appended before the flush; the decompression side is the native
    brotli decoder, nothing is assumed about it. -/
theorem flush_file_brotli (strict : Bool) (P : Params) (H : Bytes → Bytes) (utf8 : Bytes → Bool)
    (pre rest : List Op)
    (hH : ∀ b, (H b).length = hashLen) (hwf : ∀ op ∈ pre ++ .flush :: rest, op.WF utf8)
    (hacc : AllAccepted P H (pre ++ .flush :: rest))
    (hfin : (pre ++ .flush :: rest).getLast? = some .finalize)
    (hlen : (pre ++ .flush :: rest).length < U64)
    (hpos : (Writer.run P H (pre ++ .flush :: rest)).2.2.length < U64)
    (C : EncPrims) (hTag : ∀ i c, (C.tag i c).length = P.tagLen)
    (cfg : StackCfg) (cutTop cutComp : Cut) (mode : FsMode)
    (hm : mode = .unauthenticated ∨ cfg.encrypt = false) (n : Nat)
    (hn : (Stack.run P H C (Codec.brotli strict) cfg cutTop cutComp (pre ++ [.flush])).dest.length ≤ n) :
    let dest := (Stack.run P H C (Codec.brotli strict) cfg cutTop cutComp (pre ++ .flush :: rest)).dest
    let dl := failsafeDeliver P C (Codec.brotli strict) (LayerCfg.ofStack cfg) mode (dest.take n)
    ∀ name c, (name, c) ∈ specOf pre →
      ∃ c₂, (name, c₂) ∈ specOf (Repair.convert P H utf8 dl.1 dl.2).ops ∧ c <+: c₂ :=
  C14.flush_file P H utf8 pre rest hH hwf hacc hfin hlen hpos C (Codec.brotli strict)
    (Codec.brotli_laws strict) hTag cfg cutTop cutComp mode hm n hn

/-- **C05.archive_complete_file for the RFC 7932 decoder** — the intact archive file is repaired completely. -/
theorem archive_complete_file_brotli (strict : Bool) (P : Params) (H : Bytes → Bytes) (utf8 : Bytes → Bool)
    (ops : List Op)
    (hH : ∀ b, (H b).length = hashLen) (hwf : ∀ op ∈ ops, op.WF utf8)
    (hacc : AllAccepted P H ops) (hfin : ops.getLast? = some .finalize)
    (hlen : ops.length < U64) (hpos : (Writer.run P H ops).2.2.length < U64)
    (C : EncPrims) (hTag : ∀ i c, (C.tag i c).length = P.tagLen)
    (cfg : StackCfg) (cutTop cutComp : Cut) (mode : FsMode) :
    let dest := (Stack.run P H C (Codec.brotli strict) cfg cutTop cutComp ops).dest
    let dl := failsafeDeliver P C (Codec.brotli strict) (LayerCfg.ofStack cfg) mode dest
    let o := Repair.convert P H utf8 dl.1 dl.2
    o.stop = .eoad ∧ o.unfinished = [] ∧ specOf o.ops = specOf ops :=
  C05.archive_complete_file P H utf8 ops hH hwf hacc hfin hlen hpos C (Codec.brotli strict)
    (Codec.brotli_laws strict) hTag cfg cutTop cutComp mode

/-- **C05.archive_mono_file for the RFC 7932 decoder** — a longer truncation never recovers less. -/
theorem archive_mono_file_brotli (strict : Bool) (P : Params) (H : Bytes → Bytes) (utf8 : Bytes → Bool)
    (ops : List Op)
    (hH : ∀ b, (H b).length = hashLen) (hwf : ∀ op ∈ ops, op.WF utf8)
    (hacc : AllAccepted P H ops) (hfin : ops.getLast? = some .finalize)
    (hlen : ops.length < U64) (hpos : (Writer.run P H ops).2.2.length < U64)
    (C : EncPrims) (hTag : ∀ i c, (C.tag i c).length = P.tagLen)
    (cfg : StackCfg) (cutTop cutComp : Cut) (mode : FsMode) (n₁ n₂ : Nat) (hn : n₁ ≤ n₂)
    (hN : mode = .authenticated → cfg.encrypt = true →
      EncFS.NoForge P C (Stack.inner P H (Codec.brotli strict) cfg cutTop ops)) :
    let dest := (Stack.run P H C (Codec.brotli strict) cfg cutTop cutComp ops).dest
    let dl₁ := failsafeDeliver P C (Codec.brotli strict) (LayerCfg.ofStack cfg) mode (dest.take n₁)
    let dl₂ := failsafeDeliver P C (Codec.brotli strict) (LayerCfg.ofStack cfg) mode (dest.take n₂)
    ∀ name c₁, (name, c₁) ∈ specOf (Repair.convert P H utf8 dl₁.1 dl₁.2).ops →
      ∃ c₂, (name, c₂) ∈ specOf (Repair.convert P H utf8 dl₂.1 dl₂.2).ops ∧ c₁ <+: c₂ :=
  C05.archive_mono_file P H utf8 ops hH hwf hacc hfin hlen hpos C (Codec.brotli strict)
    (Codec.brotli_laws strict) hTag cfg cutTop cutComp mode n₁ n₂ hn hN

end MlaModel.BrotliInst

/-
  C05 — completeness and monotonicity of repair (`Repair.convert`), same setting as C02.

    * `complete` : (e) if the whole stream was delivered (followed by anything), repair reports
                   `EndOfOriginalArchiveData`, nothing is unfinished and the output has exactly the
                   original files.
    * `mono`     : (f) delivering more never recovers less: for `d₁ <+: d₂`, every file recovered
                   from `d₁` is recovered from `d₂` with at least the same content.
    * `exact`    : (g) what is recovered is exactly what is present in `d`: the files whose start
                   block lies completely inside `d` (`startsIn`), each with the concatenation, over
                   its content blocks whose 17-byte header lies completely inside `d`, of the part of
                   their payload that is inside `d` (`presentOf`).
-/
import MlaModel.Theorems.C02
namespace MlaModel.C05
open MlaModel C02

/-! ### what is present in the first `k` bytes of `encodeAll bs` (blocks start at offset `off`) -/

/-- bytes of file `i` present in the first `k` bytes: for every content block of `i` whose header
    (17 bytes from its offset) is inside, the part of its payload that is inside -/
def presentOf (i : Nat) : List Block → Nat → Nat → Bytes
  | [], _, _ => []
  | b :: bs, off, k =>
    (match b with
      | .content j d => if j = i ∧ off + 17 ≤ k then d.take (k - (off + 17)) else []
      | _ => []) ++ presentOf i bs (off + b.encode.length) k

/-- the files whose start block lies completely inside the first `k` bytes, in order -/
def startsIn : List Block → Nat → Nat → List (Bytes × Nat)
  | [], _, _ => []
  | b :: bs, off, k =>
    (match b with
      | .start id name => if off + b.encode.length ≤ k then [(name, id)] else []
      | _ => []) ++ startsIn bs (off + b.encode.length) k

theorem presentOf_beyond (i : Nat) (bs : List Block) (off k : Nat) (h : k ≤ off) :
    presentOf i bs off k = [] := by
  induction bs generalizing off with
  | nil => rfl
  | cons b bs ih =>
    simp only [presentOf]
    rw [ih _ (by omega)]
    cases b with
    | content j d =>
      have : ¬ (j = i ∧ off + 17 ≤ k) := by omega
      simp [this]
    | _ => rfl

theorem startsIn_beyond (bs : List Block) (off k : Nat) (h : k ≤ off) :
    startsIn bs off k = [] := by
  induction bs generalizing off with
  | nil => rfl
  | cons b bs ih =>
    have hp := Block.encode_pos b
    simp only [startsIn]
    rw [ih _ (by omega)]
    cases b with
    | start id name =>
      have : ¬ (off + (Block.start id name).encode.length ≤ k) := by omega
      simp [this]
    | _ => rfl

theorem presentOf_eq (i : Nat) (bs : List Block) (off k : Nat) :
    presentOf i bs off (off + k) = contentOf i (cutBlocks bs k) := by
  induction bs generalizing off k with
  | nil => rfl
  | cons b bs ih =>
    have hel := Block.encode_length b
    by_cases hlen : b.encode.length ≤ k
    · simp only [presentOf, cutBlocks, hlen, if_true, contentOf_cons]
      have : off + k = off + b.encode.length + (k - b.encode.length) := by omega
      rw [this, ih, ← this]
      congr 1
      cases b with
      | content j d =>
        simp only at hel
        simp only [Block.dataFor]
        by_cases hj : j = i
        · have h17 : off + 17 ≤ off + k := by omega
          simp only [hj, h17, and_self, if_true]
          apply List.take_of_length_le; omega
        · simp [hj]
      | _ => rfl
    · have hb : presentOf i bs (off + b.encode.length) (off + k) = [] :=
        presentOf_beyond _ _ _ _ (by omega)
      simp only [presentOf, cutBlocks, hlen, if_false, hb, List.append_nil]
      cases b with
      | content j d =>
        simp only
        by_cases h17 : 17 ≤ k
        · have h17' : off + 17 ≤ off + k := by omega
          have hk : off + k - (off + 17) = k - 17 := by omega
          by_cases hj : j = i
          · simp [hj, h17, h17', hk, Block.dataFor]
          · simp [hj, h17, Block.dataFor]
        · have h17' : ¬ off + 17 ≤ off + k := by omega
          simp [h17, h17']
      | _ => rfl

theorem startsIn_eq {H : Bytes → Bytes} (bs : List Block) (off k : Nat) (p p'' : PSt)
    (h : protoRun H p (cutBlocks bs k) = some p'') :
    p''.names = p.names ++ startsIn bs off (off + k) := by
  induction bs generalizing off k p with
  | nil =>
    simp only [cutBlocks, protoRun, Option.some.injEq] at h
    subst h; simp [startsIn]
  | cons b bs ih =>
    by_cases hlen : b.encode.length ≤ k
    · simp only [cutBlocks, hlen, if_true, protoRun] at h
      cases hs : protoStep H p b with
      | none => simp [hs] at h
      | some p' =>
        simp only [hs] at h
        have hk : off + b.encode.length + (k - b.encode.length) = off + k := by omega
        have ihh := ih (off + b.encode.length) (k - b.encode.length) p' h
        rw [hk] at ihh
        simp only [startsIn]
        rw [ihh]
        cases b with
        | start id name =>
          obtain ⟨_, _, rfl⟩ := protoStep_start_inv hs
          have : off + (Block.start id name).encode.length ≤ off + k := by omega
          simp [this]
        | content id d => obtain ⟨c, _, rfl⟩ := protoStep_content_inv hs; simp
        | eof id g => obtain ⟨c, _, _, rfl⟩ := protoStep_eof_inv hs; simp
        | eoad => simp [protoStep] at hs
    · have hb : startsIn bs (off + b.encode.length) (off + k) = [] :=
        startsIn_beyond _ _ _ (by omega)
      simp only [cutBlocks, hlen, if_false] at h
      simp only [startsIn, hb, List.append_nil]
      cases b with
      | content id d =>
        simp only at h
        by_cases h17 : 17 ≤ k
        · simp only [h17, if_true, protoRun] at h
          cases hs : protoStep H p (.content id (d.take (k - 17))) with
          | none => simp [hs] at h
          | some p' =>
            simp only [hs, Option.some.injEq] at h
            subst h
            obtain ⟨c, _, rfl⟩ := protoStep_content_inv hs
            simp
        · simp only [h17, if_false, protoRun, Option.some.injEq] at h
          subst h; simp
      | start id name =>
        simp only [protoRun, Option.some.injEq] at h
        subst h
        have : ¬ off + (Block.start id name).encode.length ≤ off + k := by omega
        simp [this]
      | eof id g =>
        simp only [protoRun, Option.some.injEq] at h
        subst h; simp
      | eoad =>
        simp only [protoRun, Option.some.injEq] at h
        subst h; simp

section
variable (P : Params) (H : Bytes → Bytes) (utf8 : Bytes → Bool) (ops : List Op)
variable (hH : ∀ b, (H b).length = hashLen) (hwf : ∀ op ∈ ops, op.WF utf8)
  (hacc : AllAccepted P H ops) (hfin : ops.getLast? = some .finalize)
  (hlen : ops.length < U64) (hpos : (Writer.run P H ops).2.2.length < U64)
include hH hwf hacc hfin hlen hpos

/-- **C05 (e)** — the whole stream (followed by anything): everything is recovered. -/
theorem complete (junk : Bytes) (endErr : Bool) :
    let o := Repair.convert P H utf8 ((Writer.run P H ops).2.2 ++ junk) endErr
    o.stop = .eoad ∧ o.unfinished = [] ∧ specOf o.ops = specOf ops := by
  intro o
  have hd : Delivered (Writer.run P H ops).2.2 ((Writer.run P H ops).2.2 ++ junk) :=
    Or.inr (List.prefix_append _ _)
  obtain ⟨nb, pf, hstream, _, _, _, hall⟩ := master P H utf8 ops hH hwf hacc hfin hlen hpos
  obtain ⟨p'', _, c1, _⟩ := hall _ endErr hd
  have hstop : o.stop = .eoad := by
    apply c1.2
    rw [hstream]; simp
  obtain ⟨h1, h2⟩ := eoad_complete P H utf8 ops hH hwf hacc hfin hlen hpos _ endErr hd hstop
  exact ⟨hstop, h2, h1⟩

/-- **C05 (f)** — more delivered bytes never recover less. -/
theorem mono (d₁ d₂ : Bytes) (e₁ e₂ : Bool) (h12 : d₁ <+: d₂)
    (hd₂ : Delivered (Writer.run P H ops).2.2 d₂) :
    ∀ name c₁, (name, c₁) ∈ specOf (Repair.convert P H utf8 d₁ e₁).ops →
      ∃ c₂, (name, c₂) ∈ specOf (Repair.convert P H utf8 d₂ e₂).ops ∧ c₁ <+: c₂ := by
  have hd₁ : Delivered (Writer.run P H ops).2.2 d₁ := by
    rcases hd₂ with h | h
    · exact Or.inl (h12.trans h)
    · rcases Nat.le_total d₁.length (Writer.run P H ops).2.2.length with hl | hl
      · exact Or.inl (List.prefix_of_prefix_length_le h12 h hl)
      · exact Or.inr (List.prefix_of_prefix_length_le h h12 hl)
  obtain ⟨nb, pf, _, hproto, _, _, hall⟩ := master P H utf8 ops hH hwf hacc hfin hlen hpos
  obtain ⟨p₁, hrun₁, _, _, _, _, s₁, _, _⟩ := hall d₁ e₁ hd₁
  obtain ⟨p₂, hrun₂, _, _, _, _, s₂, _, _⟩ := hall d₂ e₂ hd₂
  have hk := h12.length_le
  have hcomp := cut_compose nb d₁.length d₂.length hk
  intro name c₁ hmem
  rw [s₁] at hmem
  obtain ⟨q, hq, hqe⟩ := List.mem_map.1 hmem
  simp only [Prod.mk.injEq] at hqe
  obtain ⟨rfl, rfl⟩ := hqe
  obtain ⟨p3, h3, hpre⟩ := cut_run d₁.length hrun₂
  rw [hcomp, hrun₁] at h3
  simp only [Option.some.injEq] at h3
  subst h3
  refine ⟨contentOf q.2 (cutBlocks nb d₂.length), ?_, ?_⟩
  · rw [s₂]; exact List.mem_map.2 ⟨q, hpre.subset hq, rfl⟩
  · rw [← hcomp]; exact cut_content_prefix _ _ _

/-- **C05 (g)** — what is recovered is exactly what is present in `d`. -/
theorem exact :
    ∃ nb : List Block,
      (Writer.run P H ops).2.2 =
        encodeAll nb ++ tEoad :: encFooter (Writer.run P H ops).1.names (Writer.run P H ops).1.info ∧
      ∀ (d : Bytes) (endErr : Bool), Delivered (Writer.run P H ops).2.2 d →
        specOf (Repair.convert P H utf8 d endErr).ops =
          (startsIn nb 0 d.length).map fun q => (q.1, presentOf q.2 nb 0 d.length) := by
  obtain ⟨nb, pf, hstream, _, _, _, hall⟩ := master P H utf8 ops hH hwf hacc hfin hlen hpos
  refine ⟨nb, hstream, ?_⟩
  intro d endErr hd
  obtain ⟨p'', hrun, _, _, _, _, c5, _, _⟩ := hall d endErr hd
  have hn := startsIn_eq nb 0 d.length ⟨[], []⟩ p'' hrun
  simp only [List.nil_append, Nat.zero_add] at hn
  rw [c5, hn]
  apply List.map_congr_left
  intro q _
  have := presentOf_eq q.2 nb 0 d.length
  simp only [Nat.zero_add] at this
  rw [this]

end

/-! ### Non-vacuity (the example of C01) -/

open C01 in
set_option maxRecDepth 8192 in
/-- the whole stream followed by junk, evaluated -/
example :
    let o := Repair.convert Params.prod exH (fun _ => true)
      ((Writer.run Params.prod exH exOps).2.2 ++ [1, 2, 3]) true
    o.stop = .eoad ∧ o.unfinished = [] ∧
      specOf o.ops = [([97], [1, 2, 7]), ([98], [9]), ([99], [5, 6])] :=
  ⟨rfl, rfl, rfl⟩

open C01 in
/-- `complete` applies -/
example (junk : Bytes) (endErr : Bool) :
    specOf (Repair.convert Params.prod exH (fun _ => true)
      ((Writer.run Params.prod exH exOps).2.2 ++ junk) endErr).ops = specOf exOps :=
  (complete Params.prod exH (fun _ => true) exOps exH_len exOps_wf exOps_accepted exOps_last
    exOps_len exOps_pos junk endErr).2.2

open C01 in
/-- `mono` applies: cut at 54 (inside the payload of `a`) versus cut at 200 -/
example (name c₁ : Bytes)
    (h : (name, c₁) ∈ specOf (Repair.convert Params.prod exH (fun _ => true)
        ((Writer.run Params.prod exH exOps).2.2.take 54) true).ops) :
    ∃ c₂, (name, c₂) ∈ specOf (Repair.convert Params.prod exH (fun _ => true)
        ((Writer.run Params.prod exH exOps).2.2.take 200) false).ops ∧ c₁ <+: c₂ :=
  mono Params.prod exH (fun _ => true) exOps exH_len exOps_wf exOps_accepted exOps_last
    exOps_len exOps_pos _ _ true false
    (by
      have : List.take 54 (Writer.run Params.prod exH exOps).2.2 =
          List.take 54 (List.take 200 (Writer.run Params.prod exH exOps).2.2) := by
        rw [List.take_take]; rfl
      rw [this]; exact List.take_prefix _ _)
    (Or.inl (List.take_prefix _ _)) name c₁ h

/-- `presentOf` / `startsIn` on a small block list
    `start 0 a (bytes 0–17) ; content 0 [1,2,3] (header 18–34, payload 35–37) ;
     content 0 [4] (header 38–54, payload 55)`: the start block is inside from 18 bytes on; the
    payload of the first content block appears byte by byte from 36 on; the second content block
    counts once its header is inside (55 bytes), its payload byte with 56 -/
example :
    let bs := [Block.start 0 [97], .content 0 [1, 2, 3], .content 0 [4]]
    (startsIn bs 0 17, startsIn bs 0 18, presentOf 0 bs 0 36, presentOf 0 bs 0 37,
      presentOf 0 bs 0 54, presentOf 0 bs 0 55, presentOf 0 bs 0 56) =
    ([], [([97], 0)], [1], [1, 2], [1, 2, 3], [1, 2, 3], [1, 2, 3, 4]) := by
  rfl

end MlaModel.C05

/-
  C20 — The C interface produces the same archives as the Rust interface; null handles and failing
  callbacks answer an error status.

  Statements over `CApi.step` / `CApi.runFrom` (MlaModel/CApi.lean), for every environment
  (`Params`, hash, layer stack, header, `lossy`, fuel), every world and every call:

    * `refine_step`, `refine` : with a write callback that accepts any non-empty part of each buffer
      (and a flush callback that succeeds), every entry point called with live handles answers the
      status class of the corresponding `ArchiveWriter` call and hands the write callback exactly the
      bytes the Rust interface (`Rust.step` = `Writer.step` + layer stack over an infallible
      destination) emits — per call, and for whole call sequences (simulation by induction over
      the call list; the op list is the one the calls resolve to through the caller's handle cells).
      With the empty layer stack this is `Writer.runFrom` itself (`rust_id`, `refine_writer`).
    * `null_noop` : a call with a NULL argument or a NULL handle — never set, or cleared by the
      interface itself (`mla_archive_new` clears the config cell, `mla_archive_file_close` the file
      cell, `mla_archive_close` the archive cell) — answers `BadAPIArgument`, changes no component of
      the world and makes no callback call.  `badArg_iff` is the converse.
      `archiveNew_twice`, `fileClose_twice`, `use_after_close` (its last part: closing twice) are the instances the
      property names ("handles the interface cleared on release").
    * `failed_cb` : whenever an entry point answers `Success`, every answer the write callback gave
      during it was benign — a non-empty part accepted, or `EINTR` (4), which `write_all` retries —
      and every flush-callback answer was 0.  So a callback failure with any other code, or a
      reported 0-byte write, always surfaces as an error status.
    * Remark on code 4.  `io::ErrorKind::Interrupted` is std::io's "call again" convention, so a
      callback answering 4 is not reporting a failure (decision recorded with the property).  The
      reading in which it *would* count — `FailedCbFull`: `Success` ⇒ every invocation accepted a
      non-empty part — is false of the code: `failedCbFull_fails` exhibits a callback that answers 4
      once and then accepts, the call answers `Success`; with a callback answering 4 for ever the
      call does not return (`eintr_hangs`).  `failed_cb_partial` is that statement for callbacks that
      never answer 4.

  Not carried: memory safety of `Box::from_raw` / `Box::leak` (a live handle value really points to
  a live allocation of the right type), stale copies of handles the interface cleared, a write
  callback that reports more bytes than it was offered (slice out of range inside an `extern "C"`
  function: abort).  These are runtime facts observed by the harness (child process, abnormal
  termination = violation).
-/
import MlaModel.Proofs.CApi
namespace MlaModel.C20
open MlaModel MlaModel.CApi

/-! ### the Rust interface with the empty layer stack is the writer model -/

theorem rust_id_step (E : Env) (hL : E.L = Layer.id) (a : Archive E.L) (op : Op) :
    (Rust.step E a op).2.1 = (Writer.step E.P E.H a.w op).2.1 ∧
    (Rust.step E a op).1.w = (Writer.step E.P E.H a.w op).1 ∧
    (Rust.step E a op).2.2 = (Writer.step E.P E.H a.w op).2.2 := by
  obtain ⟨P, H, L, pol, hdr, lossy, fuel⟩ := E
  simp only at hL
  subst hL
  refine ⟨rfl, rfl, ?_⟩
  have aux : ∀ (l : Unit) (e : Bytes), (if e = [] then (l, []) else ((), e)).2 = e := by
    intro l e; by_cases he : e = [] <;> simp [he]
  cases op
  case flush => simp [Rust.step, Layer.feed, Layer.id, Writer.step]
  case finalize =>
    simp only [Rust.step, Layer.feed, Layer.id, Writer.step, stepFinalize]
    split
    · simp [Res.isOk]
    · split <;> simp [Res.isOk]
  all_goals exact aux _ _

/-- with the empty layer stack the Rust interface *is* `Writer.runFrom`: same results, same bytes -/
theorem rust_id (E : Env) (hL : E.L = Layer.id) (ops : List Op) :
    ∀ (a : Archive E.L),
      (Rust.runFrom E a ops).2.1 = (Writer.runFrom E.P E.H a.w ops).2.1 ∧
      (Rust.runFrom E a ops).2.2 = (Writer.runFrom E.P E.H a.w ops).2.2 ∧
      (Rust.runFrom E a ops).1.w = (Writer.runFrom E.P E.H a.w ops).1 := by
  induction ops with
  | nil => intro a; simp [Rust.runFrom, Writer.runFrom]
  | cons op ops ih =>
    intro a
    obtain ⟨h1, h2, h3⟩ := rust_id_step E hL a op
    obtain ⟨i1, i2, i3⟩ := ih (Rust.step E a op).1
    simp only [Rust.runFrom, Writer.runFrom]
    rw [h2] at i1 i2 i3
    simp [h1, h3, i1, i2, i3]

/-! ### good sinks -/

theorem emit_good (E : Env) (hg : E.pol.Good) (st : SinkSt) (b : Bytes) :
    ∃ st', emit E st b = (st', b, .ok) ∧ st'.flog = st.flog := by
  obtain ⟨st', h, _, hf⟩ := writeAll_good E.pol hg.1 (E.fuel + b.length) st b (by omega)
  exact ⟨st', h, hf⟩

theorem archOp_good (E : Env) (hg : E.pol.Good) (st : SinkSt) (a : Archive E.L) (op : Op) :
    ∃ st', archOp E st a op =
      ((Rust.step E a op).1, (Rust.step E a op).2.1, .ok, st', (Rust.step E a op).2.2) := by
  obtain ⟨st', h, _⟩ := emit_good E hg st (Rust.step E a op).2.2
  simp only [archOp, h]
  by_cases hf : op = .flush
  · simp [hf, flushCb, hg.2]
  · simp [hf]

/-! ### step on an archive call -/

theorem step_arch (E : Env) (w : World E.L) (c : Call) (a : Archive E.L) (op : Op)
    (hw : w.arch = .live a) (ho : opOf E w c = some op) :
    step E w c =
      (afterOp w c (archOp E w.sink a op).1 (archOp E w.sink a op).2.1 (archOp E w.sink a op).2.2.1
          (archOp E w.sink a op).2.2.2.1,
        ioStatus (archOp E w.sink a op).2.1 (archOp E w.sink a op).2.2.1,
        (archOp E w.sink a op).2.2.2.2) := by
  cases c <;> simp [opOf] at ho <;> simp [step, hw, ho, opOf]
  all_goals simp_all [opOf]

/-- **C20.refine, one call.**  Live handles, a write callback that accepts any non-empty part of each
    buffer: the entry point answers the status class of the writer call, the callback receives
    exactly the bytes the Rust interface emits, and the archive cell holds the writer's new state
    (or is cleared, for `mla_archive_close`). -/
theorem refine_step (E : Env) (hg : E.pol.Good) (w : World E.L) (c : Call) (a : Archive E.L)
    (op : Op) (hw : w.arch = .live a) (ho : opOf E w c = some op) :
    (step E w c).2.1 = Status.ofRes (Rust.step E a op).2.1 ∧
    (step E w c).2.2 = (Rust.step E a op).2.2 ∧
    (step E w c).1.arch = (if c.isClose then .cleared else .live (Rust.step E a op).1) ∧
    (w.poisoned = false → (step E w c).1.poisoned = false) := by
  obtain ⟨st', h⟩ := archOp_good E hg w.sink a op
  rw [step_arch E w c a op hw ho, h]
  refine ⟨rfl, rfl, ?_, ?_⟩
  · cases c <;> simp [opOf] at ho <;> simp [afterOp, Call.isClose]
  · intro hp
    cases c <;> simp [opOf] at ho <;> simp [afterOp, hp]

/-- a call that does not reach the writer and is not `mla_archive_new` leaves the archive cell alone
    and hands nothing to the write callback -/
theorem step_none (E : Env) (w : World E.L) (c : Call) (ho : opOf E w c = none)
    (hn : c.isNew = false) :
    (step E w c).1.arch = w.arch ∧ (step E w c).2.2 = [] := by
  cases c <;> simp [Call.isNew] at hn
  case configNew o => simp only [step]; split <;> simp
  case configAddKeys k p =>
    simp only [step]
    split
    · simp
    · split
      · simp
      · split <;> simp
  case configSetLevel l =>
    simp only [step]
    split
    · simp
    · split <;> simp
  all_goals
    simp only [step, ho]
    split <;> simp_all

/-! ### runs -/

def opsOfRun (rs : List (Option Op × Status)) : List Op := rs.filterMap (·.1)

/-- statuses of the calls that reached the writer -/
def statusesOfRun (rs : List (Option Op × Status)) : List Status :=
  rs.filterMap fun x => x.1.map fun _ => x.2

theorem opOf_dead (E : Env) (w : World E.L) (c : Call) (hw : w.arch.get? = none) :
    opOf E w c = none := by
  cases c <;> simp [opOf, hw]
  all_goals (split <;> simp_all)

theorem run_dead (E : Env) (cs : List Call) (hn : ∀ c ∈ cs, c.isNew = false) :
    ∀ (w : World E.L), w.arch.get? = none →
      (runFrom E w cs).2.2 = [] ∧ opsOfRun (runFrom E w cs).2.1 = [] ∧
      statusesOfRun (runFrom E w cs).2.1 = [] := by
  induction cs with
  | nil => intro w _; simp [runFrom, opsOfRun, statusesOfRun]
  | cons c cs ih =>
    intro w hw
    have ho := opOf_dead E w c hw
    obtain ⟨h1, h2⟩ := step_none E w c ho (hn c (by simp))
    have := ih (fun c hc => hn c (by simp [hc])) (step E w c).1 (by rw [h1]; exact hw)
    obtain ⟨i1, i2, i3⟩ := this
    simp only [runFrom, ho, h2, i1, List.append_nil]
    refine ⟨trivial, ?_, ?_⟩
    · simpa [opsOfRun] using i2
    · simpa [statusesOfRun] using i3

/-- **C20.refine.**  From a world whose archive handle is live, any sequence of entry points (not
    opening another archive) driven by a write callback that accepts any non-empty part of each
    buffer: the calls that reach the writer answer, in order, the status classes of the
    `ArchiveWriter` calls they resolve to, and the bytes handed to the write callback are exactly
    the bytes the Rust interface emits for that op sequence — independently of the acceptance
    schedule. -/
theorem refine (E : Env) (hg : E.pol.Good) (cs : List Call) (hn : ∀ c ∈ cs, c.isNew = false) :
    ∀ (w : World E.L) (a : Archive E.L), w.arch = .live a →
      (runFrom E w cs).2.2 = (Rust.runFrom E a (opsOfRun (runFrom E w cs).2.1)).2.2 ∧
      statusesOfRun (runFrom E w cs).2.1 =
        (Rust.runFrom E a (opsOfRun (runFrom E w cs).2.1)).2.1.map Status.ofRes := by
  induction cs with
  | nil => intro w a _; simp [runFrom, opsOfRun, statusesOfRun, Rust.runFrom]
  | cons c cs ih =>
    intro w a hw
    have hn' : ∀ c ∈ cs, c.isNew = false := fun c hc => hn c (by simp [hc])
    cases ho : opOf E w c with
    | none =>
      obtain ⟨h1, h2⟩ := step_none E w c ho (hn c (by simp))
      obtain ⟨i1, i2⟩ := ih hn' (step E w c).1 a (by rw [h1]; exact hw)
      simp only [runFrom, ho, h2, List.nil_append]
      constructor
      · simpa [opsOfRun] using i1
      · simpa [opsOfRun, statusesOfRun] using i2
    | some op =>
      obtain ⟨s1, s2, s3, _⟩ := refine_step E hg w c a op hw ho
      by_cases hc : c.isClose = true
      · -- the archive is released: nothing after reaches the writer
        rw [if_pos hc] at s3
        obtain ⟨d1, d2, d3⟩ := run_dead E cs hn' (step E w c).1 (by rw [s3]; rfl)
        simp only [opsOfRun, statusesOfRun] at d2 d3
        simp [runFrom, ho, opsOfRun, statusesOfRun, d1, d2, d3, Rust.runFrom, s1, s2]
      · rw [if_neg hc] at s3
        obtain ⟨i1, i2⟩ := ih hn' (step E w c).1 (Rust.step E a op).1 s3
        simp only [opsOfRun, statusesOfRun] at i1 i2
        simp [runFrom, ho, opsOfRun, statusesOfRun, Rust.runFrom, s1, s2, i1, i2]

/-- **C20.refine** with the empty layer stack: the C entry points produce exactly the results and
    the byte stream of the writer model (C01's object) for the op sequence they resolve to. -/
theorem refine_writer (E : Env) (hL : E.L = Layer.id) (hg : E.pol.Good) (cs : List Call)
    (hn : ∀ c ∈ cs, c.isNew = false) (w : World E.L) (a : Archive E.L) (hw : w.arch = .live a) :
    (runFrom E w cs).2.2 = (Writer.runFrom E.P E.H a.w (opsOfRun (runFrom E w cs).2.1)).2.2 ∧
    statusesOfRun (runFrom E w cs).2.1 =
      (Writer.runFrom E.P E.H a.w (opsOfRun (runFrom E w cs).2.1)).2.1.map Status.ofRes := by
  obtain ⟨h1, h2⟩ := refine E hg cs hn w a hw
  obtain ⟨r1, r2, _⟩ := rust_id E hL (opsOfRun (runFrom E w cs).2.1) a
  rw [h1, h2, r1, r2]
  exact ⟨rfl, rfl⟩

/-! ### null handles -/

/-- **C20.null_noop.**  A call with a NULL argument or a NULL handle (never set, or cleared by the
    interface) answers `BadAPIArgument`, leaves every component of the world unchanged and makes no
    callback call. -/
theorem null_noop (E : Env) (w : World E.L) (c : Call) (h : NullCall w c) :
    step E w c = (w, .badArg, []) := by
  cases c <;> simp only [NullCall, Handle.isNull] at h
  case configNew o => simp [step, h]
  case configAddKeys k p =>
    simp only [step]
    rcases h with h | h
    · simp [h]
    · split <;> simp [h]
  case configSetLevel l => simp [step, h]
  case archiveNew a b c d =>
    simp only [step]
    rcases h with h | h | h | h | h <;> simp [h]
  case fileNew slot name o =>
    have : opOf E w (.fileNew slot name o) = none := by
      rcases h with h | h | h <;> simp [opOf, h]
      cases name <;> cases o <;> simp [opOf]
    simp only [step, this]
    split <;> simp_all
  case fileAppend slot buf =>
    have : opOf E w (.fileAppend slot buf) = none := by
      rcases h with h | h | h <;> simp [opOf, h]
      all_goals (cases buf <;> simp [opOf, h])
    simp only [step, this]
    split <;> simp_all
  case fileClose slot p =>
    have : opOf E w (.fileClose slot p) = none := by
      rcases h with h | h | h <;> simp [opOf, h]
      all_goals (cases p <;> simp [opOf, h])
    simp only [step, this]
    split <;> simp_all
  case flush =>
    have : opOf E w .flush = none := by simp [opOf, h]
    simp only [step, this]
    split <;> simp_all
  case close p =>
    have : opOf E w (.close p) = none := by
      rcases h with h | h <;> simp [opOf, h]
      cases p <;> simp [opOf, h]
    simp only [step, this]
    split <;> simp_all

/-- an archive call whose archive handle is live but which does not reach the writer has another
    NULL argument / handle -/
theorem opOf_none_null (E : Env) (w : World E.L) (c : Call) (a : Archive E.L)
    (ha : w.arch.get? = some a) (ho : opOf E w c = none) (hc : c.isArch = true) : NullCall w c := by
  cases c <;> simp [Call.isArch] at hc
  case fileNew slot name o =>
    cases name <;> cases o <;> simp [opOf, ha, NullCall] at ho ⊢
  case fileAppend slot buf =>
    cases buf <;> simp [opOf, ha, NullCall, Handle.isNull] at ho ⊢
    exact ho
  case fileClose slot p =>
    cases p <;> simp [opOf, ha, NullCall, Handle.isNull] at ho ⊢
    exact ho
  case flush => simp [opOf, ha] at ho
  case close p =>
    cases p <;> simp [opOf, ha, NullCall] at ho ⊢

theorem ofRes_ne_badArg (r : Res) : Status.ofRes r ≠ .badArg := by
  cases r <;> simp [Status.ofRes]

theorem ioStatus_ne_badArg (r : Res) (io : IoRes) : ioStatus r io ≠ .badArg := by
  cases io <;> simp [ioStatus, ofRes_ne_badArg]

/-- `BadAPIArgument` is answered *only* for NULL arguments / handles (the writer never produces it) -/
theorem badArg_only_null (E : Env) (w : World E.L) (c : Call)
    (h : (step E w c).2.1 = .badArg) : NullCall w c := by
  cases c
  case configNew o =>
    simp only [step] at h
    split at h <;> simp_all [NullCall]
  case configAddKeys k p =>
    simp only [step] at h
    split at h
    · simp_all [NullCall, Handle.isNull]
    · split at h
      · simp_all [NullCall]
      · split at h <;> simp at h
  case configSetLevel l =>
    simp only [step] at h
    split at h
    · simp_all [NullCall, Handle.isNull]
    · split at h <;> simp at h
  case archiveNew a b c d =>
    simp only [step] at h
    split at h
    · rename_i hh
      simp only [Bool.or_eq_true] at hh
      simp only [NullCall]
      rcases hh with ((hh | hh) | hh) | hh <;> simp [hh]
    · split at h
      · simp_all [NullCall, Handle.isNull]
      · split at h
        · simp at h
        · split at h <;> simp at h
  all_goals
    simp only [step] at h
    split at h
    · exact absurd h (ioStatus_ne_badArg _ _)
    · rename_i hne
      cases ha : w.arch.get? with
      | none => simp [NullCall, Handle.isNull, ha]
      | some a =>
        cases ho : opOf E w _ with
        | some op => exact absurd ho (hne a op ha)
        | none => exact opOf_none_null E w _ a ha ho (by simp [Call.isArch])

theorem badArg_iff (E : Env) (w : World E.L) (c : Call) :
    (step E w c).2.1 = .badArg ↔ NullCall w c :=
  ⟨badArg_only_null E w c, fun h => by rw [null_noop E w c h]⟩

/-- after `mla_archive_new` consumed the configuration, the config cell is cleared — whatever the
    outcome — so a second `mla_archive_new` on it answers `BadAPIArgument` and changes nothing (D19) -/
theorem archiveNew_twice (E : Env) (w : World E.L) (f1 f2 f3 f4 : Bool)
    (h : (step E w (.archiveNew false false false false)).2.1 ≠ .badArg) :
    (step E w (.archiveNew false false false false)).1.cfg = .cleared ∧
    step E (step E w (.archiveNew false false false false)).1 (.archiveNew f1 f2 f3 f4) =
      ((step E w (.archiveNew false false false false)).1, .badArg, []) := by
  have hc : (step E w (.archiveNew false false false false)).1.cfg = .cleared := by
    simp only [step] at h ⊢
    simp only [Bool.or_self, Bool.false_eq_true, if_false] at h ⊢
    split
    · simp_all
    · split
      · rfl
      · split <;> rfl
  refine ⟨hc, null_noop E _ _ ?_⟩
  simp [NullCall, Handle.isNull, hc]

/-- after `mla_archive_close` (whatever it answered, but with a live handle) the archive cell is
    cleared: every further archive call answers `BadAPIArgument` and changes nothing -/
theorem use_after_close (E : Env) (w : World E.L) (a : Archive E.L) (hw : w.arch = .live a)
    :
    (step E w (.close false)).1.arch = .cleared ∧
    (∀ slot name o, step E (step E w (.close false)).1 (.fileNew slot name o) =
        ((step E w (.close false)).1, .badArg, [])) ∧
    (∀ slot buf, step E (step E w (.close false)).1 (.fileAppend slot buf) =
        ((step E w (.close false)).1, .badArg, [])) ∧
    (∀ slot p, step E (step E w (.close false)).1 (.fileClose slot p) =
        ((step E w (.close false)).1, .badArg, [])) ∧
    step E (step E w (.close false)).1 .flush = ((step E w (.close false)).1, .badArg, []) ∧
    (∀ p, step E (step E w (.close false)).1 (.close p) =
        ((step E w (.close false)).1, .badArg, [])) := by
  have ho : opOf E w (.close false) = some .finalize := by simp [opOf, hw]
  have hcl : (step E w (.close false)).1.arch = .cleared := by
    rw [step_arch E w _ a _ hw ho]; rfl
  refine ⟨hcl, ?_, ?_, ?_, ?_, ?_⟩ <;> intros <;> apply null_noop <;>
    simp [NullCall, Handle.isNull, hcl]

/-- after `mla_archive_file_close` with live handles, the file cell is cleared: appending to it or
    closing it again answers `BadAPIArgument` and changes nothing -/
theorem fileClose_twice (E : Env) (w : World E.L) (a : Archive E.L) (slot id : Nat)
    (hw : w.arch = .live a) (hf : w.file slot = .live id) :
    (∀ buf, step E (step E w (.fileClose slot false)).1 (.fileAppend slot buf) =
        ((step E w (.fileClose slot false)).1, .badArg, [])) ∧
    (∀ p, step E (step E w (.fileClose slot false)).1 (.fileClose slot p) =
        ((step E w (.fileClose slot false)).1, .badArg, [])) := by
  have ho : opOf E w (.fileClose slot false) = some (.end_ id) := by simp [opOf, hw, hf]
  have hcl : (step E w (.fileClose slot false)).1.file slot = .cleared := by
    rw [step_arch E w _ a _ hw ho]
    simp only [afterOp, World.file]
    generalize w.files = l
    induction l with
    | nil => simp [aset, alookup]
    | cons x xs ih =>
      obtain ⟨k, v⟩ := x
      by_cases hk : k = slot
      · simp [aset, alookup, hk]
      · simp [aset, alookup, hk, ih]
  constructor <;> intros <;> apply null_noop <;> simp [NullCall, Handle.isNull, hcl]

/-! ### failing callbacks -/

theorem ioStatus_success (r : Res) (io : IoRes) (h : ioStatus r io = .success) : io = .ok := by
  cases io <;> simp_all [ioStatus]

theorem archOp_ok (E : Env) (st : SinkSt) (a : Archive E.L) (op : Op)
    (h : (archOp E st a op).2.2.1 = .ok) :
    (∃ evs, (archOp E st a op).2.2.2.1.log = evs ++ st.log ∧
      ∀ ev ∈ evs, ev.Benign ∧ ∃ call pos n, E.pol.write call pos n = ev) ∧
    (∃ zs, (archOp E st a op).2.2.2.1.flog = zs ++ st.flog ∧ ∀ z ∈ zs, z = 0) := by
  simp only [archOp] at h ⊢
  generalize hw : emit E st (Rust.step E a op).2.2 = wr at h ⊢
  obtain ⟨st', acc, io⟩ := wr
  have key : io = .ok →
      (∃ evs, st'.log = evs ++ st.log ∧
        ∀ ev ∈ evs, ev.Benign ∧ ∃ call pos n, E.pol.write call pos n = ev) ∧ st'.flog = st.flog := by
    intro hio
    subst hio
    obtain ⟨_, hf, evs, hl, hb⟩ := writeAll_ok _ _ _ _ _ _ hw
    exact ⟨⟨evs, hl, hb⟩, hf⟩
  by_cases hc : op = .flush ∧ io = .ok
  · obtain ⟨hl, hf⟩ := key hc.2
    simp only [hc, and_self, if_true, flushCb] at h ⊢
    split at h
    · rename_i hz
      exact ⟨hl, [E.pol.flush st'.flog.length], by simp [hf], by simp [hz]⟩
    · simp at h
  · simp only [hc, if_false] at h ⊢
    obtain ⟨hl, hf⟩ := key h
    exact ⟨hl, [], by simp [hf], by simp⟩

theorem afterOp_sink {L} (w : World L) (c : Call) (a' : Archive L) (r : Res) (io : IoRes)
    (st : SinkSt) : (afterOp w c a' r io st).sink = st := by
  cases c <;> rfl

/-- **C20.failed_cb.**  If an entry point answers `Success`, then every answer the write callback
    gave during the call was benign (a non-empty part accepted, or EINTR = 4, which `write_all`
    retries), and every answer of the flush callback was 0.  Contrapositive: a write callback that
    reports 0 bytes or fails with a code other than 4, and a failing flush callback, always
    surface as an error status — never `Success`. -/
theorem failed_cb (E : Env) (w : World E.L) (c : Call) (h : (step E w c).2.1 = .success) :
    (∃ evs, (step E w c).1.sink.log = evs ++ w.sink.log ∧
      ∀ ev ∈ evs, ev.Benign ∧ ∃ call pos n, E.pol.write call pos n = ev) ∧
    (∃ zs, (step E w c).1.sink.flog = zs ++ w.sink.flog ∧ ∀ z ∈ zs, z = 0) := by
  have triv : ∀ (w' : World E.L), w'.sink = w.sink →
      (∃ evs, w'.sink.log = evs ++ w.sink.log ∧
        ∀ ev ∈ evs, ev.Benign ∧ ∃ call pos n, E.pol.write call pos n = ev) ∧
      (∃ zs, w'.sink.flog = zs ++ w.sink.flog ∧ ∀ z ∈ zs, z = (0 : Int)) :=
    fun w' hw => ⟨⟨[], by simp [hw], by simp⟩, ⟨[], by simp [hw], by simp⟩⟩
  by_cases hb : (step E w c).2.1 = .badArg
  · rw [hb] at h; simp at h
  have hnn : ¬ NullCall w c := fun hn => hb ((badArg_iff E w c).2 hn)
  cases c
  case configNew o =>
    simp only [step] at h ⊢
    split <;> exact triv _ rfl
  case configAddKeys k p =>
    simp only [step] at h ⊢
    split
    · exact triv _ rfl
    · split
      · exact triv _ rfl
      · split <;> exact triv _ rfl
  case configSetLevel l =>
    simp only [step] at h ⊢
    split
    · exact triv _ rfl
    · split <;> exact triv _ rfl
  case archiveNew a b c d =>
    simp only [NullCall, Handle.isNull, not_or] at hnn
    obtain ⟨ha, hb', hc, hd, hcfg⟩ := hnn
    cases hg : w.cfg.get? with
    | none => exact absurd hg hcfg
    | some cfg =>
      by_cases hk : cfg.keys = 0
      · have : step E w (.archiveNew a b c d) = ({ w with cfg := .cleared }, .err .config, []) := by
          simp [step, ha, hb', hc, hd, hg, hk]
        rw [this] at h; simp at h
      · generalize ho : emit E w.sink (E.hdr cfg.level cfg.keys) = o
        obtain ⟨st', acc, io⟩ := o
        have hst : (step E w (.archiveNew a b c d)).2.1 = ioStatus .ok io ∧
            (step E w (.archiveNew a b c d)).1.sink = st' := by
          simp only [step, ha, hb', hc, hd, hg, hk, ho, Bool.or_self, Bool.false_eq_true, if_false]
          cases io <;> simp [ioStatus, Status.ofRes]
        rw [hst.1] at h
        have hio := ioStatus_success _ _ h
        subst hio
        rw [hst.2]
        obtain ⟨_, hf, evs, hl, hb⟩ := writeAll_ok _ _ _ _ _ _ ho
        exact ⟨⟨evs, hl, hb⟩, ⟨[], by simp [hf], by simp⟩⟩
  all_goals
    cases ha : w.arch.get? with
    | none => exact absurd (by simp [NullCall, Handle.isNull, ha]) hnn
    | some a =>
      have hw : w.arch = .live a := by
        cases hx : w.arch <;> simp [hx] at ha
        rw [ha]
      cases ho : opOf E w _ with
      | none => exact absurd (opOf_none_null E w _ a ha ho (by simp [Call.isArch])) hnn
      | some op =>
        rw [step_arch E w _ a op hw ho] at h ⊢
        have hio := ioStatus_success _ _ h
        simp only [afterOp_sink]
        exact archOp_ok E w.sink a op hio

/-- the full reading of "a callback that reports failure ⇒ error status": whenever a call answers
    `Success`, the write callback accepted a non-empty part at every invocation -/
def FailedCbFull : Prop :=
  ∀ (E : Env) (w : World E.L) (c : Call), (step E w c).2.1 = .success →
    ∃ evs, (step E w c).1.sink.log = evs ++ w.sink.log ∧ ∀ ev ∈ evs, ev.Accepts

/-- the environment of the witnesses: empty layer stack, 9-byte header, identity hash -/
def witnessEnv (pol : SinkPol) : Env :=
  { P := Params.prod, H := fun b => b, L := Layer.id, pol := pol,
    hdr := fun _ _ => [0x4d, 0x4c, 0x41, 1, 0, 0, 0, 0, 0], lossy := fun b => b, fuel := 8 }

/-- write callback answering EINTR (4) at its first invocation, accepting everything afterwards -/
def eintrOnce : SinkPol :=
  { write := fun call _ n => if call = 0 then .fail EINTR else .take n, flush := fun _ => 0 }

def witnessWorld (pol : SinkPol) : World (witnessEnv pol).L :=
  { cfg := .live { level := 5, keys := 1 } }

/-- The full statement is false of the code: the write callback reports a failure (code 4) and
    `mla_archive_new` answers `Success` (the header is written by the retry). -/
theorem failedCbFull_fails : ¬ FailedCbFull := by
  intro h
  have := h (witnessEnv eintrOnce) (witnessWorld eintrOnce) (.archiveNew false false false false)
    (by decide)
  obtain ⟨evs, hl, hb⟩ := this
  have hlog : (step (witnessEnv eintrOnce) (witnessWorld eintrOnce)
      (.archiveNew false false false false)).1.sink.log = [.take 9, .fail EINTR] := by decide
  rw [hlog] at hl
  have : SinkEv.fail EINTR ∈ evs := by
    have : evs = [.take 9, .fail EINTR] := by simpa [witnessWorld] using hl.symm
    simp [this]
  exact hb _ this

/-- write callback answering EINTR forever: `write_all` never returns (the model's fuel runs out) -/
def eintrForever : SinkPol := { write := fun _ _ _ => .fail EINTR, flush := fun _ => 0 }

theorem eintr_hangs :
    (step (witnessEnv eintrForever) (witnessWorld eintrForever)
      (.archiveNew false false false false)).2.1 = .hang := by decide

theorem benign_accepts (ev : SinkEv) (hb : ev.Benign) (hne : ev ≠ .fail EINTR) : ev.Accepts := by
  cases ev with
  | take k => cases k <;> simp_all [SinkEv.Benign, SinkEv.Accepts]
  | fail code => simp_all [SinkEv.Benign]

/-- **C20.failed_cb_partial.**  For a write callback that never answers 4 (EINTR), the full
    statement holds: `Success` ⇒ every invocation during the call accepted a non-empty part, and the
    call never hangs. -/
theorem failed_cb_partial (E : Env) (hne : ∀ call pos n, E.pol.write call pos n ≠ .fail EINTR)
    (w : World E.L) (c : Call) (h : (step E w c).2.1 = .success) :
    ∃ evs, (step E w c).1.sink.log = evs ++ w.sink.log ∧ ∀ ev ∈ evs, ev.Accepts := by
  obtain ⟨⟨evs, hl, hb⟩, _⟩ := failed_cb E w c h
  refine ⟨evs, hl, fun ev hev => benign_accepts ev (hb ev hev).1 ?_⟩
  obtain ⟨call, pos, n, hp⟩ := (hb ev hev).2
  intro heq
  exact hne call pos n (hp.trans heq)

/-! ### the hypotheses are satisfiable: concrete instances -/

/-- a write callback that takes one byte per call -/
def oneByte : SinkPol := { write := fun _ _ _ => .take 1, flush := fun _ => 0 }

example : oneByte.Good := ⟨fun _ _ _ => ⟨0, rfl⟩, fun _ => rfl⟩

/-- a world with a live archive (empty layer stack) and the call sequence
    `file_new("a") ; append(1,2,3) ; flush ; file_close ; close ; close` -/
def exWorld (pol : SinkPol) : World (witnessEnv pol).L :=
  { arch := .live ⟨WState.init, ()⟩ }

def exCalls : List Call :=
  [.fileNew 0 (some [97]) false, .fileAppend 0 (some [1, 2, 3]), .flush, .fileClose 0 false,
   .close false, .close false]

example : ∀ c ∈ exCalls, c.isNew = false := by decide

set_option maxRecDepth 100000 in
/-- on it, byte-by-byte acceptance: all five writer calls answer Success, the sixth call (archive
    handle cleared by the fifth) answers BadAPIArgument, and the callback received what the writer
    model emits for `start a; append; flush; end; finalize` -/
example :
    (runFrom (witnessEnv oneByte) (exWorld oneByte) exCalls).2.1.map (·.2) =
      [.success, .success, .success, .success, .success, .badArg] ∧
    opsOfRun (runFrom (witnessEnv oneByte) (exWorld oneByte) exCalls).2.1 =
      [.start [97], .append 0 3 [1, 2, 3], .flush, .end_ 0, .finalize] ∧
    (runFrom (witnessEnv oneByte) (exWorld oneByte) exCalls).2.2 =
      (Writer.run Params.prod (fun b => b)
        [.start [97], .append 0 3 [1, 2, 3], .flush, .end_ 0, .finalize]).2.2 := by
  refine ⟨?_, ?_, ?_⟩ <;> decide

/-- `null_noop`'s hypothesis on a handle the interface cleared -/
example : NullCall (step (witnessEnv oneByte) (exWorld oneByte) (.close false)).1 (.close false) := by
  simp [NullCall, Handle.isNull, step, opOf, exWorld, afterOp]

/-- a write callback failing with code 5 (EIO) at its second invocation -/
def failSecond : SinkPol :=
  { write := fun call _ _ => if call = 1 then .fail 5 else .take 4, flush := fun _ => 0 }

/-- `failed_cb` at work: the header (9 bytes) needs three invocations; the second fails:
    `mla_archive_new` answers IOError, not Success, the config handle is cleared, no archive handle -/
example :
    (step (witnessEnv failSecond) (witnessWorld failSecond) (.archiveNew false false false false)).2.1
      = .err .io ∧
    (step (witnessEnv failSecond) (witnessWorld failSecond) (.archiveNew false false false false)).1.cfg
      = .cleared := by
  decide

/-- `failed_cb_partial`'s hypothesis holds of `failSecond` -/
example : ∀ call pos n, failSecond.write call pos n ≠ .fail EINTR := by
  intro call pos n
  simp only [failSecond]
  split <;> simp [EINTR]

end MlaModel.C20
